/-
  Error direction of property C12 on good types: whenever the rules REFUSE a typed value
  (not for lack of their own fuel), the compiled folder returns a Go error — by the same
  induction on the depth of the value as `FoldMain`, which supplies the successful prefix.
-/
import SF.Proofs.FoldErr
import SF.Proofs.CusErrSem
namespace SF.FoldProofs.Custom
open SF SF.Gotype SF.Gotype.Fold SF.Gotype.Rules

/-- (R) the compiled folder of `T` on refused values of depth < N -/
def ErrR (o : FoldOpts) (reg : Bool) (N : Nat) : Prop :=
  ∀ sn T v, vdepth v < N → goodC reg sn T = true → tdepth T ≤ 1000 → wtC reg T v = true → dynSmall v = true →
    ∀ cf op f, OpIn op sn → getReflectFold cf o op T = .ok f →
    ∀ m e, 3 * vdepth v + 1 ≤ m → foldF m reg T v = .error e → e ≠ .fuel →
    ∀ rf, 3 * vdepth v + 3 ≤ rf → ERRStep (fun s => run rf o .user f ⟨T, v⟩ s)

/-- (I) `foldInterfaceValue` on refused interface values of depth < N -/
def ErrI (o : FoldOpts) (reg : Bool) (N : Nat) : Prop :=
  ∀ i, vdepth i < N → wtC reg .iface i = true → dynSmall i = true →
    ∀ m e, 3 * vdepth i + 1 ≤ m → foldF m reg .iface i = .error e → e ≠ .fuel →
    ∀ rf, 3 * vdepth i + 3 ≤ rf → ERRStep (fun s => foldInterfaceValue rf o .user i s)

/-- (F) the field folders of a struct on struct values with a refused field, depth < N -/
def ErrF (o : FoldOpts) (reg : Bool) (N : Nat) : Prop :=
  ∀ sn fs vs, vdepthL vs + 1 < N → goodCFs reg sn fs = true → tdepthFs fs ≤ 1000 → wtCF reg fs vs = true →
    dynSmallL vs = true →
    ∀ (rv : RV) k, (∀ j f x, fs[j]? = some f → vs[j]? = some x → rv.field (k + j) = some ⟨f.typ, x⟩) →
    ∀ cf op fvs, OpIn op sn → (fs.zipIdx k).mapM (fun (x : Field × Nat) => buildFieldFold cf o op x.1 x.2) = .ok fvs →
    ∀ m e, 3 * vdepthL vs + 3 ≤ m →
      (fs.zip vs).mapM (fun (fx : Field × GoVal) => fieldF m reg fx.1 fx.2) = .error e → e ≠ .fuel →
    ∀ rf, 3 * (vdepthL vs + 1) + 2 ≤ rf →
      ERRStep (fun s => seqM (fun s fv => run rf o .user fv rv s) s (fvs.filterMap id))

theorem wt_string_inv {k : GoType} {kv : GoVal} (hk : k.under = .string) (h : wtC reg k kv = true) :
    ∃ b, kv = .str b := by
  rw [wtC_eq, hk] at h
  simp only [Bool.and_eq_true] at h
  replace h := h.2
  cases kv <;> simp at h
  exact ⟨_, rfl⟩

/-- the keys of a typed map with string keys are strings -/
theorem stringKeyed_of_wt {k e : GoType} (hk : k.under = .string) {ms : List (GoVal × GoVal)}
    (hw : wtCP reg k e ms = true) :
    ∃ es : List (Bytes × GoVal), stringKeyed ms = some es ∧ es.length = ms.length ∧
      All2 (fun (kx : GoVal × GoVal) (x : Bytes × GoVal) => kx.1 = .str x.1 ∧ kx.2 = x.2) ms es := by
  induction ms with
  | nil => exact ⟨[], rfl, rfl, .nil⟩
  | cons a ms ih =>
    obtain ⟨kv, y⟩ := a
    simp only [wtCP, Bool.and_eq_true] at hw
    obtain ⟨es, hes, hlen, hall⟩ := ih hw.2
    obtain ⟨b, rfl⟩ := wt_string_inv hk hw.1.1
    refine ⟨(b, y) :: es, ?_, by simp [hlen], .cons ⟨rfl, rfl⟩ hall⟩
    unfold stringKeyed at hes ⊢
    have hk : asStr (GoVal.str b) = some b := rfl
    simp only [List.map_cons, allSome, hk, Option.map_some]
    rw [hes]
    rfl

/-- the iterator of a map type on a map with a refused element -/
theorem mapiter_err {o : FoldOpts} {reg : Bool} {N : Nat}
    (hRs : RunSound o reg N) (hIs : IfaceSound o reg N) (hR : ErrR o reg N) (hI : ErrI o reg N)
    {sn : List String} {T k e : GoType} (hu : T.under = .map k e)
    (he : goodC reg sn e = true) (hde : tdepth e ≤ 1000) {v : GoVal}
    (hw : wtC reg T v = true) (hsm : dynSmall v = true) (hd : vdepth v < N + 1)
    {cf : Nat} {op : Open} {iter : ReFold} (hop : OpIn op sn)
    (hit : getReflectFoldMapKeys cf o op T = .ok iter)
    {m : Nat} {err : RuleErr} (hm : 3 * vdepth v + 1 ≤ m)
    (hspec : foldF m reg (.map k e) v = .error err) (hne : err ≠ .fuel) :
    ∀ rf, 3 * vdepth v + 2 ≤ rf → ERRStep (fun s => run rf o .user iter ⟨T, v⟩ s) := by
  obtain ⟨m', rfl⟩ := exists_succ (k := 0) (by omega : 0 + 1 ≤ m)
  cases cf with
  | zero => simp [getReflectFoldMapKeys] at hit
  | succ c =>
  rw [grfmk_good c o op hu] at hit
  have hks : k.under = .string := by
    cases hk : k.under <;> first | rfl | (simp [hk] at hit)
  have hsk := isStringKind_of_under hks
  simp only [hks] at hit
  have helem : T.elem = e := elem_of_under.2.2.1 k e hu
  rcases wt_map_inv hu hw with rfl | ⟨ms, rfl, hwp, hnd⟩
  · rw [foldF_map_nil] at hspec
    simp [hsk] at hspec
  · rw [foldF_map] at hspec
    simp only [hsk, Bool.not_true, Bool.false_eq_true, if_false] at hspec
    have hmm : ms.mapM (entryF m' reg e) = .error err := by
      cases hx : ms.mapM (entryF m' reg e) with
      | ok a => simp [hx, Except.map] at hspec
      | error e' => simp only [hx, Except.map, Except.error.injEq] at hspec; rw [hspec]
    obtain ⟨es, hske, hlen, hall⟩ := stringKeyed_of_wt hks hwp
    rw [vdepth_map] at hd hm
    have hsmP : dynSmallP ms = true := by simpa [dynSmall] using hsm
    -- every entry is fine for the rules or refused by them
    have hentry : ∀ x ∈ es, wtC reg e x.2 = true ∧ dynSmall x.2 = true ∧ vdepth x.2 ≤ vdepthP ms := by
      intro x hx
      obtain ⟨kx, hkx, _, e1⟩ := hall.mem_right hx
      rw [← e1]
      exact ⟨wtP_mem hwp hkx, dynSmallP_mem hsmP hkx, vdepthP_mem hkx⟩
    -- one entry is refused
    have hbad : ∃ x ∈ es, foldF m' reg e x.2 = .error err := by
      obtain ⟨pre, kx, post, hsplit, _, hkx⟩ := mapM_err_split hmm
      have hmem : kx ∈ ms := by rw [hsplit]; simp
      obtain ⟨x, hx, hkx1, hkx2⟩ := hall.mem_left hmem
      refine ⟨x, hx, ?_⟩
      obtain ⟨kv, y⟩ := kx
      simp only at hkx1 hkx2
      subst hkx1 hkx2
      exact entryF_err hkx
    intro rf hrf
    rw [vdepth_map] at hrf
    obtain ⟨rf', rfl⟩ := exists_succ (k := 0) (by omega : 0 + 1 ≤ rf)
    -- the three iterators
    have finish : ∀ (inner : St → Bytes × GoVal → St × Res),
        (∀ x ∈ es, ∀ r, foldF m' reg e x.2 = .ok r → OKStep (fun s => inner s x)) →
        (∀ x ∈ es, ∀ e2, foldF m' reg e x.2 = .error e2 → e2 ≠ .fuel → ERRStep (fun s => inner s x)) →
        ERRStep (fun s => rangeM (fun s (x : Bytes × GoVal) =>
          match emit s .user (.ev (.key x.1)) with
          | (s, .ok) => inner s x
          | r => r) es.length s es) := by
      intro inner hok herr
      refine rangeM_err _ es.length es ?_ ?_ (Nat.le_refl _)
      · intro x hx
        obtain ⟨h1, h2, h3⟩ := hentry x hx
        cases hfx : foldF m' reg e x.2 with
        | ok r => exact Or.inl (key_ok x.1 (fun s => inner s x) (hok x hx r hfx))
        | error e2 =>
          have hne2 : e2 ≠ .fuel := by
            intro h; subst h
            exact foldF_nofuel reg he h1 h2 (by omega) hfx
          exact Or.inr (key_err x.1 (fun s => inner s x) (herr x hx e2 hfx hne2))
      · obtain ⟨x, hx, hfx⟩ := hbad
        exact ⟨x, hx, key_err x.1 (fun s => inner s x) (herr x hx err hfx hne)⟩
    by_cases hi : e = .iface
    · subst hi
      simp only [Except.ok.injEq] at hit
      subst hit
      intro s hs
      dsimp only
      rw [run_mapInline]
      simp only [hske]
      refine finish (fun s x => foldInterfaceValue rf' o .user x.2 s) ?_ ?_ s hs
      · intro x hx r hr
        obtain ⟨h1, h2, h3⟩ := hentry x hx
        exact OKStep_of_ValOut (fun s hs => hIs x.2 (by omega) h1 m' r hr rf' (by omega) s hs)
      · intro x hx e2 hr hne2
        obtain ⟨h1, h2, h3⟩ := hentry x hx
        exact hI x.2 (by omega) h1 h2 m' e2 (by omega) hr hne2 rf' (by omega)
    · cases hpr : primOf? e with
      | some p =>
        -- a primitive element type is never refused
        exfalso
        obtain ⟨x, hx, hfx⟩ := hbad
        obtain ⟨h1, h2, h3⟩ := hentry x hx
        cases m' with
        | zero => simp only [foldF] at hfx; cases hfx; exact hne rfl
        | succ m2 =>
          obtain ⟨r, hr⟩ := scalar_noerr (m := m2) (reg := reg) he (isC1_unnamed (unnamed_of_prim hpr))
            (by rw [under_unnamed (unnamed_of_prim hpr)]; exact hpr) h1
          rw [hr] at hfx
          cases hfx
      | none =>
        cases hel : getReflectFold c o op e with
        | error err2 =>
          exfalso
          cases e <;> first | (exact absurd rfl hi) | (simp [hpr, hel] at hit)
        | ok el =>
          have : iter = .mapKeys el := by
            cases e <;> first | (exact absurd rfl hi) | (simp only [hpr, hel, Except.ok.injEq] at hit; exact hit.symm)
          subst this
          intro s hs
          dsimp only
          rw [run_mapKeys]
          simp only [hske, helem]
          refine finish (fun s x => run rf' o .user el ⟨e, x.2⟩ s) ?_ ?_ s hs
          · intro x hx r hr
            obtain ⟨h1, h2, h3⟩ := hentry x hx
            exact OKStep_of_ValOut (fun s hs => hRs sn e x.2 (by omega) he hde h1 c op el hop hel m' r hr rf'
              (by omega) s hs)
          · intro x hx e2 hr hne2
            obtain ⟨h1, h2, h3⟩ := hentry x hx
            exact hR sn e x.2 (by omega) he hde h1 h2 c op el hop hel m' e2 (by omega) hr hne2 rf' (by omega)

/-- `foldAnyReflect` on a typed value of a good dynamic type, refused by the rules — as a type
or as a value -/
theorem anyreflect_err {o : FoldOpts} {reg : Bool} (hreg : o.folders = reg) {N : Nat} (hR : ErrR o reg N)
    {sn seen : List String} {dt : GoType} {dv : GoVal} (hp : goodC reg sn dt = true) (hdt : tdepth dt ≤ dynBound)
    (hw : wtC reg dt dv = true) (hsm : dynSmall dv = true) (hd : vdepth dv < N)
    (hsub : ∀ x ∈ seen, x ∈ sn) {n m : Nat} {e : RuleErr} (hm : 3 * vdepth dv + 1 ≤ m)
    (hspec : (match typeOkF n reg seen dt with
      | .error e => (.error e : Except RuleErr RVal)
      | .ok () => foldF m reg dt dv) = .error e) (hne : e ≠ .fuel)
    {rf : Nat} (hrf : 3 * vdepth dv + 4 ≤ rf) :
    ERRStep (fun s => foldAnyReflect rf o .user ⟨dt, dv⟩ s) := by
  obtain ⟨rf', rfl⟩ := exists_succ (k := 0) (by omega : 0 + 1 ≤ rf)
  intro s hs
  dsimp only
  rw [foldAnyReflect_eq]
  cases htok : typeOkF n reg seen dt with
  | error e0 =>
    simp only [htok, Except.error.injEq] at hspec
    subst hspec
    obtain ⟨e', he'⟩ := compile_err' o hreg hp hdt hsub htok hne
    simp only [he']
    exact ⟨s, e', rfl⟩
  | ok u =>
    simp only [htok] at hspec
    obtain ⟨f, hf⟩ := compile_ok' o hreg hp hdt hsub htok
    simp only [hf]
    exact hR sn dt dv hd hp (by unfold dynBound at hdt; omega) hw hsm compileFuel {} f (OpIn_empty _) hf m e hm
      hspec hne rf' (by omega) s hs

/-! ## struct fields -/

/-- a field the rules refuse: its field folder returns an error -/
theorem field_err {o : FoldOpts} {reg : Bool} (hreg : o.folders = reg) {N : Nat}
    (hRs : RunSound o reg N) (hIs : IfaceSound o reg N)
    (hR : ErrR o reg N) (hI : ErrI o reg N) (hF : ErrF o reg N)
    {sn : List String} {f : Field} {x : GoVal} (hpf : goodCF reg sn f = true) (hdf : tdepth f.typ ≤ 1000)
    (hw : wtC reg f.typ x = true) (hlz : lazyField f = true → vdepth x ≤ lazyBound)
    (hsm : dynSmall x = true) (hd : vdepth x < N)
    {rv : RV} {k : Nat} (hfield : rv.field k = some ⟨f.typ, x⟩)
    {cf : Nat} {op : Open} {fo : Option ReFold} (hop : OpIn op sn)
    (hc : buildFieldFold cf o op f k = .ok fo)
    {m : Nat} {e : RuleErr} (hm : 3 * vdepth x + 3 ≤ m) (hspec : fieldF m reg f x = .error e)
    (hne : e ≠ .fuel) :
    ∃ fv, fo = some fv ∧ ∀ rf, 3 * (vdepth x + 1) + 2 ≤ rf → ERRStep (fun s => run rf o .user fv rv s) := by
  have hpt := goodF_typ hpf
  obtain ⟨sn', hsn', hpb⟩ := good_stripPtr f.typ sn hpt
  have hop1 := OpIn_mono hop hsn'
  have hnp' := stripPtr_not_ptr' hpt
  cases cf with
  | zero => simp [buildFieldFold] at hc
  | succ c =>
  obtain ⟨m', rfl⟩ := exists_succ (k := 0) (by omega : 0 + 1 ≤ m)
  rw [buildFieldFold_eq] at hc
  rw [fieldF_eq] at hspec
  cases hk : fieldKind f with
  | drop => simp [hk] at hspec
  | conflict => simp [hk] at hc
  | plain name =>
    simp only [hk] at hc hspec
    cases hvv : getReflectFold c o op f.typ with
    | error e0 => simp [hvv] at hc
    | ok vv =>
      simp only [hvv, Except.ok.injEq] at hc
      have hr := map_err_inv hspec
      refine ⟨_, hc.symm, ?_⟩
      intro rf hrf s hs
      obtain ⟨rf', rfl⟩ := exists_succ (k := 0) (by omega : 0 + 1 ≤ rf)
      dsimp only
      rw [run_field]
      simp only [hfield]
      exact key_err name _ (hR sn f.typ x hd hpt hdf hw hsm c op vv hop hvv m' e (by omega) hr hne rf' (by omega)) s hs
  | omitEmpty name =>
    simp only [hk] at hc hspec
    by_cases hi : isIfaceT (stripPtr f.typ).2 = true
    · -- an interface behind the pointers: the lazy resolver
      have hu := isIfaceT_iff.mp hi
      have hbt := baseType_good hpt hdf
      rw [hbt] at hc
      have hvv : getReflectFold c o op (stripPtr f.typ).2 = .ok .ifaceElem := by
        cases c with
        | zero => simp [getReflectFold] at hc
        | succ c' =>
          exact grf_iface c' o op hreg hpb (plain_of_notC1 (notC1_of_under_iface hpb hu) hnp') hop1 hu
      have hne2 : (makeResolveNonEmptyValue f.typ).isEmpty = false := by
        rw [mrnev_gen hpt hdf]
        simp [hi]
      simp only [hvv, hne2, Bool.false_eq_true, if_false, Except.ok.injEq] at hc
      have hlzx : vdepth x ≤ lazyBound := hlz (by simp [lazyField, hk, hi])
      unfold lazyBound at hlzx
      refine ⟨_, hc.symm, ?_⟩
      intro rf hrf s hs
      obtain ⟨rf', rfl⟩ := exists_succ (k := 0) (by omega : 0 + 1 ≤ rf)
      dsimp only
      rw [run_nonEmptyField]
      simp only [hfield]
      rcases lazy_resolve (vdepth x + 1) sn f.typ x (by omega) hpt hw hdf 1000 100000 (by omega) (by omega) with
        ⟨hemp, hres⟩ | ⟨hemp, rv', hl, hres⟩
      · simp [hemp] at hspec
      · simp only [hemp, Bool.false_eq_true, if_false] at hspec
        have hr := map_err_inv hspec
        obtain ⟨T', v', htar, hle, _, _, hstrict⟩ := lazy_err hl hpt hdf hw hsm hne (m := m') (by omega)
          (Or.inl ⟨hi, hr⟩)
        obtain ⟨hvd, htd⟩ := hstrict hi
        obtain ⟨sn2, seen2, n2, m2, hg2, hsub2, hm2, hmatch2⟩ := hle.refused
        rw [hres]
        refine key_err name _ ?_ s hs
        intro s hs
        obtain ⟨rf'', rfl⟩ := exists_succ (k := 0) (by omega : 0 + 1 ≤ rf')
        rw [run_ifaceElem_target htar]
        exact anyreflect_err hreg hR hg2 htd hle.typed hle.small (by omega) hsub2 hm2 hmatch2 hne (by omega) s hs
    have hni : isIfaceT (stripPtr f.typ).2 = false := by simpa using hi
    have hbt := baseType_good hpt hdf
    have hres := resolve_good hpt hw hdf hni
    have hemp := isEmptyF_deref sn f.typ hpt x 100000 hw
      (by have := stripPtr_le_tdepth f.typ; omega) hni
    rw [hbt] at hc
    cases hvv : getReflectFold c o op (stripPtr f.typ).2 with
    | error e0 => simp [hvv] at hc
    | ok vv =>
      simp only [hvv] at hc
      -- refused means: not empty, and its value is refused
      by_cases hem : isEmptyF 100000 f.typ x = true
      · simp [hem] at hspec
      · simp only [hem, Bool.false_eq_true, if_false] at hspec
        have hr := map_err_inv hspec
        obtain ⟨x', m'', hdr, hm'', hmm⟩ := foldF_deref_err sn f.typ hpt x m' e hw hr hne
        rw [hdr] at hres hemp
        simp only [] at hres hemp
        have hse : baseEmpty (stripPtr f.typ).2 x' = false := by
          rw [hemp] at hem; simpa using hem
        simp only [hse, Bool.false_eq_true, if_false] at hres
        obtain ⟨hwx', hdx'⟩ := deref_wt sn f.typ hpt x x' hw hdr
        have hdb := tdepth_stripPtr f.typ
        have hsmx' : dynSmall x' = true := deref_dynSmall hdr hsm
        have hinner : ∀ rf', 3 * vdepth x + 3 ≤ rf' →
            ERRStep (fun s => run rf' o .user vv ⟨(stripPtr f.typ).2, x'⟩ s) := by
          intro rf' hrf'
          exact hR sn' _ x' (by omega) hpb (by omega) hwx' hsmx' c op vv hop1 hvv m'' e (by omega) hm'' hne rf' (by omega)
        by_cases hne2 : (makeResolveNonEmptyValue f.typ).isEmpty = true
        · simp only [hne2, if_true, Except.ok.injEq] at hc
          have hnil : makeResolveNonEmptyValue f.typ = [] := List.isEmpty_iff.mp hne2
          rw [hnil, applyResolvers_nil1000] at hres
          simp only [RRes.keep.injEq, RV.mk.injEq] at hres
          obtain ⟨hb, hx'⟩ := hres
          refine ⟨_, hc.symm, ?_⟩
          intro rf hrf s hs
          obtain ⟨rf', rfl⟩ := exists_succ (k := 0) (by omega : 0 + 1 ≤ rf)
          dsimp only
          rw [run_field]
          simp only [hfield]
          have := hinner rf' (by omega)
          rw [← hb, ← hx'] at this
          exact key_err name _ this s hs
        · simp only [hne2, Bool.false_eq_true, if_false, Except.ok.injEq] at hc
          refine ⟨_, hc.symm, ?_⟩
          intro rf hrf s hs
          obtain ⟨rf', rfl⟩ := exists_succ (k := 0) (by omega : 0 + 1 ≤ rf)
          dsimp only
          rw [run_nonEmptyField]
          simp only [hfield, hres]
          exact key_err name _ (hinner rf' (by omega)) s hs
  | inline =>
    simp only [hk] at hc hspec
    have hni : isIfaceT (stripPtr f.typ).2 = false := by
      have := goodF_notIface hpf
      simpa [inlineIfaceF, hk] using this
    have hbt := baseType_good hpt hdf
    have hdb := tdepth_stripPtr f.typ
    obtain ⟨fi, hfi, rfl⟩ := map_ok_inv hc
    cases c with
    | zero => simp [buildFieldFoldInline] at hfi
    | succ c2 =>
    rw [bffi_good c2 o op f k (sn := sn') (by rw [hbt]; exact hpb) hop1, hbt] at hfi
    cases hbase : fieldFoldGenInline c2 o (enterInl op (stripPtr f.typ).2) (stripPtr f.typ).2 with
    | error e0 => simp [hbase] at hfi
    | ok base =>
      simp only [hbase, Except.ok.injEq] at hfi
      subst hfi
      refine ⟨_, rfl, ?_⟩
      obtain ⟨x', m'', hdr, hm'', hmm⟩ := inlineF_deref_err sn f.typ hpt x m' e hw hspec hne
      have hwalk := ptrWalk_good sn f.typ hpt x hw
      rw [hdr] at hwalk
      simp only [] at hwalk
      have hop2 := OpIn_enterInl hop1 (stripPtr f.typ).2
      have hnp := stripPtr_not_ptr f.typ sn hpt
      obtain ⟨hwx', hdx'⟩ := deref_wt sn f.typ hpt x x' hw hdr
      have hsmx' : dynSmall x' = true := deref_dynSmall hdr hsm
      -- the base folder on the value behind the pointers
      have hbaseRun : ∀ rf, 3 * vdepth x + 3 ≤ rf →
          ERRStep (fun s => run rf o .user base ⟨(stripPtr f.typ).2, x'⟩ s) := by
        intro rf hrf
        cases c2 with
        | zero => simp [fieldFoldGenInline] at hbase
        | succ c3 =>
        cases m'' with
        | zero => simp only [inlineF] at hm''; cases hm''; exact absurd rfl hne
        | succ m3 =>
        by_cases hb1 : isC1 reg (stripPtr f.typ).2 = true
        · -- a custom folder that emits no object: the `ExpectObjVisitor` refuses
          obtain ⟨bn, bm, bu, hbe, _, hk1, _, _⟩ := c1_shape hpb hb1
          have hnilF := goodF_notNil hpf
          simp only [inlineNilF, hk] at hnilF
          have hnilF' : isSliceOrMap bu = false := by
            unfold isC1 at hb1
            rw [hb1, Bool.true_and, hbe] at hnilF
            exact hnilF
          rw [hbe] at hb1 hpb hbase hm'' hwx' ⊢
          rw [ffgi_c1 c3 o _ hreg hpb hb1] at hbase
          cases hbase
          obtain ⟨p, hcp⟩ := Option.isSome_iff_exists.mp hb1
          obtain ⟨n', b⟩ := p
          rw [inlineF_c1 m3 hcp] at hm''
          have hnn : x' ≠ .nilSlice ∧ x' ≠ .nilMap := by
            have hwx2 := hwx'
            rw [wtC_eq] at hwx2
            simp only [Bool.and_eq_true, GoType.under] at hwx2
            replace hwx2 := hwx2.2
            constructor <;> (intro h; subst h; cases bu <;> first | (simp [badKind] at hk1; done) | (simp [isSliceOrMap] at hnilF' hwx2))
          have hm2 : (match customValue n' b x' with
              | .ok (.obj segs) => (.ok segs : Except RuleErr (List Seg))
              | .ok _ => .error .inlineNeedsObject
              | .error e => .error e) = .error e := by
            cases x' <;> first | exact hm'' | exact absurd rfl hnn.1 | exact absurd rfl hnn.2
          have hcus := wtC_cus hwx'
          unfold cusOK at hcus
          rw [hcp] at hcus
          obtain ⟨r', hcv⟩ := isOk_iff.mp hcus
          rw [hcv] at hm2
          obtain ⟨xs, hxs, hspx⟩ := customValue_ok hcv
          have hl := custom_leaf hxs hspx
          have hnil : isNilValue ⟨.named bn bm bu, x'⟩ = false := by
            refine isNilValue_false hwx' ?_ ?_ ?_ ?_ hnn.1 hnn.2 <;>
              (simp only [GoType.under]; intros; intro h; subst h; simp [badKind] at hk1)
          rcases hl.inl with ⟨segs', ys, ms, hr', _⟩ | ⟨_, e2, hthru⟩
          · subst hr'
            cases hm2
          · obtain ⟨rf1, rfl⟩ := exists_succ (k := 0) (by omega : 0 + 1 ≤ rf)
            obtain ⟨rf2, rfl⟩ := exists_succ (k := 0) (by omega : 0 + 1 ≤ rf1)
            obtain ⟨rf3, rfl⟩ := exists_succ (k := 0) (by omega : 0 + 1 ≤ rf2)
            intro s hs
            obtain ⟨s', h⟩ := embedd_err (rf3 + 2) o (leafC1 reg bn) ⟨_, x'⟩ hnil hl.quiet
              (fun c s => by rw [run_leafC1 rf3 o c hk1 hcp x' s, hxs]) hthru hs
            exact ⟨s', e2, h⟩
        have hb1' : isC1 reg (stripPtr f.typ).2 = false := by simpa using hb1
        rw [ffgi_good c3 o _ hreg hpb hb1' hnp'] at hbase
        obtain ⟨rf', rfl⟩ := exists_succ (k := 0) (by omega : 0 + 1 ≤ rf)
        rw [inlineF_under m3 hpb hb1'] at hm''
        have hgu := good_under hpb
        have hdu := tdepth_under hpb
        unfold isIfaceT at hni
        generalize (stripPtr f.typ).2 = bt at hbase hm'' hwx' hni hpb hdb hop2 hnp hgu hdu hb1' hnp' ⊢
        generalize hU : bt.under = U at hbase hm'' hni hgu hdu
        cases U with
        | struct fs' =>
          simp only [] at hbase
          cases c3 with
          | zero => simp [getReflectFoldStruct] at hbase
          | succ c4 =>
          rw [grfs_eq] at hbase
          cases hfvs : (fs'.zipIdx).mapM (fun (x : Field × Nat) => buildFieldFold c4 o (enterInl op bt) x.1 x.2) with
          | error e0 => simp [hfvs] at hbase
          | ok fvs' =>
            simp only [hfvs, if_true, Except.ok.injEq] at hbase
            subst hbase
            obtain ⟨vs', rfl, hwf⟩ := wt_struct_inv hU hwx'
            rw [inlineF_struct] at hm''
            have hmm2 := map_err_inv hm''
            rw [vdepth_struct] at hdx'
            have hfs' : goodCFs reg (snU sn' bt) fs' = true := by simpa [goodC] using hgu.1
            have hdfs : tdepthFs fs' ≤ 1000 := by
              simp only [tdepth] at hdu
              omega
            intro s hs
            dsimp only
            rw [run_fieldsFold]
            refine hF _ fs' vs' (by omega) hfs' hdfs hwf (by simpa [dynSmall] using hsmx') ⟨bt, .struct vs'⟩ 0 ?_
              c4 _ fvs' hop2 hfvs m3 e (by omega) hmm2 hne rf' (by omega) s hs
            intro j g y hg hy
            rw [Nat.zero_add]
            exact field_struct hU hg hy
        | map k' e' =>
          simp only [] at hbase
          have hke : goodC reg (snU sn' bt) k' = true ∧ goodC reg (snU sn' bt) e' = true := by
            simpa [goodC] using hgu.1
          have hde' : tdepth e' ≤ 1000 := by
            simp only [tdepth] at hdu
            omega
          have hfold : foldF m3 reg (.map k' e') x' = .error e := by
            have : inlineF (m3 + 1) reg (.map k' e') x' =
                match foldF m3 reg (.map k' e') x' with
                | .ok (.obj segs) => .ok segs
                | .ok _ => .error .inlineNeedsObject
                | .error e => .error e := rfl
            rw [this] at hm''
            cases hf : foldF m3 reg (.map k' e') x' with
            | error e0 => simp only [hf, Except.error.injEq] at hm''; rw [hm'']
            | ok r =>
              obtain ⟨segs, rfl⟩ := foldF_map_obj hf
              simp [hf] at hm''
          exact mapiter_err hRs hIs hR hI hU hke.2 hde' hwx' hsmx' (by omega)
            (OpIn_mono hop2 (fun _ hx => hx)) hbase (by omega) hfold hne (rf' + 1) (by omega)
        | iface => simp at hni
        | ptr e0 => exact absurd hU (hnp e0)
        | _ => simp at hbase
      intro rf hrf s hs
      obtain ⟨rf', rfl⟩ := exists_succ (k := 0) (by omega : 0 + 1 ≤ rf)
      dsimp only
      rw [run_fieldInline]
      simp only [hfield]
      unfold makeInlinePointerFold
      by_cases hn0 : (stripPtr f.typ).1 = 0
      · have hb : (stripPtr f.typ).2 = f.typ := by
          by_cases hpp : ∃ e, f.typ.under = .ptr e
          · obtain ⟨e0, he0⟩ := hpp
            rw [stripPtr_of_under_ptr he0 (headKind hpt)] at hn0
            simp at hn0
          · rw [stripPtr_of_under_nonptr hpt (fun e he => hpp ⟨e, he⟩)]
        have hx' : x' = x := by
          rw [hn0] at hdr; simpa [deref] using hdr.symm
        simp only [hn0, beq_self_eq_true, if_true]
        have := hbaseRun rf' (by omega) s hs
        rw [hb, hx'] at this
        exact this
      · have : ((stripPtr f.typ).1 == 0) = false := by simpa using hn0
        simp only [this, Bool.false_eq_true, if_false]
        obtain ⟨rf'', rfl⟩ := exists_succ (k := 0) (by omega : 0 + 1 ≤ rf')
        rw [run_inlinePointer, hwalk]
        exact hbaseRun rf'' (by omega) s hs

/-- (F) at depth N+1 -/
theorem fields_err_step {o : FoldOpts} {reg : Bool} (hreg : o.folders = reg) {N : Nat}
    (hRs : RunSound o reg N) (hIs : IfaceSound o reg N) (hFs : FieldsSound o reg N)
    (hR : ErrR o reg N) (hI : ErrI o reg N) (hF : ErrF o reg N) : ErrF o reg (N + 1) := by
  intro sn fs
  induction fs with
  | nil =>
    intro vs _ _ _ hw _ rv k _ cf op fvs _ hc m e _ hspec
    cases vs with
    | cons v vs => simp [wtCF] at hw
    | nil =>
      rw [List.zip_nil_right, mapM_nil] at hspec
      cases hspec
  | cons f fs ih =>
    intro vs hd hp hdt hw hsm rv k hfield cf op fvs hop hc m e hm hspec hne rf hrf
    cases vs with
    | nil => simp [wtCF] at hw
    | cons x vs =>
      simp only [wtCF, Bool.and_eq_true] at hw
      simp only [goodCFs, Bool.and_eq_true] at hp
      simp only [tdepthFs] at hdt
      simp only [vdepthL] at hd hrf hm
      simp only [dynSmallL, Bool.and_eq_true] at hsm
      rw [zipIdx_cons, mapM_cons] at hc
      rw [List.zip_cons_cons, mapM_cons] at hspec
      cases hfo : buildFieldFold cf o op f k with
      | error e0 => simp [hfo] at hc
      | ok fo =>
      cases hrest : (fs.zipIdx (k + 1)).mapM (fun (x : Field × Nat) => buildFieldFold cf o op x.1 x.2) with
      | error e0 => simp [hfo, hrest] at hc
      | ok fvs' =>
      simp only [hfo, hrest, Except.ok.injEq] at hc
      subst hc
      have hf0 := hfield 0 f x (by simp) (by simp)
      rw [Nat.add_zero] at hf0
      have hdf : tdepth f.typ ≤ 1000 := by rw [← tdepthF_typ]; omega
      have hlz : lazyField f = true → vdepth x ≤ lazyBound := by
        intro h
        have := hw.1.2
        simpa [h] using this
      cases hsg : fieldF m reg f x with
      | error e0 =>
        simp only [hsg, Except.error.injEq] at hspec
        subst hspec
        obtain ⟨fv, rfl, hrun⟩ := field_err hreg hRs hIs hR hI hF hp.1 hdf hw.1.1 hlz hsm.1 (by omega) hf0 hop hfo
          (by omega) hsg hne
        simp only [List.filterMap_cons, id]
        exact seqM_cons_err (hrun rf (by omega))
      | ok segs =>
      cases hsr : (fs.zip vs).mapM (fun (fx : Field × GoVal) => fieldF m reg fx.1 fx.2) with
      | ok segss' => simp [hsg, hsr] at hspec
      | error e0 =>
      simp only [hsg, hsr, Except.error.injEq] at hspec
      subst hspec
      have htail : ERRStep (fun s => seqM (fun s fv => run rf o .user fv rv s) s (fvs'.filterMap id)) := by
        refine ih vs (by omega) hp.2 (by omega) hw.2 hsm.2 rv (k + 1) ?_ cf op fvs' hop hrest m e0 (by omega) hsr hne
          rf (by omega)
        intro j g y hg hy
        have := hfield (j + 1) g y (by simpa using hg) (by simpa using hy)
        rw [← this]
        congr 1
        omega
      rcases field_sound hreg hRs hIs hFs hp.1 hdf hw.1.1 hlz (by omega) hf0 hop hfo hsg with ⟨rfl, rfl⟩ | ⟨fv, rfl, hrun⟩
      · simp only [List.filterMap_cons, id]
        exact htail
      · simp only [List.filterMap_cons, id]
        exact seqM_cons_ok_err (OKStep_of_MemsOut (fun s hs => hrun rf (by omega) s hs)) htail

/-! ## the induction steps -/

/-- a sequence value with a refused element -/
theorem seq_err {o : FoldOpts} {reg : Bool} {N : Nat} (hRs : RunSound o reg N) (hR : ErrR o reg N)
    {sn : List String} {e : GoType} (he : goodC reg sn e = true) (hde : tdepth e ≤ 1000) {xs : List GoVal}
    (hw : wtCL reg e xs = true) (hsm : dynSmallL xs = true) (hd : ∀ x ∈ xs, vdepth x < N)
    {cf : Nat} {op : Open} {el : ReFold} (hop : OpIn op sn) (hel : getReflectFold cf o op e = .ok el)
    {m : Nat} {err : RuleErr} (hm : ∀ x ∈ xs, 3 * vdepth x + 1 ≤ m)
    (hspec : xs.mapM (foldF m reg e) = .error err) (hne : err ≠ .fuel)
    {rf : Nat} (hrf : ∀ x ∈ xs, 3 * vdepth x + 3 ≤ rf) (l : Int) :
    ERRStep (fun s => match emit s .user (.ev (.arrStart l BT.any)) with
      | (s, .ok) =>
        match seqM (fun s x => run rf o .user el ⟨e, x⟩ s) s xs with
        | (s, .ok) => emit s .user (.ev .arrEnd)
        | r => r
      | r => r) := by
  obtain ⟨pre, x, post, rfl, hpre, hx⟩ := mapM_err_split hspec
  intro s hs
  refine wrap_err hs _ _ _ (seqM_err _ pre x post ?_ ?_)
  · intro y hy
    obtain ⟨r, hr⟩ := hpre y hy
    have hmem : y ∈ pre ++ x :: post := by simp [hy]
    exact OKStep_of_ValOut (fun s hs => hRs sn e y (hd y hmem) he hde (wtL_mem hw hmem) cf op el hop hel m r hr rf
      (hrf y hmem) s hs)
  · have hmem : x ∈ pre ++ x :: post := by simp
    exact hR sn e x (hd x hmem) he hde (wtL_mem hw hmem) (dynSmallL_mem hsm hmem) cf op el hop hel m err
      (hm x hmem) hx hne rf (hrf x hmem)

/-- rule 2 never refuses a typed value -/
theorem c1_noerr {reg : Bool} {T : GoType} (h1 : isC1 reg T = true) {v : GoVal} (hw : wtC reg T v = true)
    (m : Nat) : ∃ r, foldF (m + 1) reg T v = .ok r := by
  obtain ⟨p, hcp⟩ := Option.isSome_iff_exists.mp h1
  obtain ⟨n', b⟩ := p
  have hcus := wtC_cus hw
  unfold cusOK at hcus
  rw [hcp] at hcus
  obtain ⟨r, hr⟩ := isOk_iff.mp hcus
  exact ⟨r, by rw [foldF_c1 m hcp, hr]⟩

theorem c2_noerr {reg : Bool} {e : GoType} (h1 : isC1 reg e = true) {v : GoVal}
    (hw : wtC reg (.ptr e) v = true) (m : Nat) : ∃ r, foldF (m + 2) reg (.ptr e) v = .ok r := by
  rcases wt_ptr_inv' (T := .ptr e) rfl hw with ⟨rfl, hnt⟩ | ⟨x, rfl, hx, _⟩
  · exact foldF_ptr_nil_ok (m + 1) hnt
  · rw [foldF_ptr]
    exact c1_noerr h1 hx m

/-- (R) at depth N+1 -/
theorem run_err_step {o : FoldOpts} {reg : Bool} (hreg : o.folders = reg) {N : Nat}
    (hRs : RunSound o reg N) (hIs : IfaceSound o reg N)
    (hR : ErrR o reg N) (hI : ErrI o reg N) (hF1 : ErrF o reg (N + 1)) : ErrR o reg (N + 1) := by
  intro sn T v hd hp hdt hw hsm cf op f hop hc m e hm hspec hne rf hrf
  cases cf with
  | zero => simp [getReflectFold] at hc
  | succ c =>
  obtain ⟨rf', rfl⟩ := exists_succ (k := 0) (by omega : 0 + 1 ≤ rf)
  obtain ⟨m', rfl⟩ := exists_succ (k := 0) (by omega : 0 + 1 ≤ m)
  have hpl : plainT reg T = true := by
    rcases head_cases hp with ⟨n, mm, u, rfl, h1⟩ | ⟨n, mm, u, rfl, h1, hge⟩ | hpl
    · obtain ⟨r, hr⟩ := c1_noerr h1 hw m'
      rw [hr] at hspec; cases hspec
    · cases m' with
      | zero =>
        exfalso
        rcases wt_ptr_inv (T := .ptr (.named n mm u)) rfl hw with rfl | ⟨x, rfl, _⟩
        · obtain ⟨r, hr⟩ := foldF_ptr_nil_ok 0 ((wt_ptr_inv' (T := .ptr (.named n mm u)) rfl hw).elim
            (fun h => h.2) (fun ⟨_, h, _⟩ => by cases h))
          rw [hr] at hspec; cases hspec
        · rw [vdepth_ptr] at hm; omega
      | succ m2 =>
        obtain ⟨r, hr⟩ := c2_noerr h1 hw m2
        rw [hr] at hspec; cases hspec
    · exact hpl
  have h1 := plain_notC1 hpl
  have hgu := good_under hp
  have hdu := tdepth_under hp
  have hop' := OpIn_enter hop T
  have hspecU := hspec
  rw [foldF_under m' hp h1] at hspecU
  have prim_case : ∀ p, primOf? T.under = some p → False := by
    intro p hpr
    obtain ⟨r, hr⟩ := scalar_noerr (m := m') (reg := reg) hp h1 hpr hw
    rw [hr] at hspec
    cases hspec
  generalize hU : T.under = U at hgu hdu hspecU prim_case
  cases U with
  | bool => exact (prim_case _ rfl).elim
  | string => exact (prim_case _ rfl).elim
  | int k => exact (prim_case _ rfl).elim
  | float32 => exact (prim_case _ rfl).elim
  | float64 => exact (prim_case _ rfl).elim
  | named a b c => simp [unnamedHead] at hgu
  | ref a => simp [unnamedHead] at hgu
  | chan e0 =>
    rw [grf_unsupported c o op hreg hp hpl hop (Or.inl ⟨e0, hU⟩)] at hc
    cases hc
  | other k =>
    rw [grf_unsupported c o op hreg hp hpl hop (Or.inr ⟨k, hU⟩)] at hc
    cases hc
  | iface =>
    rw [grf_iface c o op hreg hp hpl hop hU] at hc
    cases hc
    rcases wt_iface_inv hU hw with rfl | ⟨dt, dv, rfl, hpd, hdd, hwd⟩
    · rw [foldF_iface_nil] at hspecU
      cases hspecU
    · rw [foldF_iface] at hspecU
      rw [vdepth_iface] at hd hrf hm
      simp only [dynSmall, Bool.and_eq_true, decide_eq_true_eq] at hsm
      intro s hs
      dsimp only
      rw [run_ifaceElem]
      simp only [hU]
      exact anyreflect_err hreg hR hpd hdd hwd hsm.2 (by omega) (fun _ h => h) (by omega) hspecU hne (by omega) s hs
  | slice e0 =>
    have he : goodC reg (snU sn T) e0 = true := by simpa [goodC] using hgu.1
    have hde : tdepth e0 ≤ 1000 := by simp only [tdepth] at hdu; omega
    have helem : T.elem = e0 := elem_of_under.1 e0 hU
    rcases wt_slice_inv hU hw with rfl | ⟨xs, rfl, hwl⟩
    · rw [foldF_slice_nil] at hspecU
      cases hspecU
    · rw [foldF_slice] at hspecU
      have hmm := map_err_inv hspecU
      rw [vdepth_slice] at hd hrf hm
      have hsmL : dynSmallL xs = true := by simpa [dynSmall] using hsm
      by_cases hfast : ∃ p, primOf? e0 = some p
      · -- elements of primitive type are never refused
        exfalso
        obtain ⟨p, hpr⟩ := hfast
        cases m' with
        | zero =>
          obtain ⟨pre, x, post, _, _, hx⟩ := mapM_err_split hmm
          simp only [foldF] at hx; cases hx; exact hne rfl
        | succ m2 =>
          obtain ⟨rs, hrs⟩ := mapM_noerr (f := foldF (m2 + 1) reg e0) (l := xs) (fun x hx =>
            scalar_noerr (m := m2) (reg := reg) he (isC1_unnamed (unnamed_of_prim hpr)) (by rw [under_unnamed (unnamed_of_prim hpr)]; exact hpr)
              (wtL_mem hwl hx))
          rw [hrs] at hmm
          cases hmm
      · have hnp : noPrimitive T := by
          refine noPrimitive_of_under hp ?_
          intro _
          rw [hU]
          cases hpr : primOf? e0 with
          | some p => exact absurd ⟨p, hpr⟩ hfast
          | none => simp [getReflectFoldPrimitive, hpr]
        cases c with
        | zero =>
          rw [grf_good 0 o op hreg hp hpl hop, hnp] at hc
          simp [hU, getReflectFoldSlice] at hc
        | succ c' =>
        rw [grf_slice c' o op hreg hp hpl hop hU hnp] at hc
        cases hel : getReflectFold c' o (op.enter T) e0 with
        | error err => simp [hel] at hc
        | ok el =>
          simp only [hel, Except.ok.injEq] at hc
          subst hc
          intro s hs
          dsimp only
          rw [run_slice_slice, helem]
          exact seq_err hRs hR he hde hwl hsmL (fun x hx => by have := vdepthL_mem hx; omega) hop' hel
            (fun x hx => by have := vdepthL_mem hx; omega) hmm hne
            (fun x hx => by have := vdepthL_mem hx; omega) _ s hs
  | array n e0 =>
    have he : goodC reg (snU sn T) e0 = true := by simpa [goodC] using hgu.1
    have hde : tdepth e0 ≤ 1000 := by simp only [tdepth] at hdu; omega
    have helem : T.elem = e0 := elem_of_under.2.1 n e0 hU
    obtain ⟨xs, rfl, hwl⟩ := wt_array_inv hU hw
    rw [foldF_array] at hspecU
    have hmm := map_err_inv hspecU
    rw [vdepth_array] at hd hrf hm
    have hsmL : dynSmallL xs = true := by simpa [dynSmall] using hsm
    cases c with
    | zero =>
      have hnp : noPrimitive T := by
        refine noPrimitive_of_under hp ?_
        intro _; rw [hU]; rfl
      rw [grf_good 0 o op hreg hp hpl hop, hnp] at hc
      simp [hU, getReflectFoldSlice] at hc
    | succ c' =>
    rw [grf_array c' o op hreg hp hpl hop hU] at hc
    cases hel : getReflectFold c' o (op.enter T) e0 with
    | error err => simp [hel] at hc
    | ok el =>
      simp only [hel, Except.ok.injEq] at hc
      subst hc
      intro s hs
      dsimp only
      rw [run_slice_array, helem]
      exact seq_err hRs hR he hde hwl hsmL (fun x hx => by have := vdepthL_mem hx; omega) hop' hel
        (fun x hx => by have := vdepthL_mem hx; omega) hmm hne
        (fun x hx => by have := vdepthL_mem hx; omega) _ s hs
  | ptr e0 =>
    have hnp : noPrimitive T := by
      refine noPrimitive_of_under hp ?_
      intro _; rw [hU]; rfl
    cases c with
    | zero =>
      rw [grf_good 0 o op hreg hp hpl hop, hnp] at hc
      simp [hU, getFoldPointer] at hc
    | succ c' =>
    rw [grf_ptr c' o op hreg hp hpl hop hU, baseType_good hp hdt] at hc
    cases hel : getReflectFold c' o (op.enter T) (stripPtr T).2 with
    | error err => simp [hel] at hc
    | ok el =>
      simp only [hel, Except.ok.injEq] at hc
      have hs1 := stripPtr_of_under_ptr hU (headKind hp)
      have hf : f = .pointer (stripPtr T).1 el := by
        rw [← hc, hs1]; simp [makePointerFold]
      subst hf
      obtain ⟨x', m'', hdr, hm'', hmm⟩ := foldF_deref_err sn T hp v (m' + 1) e hw hspec hne
      obtain ⟨sn', hsn', hpb⟩ : ∃ sn', (∀ x ∈ snU sn T, x ∈ sn') ∧ goodC reg sn' (stripPtr T).2 = true := by
        have hge := good_elem_of_ptr hp hU
        obtain ⟨sn', h1, h2⟩ := good_stripPtr e0 _ hge
        exact ⟨sn', h1, by rw [hs1]; exact h2⟩
      obtain ⟨hwx', hdx'⟩ := deref_wt sn T hp v x' hw hdr
      have hdb := tdepth_stripPtr T
      have h1 : 1 ≤ (stripPtr T).1 := by rw [hs1]; simp
      intro s hs
      dsimp only
      rw [run_pointer, ptrWalk_good sn T hp v hw, hdr]
      exact hR sn' _ x' (by omega) hpb (by omega) hwx' (deref_dynSmall hdr hsm) c' _ el
        (OpIn_mono hop' hsn') hel m'' e (by omega) hm'' hne rf' (by omega) s hs
  | struct fs =>
    have hfs : goodCFs reg (snU sn T) fs = true := by simpa [goodC] using hgu.1
    have hdfs : tdepthFs fs ≤ 1000 := by simp only [tdepth] at hdu; omega
    rw [grf_struct c o op hreg hp hpl hop hU] at hc
    cases c with
    | zero => simp [getReflectFoldStruct] at hc
    | succ c' =>
    rw [grfs_eq] at hc
    cases hfvs : (fs.zipIdx).mapM (fun (x : Field × Nat) => buildFieldFold c' o (op.enter T) x.1 x.2) with
    | error e0 => simp [hfvs] at hc
    | ok fvs =>
      simp only [hfvs, Bool.false_eq_true, if_false, Except.ok.injEq] at hc
      subst hc
      obtain ⟨vs, rfl, hwf⟩ := wt_struct_inv hU hw
      rw [foldF_struct] at hspecU
      have hmm := map_err_inv hspecU
      rw [vdepth_struct] at hd hrf hm
      intro s hs
      dsimp only
      rw [run_structFold]
      refine wrap_err hs _ _ _ ?_
      refine hF1 _ fs vs (by omega) hfs hdfs hwf (by simpa [dynSmall] using hsm) ⟨T, .struct vs⟩ 0 ?_ c' _ fvs
        hop' hfvs m' e (by omega) hmm hne rf' (by omega)
      intro j g y hg hy
      rw [Nat.zero_add]
      exact field_struct hU hg hy
  | map k e0 =>
    have hke : goodC reg (snU sn T) k = true ∧ goodC reg (snU sn T) e0 = true := by simpa [goodC] using hgu.1
    have hde : tdepth e0 ≤ 1000 := by simp only [tdepth] at hdu; omega
    by_cases hfast : unnamedHead T = true ∧ k = .string ∧ ∃ p, primOf? e0 = some p
    · -- a map of primitive elements is never refused
      exfalso
      obtain ⟨hu, rfl, p, hpr⟩ := hfast
      have hsk : isStringKind .string = true := rfl
      rcases wt_map_inv hU hw with rfl | ⟨ms, rfl, hwp, _⟩
      · rw [foldF_map_nil] at hspecU
        simp [hsk] at hspecU
      · rw [foldF_map] at hspecU
        simp only [hsk, Bool.not_true, Bool.false_eq_true, if_false] at hspecU
        have hmm := map_err_inv hspecU
        obtain ⟨pre, kx, post, hsplit, _, hkx⟩ := mapM_err_split hmm
        have hmem : kx ∈ ms := by rw [hsplit]; simp
        obtain ⟨es, _, _, hall⟩ := stringKeyed_of_wt (k := .string) (e := e0) rfl hwp
        obtain ⟨x, _, hkx1, hkx2⟩ := hall.mem_left hmem
        obtain ⟨kv, y⟩ := kx
        simp only at hkx1 hkx2
        subst hkx1
        have hfy := entryF_err hkx
        cases m' with
        | zero => simp only [foldF] at hfy; cases hfy; exact hne rfl
        | succ m2 =>
          obtain ⟨r, hr⟩ := scalar_noerr (m := m2) (reg := reg) hke.2 (isC1_unnamed (unnamed_of_prim hpr))
            (by rw [under_unnamed (unnamed_of_prim hpr)]; exact hpr) (wtP_mem hwp hmem)
          simp only at hr
          rw [hr] at hfy
          cases hfy
    · have hnp : noPrimitive T := by
        refine noPrimitive_of_under hp ?_
        intro hu
        rw [hU]
        by_cases hk2 : k = .string
        · subst hk2
          cases hpr : primOf? e0 with
          | some p => exact absurd ⟨hu, rfl, p, hpr⟩ hfast
          | none => simp [getReflectFoldPrimitive, hpr]
        · exact getReflectFoldPrimitive_map_nonstring hk2
      cases c with
      | zero =>
        rw [grf_good 0 o op hreg hp hpl hop, hnp] at hc
        simp [hU, getReflectFoldMap] at hc
      | succ c1 =>
      cases c1 with
      | zero =>
        rw [grf_good 1 o op hreg hp hpl hop, hnp] at hc
        simp [hU, getReflectFoldMap, getReflectFoldMapKeys] at hc
      | succ c2 =>
      rw [grf_map c2 o op hreg hp hpl hop hU hnp] at hc
      cases hit : getReflectFoldMapKeys (c2 + 1) o (op.enter T) T with
      | error err => simp [hit] at hc
      | ok iter =>
        simp only [hit, Except.ok.injEq] at hc
        subst hc
        have hiter := mapiter_err hRs hIs hR hI hU hke.2 hde hw hsm hd hop' hit hm hspecU hne rf' (by omega)
        intro s hs
        dsimp only
        rw [run_mapFold]
        have hme : ∃ ms, mapEntries? v = some ms := by
          rcases wt_map_inv hU hw with rfl | ⟨ms, rfl, _⟩
          · exact ⟨[], rfl⟩
          · exact ⟨ms, rfl⟩
        obtain ⟨ms, hms⟩ := hme
        simp only [hms]
        exact wrap_err hs _ _ _ hiter

/-- the dynamic types with a fast path are accepted by the rules -/
theorem fast_typeOk {reg : Bool} {dt : GoType} {fa : Fast} (hg : goodC reg [] dt = true)
    (h1 : isC1 reg dt = false)
    (hf : getFoldGoTypes dt.under = some fa) : typeOk reg dt = .ok () := by
  have shape : ∀ (n : Nat) (seen sn : List String) (U : GoType), goodC reg sn U = true → unnamedHead U = true →
      getFoldGoTypes U = some fa → typeOkF (n + 3) reg seen U = .ok () := by
    intro n seen sn U hgU huU hfU
    have leaf : ∀ e : GoType, goodC reg sn e = true → (e = .iface ∨ ∃ p, primOf? e = some p) →
        typeOkF (n + 1 + 1) reg seen e = .ok () := by
      intro e hge he
      rcases he with rfl | ⟨p, hp⟩
      · rfl
      · rw [typeOkF_unnamed (n + 1) reg seen (unnamed_of_prim hp)]
        cases e <;> first | rfl | (simp [primOf?] at hp)
    rw [typeOkF_unnamed (n + 2) reg seen huU]
    rcases gfgt_inv hfU with ⟨rfl, _⟩ | ⟨rfl, _⟩ | ⟨e, p, rfl, hpr, _⟩ | ⟨e, p, rfl, hpr, _⟩ | ⟨p, hpr, _⟩
    · exact leaf .iface rfl (Or.inl rfl)
    · have : isStringKind .string = true := rfl
      simp only [this, if_true]
      exact leaf .iface rfl (Or.inl rfl)
    · exact leaf e (good_of_prim hpr) (Or.inr ⟨p, hpr⟩)
    · have : isStringKind .string = true := rfl
      simp only [this, if_true]
      exact leaf e (good_of_prim hpr) (Or.inr ⟨p, hpr⟩)
    · cases U <;> first | rfl | (simp [primOf?] at hpr)
  unfold typeOk
  rcases headKind hg with hu | ⟨nm, m, u, rfl⟩
  · rw [under_unnamed hu] at hf
    exact shape 997 [] [] dt hg hu hf
  · rw [typeOkF_named 999 [] hg h1 (fun _ hx => by cases hx)]
    have hgu := good_under hg
    exact shape 996 [nm] [nm] u hgu.1 hgu.2 hf

/-- (I) at depth N+1 -/
theorem iface_err_step {o : FoldOpts} {reg : Bool} (hreg : o.folders = reg) {N : Nat}
    (hRs : RunSound o reg N) (hIs : IfaceSound o reg N)
    (hR : ErrR o reg N) (hI : ErrI o reg N) : ErrI o reg (N + 1) := by
  intro i hd hw hsm m e hm hspec hne rf hrf
  obtain ⟨rf', rfl⟩ := exists_succ (k := 0) (by omega : 0 + 1 ≤ rf)
  obtain ⟨m', rfl⟩ := exists_succ (k := 0) (by omega : 0 + 1 ≤ m)
  rcases wt_iface_inv (T := .iface) rfl hw with rfl | ⟨dt, dv, rfl, hpd, hdd, hwd⟩
  · rw [foldF_iface_nil] at hspec
    cases hspec
  · rw [foldF_iface] at hspec
    rw [vdepth_iface] at hd hrf hm
    simp only [dynSmall, Bool.and_eq_true, decide_eq_true_eq] at hsm
    have hpl : plainT reg dt = true := by
      rcases head_cases hpd with ⟨n, mm, u, rfl, h1⟩ | ⟨n, mm, u, rfl, h1, hge⟩ | hpl
      · exfalso
        have htok : typeOk reg (.named n mm u) = .ok () := typeOkF_c1 999 [] h1
        rw [htok] at hspec
        simp only [] at hspec
        cases m' with
        | zero => simp only [foldF] at hspec; cases hspec; exact hne rfl
        | succ m2 =>
          obtain ⟨r, hr⟩ := c1_noerr h1 hwd m2
          rw [hr] at hspec; cases hspec
      · exfalso
        have htok : typeOk reg (.ptr (.named n mm u)) = .ok () := by
          unfold typeOk
          rw [typeOkF_unnamed 999 reg [] rfl]
          exact typeOkF_c1 998 [] h1
        rw [htok] at hspec
        simp only [] at hspec
        obtain ⟨m2, rfl⟩ := exists_succ (k := 0) (by omega : 0 + 1 ≤ m')
        obtain ⟨m3, rfl⟩ := exists_succ (k := 0) (by omega : 0 + 1 ≤ m2)
        obtain ⟨r, hr⟩ := c2_noerr h1 hwd m3
        rw [hr] at hspec; cases hspec
      · exact hpl
    have h1 := plain_notC1 hpl
    intro s hs
    dsimp only
    rw [fiv_good rf' o hreg .user dv s hpd hpl]
    cases hg : fastSel dt with
    | none =>
      simp only []
      exact anyreflect_err hreg hR hpd hdd hwd hsm.2 (by omega) (fun _ h => h) (by omega) hspec hne (by omega) s hs
    | some fa =>
      simp only []
      have hfU := fastSel_inv hpd hg
      rw [fast_typeOk hpd h1 hfU] at hspec
      simp only [] at hspec
      obtain ⟨rf'', rfl⟩ := exists_succ (k := 0) (by omega : 0 + 1 ≤ rf')
      obtain ⟨m2, rfl⟩ : ∃ m2, m' = m2 + 1 := by
        cases m' with
        | zero => simp only [foldF] at hspec; cases hspec; exact absurd rfl hne
        | succ m2 => exact ⟨m2, rfl⟩
      have hspecU : foldF (m2 + 1) reg dt.under dv = .error e := by
        rw [← foldF_under m2 hpd h1]; exact hspec
      have hwU : wtC reg dt.under dv = true := by
        refine wt_under_shape hpd hwd ?_
        intro e0 he0
        rw [he0] at hfU
        simp [getFoldGoTypes, primOf?] at hfU
      have hgu := good_under hpd
      rcases gfgt_inv hfU with ⟨hU, rfl⟩ | ⟨hU, rfl⟩ | ⟨e0, p, hU, hpr, rfl⟩ |
        ⟨e0, p, hU, hpr, rfl⟩ | ⟨p, hpr, rfl⟩
      · -- []interface{}
        rw [runFast_arrIface]
        rw [hU] at hspecU hwU
        rcases wt_slice_inv (T := .slice .iface) rfl hwU with rfl | ⟨xs, rfl, hwl⟩
        · rw [foldF_slice_nil] at hspecU
          cases hspecU
        · rw [foldF_slice] at hspecU
          have hmm := map_err_inv hspecU
          obtain ⟨pre, x, post, rfl, hpre, hx⟩ := mapM_err_split hmm
          have hsmL : dynSmallL (pre ++ x :: post) = true := by simpa [dynSmall] using hsm.2
          rw [vdepth_slice] at hd hrf hm
          have : sliceElems? (GoVal.slice (pre ++ x :: post)) = some (pre ++ x :: post) := rfl
          simp only [this]
          refine wrap_err hs _ _ _ (seqM_err _ pre x post ?_ ?_)
          · intro y hy
            obtain ⟨r, hr⟩ := hpre y hy
            have hmem : y ∈ pre ++ x :: post := by simp [hy]
            have := vdepthL_mem hmem
            exact OKStep_of_ValOut (fun s hs => hIs y (by omega) (wtL_mem hwl hmem) m2 r hr rf'' (by omega) s hs)
          · have hmem : x ∈ pre ++ x :: post := by simp
            have := vdepthL_mem hmem
            exact hI x (by omega) (wtL_mem hwl hmem) (dynSmallL_mem hsmL hmem) m2 e (by omega) hx hne rf'' (by omega)
      · -- map[string]interface{}
        rw [runFast_mapIface]
        rw [hU] at hspecU hwU
        have hit : getReflectFoldMapKeys 1 o {} (.map .string .iface) = .ok (.mapInline none) := rfl
        rcases wt_map_inv (T := .map .string .iface) rfl hwU with rfl | ⟨ms, rfl, hwp, hnd⟩
        · rw [foldF_map_nil] at hspecU
          simp [isStringKind, GoType.under] at hspecU
        · have hiter := mapiter_err hRs hIs hR hI (T := .map .string .iface) rfl (sn := []) rfl (by decide)
            hwU hsm.2 (by omega) (OpIn_empty _) hit (by omega) hspecU hne (rf'' + 1) (by omega)
          obtain ⟨es, hske, _, _⟩ := stringKeyed_of_wt (k := .string) (e := .iface) rfl hwp
          have h1 : (mapEntries? (GoVal.map ms)).bind stringKeyed = some es := hske
          simp only [h1]
          refine wrap_err hs _ _ _ ?_
          intro s hs
          have := hiter s hs
          dsimp only at this
          rw [run_mapInline] at this
          simp only [hske] at this
          exact this
      · -- []X: never refused
        exfalso
        rw [hU] at hspecU hwU
        rcases wt_slice_inv (T := .slice e0) rfl hwU with rfl | ⟨xs, rfl, hwl⟩
        · rw [foldF_slice_nil] at hspecU; cases hspecU
        · rw [foldF_slice] at hspecU
          have hmm := map_err_inv hspecU
          cases m2 with
          | zero =>
            obtain ⟨pre, x, post, _, _, hx⟩ := mapM_err_split hmm
            simp only [foldF] at hx; cases hx; exact hne rfl
          | succ m3 =>
            obtain ⟨rs, hrs⟩ := mapM_noerr (f := foldF (m3 + 1) reg e0) (l := xs) (fun x hx =>
              scalar_noerr (m := m3) (reg := reg) (sn := []) (good_of_prim hpr) (isC1_unnamed (unnamed_of_prim hpr))
                (by rw [under_unnamed (unnamed_of_prim hpr)]; exact hpr) (wtL_mem hwl hx))
            rw [hrs] at hmm
            cases hmm
      · -- map[string]X: never refused
        exfalso
        rw [hU] at hspecU hwU
        have hsk : isStringKind .string = true := rfl
        rcases wt_map_inv (T := .map .string e0) rfl hwU with rfl | ⟨ms, rfl, hwp, _⟩
        · rw [foldF_map_nil] at hspecU
          simp [hsk] at hspecU
        · rw [foldF_map] at hspecU
          simp only [hsk, Bool.not_true, Bool.false_eq_true, if_false] at hspecU
          have hmm := map_err_inv hspecU
          obtain ⟨pre, kx, post, hsplit, _, hkx⟩ := mapM_err_split hmm
          have hmem : kx ∈ ms := by rw [hsplit]; simp
          obtain ⟨es, _, _, hall⟩ := stringKeyed_of_wt (k := .string) (e := e0) rfl hwp
          obtain ⟨x, _, hkx1, hkx2⟩ := hall.mem_left hmem
          obtain ⟨kv, y⟩ := kx
          simp only at hkx1 hkx2
          subst hkx1
          have hfy := entryF_err hkx
          cases m2 with
          | zero => simp only [foldF] at hfy; cases hfy; exact hne rfl
          | succ m3 =>
            obtain ⟨r, hr⟩ := scalar_noerr (m := m3) (reg := reg) (sn := []) (good_of_prim hpr) (isC1_unnamed (unnamed_of_prim hpr))
              (by rw [under_unnamed (unnamed_of_prim hpr)]; exact hpr) (wtP_mem hwp hmem)
            simp only at hr
            rw [hr] at hfy
            cases hfy
      · -- X: never refused
        exfalso
        obtain ⟨r, hr⟩ := scalar_noerr (m := m2) (reg := reg) hpd h1 hpr hwd
        rw [hr] at hspec
        cases hspec

/-- (R), (I), (F) for refused values, at every depth -/
theorem err_all (o : FoldOpts) {reg : Bool} (hreg : o.folders = reg) :
    ∀ N, ErrR o reg N ∧ ErrI o reg N ∧ ErrF o reg N := by
  intro N
  induction N with
  | zero =>
    refine ⟨?_, ?_, ?_⟩
    · intro sn T v hd; omega
    · intro i hd; omega
    · intro sn fs vs hd; omega
  | succ N ih =>
    obtain ⟨hR, hI, hF⟩ := ih
    obtain ⟨hRs, hIs, hFs⟩ := sound_all o hreg N
    have hF1 := fields_err_step hreg hRs hIs hFs hR hI hF
    exact ⟨run_err_step hreg hRs hIs hR hI hF1, iface_err_step hreg hRs hIs hR hI, hF1⟩

end SF.FoldProofs.Custom
