/-
  C06, converse direction: THE INDUCTION.  `Claims k`: for every configuration of the UBJSON
  parser inside a value — the start state of a marker just entered, the body of a plain /
  counted / typed array or object — an error-free run of `k` steps that ends with an EMPTY
  state stack has read the rest of that value as the grammar `LItem` describes it, and
  continues behind it in fewer steps.  By strong induction on `k`; every case inverts one
  step (SF/Proofs/UbjConvStep.lean) and applies the hypothesis to the rest of the run.
-/
import SF.Proofs.UbjConvStep
import SF.Proofs.UbjRefTop
set_option linter.unusedSimpArgs false
set_option linter.unusedVariables false
namespace SF.Ubjson.Conv
open SF SF.Ubjson SF.Ubjson.Parse SF.Ubjson.Chunk SF.Ubjson.Syn
open StateType StateStep

/-! ## events and well-formedness of lists of `LItem`s -/

def levElems (xs : List (Nat × LItem)) : List Ev := evElems (eraseElems xs)
def levList (xs : List LItem) : List Ev := evList (eraseList xs)
def levMems (ms : List (LW × Bytes × Nat × LItem)) : List Ev := evMems (eraseMems ms)
def levMemsT (ms : List (LW × Bytes × LItem)) : List Ev := evMems (eraseMemsT ms)
def lokElems (xs : List (Nat × LItem)) : Bool := okElems (eraseElems xs)
def lokTyped (t : UInt8) (xs : List LItem) : Bool := okTyped t (eraseList xs)
def lokMems (ms : List (LW × Bytes × Nat × LItem)) : Bool := okMems (eraseMems ms)
def lokMemsT (t : UInt8) (ms : List (LW × Bytes × LItem)) : Bool := okMemsT t (eraseMemsT ms)

theorem levElems_cons (n : Nat) (x : LItem) (xs : List (Nat × LItem)) :
    levElems ((n, x) :: xs) = x.events ++ levElems xs := rfl
theorem levList_cons (x : LItem) (xs : List LItem) : levList (x :: xs) = x.events ++ levList xs := rfl
theorem levMems_cons (kw : LW) (k : Bytes) (n : Nat) (v : LItem) (ms : List (LW × Bytes × Nat × LItem)) :
    levMems ((kw, k, n, v) :: ms) = .key k :: (v.events ++ levMems ms) := rfl
theorem levMemsT_cons (kw : LW) (k : Bytes) (v : LItem) (ms : List (LW × Bytes × LItem)) :
    levMemsT ((kw, k, v) :: ms) = .key k :: (v.events ++ levMemsT ms) := rfl
theorem lokElems_cons (n : Nat) (x : LItem) (xs : List (Nat × LItem)) :
    lokElems ((n, x) :: xs) = (x.ok && lokElems xs) := rfl
theorem lokTyped_cons (t : UInt8) (x : LItem) (xs : List LItem) :
    lokTyped t (x :: xs) = (x.ok && x.marker == t && lokTyped t xs) := rfl
theorem lokMems_cons (kw : LW) (k : Bytes) (n : Nat) (v : LItem) (ms : List (LW × Bytes × Nat × LItem)) :
    lokMems ((kw, k, n, v) :: ms) = (kw.fits k.length && v.ok && lokMems ms) := rfl
theorem lokMemsT_cons (t : UInt8) (kw : LW) (k : Bytes) (v : LItem) (ms : List (LW × Bytes × LItem)) :
    lokMemsT t ((kw, k, v) :: ms) = (kw.fits k.length && v.ok && v.marker == t && lokMemsT t ms) := rfl

/-! ## the claims -/

/-- the claims about error-free runs of exactly `k` steps that end with an empty state stack -/
structure Claims (k : Nat) : Prop where
  /-- the start state of marker `t`, just entered (pushed on `c :: S`) -/
  item : ∀ (t : UInt8) (st : St) (S : List St) (c : St) (VS : StateStack) (LS : List Int) (lc : Int) (vt : Nat)
    (E : List Ev) (b : Bytes) (q : P),
    markerToStartState t = some st → (t == noopMarker) = false → VSok VS →
    RunsK k (mk (c :: S) st VS LS lc vt E) b q → q.state.stack = [] →
    ∃ (x : LItem) (rest : Bytes) (vt' : Nat) (j : Nat), x.marker = t ∧ x.ok = true ∧ b = x.payload ++ rest ∧ j < k ∧
      RunsK j (mk S c VS LS lc vt' (x.events.reverse ++ E)) rest q
  /-- the body of a plain array -/
  arrDyn : ∀ (stp : StateStep) (S : List St) (c : St) (VS : StateStack) (LS : List Int) (lc : Int) (vt : Nat)
    (E : List Ev) (b : Bytes) (q : P), (stp = stStart ∨ stp = stCont) → VSok VS →
    RunsK k (mk (c :: S) ⟨stArrayDyn, stp⟩ VS LS lc vt E) b q → q.state.stack = [] →
    ∃ (xs : List (Nat × LItem)) (trail : Nat) (rest : Bytes) (vt' : Nat) (j : Nat), lokElems xs = true ∧
      b = lwireElems xs ++ (noops trail ++ arrEndMarker :: rest) ∧ j < k ∧
      RunsK j (mk S c VS LS lc vt' (.arrEnd :: ((levElems xs).reverse ++ E))) rest q
  /-- the body of a counted array, `n` elements to go -/
  arrCount : ∀ (n : Nat) (S : List St) (c : St) (VS : StateStack) (LS : List Int) (l0 : Int) (vt : Nat)
    (E : List Ev) (b : Bytes) (q : P), VSok VS →
    RunsK k (mk (c :: S) ⟨stArrayCount, stCont⟩ VS (l0 :: LS) n vt E) b q → q.state.stack = [] →
    ∃ (xs : List (Nat × LItem)) (rest : Bytes) (vt' : Nat) (j : Nat), xs.length = n ∧ lokElems xs = true ∧
      b = lwireElems xs ++ rest ∧ j < k ∧
      RunsK j (mk S c VS LS l0 vt' (.arrEnd :: ((levElems xs).reverse ++ E))) rest q
  /-- the body of a typed array with element type `t`, `n` elements to go -/
  arrTyped : ∀ (t : UInt8) (n : Nat) (S : List St) (c : St) (VS : StateStack) (LS : List Int) (l0 : Int) (vt : Nat)
    (E : List Ev) (b : Bytes) (q : P), markerToStartState t = some VS.current → (t == noopMarker) = false → VSok VS →
    RunsK k (mk (c :: S) ⟨stArrayTyped, stCont⟩ VS (l0 :: LS) n vt E) b q → q.state.stack = [] →
    ∃ (xs : List LItem) (rest : Bytes) (vt' : Nat) (j : Nat), xs.length = n ∧ lokTyped t xs = true ∧
      b = lpayList xs ++ rest ∧ j < k ∧
      RunsK j (mk S c VS.pop LS l0 vt' (.arrEnd :: ((levList xs).reverse ++ E))) rest q
  /-- the body of a plain object, before a key -/
  objDyn : ∀ (S : List St) (c : St) (VS : StateStack) (LS : List Int) (lc : Int) (vt : Nat)
    (E : List Ev) (b : Bytes) (q : P), VSok VS →
    RunsK k (mk (c :: S) ⟨stObjectDyn, stStart⟩ VS LS lc vt E) b q → q.state.stack = [] →
    ∃ (ms : List (LW × Bytes × Nat × LItem)) (rest : Bytes) (vt' : Nat) (j : Nat), lokMems ms = true ∧
      b = lwireMems ms ++ objEndMarker :: rest ∧ j < k ∧
      RunsK j (mk S c VS LS lc vt' (.objEnd :: ((levMems ms).reverse ++ E))) rest q
  /-- the body of a plain object, behind a key -/
  objDynC : ∀ (S : List St) (c : St) (VS : StateStack) (LS : List Int) (lc : Int) (vt : Nat)
    (E : List Ev) (b : Bytes) (q : P), VSok VS →
    RunsK k (mk (c :: S) ⟨stObjectDyn, stCont⟩ VS LS lc vt E) b q → q.state.stack = [] →
    ∃ (n : Nat) (x : LItem) (ms : List (LW × Bytes × Nat × LItem)) (rest : Bytes) (vt' : Nat) (j : Nat),
      x.ok = true ∧ lokMems ms = true ∧
      b = noops n ++ (x.marker :: (x.payload ++ (lwireMems ms ++ objEndMarker :: rest))) ∧ j < k ∧
      RunsK j (mk S c VS LS lc vt' (.objEnd :: ((levMems ms).reverse ++ (x.events.reverse ++ E)))) rest q
  /-- the body of a counted object, before a key, `n` members to go -/
  objCount : ∀ (n : Nat) (S : List St) (c : St) (VS : StateStack) (LS : List Int) (l0 : Int) (vt : Nat)
    (E : List Ev) (b : Bytes) (q : P), VSok VS →
    RunsK k (mk (c :: S) ⟨stObjectCount, stFieldName⟩ VS (l0 :: LS) n vt E) b q → q.state.stack = [] →
    ∃ (ms : List (LW × Bytes × Nat × LItem)) (rest : Bytes) (vt' : Nat) (j : Nat), ms.length = n ∧ lokMems ms = true ∧
      b = lwireMems ms ++ rest ∧ j < k ∧
      RunsK j (mk S c VS LS l0 vt' (.objEnd :: ((levMems ms).reverse ++ E))) rest q
  /-- the body of a counted object, behind a key, `n + 1` members to go with this one -/
  objCountC : ∀ (n : Nat) (S : List St) (c : St) (VS : StateStack) (LS : List Int) (l0 : Int) (vt : Nat)
    (E : List Ev) (b : Bytes) (q : P), VSok VS →
    RunsK k (mk (c :: S) ⟨stObjectCount, stCont⟩ VS (l0 :: LS) ((n + 1 : Nat) : Int) vt E) b q → q.state.stack = [] →
    ∃ (m : Nat) (x : LItem) (ms : List (LW × Bytes × Nat × LItem)) (rest : Bytes) (vt' : Nat) (j : Nat),
      ms.length = n ∧ x.ok = true ∧ lokMems ms = true ∧
      b = noops m ++ (x.marker :: (x.payload ++ (lwireMems ms ++ rest))) ∧ j < k ∧
      RunsK j (mk S c VS LS l0 vt' (.objEnd :: ((levMems ms).reverse ++ (x.events.reverse ++ E)))) rest q
  /-- the body of a typed object with element type `t`, before a key, `n` members to go -/
  objTyped : ∀ (t : UInt8) (n : Nat) (S : List St) (c : St) (VS : StateStack) (LS : List Int) (l0 : Int) (vt : Nat)
    (E : List Ev) (b : Bytes) (q : P), markerToStartState t = some VS.current → (t == noopMarker) = false → VSok VS →
    RunsK k (mk (c :: S) ⟨stObjectTyped, stFieldName⟩ VS (l0 :: LS) n vt E) b q → q.state.stack = [] →
    ∃ (ms : List (LW × Bytes × LItem)) (rest : Bytes) (vt' : Nat) (j : Nat), ms.length = n ∧ lokMemsT t ms = true ∧
      b = lpayMems ms ++ rest ∧ j < k ∧
      RunsK j (mk S c VS.pop LS l0 vt' (.objEnd :: ((levMemsT ms).reverse ++ E))) rest q

/-- the induction hypothesis -/
def IH (k : Nat) : Prop := ∀ j, j < k → Claims j

/-! ## a value, from a state that reads one -/

/-- after the step `stepValue` took on the marker `m` (not a no-op): the run reads the value -/
theorem value_conv {k : Nat} (ih : IH k) (S : List St) (c : St) (VS : StateStack) (LS : List Int) (lc : Int)
    (vt : Nat) (E : List Ev) (hc : c.type ≠ stFail) (hv : VSok VS) (m : UInt8) (bs : Bytes) (q : P)
    (hm : (m == noopMarker) = false) {j : Nat} (hj : j < k)
    (he : (stepValue (mk S c VS LS lc vt E) (m :: bs)).err = none)
    (hr : RunsK j (stepValue (mk S c VS LS lc vt E) (m :: bs)).p (stepValue (mk S c VS LS lc vt E) (m :: bs)).rest q)
    (hq : q.state.stack = []) :
    ∃ (x : LItem) (rest : Bytes) (vt' : Nat) (j' : Nat), x.marker = m ∧ x.ok = true ∧ bs = x.payload ++ rest ∧
      j' ≤ j ∧ RunsK j' (mk S c VS LS lc vt' (x.events.reverse ++ E)) rest q := by
  rcases stepValue_conv S c VS LS lc vt E hc m bs with h | ⟨h, _⟩ | ⟨x, h1, h2, h3, h4⟩ | ⟨st, h1, _, h4⟩
  · exact absurd he h
  · rw [h] at hm; exact absurd hm (by decide)
  · rw [h4] at hr
    exact ⟨x, bs, vt, j, h1, h3, by rw [h2]; rfl, Nat.le_refl _, hr⟩
  · rw [h4] at hr
    obtain ⟨x, rest, vt', j', k1, k2, k3, k4, k5⟩ := (ih j hj).item m st S c VS LS lc vt E bs q h1 hm hv hr hq
    exact ⟨x, rest, vt', j', k1, k2, k3, Nat.le_of_lt k4, k5⟩

/-- … from a state whose step is `stepValue` -/
theorem pos_conv {k : Nat} (ih : IH k) {cfg : P} (S : List St) (c : St) (VS : StateStack) (LS : List Int) (lc : Int)
    (vt : Nat) (E : List Ev) (hc : c.type ≠ stFail) (hv : VSok VS) (m : UInt8) (bs : Bytes) (q : P)
    (hm : (m == noopMarker) = false)
    (hpos : SameAs (dispatch cfg (m :: bs)) (stepValue (mk S c VS LS lc vt E) (m :: bs)))
    (hr : RunsK k cfg (m :: bs) q) (hq : q.state.stack = []) :
    ∃ (x : LItem) (rest : Bytes) (vt' : Nat) (j : Nat), x.marker = m ∧ x.ok = true ∧ bs = x.payload ++ rest ∧
      j < k ∧ RunsK j (mk S c VS LS lc vt' (x.events.reverse ++ E)) rest q := by
  obtain ⟨j, rfl, h1, h2⟩ := hr.next (more_cons _ _ _)
  obtain ⟨e1, e2⟩ := execStep_sameAs hpos
  have he : (stepValue (mk S c VS LS lc vt E) (m :: bs)).err = none := by rw [← e1]; exact h1
  obtain ⟨e3, e4⟩ := e2 he
  rw [e3, e4] at h2
  obtain ⟨x, rest, vt', j', k1, k2, k3, k4, k5⟩ :=
    value_conv ih S c VS LS lc vt E hc hv m bs q hm (Nat.lt_succ_self j) he h2 hq
  exact ⟨x, rest, vt', j', k1, k2, k3, by omega, k5⟩

/-! ## arrays -/

theorem noops_succ' (t : Nat) : noops (t + 1) = noopMarker :: noops t := rfl
theorem noops_zero' : noops 0 = [] := rfl

theorem cast_succ_sub (n : Nat) : (((n + 1 : Nat) : Int) - 1) = (n : Int) := by omega
theorem cast_succ_ne (n : Nat) : ((n + 1 : Nat) : Int) ≠ 0 := by omega

theorem c_arrDyn {k : Nat} (ih : IH k) (stp : StateStep) (S : List St) (c : St) (VS : StateStack) (LS : List Int)
    (lc : Int) (vt : Nat) (E : List Ev) (b : Bytes) (q : P) (hstp : stp = stStart ∨ stp = stCont) (hv : VSok VS)
    (hr : RunsK k (mk (c :: S) ⟨stArrayDyn, stp⟩ VS LS lc vt E) b q) (hq : q.state.stack = []) :
    ∃ (xs : List (Nat × LItem)) (trail : Nat) (rest : Bytes) (vt' : Nat) (j : Nat), lokElems xs = true ∧
      b = lwireElems xs ++ (noops trail ++ arrEndMarker :: rest) ∧ j < k ∧
      RunsK j (mk S c VS LS lc vt' (.arrEnd :: ((levElems xs).reverse ++ E))) rest q := by
  cases b with
  | nil =>
    have := hr.halt_nil (by rcases hstp with rfl | rfl <;> rfl)
    rw [this] at hq; cases hq
  | cons b0 bs =>
    have hr' : RunsK k (mk (c :: S) ⟨stArrayDyn, stCont⟩ VS LS lc vt E) (b0 :: bs) q := by
      rcases hstp with rfl | rfl
      · exact hr.congr (more_cons _ _ _) (more_cons _ _ _) (step_arrDyn_start (c :: S) VS LS lc vt E b0 bs)
      · exact hr
    by_cases h1 : (b0 == arrEndMarker) = true
    · have : b0 = arrEndMarker := by simpa using h1
      subst this
      obtain ⟨_, j, rfl, h2⟩ := hr'.next_eq (more_cons _ _ _) (step_arrDyn_end S VS LS lc vt E c bs)
      exact ⟨[], 0, bs, vt, j, rfl, rfl, by omega, h2⟩
    have h1' : (b0 == arrEndMarker) = false := by simpa using h1
    by_cases h2 : (b0 == noopMarker) = true
    · have : b0 = noopMarker := by simpa using h2
      subst this
      obtain ⟨_, j, rfl, h3⟩ := hr'.next_eq (more_cons _ _ _) (step_arrDyn_noop (c :: S) VS LS lc vt E bs)
      obtain ⟨xs, trail, rest, vt', j', k1, k2, k3, k4⟩ :=
        (ih j (Nat.lt_succ_self j)).arrDyn stCont S c VS LS lc vt E bs q (Or.inr rfl) hv h3 hq
      cases xs with
      | nil =>
        exact ⟨[], trail + 1, rest, vt', j', rfl, by rw [k2]; rfl, by omega, k4⟩
      | cons nx xs' =>
        obtain ⟨n, x⟩ := nx
        exact ⟨(n + 1, x) :: xs', trail, rest, vt', j', k1, by rw [k2]; rfl, by omega, k4⟩
    have h2' : (b0 == noopMarker) = false := by simpa using h2
    obtain ⟨x, rest, vt', j, k1, k2, k3, k4, k5⟩ :=
      pos_conv ih (c :: S) ⟨stArrayDyn, stCont⟩ VS LS lc vt E (by simp) hv b0 bs q h2'
        (pos_arrDyn (c :: S) VS LS lc vt E b0 bs h1') hr' hq
    obtain ⟨xs, trail, rest', vt'', j', i1, i2, i3, i4⟩ :=
      (ih j k4).arrDyn stCont S c VS LS lc vt' (x.events.reverse ++ E) rest q (Or.inr rfl) hv k5 hq
    refine ⟨(0, x) :: xs, trail, rest', vt'', j', ?_, ?_, by omega, ?_⟩
    · rw [lokElems_cons, k2, i1]; rfl
    · rw [k3, i2, ← k1]
      simp [lwireElems, noops_zero', LItem.marker]
    · rw [levElems_cons]
      simpa using i4

theorem c_arrCount {k : Nat} (ih : IH k) (n : Nat) (S : List St) (c : St) (VS : StateStack) (LS : List Int)
    (l0 : Int) (vt : Nat) (E : List Ev) (b : Bytes) (q : P) (hv : VSok VS)
    (hr : RunsK k (mk (c :: S) ⟨stArrayCount, stCont⟩ VS (l0 :: LS) n vt E) b q) (hq : q.state.stack = []) :
    ∃ (xs : List (Nat × LItem)) (rest : Bytes) (vt' : Nat) (j : Nat), xs.length = n ∧ lokElems xs = true ∧
      b = lwireElems xs ++ rest ∧ j < k ∧
      RunsK j (mk S c VS LS l0 vt' (.arrEnd :: ((levElems xs).reverse ++ E))) rest q := by
  cases n with
  | zero =>
    obtain ⟨_, j, rfl, h2⟩ := hr.next_eq (Or.inr rfl) (step_arrCount_end S VS LS vt E c l0 b)
    exact ⟨[], b, vt, j, rfl, rfl, rfl, by omega, h2⟩
  | succ n =>
    have hne := cast_succ_ne n
    have hnp : pending (mk (c :: S) ⟨stArrayCount, stCont⟩ VS (l0 :: LS) ((n + 1 : Nat) : Int) vt E) = false := by
      simp [pending, mk]; omega
    cases b with
    | nil =>
      have := hr.halt_nil hnp
      rw [this] at hq; cases hq
    | cons b0 bs =>
      by_cases h2 : (b0 == noopMarker) = true
      · have : b0 = noopMarker := by simpa using h2
        subst this
        obtain ⟨_, j, rfl, h3⟩ := hr.next_eq (more_cons _ _ _)
          (step_arrCount_noop (c :: S) VS (l0 :: LS) _ vt E bs hne)
        obtain ⟨xs, rest, vt', j', k1, k2, k3, k4, k5⟩ :=
          (ih j (Nat.lt_succ_self j)).arrCount (n + 1) S c VS LS l0 vt E bs q hv h3 hq
        cases xs with
        | nil => simp at k1
        | cons nx xs' =>
          obtain ⟨m, x⟩ := nx
          exact ⟨(m + 1, x) :: xs', rest, vt', j', k1, k2, by rw [k3]; rfl, by omega, k5⟩
      have h2' : (b0 == noopMarker) = false := by simpa using h2
      have hpos := pos_arrCount (c :: S) VS (l0 :: LS) ((n + 1 : Nat) : Int) vt E b0 bs hne h2'
      rw [cast_succ_sub] at hpos
      obtain ⟨x, rest, vt', j, k1, k2, k3, k4, k5⟩ :=
        pos_conv ih (c :: S) ⟨stArrayCount, stCont⟩ VS (l0 :: LS) n vt E (by simp) hv b0 bs q h2' hpos hr hq
      obtain ⟨xs, rest', vt'', j', i1, i2, i3, i4, i5⟩ :=
        (ih j k4).arrCount n S c VS LS l0 vt' (x.events.reverse ++ E) rest q hv k5 hq
      refine ⟨(0, x) :: xs, rest', vt'', j', by simp [i1], ?_, ?_, by omega, ?_⟩
      · rw [lokElems_cons, k2, i2]; rfl
      · rw [k3, i3, ← k1]
        simp [lwireElems, noops_zero', LItem.marker]
      · rw [levElems_cons]
        simpa using i5

theorem c_arrTyped {k : Nat} (ih : IH k) (t : UInt8) (n : Nat) (S : List St) (c : St) (VS : StateStack)
    (LS : List Int) (l0 : Int) (vt : Nat) (E : List Ev) (b : Bytes) (q : P)
    (ht : markerToStartState t = some VS.current) (hn : (t == noopMarker) = false) (hv : VSok VS)
    (hr : RunsK k (mk (c :: S) ⟨stArrayTyped, stCont⟩ VS (l0 :: LS) n vt E) b q) (hq : q.state.stack = []) :
    ∃ (xs : List LItem) (rest : Bytes) (vt' : Nat) (j : Nat), xs.length = n ∧ lokTyped t xs = true ∧
      b = lpayList xs ++ rest ∧ j < k ∧
      RunsK j (mk S c VS.pop LS l0 vt' (.arrEnd :: ((levList xs).reverse ++ E))) rest q := by
  cases n with
  | zero =>
    obtain ⟨_, j, rfl, h2⟩ := hr.next_eq (Or.inr rfl) (step_arrTyped_end S VS LS vt E c l0 b)
    exact ⟨[], b, vt, j, rfl, rfl, rfl, by omega, h2⟩
  | succ n =>
    obtain ⟨_, j, rfl, h2⟩ := hr.next_eq (Or.inr rfl)
      (step_arrTyped_elem (c :: S) VS (l0 :: LS) _ vt E b (cast_succ_ne n))
    rw [cast_succ_sub] at h2
    obtain ⟨x, rest, vt', j', k1, k2, k3, k4, k5⟩ :=
      (ih j (Nat.lt_succ_self j)).item t VS.current (c :: S) ⟨stArrayTyped, stCont⟩ VS (l0 :: LS) n vt E b q ht hn hv
        h2 hq
    obtain ⟨xs, rest', vt'', j'', i1, i2, i3, i4, i5⟩ :=
      (ih j' (by omega)).arrTyped t n S c VS LS l0 vt' (x.events.reverse ++ E) rest q ht hn hv k5 hq
    refine ⟨x :: xs, rest', vt'', j'', by simp [i1], ?_, ?_, by omega, ?_⟩
    · rw [lokTyped_cons, k2, i2, k1]; simp
    · rw [k3, i3]; simp [lpayList]
    · rw [levList_cons]
      simpa using i5

/-! ## objects -/

theorem pending_key (ty : StateType) (hty : ty = stObjectDyn ∨ ty = stObjectCount ∨ ty = stObjectTyped)
    (S : List St) (VS : StateStack) (LS : List Int) (n : Nat) (hn : n ≠ 0) (vt : Nat) (E : List Ev) :
    pending (mk S ⟨ty, stFieldNameLen⟩ VS LS (n : Int) vt E) = false := by
  rcases hty with rfl | rfl | rfl <;> simp [pending, mk] <;> omega

/-- KEY LENGTH AND KEY, from a state that reads a key length -/
theorem keys_conv {k : Nat} (ty : StateType) (hty : ty = stObjectDyn ∨ ty = stObjectCount ∨ ty = stObjectTyped)
    (S : List St) (c c0 : St) (VS : StateStack) (LS : List Int) (lc : Int) (vt : Nat) (E : List Ev) (b : Bytes)
    (q : P) (hb : b ≠ [])
    (hd : dispatch (mk (c :: S) c0 VS LS lc vt E) b =
      { stepLen (mk (c :: S) c0 VS LS lc vt E) b ⟨ty, stFieldNameLen⟩ with done := false })
    (hp0 : pending (mk (c :: S) c0 VS LS lc vt E) = false)
    (hr : RunsK k (mk (c :: S) c0 VS LS lc vt E) b q) (hq : q.state.stack = []) :
    ∃ (kw : LW) (key rest : Bytes) (j : Nat), kw.fits key.length = true ∧
      b = lenWire kw key.length ++ (key ++ rest) ∧ j < k ∧
      RunsK j (mk (c :: S) ⟨ty, stCont⟩ VS LS lc vt (.key key :: E)) rest q := by
  have hm : More (mk (c :: S) c0 VS LS lc vt E) b := Or.inl hb
  rcases lenState_conv (c :: S) VS LS lc vt E c0 ⟨ty, stFieldNameLen⟩ b hb hd with he | ⟨m, buf, he⟩ |
    ⟨w, n, rest1, rfl, hf, he⟩
  · exact absurd (hr.next hm).choose_spec.2.1 he
  · have := hr.parked hm he hp0
    rw [this] at hq; cases hq
  · obtain ⟨_, j1, rfl, h1⟩ := hr.next_eq hm he
    by_cases hm1 : More (mk (c :: S) ⟨ty, stFieldNameLen⟩ VS (lc :: LS) n vt E) rest1
    · rcases key_conv (c :: S) VS LS vt E ty hty lc n rest1 with ⟨buf, he1, hn0⟩ | ⟨key, rest, rfl, hk, he1⟩
      · have := h1.parked hm1 he1 (pending_key ty hty _ _ _ n hn0 _ _)
        rw [this] at hq; cases hq
      · obtain ⟨_, j2, rfl, h2⟩ := h1.next_eq hm1 he1
        subst hk
        exact ⟨w, key, rest, j2, hf, rfl, by omega, h2⟩
    · have := (h1.halt hm1).2
      rw [this] at hq; cases hq

theorem c_objDynC {k : Nat} (ih : IH k) (S : List St) (c : St) (VS : StateStack) (LS : List Int)
    (lc : Int) (vt : Nat) (E : List Ev) (b : Bytes) (q : P) (hv : VSok VS)
    (hr : RunsK k (mk (c :: S) ⟨stObjectDyn, stCont⟩ VS LS lc vt E) b q) (hq : q.state.stack = []) :
    ∃ (n : Nat) (x : LItem) (ms : List (LW × Bytes × Nat × LItem)) (rest : Bytes) (vt' : Nat) (j : Nat),
      x.ok = true ∧ lokMems ms = true ∧
      b = noops n ++ (x.marker :: (x.payload ++ (lwireMems ms ++ objEndMarker :: rest))) ∧ j < k ∧
      RunsK j (mk S c VS LS lc vt' (.objEnd :: ((levMems ms).reverse ++ (x.events.reverse ++ E)))) rest q := by
  cases b with
  | nil =>
    have := hr.halt_nil rfl
    rw [this] at hq; cases hq
  | cons b0 bs =>
    by_cases h2 : (b0 == noopMarker) = true
    · have : b0 = noopMarker := by simpa using h2
      subst this
      obtain ⟨_, j, rfl, h3⟩ := hr.next_eq (more_cons _ _ _) (step_objDyn_noop (c :: S) VS LS lc vt E bs)
      obtain ⟨n, x, ms, rest, vt', j', k1, k2, k3, k4, k5⟩ :=
        (ih j (Nat.lt_succ_self j)).objDynC S c VS LS lc vt E bs q hv h3 hq
      exact ⟨n + 1, x, ms, rest, vt', j', k1, k2, by rw [k3]; rfl, by omega, k5⟩
    have h2' : (b0 == noopMarker) = false := by simpa using h2
    obtain ⟨x, rest, vt', j, k1, k2, k3, k4, k5⟩ :=
      pos_conv ih (c :: S) ⟨stObjectDyn, stStart⟩ VS LS lc vt E (by simp) hv b0 bs q h2'
        (pos_objDyn (c :: S) VS LS lc vt E b0 bs h2') hr hq
    obtain ⟨ms, rest', vt'', j', i1, i2, i3, i4⟩ :=
      (ih j k4).objDyn S c VS LS lc vt' (x.events.reverse ++ E) rest q hv k5 hq
    refine ⟨0, x, ms, rest', vt'', j', k2, i1, ?_, by omega, i4⟩
    rw [k3, i2, ← k1]
    simp [noops_zero']

theorem c_objDyn {k : Nat} (ih : IH k) (S : List St) (c : St) (VS : StateStack) (LS : List Int)
    (lc : Int) (vt : Nat) (E : List Ev) (b : Bytes) (q : P) (hv : VSok VS)
    (hr : RunsK k (mk (c :: S) ⟨stObjectDyn, stStart⟩ VS LS lc vt E) b q) (hq : q.state.stack = []) :
    ∃ (ms : List (LW × Bytes × Nat × LItem)) (rest : Bytes) (vt' : Nat) (j : Nat), lokMems ms = true ∧
      b = lwireMems ms ++ objEndMarker :: rest ∧ j < k ∧
      RunsK j (mk S c VS LS lc vt' (.objEnd :: ((levMems ms).reverse ++ E))) rest q := by
  cases b with
  | nil =>
    have := hr.halt_nil rfl
    rw [this] at hq; cases hq
  | cons b0 bs =>
    by_cases h1 : (b0 == objEndMarker) = true
    · have : b0 = objEndMarker := by simpa using h1
      subst this
      obtain ⟨_, j, rfl, h2⟩ := hr.next_eq (more_cons _ _ _) (step_objDyn_end S VS LS lc vt E c bs)
      exact ⟨[], bs, vt, j, rfl, rfl, by omega, h2⟩
    have h1' : (b0 == objEndMarker) = false := by simpa using h1
    obtain ⟨kw, key, rest, j, k1, k2, k3, k4⟩ :=
      keys_conv stObjectDyn (Or.inl rfl) S c ⟨stObjectDyn, stStart⟩ VS LS lc vt E (b0 :: bs) q (by simp)
        (disp_objDyn_start (c :: S) VS LS lc vt E b0 bs h1') rfl hr hq
    obtain ⟨n, x, ms, rest', vt', j', i1, i2, i3, i4, i5⟩ :=
      (ih j k3).objDynC S c VS LS lc vt (.key key :: E) rest q hv k4 hq
    refine ⟨(kw, key, n, x) :: ms, rest', vt', j', ?_, ?_, by omega, ?_⟩
    · rw [lokMems_cons, k1, i1, i2]; rfl
    · rw [k2, i3]
      simp [lwireMems, LItem.marker]
    · rw [levMems_cons]
      simpa using i5

theorem c_objCountC {k : Nat} (ih : IH k) (n : Nat) (S : List St) (c : St) (VS : StateStack) (LS : List Int)
    (l0 : Int) (vt : Nat) (E : List Ev) (b : Bytes) (q : P) (hv : VSok VS)
    (hr : RunsK k (mk (c :: S) ⟨stObjectCount, stCont⟩ VS (l0 :: LS) ((n + 1 : Nat) : Int) vt E) b q)
    (hq : q.state.stack = []) :
    ∃ (m : Nat) (x : LItem) (ms : List (LW × Bytes × Nat × LItem)) (rest : Bytes) (vt' : Nat) (j : Nat),
      ms.length = n ∧ x.ok = true ∧ lokMems ms = true ∧
      b = noops m ++ (x.marker :: (x.payload ++ (lwireMems ms ++ rest))) ∧ j < k ∧
      RunsK j (mk S c VS LS l0 vt' (.objEnd :: ((levMems ms).reverse ++ (x.events.reverse ++ E)))) rest q := by
  cases b with
  | nil =>
    have := hr.halt_nil rfl
    rw [this] at hq; cases hq
  | cons b0 bs =>
    by_cases h2 : (b0 == noopMarker) = true
    · have : b0 = noopMarker := by simpa using h2
      subst this
      obtain ⟨_, j, rfl, h3⟩ := hr.next_eq (more_cons _ _ _) (step_objCount_noop (c :: S) VS (l0 :: LS) _ vt E bs)
      obtain ⟨m, x, ms, rest, vt', j', k0, k1, k2, k3, k4, k5⟩ :=
        (ih j (Nat.lt_succ_self j)).objCountC n S c VS LS l0 vt E bs q hv h3 hq
      exact ⟨m + 1, x, ms, rest, vt', j', k0, k1, k2, by rw [k3]; rfl, by omega, k5⟩
    have h2' : (b0 == noopMarker) = false := by simpa using h2
    have hpos := pos_objCount (c :: S) VS (l0 :: LS) ((n + 1 : Nat) : Int) vt E b0 bs h2'
    rw [cast_succ_sub] at hpos
    obtain ⟨x, rest, vt', j, k1, k2, k3, k4, k5⟩ :=
      pos_conv ih (c :: S) ⟨stObjectCount, stFieldName⟩ VS (l0 :: LS) n vt E (by simp) hv b0 bs q h2' hpos hr hq
    obtain ⟨ms, rest', vt'', j', i0, i1, i2, i3, i4⟩ :=
      (ih j k4).objCount n S c VS LS l0 vt' (x.events.reverse ++ E) rest q hv k5 hq
    refine ⟨0, x, ms, rest', vt'', j', i0, k2, i1, ?_, by omega, i4⟩
    rw [k3, i2, ← k1]
    simp [noops_zero']

theorem c_objCount {k : Nat} (ih : IH k) (n : Nat) (S : List St) (c : St) (VS : StateStack) (LS : List Int)
    (l0 : Int) (vt : Nat) (E : List Ev) (b : Bytes) (q : P) (hv : VSok VS)
    (hr : RunsK k (mk (c :: S) ⟨stObjectCount, stFieldName⟩ VS (l0 :: LS) n vt E) b q) (hq : q.state.stack = []) :
    ∃ (ms : List (LW × Bytes × Nat × LItem)) (rest : Bytes) (vt' : Nat) (j : Nat), ms.length = n ∧ lokMems ms = true ∧
      b = lwireMems ms ++ rest ∧ j < k ∧
      RunsK j (mk S c VS LS l0 vt' (.objEnd :: ((levMems ms).reverse ++ E))) rest q := by
  cases n with
  | zero =>
    obtain ⟨_, j, rfl, h2⟩ := hr.next_eq (Or.inr rfl) (step_objCount_end S VS LS vt E c l0 b)
    exact ⟨[], b, vt, j, rfl, rfl, rfl, by omega, h2⟩
  | succ n =>
    have hne := cast_succ_ne n
    have hnp : pending (mk (c :: S) ⟨stObjectCount, stFieldName⟩ VS (l0 :: LS) ((n + 1 : Nat) : Int) vt E) = false := by
      simp [pending, mk]; omega
    cases b with
    | nil =>
      have := hr.halt_nil hnp
      rw [this] at hq; cases hq
    | cons b0 bs =>
      obtain ⟨kw, key, rest, j, k1, k2, k3, k4⟩ :=
        keys_conv stObjectCount (Or.inr (Or.inl rfl)) S c ⟨stObjectCount, stFieldName⟩ VS (l0 :: LS) _ vt E
          (b0 :: bs) q (by simp)
          (disp_objCount_fieldName (c :: S) VS (l0 :: LS) _ vt E stObjectCount (Or.inl rfl) hne (b0 :: bs)) hnp hr hq
      obtain ⟨m, x, ms, rest', vt', j', i0, i1, i2, i3, i4, i5⟩ :=
        (ih j k3).objCountC n S c VS LS l0 vt (.key key :: E) rest q hv k4 hq
      refine ⟨(kw, key, m, x) :: ms, rest', vt', j', by simp [i0], ?_, ?_, by omega, ?_⟩
      · rw [lokMems_cons, k1, i1, i2]; rfl
      · rw [k2, i3]
        simp [lwireMems, LItem.marker]
      · rw [levMems_cons]
        simpa using i5

theorem c_objTyped {k : Nat} (ih : IH k) (t : UInt8) (n : Nat) (S : List St) (c : St) (VS : StateStack)
    (LS : List Int) (l0 : Int) (vt : Nat) (E : List Ev) (b : Bytes) (q : P)
    (ht : markerToStartState t = some VS.current) (hn : (t == noopMarker) = false) (hv : VSok VS)
    (hr : RunsK k (mk (c :: S) ⟨stObjectTyped, stFieldName⟩ VS (l0 :: LS) n vt E) b q) (hq : q.state.stack = []) :
    ∃ (ms : List (LW × Bytes × LItem)) (rest : Bytes) (vt' : Nat) (j : Nat), ms.length = n ∧ lokMemsT t ms = true ∧
      b = lpayMems ms ++ rest ∧ j < k ∧
      RunsK j (mk S c VS.pop LS l0 vt' (.objEnd :: ((levMemsT ms).reverse ++ E))) rest q := by
  cases n with
  | zero =>
    obtain ⟨_, j, rfl, h2⟩ := hr.next_eq (Or.inr rfl) (step_objTyped_end S VS LS vt E c l0 b)
    exact ⟨[], b, vt, j, rfl, rfl, rfl, by omega, h2⟩
  | succ n =>
    have hne := cast_succ_ne n
    have hnp : pending (mk (c :: S) ⟨stObjectTyped, stFieldName⟩ VS (l0 :: LS) ((n + 1 : Nat) : Int) vt E) = false := by
      simp [pending, mk]; omega
    cases b with
    | nil =>
      have := hr.halt_nil hnp
      rw [this] at hq; cases hq
    | cons b0 bs =>
      obtain ⟨kw, key, rest, j, k1, k2, k3, k4⟩ :=
        keys_conv stObjectTyped (Or.inr (Or.inr rfl)) S c ⟨stObjectTyped, stFieldName⟩ VS (l0 :: LS) _ vt E
          (b0 :: bs) q (by simp)
          (disp_objCount_fieldName (c :: S) VS (l0 :: LS) _ vt E stObjectTyped (Or.inr rfl) hne (b0 :: bs)) hnp hr hq
      obtain ⟨_, j1, rfl, h2⟩ := k4.next_eq (Or.inr rfl)
        (step_objTyped_value (c :: S) VS (l0 :: LS) _ vt (.key key :: E) rest)
      rw [cast_succ_sub] at h2
      obtain ⟨x, rest', vt', j', i1, i2, i3, i4, i5⟩ :=
        (ih j1 (by omega)).item t VS.current (c :: S) ⟨stObjectTyped, stFieldName⟩ VS (l0 :: LS) n vt
          (.key key :: E) rest q ht hn hv h2 hq
      obtain ⟨ms, rest'', vt'', j'', o0, o1, o2, o3, o4⟩ :=
        (ih j' (by omega)).objTyped t n S c VS LS l0 vt' (x.events.reverse ++ (.key key :: E)) rest' q ht hn hv i5 hq
      refine ⟨(kw, key, x) :: ms, rest'', vt'', j'', by simp [o0], ?_, ?_, by omega, ?_⟩
      · rw [lokMemsT_cons, k1, i2, o1, i1]; simp
      · rw [k2, i3, o2]
        simp [lpayMems]
      · rw [levMemsT_cons]
        simpa using o4

/-! ## container headers -/

/-- A LENGTH, from a state that reads one -/
theorem len_read {k : Nat} (S : List St) (c c0 cont : St) (VS : StateStack) (LS : List Int) (lc : Int) (vt : Nat)
    (E : List Ev) (b : Bytes) (q : P)
    (hd : dispatch (mk (c :: S) c0 VS LS lc vt E) b =
      { stepLen (mk (c :: S) c0 VS LS lc vt E) b cont with done := false })
    (hp0 : pending (mk (c :: S) c0 VS LS lc vt E) = false)
    (hr : RunsK k (mk (c :: S) c0 VS LS lc vt E) b q) (hq : q.state.stack = []) :
    ∃ (w : LW) (n : Nat) (rest : Bytes) (j : Nat), w.fits n = true ∧ b = lenWire w n ++ rest ∧ j < k ∧
      RunsK j (mk (c :: S) cont VS (lc :: LS) n vt E) rest q := by
  by_cases hb : b = []
  · subst hb
    have := hr.halt_nil hp0
    rw [this] at hq; cases hq
  have hm : More (mk (c :: S) c0 VS LS lc vt E) b := Or.inl hb
  rcases lenState_conv (c :: S) VS LS lc vt E c0 cont b hb hd with he | ⟨m, buf, he⟩ | ⟨w, n, rest1, rfl, hf, he⟩
  · exact absurd (hr.next hm).choose_spec.2.1 he
  · have := hr.parked hm he hp0
    rw [this] at hq; cases hq
  · obtain ⟨_, j1, rfl, h1⟩ := hr.next_eq hm he
    exact ⟨w, n, rest1, j1, hf, rfl, by omega, h1⟩

/-- THE HEADER `$ t # n` of a typed container -/
theorem typed_header {k : Nat} (ty : StateType) (hty : ty = stArrayTyped ∨ ty = stObjectTyped) (S : List St) (c : St)
    (VS : StateStack) (LS : List Int) (lc : Int) (vt : Nat) (E : List Ev) (b : Bytes) (q : P)
    (hr : RunsK k (mk (c :: S) ⟨ty, stStart⟩ VS LS lc vt E) b q) (hq : q.state.stack = []) :
    ∃ (t : UInt8) (st : St) (w : LW) (n : Nat) (rest : Bytes) (j : Nat), markerToStartState t = some st ∧
      (t == noopMarker) = false ∧ w.fits n = true ∧ b = t :: countMarker :: (lenWire w n ++ rest) ∧ j < k ∧
      RunsK j (mk (c :: S) ⟨ty, stWithLen⟩ (VS.push st) (lc :: LS) n (markerToBaseType t) E) rest q := by
  have hp : ∀ (stp : StateStep) (VS' : StateStack) (vt' : Nat), stp = stStart ∨ stp = stWithType0 ∨ stp = stWithType1 →
      pending (mk (c :: S) ⟨ty, stp⟩ VS' LS lc vt' E) = false := by
    intro stp VS' vt' h
    rcases hty with rfl | rfl <;> rcases h with rfl | rfl | rfl <;> rfl
  cases b with
  | nil =>
    have := hr.halt_nil (hp _ _ _ (Or.inl rfl))
    rw [this] at hq; cases hq
  | cons t bs =>
    rcases typed_type_conv (c :: S) VS LS lc vt E ty hty t bs with he | ⟨st, hst, hn⟩
    · exact absurd (hr.next (more_cons _ _ _)).choose_spec.2.1 he
    obtain ⟨_, j1, rfl, h1⟩ := hr.next_eq (more_cons _ _ _)
      (step_typed_type (c :: S) VS LS lc vt E ty hty t st bs hst hn)
    cases bs with
    | nil =>
      have := h1.halt_nil (hp _ _ _ (Or.inr (Or.inl rfl)))
      rw [this] at hq; cases hq
    | cons b1 bs2 =>
      by_cases hc : (b1 == countMarker) = true
      · have : b1 = countMarker := by simpa using hc
        subst this
        obtain ⟨_, j2, rfl, h2⟩ := h1.next_eq (more_cons _ _ _)
          (step_typed_hash (c :: S) (VS.push st) LS lc (markerToBaseType t) E ty hty bs2)
        obtain ⟨w, n, rest, j3, k1, k2, k3, k4⟩ :=
          len_read S c ⟨ty, stWithType1⟩ ⟨ty, stWithLen⟩ (VS.push st) LS lc (markerToBaseType t) E bs2 q
            (disp_typed_len (c :: S) (VS.push st) LS lc (markerToBaseType t) E ty hty bs2)
            (hp _ _ _ (Or.inr (Or.inr rfl))) h2 hq
        exact ⟨t, st, w, n, rest, j3, hst, hn, k1, by rw [k2], by omega, k4⟩
      · have hc' : (b1 == countMarker) = false := by simpa using hc
        exact absurd (h1.next (more_cons _ _ _)).choose_spec.2.1
          (typed_hash_conv (c :: S) (VS.push st) LS lc (markerToBaseType t) E ty hty b1 bs2 hc')

/-! ## items: scalars -/

section scalar
variable {k : Nat} (S : List St) (c : St) (VS : StateStack) (LS : List Int) (lc : Int) (vt : Nat) (E : List Ev)
  (b : Bytes) (q : P)

/-- the conclusion of the item claim -/
def ItemConcl (k : Nat) (t : UInt8) (S : List St) (c : St) (VS : StateStack) (LS : List Int) (lc : Int) (vt : Nat)
    (E : List Ev) (b : Bytes) (q : P) : Prop :=
  ∃ (x : LItem) (rest : Bytes) (vt' : Nat) (j : Nat), x.marker = t ∧ x.ok = true ∧ b = x.payload ++ rest ∧ j < k ∧
    RunsK j (mk S c VS LS lc vt' (x.events.reverse ++ E)) rest q

theorem item_null (hr : RunsK k (mk (c :: S) ⟨stFixed, stNil⟩ VS LS lc vt E) b q) :
    ItemConcl k nullMarker S c VS LS lc vt E b q := by
  obtain ⟨_, j, rfl, h2⟩ := hr.next_eq (Or.inr rfl) (step_nil S c VS LS lc vt E b)
  exact ⟨.null, b, vt, j, rfl, rfl, rfl, by omega, h2⟩

theorem item_true (hr : RunsK k (mk (c :: S) ⟨stFixed, stTrue⟩ VS LS lc vt E) b q) :
    ItemConcl k trueMarker S c VS LS lc vt E b q := by
  obtain ⟨_, j, rfl, h2⟩ := hr.next_eq (Or.inr rfl) (step_true S c VS LS lc vt E b)
  exact ⟨.tru, b, vt, j, rfl, rfl, rfl, by omega, h2⟩

theorem item_false (hr : RunsK k (mk (c :: S) ⟨stFixed, stFalse⟩ VS LS lc vt E) b q) :
    ItemConcl k falseMarker S c VS LS lc vt E b q := by
  obtain ⟨_, j, rfl, h2⟩ := hr.next_eq (Or.inr rfl) (step_false S c VS LS lc vt E b)
  exact ⟨.fals, b, vt, j, rfl, rfl, rfl, by omega, h2⟩

theorem item_int8 (hr : RunsK k (mk (c :: S) ⟨stFixed, stInt8⟩ VS LS lc vt E) b q) (hq : q.state.stack = []) :
    ItemConcl k int8Marker S c VS LS lc vt E b q := by
  cases b with
  | nil => have := hr.halt_nil rfl; rw [this] at hq; cases hq
  | cons b0 bs =>
    obtain ⟨_, j, rfl, h2⟩ := hr.next_eq (more_cons _ _ _) (step_int8 S c VS LS lc vt E b0 bs)
    obtain ⟨e1, e2⟩ := int8_item b0
    exact ⟨.int .i8 (readInt8 b0), bs, vt, j, rfl, e2, by simp [LItem.payload, IK.bytes, e1], by omega, h2⟩

theorem item_uint8 (hr : RunsK k (mk (c :: S) ⟨stFixed, stUInt8⟩ VS LS lc vt E) b q) (hq : q.state.stack = []) :
    ItemConcl k uint8Marker S c VS LS lc vt E b q := by
  cases b with
  | nil => have := hr.halt_nil rfl; rw [this] at hq; cases hq
  | cons b0 bs =>
    obtain ⟨_, j, rfl, h2⟩ := hr.next_eq (more_cons _ _ _) (step_uint8 S c VS LS lc vt E b0 bs)
    obtain ⟨e1, e2⟩ := uint8_item b0
    exact ⟨.int .u8 b0.toNat, bs, vt, j, rfl, e2, by simp [LItem.payload, IK.bytes, e1], by omega, h2⟩

theorem item_char (hr : RunsK k (mk (c :: S) ⟨stFixed, stChar⟩ VS LS lc vt E) b q) (hq : q.state.stack = []) :
    ItemConcl k charMarker S c VS LS lc vt E b q := by
  cases b with
  | nil => have := hr.halt_nil rfl; rw [this] at hq; cases hq
  | cons b0 bs =>
    obtain ⟨_, j, rfl, h2⟩ := hr.next_eq (more_cons _ _ _) (step_char S c VS LS lc vt E [b0] rfl bs)
    rw [beNat_single] at h2
    exact ⟨.char b0, bs, vt, j, rfl, rfl, rfl, by omega, h2⟩

theorem append_ne_nil_of_length {a rest : Bytes} {n : Nat} (ha : a.length = n) (hn : 0 < n) : a ++ rest ≠ [] := by
  cases a with
  | nil => simp at ha; omega
  | cons x xs => simp

/-- a token of `n` bytes: the input ends inside it (then the run ends there), or it is complete -/
theorem fixed_split (st : StateStep) (n : Nat)
    (hst : (st = stInt16 ∧ n = 2) ∨ (st = stInt32 ∧ n = 4) ∨ (st = stInt64 ∧ n = 8) ∨ (st = stFloat32 ∧ n = 4) ∨
      (st = stFloat64 ∧ n = 8))
    (hr : RunsK k (mk (c :: S) ⟨stFixed, st⟩ VS LS lc vt E) b q) (hq : q.state.stack = []) :
    ∃ a rest, b = a ++ rest ∧ a.length = n := by
  have hp : pending (mk (c :: S) ⟨stFixed, st⟩ VS LS lc vt E) = false := by
    rcases hst with ⟨rfl, _⟩ | ⟨rfl, _⟩ | ⟨rfl, _⟩ | ⟨rfl, _⟩ | ⟨rfl, _⟩ <;> rfl
  by_cases hb : b = []
  · subst hb
    have := hr.halt_nil hp
    rw [this] at hq; cases hq
  by_cases hlen : b.length < n
  · have := hr.parked (Or.inl hb) (step_fixed_short S c VS LS lc vt E st n hst b hlen) hp
    rw [this] at hq; cases hq
  · exact split_at b n (by omega)

theorem item_int16 (hr : RunsK k (mk (c :: S) ⟨stFixed, stInt16⟩ VS LS lc vt E) b q) (hq : q.state.stack = []) :
    ItemConcl k int16Marker S c VS LS lc vt E b q := by
  obtain ⟨a, rest, rfl, ha⟩ := fixed_split S c VS LS lc vt E b q stInt16 2 (Or.inl ⟨rfl, rfl⟩) hr hq
  have hm : More (mk (c :: S) ⟨stFixed, stInt16⟩ VS LS lc vt E) (a ++ rest) := by
    exact Or.inl (append_ne_nil_of_length ha (by omega))
  obtain ⟨_, j, rfl, h2⟩ := hr.next_eq hm (step_int16 S c VS LS lc vt E a ha rest)
  obtain ⟨e1, e2⟩ := int16_item a ha
  exact ⟨.int .i16 (readInt16 a), rest, vt, j, rfl, e2, by simp [LItem.payload, IK.bytes, e1], by omega, h2⟩

theorem item_int32 (hr : RunsK k (mk (c :: S) ⟨stFixed, stInt32⟩ VS LS lc vt E) b q) (hq : q.state.stack = []) :
    ItemConcl k int32Marker S c VS LS lc vt E b q := by
  obtain ⟨a, rest, rfl, ha⟩ := fixed_split S c VS LS lc vt E b q stInt32 4 (Or.inr (Or.inl ⟨rfl, rfl⟩)) hr hq
  have hm : More (mk (c :: S) ⟨stFixed, stInt32⟩ VS LS lc vt E) (a ++ rest) := by
    exact Or.inl (append_ne_nil_of_length ha (by omega))
  obtain ⟨_, j, rfl, h2⟩ := hr.next_eq hm (step_int32 S c VS LS lc vt E a ha rest)
  obtain ⟨e1, e2⟩ := int32_item a ha
  exact ⟨.int .i32 (readInt32 a), rest, vt, j, rfl, e2, by simp [LItem.payload, IK.bytes, e1], by omega, h2⟩

theorem item_int64 (hr : RunsK k (mk (c :: S) ⟨stFixed, stInt64⟩ VS LS lc vt E) b q) (hq : q.state.stack = []) :
    ItemConcl k int64Marker S c VS LS lc vt E b q := by
  obtain ⟨a, rest, rfl, ha⟩ := fixed_split S c VS LS lc vt E b q stInt64 8 (Or.inr (Or.inr (Or.inl ⟨rfl, rfl⟩))) hr hq
  have hm : More (mk (c :: S) ⟨stFixed, stInt64⟩ VS LS lc vt E) (a ++ rest) := by
    exact Or.inl (append_ne_nil_of_length ha (by omega))
  obtain ⟨_, j, rfl, h2⟩ := hr.next_eq hm (step_int64 S c VS LS lc vt E a ha rest)
  obtain ⟨e1, e2⟩ := int64_item a ha
  exact ⟨.int .i64 (readInt64 a), rest, vt, j, rfl, e2, by simp [LItem.payload, IK.bytes, e1], by omega, h2⟩

theorem item_float32 (hr : RunsK k (mk (c :: S) ⟨stFixed, stFloat32⟩ VS LS lc vt E) b q) (hq : q.state.stack = []) :
    ItemConcl k float32Marker S c VS LS lc vt E b q := by
  obtain ⟨a, rest, rfl, ha⟩ :=
    fixed_split S c VS LS lc vt E b q stFloat32 4 (Or.inr (Or.inr (Or.inr (Or.inl ⟨rfl, rfl⟩)))) hr hq
  have hm : More (mk (c :: S) ⟨stFixed, stFloat32⟩ VS LS lc vt E) (a ++ rest) := by
    exact Or.inl (append_ne_nil_of_length ha (by omega))
  obtain ⟨_, j, rfl, h2⟩ := hr.next_eq hm (step_float32 S c VS LS lc vt E a ha rest)
  exact ⟨.f32 (readFloat32 a), rest, vt, j, rfl, rfl, by simp [LItem.payload, float32_item a ha], by omega, h2⟩

theorem item_float64 (hr : RunsK k (mk (c :: S) ⟨stFixed, stFloat64⟩ VS LS lc vt E) b q) (hq : q.state.stack = []) :
    ItemConcl k float64Marker S c VS LS lc vt E b q := by
  obtain ⟨a, rest, rfl, ha⟩ :=
    fixed_split S c VS LS lc vt E b q stFloat64 8 (Or.inr (Or.inr (Or.inr (Or.inr ⟨rfl, rfl⟩)))) hr hq
  have hm : More (mk (c :: S) ⟨stFixed, stFloat64⟩ VS LS lc vt E) (a ++ rest) := by
    exact Or.inl (append_ne_nil_of_length ha (by omega))
  obtain ⟨_, j, rfl, h2⟩ := hr.next_eq hm (step_float64 S c VS LS lc vt E a ha rest)
  exact ⟨.f64 (readFloat64 a), rest, vt, j, rfl, rfl, by simp [LItem.payload, float64_item a ha], by omega, h2⟩

/-- `S` and `H` -/
theorem item_string (ty : StateType) (hty : ty = stString ∨ ty = stHighPrec)
    (hr : RunsK k (mk (c :: S) ⟨ty, stStart⟩ VS LS lc vt E) b q) (hq : q.state.stack = []) :
    ∃ (w : LW) (s rest : Bytes) (j : Nat), w.fits s.length = true ∧ b = lenWire w s.length ++ (s ++ rest) ∧ j < k ∧
      RunsK j (mk S c VS LS lc vt (.str s :: E)) rest q := by
  have hp : ∀ st' LS' lc', pending (mk (c :: S) ⟨ty, st'⟩ VS LS' lc' vt E) = false := by
    intro st' LS' lc'; rcases hty with rfl | rfl <;> rfl
  by_cases hb : b = []
  · subst hb
    have := hr.halt_nil (hp _ _ _)
    rw [this] at hq; cases hq
  have hm : More (mk (c :: S) ⟨ty, stStart⟩ VS LS lc vt E) b := Or.inl hb
  rcases string_conv S c VS LS lc vt E ty hty b hb with he | ⟨st', LS', lc', m, buf, he⟩ | ⟨w, s, rest, rfl, hf⟩
  · exact absurd (hr.next hm).choose_spec.2.1 he
  · have := hr.parked hm he (hp _ _ _)
    rw [this] at hq; cases hq
  · obtain ⟨_, j, rfl, h2⟩ := hr.next_eq hm (step_string S c VS LS lc vt E ty hty w s rest hf)
    exact ⟨w, s, rest, j, hf, rfl, by omega, h2⟩

end scalar

/-! ## items: arrays and objects -/

theorem isTypeMarker_of {t : UInt8} {st : St} (h1 : markerToStartState t = some st) (h2 : (t == noopMarker) = false) :
    isTypeMarker t = true := by
  simp [isTypeMarker, h1, bne, h2]

theorem item_arr {k : Nat} (ih : IH k) (S : List St) (c : St) (VS : StateStack) (LS : List Int) (lc : Int) (vt : Nat)
    (E : List Ev) (b : Bytes) (q : P) (hv : VSok VS)
    (hr : RunsK k (mk (c :: S) ⟨stArray, stStart⟩ VS LS lc vt E) b q) (hq : q.state.stack = []) :
    ItemConcl k arrStartMarker S c VS LS lc vt E b q := by
  cases b with
  | nil => have := hr.halt_nil rfl; rw [this] at hq; cases hq
  | cons b0 bs =>
    by_cases h1 : (b0 == countMarker) = true
    · -- `[#`: a counted array
      have : b0 = countMarker := by simpa using h1
      subst this
      obtain ⟨_, j1, rfl, r1⟩ := hr.next_eq (more_cons _ _ _) (step_arrInit_count (c :: S) VS LS lc vt E bs)
      obtain ⟨w, n, rest1, j2, f1, rfl, f3, r2⟩ :=
        len_read S c ⟨stArrayCount, stStart⟩ ⟨stArrayCount, stWithLen⟩ VS LS lc vt E bs q
          (disp_arrCount_start (c :: S) VS LS lc vt E _) rfl r1 hq
      by_cases hz : n ≠ 0 ∧ rest1 = []
      · obtain ⟨hn0, rfl⟩ := hz
        obtain ⟨_, j3, rfl, r3⟩ := r2.next_eq (Or.inr rfl)
          (step_arrCount_withLen_nil (c :: S) VS (lc :: LS) vt E n hn0)
        have := r3.halt_nil (by simp [pending, mk]; omega)
        rw [this] at hq; cases hq
      · have hz' : (n : Int) = 0 ∨ rest1 ≠ [] := by
          by_cases h : n = 0
          · left; omega
          · right; intro h2; exact hz ⟨h, h2⟩
        have hm' : More (mk (c :: S) ⟨stArrayCount, stCont⟩ VS (lc :: LS) n vt (.arrStart n BT.any :: E)) rest1 := by
          rcases hz' with h | h
          · right; simp [pending, mk, h]
          · exact Or.inl h
        have r3 := r2.congr (Or.inr rfl) hm' (step_arrCount_withLen (c :: S) VS (lc :: LS) n vt E rest1 hz')
        obtain ⟨xs, rest, vt', j3, a1, a2, a3, a4, a5⟩ :=
          (ih j2 (by omega)).arrCount n S c VS LS lc vt (.arrStart n BT.any :: E) rest1 q hv r3 hq
        refine ⟨.arrN w xs, rest, vt', j3, rfl, ?_, ?_, by omega, ?_⟩
        · simp only [LItem.ok, LItem.erase, Item.ok, eraseElems_length, a1, f1, Bool.true_and]
          exact a2
        · simp [LItem.payload, a1, a3]
        · have e : (LItem.arrN w xs).events.reverse ++ E =
              .arrEnd :: ((levElems xs).reverse ++ (.arrStart (n : Int) BT.any :: E)) := by
            simp [LItem.events, LItem.erase, Item.events, levElems, eraseElems_length, a1]
          rw [e]; exact a5
    have h1' : (b0 == countMarker) = false := by simpa using h1
    by_cases h2 : (b0 == typeMarker) = true
    · -- `[$`: a typed array
      have : b0 = typeMarker := by simpa using h2
      subst this
      obtain ⟨_, j1, rfl, r1⟩ := hr.next_eq (more_cons _ _ _) (step_arrInit_typed (c :: S) VS LS lc vt E bs)
      obtain ⟨t, st, w, n, rest1, j2, t1, t2, t3, rfl, t5, r2⟩ :=
        typed_header stArrayTyped (Or.inl rfl) S c VS LS lc vt E bs q r1 hq
      have r3 := r2.congr (Or.inr rfl) (Or.inr rfl)
        (step_arrTyped_withLen (c :: S) (VS.push st) (lc :: LS) n (markerToBaseType t) E rest1)
      obtain ⟨xs, rest, vt', j3, a1, a2, a3, a4, a5⟩ :=
        (ih j2 (by omega)).arrTyped t n S c (VS.push st) LS lc (markerToBaseType t)
          (.arrStart n (markerToBaseType t) :: E) rest1 q (by rw [push_current]; exact t1) t2
          (vsok_push VS st (start_ne_fail t1)) r3 hq
      rw [push_pop hv] at a5
      refine ⟨.arrT t w xs, rest, vt', j3, rfl, ?_, ?_, by omega, ?_⟩
      · simp only [LItem.ok, LItem.erase, Item.ok, eraseList_length, a1, t3, isTypeMarker_of t1 t2, Bool.true_and]
        exact a2
      · simp [LItem.payload, a1, a3]
      · have e : (LItem.arrT t w xs).events.reverse ++ E =
            .arrEnd :: ((levList xs).reverse ++ (.arrStart (n : Int) (markerToBaseType t) :: E)) := by
          simp [LItem.events, LItem.erase, Item.events, levList, eraseList_length, a1]
        rw [e]; exact a5
    have h2' : (b0 == typeMarker) = false := by simpa using h2
    -- a plain array
    obtain ⟨_, j1, rfl, r1⟩ := hr.next_eq (more_cons _ _ _) (step_arrInit_dyn (c :: S) VS LS lc vt E b0 bs h1' h2')
    obtain ⟨xs, trail, rest, vt', j2, a1, a2, a3, a4⟩ :=
      (ih j1 (by omega)).arrDyn stStart S c VS LS lc vt (.arrStart (-1) BT.any :: E) (b0 :: bs) q (Or.inl rfl) hv r1 hq
    refine ⟨.arr xs trail, rest, vt', j2, rfl, a1, ?_, by omega, ?_⟩
    · simp [LItem.payload, a2]
    · have e : (LItem.arr xs trail).events.reverse ++ E =
          .arrEnd :: ((levElems xs).reverse ++ (.arrStart (-1) BT.any :: E)) := by
        simp [LItem.events, LItem.erase, Item.events, levElems]
      rw [e]; exact a4

theorem item_obj {k : Nat} (ih : IH k) (S : List St) (c : St) (VS : StateStack) (LS : List Int) (lc : Int) (vt : Nat)
    (E : List Ev) (b : Bytes) (q : P) (hv : VSok VS)
    (hr : RunsK k (mk (c :: S) ⟨stObject, stStart⟩ VS LS lc vt E) b q) (hq : q.state.stack = []) :
    ItemConcl k objStartMarker S c VS LS lc vt E b q := by
  cases b with
  | nil => have := hr.halt_nil rfl; rw [this] at hq; cases hq
  | cons b0 bs =>
    by_cases h1 : (b0 == countMarker) = true
    · -- `{#`: a counted object
      have : b0 = countMarker := by simpa using h1
      subst this
      obtain ⟨_, j1, rfl, r1⟩ := hr.next_eq (more_cons _ _ _) (step_objInit_count (c :: S) VS LS lc vt E bs)
      obtain ⟨w, n, rest1, j2, f1, rfl, f3, r2⟩ :=
        len_read S c ⟨stObjectCount, stStart⟩ ⟨stObjectCount, stWithLen⟩ VS LS lc vt E bs q
          (disp_objCount_start (c :: S) VS LS lc vt E _) rfl r1 hq
      by_cases hz : n ≠ 0 ∧ rest1 = []
      · obtain ⟨hn0, rfl⟩ := hz
        obtain ⟨_, j3, rfl, r3⟩ := r2.next_eq (Or.inr rfl)
          (step_objCount_withLen_nil (c :: S) VS (lc :: LS) vt E stObjectCount (Or.inl rfl) n hn0)
        have := r3.halt_nil (by simp [pending, mk]; omega)
        rw [this] at hq; cases hq
      · have hz' : (n : Int) = 0 ∨ rest1 ≠ [] := by
          by_cases h : n = 0
          · left; omega
          · right; intro h2; exact hz ⟨h, h2⟩
        have hm' : More (mk (c :: S) ⟨stObjectCount, stFieldName⟩ VS (lc :: LS) n vt (.objStart n BT.any :: E)) rest1 := by
          rcases hz' with h | h
          · right; simp [pending, mk, h]
          · exact Or.inl h
        have r3 := r2.congr (Or.inr rfl) hm'
          (step_objCount_withLen (c :: S) VS (lc :: LS) n vt E stObjectCount (Or.inl rfl) rest1 hz')
        obtain ⟨ms, rest, vt', j3, a1, a2, a3, a4, a5⟩ :=
          (ih j2 (by omega)).objCount n S c VS LS lc vt (.objStart n BT.any :: E) rest1 q hv r3 hq
        refine ⟨.objN w ms, rest, vt', j3, rfl, ?_, ?_, by omega, ?_⟩
        · simp only [LItem.ok, LItem.erase, Item.ok, eraseMems_length, a1, f1, Bool.true_and]
          exact a2
        · simp [LItem.payload, a1, a3]
        · have e : (LItem.objN w ms).events.reverse ++ E =
              .objEnd :: ((levMems ms).reverse ++ (.objStart (n : Int) BT.any :: E)) := by
            simp [LItem.events, LItem.erase, Item.events, levMems, eraseMems_length, a1]
          rw [e]; exact a5
    have h1' : (b0 == countMarker) = false := by simpa using h1
    by_cases h2 : (b0 == typeMarker) = true
    · -- `{$`: a typed object
      have : b0 = typeMarker := by simpa using h2
      subst this
      obtain ⟨_, j1, rfl, r1⟩ := hr.next_eq (more_cons _ _ _) (step_objInit_typed (c :: S) VS LS lc vt E bs)
      obtain ⟨t, st, w, n, rest1, j2, t1, t2, t3, rfl, t5, r2⟩ :=
        typed_header stObjectTyped (Or.inr rfl) S c VS LS lc vt E bs q r1 hq
      by_cases hz : n ≠ 0 ∧ rest1 = []
      · obtain ⟨hn0, rfl⟩ := hz
        obtain ⟨_, j3, rfl, r3⟩ := r2.next_eq (Or.inr rfl)
          (step_objCount_withLen_nil (c :: S) (VS.push st) (lc :: LS) (markerToBaseType t) E stObjectTyped
            (Or.inr rfl) n hn0)
        have := r3.halt_nil (by simp [pending, mk]; omega)
        rw [this] at hq; cases hq
      · have hz' : (n : Int) = 0 ∨ rest1 ≠ [] := by
          by_cases h : n = 0
          · left; omega
          · right; intro h2; exact hz ⟨h, h2⟩
        have hm' : More (mk (c :: S) ⟨stObjectTyped, stFieldName⟩ (VS.push st) (lc :: LS) n (markerToBaseType t)
            (.objStart n BT.any :: E)) rest1 := by
          rcases hz' with h | h
          · right; simp [pending, mk, h]
          · exact Or.inl h
        have r3 := r2.congr (Or.inr rfl) hm'
          (step_objCount_withLen (c :: S) (VS.push st) (lc :: LS) n (markerToBaseType t) E stObjectTyped (Or.inr rfl)
            rest1 hz')
        obtain ⟨ms, rest, vt', j3, a1, a2, a3, a4, a5⟩ :=
          (ih j2 (by omega)).objTyped t n S c (VS.push st) LS lc (markerToBaseType t)
            (.objStart n BT.any :: E) rest1 q (by rw [push_current]; exact t1) t2
            (vsok_push VS st (start_ne_fail t1)) r3 hq
        rw [push_pop hv] at a5
        refine ⟨.objT t w ms, rest, vt', j3, rfl, ?_, ?_, by omega, ?_⟩
        · simp only [LItem.ok, LItem.erase, Item.ok, eraseMemsT_length, a1, t3, isTypeMarker_of t1 t2, Bool.true_and]
          exact a2
        · simp [LItem.payload, a1, a3]
        · have e : (LItem.objT t w ms).events.reverse ++ E =
              .objEnd :: ((levMemsT ms).reverse ++ (.objStart (n : Int) BT.any :: E)) := by
            simp [LItem.events, LItem.erase, Item.events, levMemsT, eraseMemsT_length, a1]
          rw [e]; exact a5
    have h2' : (b0 == typeMarker) = false := by simpa using h2
    -- a plain object
    obtain ⟨_, j1, rfl, r1⟩ := hr.next_eq (more_cons _ _ _) (step_objInit_dyn (c :: S) VS LS lc vt E b0 bs h1' h2')
    obtain ⟨ms, rest, vt', j2, a1, a2, a3, a4⟩ :=
      (ih j1 (by omega)).objDyn S c VS LS lc vt (.objStart (-1) BT.any :: E) (b0 :: bs) q hv r1 hq
    refine ⟨.obj ms, rest, vt', j2, rfl, a1, ?_, by omega, ?_⟩
    · simp [LItem.payload, a2]
    · have e : (LItem.obj ms).events.reverse ++ E =
          .objEnd :: ((levMems ms).reverse ++ (.objStart (-1) BT.any :: E)) := by
        simp [LItem.events, LItem.erase, Item.events, levMems]
      rw [e]; exact a4

/-! ## all claims -/

theorem c_item {k : Nat} (ih : IH k) (t : UInt8) (st : St) (S : List St) (c : St) (VS : StateStack) (LS : List Int)
    (lc : Int) (vt : Nat) (E : List Ev) (b : Bytes) (q : P) (ht : markerToStartState t = some st)
    (hn : (t == noopMarker) = false) (hv : VSok VS) (hr : RunsK k (mk (c :: S) st VS LS lc vt E) b q)
    (hq : q.state.stack = []) : ItemConcl k t S c VS LS lc vt E b q := by
  have h := start_cases ht
  simp only [startTable, List.mem_cons, Prod.mk.injEq, List.not_mem_nil, or_false] at h
  rcases h with ⟨rfl, rfl⟩ | ⟨rfl, rfl⟩ | ⟨rfl, rfl⟩ | ⟨rfl, rfl⟩ | ⟨rfl, rfl⟩ | ⟨rfl, rfl⟩ | ⟨rfl, rfl⟩ |
    ⟨rfl, rfl⟩ | ⟨rfl, rfl⟩ | ⟨rfl, rfl⟩ | ⟨rfl, rfl⟩ | ⟨rfl, rfl⟩ | ⟨rfl, rfl⟩ | ⟨rfl, rfl⟩ | ⟨rfl, rfl⟩ |
    ⟨rfl, rfl⟩
  · exact item_null S c VS LS lc vt E b q hr
  · exact absurd hn (by decide)
  · exact item_true S c VS LS lc vt E b q hr
  · exact item_false S c VS LS lc vt E b q hr
  · exact item_int8 S c VS LS lc vt E b q hr hq
  · exact item_uint8 S c VS LS lc vt E b q hr hq
  · exact item_int16 S c VS LS lc vt E b q hr hq
  · exact item_int32 S c VS LS lc vt E b q hr hq
  · exact item_int64 S c VS LS lc vt E b q hr hq
  · exact item_float32 S c VS LS lc vt E b q hr hq
  · exact item_float64 S c VS LS lc vt E b q hr hq
  · obtain ⟨w, s, rest, j, h1, h2, h3, h4⟩ := item_string S c VS LS lc vt E b q stHighPrec (Or.inr rfl) hr hq
    exact ⟨.hp w s, rest, vt, j, rfl, h1, by simp [LItem.payload, h2], h3, h4⟩
  · exact item_char S c VS LS lc vt E b q hr hq
  · obtain ⟨w, s, rest, j, h1, h2, h3, h4⟩ := item_string S c VS LS lc vt E b q stString (Or.inl rfl) hr hq
    exact ⟨.str w s, rest, vt, j, rfl, h1, by simp [LItem.payload, h2], h3, h4⟩
  · exact item_obj ih S c VS LS lc vt E b q hv hr hq
  · exact item_arr ih S c VS LS lc vt E b q hv hr hq

/-- ALL CLAIMS, for runs of every length -/
theorem claims_all (k : Nat) : Claims k := by
  induction k using Nat.strongRecOn with
  | _ k ih =>
    have ih' : IH k := ih
    exact {
      item := fun t st S c VS LS lc vt E b q ht hn hv hr hq => c_item ih' t st S c VS LS lc vt E b q ht hn hv hr hq
      arrDyn := fun stp S c VS LS lc vt E b q hs hv hr hq => c_arrDyn ih' stp S c VS LS lc vt E b q hs hv hr hq
      arrCount := fun n S c VS LS l0 vt E b q hv hr hq => c_arrCount ih' n S c VS LS l0 vt E b q hv hr hq
      arrTyped := fun t n S c VS LS l0 vt E b q ht hn hv hr hq =>
        c_arrTyped ih' t n S c VS LS l0 vt E b q ht hn hv hr hq
      objDyn := fun S c VS LS lc vt E b q hv hr hq => c_objDyn ih' S c VS LS lc vt E b q hv hr hq
      objDynC := fun S c VS LS lc vt E b q hv hr hq => c_objDynC ih' S c VS LS lc vt E b q hv hr hq
      objCount := fun n S c VS LS l0 vt E b q hv hr hq => c_objCount ih' n S c VS LS l0 vt E b q hv hr hq
      objCountC := fun n S c VS LS l0 vt E b q hv hr hq => c_objCountC ih' n S c VS LS l0 vt E b q hv hr hq
      objTyped := fun t n S c VS LS l0 vt E b q ht hn hv hr hq =>
        c_objTyped ih' t n S c VS LS l0 vt E b q ht hn hv hr hq }

/-! ## the top level: a stream -/

/-- THE CONVERSE, run level: an error-free run from the idle state that ends with an empty
state stack has read a stream of items of the grammar -/
theorem top_conv (k : Nat) : ∀ (VS : StateStack) (LS : List Int) (lc : Int) (vt : Nat) (E : List Ev) (b : Bytes) (q : P),
    VSok VS → RunsK k (mk [] ⟨stNext, stStart⟩ VS LS lc vt E) b q → q.state.stack = [] →
    ∃ (xs : List (Nat × LItem)) (trail : Nat), lokElems xs = true ∧ b = lwireStream xs trail ∧
      q.evs = (levElems xs).reverse ++ E := by
  induction k using Nat.strongRecOn with
  | _ k ih =>
    intro VS LS lc vt E b q hv hr hq
    cases b with
    | nil =>
      have := (hr.halt (by rintro (h | h); exact h rfl; cases h)).2
      subst this
      exact ⟨[], 0, rfl, rfl, rfl⟩
    | cons b0 bs =>
      by_cases h2 : (b0 == noopMarker) = true
      · have : b0 = noopMarker := by simpa using h2
        subst this
        obtain ⟨_, j, rfl, h3⟩ := hr.next_eq (more_cons _ _ _) (step_next_noop VS LS lc vt E bs)
        obtain ⟨xs, trail, k1, k2, k3⟩ := ih j (Nat.lt_succ_self j) VS LS lc vt E bs q hv h3 hq
        cases xs with
        | nil => exact ⟨[], trail + 1, rfl, by rw [k2]; rfl, k3⟩
        | cons nx xs' =>
          obtain ⟨n, x⟩ := nx
          exact ⟨(n + 1, x) :: xs', trail, k1, by rw [k2]; rfl, k3⟩
      have h2' : (b0 == noopMarker) = false := by simpa using h2
      obtain ⟨x, rest, vt', j, k1, k2, k3, k4, k5⟩ :=
        pos_conv (fun j _ => claims_all j) [] ⟨stNext, stStart⟩ VS LS lc vt E (by simp) hv b0 bs q h2'
          (pos_top VS LS lc vt E (b0 :: bs)) hr hq
      obtain ⟨xs, trail, i1, i2, i3⟩ := ih j k4 VS LS lc vt' (x.events.reverse ++ E) rest q hv k5 hq
      refine ⟨(0, x) :: xs, trail, ?_, ?_, ?_⟩
      · rw [lokElems_cons, k2, i1]; rfl
      · rw [k3, i2, ← k1]
        simp [lwireStream, lwireElems, noops_zero', LItem.marker]
      · rw [levElems_cons, i3]; simp

end SF.Ubjson.Conv
