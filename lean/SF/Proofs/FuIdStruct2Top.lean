/-
  C11, DIRECT path, composed statement for STRUCT types — continuation of SF/Proofs/FuIdStructTop.lean
  (helpers SF/Proofs/FuIdStruct2{Fold,Run,Agree}.lean).

  `fold_unfold_struct_omit`: `fold_unfold_struct_prim` with one more kind of field (`FD2`, `Desc2`, `Vals2`, …):
    * `FD2.oe nm p` — an OMITEMPTY member `nm` (tag option `omitempty`, no `inline`) of scalar type `p`.
  What happens to it (the mirror = the Go code, `makeResolveNonEmptyValue`): a STRING member is left out of the
  folded object iff it is "" (`isEmptyP`; this is `Rules.isEmptyF` on scalar types, `isEmptyF_prim`); the fresh
  target keeps its zero value "", which IS the folded value.  For bool / integers / floats the resolver chain is
  empty: the member is always reported (0 and false included) and assigned.
  Conclusions (a)–(f) and the hypotheses about the Unfold side are those of `fold_unfold_struct_prim`.

  CONTENTS of this file
    1. `fold_unfold_struct_omit` (+ `fold_struct_omit_events`, instance `fold_unfold_Om`)          — omitempty members
    2. `fold_unfold_struct_nested` (+ `fold_struct_nested_events`, `qL_noF32`, instance `fold_unfold_Nest`) — nested
       and inlined structs to any depth (≤ 498)
    3. `compile_struct_prim`, `compile_struct_prim_named`, `fold_unfold_struct_omit_total` (no hypothesis about the
       Unfold side left), UNCONDITIONAL instance `fold_unfold_Om_total`; bridge `trim_bridge` / `unf_tag_rules`
       between `Unf.parseTags` (String.trimAscii) and `Fold.parseTags` / `Rules.parseTag` (FuIdStruct2Tags.lean)
    LEFT UNPROVED: see the end of the file.
-/
import SF.Proofs.FuIdStruct2Agree
import SF.Proofs.FuIdStruct2NAgree
import SF.Proofs.FuIdStruct2Compile
import SF.Proofs.FuIdStructTop
namespace SF.Props.FuId
open SF SF.Gotype SF.Gotype.Fold SF.FoldProofs SF.FuId
open SF.Unf (Ctx newUnfolder setTarget typeFuel)
open SF.Ops.Unf (xevToUEvs)
open SF.Ops.Fu (feed agreeF)
open SF.UnfProofs.StructVal (FM Shaped fieldOK_prim fieldOK_struct)
open SF.Unf.Spec (specFields)

/-- STAGE 5b — structs with fields of primitive kind: dropped fields, plain members and OMITEMPTY members,
every value. -/
theorem fold_unfold_struct_omit (o : FoldOpts) (hfail : o.failAt = none) (S : GoType) (fs : List Field)
    (ds : List FD2) (vs : List GoVal)
    (hg : goodT [] S = true) (hu : S.under = .struct fs) (hd : Desc2 fs ds) (hv : Vals2 ds vs)
    (ut : Unf.GoType) (nm : String) (ufs : List (String × String × Unf.GoType)) (fields : Unf.Fields) (R : Unf.Reg)
    (htr : Unf.Tr.trType S = some ut) (hS : ut.un Unf.Tr.fuTable = .struct nm ufs)
    (hcomp : Unf.lookupReflUnfolder Unf.Tr.fuTable typeFuel [] newUnfolder.reg ut = .ok (.struct fields, R))
    (hFM : FM Unf.Tr.fuTable ut fields (sfOf2 ds 0))
    (hnd : ((sfOf2 ds 0).map (·.1)).Nodup)
    (hz : Unf.zero Unf.Tr.fuTable ut = .struct (zerosOf2 ds))
    (hv0 : Shaped Unf.Tr.fuTable ut (Unf.zero Unf.Tr.fuTable ut)) :
    ∃ c0 c1,
      Unf.Tr.trType S = some ut ∧
      setTarget Unf.Tr.fuTable ut (Unf.zero Unf.Tr.fuTable ut) newUnfolder = .ok c0 ∧
      (impl o S (.struct vs)).res = .ok ∧
      feed c0 ((impl o S (.struct vs)).evs.map xevToUEvs) = (c1, none) ∧
      c1.target = .struct (trFields2 ds vs) ∧
      c1 = { newUnfolder with target := c1.target, env := Unf.Tr.fuTable, reg := R, cells := c1.cells,
                              keyCache := c1.keyCache } ∧
      c1.depths = [0, 0, 0, 0, 0, 0] ∧
      ((∀ d v, (d, v) ∈ ds.zip vs → trField2 d v = trFieldX2 d v) →
        agreeF "direct" 1000 S (.struct vs) (back c1.target) = true) := by
  obtain ⟨c0, cells', kc', h1, h2, h3⟩ :=
    struct_run2 o hfail S fs ds vs hg hu hd hv ut nm ufs fields R hS hcomp hFM hnd hz hv0
  exact ⟨c0, _, htr, h2, h1, h3, rfl, rfl, rfl, fun hq => agree_struct2 998 S fs ds vs hu hd hv hq⟩

/-- the events Fold delivers: the empty `omitempty` string member is MISSING from the object (this is what
distinguishes the statement from `fold_unfold_struct_prim`) -/
theorem fold_struct_omit_events (o : FoldOpts) (hfail : o.failAt = none) (S : GoType) (fs : List Field)
    (ds : List FD2) (vs : List GoVal)
    (hg : goodT [] S = true) (hu : S.under = .struct fs) (hd : Desc2 fs ds) (hv : Vals2 ds vs) :
    (impl o S (.struct vs)).evs =
      .ev (.objStart (structFoldLen fs (foldersOf2 ds 0).length) BT.any) :: memEvs2 ds vs ++ [.ev .objEnd] := by
  rw [impl_struct2 o hfail S fs ds vs hg hu hd hv]

/-- the side condition of (f) holds for every field but a float32 member holding a NaN -/
theorem struct_side_condition2 (d : FD2) (v : GoVal) (h : d.prim ≠ .f32 ∨ isNaN32 (getF32 v) = false) :
    trField2 d v = trFieldX2 d v := field_side_condition2 d v h

/-! ## an unconditional instance (but for `hcomp`): `struct{A int; N string "n,omitempty"; b string}` -/

section Omit
open SF.FoldProofs.Examples

abbrev fN : Field := .mk "N" .string "n,omitempty" false
theorem kN : fieldKind fN = .omitEmpty [110] := by
  rw [fieldKind_omitempty _ _ _ (by decide +kernel)]; decide +kernel

def tOm : GoType := .struct [fA, fN, fb]
def dsOm : List FD2 := [.mem [97] (.num .int), .oe [110] .string, .drop .string]
theorem descOm : Desc2 [fA, fN, fb] dsOm := .cons ⟨kA, rfl⟩ (.cons ⟨kN, rfl⟩ (.cons ⟨kb, rfl⟩ .nil))

def utOm : Unf.GoType := .struct "" [("A", "", .int .int), ("N", "n,omitempty", .string), ("b", "", .string)]
def fieldsOm : Unf.Fields := [([97], [0], .lifted (.prim (.num .int))), ([110], [1], .lifted (.prim .string))]

theorem fmOm : FM Unf.Tr.fuTable utOm fieldsOm (sfOf2 dsOm 0) :=
  .cons _ _ _ _ _ _ (fieldOK_prim _ _ _ rfl (by decide) (by intro nk h; cases h; rfl))
    (SF.Unf.Str.tyAtB_sound [0] _ _ rfl) <|
  .cons _ _ _ _ _ _ (fieldOK_prim _ _ _ rfl (by decide) (by intro nk h; cases h))
    (SF.Unf.Str.tyAtB_sound [1] _ _ rfl) .nil

/-- `struct{A int; N string "n,omitempty"; b string}`, EVERY value `(a, n, s)`: the new value is `(a, n, "")`;
when `n` is "" the object Fold delivers is `{ "a": a }` only.  Only `hcomp` (the compiled table, `#eval`-checked
below) is assumed. -/
theorem fold_unfold_Om (o : FoldOpts) (hfail : o.failAt = none) (vs : List GoVal) (hv : Vals2 dsOm vs)
    (hcomp : Unf.lookupReflUnfolder Unf.Tr.fuTable typeFuel [] newUnfolder.reg utOm = .ok (.struct fieldsOm, [])) :
    ∃ c0 c1,
      Unf.Tr.trType tOm = some utOm ∧
      setTarget Unf.Tr.fuTable utOm (Unf.zero Unf.Tr.fuTable utOm) newUnfolder = .ok c0 ∧
      (impl o tOm (.struct vs)).res = .ok ∧
      (impl o tOm (.struct vs)).evs = .ev (.objStart (-1) BT.any) :: memEvs2 dsOm vs ++ [.ev .objEnd] ∧
      feed c0 ((impl o tOm (.struct vs)).evs.map xevToUEvs) = (c1, none) ∧
      c1.target = .struct (trFields2 dsOm vs) ∧ c1.depths = [0, 0, 0, 0, 0, 0] ∧
      agreeF "direct" 1000 tOm (.struct vs) (back c1.target) = true := by
  have hg : goodT [] tOm = true := good_of_desc2 [] _ _ descOm
  obtain ⟨c0, c1, h1, h2, h3, h4, h5, _, h7, h8⟩ :=
    fold_unfold_struct_omit o hfail tOm [fA, fN, fb] dsOm vs hg rfl descOm hv utOm "" _ fieldsOm [] rfl rfl hcomp fmOm
      (by decide) rfl (SF.Unf.Str.hasTyB_sound _ _ _ (by decide +kernel))
  have hlen : structFoldLen [fA, fN, fb] (foldersOf2 dsOm 0).length = -1 := by
    obtain ⟨hom, hrest⟩ := SF.FoldTagRules.tag_rules_agree "n,omitempty"
    obtain ⟨p1, p2, p3, p4, p5⟩ := pt_omitempty
    obtain ⟨_, _, he⟩ := hrest p1
    have : (!(parseTags "n,omitempty").2.omitF && ((parseTags "n,omitempty").2.squash ||
        (parseTags "n,omitempty").2.omitEmpty)) = true := by
      rw [hom, he, p1, p3, p4]; simp
    simp only [structFoldLen, List.any_cons, Field.tag, this, Bool.true_or, Bool.or_true, if_true]
  refine ⟨c0, c1, h1, h2, h3, ?_, h4, h5, h7, h8 ?_⟩
  · rw [fold_struct_omit_events o hfail tOm _ dsOm vs hg rfl descOm hv, hlen]
  · intro d v hm
    apply struct_side_condition2
    left
    cases hv with
    | cons _ hv' => cases hv' with
      | cons _ hv'' => cases hv'' with
        | cons _ hv''' =>
          cases hv'''
          simp only [dsOm, List.zip_cons_cons, List.zip_nil_right, List.mem_cons, List.not_mem_nil, or_false,
            Prod.mk.injEq] at hm
          rcases hm with ⟨rfl, _⟩ | ⟨rfl, _⟩ | ⟨rfl, _⟩ <;> simp [FD2.prim]

/- non-vacuity: the hypotheses of `fold_unfold_struct_omit` about types and values hold for this type and the
values `(5, "", "x")` (the member `n` is missing: `{ "a": 5 }`) and `(5, "hi", "x")` (`{ "a": 5, "n": "hi" }`);
the translated structs are `(5, "", "")` and `(5, "hi", "")` -/
example : Desc2 [fA, fN, fb] dsOm ∧ Vals2 dsOm [.int 5, .str [], .str [120]] ∧ Vals2 dsOm [.int 5, .str [104, 105], .str [120]] ∧
    Unf.Tr.trType tOm = some utOm ∧
    FM Unf.Tr.fuTable utOm fieldsOm (sfOf2 dsOm 0) ∧ ((sfOf2 dsOm 0).map (·.1)).Nodup ∧
    Unf.zero Unf.Tr.fuTable utOm = .struct (zerosOf2 dsOm) ∧
    Shaped Unf.Tr.fuTable utOm (Unf.zero Unf.Tr.fuTable utOm) ∧
    memEvs2 dsOm [.int 5, .str [], .str [120]] = [.ev (.key [97]), .ev (.num .i64 5)] ∧
    memEvs2 dsOm [.int 5, .str [104, 105], .str [120]] =
      [.ev (.key [97]), .ev (.num .i64 5), .ev (.key [110]), .ev (.str [104, 105])] ∧
    trFields2 dsOm [.int 5, .str [], .str [120]] = [.int .int 5, .str [], .str []] ∧
    trFields2 dsOm [.int 5, .str [104, 105], .str [120]] = [.int .int 5, .str [104, 105], .str []] :=
  ⟨descOm, .cons (by decide +kernel) (.cons (by decide +kernel) (.cons (by decide +kernel) .nil)),
    .cons (by decide +kernel) (.cons (by decide +kernel) (.cons (by decide +kernel) .nil)), rfl, fmOm, by decide, rfl,
    SF.Unf.Str.hasTyB_sound _ _ _ (by decide +kernel), by decide +kernel, by decide +kernel, rfl, rfl⟩

/- the Unfold half evaluated by the kernel: the tokens `{ "a": int64(5) }` (member `n` omitted) leave `(5, "", "")` -/
example :
    (match Unf.run typeFuel (Unf.UTree.obj (-1) 0 (memTrees2 dsOm [.int 5, .str [], .str [120]])).events
        (SF.UnfProofs.StructVal.startCtx newUnfolder (fun _ => none) [] fieldsOm (.struct [.int .int 0, .str [], .str []])) with
     | .ok _ c₁ => c₁.depths == [0, 0, 0, 0, 0, 0] &&
        (match c₁.target with | .struct [.int .int 5, .str [], .str []] => true | _ => false)
     | _ => false) = true := by decide +kernel

end Omit

/-! # NESTED structs (helpers SF/Proofs/FuIdStruct2N{Fold,Run,Agree}.lean)

  The description of the struct type is a TREE `ds : List FT` (`descL fs ds`, from `fieldKind` = the documented tag
  grammar): besides `FT.drop p`, `FT.mem nm p`, `FT.oe nm p` (as above) a field may be
    * `FT.sub nm T fs' ut' ds'` — a plain member `nm` of STRUCT type `T` (named or not; `T.under = .struct fs'`,
                                   fields described by `ds'`, to ANY depth), `ut'` its translated type;
    * `FT.inl T fs' ds'`       — an INLINED field (`inline` / `squash`) of struct type `T`: its members are members of
                                   the enclosing object (Fold) and entries of the FLATTENED field table with longer
                                   field-index paths (Unfold: `sfL`).
  Values: `valsL ds vs` (one value per field, `.struct` values for struct-typed fields).  Conclusions (a)–(f) as in
  `fold_unfold_struct_prim`; the side condition of (f) is `qL ds vs`: no float32 member ANYWHERE in the tree holds a
  signalling NaN (`qL_noF32`: true for every value when the tree has no float32 member).

  ADDITIONAL HYPOTHESES
    `hdep : tdepth S ≤ 498` — the fuel of the MIRROR's compiler (`compileFuel` = 2000; 4 units per inlined level)
       and of the oracle `agreeF … 1000`; the same bound as `dynBound` in C12 (`fold_agrees`).  A bound of this kind
       is needed for the statement about the mirror (with fuel 0 `getReflectFold` answers `fatal`); it is not a
       property of the Go code.
    `huok : uokL Unf.Tr.fuTable ds` — for every struct-typed member anywhere in the tree: its translated type is a
       struct type whose specification field list `Spec.specFields` is the flattened list `sfL ds' 0 []` of its
       description, with pairwise distinct member names (the nested analogue of `hnd`; checkable by evaluation,
       not by the kernel: `specFields` trims tag parts with `String.trimAscii`).
    `hFM`, `hnd`, `hz`, `hv0`, `hcomp` as before, for the flattened list `sfL ds 0 []`. -/

/-- STAGE 5c — NESTED structs: plain struct-typed members and inlined structs to any depth (≤ 498), scalar leaves
dropped / plain / omitempty, every value. -/
theorem fold_unfold_struct_nested (o : FoldOpts) (hfail : o.failAt = none) (S : GoType) (fs : List Field)
    (ds : List FT) (vs : List GoVal)
    (hg : goodT [] S = true) (hu : S.under = .struct fs) (hd : descL fs ds) (hv : valsL ds vs = true)
    (hdep : tdepth S ≤ 498)
    (ut : Unf.GoType) (nm : String) (ufs : List (String × String × Unf.GoType)) (fields : Unf.Fields) (R : Unf.Reg)
    (htr : Unf.Tr.trType S = some ut) (hS : ut.un Unf.Tr.fuTable = .struct nm ufs)
    (hcomp : Unf.lookupReflUnfolder Unf.Tr.fuTable typeFuel [] newUnfolder.reg ut = .ok (.struct fields, R))
    (hFM : FM Unf.Tr.fuTable ut fields (sfL ds 0 []))
    (hnd : ((sfL ds 0 []).map (·.1)).Nodup)
    (huok : uokL Unf.Tr.fuTable ds)
    (hz : Unf.zero Unf.Tr.fuTable ut = .struct (zerosL ds))
    (hv0 : Shaped Unf.Tr.fuTable ut (Unf.zero Unf.Tr.fuTable ut)) :
    ∃ c0 c1,
      Unf.Tr.trType S = some ut ∧
      setTarget Unf.Tr.fuTable ut (Unf.zero Unf.Tr.fuTable ut) newUnfolder = .ok c0 ∧
      (impl o S (.struct vs)).res = .ok ∧
      feed c0 ((impl o S (.struct vs)).evs.map xevToUEvs) = (c1, none) ∧
      c1.target = .struct (trL ds vs) ∧
      c1 = { newUnfolder with target := c1.target, env := Unf.Tr.fuTable, reg := R, cells := c1.cells,
                              keyCache := c1.keyCache } ∧
      c1.depths = [0, 0, 0, 0, 0, 0] ∧
      (qL ds vs → agreeF "direct" 1000 S (.struct vs) (back c1.target) = true) := by
  obtain ⟨c0, cells', kc', h1, h2, h3⟩ :=
    struct_runN o hfail S fs ds vs hg hu hd hv hdep ut nm ufs fields R hS hcomp hFM hnd huok hz hv0
  exact ⟨c0, _, htr, h2, h1, h3, rfl, rfl, rfl, fun hq => agree_structN S fs ds vs hg hu hd hv hdep hq⟩

/-- the events Fold delivers for a nested struct, exactly: a struct-typed member is `key { … }`, an inlined struct
contributes its members only, an empty omitempty string member is missing -/
theorem fold_struct_nested_events (o : FoldOpts) (hfail : o.failAt = none) (S : GoType) (fs : List Field)
    (ds : List FT) (vs : List GoVal)
    (hg : goodT [] S = true) (hu : S.under = .struct fs) (hd : descL fs ds) (hv : valsL ds vs = true)
    (hdep : tdepth S ≤ 498) :
    (impl o S (.struct vs)).evs =
      .ev (.objStart (structFoldLen fs (foldersL ds 0).length) BT.any) :: memEvsL ds vs ++ [.ev .objEnd] := by
  rw [impl_structN o hfail S fs ds vs hg hu hd hv hdep]

mutual
/-- no float32 member anywhere in the tree -/
def noF32L : List FT → Bool
  | [] => true
  | d :: ds => noF32I d && noF32L ds
def noF32I : FT → Bool
  | .mem _ p => decide (p ≠ .f32)
  | .oe _ p => decide (p ≠ .f32)
  | .sub _ _ _ _ ds => noF32L ds
  | .inl _ _ ds => noF32L ds
  | _ => true
end

theorem trPtrElem_noF32 (p : Prim) (v : GoVal) (h : p ≠ .f32) : trPtrElem p v = trPrim p v := by
  cases p <;> first | rfl | exact absurd rfl h

mutual
/-- the side condition of (f) holds for EVERY value when no member is of type float32 -/
theorem qL_noF32 : ∀ (ds : List FT) (vs : List GoVal), noF32L ds = true → qL ds vs
  | [], _, _ => by simp [qL]
  | _ :: _, [], _ => by simp [qL]
  | d :: ds, v :: vs, h => by
    simp only [noF32L, Bool.and_eq_true] at h
    simp only [qL]
    exact ⟨qI_noF32 d v h.1, qL_noF32 ds vs h.2⟩
theorem qI_noF32 : ∀ (d : FT) (v : GoVal), noF32I d = true → qI d v
  | .drop p, v, _ => by simp [qI]
  | .mem nm p, v, h => by
    simp only [noF32I, decide_eq_true_eq] at h
    simp only [qI]
    exact trPtrElem_noF32 p v h
  | .oe nm p, v, h => by
    simp only [noF32I, decide_eq_true_eq] at h
    simp only [qI]
    exact trPtrElem_noF32 p v h
  | .sub nm T fs ut ds, v, h => by
    simp only [noF32I] at h
    cases v <;> simp only [qI]
    exact qL_noF32 ds _ h
  | .inl T fs ds, v, h => by
    simp only [noF32I] at h
    cases v <;> simp only [qI]
    exact qL_noF32 ds _ h
end

/-! ## an instance: `struct{A int; In struct{N string "n,omitempty"; X bool} ",inline"; P Inner; Q struct{P Inner}}`
with the menagerie's NAMED `Inner = struct{X int; Y string "why"}`: an inlined struct (with an omitempty member), a
struct-typed member of a named type, and a struct-typed member two levels deep -/

section Nest
open SF.FoldProofs.Examples

abbrev fXb : Field := .mk "X" .bool "" false
abbrev fIn : Field := .mk "In" (.struct [fN, fXb]) ",inline" false
abbrev fP : Field := .mk "P" tInner "" false
abbrev fQ : Field := .mk "Q" (.struct [fP]) "" false
def tNest : GoType := .struct [fA, fIn, fP, fQ]

theorem kXb : fieldKind fXb = .plain [120] := by
  rw [fieldKind_untagged _ _ _ (by decide +kernel)]; decide +kernel
theorem kIn : fieldKind fIn = .inline := by
  rw [fieldKind_inline _ _ _ (by decide +kernel)]
theorem kP : fieldKind fP = .plain [112] := by
  rw [fieldKind_untagged _ _ _ (by decide +kernel)]; decide +kernel
theorem kQ : fieldKind fQ = .plain [113] := by
  rw [fieldKind_untagged _ _ _ (by decide +kernel)]; decide +kernel

def utIn : Unf.GoType := .struct "" [("N", "n,omitempty", .string), ("X", "", .bool)]
def utQ : Unf.GoType := .struct "" [("P", "", utInner)]
def utNest : Unf.GoType := .struct "" [("A", "", .int .int), ("In", ",inline", utIn), ("P", "", utInner), ("Q", "", utQ)]

def dsInnerT : List FT := [.mem [120] (.num .int), .mem [119, 104, 121] .string]
def dsQ : List FT := [.sub [112] tInner [fX', fY'] utInner dsInnerT]
def dsNest : List FT :=
  [.mem [97] (.num .int), .inl (.struct [fN, fXb]) [fN, fXb] [.oe [110] .string, .mem [120] .bool],
   .sub [112] tInner [fX', fY'] utInner dsInnerT, .sub [113] (.struct [fP]) [fP] utQ dsQ]

theorem descInnerT : descL [fX', fY'] dsInnerT := ⟨⟨kX', rfl⟩, ⟨kY', rfl⟩, trivial⟩
theorem descNest : descL [fA, fIn, fP, fQ] dsNest :=
  ⟨⟨kA, rfl⟩, ⟨kIn, rfl, rfl, ⟨kN, rfl⟩, ⟨kXb, rfl⟩, trivial⟩, ⟨kP, rfl, rfl, descInnerT⟩,
    ⟨kQ, rfl, rfl, ⟨kP, rfl, rfl, descInnerT⟩, trivial⟩, trivial⟩

def fieldsQ : Unf.Fields := [([112], [0], .struct fieldsInner)]
def fieldsNest : Unf.Fields :=
  [([97], [0], .lifted (.prim (.num .int))), ([110], [1, 0], .lifted (.prim .string)),
   ([120], [1, 1], .lifted (.prim .bool)), ([112], [2], .struct fieldsInner), ([113], [3], .struct fieldsQ)]

/-- the two facts about `Spec.specFields` the kernel cannot evaluate (`String.trimAscii`), `#guard`-checked below -/
def SpecNest : Prop :=
  specFields Unf.Tr.fuTable (2 + 64) [("X", "", .int .int), ("Y", "why", .string)] 0 = sfL dsInnerT 0 [] ∧
  specFields Unf.Tr.fuTable (1 + 64) [("P", "", utInner)] 0 = sfL dsQ 0 []

theorem okInner (h : SpecNest) : SF.Unf.SV.FieldOK Unf.Tr.fuTable (.struct fieldsInner) utInner :=
  fieldOK_struct _ utInner "Inner" _ fieldsInner rfl (by
    show FM _ _ _ (specFields _ (2 + 64) _ 0)
    rw [h.1]; exact fmInner)

theorem okQ (h : SpecNest) : SF.Unf.SV.FieldOK Unf.Tr.fuTable (.struct fieldsQ) utQ :=
  fieldOK_struct _ utQ "" _ fieldsQ rfl (by
    show FM _ _ _ (specFields _ (1 + 64) _ 0)
    rw [h.2]
    exact .cons _ _ _ _ _ _ (okInner h) (SF.Unf.Str.tyAtB_sound [0] _ _ rfl) .nil)

theorem fmNest (h : SpecNest) : FM Unf.Tr.fuTable utNest fieldsNest (sfL dsNest 0 []) :=
  .cons _ _ _ _ _ _ (fieldOK_prim _ _ _ rfl (by decide) (by intro nk h; cases h; rfl))
    (SF.Unf.Str.tyAtB_sound [0] _ _ rfl) <|
  .cons _ _ _ _ _ _ (fieldOK_prim _ _ _ rfl (by decide) (by intro nk h; cases h))
    (SF.Unf.Str.tyAtB_sound [1, 0] _ _ rfl) <|
  .cons _ _ _ _ _ _ (fieldOK_prim _ _ _ rfl (by decide) (by intro nk h; cases h))
    (SF.Unf.Str.tyAtB_sound [1, 1] _ _ rfl) <|
  .cons _ _ _ _ _ _ (okInner h) (SF.Unf.Str.tyAtB_sound [2] _ _ rfl) <|
  .cons _ _ _ _ _ _ (okQ h) (SF.Unf.Str.tyAtB_sound [3] _ _ rfl) .nil

theorem uokNest (h : SpecNest) : uokL Unf.Tr.fuTable dsNest := by
  have hI : uokI Unf.Tr.fuTable (.sub [112] tInner [fX', fY'] utInner dsInnerT) :=
    ⟨⟨"Inner", _, rfl, h.1⟩, by decide, trivial, trivial, trivial⟩
  exact ⟨trivial, ⟨trivial, trivial, trivial⟩, hI, ⟨⟨"", _, rfl, h.2⟩, by decide, hI, trivial⟩, trivial⟩

theorem goodNest : goodT [] tNest = true := by
  have hN : inlineIfaceF fN = false := by simp only [inlineIfaceF, kN]
  have hXb : inlineIfaceF fXb = false := by simp only [inlineIfaceF, kXb]
  have hA : inlineIfaceF fA = false := by simp only [inlineIfaceF, kA]
  have hP : inlineIfaceF fP = false := by simp only [inlineIfaceF, kP]
  have hQ : inlineIfaceF fQ = false := by simp only [inlineIfaceF, kQ]
  have hIn : inlineIfaceF fIn = false := by simp only [inlineIfaceF, kIn]; decide +kernel
  simp only [tNest, goodT, goodFs, goodF, hA, hP, hQ, hIn, hN, hXb, goodInner]
  decide +kernel

/-- the nested instance, EVERY value: only `hcomp` (the compiled table) and `SpecNest` are assumed (both
`#guard`-checked below: the kernel cannot evaluate `String.trimAscii`). -/
theorem fold_unfold_Nest (o : FoldOpts) (hfail : o.failAt = none) (vs : List GoVal) (hv : valsL dsNest vs = true)
    (R : Unf.Reg) (hspec : SpecNest)
    (hcomp : Unf.lookupReflUnfolder Unf.Tr.fuTable typeFuel [] newUnfolder.reg utNest = .ok (.struct fieldsNest, R)) :
    ∃ c0 c1,
      Unf.Tr.trType tNest = some utNest ∧
      setTarget Unf.Tr.fuTable utNest (Unf.zero Unf.Tr.fuTable utNest) newUnfolder = .ok c0 ∧
      (impl o tNest (.struct vs)).res = .ok ∧
      feed c0 ((impl o tNest (.struct vs)).evs.map xevToUEvs) = (c1, none) ∧
      c1.target = .struct (trL dsNest vs) ∧ c1.depths = [0, 0, 0, 0, 0, 0] ∧
      agreeF "direct" 1000 tNest (.struct vs) (back c1.target) = true := by
  obtain ⟨c0, c1, h1, h2, h3, h4, h5, _, h7, h8⟩ :=
    fold_unfold_struct_nested o hfail tNest [fA, fIn, fP, fQ] dsNest vs goodNest rfl descNest hv (by decide +kernel)
      utNest "" _ fieldsNest R rfl rfl hcomp (fmNest hspec) (by decide) (uokNest hspec) rfl
      (SF.Unf.Str.hasTyB_sound _ _ _ (by decide +kernel))
  exact ⟨c0, c1, h1, h2, h3, h4, h5, h7, h8 (qL_noF32 _ _ (by decide +kernel))⟩

/- non-vacuity: the value `(5, ("", true), (7, "h"), ((8, "")))` is a value of the type; Fold delivers
`{ "a": 5, "x": true, "p": { "x": 7, "why": "h" }, "q": { "p": { "x": 8, "why": "" } } }` (the inlined `n` is
omitted); the translated struct is the same tree -/
example : descL [fA, fIn, fP, fQ] dsNest ∧
    valsL dsNest [.int 5, .struct [.str [], .bool true], .struct [.int 7, .str [104]], .struct [.struct [.int 8, .str []]]] = true ∧
    Unf.Tr.trType tNest = some utNest ∧ ((sfL dsNest 0 []).map (·.1)).Nodup ∧
    Unf.zero Unf.Tr.fuTable utNest = .struct (zerosL dsNest) ∧
    Shaped Unf.Tr.fuTable utNest (Unf.zero Unf.Tr.fuTable utNest) ∧
    (memTreesL dsNest [.int 5, .struct [.str [], .bool true], .struct [.int 7, .str [104]], .struct [.struct [.int 8, .str []]]]).map (·.2.1) =
      [[97], [120], [112], [113]] ∧
    trL dsNest [.int 5, .struct [.str [], .bool true], .struct [.int 7, .str [104]], .struct [.struct [.int 8, .str []]]] =
      [.int .int 5, .struct [.str [], .bool true], .struct [.int .int 7, .str [104]], .struct [.struct [.int .int 8, .str []]]] :=
  ⟨descNest, by decide +kernel, rfl, by decide, rfl, SF.Unf.Str.hasTyB_sound _ _ _ (by decide +kernel), by decide +kernel,
    rfl⟩

/- the Unfold half evaluated by the kernel on the compiled table `fieldsNest`: the tokens of the value above leave
the translated tree in the target, idle -/
example :
    (match Unf.run typeFuel (Unf.UTree.obj (-1) 0 (memTreesL dsNest
          [.int 5, .struct [.str [], .bool true], .struct [.int 7, .str [104]], .struct [.struct [.int 8, .str []]]])).events
        (SF.UnfProofs.StructVal.startCtx newUnfolder Unf.Tr.fuTable [] fieldsNest (.struct (zerosL dsNest))) with
     | .ok _ c₁ => c₁.depths == [0, 0, 0, 0, 0, 0] &&
        (match c₁.target with
         | .struct [.int .int 5, .struct [.str [], .bool true], .struct [.int .int 7, .str [104]],
                    .struct [.struct [.int .int 8, .str []]]] => true
         | _ => false)
     | _ => false) = true := by decide +kernel

end Nest

/-! # `compile_struct_prim`: the hypotheses about the Unfold side DERIVED from the compiler

  (helpers SF/Proofs/FuIdStruct2Tags.lean, FuIdStruct2Compile.lean.)  For every struct type in the scope of
  `fold_unfold_struct_omit` (fields dropped / plain / omitempty of scalar type) the Unfold mirror's compiler
  (`Unf.lookupReflUnfolder` → `fieldUnfolders`, tag parser `Unf.parseTags`) yields the table `tableOf ds 0`, which is in
  `FM` with `sfOf2 ds 0`; translation, zero value and layout are as `fold_unfold_struct_omit` wants them.
  HYPOTHESES
   * `htag : ∀ f ∈ fs, TrimAgree f.tag` — the comma-separated parts of every tag are trimmed alike by `Unf.trimSpace`
     (`String.trimAscii`) and `Fold.trimSpace`.  `trimAgree_of_parts` / `trim_bridge`: true when no part contains \v
     (0x0b) or \f (0x0c).  FORCED — the two mirrors DISAGREE on the tag "\vn" (Lean's `Char.isWhitespace` knows
     blank, \t, \r, \n only; `Fold.isSpace` and Go's `strings.TrimSpace` also strip \v and \f):
        (Fold.parseTags "\x0bn").1 = "n",  (Unf.parseTags "\x0bn").1 = "\x0bn"
        Fu.model (struct{A int "\x0bn"}) (5) "direct" = "(0)|ok"    -- the member is unknown to the Unfolder: C11 FAILS
        Fu.model (struct{A int "n"})     (5) "direct" = "(5)|ok"       on the mirrors for this tag        [#guard below]
     This is a defect of the UNFOLD MIRROR (`Unf.trimSpace`), not of the Go code (one `strings.TrimSpace` on both sides).
   * `hl : fs.length ≤ 250` — fuel of the mirror (`typeFuel` = 256 for `fieldUnfolders` / `zeroFieldsF`, one unit per
     field); not a property of the Go code.
   * `hnd` — member names pairwise distinct, as before (errDuplicateField otherwise). -/

theorem compile_struct_prim (fs : List Field) (ds : List FD2) (hd : Desc2 fs ds)
    (htag : ∀ f ∈ fs, TrimAgree f.tag) (hl : fs.length ≤ 250) (hnd : ((sfOf2 ds 0).map (·.1)).Nodup) :
    Unf.Tr.trType (.struct fs) = some (.struct "" (ufsOf fs ds)) ∧
    Unf.lookupReflUnfolder Unf.Tr.fuTable typeFuel [] newUnfolder.reg (.struct "" (ufsOf fs ds)) =
      .ok (.struct (tableOf ds 0), []) ∧
    FM Unf.Tr.fuTable (.struct "" (ufsOf fs ds)) (tableOf ds 0) (sfOf2 ds 0) ∧
    Unf.zero Unf.Tr.fuTable (.struct "" (ufsOf fs ds)) = .struct (zerosOf2 ds) ∧
    Shaped Unf.Tr.fuTable (.struct "" (ufsOf fs ds)) (Unf.zero Unf.Tr.fuTable (.struct "" (ufsOf fs ds))) :=
  ⟨trType_struct fs ds hd, compile_unnamed _ fs ds hd htag hl hnd [],
    fm_table _ _ "" fs ds hd [] rfl, zero_struct _ "" fs ds hd hl, shaped_zero _ "" fs ds hd hl⟩

/-- the same for a NAMED struct type `type n struct{…}`: the registry gets the entry `n` -/
theorem compile_struct_prim_named (n : String) (m : Methods) (hne : n.isEmpty = false) (fs : List Field) (ds : List FD2)
    (hd : Desc2 fs ds) (htag : ∀ f ∈ fs, TrimAgree f.tag) (hl : fs.length ≤ 250)
    (hnd : ((sfOf2 ds 0).map (·.1)).Nodup) :
    Unf.Tr.trType (.named n m (.struct fs)) = some (.struct n (ufsOf fs ds)) ∧
    Unf.lookupReflUnfolder Unf.Tr.fuTable typeFuel [] newUnfolder.reg (.struct n (ufsOf fs ds)) =
      .ok (.struct (tableOf ds 0), [(n, .struct (tableOf ds 0))]) ∧
    FM Unf.Tr.fuTable (.struct n (ufsOf fs ds)) (tableOf ds 0) (sfOf2 ds 0) ∧
    Unf.zero Unf.Tr.fuTable (.struct n (ufsOf fs ds)) = .struct (zerosOf2 ds) ∧
    Shaped Unf.Tr.fuTable (.struct n (ufsOf fs ds)) (Unf.zero Unf.Tr.fuTable (.struct n (ufsOf fs ds))) :=
  ⟨trType_named n m fs ds hd, compile_named _ n hne fs ds hd htag hl hnd,
    fm_table _ _ n fs ds hd [] rfl, zero_struct _ n fs ds hd hl, shaped_zero _ n fs ds hd hl⟩

/-- C11, direct path, structs with dropped / plain / omitempty fields of scalar type — NO hypothesis about the
Unfold side left: every struct type `S` (named or not) of the fold universe with these fields, tags trimmed alike
by the two mirrors, at most 250 fields, distinct member names; every value. -/
theorem fold_unfold_struct_omit_total (o : FoldOpts) (hfail : o.failAt = none) (S : GoType) (fs : List Field)
    (ds : List FD2) (vs : List GoVal)
    (hS : S = .struct fs ∨ ∃ n m, S = .named n m (.struct fs) ∧ n.isEmpty = false ∧ goodT [] S = true)
    (hd : Desc2 fs ds) (hv : Vals2 ds vs)
    (htag : ∀ f ∈ fs, TrimAgree f.tag) (hl : fs.length ≤ 250) (hnd : ((sfOf2 ds 0).map (·.1)).Nodup) :
    ∃ ut c0 c1,
      Unf.Tr.trType S = some ut ∧
      setTarget Unf.Tr.fuTable ut (Unf.zero Unf.Tr.fuTable ut) newUnfolder = .ok c0 ∧
      (impl o S (.struct vs)).res = .ok ∧
      feed c0 ((impl o S (.struct vs)).evs.map xevToUEvs) = (c1, none) ∧
      c1.target = .struct (trFields2 ds vs) ∧ c1.depths = [0, 0, 0, 0, 0, 0] ∧
      ((∀ d v, (d, v) ∈ ds.zip vs → trField2 d v = trFieldX2 d v) →
        agreeF "direct" 1000 S (.struct vs) (back c1.target) = true) := by
  rcases hS with rfl | ⟨n, m, rfl, hne, hg⟩
  · obtain ⟨h1, h2, h3, h4, h5⟩ := compile_struct_prim fs ds hd htag hl hnd
    obtain ⟨c0, c1, a, b, c, d, e, _, g, h⟩ :=
      fold_unfold_struct_omit o hfail (.struct fs) fs ds vs (good_of_desc2 [] fs ds hd) rfl hd hv _ "" _ _ [] h1 rfl h2 h3
        hnd h4 h5
    exact ⟨_, c0, c1, a, b, c, d, e, g, h⟩
  · obtain ⟨h1, h2, h3, h4, h5⟩ := compile_struct_prim_named n m hne fs ds hd htag hl hnd
    obtain ⟨c0, c1, a, b, c, d, e, _, g, h⟩ :=
      fold_unfold_struct_omit o hfail (.named n m (.struct fs)) fs ds vs hg rfl hd hv _ n _ _ _ h1 rfl h2 h3
        hnd h4 h5
    exact ⟨_, c0, c1, a, b, c, d, e, g, h⟩

/-! ## UNCONDITIONAL instance: `struct{A int; N string "n,omitempty"; b string}`, every value, no hypothesis left -/

section OmTotal
open SF.FoldProofs.Examples

theorem noVTFF_lit_empty : noVTFF "" := by intro c hc; simp at hc
theorem trimAgree_empty : TrimAgree "" := by
  apply trimAgree_of_parts
  rw [splitOn_empty]
  intro part hp
  simp only [List.mem_singleton] at hp
  subst hp
  exact noVTFF_lit_empty
theorem trimAgree_omitempty : TrimAgree "n,omitempty" := by
  apply trimAgree_of_parts
  rw [splitOn_omitempty]
  intro part hp
  simp only [List.mem_cons, List.not_mem_nil, or_false] at hp
  rcases hp with rfl | rfl <;> (intro c hc; revert c; decide +kernel)

theorem tagsOm : ∀ f ∈ [fA, fN, fb], TrimAgree f.tag := by
  intro f hf
  simp only [List.mem_cons, List.not_mem_nil, or_false] at hf
  rcases hf with rfl | rfl | rfl
  · exact trimAgree_empty
  · exact trimAgree_omitempty
  · exact trimAgree_empty

theorem fold_unfold_Om_total (o : FoldOpts) (hfail : o.failAt = none) (vs : List GoVal) (hv : Vals2 dsOm vs) :
    ∃ c0 c1,
      Unf.Tr.trType tOm = some utOm ∧
      setTarget Unf.Tr.fuTable utOm (Unf.zero Unf.Tr.fuTable utOm) newUnfolder = .ok c0 ∧
      (impl o tOm (.struct vs)).res = .ok ∧
      (impl o tOm (.struct vs)).evs = .ev (.objStart (-1) BT.any) :: memEvs2 dsOm vs ++ [.ev .objEnd] ∧
      feed c0 ((impl o tOm (.struct vs)).evs.map xevToUEvs) = (c1, none) ∧
      c1.target = .struct (trFields2 dsOm vs) ∧ c1.depths = [0, 0, 0, 0, 0, 0] ∧
      agreeF "direct" 1000 tOm (.struct vs) (back c1.target) = true := by
  obtain ⟨_, hcomp, _⟩ := compile_struct_prim [fA, fN, fb] dsOm descOm tagsOm (by decide) (by decide)
  exact fold_unfold_Om o hfail vs hv hcomp

/- non-vacuity of `compile_struct_prim` / `fold_unfold_struct_omit_total`: all hypotheses hold for this type and the
value `(5, "", "x")`; the compiled table is `fieldsOm` -/
example : Desc2 [fA, fN, fb] dsOm ∧ (∀ f ∈ [fA, fN, fb], TrimAgree f.tag) ∧ [fA, fN, fb].length ≤ 250 ∧
    ((sfOf2 dsOm 0).map (·.1)).Nodup ∧ Vals2 dsOm [.int 5, .str [], .str [120]] ∧
    tableOf dsOm 0 = fieldsOm ∧ Unf.GoType.struct "" (ufsOf [fA, fN, fb] dsOm) = utOm :=
  ⟨descOm, tagsOm, by decide, by decide,
    .cons (by decide +kernel) (.cons (by decide +kernel) (.cons (by decide +kernel) .nil)), rfl, rfl⟩

end OmTotal


/- `hcomp` for `utOm`, evaluated (not by the kernel: `Unf.parseTags` trims with `String.trimAscii`) -/
#guard (match Unf.lookupReflUnfolder Unf.Tr.fuTable typeFuel [] newUnfolder.reg utOm with
        | .ok (.struct fs, R) => fs.map (fun x => (x.1, x.2.1)) == [([97], [0]), ([110], [1])] && R.length == 0
        | _ => false)

/- `hcomp` for `utNest` and the two `specFields` facts of `SpecNest`, evaluated -/
def ruShape : Nat → Unf.RU → String
  | 0, _ => "…"
  | _ + 1, .lifted _ => "L"
  | n + 1, .struct fs => "S[" ++ ",".intercalate (fs.map fun (x : Bytes × List Nat × Unf.RU) => s!"({x.1},{x.2.1},{ruShape n x.2.2})") ++ "]"
  | _ + 1, _ => "?"

#guard (match Unf.lookupReflUnfolder Unf.Tr.fuTable typeFuel [] newUnfolder.reg utNest with
        | .ok (ru, (R : Unf.Reg)) => ruShape 9 ru == ruShape 9 (.struct fieldsNest) && R.length == 1
        | _ => false)
#guard ((specFields Unf.Tr.fuTable (2 + 64) [("X", "", .int .int), ("Y", "why", .string)] 0).map
          fun (x : Bytes × List Nat × Unf.GoType) => (x.1, x.2.1, Unf.Tr.fuTypeName x.2.2)) ==
       ((sfL dsInnerT 0 []).map fun (x : Bytes × List Nat × Unf.GoType) => (x.1, x.2.1, Unf.Tr.fuTypeName x.2.2))
#guard ((specFields Unf.Tr.fuTable (1 + 64) [("P", "", utInner)] 0).map
          fun (x : Bytes × List Nat × Unf.GoType) => (x.1, x.2.1, Unf.Tr.fuTypeName x.2.2)) ==
       ((sfL dsQ 0 []).map fun (x : Bytes × List Nat × Unf.GoType) => (x.1, x.2.1, Unf.Tr.fuTypeName x.2.2))
#guard SF.Ops.Fu.model tNest (.struct [.int 5, .struct [.str [], .bool true], .struct [.int 7, .str [104]],
          .struct [.struct [.int 8, .str []]]]) "direct" == "(5,(s:,true),(7,s:68),((8,s:)))|ok"

/- the disagreement of the two mirrors' tag parsers on "\vn" (see `compile_struct_prim`) -/
#guard (Fold.parseTags "\x0bn").1 == "n" && (Unf.parseTags "\x0bn").1 == "\x0bn" && (Rules.parseTag "\x0bn").name == "n"
#guard SF.Ops.Fu.model (.struct [.mk "A" (.int .int) "\x0bn" false]) (.struct [.int 5]) "direct" == "(0)|ok"
#guard SF.Ops.Fu.model (.struct [.mk "A" (.int .int) "n" false]) (.struct [.int 5]) "direct" == "(5)|ok"

/-! ## LEFT UNPROVED (intended statements)

  * `compile_struct_nested`: `hcomp` / `hFM` / `huok` / `hz` / `hv0` of `fold_unfold_struct_nested` derived from the
    compiler, as `compile_struct_prim` does for flat structs:
      theorem compile_struct_nested (fs ds) (hd : descL fs ds) (htag : all tags in the tree `TrimAgree`)
          (hnd : names of `sfL ds 0 []` distinct, and the same inside every `sub` node) (size bounds) :
          ∃ ut fields R, Unf.Tr.trType (.struct fs) = some ut ∧
            Unf.lookupReflUnfolder Unf.Tr.fuTable typeFuel [] [] ut = .ok (.struct fields, R) ∧
            FM Unf.Tr.fuTable ut fields (sfL ds 0 []) ∧ uokL Unf.Tr.fuTable ds ∧ …
    needs (a) `fieldUnfolders` on `squash` fields (offset prefixing `i :: off`, duplicate check against `acc`) and on
    struct-typed fields (`lookupReflUnfolder` recursion; the registry `R` grows by the named struct types met — a
    second occurrence of a named type is served from the registry), (b) `Spec.specFields` = `sfL` (its tag reading
    `specTagName` / `specTagOpts` also trims with `String.trimAscii`: `trim_bridge` applies).  Not started; the
    instance `fold_unfold_Nest` keeps `hcomp` and `SpecNest` as `#guard`-checked hypotheses.
  * struct-typed fields that are DROPPED (unexported / `-` / `omit`), pointers to structs (`*T` inlined or not),
    slices / maps / interface{} as field types inside the tree: `FT` has scalar leaves only. -/

end SF.Props.FuId
