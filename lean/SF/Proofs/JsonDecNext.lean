/-
  Helper lemmas for C18 (JSON pull decoder over a reader): ONE CALL OF `Decoder.Next` on a read
  script computes what the parser loop `U` (= `feedUntil`, SF/Proofs/JsonDecUntil.lean) computes
  on the CONCATENATION of the buffered bytes and of everything the reader is still going to
  return — whatever the chunks of the script, the size of the decoder's buffer, `(0, nil)`
  reads, and whether the last data arrive together with `io.EOF` (`next_U`).
  Property theorems: SF/Proofs/JsonDecReader.lean, SF/Proofs/JsonDecTop.lean.
-/
import SF.Proofs.JsonDecPeel
import SF.Json.Dec
set_option linter.unusedSimpArgs false
set_option linter.unusedVariables false
namespace SF.Json.DecP
open SF SF.Json SF.Json.Parse SF.Json.Float SF.Json.ParseP SF.Json.Dec

/-! ## the scripted reader -/

/-- everything the reader is still going to return -/
def rstream (r : ChunkReader) : Bytes := r.pending ++ r.chunks.flatten

/-- a bound on the number of `Read` calls that return data or `(0, nil)` -/
def rmeas (r : ChunkReader) : Nat := r.pending.length + (r.chunks.map (fun c => c.length + 1)).sum

theorem read_copy (r : ChunkReader) (n : Nat) (h : r.pending ≠ []) :
    r.read n = ({ r with pending := r.pending.drop n }, r.pending.take n,
      (r.pending.drop n).isEmpty && r.chunks.isEmpty && r.lastEOF) := by
  have : r.pending.isEmpty = false := by cases hp : r.pending <;> simp_all
  unfold ChunkReader.read
  simp only [this, Bool.false_eq_true, if_false]
  split <;> rename_i hc <;> simp [hc]

theorem read_end (r : ChunkReader) (n : Nat) (h : r.pending = []) (hc : r.chunks = []) :
    r.read n = (r, [], true) := by
  unfold ChunkReader.read
  simp [h, hc]

theorem read_empty (r : ChunkReader) (n : Nat) (rest : List Bytes) (h : r.pending = []) (hc : r.chunks = [] :: rest) :
    r.read n = ({ r with pending := [], chunks := rest }, [], false) := by
  unfold ChunkReader.read
  simp [h, hc]

theorem read_chunk (r : ChunkReader) (n : Nat) (x : UInt8) (xs : Bytes) (rest : List Bytes) (h : r.pending = [])
    (hc : r.chunks = (x :: xs) :: rest) :
    r.read n = ({ r with pending := (x :: xs).drop n, chunks := rest }, (x :: xs).take n,
      ((x :: xs).drop n).isEmpty && rest.isEmpty && r.lastEOF) := by
  unfold ChunkReader.read
  simp only [h, hc, List.isEmpty_nil, if_true, List.isEmpty_cons, Bool.false_eq_true, if_false]
  split <;> rename_i hc <;> simp [hc]

/-- ONE `Read` with a buffer of at least one byte: the data are the head of the remaining
stream; `io.EOF` is returned only when nothing remains; and unless it returns `(0, io.EOF)` it
makes progress -/
theorem read_spec (r : ChunkReader) (n : Nat) (hn : 1 ≤ n) :
    (r.read n).2.1 ++ rstream (r.read n).1 = rstream r ∧
    ((r.read n).2.2 = true → (r.read n).1.pending = [] ∧ (r.read n).1.chunks = []) ∧
    ((r.read n).2.1 ≠ [] ∨ (r.read n).2.2 = false → rmeas (r.read n).1 < rmeas r) := by
  by_cases hp : r.pending = []
  · cases hc : r.chunks with
    | nil =>
      rw [read_end r n hp hc]
      exact ⟨by simp, fun _ => ⟨hp, hc⟩, by simp⟩
    | cons c rest =>
      cases c with
      | nil =>
        rw [read_empty r n rest hp hc]
        refine ⟨by simp [rstream, hp, hc], by simp, fun _ => ?_⟩
        simp only [rmeas, hp, hc, List.length_nil, List.map_cons, List.sum_cons]
        omega
      | cons x xs =>
        rw [read_chunk r n x xs rest hp hc]
        refine ⟨?_, ?_, fun _ => ?_⟩
        · simp only [rstream, hp, hc, List.flatten_cons, List.nil_append]
          rw [← List.append_assoc, List.take_append_drop]
        · intro h
          simp only [Bool.and_eq_true, List.isEmpty_iff] at h
          exact ⟨h.1.1, h.1.2⟩
        · simp only [rmeas, hp, hc, List.length_nil, List.map_cons, List.sum_cons, List.length_drop,
            List.length_cons]
          omega
  · rw [read_copy r n hp]
    refine ⟨?_, ?_, fun _ => ?_⟩
    · simp only [rstream]
      rw [← List.append_assoc, List.take_append_drop]
    · intro h
      simp only [Bool.and_eq_true, List.isEmpty_iff] at h
      exact ⟨h.1.1, h.1.2⟩
    · have : 0 < r.pending.length := List.length_pos_iff.mpr hp
      simp only [rmeas, List.length_drop]
      omega

/-! ## unfolding `next` -/

/-- the inner function of `next`: run the parser on the buffer -/
def feedIt (fuel : Nat) (d : Dec) : Dec × NextRes :=
  let r := U d.p d.buffer
  match r.err with
  | some e => ({ d with p := r.p }, .err e)
  | none =>
    let d := { d with p := r.p, buffer := r.rest }
    if r.reported then (d, .ok) else next fuel d

theorem next_succ (fuel : Nat) (d : Dec) :
    next (fuel + 1) d =
      if d.buffer.isEmpty then
        if !d.hasReader then Dec.finalize { d with errEOF := false }
        else if !d.errEOF then
          if !(d.rd.read d.bufSize).2.1.isEmpty then
            feedIt fuel { d with errEOF := (d.rd.read d.bufSize).2.2, rd := (d.rd.read d.bufSize).1,
                                 buffer := (d.rd.read d.bufSize).2.1 }
          else if (d.rd.read d.bufSize).2.2 then
            Dec.finalize { d with errEOF := false, rd := (d.rd.read d.bufSize).1, buffer := (d.rd.read d.bufSize).2.1 }
          else feedIt fuel { d with errEOF := false, rd := (d.rd.read d.bufSize).1, buffer := (d.rd.read d.bufSize).2.1 }
        else Dec.finalize { d with errEOF := false }
      else feedIt fuel d := by
  rw [next]
  rfl

/-- the end-of-stream verdict of `Decoder.finalize`, as a function of the parser state -/
def finV (p : P) : NextRes :=
  match (Parse.finalize p).2 with
  | some e => .err e
  | none => if p.currentState == .numberState then .ok else .eof

/-- … and the parser state it leaves -/
def finP (p : P) : P := (Parse.finalize p).1

theorem fin_eq (d : Dec) : Dec.finalize d = ({ d with p := finP d.p }, finV d.p) := by
  unfold Dec.finalize finV finP
  cases h : Parse.finalize d.p with
  | mk q e => cases e <;> rfl

/-! ## the specification of one call -/

/-- everything the decoder is still going to see: the buffered bytes, then all reads -/
def stream (d : Dec) : Bytes := d.buffer ++ rstream d.rd

/-- the decoder states that occur: the buffer of a decoder over a reader has at least one
byte; a byte-slice decoder (`NewBytesDecoder`: no reader) has no read script, and a parked
`io.EOF` means the script is used up -/
def DOK (d : Dec) : Prop :=
  (d.hasReader = true → 1 ≤ d.bufSize) ∧
  ((d.hasReader = false ∨ d.errEOF = true) → d.rd.pending = [] ∧ d.rd.chunks = [])

/-- loop iterations one call of `Next` needs at most: one per `Read` that returns data or
`(0, nil)`, one for the buffered bytes, two for the end of the stream -/
def need (d : Dec) : Nat := (if d.buffer = [] then 0 else 1) + rmeas d.rd + 2

/-- the outcome `x` of a call of `Next` matches the result `r` of the parser loop over the
whole remaining stream -/
structure Post (r : R) (x : Dec × NextRes) : Prop where
  /-- the loop fails: `Next` returns that error, after the same events -/
  err : ∀ e, r.err = some e → x.2 = .err e ∧ x.1.p.evs = r.p.evs
  /-- the loop completes a top-level value: `Next` succeeds in the same parser state (up to
  `Eqv`) and keeps exactly the unconsumed rest of the stream -/
  ok : r.err = none → r.reported = true →
    x.2 = .ok ∧ Eqv r.p x.1.p ∧ stream x.1 = r.rest ∧ DOK x.1
  /-- the stream ends before a value is complete: the end-of-stream verdict of the state reached -/
  eof : r.err = none → r.reported = false →
    ∃ q, Eqv r.p q ∧ x.2 = finV q ∧ x.1.p = finP q ∧ stream x.1 = [] ∧ DOK x.1

theorem Post.of_UE {r2 r : R} {x : Dec × NextRes} (h : Post r2 x) (hs : UE r2 r) : Post r x := by
  obtain ⟨s1, s2, s3, s4⟩ := hs
  refine ⟨fun e he => ?_, fun he hd => ?_, fun he hd => ?_⟩
  · have := h.err e (by rw [← s1]; exact he)
    exact ⟨this.1, by rw [s2]; exact this.2⟩
  · have he2 : r2.err = none := by rw [← s1]; exact he
    obtain ⟨t1, t2, t3⟩ := s4 he2
    obtain ⟨u1, u2, u3, u4⟩ := h.ok he2 (by rw [← t2]; exact hd)
    exact ⟨u1, Eqv.trans (Eqv.symm t3) u2, by rw [u3, t1], u4⟩
  · have he2 : r2.err = none := by rw [← s1]; exact he
    obtain ⟨t1, t2, t3⟩ := s4 he2
    obtain ⟨q, u1, u2⟩ := h.eof he2 (by rw [← t2]; exact hd)
    exact ⟨q, Eqv.trans (Eqv.symm t3) u1, u2⟩

/-- what the statement below says about a decoder state `d` and an amount of fuel -/
def NextOK (fuel : Nat) (d : Dec) : Prop :=
  (stream d = [] → (next fuel d).2 = finV d.p ∧ (next fuel d).1.p = finP d.p ∧
    stream (next fuel d).1 = [] ∧ DOK (next fuel d).1) ∧
  (stream d ≠ [] → Post (U d.p (stream d)) (next fuel d))

/-- the end of the stream: `finalize` -/
theorem fin_ok (d : Dec) (hb : d.buffer = []) (hrd : d.rd.pending = [] ∧ d.rd.chunks = [])
    (hd : d.hasReader = true → 1 ≤ d.bufSize) (he : d.errEOF = false) :
    (Dec.finalize d).2 = finV d.p ∧ (Dec.finalize d).1.p = finP d.p ∧ stream (Dec.finalize d).1 = [] ∧
      DOK (Dec.finalize d).1 := by
  rw [fin_eq]
  refine ⟨rfl, rfl, ?_, hd, fun _ => hrd⟩
  simp [stream, rstream, hb, hrd.1, hrd.2]

/-- running the parser on a non-empty buffer, given the statement for the recursive call -/
theorem feedIt_ok (fuel : Nat) (d : Dec) (hd : DOK d) (hw : ParseP.WF d.p) (hb : d.buffer ≠ [])
    (ih : ∀ d' : Dec, DOK d' → ParseP.WF d'.p → d'.buffer = [] → d'.rd = d.rd → NextOK fuel d') :
    Post (U d.p (stream d)) (feedIt fuel d) := by
  have hsp := U_split d.buffer (rstream d.rd) d.p hw
  have hw1 := U_wf d.p d.buffer hw
  have hpost := U_post d.p d.buffer hw
  unfold feedIt
  simp only []
  show Post (U d.p (d.buffer ++ rstream d.rd)) _
  generalize U d.p d.buffer = r1 at hsp hw1 hpost
  cases he : r1.err with
  | some e =>
    simp only []
    rw [useq_err he] at hsp
    refine ⟨fun e' he' => ?_, fun he' => ?_, fun he' => ?_⟩
    · rw [hsp.1, he] at he'; injection he' with he'; subst he'
      exact ⟨rfl, hsp.2.1.symm⟩
    · rw [hsp.1, he] at he'; cases he'
    · rw [hsp.1, he] at he'; cases he'
  | none =>
    simp only []
    by_cases hr : r1.reported = true
    · simp only [hr, if_true]
      rw [useq_rep he hr] at hsp
      obtain ⟨t1, t2, t3⟩ := hsp.2.2.2 he
      refine ⟨fun e' he' => ?_, fun _ _ => ⟨rfl, Eqv.symm t3, ?_, hd⟩, fun _ hr' => ?_⟩
      · rw [hsp.1] at he'; simp only [he] at he'; cases he'
      · rw [t1]; rfl
      · rw [t2] at hr'; simp only [hr] at hr'; cases hr'
    · have hr' : r1.reported = false := by simpa using hr
      simp only [hr', Bool.false_eq_true, if_false]
      rw [useq_cont he hr'] at hsp
      have hrest := (hpost he).2 hr'
      have hih := ih { d with p := r1.p, buffer := r1.rest } hd hw1 hrest rfl
      have hstream : stream { d with p := r1.p, buffer := r1.rest } = rstream d.rd := by
        simp [stream, hrest]
      rw [NextOK, hstream] at hih
      by_cases ht : rstream d.rd = []
      · obtain ⟨e1, e2, e3, e4⟩ := hih.1 ht
        rw [ht] at hsp ⊢
        rw [U_nil] at hsp
        obtain ⟨t1, t2, t3⟩ := hsp.2.2.2 rfl
        refine ⟨fun e' he' => ?_, fun _ hr'' => ?_, fun _ _ => ⟨r1.p, Eqv.symm t3, e1, e2, e3, e4⟩⟩
        · rw [hsp.1] at he'; cases he'
        · rw [t2] at hr''; cases hr''
      · exact (hih.2 ht).of_UE hsp

theorem feedIt_nil (fuel : Nat) (d : Dec) (hb : d.buffer = []) : feedIt fuel d = next fuel d := by
  unfold feedIt
  simp only [hb, U_nil]
  have : ({ d with p := d.p, buffer := [] } : Dec) = d := by
    cases d; simp only at hb; subst hb; rfl
  simp only [Bool.false_eq_true, if_false, this]

/-- ONE CALL OF `Next`, for EVERY read script: with `need d` loop iterations (or more) the
call behaves as the parser loop over the concatenation of the buffer and all remaining
reads — an empty stream yields the end-of-stream verdict of the current parser state -/
theorem next_U (fuel : Nat) (d : Dec) (hd : DOK d) (hw : ParseP.WF d.p) (hf : need d ≤ fuel) :
    NextOK fuel d := by
  induction fuel generalizing d with
  | zero => simp [need] at hf
  | succ fuel ih =>
    cases hb : d.buffer with
    | cons x xs =>
      have hb' : d.buffer ≠ [] := by rw [hb]; simp
      have hs : stream d ≠ [] := by simp [stream, hb]
      refine ⟨fun h => absurd h hs, fun _ => ?_⟩
      have hn : next (fuel + 1) d = feedIt fuel d := by
        rw [next_succ]; simp [hb]
      rw [hn]
      refine feedIt_ok fuel d hd hw hb' (fun d' h1 h2 h3 h4 => ih d' h1 h2 ?_)
      simp only [need, h3, h4, hb] at hf ⊢
      simp at hf ⊢; omega
    | nil =>
      have hfin : d.rd.pending = [] ∧ d.rd.chunks = [] → NextOK (fuel + 1) d := by
        intro hrd
        have hs : stream d = [] := by simp [stream, rstream, hb, hrd.1, hrd.2]
        have hn : next (fuel + 1) d = Dec.finalize { d with errEOF := false } := by
          rw [next_succ]
          cases hr : d.hasReader <;> cases he : d.errEOF <;> simp [hb, hr, he]
          · rw [read_end d.rd _ hrd.1 hrd.2]; simp
        rw [NextOK, hn]
        exact ⟨fun _ => fin_ok { d with errEOF := false } hb hrd hd.1 rfl, fun h => absurd hs h⟩
      cases hr : d.hasReader with
      | false => exact hfin (hd.2 (Or.inl hr))
      | true =>
        cases he : d.errEOF with
        | true => exact hfin (hd.2 (Or.inr he))
        | false =>
          obtain ⟨r1, r2, r3⟩ := read_spec d.rd d.bufSize (hd.1 hr)
          have hsd : stream d = (d.rd.read d.bufSize).2.1 ++ rstream (d.rd.read d.bufSize).1 := by
            rw [r1]; simp [stream, hb]
          by_cases hdata : (d.rd.read d.bufSize).2.1 = []
          · cases heof : (d.rd.read d.bufSize).2.2 with
            | true =>
              -- (0, io.EOF)
              have hrd := r2 heof
              have hn : next (fuel + 1) d =
                  Dec.finalize { d with errEOF := false, rd := (d.rd.read d.bufSize).1,
                                        buffer := (d.rd.read d.bufSize).2.1 } := by
                rw [next_succ]; simp [hb, hr, he, hdata, heof]
              have hs : stream d = [] := by
                rw [hsd, hdata]; simp [rstream, hrd.1, hrd.2]
              rw [NextOK, hn]
              exact ⟨fun _ => fin_ok _ hdata hrd hd.1 rfl, fun h => absurd hs h⟩
            | false =>
              -- (0, nil)
              have hn : next (fuel + 1) d =
                  next fuel { d with errEOF := false, rd := (d.rd.read d.bufSize).1,
                                     buffer := (d.rd.read d.bufSize).2.1 } := by
                have hfn := feedIt_nil fuel
                  { d with errEOF := false, rd := (d.rd.read d.bufSize).1, buffer := (d.rd.read d.bufSize).2.1 } hdata
                rw [next_succ, ← hfn]
                simp [hb, hr, he, hdata, heof]
              have hlt := r3 (Or.inr heof)
              have hih := ih { d with errEOF := false, rd := (d.rd.read d.bufSize).1,
                                      buffer := (d.rd.read d.bufSize).2.1 }
                ⟨hd.1, fun h => by
                  rcases h with h | h
                  · rw [hr] at h; cases h
                  · cases h⟩ hw (by
                  simp only [need, hdata, hb] at hf ⊢
                  simp at hf ⊢; omega)
              have hs : stream { d with errEOF := false, rd := (d.rd.read d.bufSize).1,
                                        buffer := (d.rd.read d.bufSize).2.1 } = stream d := by
                rw [hsd]; rfl
              rw [NextOK, hn]
              rw [NextOK, hs] at hih
              exact hih
          · -- data
            have hs' : stream d ≠ [] := by
              rw [hsd]; intro hc; exact hdata (List.append_eq_nil_iff.mp hc).1
            have hn : next (fuel + 1) d =
                feedIt fuel { d with errEOF := (d.rd.read d.bufSize).2.2, rd := (d.rd.read d.bufSize).1,
                                     buffer := (d.rd.read d.bufSize).2.1 } := by
              rw [next_succ]
              have : (d.rd.read d.bufSize).2.1.isEmpty = false := by
                cases hx : (d.rd.read d.bufSize).2.1 with
                | nil => exact absurd hx hdata
                | cons _ _ => rfl
              simp [hb, hr, he, this]
            have hlt := r3 (Or.inl hdata)
            refine ⟨fun h => absurd h hs', fun _ => ?_⟩
            rw [hn]
            have hs : stream { d with errEOF := (d.rd.read d.bufSize).2.2, rd := (d.rd.read d.bufSize).1,
                                      buffer := (d.rd.read d.bufSize).2.1 } = stream d := by
              rw [hsd]; rfl
            rw [← hs]
            refine feedIt_ok fuel _ ⟨hd.1, fun h => ?_⟩ hw hdata (fun d' h1 h2 h3 h4 => ih d' h1 h2 ?_)
            · rcases h with h | h
              · rw [hr] at h; cases h
              · exact r2 h
            · simp only [need, h3, h4, hb] at hf ⊢
              simp at hf ⊢; omega

/-! ## the fuel of the model is sufficient -/

theorem sum_len_succ (cs : List Bytes) :
    (cs.map (fun c => c.length + 1)).sum = (cs.map List.length).sum + cs.length := by
  induction cs with
  | nil => rfl
  | cons c cs ih => simp only [List.map_cons, List.sum_cons, List.length_cons, ih]; omega

theorem need_le_nextFuel (d : Dec) : need d ≤ nextFuel d := by
  simp only [need, nextFuel, rmeas, sum_len_succ]
  split
  · omega
  · rename_i h
    have : 0 < d.buffer.length := List.length_pos_iff.mpr h
    omega

end SF.Json.DecP
