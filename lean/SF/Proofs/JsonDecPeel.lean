/-
  Helper lemmas for C18 (JSON pull decoder): THE SPLIT LAW of the loop `feedUntil` (= `U`,
  SF/Proofs/JsonDecUntil.lean) ACROSS A READ BOUNDARY.  Running the loop over `a ++ b` is
  running it over `a` and — if that neither completed a top-level value nor failed — running
  it over `b` from the state reached (`U_split`); up to `UE`: after an error the same error
  and the same events, without error the same rest, the same `reported`, and states equal up
  to the dead field `required`.
  From the byte-at-a-time classification of the steps (SF/Proofs/JsonPeel.lean), refined by
  "a byte that is taken by itself and continued delivers no event" (`classifyQ`), and the
  characterisation of the step after which the loop returns (`flag_iff`).
-/
import SF.Proofs.JsonDecUntil
import SF.Proofs.JsonTrunc
set_option linter.unusedSimpArgs false
set_option linter.unusedVariables false
namespace SF.Json.DecP
open SF SF.Json SF.Json.Parse SF.Json.Float SF.Json.ParseP

/-! ## the classification of the steps, with the events of the first byte -/

/-- byte `a` is taken by itself, WITHOUT AN EVENT, into a state from which `rest` is read as
it would have been after `a` -/
def ContQ (p : P) (a : UInt8) (rest : Bytes) : Prop :=
  Cont p a rest ∧ (execStep p [a]).1.p.evs = p.evs

theorem pushState_evs (q : P) (next : St) : (pushState q next).evs = q.evs := by
  unfold pushState; split <;> rfl

theorem tok_quiet {S0 : List St} {E0 : List Ev} {s : R} (h : TokEff S0 E0 s) (hr : s.reported = false) :
    s.p.evs = E0 := by
  rcases h with ⟨_, a2, _⟩ | ⟨a1, _⟩
  · exact a2
  · rw [hr] at a1; cases a1

/-- stepValue on one byte that is neither white space nor an opening bracket: no event -/
theorem stepValue_one (p : P) (a : UInt8) (ret : St) (ha : Utf8.isSpaceByte a = false)
    (h1 : (a == ch '{') = false) (h2 : (a == ch '[') = false) (he : (stepValue p [a] ret).err = none) :
    (stepValue p [a] ret).p.evs = p.evs := by
  have hlit : ∀ (q : P) (kind : String) (err : Err) (ev : Ev), q.evs = p.evs → 1 ≤ q.required →
      q.required ≤ (strBytes kind).length → (stepLit q [] kind err ev).p.evs = p.evs := by
    intro q kind err ev hq h1 hn
    rw [stepLit_short q [] kind err ev hn (by simp only [List.length_nil]; omega)]
    split <;> exact hq
  unfold stepValue at he ⊢
  rw [trimLeft_ns _ ha] at he ⊢
  simp only [h1, h2, Bool.false_eq_true, if_false] at he ⊢
  by_cases h3 : (a == ch 'n') = true
  · simp only [h3, if_true] at he ⊢
    exact hlit _ _ _ _ (pushState_evs _ _) (by simp) (by rw [kind_null]; simp)
  have h3 : (a == ch 'n') = false := by simpa using h3
  simp only [h3, Bool.false_eq_true, if_false] at he ⊢
  by_cases h4 : (a == ch 'f') = true
  · simp only [h4, if_true] at he ⊢
    exact hlit _ _ _ _ (pushState_evs _ _) (by simp) (by rw [kind_false]; simp)
  have h4 : (a == ch 'f') = false := by simpa using h4
  simp only [h4, Bool.false_eq_true, if_false] at he ⊢
  by_cases h5 : (a == ch 't') = true
  · simp only [h5, if_true] at he ⊢
    exact hlit _ _ _ _ (pushState_evs _ _) (by simp) (by rw [kind_true]; simp)
  have h5 : (a == ch 't') = false := by simpa using h5
  simp only [h5, Bool.false_eq_true, if_false] at he ⊢
  by_cases h6 : (a == ch '"') = true
  · simp only [h6, if_true] at he ⊢
    have hc : closes { pushState { p with currentState := ret, literalBuffer := [] } .stringState
        with inEscape := false } a = false := by
      unfold closes pushState
      split <;> simp
    obtain ⟨k1, _, _⟩ := stepString_peel _ a [] hc
    have hr := congrArg R.reported k1
    simp only at hr
    rw [tok_quiet (stepString_eff _ [a] (by simp) he) hr]
    exact pushState_evs _ _
  have h6 : (a == ch '"') = false := by simpa using h6
  simp only [h6, Bool.false_eq_true, if_false] at he ⊢
  by_cases h7 : (a == ch '-' || a == ch '+' || a == ch '.' || Parse.isDigit a) = true
  · simp only [h7, Bool.not_true, Bool.false_eq_true, if_false] at he ⊢
    obtain ⟨k1, _, _⟩ := stepNumber_peel
      { pushState { p with currentState := ret, isDouble := false, literalBuffer := [] } .numberState
        with isDouble := false } a [] (numStart_not_stop a h7)
    have hr := congrArg R.reported k1
    simp only at hr
    rw [tok_quiet (stepNumber_eff _ [a] he) hr]
    exact pushState_evs _ _
  · have h7 : (a == ch '-' || a == ch '+' || a == ch '.' || Parse.isDigit a) = false := by
      cases hx : (a == ch '-' || a == ch '+' || a == ch '.' || Parse.isDigit a) with
      | false => rfl
      | true => exact absurd hx h7
    simp only [h7, Bool.not_false, if_true] at he
    cases he

/-- stepValue on an opening bracket: the byte decides by itself -/
theorem stepValue_open (p : P) (a : UInt8) (ret : St) (ha : Utf8.isSpaceByte a = false)
    (h : (a == ch '{') = true ∨ (a == ch '[') = true) :
    ∀ r, stepValue p (a :: r) ret =
      { p := (stepValue p [a] ret).p, rest := r, err := (stepValue p [a] ret).err } := by
  intro r
  rcases h with h | h
  · unfold stepValue
    rw [trimLeft_ns _ ha, trimLeft_ns _ ha]
    simp only [h, if_true]
  · have h1 : (a == ch '{') = false := by
      have : a = ch '[' := by simpa using h
      subst this; decide
    unfold stepValue
    rw [trimLeft_ns _ ha, trimLeft_ns _ ha]
    simp only [h1, h, if_true, Bool.false_eq_true, if_false]

theorem classQ_value (p : P) (a : UInt8) (rest : Bytes) (ha : Utf8.isSpaceByte a = false)
    (hcs : p.currentState = .startState ∨ p.currentState = .dictFieldValue ∨ p.currentState = .arrStateValue) :
    ContQ p a rest ∨ Local p a rest := by
  -- the step is stepValue, up to the `reported` flag
  have hE : ∃ (ret : St) (g : R → R), (∀ x, (g x).p = x.p ∧ (g x).rest = x.rest ∧ (g x).err = x.err) ∧
      ∀ b, execStep p b = (g (stepValue p b ret), false) := by
    rcases hcs with hcs | hcs | hcs
    · exact ⟨.startState, id, fun _ => ⟨rfl, rfl, rfl⟩,
        by intro b; unfold execStep; rw [hcs]; simp only [stepStart, hcs, id]⟩
    · exact ⟨.dictFieldStateEnd, id, fun _ => ⟨rfl, rfl, rfl⟩, by intro b; unfold execStep; rw [hcs]; rfl⟩
    · exact ⟨.arrStateNext, fun x => { x with reported := false }, fun _ => ⟨rfl, rfl, rfl⟩,
        by intro b; unfold execStep; rw [hcs]⟩
  obtain ⟨ret, g, hg, hE⟩ := hE
  by_cases hop : (a == ch '{') = true ∨ (a == ch '[') = true
  · right
    have hq := stepValue_open p a ret ha hop
    apply local_of_eq p a rest (stepValue p [a] ret).p (stepValue p [a] ret).err false
    intro r
    refine ⟨(g (stepValue p (a :: r) ret)).reported, (g (stepValue p (a :: r) ret)).rest, ?_, fun _ => ?_⟩
    · rw [hE]
      have h3 := hg (stepValue p (a :: r) ret)
      generalize g (stepValue p (a :: r) ret) = y at h3 ⊢
      obtain ⟨yp, yr, yrep, ye⟩ := y
      simp only at h3
      rw [hq r] at h3
      simp only at h3
      rw [h3.1, h3.2.2]
    · rw [(hg _).2.1, hq r]
  · have h1 : (a == ch '{') = false := by
      cases hx : (a == ch '{') with
      | false => rfl
      | true => exact absurd (Or.inl hx) hop
    have h2 : (a == ch '[') = false := by
      cases hx : (a == ch '[') with
      | false => rfl
      | true => exact absurd (Or.inr hx) hop
    rcases class_value p a rest ha hcs with hc | hl
    · left
      refine ⟨hc, ?_⟩
      have herr := hc.2.1
      rw [hE] at herr ⊢
      simp only [(hg _).1, (hg _).2.2] at herr ⊢
      exact stepValue_one p a ret ha h1 h2 herr
    · exact Or.inr hl

theorem doString_evs (p : P) (b : Bytes) (hb : b ≠ []) : (doString p b).1.evs = p.evs := by
  obtain ⟨esc, lb, ref, done, rest, err, hd, _⟩ := doString_spec p b hb
  rw [hd]

theorem classQ_string (p : P) (a : UInt8) (rest : Bytes) (hcs : p.currentState = .stringState) :
    ContQ p a rest ∨ Local p a rest := by
  have hE : ∀ q : P, q.currentState = .stringState → ∀ b, execStep q b = (stepString q b, false) := by
    intro q hq b; unfold execStep; rw [hq]
  cases hc : closes p a with
  | true =>
    right
    obtain ⟨k1, k2, k3⟩ := stepString_close p a rest hc
    unfold Local
    rw [hE p hcs, hE p hcs]
    exact ⟨rfl, k2, by rw [k1], by rw [k1], fun _ h => ⟨k1, k3 h⟩⟩
  | false =>
    left
    obtain ⟨k1, k2, k3⟩ := stepString_peel p a rest hc
    refine ⟨?_, ?_⟩
    · unfold Cont
      rw [hE p hcs, hE p hcs]
      simp only
      rw [hE _ (by rw [k2]; exact hcs), k3]
      refine ⟨trivial, by rw [k1], by rw [k1], rfl, REq.refl _⟩
    · rw [hE p hcs]
      have hr := congrArg R.reported k1
      have he := congrArg R.err k1
      simp only at hr he
      exact tok_quiet (stepString_eff p [a] (by simp) he) hr

theorem classQ_key (p : P) (a : UInt8) (rest : Bytes) (hcs : p.currentState = .dictFieldState) :
    ContQ p a rest ∨ Local p a rest := by
  have hE : ∀ q : P, q.currentState = .dictFieldState → ∀ b, execStep q b = (stepDictKey q b, false) := by
    intro q hq b; unfold execStep; rw [hq]
  cases hc : closes p a with
  | true =>
    right
    obtain ⟨k1, k2, k3⟩ := stepDictKey_close p a rest hc
    unfold Local
    rw [hE p hcs, hE p hcs]
    exact ⟨rfl, k2, by rw [k1], by rw [k1], fun _ h => ⟨k1, k3 h⟩⟩
  | false =>
    left
    obtain ⟨k1, k2, k3⟩ := stepDictKey_peel p a rest hc
    refine ⟨?_, ?_⟩
    · unfold Cont
      rw [hE p hcs, hE p hcs]
      simp only
      rw [hE _ (by rw [k2]; exact hcs), k3]
      refine ⟨trivial, by rw [k1], by rw [k1], rfl, REq.refl _⟩
    · rw [hE p hcs]
      obtain ⟨d1, _, _⟩ := doString_peel p a rest hc
      unfold stepDictKey
      rw [d1]
      simp only [Bool.false_and, Bool.false_eq_true, if_false]
      exact doString_evs p [a] (by simp)

theorem classQ_number (p : P) (a : UInt8) (rest : Bytes) (hinv : Inv p) (hcs : p.currentState = .numberState) :
    ContQ p a rest ∨ Move p a rest := by
  have hE : ∀ q : P, q.currentState = .numberState → ∀ b, execStep q b = (stepNumber q b, false) := by
    intro q hq b; unfold execStep; rw [hq]
  cases hc : isStopChar a with
  | true =>
    rcases class_number p a rest hinv hcs with h | h
    · exfalso
      -- a stop character is not consumed
      have h3 := h.2.2.1
      rw [hE p hcs, (stepNumber_stop p a [] hc).2] at h3
      cases h3
    · exact Or.inr h
  | false =>
    left
    obtain ⟨k1, k2, k3⟩ := stepNumber_peel p a rest hc
    refine ⟨?_, ?_⟩
    · unfold Cont
      rw [hE p hcs, hE p hcs]
      simp only
      rw [hE _ (by rw [k2]; exact hcs), k3]
      refine ⟨trivial, by rw [k1], by rw [k1], rfl, REq.refl _⟩
    · rw [hE p hcs]
      have hr := congrArg R.reported k1
      have he := congrArg R.err k1
      simp only at hr he
      exact tok_quiet (stepNumber_eff p [a] he) hr

theorem classQ_lit (p : P) (a : UInt8) (rest : Bytes) (kind : String) (err : Err) (ev : Ev) (hinv : Inv p)
    (hl : isLit p.currentState = true) (hk : (strBytes kind).length = kindLen p.currentState)
    (hE : ∀ q : P, q.currentState = p.currentState → ∀ b, execStep q b = (stepLit q b kind err ev, false)) :
    ContQ p a rest ∨ Local p a rest ∨ Move p a rest := by
  have hn : p.required ≤ (strBytes kind).length := by rw [hk]; exact hinv.lit hl
  have hw1 : weight p.currentState = 1 := by
    cases hcs : p.currentState <;> rw [hcs] at hl <;> simp [isLit] at hl <;> rfl
  rcases stepLit_class p a rest kind err ev hn hinv.stack with k | ⟨k1, k2, k3, k4⟩ | ⟨k1, k2⟩
  · right; right
    apply move_of_eq p a rest (visit (popState p) ev).1 (visit (popState p) ev).2 _
      (by rw [visit_cs]; exact (popState_spec p hinv.stack).2.1) hw1
    intro r
    exact ⟨true, by rw [hE p rfl, k]⟩
  · right; left
    unfold Local
    rw [hE p rfl, hE p rfl]
    exact ⟨rfl, k1, k2, k3, fun _ h => k4 h⟩
  · left
    refine ⟨?_, ?_⟩
    · unfold Cont
      rw [hE p rfl, hE p rfl]
      simp only
      rw [k1]
      simp only
      rw [hE (setReq p (p.required - 1)) rfl]
      exact ⟨trivial, trivial, trivial, rfl, k2⟩
    · rw [hE p rfl, k1]; rfl

/-- every step is of one of the three kinds; a byte that is taken by itself and continued
delivers no event -/
theorem classifyQ (p : P) (a : UInt8) (rest : Bytes) (hinv : Inv p) :
    ContQ p a rest ∨ Local p a rest ∨ Move p a rest := by
  cases hsp : Utf8.isSpaceByte a with
  | true =>
    by_cases ht : trims p.currentState = true
    · left
      refine ⟨class_space p a rest ht hsp, ?_⟩
      rw [(execStep_space p a rest ht hsp).1]
    · cases hcs : p.currentState <;> rw [hcs] at ht <;> simp [trims] at ht
      · exact Or.inr (Or.inl (class_failed p a rest hcs))
      · exact (classQ_key p a rest hcs).imp id Or.inl
      · exact classQ_lit p a rest "null" .expectedNull .null hinv (by rw [hcs]; rfl) (by rw [kind_null, hcs]; rfl)
          (by intro q hq b; unfold execStep; rw [hq, hcs]; rfl)
      · exact classQ_lit p a rest "true" .expectedTrue (.bool true) hinv (by rw [hcs]; rfl) (by rw [kind_true, hcs]; rfl)
          (by intro q hq b; unfold execStep; rw [hq, hcs]; rfl)
      · exact classQ_lit p a rest "false" .expectedFalse (.bool false) hinv (by rw [hcs]; rfl)
          (by rw [kind_false, hcs]; rfl) (by intro q hq b; unfold execStep; rw [hq, hcs]; rfl)
      · exact (classQ_string p a rest hcs).imp id Or.inl
      · exact (classQ_number p a rest hinv hcs).imp id Or.inr
  | false =>
    cases hcs : p.currentState with
    | failedState => exact Or.inr (Or.inl (class_failed p a rest hcs))
    | startState => exact (classQ_value p a rest hsp (Or.inl hcs)).imp id Or.inl
    | dictFieldValue => exact (classQ_value p a rest hsp (Or.inr (Or.inl hcs))).imp id Or.inl
    | arrStateValue => exact (classQ_value p a rest hsp (Or.inr (Or.inr hcs))).imp id Or.inl
    | dictState =>
      exact Or.inr (class_dict p a rest true hsp (by intro b; unfold execStep; rw [hcs]) (by rw [hcs]; rfl))
    | dictNextFieldState =>
      exact Or.inr (class_dict p a rest false hsp (by intro b; unfold execStep; rw [hcs]) (by rw [hcs]; rfl))
    | dictFieldState => exact (classQ_key p a rest hcs).imp id Or.inl
    | dictFieldValueSep => exact Or.inr (Or.inl (class_sep p a rest hsp hcs))
    | dictFieldStateEnd =>
      exact Or.inr (Or.inl (class_dictValueEnd p a rest hsp (by intro b; unfold execStep; rw [hcs])))
    | arrState =>
      exact Or.inr (class_array p a rest hsp (by intro b; unfold execStep; rw [hcs]) (by rw [hcs]; rfl))
    | arrStateNext =>
      exact Or.inr (Or.inl (class_arrValueEnd p a rest hsp (by intro b; unfold execStep; rw [hcs])))
    | nullState =>
      exact classQ_lit p a rest "null" .expectedNull .null hinv (by rw [hcs]; rfl) (by rw [kind_null, hcs]; rfl)
        (by intro q hq b; unfold execStep; rw [hq, hcs]; rfl)
    | trueState =>
      exact classQ_lit p a rest "true" .expectedTrue (.bool true) hinv (by rw [hcs]; rfl) (by rw [kind_true, hcs]; rfl)
        (by intro q hq b; unfold execStep; rw [hq, hcs]; rfl)
    | falseState =>
      exact classQ_lit p a rest "false" .expectedFalse (.bool false) hinv (by rw [hcs]; rfl)
        (by rw [kind_false, hcs]; rfl) (by intro q hq b; unfold execStep; rw [hq, hcs]; rfl)
    | stringState => exact (classQ_string p a rest hcs).imp id Or.inl
    | numberState => exact (classQ_number p a rest hinv hcs).imp id Or.inr

/-! ## the loop on `a :: rest` against `[a]` and then `rest` -/

/-- go on over `b` after a run of the loop that ended in `r` -/
def useq (r : R) (b : Bytes) : R :=
  if r.err.isSome then r
  else if r.reported then { r with rest := r.rest ++ b }
  else U r.p b

theorem useq_err {r : R} {e : Err} (h : r.err = some e) (b : Bytes) : useq r b = r := by
  simp [useq, h]

theorem useq_rep {r : R} (h : r.err = none) (hr : r.reported = true) (b : Bytes) :
    useq r b = { r with rest := r.rest ++ b } := by
  simp [useq, h, hr]

theorem useq_cont {r : R} (h : r.err = none) (hr : r.reported = false) (b : Bytes) : useq r b = U r.p b := by
  simp [useq, h, hr]

theorem flag_eq_of {p p' : P} {b b' : Bytes} (hb : b ≠ []) (hb' : b' ≠ []) (h : ParseP.WF p) (h' : ParseP.WF p')
    (he : (execStep p b).1.err = none) (he' : (execStep p' b').1.err = none)
    (hs : (execStep p' b').1.p.states = (execStep p b).1.p.states)
    (hv : (execStep p' b').1.p.evs = (execStep p b).1.p.evs) (h0 : p'.evs = p.evs) :
    flag (execStep p' b').1 = flag (execStep p b).1 := by
  rw [Bool.eq_iff_iff, flag_iff p b hb h he, flag_iff p' b' hb' h' he', hs, hv, h0]

/-- the first step of the loop over one byte -/
theorem U_one_quiet (p : P) (x : UInt8) (h : ParseP.WF p) (he : (execStep p [x]).1.err = none)
    (hr : (execStep p [x]).1.rest = []) (hq : (execStep p [x]).1.p.evs = p.evs) :
    U p [x] = { p := (execStep p [x]).1.p, rest := [] } := by
  have hf : flag (execStep p [x]).1 = false := by
    cases hf : flag (execStep p [x]).1 with
    | false => rfl
    | true => exact absurd hq ((flag_iff p [x] (by simp) h he).mp hf).2
  rw [U_cont p [x] (by simp) h he hf, hr, U_nil]

/-- the peel lemma of the loop, for a step that takes the byte by itself and goes on -/
theorem peelU_cont (p : P) (x : UInt8) (rest : Bytes) (h : ParseP.WF p) (hrest : rest ≠ [])
    (hc : ContQ p x rest) : UE (useq (U p [x]) rest) (U p (x :: rest)) := by
  obtain ⟨⟨c1, c2, c3, c4, e1, e2, e3, e4⟩, hq⟩ := hc
  have hw1 : ParseP.WF (execStep p [x]).1.p := (execStep_wf p [x] (by simp) h).2
  rw [U_one_quiet p x h c2 c3 hq, useq_cont rfl rfl]
  simp only
  cases hs2 : (execStep (execStep p [x]).1.p rest).1.err with
  | some e =>
    rw [U_err _ rest hrest hw1 e hs2, U_err p (x :: rest) (by simp) h e (by rw [e1, hs2])]
    exact ⟨e1, e2, e3, fun hc => by rw [hs2] at hc; cases hc⟩
  | none =>
    obtain ⟨k1, k2⟩ := e4 hs2
    have hs : (execStep p (x :: rest)).1.err = none := by rw [e1, hs2]
    have hfl : flag (execStep p (x :: rest)).1 = flag (execStep (execStep p [x]).1.p rest).1 :=
      flag_eq_of hrest (by simp) hw1 h hs2 hs (eqv_states k2) e2 hq.symm
    cases hf : flag (execStep (execStep p [x]).1.p rest).1 with
    | true =>
      rw [U_flag _ rest hrest hw1 hs2 hf, U_flag p (x :: rest) (by simp) h hs (by rw [hfl, hf])]
      exact ⟨e1, e2, e3, fun _ => ⟨k1, rfl, k2⟩⟩
    | false =>
      rw [U_cont _ rest hrest hw1 hs2 hf, U_cont p (x :: rest) (by simp) h hs (by rw [hfl, hf]), k1]
      exact U_eqv _ _ (execStep_wf _ rest hrest hw1).2 _ k2

/-- … for a step that looks at the byte only and consumes it -/
theorem peelU_local (p : P) (x : UInt8) (rest : Bytes) (h : ParseP.WF p)
    (hl : Local p x rest) : UE (useq (U p [x]) rest) (U p (x :: rest)) := by
  obtain ⟨l1, l2, l3, l4, l5⟩ := hl
  cases hs1 : (execStep p [x]).1.err with
  | some e =>
    rw [U_err p [x] (by simp) h e hs1, useq_err hs1, U_err p (x :: rest) (by simp) h e (by rw [l2, hs1])]
    exact ⟨l2, l3, l4, fun hc => by rw [hs1] at hc; cases hc⟩
  | none =>
    obtain ⟨k1, k2, k3⟩ := l5 (execStep_wf p [x] (by simp) h).1 hs1
    have hs : (execStep p (x :: rest)).1.err = none := by rw [l2, hs1]
    have hfl : flag (execStep p (x :: rest)).1 = flag (execStep p [x]).1 :=
      flag_eq_of (by simp) (by simp) h h hs1 hs (by rw [k1]) l3 rfl
    cases hf : flag (execStep p [x]).1 with
    | true =>
      rw [U_flag p [x] (by simp) h hs1 hf, useq_rep (r := { (execStep p [x]).1 with reported := true }) hs1 rfl,
        U_flag p (x :: rest) (by simp) h hs (by rw [hfl, hf])]
      refine ⟨l2, l3, l4, fun _ => ⟨?_, rfl, ?_⟩⟩
      · simp only [k2, k3, List.nil_append]
      · simp only [k1]; exact Eqv.refl _
    | false =>
      rw [U_cont p [x] (by simp) h hs1 hf, k2, U_nil, useq_cont rfl rfl,
        U_cont p (x :: rest) (by simp) h hs (by rw [hfl, hf]), k1, k3]
      exact UE.refl _

/-- … from a state that consumes (weight 0) -/
theorem peelU0 (p : P) (x : UInt8) (rest : Bytes) (h : ParseP.WF p) (hrest : rest ≠ [])
    (hw : weight p.currentState = 0) : UE (useq (U p [x]) rest) (U p (x :: rest)) := by
  rcases classifyQ p x rest h.inv with hc | hc | hc
  · exact peelU_cont p x rest h hrest hc
  · exact peelU_local p x rest h hc
  · have := hc.2.2.2.2.2.2; omega

/-- THE PEEL LEMMA OF THE LOOP: over `x :: rest` it does what it does over `[x]` and then —
unless that completed a value or failed — over `rest` -/
theorem peelU (p : P) (x : UInt8) (rest : Bytes) (h : ParseP.WF p) (hrest : rest ≠ []) :
    UE (useq (U p [x]) rest) (U p (x :: rest)) := by
  rcases classifyQ p x rest h.inv with hc | hc | hc
  · exact peelU_cont p x rest h hrest hc
  · exact peelU_local p x rest h hc
  · obtain ⟨m1, m2, m3, m4, m5, m6, m7⟩ := hc
    cases hs1 : (execStep p [x]).1.err with
    | some e =>
      rw [U_err p [x] (by simp) h e hs1, useq_err hs1, U_err p (x :: rest) (by simp) h e (by rw [m3, hs1])]
      exact ⟨m3, by rw [m4], by rw [m4], fun hc => by rw [hs1] at hc; cases hc⟩
    | none =>
      obtain ⟨k1, k2⟩ := m5 hs1
      have hs : (execStep p (x :: rest)).1.err = none := by rw [m3, hs1]
      have hfl : flag (execStep p (x :: rest)).1 = flag (execStep p [x]).1 :=
        flag_eq_of (by simp) (by simp) h h hs1 hs (by rw [m4]) (by rw [m4]) rfl
      cases hf : flag (execStep p [x]).1 with
      | true =>
        rw [U_flag p [x] (by simp) h hs1 hf, useq_rep (r := { (execStep p [x]).1 with reported := true }) hs1 rfl,
          U_flag p (x :: rest) (by simp) h hs (by rw [hfl, hf])]
        refine ⟨m3, by simp only [m4], by simp only [m4], fun _ => ⟨?_, rfl, ?_⟩⟩
        · simp only [k1, k2, List.singleton_append]
        · simp only [m4]; exact Eqv.refl _
      | false =>
        rw [U_cont p [x] (by simp) h hs1 hf, k1, U_cont p (x :: rest) (by simp) h hs (by rw [hfl, hf]), m4, k2]
        exact peelU0 _ x rest (execStep_wf p [x] (by simp) h).2 hrest m6

/-! ## the split law -/

theorem useq_nil (p : P) (b : Bytes) (h : ParseP.WF p) : useq (U p b) [] = U p b := by
  cases he : (U p b).err with
  | some e => exact useq_err he []
  | none =>
    cases hr : (U p b).reported with
    | true =>
      rw [useq_rep he hr, List.append_nil]
    | false =>
      rw [useq_cont he hr, U_nil]
      have h2 := (U_post p b h he).2 hr
      generalize U p b = r at he hr h2 ⊢
      obtain ⟨rp, rr, rrep, re⟩ := r
      simp only at he hr h2
      subst he; subst hr; subst h2
      rfl

theorem UE.ext_rest {x y : R} (h : UE x y) (b : Bytes) :
    UE { x with rest := x.rest ++ b } { y with rest := y.rest ++ b } := by
  obtain ⟨a1, a2, a3, a4⟩ := h
  refine ⟨a1, a2, a3, fun he => ?_⟩
  obtain ⟨b1, b2, b3⟩ := a4 he
  exact ⟨by simp only [b1], b2, b3⟩

/-- going on after results that agree gives results that agree -/
theorem useq_UE {x y : R} (hw : ParseP.WF x.p) (h : UE x y) (b : Bytes) : UE (useq x b) (useq y b) := by
  cases he : x.err with
  | some e =>
    rw [useq_err he, useq_err (by rw [h.1, he])]
    exact h
  | none =>
    have hey : y.err = none := by rw [h.1, he]
    obtain ⟨b1, b2, b3⟩ := h.2.2.2 he
    cases hr : x.reported with
    | true =>
      rw [useq_rep he hr, useq_rep hey (by rw [b2, hr])]
      exact h.ext_rest b
    | false =>
      rw [useq_cont he hr, useq_cont hey (by rw [b2, hr])]
      exact U_eqv _ _ hw _ b3

/-- THE SPLIT LAW OF `feedUntil` ACROSS A READ BOUNDARY.  Let the loop over `a` end with `r`.
Then over `a ++ b`:
  * if `r` is an error, the loop ends with the same error after the same events;
  * if `r` completed a top-level value, the loop ends in the same state (up to `Eqv`) with
    `b` left over in addition;
  * otherwise (all of `a` is consumed, no value complete) the loop goes on as the loop over
    `b` from `r.p` — same result up to `UE`. -/
theorem U_split (a b : Bytes) : ∀ p, ParseP.WF p → UE (useq (U p a) b) (U p (a ++ b)) := by
  induction a with
  | nil =>
    intro p _
    rw [U_nil, useq_cont rfl rfl]
    exact UE.refl _
  | cons x a' ih =>
    intro p h
    by_cases hb : b = []
    · subst hb
      rw [useq_nil _ _ h, List.append_nil]
      exact UE.refl _
    by_cases ha : a' = []
    · subst ha
      exact peelU p x b h hb
    have hp1 : UE (useq (U p [x]) (a' ++ b)) (U p (x :: (a' ++ b))) :=
      peelU p x (a' ++ b) h (by intro hc; exact ha (List.append_eq_nil_iff.mp hc).1)
    have hp2 : UE (useq (U p [x]) a') (U p (x :: a')) := peelU p x a' h ha
    rw [List.cons_append]
    cases he : (U p [x]).err with
    | some e =>
      rw [useq_err he] at hp1 hp2
      have hey : (U p (x :: a')).err = some e := by rw [hp2.1, he]
      rw [useq_err hey]
      exact UE.trans (UE.symm hp2) hp1
    | none =>
      cases hr : (U p [x]).reported with
      | true =>
        rw [useq_rep he hr] at hp1 hp2
        have k := hp2.2.2.2 he
        have hey : (U p (x :: a')).err = none := by rw [hp2.1]; exact he
        rw [useq_rep hey (by rw [k.2.1]; exact hr)]
        have h3 := (UE.symm hp2).ext_rest b
        simp only [List.append_assoc] at h3
        exact UE.trans h3 hp1
      | false =>
        rw [useq_cont he hr] at hp1 hp2
        have hw1 := U_wf p [x] h
        have h3 := ih (U p [x]).p hw1
        have h4 := useq_UE (U_wf _ a' hw1) hp2 b
        exact UE.trans (UE.symm h4) (UE.trans h3 hp1)

end SF.Json.DecP
