/-
  Evaluation kit for the non-vacuity examples of property C12.  The kernel cannot evaluate
  `String.splitOn` (well-founded recursion), so the tag strings of the examples are parsed here
  once, by unfolding `splitOnAux` step by step; the examples then use `fieldKind` facts only.
-/
import SF.Proofs.FoldStages
namespace SF.FoldProofs.Examples
open SF SF.Gotype SF.Gotype.Fold SF.Gotype.Rules SF.FoldProofs

theorem comma_ne : (("," : String) == "") = false := by decide +kernel

theorem splitOn_empty : "".splitOn "," = [""] := by
  unfold String.splitOn
  simp only [comma_ne, Bool.false_eq_true, if_false]
  rw [String.splitOnAux]; simp (decide := true) only []

theorem splitOn_inline : ",inline".splitOn "," = ["", "inline"] := by
  unfold String.splitOn
  simp only [comma_ne, Bool.false_eq_true, if_false]
  iterate 8 (rw [String.splitOnAux]; simp (decide := true) only [if_true, if_false])

theorem splitOn_omitempty : "n,omitempty".splitOn "," = ["n", "omitempty"] := by
  unfold String.splitOn
  simp only [comma_ne, Bool.false_eq_true, if_false]
  iterate 12 (rw [String.splitOnAux]; simp (decide := true) only [if_true, if_false])

theorem pt_empty : (Rules.parseTag "").dash = false ∧ (Rules.parseTag "").inline = false ∧
    (Rules.parseTag "").omitEmpty = false ∧ (Rules.parseTag "").omit' = false ∧
    (Rules.parseTag "").name = "" := by
  unfold Rules.parseTag
  simp only [splitOn_empty, List.headD_cons, List.drop_one, List.tail_cons, List.map_nil]
  decide +kernel

theorem pt_inline : (Rules.parseTag ",inline").dash = false ∧ (Rules.parseTag ",inline").inline = true ∧
    (Rules.parseTag ",inline").omitEmpty = false ∧ (Rules.parseTag ",inline").omit' = false := by
  unfold Rules.parseTag
  simp only [splitOn_inline, List.headD_cons, List.drop_one, List.tail_cons, List.map_cons, List.map_nil]
  decide +kernel

theorem pt_omitempty : (Rules.parseTag "n,omitempty").dash = false ∧
    (Rules.parseTag "n,omitempty").inline = false ∧ (Rules.parseTag "n,omitempty").omitEmpty = true ∧
    (Rules.parseTag "n,omitempty").omit' = false ∧ (Rules.parseTag "n,omitempty").name = "n" := by
  unfold Rules.parseTag
  simp only [splitOn_omitempty, List.headD_cons, List.drop_one, List.tail_cons, List.map_cons, List.map_nil]
  decide +kernel

/-- an exported field without tag: the member is named after the lower-cased field name -/
theorem fieldKind_untagged (n : String) (t : GoType) (a : Bool)
    (h : Field.exported (.mk n t "" a) = true) :
    fieldKind (.mk n t "" a) = .plain (strBytes (toLower n)) := by
  unfold fieldKind fieldName
  obtain ⟨h1, h2, h3, h4, h5⟩ := pt_empty
  simp only [Field.tag, h, h1, h2, h3, h4, h5]
  rfl

theorem fieldKind_inline (n : String) (t : GoType) (a : Bool)
    (h : Field.exported (.mk n t ",inline" a) = true) :
    fieldKind (.mk n t ",inline" a) = .inline := by
  unfold fieldKind
  obtain ⟨h1, h2, h3, h4⟩ := pt_inline
  simp only [Field.tag, h, h1, h2, h3, h4]
  rfl

theorem fieldKind_omitempty (n : String) (t : GoType) (a : Bool)
    (h : Field.exported (.mk n t "n,omitempty" a) = true) :
    fieldKind (.mk n t "n,omitempty" a) = .omitEmpty (strBytes "n") := by
  unfold fieldKind fieldName
  obtain ⟨h1, h2, h3, h4, h5⟩ := pt_omitempty
  simp only [Field.tag, h, h1, h2, h3, h4, h5]
  rfl

/-! ## the struct types of the examples -/

abbrev fA : Field := .mk "A" (.int .int) "" false                    -- A int
abbrev fb : Field := .mk "b" .string "" false                        -- b string        (unexported)
abbrev fC : Field := .mk "C" (.slice .string) "n,omitempty" false    -- C []string `struct:"n,omitempty"`
abbrev fX : Field := .mk "X" .bool "" false                          -- X bool
abbrev fD : Field := .mk "D" (.ptr (.struct [fX])) ",inline" false   -- D *struct{X bool} `struct:",inline"`

theorem kA : fieldKind fA = .plain [97] := by
  rw [fieldKind_untagged _ _ _ (by decide +kernel)]; decide +kernel
theorem kb : fieldKind fb = .drop := by decide +kernel
theorem kC : fieldKind fC = .omitEmpty [110] := by
  rw [fieldKind_omitempty _ _ _ (by decide +kernel)]; decide +kernel
theorem kD : fieldKind fD = .inline := by
  rw [fieldKind_inline _ _ _ (by decide +kernel)]
theorem kX : fieldKind fX = .plain [120] := by
  rw [fieldKind_untagged _ _ _ (by decide +kernel)]; decide +kernel

theorem forM_cons' {ε α : Type} (f : α → Except ε Unit) (a : α) (l : List α) :
    (a :: l).forM f = (match f a with | .error e => .error e | .ok () => l.forM f) := by
  have e : (a :: l).forM f = (f a >>= fun _ => l.forM f) := rfl
  rw [e]; cases f a <;> rfl
theorem forM_nil' {ε α : Type} (f : α → Except ε Unit) : ([] : List α).forM f = .ok () := rfl

/-- stage 3: `struct{A int; b string}` -/
abbrev T3 : GoType := .struct [fA, fb]
abbrev v3 : GoVal := .struct [.int 5, .str [120]]
abbrev r3 : RVal := .obj [(false, [([97], .int 5)])]

theorem stage3 : stageT 3 [] T3 = true := by
  simp only [stageT, stageFs, stageF, stageKind, kA, kb]
  decide +kernel

theorem spec3 : Rules.foldR T3 v3 = .ok r3 := by
  have tok : Rules.typeOk true T3 = .ok () := by
    unfold Rules.typeOk
    rw [typeOkF_unnamed 999 true [] (sn := []) (stage_good 3 _ _ stage3) rfl]
    simp only [forM_cons', forM_nil', fieldOkF_eq, kA, kb]
    rfl
  unfold Rules.foldR
  rw [tok]
  simp only []
  rw [foldF_struct]
  simp only [List.zip_cons_cons, List.zip_nil_right, mapM_cons, mapM_nil, fieldF_eq, kA, kb]
  rfl

/-- stage 4: `struct{A int; b string; C []string "n,omitempty"}`, `C` empty and not -/
abbrev T4 : GoType := .struct [fA, fb, fC]
abbrev v4 : GoVal := .struct [.int 5, .str [120], .nilSlice]
abbrev r4 : RVal := .obj [(false, [([97], .int 5)])]
abbrev v4' : GoVal := .struct [.int 5, .str [120], .slice [.str [121]]]
abbrev r4' : RVal := .obj [(false, [([97], .int 5)]), (false, [([110], .arr [.str [121]])])]

theorem stage4 : stageT 4 [] T4 = true := by
  simp only [stageT, stageFs, stageF, stageKind, kA, kb, kC]
  decide +kernel

theorem tok4 : Rules.typeOk true T4 = .ok () := by
  unfold Rules.typeOk
  rw [typeOkF_unnamed 999 true [] (sn := []) (stage_good 4 _ _ stage4) rfl]
  simp only [forM_cons', forM_nil', fieldOkF_eq, kA, kb, kC]
  rfl

theorem spec4 : Rules.foldR T4 v4 = .ok r4 := by
  unfold Rules.foldR
  rw [tok4]
  simp only []
  rw [foldF_struct]
  simp only [List.zip_cons_cons, List.zip_nil_right, mapM_cons, mapM_nil, fieldF_eq, kA, kb, kC]
  rfl

theorem spec4' : Rules.foldR T4 v4' = .ok r4' := by
  unfold Rules.foldR
  rw [tok4]
  simp only []
  rw [foldF_struct]
  simp only [List.zip_cons_cons, List.zip_nil_right, mapM_cons, mapM_nil, fieldF_eq, kA, kb, kC]
  rfl

/-- stage 5: `struct{A int; b string; C []string "n,omitempty"; D *struct{X bool} ",inline"}` -/
abbrev T5 : GoType := .struct [fA, fb, fC, fD]
abbrev v5 : GoVal := .struct [.int 5, .str [120], .nilSlice, .ptr (.struct [.bool true])]
abbrev r5 : RVal := .obj [(false, [([97], .int 5)]), (false, [([120], .bool true)])]

theorem stage5 : stageT 5 [] T5 = true := by
  simp only [stageT, stageFs, stageF, stageKind, kA, kb, kC, kD, kX]
  decide +kernel

theorem tok5 : Rules.typeOk true T5 = .ok () := by
  unfold Rules.typeOk
  rw [typeOkF_unnamed 999 true [] (sn := []) (stage_good 5 _ _ stage5) rfl]
  simp only [forM_cons', forM_nil', fieldOkF_eq, kA, kb, kC, kD]
  have h1 : typeOkF 998 true [] fA.typ = .ok () := rfl
  have h2 : typeOkF 998 true [] fC.typ = .ok () := rfl
  simp only [h1, h2]
  have h3 : inlineOkF 998 true [] fD.typ = typeOkF (995 + 1) true [] (.struct [fX]) := rfl
  rw [h3, typeOkF_unnamed 995 true [] (sn := [])
    (by simp only [goodT, goodFs, goodF, inlineIfaceF, kX]; decide +kernel) rfl]
  simp only [forM_cons', forM_nil', fieldOkF_eq, kX]
  rfl

theorem spec5 : Rules.foldR T5 v5 = .ok r5 := by
  unfold Rules.foldR
  rw [tok5]
  simp only []
  rw [foldF_struct]
  simp only [List.zip_cons_cons, List.zip_nil_right, mapM_cons, mapM_nil, fieldF_eq, kA, kb, kC, kD]
  have h1 : foldF 99998 true fA.typ (GoVal.int 5) = .ok (.int 5) := rfl
  have h2 : isEmptyF 100000 fC.typ GoVal.nilSlice = true := rfl
  have h3 : inlineF 99998 true fD.typ (GoVal.struct [GoVal.bool true]).ptr =
      inlineF (99996 + 1) true (.struct [fX]) (.struct [.bool true]) := rfl
  rw [h1, h2, h3, inlineF_struct]
  simp only [List.zip_cons_cons, List.zip_nil_right, mapM_cons, mapM_nil, fieldF_eq, kX]
  rfl

/-! ## typed-ness of the example values (`wt` looks at the field kinds: `lazyField`) -/

theorem wt3 : wt T3 v3 = true := by
  unfold wt; simp only [GoType.under, wtF, lazyField, kA, kb]; decide +kernel
theorem wt4 : wt T4 v4 = true := by
  unfold wt; simp only [GoType.under, wtF, lazyField, kA, kb, kC]; decide +kernel
theorem wt4' : wt T4 v4' = true := by
  unfold wt; simp only [GoType.under, wtF, lazyField, kA, kb, kC]; decide +kernel
theorem wtX : wt (.struct [fX]) (.struct [.bool true]) = true := by
  unfold wt; simp only [GoType.under, wtF, lazyField, kX]; decide +kernel
theorem wt5 : wt T5 v5 = true := by
  have hD : wt fD.typ (GoVal.struct [GoVal.bool true]).ptr = true := wtX
  unfold wt; simp only [GoType.under, wtF, lazyField, kA, kb, kC, kD, hD]
  decide +kernel

/-- stage 4, an `omitempty` INTERFACE field: `struct{A int; E interface{} "n,omitempty"}` with
`E = (*[]string)(&[]string{})` (empty behind the interface and the pointer: dropped) and
`E = []string{"y"}` (kept) -/
abbrev fE : Field := .mk "E" .iface "n,omitempty" false
abbrev T4i : GoType := .struct [fA, fE]
abbrev v4i : GoVal := .struct [.int 5, .iface (.ptr (.slice .string)) (.ptr (.slice []))]
abbrev r4i : RVal := .obj [(false, [([97], .int 5)])]
abbrev v4i' : GoVal := .struct [.int 5, .iface (.slice .string) (.slice [.str [121]])]
abbrev r4i' : RVal := .obj [(false, [([97], .int 5)]), (false, [([110], .arr [.str [121]])])]

theorem kE : fieldKind fE = .omitEmpty [110] := by
  rw [fieldKind_omitempty _ _ _ (by decide +kernel)]; decide +kernel

theorem stage4i : stageT 4 [] T4i = true := by
  simp only [stageT, stageFs, stageF, stageKind, kA, kE]
  decide +kernel

theorem tok4i : Rules.typeOk true T4i = .ok () := by
  unfold Rules.typeOk
  rw [typeOkF_unnamed 999 true [] (sn := []) (stage_good 4 _ _ stage4i) rfl]
  simp only [forM_cons', forM_nil', fieldOkF_eq, kA, kE]
  rfl

theorem wt4i : wt T4i v4i = true := by
  unfold wt; simp only [GoType.under, wtF, lazyField, kA, kE]; decide +kernel
theorem wt4i' : wt T4i v4i' = true := by
  unfold wt; simp only [GoType.under, wtF, lazyField, kA, kE]; decide +kernel

theorem spec4i : Rules.foldR T4i v4i = .ok r4i := by
  unfold Rules.foldR
  rw [tok4i]
  simp only []
  rw [foldF_struct]
  simp only [List.zip_cons_cons, List.zip_nil_right, mapM_cons, mapM_nil, fieldF_eq, kA, kE]
  rfl

theorem spec4i' : Rules.foldR T4i v4i' = .ok r4i' := by
  unfold Rules.foldR
  rw [tok4i]
  simp only []
  rw [foldF_struct]
  simp only [List.zip_cons_cons, List.zip_nil_right, mapM_cons, mapM_nil, fieldF_eq, kA, kE]
  rfl

end SF.FoldProofs.Examples
