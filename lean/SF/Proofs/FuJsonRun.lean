/-
  C11, JSON path, the COMPOSITION at mirror level for the FLOAT-FREE scalars: Fold's one event →
  JSON encoder mirror → bytes → JSON parser mirror (one `Write`, end of input) → events, one token
  each → Unfold mirror on a fresh zero target (the "json" branch of `SF.Ops.Fu.model`).
-/
import SF.Proofs.FuCborRun
import SF.Proofs.FuJsonCodec
namespace SF.FuJson
open SF SF.Gotype SF.Gotype.Fold SF.FoldProofs SF.FuId
open SF.FuCbor (scEv scTree evToUEv_scEv feed_singles)
open SF.Json.Grammar
open SF.Json.Enc (plain toJ intLit strRaw sanitize)
open SF.Unf (Sc UEv PK Ctx newUnfolder setTarget typeFuel)
open SF.Ops.Unf (evToUEv)
open SF.Ops.Fu (feed agreeF)

/-- a scalar call after the JSON leg: an integer arrives as `OnInt64`, above MaxInt64 as `OnUint64`
(`Parser.reportNumber`); a string arrives sanitised (each byte outside a well-formed UTF-8 sequence
↦ U+FFFD — the encoder's `invalidCharSym`) -/
def jsonSc : Sc → Sc
  | .num _ v => .num (jk v) v
  | .str s => .str (sanitize s)
  | s => s

def isFloatP : Prim → Bool
  | .f32 | .f64 => true
  | _ => false

/-- what the target holds after the JSON leg -/
def trPrimJ : Prim → GoVal → Unf.GoVal
  | .string, x => .str (sanitize (getS x))
  | p, x => trPrim p x

theorem scTree_events (s : Sc) : (scTree s).events = [scEv s] := by cases s <;> rfl

theorem plain_top (p : Prim) (x : GoVal) (h : hasPrim p x = true) (hf : isFloatP p = false) :
    plain (scTree (scOfTop p x)) = true := by
  cases p with
  | num k =>
    cases x <;> simp [hasPrim] at h
    rename_i v
    show (if k == .int then NumKind.i64 else k).inRange v = true
    split
    · rename_i hc; simp at hc; rw [hc] at h; exact h
    · exact h
  | f32 => cases hf
  | f64 => cases hf
  | _ => cases x <;> simp [hasPrim] at h <;> rfl

/-- THE PARSER'S REPORT for the text the encoder writes for a float-free scalar -/
theorem toJ_events (o : SF.Json.Enc.Enc) (s : Sc) (hs : plain (scTree s) = true) :
    (toJ o (scTree s)).events = [scEv (jsonSc s)] := by
  cases s with
  | num k v =>
    have hb := SF.FuCbor.kind_bounds k v hs
    simp only [scTree, toJ, J.events, J.tree, jsonSc, scEv]
    exact numTree_events _ _ (numEv_intLit_jk v hb.1 hb.2)
  | str b =>
    simp only [scTree, toJ, J.events, J.tree, jsonSc, scEv, (SF.Json.Enc.strRaw_spec o.escapeHTML b).2]
    rfl
  | bool b => cases b <;> rfl
  | nil => rfl
  | f32 _ => cases hs
  | f64 _ => cases hs

theorem conv_json (p : Prim) (x : GoVal) (h : hasPrim p x = true) (hf : isFloatP p = false) :
    (pkOf p).conv (jsonSc (scOfTop p x)) = some (trPrimJ p x) := by
  cases p with
  | num k =>
    have hpl := plain_top (.num k) x h hf
    have hc := conv_top (.num k) x h
    cases x <;> simp [hasPrim] at h
    rename_i v
    have hb := SF.FuCbor.kind_bounds _ v hpl
    have e1 : Unf.wrapTo (jk v) v = v := Unf.wrapTo_inRange _ _ (jk_inRange v hb.1 hb.2)
    have e2 : Unf.wrapTo (if k == .int then NumKind.i64 else k) v = v := Unf.wrapTo_inRange _ _ hpl
    simp only [scOfTop, getI, jsonSc, pkOf, PK.conv, e1, e2, trPrimJ] at hc ⊢
    exact hc
  | f32 => cases hf
  | f64 => cases hf
  | _ => cases x <;> simp [hasPrim] at h <;> rfl

/-- STAGE 1 at mirror level: every float-free scalar kind -/
theorem scalar_json_run (o : FoldOpts) (hfail : o.failAt = none) (e : SF.Json.Enc.Enc) (hw : e.w = {})
    (ha : e.inArray.current = false) (p : Prim) (v : GoVal) (hv : hasPrim p v = true)
    (hf : isFloatP p = false) :
    ∃ c0 s pr, (impl o (primTy p) v).res = .ok ∧
      setTarget tbl (uPrimTy p) (Unf.zero tbl (uPrimTy p)) newUnfolder = .ok c0 ∧
      SF.Json.Enc.run e (impl o (primTy p) v).evs = (s, none, .ok) ∧
      s.w.out = (toJ e (scTree (scOfTop p v))).wire ∧ s.w.out ≠ [] ∧
      SF.Json.Parse.writeChunks {} [s.w.out] = (pr, none) ∧ IdleJ pr ∧
      SF.Json.Parse.events pr = [scEv (jsonSc (scOfTop p v))] ∧
      feed c0 ((SF.Json.Parse.events pr).map fun e => [evToUEv e]) = (doneCtx (trPrimJ p v), none) := by
  rw [SF.FuCbor.primEv_top_eq p v hv |> impl_scalar o hfail p v _]
  have hpl := plain_top p v hv hf
  obtain ⟨s, pr, h1, h2, h3, h4, h5⟩ := codec_leg e (scTree (scOfTop p v)) hpl hw ha
  rw [scTree_events] at h1
  rw [toJ_events e _ hpl] at h5
  have hne : s.w.out ≠ [] := by
    intro h0
    rw [h0] at h3
    have := empty_write_no_events
    rw [h3, h5] at this
    cases this
  refine ⟨_, s, pr, rfl, Unf.setTarget_prim tbl _ (pkOf p) _ newUnfolder (ofExact_uPrimTy p), h1, h2, hne, h3, h4, h5, ?_⟩
  rw [h5]
  have : ([scEv (jsonSc (scOfTop p v))].map fun e => [evToUEv e]) =
      [UEv.scalar (jsonSc (scOfTop p v))].map fun e => [e] := by simp [evToUEv_scEv]
  rw [this]
  apply feed_singles
  rw [Unf.run_single, typeFuel_succ]
  exact Unf.scalar_primCtx 255 tbl (pkOf p) _ _ newUnfolder _ (conv_json p v hv hf)

/-! ## the oracle's comparison on the path "json" -/

theorem agree_json_num (n : Nat) (k : NumKind) (x : GoVal) (h : hasPrim (.num k) x = true) :
    agreeF "json" (n + 1) (primTy (.num k)) x (back (trPrimJ (.num k) x)) = true := by
  cases x <;> simp [hasPrim] at h
  simp [agreeF, primTy, GoType.under, trPrimJ, trPrim, back, getI]

theorem agree_json_bool (n : Nat) (x : GoVal) (h : hasPrim .bool x = true) :
    agreeF "json" (n + 1) (primTy .bool) x (back (trPrimJ .bool x)) = true := by
  cases x <;> simp [hasPrim] at h
  simp [agreeF, primTy, GoType.under, trPrimJ, trPrim, back, getB]

/-! ## strings: the oracle's `fixUtf8` (Go's string → valid UTF-8) is `sanitize` -/

theorem fixUtf8_sanitize : ∀ (fuel : Nat) (s : Bytes), s.length < fuel →
    SF.Ops.fixUtf8 fuel s = SF.Json.Enc.sanitizeAux 0 s
  | 0, _, h => absurd h (Nat.not_lt_zero _)
  | fuel + 1, [], _ => by simp [SF.Ops.fixUtf8, SF.Json.Enc.sanitizeAux]
  | fuel + 1, b :: tl, h => by
    have hl : tl.length < fuel := by simp at h; omega
    rw [SF.Ops.fixUtf8]
    · by_cases hb : b.toNat < 0x80
      · have hlt : b < SF.Json.Utf8.runeSelf := (SF.Json.Enc.lt_runeSelf b).mpr hb
        have hlt' : b < 0x80 := hlt
        have hd : SF.Json.Utf8.decodeRune (b :: tl) = (b.toNat, 1) := by
          simp only [SF.Json.Utf8.decodeRune, hlt, if_true]
        simp only [hd, Nat.le_refl, if_true, List.headD_cons, hlt', List.drop_succ_cons, List.drop_zero,
          SF.Json.Enc.sanitizeAux, hb, List.singleton_append]
        rw [fixUtf8_sanitize fuel tl hl]
      · have hge : 0x80 ≤ b.toNat := by omega
        have hnlt : ¬ (b < (0x80 : UInt8)) := by
          intro hh; exact hb ((SF.Json.Enc.lt_runeSelf b).mp hh)
        rw [SF.Json.Utf8.decodeRune_mb b tl hge]
        cases hm : SF.Json.Utf8.mbDecode (b :: tl) with
        | none =>
          simp only [Option.getD_none, Nat.le_refl, if_true, List.headD_cons, hnlt, if_false, List.drop_succ_cons,
            List.drop_zero, SF.Json.Enc.sanitizeAux, hb, hm]
          rw [fixUtf8_sanitize fuel tl hl]
          rfl
        | some cn =>
          obtain ⟨c, n⟩ := cn
          obtain ⟨h2, _, hnl, _⟩ := SF.Json.Utf8.mbDecode_some hm
          have hn1 : ¬ n ≤ 1 := by omega
          obtain ⟨m, rfl⟩ : ∃ m, n = m + 1 := ⟨n - 1, by omega⟩
          simp only [Option.getD_some, hn1, if_false, List.take_succ_cons, List.drop_succ_cons,
            SF.Json.Enc.sanitizeAux, hb, hm, Nat.add_sub_cancel, List.cons_append]
          rw [SF.Json.Enc.sanitizeAux_skip m tl, fixUtf8_sanitize fuel (tl.drop m) (by simp; omega)]
    · simp

theorem fixU_sanitize (s : Bytes) : SF.Ops.Fu.fixU s = sanitize s :=
  fixUtf8_sanitize _ s (Nat.lt_succ_self _)

theorem agree_json_string (n : Nat) (x : GoVal) (h : hasPrim .string x = true) :
    agreeF "json" (n + 1) (primTy .string) x (back (trPrimJ .string x)) = true := by
  cases x <;> simp [hasPrim] at h
  simp [agreeF, primTy, GoType.under, trPrimJ, back, getS, fixU_sanitize]

theorem agree_json (n : Nat) (p : Prim) (x : GoVal) (h : hasPrim p x = true) (hf : isFloatP p = false) :
    agreeF "json" (n + 1) (primTy p) x (back (trPrimJ p x)) = true := by
  cases p with
  | num k => exact agree_json_num n k x h
  | bool => exact agree_json_bool n x h
  | string => exact agree_json_string n x h
  | f32 => cases hf
  | f64 => cases hf

end SF.FuJson
