/-
  The two nested loops of the JSON parser (`feed` around `feedUntil`) as ONE loop: `run`
  iterates `execStep` until the input is used up or an error is reported.  (The `reported`
  flag only decides where `feedUntil` hands back to `feed`, which calls it again at once.)
  `runA` is `run` with enough fuel; `feedAll = runA` from every state satisfying `Inv`.
-/
import SF.Proofs.JsonLoop
set_option linter.unusedSimpArgs false
namespace SF.Json.ParseP
open SF SF.Json SF.Json.Parse SF.Json.Float

/-- iterate `execStep` -/
def run : Nat → P → Bytes → P × Option Err
  | 0, p, _ => (p, some .outOfFuel)
  | f + 1, p, b =>
    if b.isEmpty then (p, none)
    else if (execStep p b).2 || (execStep p b).1.err.isSome then ((execStep p b).1.p, (execStep p b).1.err)
    else run f (execStep p b).1.p (execStep p b).1.rest

/-- `run` with enough fuel -/
def runA (p : P) (b : Bytes) : P × Option Err := run (cost p b + 1) p b

/-- under the invariant the step either stops with an error or continues at lower cost -/
theorem step_cases (p : P) (b : Bytes) (hb : b ≠ []) (hinv : Inv p) :
    (((execStep p b).2 || (execStep p b).1.err.isSome) = true) ∨
    (((execStep p b).2 || (execStep p b).1.err.isSome) = false ∧ Inv (execStep p b).1.p ∧
      cost (execStep p b).1.p (execStep p b).1.rest < cost p b) := by
  by_cases hcs : p.currentState = .failedState
  · left; simp [(execStep_failed p b hcs).1]
  · obtain ⟨k1, _, _, k4, k5⟩ := execStep_ok p b hb hinv hcs
    cases he : (execStep p b).1.err with
    | some e => left; simp
    | none => right; exact ⟨by simp [k1], k4, k5 he⟩

/-- the amount of fuel does not matter once it exceeds the cost -/
theorem run_fuel (f g : Nat) (p : P) (b : Bytes) (hinv : Inv p) (hf : cost p b < f) (hg : cost p b < g) :
    run f p b = run g p b := by
  induction f generalizing g p b with
  | zero => omega
  | succ f ih =>
    cases g with
    | zero => omega
    | succ g =>
      simp only [run]
      by_cases hb : b = []
      · subst hb; simp
      · have hbe : b.isEmpty = false := by cases b <;> simp_all
        simp only [hbe, Bool.false_eq_true, if_false]
        rcases step_cases p b hb hinv with h | ⟨h, h2, h3⟩
        · simp only [h, if_true]
        · simp only [h, Bool.false_eq_true, if_false]
          exact ih g _ _ h2 (by omega) (by omega)

theorem run_eq_runA (f : Nat) (p : P) (b : Bytes) (hinv : Inv p) (hf : cost p b < f) :
    run f p b = runA p b :=
  run_fuel f _ p b hinv hf (Nat.lt_succ_self _)

theorem runA_nil (p : P) : runA p [] = (p, none) := by
  simp [runA, run]

/-- unfolding `runA` by one step -/
theorem runA_step (p : P) (b : Bytes) (hb : b ≠ []) (hinv : Inv p) :
    runA p b =
      if ((execStep p b).2 || (execStep p b).1.err.isSome) = true then
        ((execStep p b).1.p, (execStep p b).1.err)
      else runA (execStep p b).1.p (execStep p b).1.rest := by
  have hbe : b.isEmpty = false := by cases b <;> simp_all
  unfold runA
  simp only [run, hbe, Bool.false_eq_true, if_false]
  rcases step_cases p b hb hinv with h | ⟨h, h2, h3⟩
  · simp only [h, if_true]
  · simp only [h, Bool.false_eq_true, if_false]
    exact run_fuel _ _ _ _ h2 (by omega) (Nat.lt_succ_self _)

/-- the inner loop, then `run` on what is left, is `run` -/
theorem feedUntil_run (f : Nat) (p : P) (b : Bytes) (hinv : Inv p) (hf : cost p b < f) :
    runA p b =
      if (feedUntil f p b).err.isSome then ((feedUntil f p b).p, (feedUntil f p b).err)
      else runA (feedUntil f p b).p (feedUntil f p b).rest := by
  induction f generalizing p b with
  | zero => omega
  | succ f ih =>
    rw [feedUntil_succ]
    by_cases hb : b = []
    · subst hb; simp
    · have hbe : b.isEmpty = false := by cases b <;> simp_all
      simp only [hbe, Bool.false_eq_true, if_false]
      rw [runA_step p b hb hinv]
      rcases step_cases p b hb hinv with h | ⟨h, h2, h3⟩
      · simp only [h, if_true]
        simp only [Bool.or_eq_true] at h
        rcases h with h | h
        · have := execStep_failed p b (by
            by_cases hcs : p.currentState = .failedState
            · exact hcs
            · rw [(execStep_ok p b hb hinv hcs).1] at h; simp at h)
          simp only [h, if_true]
          have h4 : (execStep p b).1.err.isSome = true := by
            cases he : (execStep p b).1.err with
            | none => exact absurd he this.2.2.2.1
            | some e => rfl
          simp only [h4, if_true]
        · by_cases h5 : (execStep p b).2 = true
          · simp only [h5, if_true, h]
          · simp only [h5, Bool.false_eq_true, if_false, h, if_true]
      · simp only [h, Bool.false_eq_true, if_false]
        simp only [Bool.or_eq_false_iff] at h
        simp only [h.1, h.2, Bool.false_eq_true, if_false]
        split
        · simp only [h.2, Bool.false_eq_true, if_false]
        · exact ih _ _ h2 (by omega)

/-- `Parser.feed` is `run` -/
theorem feed_run (fuel : Nat) (p : P) (b : Bytes) (hinv : Inv p) (hf : cost p b < fuel) :
    feed fuel p b = runA p b := by
  induction fuel generalizing p b with
  | zero => omega
  | succ fuel ih =>
    rw [feed_succ]
    by_cases hb : b = []
    · subst hb; simp [runA_nil]
    · have hbe : b.isEmpty = false := by cases b <;> simp_all
      simp only [hbe, Bool.false_eq_true, if_false]
      rw [feedUntil_run (fuelFor b) p b hinv (cost_lt_fuelFor p b)]
      obtain ⟨k1, _, _, k4⟩ := feedUntil_spec (fuelFor b) p b hinv
      cases he : (feedUntil (fuelFor b) p b).err with
      | some e => simp
      | none =>
        simp only [Option.isSome_none, Bool.false_eq_true, if_false]
        have := (k4 he).2.2 hb
        exact ih _ _ k1 (by omega)

theorem feedAll_run (p : P) (b : Bytes) (hinv : Inv p) : feedAll p b = runA p b :=
  feed_run _ p b hinv (cost_lt_feedAll p b)

end SF.Json.ParseP
