/-
  Comparison side of property C12: a fuel-free relation `Rel want got` ("equal up to the
  order of the members of unordered segments and NaN payloads"), the exact fuel `rcost want`
  that `Rules.matchesF` needs to confirm it, and `Rel w g → rcost w ≤ n → matchesF n w g`.
-/
import SF.Gotype.Rules
import SF.Proofs.FoldList
namespace SF.FoldProofs
open SF SF.Gotype SF.Gotype.Rules

/-- the two floats denote the same number: same bits, or both NaN -/
def same32 (a b : UInt32) : Prop := a = b ∨ (Rules.isNaN32 a = true ∧ Rules.isNaN32 b = true)
def same64 (a b : UInt64) : Prop := a = b ∨ (Rules.isNaN64 a = true ∧ Rules.isNaN64 b = true)

def keysOf {α : Type} (ms : List (Bytes × α)) : List Bytes := ms.map (·.1)

mutual
/-- `Rel want got`: the specification of `Rules.matchesF`, without fuel -/
def Rel : RVal → Val → Prop
  | .null, g => g = .null
  | .bool b, g => g = .bool b
  | .int i, g => g = .int i
  | .f32 a, g => ∃ b, g = .f32 b ∧ same32 a b
  | .f64 a, g => ∃ b, g = .f64 b ∧ same64 a b
  | .str s, g => g = .str s
  | .arr xs, g => ∃ ys, g = .arr ys ∧ RelList xs ys
  | .obj segs, g => ∃ ms, g = .obj ms ∧ RelSegs segs ms
def RelList : List RVal → List Val → Prop
  | [], ys => ys = []
  | x :: xs, ys => ∃ y ys', ys = y :: ys' ∧ Rel x y ∧ RelList xs ys'
/-- the members `ms` are the concatenation of one block per segment; the block of an
unordered segment (whose keys are distinct) is a permutation of the wanted members -/
def RelSegs : List Seg → List (Bytes × Val) → Prop
  | [], ms => ms = []
  | (u, mems) :: rest, ms =>
    ∃ m1 m1' m2, ms = m1 ++ m2 ∧ RelMems mems m1' ∧
      (if u then m1.Perm m1' ∧ (keysOf mems).Nodup else m1 = m1') ∧ RelSegs rest m2
def RelMems : List (Bytes × RVal) → List (Bytes × Val) → Prop
  | [], ms => ms = []
  | (k, w) :: rest, ms => ∃ g ms', ms = (k, g) :: ms' ∧ Rel w g ∧ RelMems rest ms'
end

mutual
/-- fuel `Rules.matchesF` needs on a wanted value -/
def rcost : RVal → Nat
  | .arr xs => rcostList xs + 1
  | .obj segs => rcostSegs segs + 1
  | _ => 1
def rcostList : List RVal → Nat
  | [] => 0
  | x :: xs => max (rcost x) (rcostList xs)
def rcostSegs : List Seg → Nat
  | [] => 1
  | (u, mems) :: rest => max (rcostMems mems + (if u then mems.length + 1 else 0)) (rcostSegs rest) + 1
def rcostMems : List (Bytes × RVal) → Nat
  | [] => 0
  | (_, w) :: rest => max (rcost w) (rcostMems rest)
end

/-! ## list lemmas behind `matchSegsF` / `bagF` -/

theorem takeFirst_split {α : Type} (p : α → Bool) (pre : List α) (a : α) (post : List α)
    (hpre : ∀ x ∈ pre, p x = false) (ha : p a = true) :
    takeFirst p (pre ++ a :: post) = some (pre ++ post) := by
  induction pre with
  | nil => simp [takeFirst, ha]
  | cons x pre ih =>
    have hx : p x = false := hpre x (by simp)
    simp only [List.cons_append, takeFirst, hx, Bool.false_eq_true, if_false]
    rw [ih (fun y hy => hpre y (by simp [hy]))]
    rfl

/-- one wanted member against one observed member -/
def MemOK (a : Bytes × RVal) (b : Bytes × Val) : Prop :=
  a.1 = b.1 ∧ ∀ n, rcost a.2 ≤ n → matchesF n a.2 b.2 = true

theorem rcost_le_mems {a : Bytes × RVal} {mems : List (Bytes × RVal)} (h : a ∈ mems) :
    rcost a.2 ≤ rcostMems mems := by
  induction mems with
  | nil => cases h
  | cons x l ih =>
    obtain ⟨k, w⟩ := x
    simp only [rcostMems]
    rcases List.mem_cons.mp h with rfl | h'
    · exact Nat.le_max_left _ _
    · exact Nat.le_trans (ih h') (Nat.le_max_right _ _)

theorem rcostMems_erase_le (pre : List (Bytes × RVal)) (a : Bytes × RVal) (post : List (Bytes × RVal)) :
    rcostMems (pre ++ post) ≤ rcostMems (pre ++ a :: post) := by
  induction pre with
  | nil =>
    obtain ⟨k, w⟩ := a
    simp only [List.nil_append, rcostMems]
    exact Nat.le_max_right _ _
  | cons y pre ih =>
    obtain ⟨ky, wy⟩ := y
    simp only [List.cons_append, rcostMems]
    omega

theorem ordered_ok (n : Nat) {mems : List (Bytes × RVal)} {mine : List (Bytes × Val)}
    (h : All2 MemOK mems mine) (hn : rcostMems mems ≤ n) :
    ((mems.zip mine).all fun ((k, w), (l, g)) => k == l && matchesF n w g) = true := by
  induction h with
  | nil => rfl
  | @cons a b l₁ l₂ h1 _ ih =>
    obtain ⟨k, w⟩ := a
    obtain ⟨l, g⟩ := b
    simp only [rcostMems] at hn
    simp only [List.zip_cons_cons, List.all_cons, Bool.and_eq_true, beq_iff_eq]
    refine ⟨⟨h1.1, h1.2 n (by simp only []; omega)⟩, ih (by omega)⟩

theorem bag_ok : ∀ (got : List (Bytes × Val)) (want : List (Bytes × RVal)) (got' : List (Bytes × Val))
    (fuel : Nat), All2 MemOK want got' → got.Perm got' → (keysOf want).Nodup →
    rcostMems want + want.length + 1 ≤ fuel → bagF fuel want got = true := by
  intro got
  induction got with
  | nil =>
    intro want got' fuel h hp _ hf
    have : got' = [] := by simpa using hp.symm.eq_nil
    subst this
    cases h
    cases fuel with
    | zero => omega
    | succ f => simp [bagF]
  | cons x gs ih =>
    intro want got' fuel h hp hnd hf
    obtain ⟨l, g⟩ := x
    have hmem : (l, g) ∈ got' := hp.subset (by simp)
    obtain ⟨pre, a, post, pre', post', e1, e2, hpre, ha, hpost⟩ := h.split_right hmem
    obtain ⟨k, w⟩ := a
    have hk : k = l := ha.1
    subst hk
    cases fuel with
    | zero => omega
    | succ f =>
      have hlen : want.length = pre.length + post.length + 1 := by simp [e1]; omega
      have hw : rcost w ≤ rcostMems want := rcost_le_mems (a := (k, w)) (by simp [e1])
      have hwm : matchesF f w g = true := ha.2 f (by simp only []; omega)
      have hnd' : (keysOf pre ++ k :: keysOf post).Nodup := by
        simpa [keysOf, e1] using hnd
      have hpre_ne : ∀ y ∈ pre, (fun (p : Bytes × RVal) => p.1 == k && matchesF f p.2 g) y = false := by
        intro y hy
        have : y.1 ≠ k := by
          intro e
          have h1 := List.nodup_append.mp hnd'
          exact h1.2.2 y.1 (by simp [keysOf]; exact ⟨y.2, by simpa using hy⟩) k (by simp) e
        simp [this]
      have htf : takeFirst (fun (p : Bytes × RVal) => p.1 == k && matchesF f p.2 g) want = some (pre ++ post) := by
        rw [e1]
        exact takeFirst_split _ pre (k, w) post hpre_ne (by simp [hwm])
      have htf' : takeFirst (fun (x : Bytes × RVal) =>
          match x with | (k', w') => k' == k && matchesF f w' g) want = some (pre ++ post) := htf
      simp only [bagF, htf']
      apply ih (pre ++ post) (pre' ++ post') f (hpre.append hpost)
      · have : ((k, g) :: gs).Perm ((k, g) :: (pre' ++ post')) := by
          rw [e2] at hp
          exact hp.trans List.perm_middle
        exact this.cons_inv
      · have h1 := List.nodup_append.mp hnd'
        have h2 := List.nodup_cons.mp h1.2.1
        simp only [keysOf, List.map_append]
        refine List.nodup_append.mpr ⟨h1.1, h2.2, ?_⟩
        intro a ha b hb
        exact h1.2.2 a ha b (by simp [keysOf] at hb ⊢; exact Or.inr hb)
      · have hc : rcostMems (pre ++ post) ≤ rcostMems want := by
          rw [e1]; exact rcostMems_erase_le pre (k, w) post
        simp only [List.length_append]
        omega

/-! ## `Rel` is confirmed by `matchesF` with fuel `rcost` -/

mutual
theorem rel_matches : ∀ (w : RVal) (g : Val), Rel w g → ∀ n, rcost w ≤ n → matchesF n w g = true
  | .null, g, h, n, hn => by
    simp only [Rel] at h; subst h
    cases n with
    | zero => simp [rcost] at hn
    | succ n => simp [matchesF]
  | .bool b, g, h, n, hn => by
    simp only [Rel] at h; subst h
    cases n with
    | zero => simp [rcost] at hn
    | succ n => simp [matchesF]
  | .int i, g, h, n, hn => by
    simp only [Rel] at h; subst h
    cases n with
    | zero => simp [rcost] at hn
    | succ n => simp [matchesF]
  | .str s, g, h, n, hn => by
    simp only [Rel] at h; subst h
    cases n with
    | zero => simp [rcost] at hn
    | succ n => simp [matchesF]
  | .f32 a, g, h, n, hn => by
    simp only [Rel] at h
    obtain ⟨b, rfl, hs⟩ := h
    cases n with
    | zero => simp [rcost] at hn
    | succ n =>
      simp only [matchesF, Bool.or_eq_true, beq_iff_eq, Bool.and_eq_true]
      exact hs
  | .f64 a, g, h, n, hn => by
    simp only [Rel] at h
    obtain ⟨b, rfl, hs⟩ := h
    cases n with
    | zero => simp [rcost] at hn
    | succ n =>
      simp only [matchesF, Bool.or_eq_true, beq_iff_eq, Bool.and_eq_true]
      exact hs
  | .arr xs, g, h, n, hn => by
    simp only [Rel] at h
    obtain ⟨ys, rfl, hl⟩ := h
    cases n with
    | zero => simp [rcost] at hn
    | succ n =>
      have := rel_matches_list xs ys hl n (by simp only [rcost] at hn; omega)
      simp only [matchesF, Bool.and_eq_true, beq_iff_eq]
      exact this
  | .obj segs, g, h, n, hn => by
    simp only [Rel] at h
    obtain ⟨ms, rfl, hl⟩ := h
    cases n with
    | zero => simp [rcost] at hn
    | succ n =>
      have := rel_matches_segs segs ms hl n (by simp only [rcost] at hn; omega)
      simp only [matchesF]
      exact this
theorem rel_matches_list : ∀ (xs : List RVal) (ys : List Val), RelList xs ys → ∀ n, rcostList xs ≤ n →
    xs.length = ys.length ∧ ((xs.zip ys).all fun (x, y) => matchesF n x y) = true
  | [], ys, h, n, hn => by
    simp only [RelList] at h; subst h; simp
  | x :: xs, ys, h, n, hn => by
    simp only [RelList] at h
    obtain ⟨y, ys', rfl, hx, hr⟩ := h
    simp only [rcostList] at hn
    have h1 := rel_matches x y hx n (by omega)
    have h2 := rel_matches_list xs ys' hr n (by omega)
    simp only [List.length_cons, List.zip_cons_cons, List.all_cons, Bool.and_eq_true]
    exact ⟨by omega, h1, h2.2⟩
theorem rel_matches_segs : ∀ (segs : List Seg) (ms : List (Bytes × Val)), RelSegs segs ms →
    ∀ n, rcostSegs segs ≤ n → matchSegsF n segs ms = true
  | [], ms, h, n, hn => by
    simp only [RelSegs] at h; subst h
    cases n with
    | zero => simp [rcostSegs] at hn
    | succ n => simp [matchSegsF]
  | (u, mems) :: rest, ms, h, n, hn => by
    simp only [RelSegs] at h
    obtain ⟨m1, m1', m2, rfl, hm, hu, hr⟩ := h
    cases n with
    | zero => simp [rcostSegs] at hn
    | succ n =>
      simp only [rcostSegs] at hn
      have hall := rel_matches_mems mems m1' hm
      have hrest := rel_matches_segs rest m2 hr n (by omega)
      have hlen' : mems.length = m1'.length := hall.length_eq
      have hlen : m1.length = mems.length := by
        cases u with
        | true => simp only [if_true] at hu; rw [hu.1.length_eq, hlen']
        | false => simp only [Bool.false_eq_true, if_false] at hu; rw [hu, hlen']
      have htake : (m1 ++ m2).take mems.length = m1 := by
        rw [← hlen]; simp
      have hdrop : (m1 ++ m2).drop mems.length = m2 := by
        rw [← hlen]; simp
      have hnl : ¬ ((m1 ++ m2).length < mems.length) := by
        simp only [List.length_append]; omega
      simp only [matchSegsF, hnl, if_false, htake, hdrop, hrest, Bool.and_true]
      cases u with
      | true =>
        simp only [if_true] at hu hn ⊢
        exact bag_ok m1 mems m1' n hall hu.1 hu.2 (by omega)
      | false =>
        simp only [Bool.false_eq_true, if_false] at hu hn ⊢
        subst hu
        exact ordered_ok n hall (by omega)
theorem rel_matches_mems : ∀ (mems : List (Bytes × RVal)) (ms : List (Bytes × Val)), RelMems mems ms →
    All2 MemOK mems ms
  | [], ms, h => by
    simp only [RelMems] at h; subst h; exact .nil
  | (k, w) :: rest, ms, h => by
    simp only [RelMems] at h
    obtain ⟨g, ms', rfl, hw, hr⟩ := h
    exact .cons ⟨rfl, fun n hn => rel_matches w g hw n hn⟩ (rel_matches_mems rest ms' hr)
end

/-- `Rules.agrees` confirms `Rel` whenever its fuel covers the cost of the wanted value -/
theorem agrees_of_Rel {w : RVal} {g : Val} (h : Rel w g) (hc : rcost w ≤ 100000) :
    Rules.agrees w g = true := rel_matches w g h _ hc

/-! ## building `Rel` -/

theorem RelList_of_All2 {xs : List RVal} {ys : List Val} (h : All2 Rel xs ys) : RelList xs ys := by
  induction h with
  | nil => simp [RelList]
  | cons h1 _ ih => simp only [RelList]; exact ⟨_, _, rfl, h1, ih⟩

theorem RelSegs_nil : RelSegs [] [] := by simp [RelSegs]

theorem RelSegs_append {s1 s2 : List Seg} {m1 m2 : List (Bytes × Val)}
    (h1 : RelSegs s1 m1) (h2 : RelSegs s2 m2) : RelSegs (s1 ++ s2) (m1 ++ m2) := by
  induction s1 generalizing m1 with
  | nil => simp only [RelSegs] at h1; subst h1; exact h2
  | cons seg s1 ih =>
    obtain ⟨u, mems⟩ := seg
    simp only [RelSegs, List.cons_append] at h1 ⊢
    obtain ⟨a, a', b, rfl, hm, hu, hr⟩ := h1
    exact ⟨a, a', b ++ m2, by simp, hm, hu, ih hr⟩

theorem RelSegs_flatten {ss : List (List Seg)} {mss : List (List (Bytes × Val))}
    (h : All2 RelSegs ss mss) : RelSegs ss.flatten mss.flatten := by
  induction h with
  | nil => exact RelSegs_nil
  | cons h1 _ ih => simp only [List.flatten_cons]; exact RelSegs_append h1 ih

/-- one ordered member -/
theorem RelSegs_member {k : Bytes} {w : RVal} {g : Val} (h : Rel w g) :
    RelSegs [(false, [(k, w)])] [(k, g)] := by
  simp only [RelSegs, RelMems]
  exact ⟨[(k, g)], [(k, g)], [], rfl, ⟨g, [], rfl, h, rfl⟩, by simp, rfl⟩

theorem RelMems_of_All2 {mems : List (Bytes × RVal)} {ms : List (Bytes × Val)}
    (h : All2 (fun a b => a.1 = b.1 ∧ Rel a.2 b.2) mems ms) : RelMems mems ms := by
  induction h with
  | nil => simp [RelMems]
  | @cons a b _ _ h1 _ ih =>
    obtain ⟨k, w⟩ := a
    obtain ⟨l, g⟩ := b
    simp only [RelMems]
    obtain ⟨rfl, hw⟩ := h1
    exact ⟨g, _, rfl, hw, ih⟩

/-- one unordered segment (a Go map) -/
theorem RelSegs_bag {mems : List (Bytes × RVal)} {got got' : List (Bytes × Val)}
    (hm : RelMems mems got') (hp : got.Perm got') (hnd : (keysOf mems).Nodup) :
    RelSegs [(true, mems)] got := by
  simp only [RelSegs]
  exact ⟨got, got', [], by simp, hm, by simp [hp, hnd], rfl⟩

end SF.FoldProofs
