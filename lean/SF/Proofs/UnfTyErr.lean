/-
  Typed targets, part 14: the refusals — which unfolder state answers which event with an error
  (and nothing else: the context is unchanged).
-/
import SF.Proofs.UnfTyProc
namespace SF.Unf
open SF

/-- states that refuse every scalar -/
def U.noScalar : U → Prop
  | .noTarget | .arrStart _ | .mapStart _ | .mapKey _ | .reflSliceStart | .reflMapStart | .reflMapOnKey _ _ => True
  | _ => False

theorem scalar_errU (f : Nat) (s : Sc) (c : Ctx) (u : U) (hcur : c.unfolder.current = u) (hu : u.noScalar) :
    ∃ e, onScalar (f + 1) s c = .err e c := by
  cases u <;> first | exact hu.elim | exact ⟨_, by simp [onScalar, bind_def, currentU, hcur, throwErr] <;> rfl⟩

/-- states that refuse the start of an array -/
def U.noArrStart : U → Prop
  | .noTarget | .mapStart _ | .mapKey _ | .reflMapStart | .reflMapOnKey _ _ => True
  | .prim k | .arr k | .mapVal k => k ≠ .ifc
  | _ => False

theorem arrStart_errU (f : Nat) (l : Int) (bt : Nat) (c : Ctx) (u : U) (hcur : c.unfolder.current = u)
    (hu : u.noArrStart) : ∃ e, onArrayStart (f + 1) l bt c = .err e c := by
  cases u with
  | prim k => cases k <;> first | exact absurd rfl hu | exact ⟨_, by simp [onArrayStart, bind_def, currentU, hcur, throwErr] <;> rfl⟩
  | arr k => cases k <;> first | exact absurd rfl hu | exact ⟨_, by simp [onArrayStart, bind_def, currentU, hcur, throwErr] <;> rfl⟩
  | mapVal k =>
    cases k <;> first | exact absurd rfl hu | exact ⟨_, by simp [onArrayStart, bind_def, currentU, hcur, throwErr] <;> rfl⟩
  | _ => first | exact hu.elim | exact ⟨_, by simp [onArrayStart, bind_def, currentU, hcur, throwErr] <;> rfl⟩

/-- states that refuse the start of an object -/
def U.noObjStart : U → Prop
  | .noTarget | .arrStart _ | .mapKey _ | .reflSliceStart | .reflMapOnKey _ _ => True
  | .prim k | .arr k | .mapVal k => k ≠ .ifc
  | _ => False

theorem objStart_errU (f : Nat) (l : Int) (bt : Nat) (c : Ctx) (u : U) (hcur : c.unfolder.current = u)
    (hu : u.noObjStart) : ∃ e, onObjectStart (f + 1) l bt c = .err e c := by
  cases u with
  | prim k => cases k <;> first | exact absurd rfl hu | exact ⟨_, by simp [onObjectStart, bind_def, currentU, hcur, throwErr] <;> rfl⟩
  | arr k => cases k <;> first | exact absurd rfl hu | exact ⟨_, by simp [onObjectStart, bind_def, currentU, hcur, throwErr] <;> rfl⟩
  | mapVal k =>
    cases k <;> first | exact absurd rfl hu | exact ⟨_, by simp [onObjectStart, bind_def, currentU, hcur, throwErr] <;> rfl⟩
  | _ => first | exact hu.elim | exact ⟨_, by simp [onObjectStart, bind_def, currentU, hcur, throwErr] <;> rfl⟩

/-- states that refuse the end of an array -/
def U.noArrEnd : U → Prop
  | .arr _ | .reflSlice _ _ | .ignoreArr => False
  | _ => True

theorem arrEnd_errU (c : Ctx) (u : U) (hcur : c.unfolder.current = u) (hu : u.noArrEnd) :
    ∃ e, ctxOnArrayFinished c = .err e c := by
  cases u <;> first | exact hu.elim |
    exact ⟨_, by simp [ctxOnArrayFinished, onArrayFinished, bind_def, getCtx, currentU, hcur, throwErr] <;> rfl⟩

/-- states that refuse the end of an object -/
def U.noObjEnd : U → Prop
  | .mapKey _ | .reflMapOnKey _ _ | .ignoreObj | .struct _ => False
  | _ => True

theorem objEnd_errU (c : Ctx) (u : U) (hcur : c.unfolder.current = u) (hu : u.noObjEnd) :
    ∃ e, ctxOnObjectFinished c = .err e c := by
  cases u <;> first | exact hu.elim |
    exact ⟨_, by simp [ctxOnObjectFinished, onObjectFinished, bind_def, getCtx, currentU, hcur, throwErr] <;> rfl⟩

/-- states that refuse a key -/
def U.noKey : U → Prop
  | .mapKey _ | .reflMapOnKey _ _ | .ignoreObj | .struct _ => False
  | _ => True

theorem key_errU (key : Bytes) (c : Ctx) (u : U) (hcur : c.unfolder.current = u) (hu : u.noKey) :
    ∃ e, onKey key c = .err e c := by
  cases u <;> first | exact hu.elim | exact ⟨_, by simp [onKey, bind_def, currentU, hcur, throwErr] <;> rfl⟩

end SF.Unf
