/-
  Typed targets, part 9: the reflection frames (`unfolderReflSlice`, `unfolderReflMap`,
  `unfolderReflPtr`) — their own events (no forwarding yet).
-/
import SF.Proofs.UnfTySub
namespace SF.Unf
open SF

variable {D : Nat} {base : S6} {fs : List Frame} {c : Ctx}

theorem Attach.mono {p : Path} {ρ ρ' : Sh} {a : Option Bool} {fs : List Frame} (h : Attach p ρ a fs)
    (hle : ρ'.le ρ) : Attach p ρ' a fs := by
  cases fs with
  | nil => trivial
  | cons G fs =>
    cases G <;> first | exact h | (simp only [Attach] at h ⊢; exact ⟨h.1, Sh.le_trans hle h.2⟩)

/-! ## `unfolderReflSliceStart` -/

theorem reflSliceStart_at (l : Int) (c : Ctx) (p : Path) (sl : GoVal) (sh : Sh) (u : Stk U) (x : U)
    (hptr : c.value.current = some p) (hsl : deref c p = some sl) (hs : (Sh.slice 0 sh).ok sl)
    (hu : c.unfolder = u.push x) :
    reflSliceStartOnArrayStart l c = .ok () { c with unfolder := u } ∨
    ∃ w, (Sh.slice 0 sh).ok w ∧ reflSliceStartOnArrayStart l c = .ok () { storeAt c p w with unfolder := u } := by
  unfold Sh.ok at hs
  rcases hs with ⟨et, hz, rfl, _⟩ | ⟨et, es, h, hz, rfl, hes, hh, _⟩
  · by_cases hl : 0 < (if l < 0 then 0 else l)
    · refine Or.inr ⟨.slice et (List.replicate (arrPreallocLen (if l < 0 then 0 else l)).toNat (zero c.env et)) [],
        ?_, ?_⟩
      · unfold Sh.ok
        refine Or.inr ⟨et, _, [], hz, rfl, ?_, (by intro _ h; cases h), Nat.zero_le _⟩
        intro y hy
        rw [List.eq_of_mem_replicate hy]
        exact hz c.env
      · simp [reflSliceStartOnArrayStart, bind_def, currentValue, hptr, load_def, hsl, hl, zeroM,
          store_at_ok c p _ _ hsl, popU, hu, pure_def]
    · refine Or.inl ?_
      simp [reflSliceStartOnArrayStart, bind_def, currentValue, hptr, load_def, hsl, hl, popU, hu, pure_def]
  · by_cases hl : (if l < 0 then 0 else l) < (es.length : Int)
    · refine Or.inr ⟨.slice et (es.take (if l < 0 then 0 else l).toNat) (es.drop (if l < 0 then 0 else l).toNat ++ h),
        ?_, ?_⟩
      · unfold Sh.ok
        refine Or.inr ⟨et, _, _, hz, rfl, fun y hy => hes y (List.mem_of_mem_take hy), ?_, Nat.zero_le _⟩
        intro y hy
        rcases List.mem_append.mp hy with hy | hy
        · exact hes y (List.mem_of_mem_drop hy)
        · exact hh y hy
      · simp [reflSliceStartOnArrayStart, bind_def, currentValue, hptr, load_def, hsl, hl, store_at_ok c p _ _ hsl,
          popU, hu, pure_def]
    · refine Or.inl ?_
      simp [reflSliceStartOnArrayStart, bind_def, currentValue, hptr, load_def, hsl, hl, popU, hu, pure_def]

/-- the array starts -/
theorem arrStart_rslS (e : GoType) (ru : RU) (p : Path) (f : Nat) (l : Int) (bt : Nat)
    (h : Inv D base (.rslS e ru p :: fs) c) :
    ∃ c', onArrayStart (f + 1) l bt c = .ok () c' ∧ Inv D base (.rsl e ru p 0 :: fs) c' := by
  obtain ⟨hu, hp, hv, hk, hi, hb⟩ := s6_eq _ _ h.stacks
  simp only [stacksOf, Frame.push] at hu hp hv hk hi hb
  obtain ⟨sl, hd, hok⟩ := h.top_deref
  have hrun : onArrayStart (f + 1) l bt c = reflSliceStartOnArrayStart l c := by
    simp [onArrayStart, bind_def, currentU, hu]
  rw [hrun]
  have hs6 : ∀ c1 : Ctx, c1.s6 = c.s6 →
      ({ c1 with unfolder := (stacksOf base fs).u.push (.reflSlice e ru) } : Ctx).s6 =
        stacksOf base (.rsl e ru p 0 :: fs) := by
    intro c1 h1
    obtain ⟨e1, e2, e3, e4, e5, e6⟩ := s6_eq _ _ h1
    simp only [Ctx.s6] at e1 e2 e3 e4 e5 e6
    exact s6_mk _ _ rfl (by simp [e2, hp, stacksOf, Frame.push]) (by simp [e3, hv, stacksOf, Frame.push])
      (by simp [e4, hk, stacksOf, Frame.push]) (by simp [e5, hi, stacksOf, Frame.push])
      (by simp [e6, hb, stacksOf, Frame.push])
  have hborn : Born D (.rsl e ru p 0) fs := ⟨h.wfs.1.1, h.wfs.1.2, Int.le_refl 0⟩
  rcases reflSliceStart_at l c p sl (shOf e) _ _ (by rw [hv]; rfl) hd hok hu with hr | ⟨w, hw, hr⟩
  · exact ⟨_, hr, h.replace (F' := .rsl e ru p 0) rfl (fun _ _ hv => hv) hborn (hs6 c rfl) rfl rfl rfl rfl⟩
  · exact ⟨_, hr, h.replace_store (F' := .rsl e ru p 0) c rfl w hw rfl hw hborn (hs6 _ (storeAt_s6 c p w))
      rfl rfl rfl rfl⟩

/-- the array is finished (before the parent is told) -/
theorem arrFin_rsl (e : GoType) (ru : RU) (p : Path) (i : Int) (h : Inv D base (.rsl e ru p i :: fs) c) :
    ∃ c', onArrayFinished c = .ok () c' ∧ Inv D base fs c' ∧
      c.unfolder.stack.length = c'.unfolder.stack.length + 1 := by
  obtain ⟨hu, hp, hv, hk, hi, hb⟩ := s6_eq _ _ h.stacks
  simp only [stacksOf, Frame.push] at hu hp hv hk hi hb
  have hrun : onArrayFinished c = .ok ()
      { c with unfolder := (stacksOf base fs).u, idx := (stacksOf base fs).i, value := (stacksOf base fs).v } := by
    simp [onArrayFinished, bind_def, currentU, hu, reflSliceCleanup, popU, popIdx, hi, popValue, hv, pure_def]
  refine ⟨_, hrun, h.pop (s6_mk _ _ rfl (by simp [hp]) rfl (by simp [hk]) rfl (by simp [hb])) rfl rfl rfl rfl, ?_⟩
  simp [hu, Stk.push]

/-! ## `unfolderReflMap` -/

/-- the object starts: the map is made non-nil -/
theorem objStart_rmS (e : GoType) (ru : RU) (p : Path) (f : Nat) (l : Int) (bt : Nat)
    (h : Inv D base (.rmS e ru p :: fs) c) :
    ∃ c', onObjectStart (f + 1) l bt c = .ok () c' ∧ Inv D base (.rmK e ru p :: fs) c' := by
  obtain ⟨hu, hp, hv, hk, hi, hb⟩ := s6_eq _ _ h.stacks
  simp only [stacksOf, Frame.push] at hu hp hv hk hi hb
  obtain ⟨m, hd, hok⟩ := h.top_deref
  have hd : deref c p = some m := hd
  have hm : isMapVal m := (map_ok m).mp hok
  have hs6 : ∀ c1 : Ctx, c1.s6 = c.s6 →
      ({ c1 with unfolder := (stacksOf base fs).u.push (.reflMapOnKey e ru) } : Ctx).s6 =
        stacksOf base (.rmK e ru p :: fs) := by
    intro c1 h1
    obtain ⟨e1, e2, e3, e4, e5, e6⟩ := s6_eq _ _ h1
    simp only [Ctx.s6] at e1 e2 e3 e4 e5 e6
    exact s6_mk _ _ rfl (by simp [e2, hp, stacksOf, Frame.push]) (by simp [e3, hv, stacksOf, Frame.push])
      (by simp [e4, hk, stacksOf, Frame.push]) (by simp [e5, hi, stacksOf, Frame.push])
      (by simp [e6, hb, stacksOf, Frame.push])
  have hborn : Born D (.rmK e ru p) fs :=
    ⟨h.wfs.1.1.mono (Or.inr (Or.inl ⟨rfl, rfl⟩)), h.wfs.1.2⟩
  cases m with
  | mapNil et =>
    have hrun : onObjectStart (f + 1) l bt c =
        .ok () { storeAt c p (.map et []) with unfolder := (stacksOf base fs).u.push (.reflMapOnKey e ru) } := by
      simp [onObjectStart, bind_def, currentU, hu, reflMapStartOnObjectStart, currentValue, hv, load_def, hd,
        store_at_ok c p _ _ hd, popU, pure_def]
    exact ⟨_, hrun, h.replace_store (F' := .rmK e ru p) c rfl (.map et []) ((map_ok _).mpr trivial) rfl
      ((mapNN_ok _).mpr trivial) hborn (hs6 _ (storeAt_s6 c p _)) rfl rfl rfl rfl⟩
  | map et ms =>
    have hrun : onObjectStart (f + 1) l bt c =
        .ok () { c with unfolder := (stacksOf base fs).u.push (.reflMapOnKey e ru) } := by
      simp [onObjectStart, bind_def, currentU, hu, reflMapStartOnObjectStart, currentValue, hv, load_def, hd,
        popU, pure_def]
    refine ⟨_, hrun, h.replace (F' := .rmK e ru p) rfl ?_ hborn (hs6 c rfl) rfl rfl rfl rfl⟩
    intro v hv' _
    have hd' : deref c p = some v := hv'
    rw [hd] at hd'
    injection hd' with hd'
    subst hd'
    exact (mapNN_ok _).mpr trivial
  | _ => exact absurd hm (by simp [isMapVal])

/-- a key -/
theorem key_rmK (e : GoType) (ru : RU) (p : Path) (key : Bytes) (h : Inv D base (.rmK e ru p :: fs) c) :
    ∃ c', onKey key c = .ok () c' ∧ Inv D base (.rmE e ru p key :: fs) c' := by
  obtain ⟨hu, hp, hv, hk, hi, hb⟩ := s6_eq _ _ h.stacks
  simp only [stacksOf, Frame.push] at hu hp hv hk hi hb
  have hrun : onKey key c = .ok ()
      { c with key := c.key.push key, unfolder := { c.unfolder with current := .reflMapOnElem e ru } } := by
    simp [onKey, bind_def, currentU, hu, pushKey, setCurrentU, modifyCtx]
  refine ⟨_, hrun, h.replace (F' := .rmE e ru p key) rfl (fun _ _ hv => hv) h.wfs.1 ?_ rfl rfl rfl rfl⟩
  exact s6_mk _ _ (by simp [hu, stacksOf, Frame.push, Stk.push]) (by simp [hp, stacksOf, Frame.push])
    (by simp [hv, stacksOf, Frame.push]) (by simp [hk, stacksOf, Frame.push]) (by simp [hi, stacksOf, Frame.push])
    (by simp [hb, stacksOf, Frame.push])

/-- the object is finished (before the parent is told) -/
theorem objFin_rmK (e : GoType) (ru : RU) (p : Path) (h : Inv D base (.rmK e ru p :: fs) c) :
    ∃ c', onObjectFinished c = .ok () c' ∧ Inv D base fs c' ∧
      c.unfolder.stack.length = c'.unfolder.stack.length + 1 := by
  obtain ⟨hu, hp, hv, hk, hi, hb⟩ := s6_eq _ _ h.stacks
  simp only [stacksOf, Frame.push] at hu hp hv hk hi hb
  have hrun : onObjectFinished c = .ok ()
      { c with unfolder := (stacksOf base fs).u, value := (stacksOf base fs).v } := by
    simp [onObjectFinished, bind_def, currentU, hu, popU, popValue, hv, pure_def]
  refine ⟨_, hrun, h.pop (s6_mk _ _ rfl (by simp [hp]) rfl (by simp [hk]) (by simp [hi]) (by simp [hb])) rfl rfl rfl rfl,
    ?_⟩
  simp [hu, Stk.push]

end SF.Unf
