/-
  C11, UBJSON path, STAGE 2b: Fold's ONE typed-map event for `map[string]T` (after the order oracle
  had its say) → how the UBJSON encoder writes it (empty: `{}`; `map[string]bool`: a counted object
  `{#n`; everything else a TYPED object `{$t#n (key payload)ⁿ` — for the unsigned kinds wider than a
  byte with the narrowest marker that holds ALL values) → what the parser reports → the Unfolder.
-/
import SF.Proofs.FuUbjSlice
set_option linter.unusedSimpArgs false
namespace SF.FuUbj
open SF SF.Gotype SF.Gotype.Fold SF.FoldProofs SF.FuId SF.FuCbor
open SF.Ubjson SF.Ubjson.Wire SF.Ubjson.Bridge SF.Ubjson.Syn
open SF.Ubjson.Enc (isLeaf leafTree leafItem toItem toMems numItem minM utOf utItem UT minUT maxUT elemType elemItem
  typedObj xItem xTree strItem)
open SF.Cbor.Enc (small smallMems)
open SF.Unf (Sc UEv PK putAll memberEvents Ctx newUnfolder setTarget typeFuel)
open SF.Ops.Unf (evToUEv)
open SF.Ops.Fu (feed)

/-! ## typed-map events: members, the marker found for all values -/

/-- the members of a typed-map event, as scalar calls -/
def objMems : XEv → List (Bytes × Sc)
  | .boolObj ms => ms.map fun m => (m.1, .bool m.2)
  | .strObj ms => ms.map fun m => (m.1, .str m.2)
  | .numObj k ms => ms.map fun m => (m.1, .num k m.2)
  | .f32Obj ms => ms.map fun m => (m.1, .f32 m.2)
  | .f64Obj ms => ms.map fun m => (m.1, .f64 m.2)
  | _ => []

/-- the integer of a scalar call (0 for the others) -/
def scInt : Sc → Int
  | .num _ v => v
  | _ => 0

/-- the marker found for all values of a numeric typed map -/
def objUT : XEv → UT
  | .numObj _ ms => minUT (ms.map (·.2))
  | _ => .i

/-- a member's value as the parser reports it from a typed object whose integers were written
under the marker `T` -/
def ubjScT (T : UT) : Sc → Sc
  | .num k v => .num (ubjElemKind k T) v
  | s => s

/-- the events the parser delivers for an object with the members `mems` -/
def objEvents (mems : List (Bytes × Sc)) : List Ev :=
  if mems.isEmpty then [.objStart (-1) BT.any, .objEnd]
  else .objStart mems.length BT.any :: memEvs mems ++ [.objEnd]

theorem evMems_map {α : Type} (item : α → UItem) (g : α → Sc) : ∀ ys : List (Bytes × α),
    (∀ y ∈ ys, (toSyn (item y.2)).events = [scEv (g y.2)]) →
    evMems (toSynMems (ys.map fun m => (minM m.1.length, m.1, item m.2))) = memEvs (ys.map fun m => (m.1, g m.2))
  | [], _ => rfl
  | y :: r, h => by
    simp only [List.map_cons, toSynMems, evMems, memEvs, h y List.mem_cons_self,
      evMems_map item g r (fun z hz => h z (List.mem_cons_of_mem _ hz)), List.cons_append, List.nil_append]

theorem typedObj_events {α : Type} (t : UInt8) (item : α → UItem) (g : α → Sc) (ys : List (Bytes × α))
    (h : ∀ y ∈ ys, (toSyn (item y.2)).events = [scEv (g y.2)]) :
    (toSyn (typedObj t (ys.map fun m => (minM m.1.length, m.1, item m.2)))).events =
      objEvents (ys.map fun m => (m.1, g m.2)) := by
  cases ys with
  | nil => rfl
  | cons y r =>
    have hev := evMems_map item g (y :: r) h
    have hlen : ((y :: r).map fun m : Bytes × α => (minM m.1.length, m.1, item m.2)).length = r.length + 1 := by simp
    generalize ((y :: r).map fun m : Bytes × α => (minM m.1.length, m.1, item m.2)) = L at hev hlen ⊢
    have hne : (L.length == 0) = false := by rw [hlen]; simp
    simp only [typedObj, hne, Bool.false_eq_true, if_false]
    rw [toSyn]
    simp only [Item.events, toSynMems_length, hev, hlen, objEvents]
    simp

theorem toMems_bools : ∀ ms : List (Bytes × Bool),
    evMems (toSynMems (toMems (ms.map fun m => (m.1, ETree.bool m.2)))) = memEvs (ms.map fun m => (m.1, Sc.bool m.2))
  | [] => rfl
  | (k, b) :: r => by
    simp only [List.map_cons, toMems, toSynMems, evMems, memEvs, toMems_bools r, toItem]
    cases b <;> rfl

theorem boolObj_events (ms : List (Bytes × Bool)) :
    (toSyn (xItem (.boolObj ms))).events = objEvents (ms.map fun m => (m.1, Sc.bool m.2)) := by
  cases ms with
  | nil => rfl
  | cons b r =>
    have hpos : ¬ (((b :: r).length : Int) ≤ 0) := by simp only [List.length_cons]; omega
    have hev := toMems_bools (b :: r)
    simp only [xItem, xTree, toItem, hpos, if_false, toSyn, Item.events, hev, toSynMems_length,
      Enc.toMems_length, List.length_map, objEvents]
    simp

/-- the members as the parser reports them -/
def ubjMems (x : XEv) : List (Bytes × Sc) := (objMems x).map fun m => (m.1, ubjScT (objUT x) m.2)

theorem objUT_ne_H (x : XEv) (hf : ∀ m ∈ objMems x, scFits m.2 = true) : objUT x ≠ .H := by
  cases x <;> try (intro h; cases h)
  rename_i k ms
  intro hH
  obtain ⟨v, hv, hbig⟩ := Enc.minUT_H _ hH
  obtain ⟨m, hm, rfl⟩ := List.mem_map.mp hv
  have := hf (m.1, .num k m.2) (List.mem_map.mpr ⟨m, hm, rfl⟩)
  simp only [scFits, decide_eq_true_eq] at this
  omega

theorem objUT_rank (x : XEv) (key : Bytes) (k : NumKind) (v : Int) (hm : (key, Sc.num k v) ∈ objMems x) :
    (utOf v.toNat).rank ≤ (objUT x).rank := by
  cases x <;> simp only [objMems, List.mem_map, Prod.mk.injEq, reduceCtorEq, and_false, exists_false,
    List.not_mem_nil] at hm
  rename_i k' ms
  obtain ⟨m, hm, _, hk⟩ := hm
  simp only [Sc.num.injEq] at hk
  rw [← hk.2]
  exact Enc.minUT_rank _ _ (List.mem_map.mpr ⟨m, hm, rfl⟩)

/-- THE PARSER'S REPORT for a typed-map event -/
theorem objX_events (x : XEv) (hx : isObjX x = true) (hs : ∀ m ∈ objMems x, scSmall m.2 = true)
    (hf : ∀ m ∈ objMems x, scFits m.2 = true) :
    (toSyn (xItem x)).events = objEvents (ubjMems x) := by
  have hT := objUT_ne_H x hf
  cases x <;> simp [isObjX] at hx
  case boolObj ms =>
    have := boolObj_events ms
    simpa [ubjMems, objMems, ubjScT, List.map_map, Function.comp_def] using this
  case strObj ms =>
    have := typedObj_events stringMarker strItem Sc.str ms (fun _ _ => rfl)
    simpa [xItem, ubjMems, objMems, ubjScT, List.map_map, Function.comp_def] using this
  case f32Obj ms =>
    have := typedObj_events float32Marker UItem.f32 Sc.f32 ms (fun _ _ => rfl)
    simpa [xItem, ubjMems, objMems, ubjScT, List.map_map, Function.comp_def] using this
  case f64Obj ms =>
    have := typedObj_events float64Marker UItem.f64 Sc.f64 ms (fun _ _ => rfl)
    simpa [xItem, ubjMems, objMems, ubjScT, List.map_map, Function.comp_def] using this
  case numObj k ms =>
    have hT' : minUT (ms.map fun m : Bytes × Int => m.2) ≠ .H := hT
    have := typedObj_events (elemType k (minUT (ms.map fun m : Bytes × Int => m.2)))
      (elemItem k (minUT (ms.map fun m : Bytes × Int => m.2)))
      (fun v => Sc.num (ubjElemKind k (minUT (ms.map fun m : Bytes × Int => m.2))) v) ms
      (fun m hm => elemItem_events _ _ hT' m.2 (hs (m.1, .num k m.2) (List.mem_map.mpr ⟨m, hm, rfl⟩)))
    simpa [xItem, ubjMems, objMems, objUT, ubjScT, List.map_map, Function.comp_def] using this

/-- the UBJSON leg of a typed map does not change what a typed (non-`interface{}`) target stores -/
theorem conv_ubjScT (x : XEv) (hf : ∀ m ∈ objMems x, scFits m.2 = true) (k : PK) (hk : k ≠ .ifc)
    (m : Bytes × Sc) (hm : m ∈ objMems x) (hs : scSmall m.2 = true) :
    k.conv (ubjScT (objUT x) m.2) = k.conv m.2 := by
  obtain ⟨key, s⟩ := m
  cases s with
  | num ek v =>
    have h2 := elemKind_inRange ek (objUT x) (objUT_ne_H x hf) v hs (objUT_rank x key ek v hm)
    have e1 : Unf.wrapTo (ubjElemKind ek (objUT x)) v = v := Unf.wrapTo_inRange _ _ h2
    have e2 : Unf.wrapTo ek v = v := Unf.wrapTo_inRange _ _ hs
    cases k <;> simp only [ubjScT, PK.conv, e1, e2]
    exact absurd rfl hk
  | _ => rfl

theorem putAll_congr (k : PK) (g : Sc → Sc) : ∀ (mems : List (Bytes × Sc)) (acc : List (Bytes × Unf.GoVal)),
    (∀ m ∈ mems, k.conv (g m.2) = k.conv m.2) →
    putAll k (mems.map fun m => (m.1, g m.2)) acc = putAll k mems acc
  | [], _, _ => rfl
  | (key, s) :: r, acc, h => by
    simp only [List.map_cons, putAll, h (key, s) List.mem_cons_self]
    cases k.conv s with
    | none => rfl
    | some w => exact putAll_congr k g r _ (fun y hy => h y (List.mem_cons_of_mem _ hy))

/-! ## the typed-map event of Fold, reordered -/

theorem leaf_objX (x : XEv) (hx : isObjX x = true) : isLeaf x = true ∧ leafTree x = xTree x ∧ leafItem x = xItem x := by
  cases x <;> simp [isObjX] at hx <;> exact ⟨rfl, rfl, rfl⟩

def objBT : XEv → Nat
  | .boolObj _ => BT.bool | .strObj _ => BT.string | .numObj k _ => k.baseType
  | .f32Obj _ => BT.float32 | .f64Obj _ => BT.float64 | _ => 0

theorem xTree_objX (x : XEv) (hx : isObjX x = true) :
    xTree x = .obj (objMems x).length (objBT x) (memTrees (objMems x)) := by
  cases x <;> simp [isObjX] at hx <;>
    simp [xTree, objMems, objBT, memTrees, List.map_map, Function.comp_def, scTree]

theorem small_objX (x : XEv) (hx : isObjX x = true)
    (hs : ∀ m ∈ objMems x, m.1.length < 9223372036854775808 ∧ scSmall m.2 = true)
    (hn : (objMems x).length < 9223372036854775808) : small (xTree x) = true := by
  rw [xTree_objX x hx]
  have hl : (memTrees (objMems x)).length = (objMems x).length := by simp [memTrees]
  simp only [small, hl, smallMems_memTrees _ hs, Bool.and_true, decide_eq_true_eq]
  exact hn

/-- the order oracle only permutes the members -/
theorem reorder_objX (s : Fold.St) (hh : hintOK s.hint) (p : Prim) (ms : List (GoVal × GoVal))
    (hnd : (ms.map fun m => getS m.1).Nodup) :
    isObjX (reorderByHint s (objX p ms)) = true ∧ (objMems (reorderByHint s (objX p ms))).Perm (memsOf p ms) := by
  refine ⟨isObjX_reorder s _ (isObjX_objX p ms), ?_⟩
  cases p with
  | bool =>
    obtain ⟨ms', he, hp⟩ := reorder_boolObj s (ms.map fun m => (getS m.1, getB m.2)) hh (by simpa [List.map_map, Function.comp_def] using hnd)
    have := hp.map (fun m : Bytes × Bool => (m.1, Sc.bool m.2))
    simpa [objX, he, objMems, memsOf, scOfElem, List.map_map, Function.comp_def] using this
  | string =>
    obtain ⟨ms', he, hp⟩ := reorder_strObj s (ms.map fun m => (getS m.1, getS m.2)) hh (by simpa [List.map_map, Function.comp_def] using hnd)
    have := hp.map (fun m : Bytes × Bytes => (m.1, Sc.str m.2))
    simpa [objX, he, objMems, memsOf, scOfElem, List.map_map, Function.comp_def] using this
  | num k =>
    obtain ⟨ms', he, hp⟩ := reorder_numObj s k (ms.map fun m => (getS m.1, getI m.2)) hh (by simpa [List.map_map, Function.comp_def] using hnd)
    have := hp.map (fun m : Bytes × Int => (m.1, Sc.num k m.2))
    simpa [objX, he, objMems, memsOf, scOfElem, elemKind, List.map_map, Function.comp_def] using this
  | f32 =>
    obtain ⟨ms', he, hp⟩ := reorder_f32Obj s (ms.map fun m => (getS m.1, getF32 m.2)) hh (by simpa [List.map_map, Function.comp_def] using hnd)
    have := hp.map (fun m : Bytes × UInt32 => (m.1, Sc.f32 m.2))
    simpa [objX, he, objMems, memsOf, scOfElem, List.map_map, Function.comp_def] using this
  | f64 =>
    obtain ⟨ms', he, hp⟩ := reorder_f64Obj s (ms.map fun m => (getS m.1, getF64 m.2)) hh (by simpa [List.map_map, Function.comp_def] using hnd)
    have := hp.map (fun m : Bytes × UInt64 => (m.1, Sc.f64 m.2))
    simpa [objX, he, objMems, memsOf, scOfElem, List.map_map, Function.comp_def] using this

/-! ## the marker found for all values does not depend on the iteration order -/

theorem maxUT_comm3 (z a b : UT) : maxUT (maxUT z a) b = maxUT (maxUT z b) a := by
  cases z <;> cases a <;> cases b <;> rfl

theorem minUT_perm {l₁ l₂ : List Int} (h : l₁.Perm l₂) : minUT l₁ = minUT l₂ :=
  List.Perm.foldl_eq' h (fun _ _ _ _ z => maxUT_comm3 z _ _) .i

/-- the marker found for all values of the map -/
def utOfVals (ms : List (GoVal × GoVal)) : UT := minUT (ms.map fun m => getI m.2)

theorem reorder_objUT (s : Fold.St) (hh : hintOK s.hint) (k : NumKind) (ms : List (GoVal × GoVal))
    (hnd : (ms.map fun m => getS m.1).Nodup) :
    objUT (reorderByHint s (objX (.num k) ms)) = utOfVals ms := by
  obtain ⟨ms', he, hp⟩ := reorder_numObj s k (ms.map fun m => (getS m.1, getI m.2)) hh
    (by simpa [List.map_map, Function.comp_def] using hnd)
  simp only [objX, he, objUT, utOfVals]
  have := minUT_perm (hp.map (·.2))
  simpa [List.map_map, Function.comp_def] using this

theorem ubjScT_reorder (s : Fold.St) (hh : hintOK s.hint) (p : Prim) (ms : List (GoVal × GoVal))
    (hnd : (ms.map fun m => getS m.1).Nodup) (y : GoVal) :
    ubjScT (objUT (reorderByHint s (objX p ms))) (scOfElem false p y) = ubjScT (utOfVals ms) (scOfElem false p y) := by
  cases p with
  | num k => rw [reorder_objUT s hh k ms hnd]
  | _ => rfl

/-! ## the run -/

theorem objEvents_shape (mems : List (Bytes × Sc)) :
    ∃ l : Int, objEvents mems = .objStart l BT.any :: memEvs mems ++ [.objEnd] := by
  cases mems with
  | nil => exact ⟨-1, rfl⟩
  | cons m r => exact ⟨_, rfl⟩

theorem mapFin_eq (et : Unf.GoType) (mems0 : List (Bytes × Sc)) (g : Sc → Sc) (h : Sc → Unf.GoVal) :
    Unf.mapFinK (.mapNil et) et (mems0.map fun m => (m.1, g m.2)) (mems0.map fun m => (m.1, h m.2)) =
      Unf.mapSt et (mems0.map fun m => (m.1, h m.2)) := by
  cases mems0 <;> rfl

theorem map_ubj_run (o : FoldOpts) (hfail : o.failAt = none) (hord : hintOK o.order) (p : Prim) (v : GoVal)
    (ms : List (GoVal × GoVal)) (hv : mapEntries? v = some ms) (hms : ∀ m ∈ ms, hasEntry p m = true)
    (hnd : (ms.map fun m => getS m.1).Nodup)
    (hz : ∀ m ∈ ms, sizedV m.1 = true ∧ sizedV m.2 = true) (hf : ∀ m ∈ ms, fitsV m.2 = true)
    (hn : ms.length < 9223372036854775808) :
    ∃ c0 fin s pr mems, (impl o (.map .string (primTy p)) v).res = .ok ∧
      setTarget tbl (.map (uPrimTy p)) (Unf.zero tbl (.map (uPrimTy p))) newUnfolder = .ok c0 ∧
      fin.Perm (ms.map fun m => (getS m.1, trPrim p m.2)) ∧
      Enc.run {} (impl o (.map .string (primTy p)) v).evs = (s, none) ∧ s.w.out ≠ [] ∧
      Parse.parse {} s.w.out = (pr, none) ∧ Idle pr ∧
      mems.Perm (ms.map fun m => (getS m.1, ubjScT (utOfVals ms) (scOfElem false p m.2))) ∧
      Parse.events pr = objEvents mems ∧
      feed c0 ((Parse.events pr).map fun e => [evToUEv e]) = (doneCtx (Unf.mapSt (uPrimTy p) fin), none) := by
  rw [impl_map o hfail p v ms _ hv (objEv_eq p ms hms)]
  obtain ⟨hisobj, hperm⟩ := reorder_objX (st0 o) hord p ms hnd
  have hTT := fun y => ubjScT_reorder (st0 o) hord p ms hnd y
  generalize reorderByHint (st0 o) (objX p ms) = x at hisobj hperm hTT ⊢
  have hlen : (objMems x).length = ms.length := by simpa [memsOf] using hperm.length_eq
  have hmem : ∀ m ∈ objMems x, ∃ m0 ∈ ms, m = (getS m0.1, scOfElem false p m0.2) := by
    intro m hm
    have := hperm.mem_iff.mp hm
    simp only [memsOf, List.mem_map] at this
    obtain ⟨m0, h0, rfl⟩ := this
    exact ⟨m0, h0, rfl⟩
  have hsm : ∀ m ∈ objMems x, m.1.length < 9223372036854775808 ∧ scSmall m.2 = true := by
    intro m hm
    obtain ⟨m0, h0, rfl⟩ := hmem m hm
    have hk := hasEntry_key (hms m0 h0)
    refine ⟨?_, small_elem false p m0.2 hk.2 (hz m0 h0).2⟩
    have := (hz m0 h0).1
    revert this
    cases m0.1 <;> simp [sizedV, getS]
  have hsm2 : ∀ m ∈ objMems x, scSmall m.2 = true := fun m hm => (hsm m hm).2
  have hfit : ∀ m ∈ objMems x, scFits m.2 = true := by
    intro m hm
    obtain ⟨m0, h0, rfl⟩ := hmem m hm
    exact fits_elem false p m0.2 (hasEntry_key (hms m0 h0)).2 (hf m0 h0)
  have hconv : ∀ m ∈ objMems x, (pkOf p).conv m.2 = some (convD (pkOf p) m.2) := by
    intro m hm
    obtain ⟨m0, h0, rfl⟩ := hmem m hm
    have hc := conv_elem false p m0.2 (hasEntry_key (hms m0 h0)).2
    simp [convD, hc]
  have hkeys : ((objMems x).map (·.1)).Nodup := by
    have h1 := hperm.map (·.1)
    rw [h1.nodup_iff]
    simpa [memsOf, List.map_map, Function.comp_def] using hnd
  have hput := putAll_nodup (pkOf p) (objMems x) [] (fun m hm => by rw [hconv m hm]; rfl) hkeys
    (fun _ _ a ha => by cases ha)
  have hfin : ((objMems x).map fun m => (m.1, convD (pkOf p) m.2)).Perm (ms.map fun m => (getS m.1, trPrim p m.2)) := by
    have h1 := hperm.map (fun m : Bytes × Sc => (m.1, convD (pkOf p) m.2))
    refine h1.trans (List.Perm.of_eq ?_)
    simp only [memsOf, List.map_map]
    apply List.map_congr_left
    intro m0 h0
    have hc := conv_elem false p m0.2 (hasEntry_key (hms m0 h0)).2
    simp [convD, hc]
  -- the codec leg
  obtain ⟨hl1, hl2, hl3⟩ := leaf_objX x hisobj
  have hsmall : small (leafTree x) = true := by
    rw [hl2]; exact small_objX x hisobj hsm (by omega)
  obtain ⟨s, pr, h1, _, h3, h4, h5, h6⟩ := leaf_leg x hl1 hsmall
  rw [hl3, objX_events x hisobj hsm2 hfit] at h6
  have hperm2 : (ubjMems x).Perm (ms.map fun m => (getS m.1, ubjScT (utOfVals ms) (scOfElem false p m.2))) := by
    have := hperm.map (fun m : Bytes × Sc => (m.1, ubjScT (objUT x) m.2))
    simpa [ubjMems, memsOf, List.map_map, Function.comp_def, hTT] using this
  refine ⟨_, _, s, pr, ubjMems x, rfl,
    Unf.setTarget_mapK tbl _ (pkOf p) _ newUnfolder (ofExact_uPrimTy p), hfin, h1, h3, h4, h5,
    hperm2, h6, ?_⟩
  rw [h6]
  obtain ⟨l, hsh⟩ := objEvents_shape (ubjMems x)
  rw [hsh]
  have : ((Ev.objStart l BT.any :: memEvs (ubjMems x) ++ [Ev.objEnd]).map fun e => [evToUEv e]) =
      (UEv.objStart l BT.any :: memberEvents (ubjMems x) ++ [UEv.objEnd]).map fun e => [e] := by
    rw [← memEvs_tokens]
    simp [List.map_map, Function.comp_def, evToUEv]
  rw [this]
  apply feed_singles
  have hz0 : Unf.zero tbl (.map (uPrimTy p)) = .mapNil (uPrimTy p) := rfl
  have hput' : putAll (pkOf p) (ubjMems x) [] =
      some ([] ++ (objMems x).map fun m => (m.1, convD (pkOf p) m.2)) := by
    unfold ubjMems
    rw [putAll_congr _ _ (objMems x) []
      (fun m hm => conv_ubjScT x hfit _ (pkOf_ne_ifc p) m hm (hsm2 m hm))]
    exact hput
  rw [typeFuel_succ, hz0,
    Unf.run_object_into_mapK 255 tbl (pkOf p) (.mapNil (uPrimTy p)) (uPrimTy p) [] _ newUnfolder _ _ _ rfl rfl hput']
  congr 1
  simp only [List.nil_append, doneCtx, ubjMems, mapFin_eq]

end SF.FuUbj
