/-
  The run phase of the mirror (`run`, `runFast`, `foldInterfaceValue`, `foldAnyReflect`):
  one-step equations per compiled folder, and what each folder delivers to a healthy user
  visitor, given what its sub-folders deliver.
-/
import SF.Proofs.FoldCompile
import SF.Proofs.FoldVisit
import SF.Proofs.FoldBuild
import SF.Proofs.FoldMatch
namespace SF.FoldProofs
open SF SF.Gotype SF.Gotype.Fold SF.Gotype.Rules

/-! ## one-step equations -/

theorem run_prim (rf : Nat) (o : FoldOpts) (c : VisRef) (p : Prim) (rv : RV) (s : St) :
    run (rf + 1) o c (.prim p) rv s =
      match primEv true p rv.v with
      | some x => emit s c x
      | none => (s, .panic) := by
  rw [run]
  rfl

theorem run_arrPrim (rf : Nat) (o : FoldOpts) (c : VisRef) (p : Prim) (rv : RV) (s : St) :
    run (rf + 1) o c (.arrPrim p) rv s =
      match (sliceElems? rv.v).bind (arrEv false p) with
      | some x => emit s c x
      | none => (s, .panic) := by
  rw [run]
  rfl

theorem run_mapPrim (rf : Nat) (o : FoldOpts) (c : VisRef) (p : Prim) (rv : RV) (s : St) :
    run (rf + 1) o c (.mapPrim p) rv s =
      match (mapEntries? rv.v).bind (objEv p) with
      | some x => emit s c x
      | none => (s, .panic) := by
  rw [run]
  rfl

theorem run_pointer (rf : Nat) (o : FoldOpts) (c : VisRef) (n : Nat) (elem : ReFold) (rv : RV) (s : St) :
    run (rf + 1) o c (.pointer n elem) rv s =
      match ptrWalk n rv with
      | .nil => emit s c (.ev .null)
      | .val rv' => run rf o c elem rv' s
      | .bad => (s, .panic) := by
  rw [run]
  rfl

theorem run_inlinePointer (rf : Nat) (o : FoldOpts) (c : VisRef) (n : Nat) (elem : ReFold) (rv : RV) (s : St) :
    run (rf + 1) o c (.inlinePointer n elem) rv s =
      match ptrWalk n rv with
      | .nil => (s, .ok)
      | .val rv' => run rf o c elem rv' s
      | .bad => (s, .panic) := by
  rw [run]
  rfl

theorem run_structFold (rf : Nat) (o : FoldOpts) (c : VisRef) (fields : List ReFold) (count : Int)
    (rv : RV) (s : St) :
    run (rf + 1) o c (.structFold fields count) rv s =
      match emit s c (.ev (.objStart count BT.any)) with
      | (s, .ok) =>
        match seqM (fun s fv => run rf o c fv rv s) s fields with
        | (s, .ok) => emit s c (.ev .objEnd)
        | r => r
      | r => r := by
  rw [run]
  rfl

theorem run_fieldsFold (rf : Nat) (o : FoldOpts) (c : VisRef) (fields : List ReFold) (rv : RV) (s : St) :
    run (rf + 1) o c (.fieldsFold fields) rv s = seqM (fun s fv => run rf o c fv rv s) s fields := by
  rw [run]

theorem run_field (rf : Nat) (o : FoldOpts) (c : VisRef) (name : Bytes) (idx : Nat) (fn : ReFold)
    (rv : RV) (s : St) :
    run (rf + 1) o c (.field name idx fn) rv s =
      match emit s c (.ev (.key name)) with
      | (s, .ok) =>
        match rv.field idx with
        | some fv => run rf o c fn fv s
        | none => (s, .panic)
      | r => r := by
  rw [run]
  rfl

theorem run_fieldInline (rf : Nat) (o : FoldOpts) (c : VisRef) (idx : Nat) (fn : ReFold)
    (rv : RV) (s : St) :
    run (rf + 1) o c (.fieldInline idx fn) rv s =
      match rv.field idx with
      | some fv => run rf o c fn fv s
      | none => (s, .panic) := by
  rw [run]
  rfl

theorem run_nonEmptyField (rf : Nat) (o : FoldOpts) (c : VisRef) (name : Bytes) (idx : Nat)
    (rs : List Resolver) (fn : ReFold) (rv : RV) (s : St) :
    run (rf + 1) o c (.nonEmptyField name idx rs fn) rv s =
      match rv.field idx with
      | none => (s, .panic)
      | some fv =>
        match applyResolvers 1000 rs fv with
        | .panic => (s, .panic)
        | .drop => (s, .ok)
        | .keep field =>
          match emit s c (.ev (.key name)) with
          | (s, .ok) => run rf o c fn field s
          | r => r := by
  rw [run]
  rfl

theorem run_mapFold (rf : Nat) (o : FoldOpts) (c : VisRef) (iter : ReFold) (rv : RV) (s : St) :
    run (rf + 1) o c (.mapFold iter) rv s =
      match mapEntries? rv.v with
      | none => (s, .panic)
      | some ms =>
        match emit s c (.ev (.objStart ms.length BT.any)) with
        | (s, .ok) =>
          match run rf o c iter rv s with
          | (s, .ok) => emit s c (.ev .objEnd)
          | r => r
        | r => r := by
  rw [run]
  rfl

theorem run_mapKeys (rf : Nat) (o : FoldOpts) (c : VisRef) (elem : ReFold) (rv : RV) (s : St) :
    run (rf + 1) o c (.mapKeys elem) rv s =
      match rv.v with
      | .nilMap => (s, .ok)
      | .map ms =>
        match stringKeyed ms with
        | none => (s, .panic)
        | some ms =>
          rangeM (fun s m =>
            match emit s c (.ev (.key m.1)) with
            | (s, .ok) => run rf o c elem ⟨rv.t.elem, m.2⟩ s
            | r => r) ms.length s ms
      | _ => (s, .panic) := by
  rw [run]
  rfl

theorem run_mapInline (rf : Nat) (o : FoldOpts) (c : VisRef) (p : Option Prim) (rv : RV) (s : St) :
    run (rf + 1) o c (.mapInline p) rv s =
      match rv.v with
      | .nilMap => (s, .ok)
      | .map ms =>
        match stringKeyed ms with
        | none => (s, .panic)
        | some ms =>
          rangeM (fun s m =>
            match emit s c (.ev (.key m.1)) with
            | (s, .ok) =>
              match p with
              | none => foldInterfaceValue rf o c m.2 s
              | some p =>
                match elemEv p m.2 with
                | some x => emit s c x
                | none => (s, .panic)
            | r => r) ms.length s ms
      | _ => (s, .panic) := by
  rw [run]
  rfl

theorem run_slice_nil (rf : Nat) (o : FoldOpts) (c : VisRef) (elem : ReFold) (T : GoType) (s : St) :
    run (rf + 1) o c (.slice elem) ⟨T, .nilSlice⟩ s =
      match emit s c (.ev (.arrStart 0 BT.any)) with
      | (s, .ok) => emit s c (.ev .arrEnd)
      | r => r := by
  rw [run]
  rfl

theorem run_slice_slice (rf : Nat) (o : FoldOpts) (c : VisRef) (elem : ReFold) (T : GoType)
    (xs : List GoVal) (s : St) :
    run (rf + 1) o c (.slice elem) ⟨T, .slice xs⟩ s =
      match emit s c (.ev (.arrStart xs.length BT.any)) with
      | (s, .ok) =>
        match seqM (fun s x => run rf o c elem ⟨T.elem, x⟩ s) s xs with
        | (s, .ok) => emit s c (.ev .arrEnd)
        | r => r
      | r => r := by
  rw [run]
  rfl

theorem run_slice_array (rf : Nat) (o : FoldOpts) (c : VisRef) (elem : ReFold) (T : GoType)
    (xs : List GoVal) (s : St) :
    run (rf + 1) o c (.slice elem) ⟨T, .array xs⟩ s =
      match emit s c (.ev (.arrStart xs.length BT.any)) with
      | (s, .ok) =>
        match seqM (fun s x => run rf o c elem ⟨T.elem, x⟩ s) s xs with
        | (s, .ok) => emit s c (.ev .arrEnd)
        | r => r
      | r => r := by
  rw [run]
  rfl

theorem run_ifaceElem (rf : Nat) (o : FoldOpts) (c : VisRef) (rv : RV) (s : St) :
    run (rf + 1) o c .ifaceElem rv s =
      match rv.t.under with
      | .iface =>
        match rv.v with
        | .nilIface => emit s c (.ev .null)
        | .iface dt dv => foldAnyReflect rf o c ⟨dt, dv⟩ s
        | _ => (s, .panic)
      | _ => foldAnyReflect rf o c rv s := by
  rw [run]
  rfl

theorem foldAnyReflect_eq (rf : Nat) (o : FoldOpts) (c : VisRef) (rv : RV) (s : St) :
    foldAnyReflect (rf + 1) o c rv s =
      match getReflectFold compileFuel o {} rv.t with
      | .error r => (s, r)
      | .ok f => run rf o c f rv s := by
  rw [foldAnyReflect]
  rfl

theorem fiv_nil (rf : Nat) (o : FoldOpts) (c : VisRef) (s : St) :
    foldInterfaceValue (rf + 1) o c .nilIface s = emit s c (.ev .null) := by
  rw [foldInterfaceValue]

/-- the fast path `foldInterfaceValue` selects for a dynamic type: the type switch on exact
types (`getFoldGoTypes`), else the conversion of a named map / slice (`getFoldConvert`) -/
def fastSel (T : GoType) : Option Fast :=
  match getFoldGoTypes T with
  | some f => some f
  | none => getFoldConvert T

theorem fiv_good (rf : Nat) (o : FoldOpts) (c : VisRef) {sn : List String} {T : GoType} (v : GoVal)
    (s : St) (h : goodT sn T = true) :
    foldInterfaceValue (rf + 1) o c (.iface T v) s =
      match fastSel T with
      | some f => runFast rf o c f v s
      | none => foldAnyReflect rf o c ⟨T, v⟩ s := by
  rw [foldInterfaceValue]
  simp only [userReg_good o h, whnf_good h, implementsFolder_good h, Bool.false_eq_true, if_false, fastSel]
  cases getFoldGoTypes T with
  | some f => rfl
  | none =>
    simp only []
    cases getFoldConvert T <;> rfl

theorem getFoldGoTypes_named (n : String) (m : Methods) (u : GoType) : getFoldGoTypes (.named n m u) = none := rfl

theorem fastSel_inv {sn : List String} {T : GoType} {fa : Fast} (h : goodT sn T = true)
    (hf : fastSel T = some fa) : getFoldGoTypes T.under = some fa := by
  unfold fastSel at hf
  cases T <;> first
    | (simp only [GoType.under]
       simp only [getFoldConvert, GoType.isNamed, Bool.not_false, if_true] at hf
       split at hf <;> simp_all; done)
    | (rename_i n m u
       simp only [getFoldGoTypes_named, getFoldConvert, GoType.isNamed, Bool.not_true, Bool.false_eq_true,
         if_false, GoType.under] at hf ⊢
       split at hf <;> simp_all; done)
    | (simp [goodT] at h)

theorem runFast_prim (rf : Nat) (o : FoldOpts) (c : VisRef) (p : Prim) (v : GoVal) (s : St) :
    runFast (rf + 1) o c (.prim p) v s =
      match primEv false p v with
      | some x => emit s c x
      | none => (s, .panic) := by
  rw [runFast]
  rfl

theorem runFast_arr (rf : Nat) (o : FoldOpts) (c : VisRef) (p : Prim) (v : GoVal) (s : St) :
    runFast (rf + 1) o c (.arr p) v s =
      match (sliceElems? v).bind (arrEv true p) with
      | some x => emit s c x
      | none => (s, .panic) := by
  rw [runFast]
  rfl

theorem runFast_map (rf : Nat) (o : FoldOpts) (c : VisRef) (p : Prim) (v : GoVal) (s : St) :
    runFast (rf + 1) o c (.map p) v s =
      match (mapEntries? v).bind (objEv p) with
      | some x => emit s c x
      | none => (s, .panic) := by
  rw [runFast]
  rfl

theorem runFast_arrIface (rf : Nat) (o : FoldOpts) (c : VisRef) (v : GoVal) (s : St) :
    runFast (rf + 1) o c .arrIface v s =
      match sliceElems? v with
      | none => (s, .panic)
      | some xs =>
        match emit s c (.ev (.arrStart xs.length BT.any)) with
        | (s, .ok) =>
          match seqM (fun s x => foldInterfaceValue rf o c x s) s xs with
          | (s, .ok) => emit s c (.ev .arrEnd)
          | r => r
        | r => r := by
  rw [runFast]
  rfl

theorem runFast_mapIface (rf : Nat) (o : FoldOpts) (c : VisRef) (v : GoVal) (s : St) :
    runFast (rf + 1) o c .mapIface v s =
      match (mapEntries? v).bind stringKeyed with
      | none => (s, .panic)
      | some ms =>
        match emit s c (.ev (.objStart ms.length BT.any)) with
        | (s, .ok) =>
          match rangeM (fun s m =>
              match emit s c (.ev (.key m.1)) with
              | (s, .ok) => foldInterfaceValue rf o c m.2 s
              | r => r) ms.length s ms with
          | (s, .ok) => emit s c (.ev .objEnd)
          | r => r
        | r => r := by
  rw [runFast]
  rfl

end SF.FoldProofs
