/-
  C18 for the CBOR ("cborl") PULL DECODER OVER A READER (mirror: SF/Cbor/Dec.lean).

  A reader is a script `cs : List Bytes` of the chunks successive `Read` calls return (an
  empty chunk is a `(0, nil)` read; after the script `(0, io.EOF)` forever — data arriving
  together with `io.EOF` is a last chunk followed by the end of the script).

  (1) `reader_decoder_stream`: for EVERY stream of grammatical items and EVERY way of cutting
      its wire form into reads, `Next` succeeds once per item, the events accumulated after
      the i-th call are exactly those of the first i items, and the next call reports a clean
      end of stream (`.eof`).  No call runs out of fuel; `nextFuel` (the fuel the model hands
      out) is sufficient, as is any fuel ≥ `need d` = #remaining reads + 2.
  (2) `reader_decoder_truncated`: if the stream ends inside an item (after any number of
      complete items), the call after the complete items reports `.unexpectedEOF` — never
      `.eof`, never `.ok` (and no parser error either: a prefix of a grammatical item is not
      refused before the end of the stream is seen).
  (3) `reader_chunking_independent`, `reader_eq_bytes_decoder`: for ARBITRARY bytes (valid,
      invalid, truncated) any two read scripts with the same concatenation — and the
      byte-slice decoder holding the concatenation — produce the same sequence of results
      and the same accumulated events, call by call, up to and including the first call that
      does not succeed.

  Helper lemmas: SF/Proofs/CborDecUntil.lean (fuel-free loop `Until`, its split law across a
  read boundary), SF/Proofs/CborDecNext.lean (one call of `Next` = the loop over the
  concatenated remaining stream).
-/
import SF.Proofs.CborDecNext
import SF.Proofs.CborDecBytes
set_option linter.unusedSimpArgs false
set_option linter.unusedVariables false
namespace SF.Cbor.DecR
open SF SF.Cbor SF.Cbor.Cst SF.Cbor.Parse SF.Cbor.Dec
open SF.Props.C03 (startPending)
open SF.Cbor.Sim (okw okwList)

/-! ## sequences of calls -/

/-- repeated calls of `Next`, the i-th with `f d` loop iterations of fuel, stopping after the
first call that does not succeed; per call: the result and the events accumulated in the
parser (oldest first) -/
def nextsF (f : Dec → Nat) : Nat → Dec → List (NextRes × List Ev)
  | 0, _ => []
  | n + 1, d =>
    let r := next (f d) d
    (r.2, Parse.events r.1.p) :: (if r.2 == .ok then nextsF f n r.1 else [])

/-- … with the fuel the model hands out -/
abbrev nexts : Nat → Dec → List (NextRes × List Ev) := nextsF nextFuel

/-- THE FUEL NEEDED: a fuel function is sufficient if it grants every call at least
`need d = (number of remaining reads) + [buffer non-empty] + 1` loop iterations -/
def Enough (f : Dec → Nat) : Prop := ∀ d, need d ≤ f d

/-- the fuel of the model (`nextFuel`) is sufficient -/
theorem enough_nextFuel : Enough nextFuel := need_le_nextFuel

/-- the fuel has to grow with the number of reads (every read, empty ones included, costs one
iteration of the loop of `Next`): 3 iterations are too few for this script of 4 reads, `need`
(= 5) are enough -/
example :
    (next 3 { reads := [[0x82], [], [0x01], [0x01]] }).2 = .err .outOfFuel ∧
    need { reads := [[0x82], [], [0x01], [0x01]] } = 5 ∧
    (next 5 { reads := [[0x82], [], [0x01], [0x01]] }).2 = .ok ∧
    nextFuel { reads := [[0x82], [], [0x01], [0x01]] } = 18 := by
  decide +kernel

theorem nextsF_succ (f : Dec → Nat) (n : Nat) (d : Dec) :
    nextsF f (n + 1) d =
      ((next (f d) d).2, Parse.events (next (f d) d).1.p) ::
        (if (next (f d) d).2 == .ok then nextsF f n (next (f d) d).1 else []) := rfl

/-! ## single calls on well-formed input -/

theorem pending_idle (evs : List Ev) : startPending (idle evs) = false := by
  simp only [startPending, idle]; decide

theorem finalize_idle_none (evs : List Ev) : finalize (idle evs) = none := by
  simp +decide [finalize, idle]

theorem eofP_idle (evs : List Ev) : eofP (idle evs) = .eof := by
  simp only [eofP, eof, finalize_idle_none]

theorem eofP_ne_ok (p : P) : (eofP p == NextRes.ok) = false := by
  simp only [eofP, eof]
  cases finalize p <;> simp

/-- ONE CALL, a complete item at the head of the stream (cut into reads in any way, whatever
follows): it succeeds, delivers exactly the item's events and keeps exactly what follows -/
theorem next_item (t : Item) (ht : okw t = true) (tail : Bytes) (evs : List Ev) (d : Dec)
    (hr : RdOK d) (hp : d.p = idle evs) (hs : stream d = t.wire ++ tail) (fuel : Nat)
    (hf : need d ≤ fuel) :
    (next fuel d).2 = .ok ∧ (next fuel d).1.p = idle (t.events.reverse ++ evs) ∧
      stream (next fuel d).1 = tail ∧ RdOK (next fuel d).1 := by
  have hg : Good d.p := by rw [hp]; exact good_idle evs
  have hnp : startPending d.p = false := by rw [hp]; exact pending_idle evs
  have hne : stream d ≠ [] := by
    rw [hs]; intro hc
    exact SF.Cbor.Sim.wire_ne_nil_w t ht (List.append_eq_nil_iff.mp hc).1
  have hc : canon d = { p := idle (t.events.reverse ++ evs), rest := tail, done := true, err := none } := by
    unfold canon
    rw [hs, hp]
    exact SF.Cbor.Sim.feedUntil_item_w t ht evs tail _ (fuelFor_ge t tail)
  have h2 := ((next_canon fuel d hr hg hnp hf).2 hne).ok (by rw [hc]) (by rw [hc])
  rw [hc] at h2
  exact h2

/-- ONE CALL at the end of the stream, between two items: a clean end -/
theorem next_end_idle (evs : List Ev) (d : Dec) (hr : RdOK d) (hp : d.p = idle evs)
    (hs : stream d = []) (fuel : Nat) (hf : need d ≤ fuel) :
    (next fuel d).2 = .eof ∧ (next fuel d).1.p = idle evs := by
  have hg : Good d.p := by rw [hp]; exact good_idle evs
  have hnp : startPending d.p = false := by rw [hp]; exact pending_idle evs
  obtain ⟨h1, h2⟩ := (next_canon fuel d hr hg hnp hf).1 hs
  rw [eof_eq, hp, eofP_idle] at h1
  exact ⟨h1, by rw [h2, hp]⟩

/-- ONE CALL on a stream that ends inside an item: `unexpectedEOF`.  The events are those the
parser delivers on the same bytes in one piece. -/
theorem next_truncated (t : Item) (ht : okw t = true) (k : Nat) (hk0 : 0 < k) (hk : k < t.wire.length)
    (evs : List Ev) (d : Dec) (hr : RdOK d) (hp : d.p = idle evs) (hs : stream d = t.wire.take k)
    (fuel : Nat) (hf : need d ≤ fuel) :
    (next fuel d).2 = .unexpectedEOF ∧
      (next fuel d).1.p = (feedUntil (fuelFor (t.wire.take k)) (idle evs) (t.wire.take k)).p := by
  have hg : Good d.p := by rw [hp]; exact good_idle evs
  have hnp : startPending d.p = false := by rw [hp]; exact pending_idle evs
  have hpre : t.wire.take k ≠ [] := by
    intro hc
    have : (t.wire.take k).length = 0 := by rw [hc]; rfl
    rw [List.length_take] at this
    omega
  have hsuf : t.wire.drop k ≠ [] := by
    intro hc
    have : (t.wire.drop k).length = 0 := by rw [hc]; rfl
    rw [List.length_drop] at this
    omega
  have hne : stream d ≠ [] := by rw [hs]; exact hpre
  have hc : canon d = feedUntil (fuelFor (t.wire.take k)) (idle evs) (t.wire.take k) := by
    unfold canon; rw [hs, hp]
  have hpost := (next_canon fuel d hr hg hnp hf).2 hne
  rw [hc] at hpost
  -- the loop over the prefix, and over the whole item
  have hgi := good_idle evs
  have hm : Chunk.More (idle evs) (t.wire.take k) := Or.inl hpre
  have hU := feedUntil_fuelFor (idle evs) (t.wire.take k) hgi.inv hm
  have hUt : Until (idle evs) (t.wire.take k ++ t.wire.drop k)
      { p := idle (t.events.reverse ++ evs), rest := [], done := true, err := none } := by
    rw [List.take_append_drop]
    have := feedUntil_fuelFor (idle evs) t.wire hgi.inv (Or.inl (SF.Cbor.Sim.wire_ne_nil_w t ht))
    have h' := SF.Cbor.Sim.feedUntil_item_w t ht evs [] (fuelFor t.wire) (by
      have := fuelFor_ge t []; simpa using this)
    rw [List.append_nil] at h'
    rw [h'] at this
    exact this
  generalize feedUntil (fuelFor (t.wire.take k)) (idle evs) (t.wire.take k) = res at hU hpost ⊢
  obtain ⟨sp1, sp2, _⟩ := until_split hU (t.wire.drop k) hgi hm
  -- (a) no error
  have he : res.err = none := by
    cases hre : res.err with
    | none => rfl
    | some e =>
      obtain ⟨r', q1, q2, _⟩ := sp1 e hre
      have := Until.det q1 hUt
      rw [this] at q2; cases q2
  -- (b) not done
  have hd : res.done = false := by
    cases hrd : res.done with
    | false => rfl
    | true =>
      have := Until.det (sp2 he hrd) hUt
      have h' := congrArg Parse.R.rest this
      simp only [Chunk.app] at h'
      exact absurd (List.append_eq_nil_iff.mp h').2 hsuf
  -- (c) the state reached is not idle
  have hfin : finalize res.p ≠ none := by
    intro hfin
    have hsim := SF.Cbor.Sim.feedUntil_sim (fuelFor (t.wire.take k)) SF.Cbor.Sim.idleCtx SF.Cbor.Sim.idle_valid
      (idle evs) ⟨rfl, rfl, rfl⟩ (t.wire.take k) (Or.inl hpre)
    have hR : feedUntil (fuelFor (t.wire.take k)) (idle evs) (t.wire.take k) = res :=
      Until.det (feedUntil_fuelFor (idle evs) (t.wire.take k) hgi.inv hm) hU
    rw [hR] at hsim
    rcases hsim with h | ⟨used, o, h1, hro, hgo, hmatch, _⟩
    · exact h he
    · cases o with
      | done t' => rw [hro.1] at hd; cases hd
      | cont c' =>
        obtain ⟨hrest, _⟩ := hmatch
        have hw : c'.wire = used := by
          have := hgo.2
          simpa [SF.Cbor.Sim.Ctx.wire, SF.Cbor.Sim.idleCtx, SF.Cbor.Sim.Top.wire, SF.Cbor.Sim.contsWire] using this
        have h0 := SF.Cbor.Sim.finalize_idle hro.2 hfin
        rw [hrest, List.append_nil] at h1
        rw [hw] at h0
        rw [h0] at h1
        exact hpre h1
  obtain ⟨h1, h2⟩ := hpost.eof he hd
  refine ⟨?_, h2⟩
  rw [h1]
  simp only [eofP, eof]
  cases hf' : finalize res.p with
  | none => exact absurd hf' hfin
  | some e => rfl

/-! ## streams of items -/

/-- the expected trace of successful calls: after each item the events so far -/
def okTrace (pre : List Ev) : List Item → List (NextRes × List Ev)
  | [] => []
  | t :: ts => (.ok, pre ++ t.events) :: okTrace (pre ++ t.events) ts

theorem okTrace_eq (pre : List Ev) (ts : List Item) :
    okTrace pre ts = (List.range ts.length).map (fun i => (NextRes.ok, pre ++ eventsList (ts.take (i + 1)))) := by
  induction ts generalizing pre with
  | nil => rfl
  | cons t ts ih =>
    rw [okTrace, ih, List.length_cons, List.range_succ_eq_map, List.map_cons, List.map_map]
    congr 1
    · simp [eventsList]
    · apply List.map_congr_left
      intro i _
      simp [eventsList, List.append_assoc]

/-- the calls for a stream that starts with the complete items `ts`: one successful call per
item, then the decoder is between two items with exactly the rest of the stream to go -/
theorem nextsF_items (f : Dec → Nat) (hf : Enough f) (ts : List Item) (h : okwList ts = true) (tail : Bytes) :
    ∀ (d : Dec) (evs : List Ev), RdOK d → d.p = idle evs → stream d = wireList ts ++ tail →
      ∃ d', RdOK d' ∧ d'.p = idle ((eventsList ts).reverse ++ evs) ∧ stream d' = tail ∧
        ∀ k, nextsF f (ts.length + k) d = okTrace evs.reverse ts ++ nextsF f k d' := by
  induction ts with
  | nil =>
    intro d evs hr hp hs
    exact ⟨d, hr, by simpa [eventsList] using hp, by simpa [wireList] using hs, fun k => by simp [okTrace]⟩
  | cons t ts ih =>
    intro d evs hr hp hs
    simp only [okwList, Bool.and_eq_true] at h
    obtain ⟨h1, h2, h3, h4⟩ := next_item t h.1 (wireList ts ++ tail) evs d hr hp
      (by rw [hs]; simp [wireList, List.append_assoc]) (f d) (hf d)
    obtain ⟨d', g1, g2, g3, g4⟩ := ih h.2 (next (f d) d).1 (t.events.reverse ++ evs) h4 h2 h3
    refine ⟨d', g1, by rw [g2]; simp [eventsList, List.append_assoc], g3, fun k => ?_⟩
    have hlen : (t :: ts).length + k = (ts.length + k) + 1 := by simp; omega
    rw [hlen, nextsF_succ, h1, h2, g4 k]
    simp [okTrace, Parse.events, idle]

/-! ## (1) READER DECODER STREAM -/

/-- C18 (1), general form: `okw` items (= `Item.ok` without the bound on the element count of
indefinite containers), any sufficient fuel -/
theorem reader_decoder_stream_w (f : Dec → Nat) (hf : Enough f) (ts : List Item) (h : okwList ts = true)
    (cs : List Bytes) (hcs : cs.flatten = wireList ts) :
    nextsF f (ts.length + 1) { reads := cs } =
      (List.range ts.length).map (fun i => (NextRes.ok, eventsList (ts.take (i + 1)))) ++
        [(NextRes.eof, eventsList ts)] := by
  obtain ⟨d', g1, g2, g3, g4⟩ := nextsF_items f hf ts h [] { reads := cs } [] (Or.inl rfl) rfl
    (by simp [stream, hcs])
  rw [g4 1, okTrace_eq]
  obtain ⟨e1, e2⟩ := next_end_idle _ d' g1 g2 g3 (f d') (hf d')
  rw [nextsF_succ, e1, e2]
  simp [Parse.events, idle]

/-- C18 (1), READER DECODER STREAM.  For EVERY list `ts` of grammatical items and EVERY way
`cs` of cutting their concatenated wire form into reads (empty reads anywhere), a decoder
over that reader, called `ts.length + 1` times with any sufficient fuel `f`
(`Enough f`: at least `need d` = number of remaining reads + 2 loop iterations per call):
the first `ts.length` calls return `.ok`, the events accumulated in the parser after the
i-th call are exactly the events of the first i items, in order, and the last call returns
`.eof` (no further event).  In particular no call returns `.err .outOfFuel`, and the whole
trace does not depend on `cs`. -/
theorem reader_decoder_stream (f : Dec → Nat) (hf : Enough f) (ts : List Item) (h : okList ts = true)
    (cs : List Bytes) (hcs : cs.flatten = wireList ts) :
    nextsF f (ts.length + 1) { reads := cs } =
      (List.range ts.length).map (fun i => (NextRes.ok, eventsList (ts.take (i + 1)))) ++
        [(NextRes.eof, eventsList ts)] :=
  reader_decoder_stream_w f hf ts (SF.Cbor.Term.okList_okw ts h) cs hcs

/-- … in particular with the fuel the model hands out (`nextFuel`) -/
theorem reader_decoder_stream_nextFuel (ts : List Item) (h : okList ts = true)
    (cs : List Bytes) (hcs : cs.flatten = wireList ts) :
    nexts (ts.length + 1) { reads := cs } =
      (List.range ts.length).map (fun i => (NextRes.ok, eventsList (ts.take (i + 1)))) ++
        [(NextRes.eof, eventsList ts)] :=
  reader_decoder_stream nextFuel enough_nextFuel ts h cs hcs

/-- non-vacuity: `[1, 2]` then `1`, cut after the array head, with a `(0, nil)` read, and with
the second item arriving in the same read as the end of the first -/
example :
    okList [.arr .imm [.uint .imm 1, .uint .imm 2], .uint .imm 1] = true ∧
    [[0x82], [], [0x01, 0x02, 0x01]].flatten = wireList [.arr .imm [.uint .imm 1, .uint .imm 2], .uint .imm 1] ∧
    nexts 3 { reads := [[0x82], [], [0x01, 0x02, 0x01]] } =
      [(.ok, [.arrStart 2 BT.any, .num .u8 1, .num .u8 2, .arrEnd]),
       (.ok, [.arrStart 2 BT.any, .num .u8 1, .num .u8 2, .arrEnd, .num .u8 1]),
       (.eof, [.arrStart 2 BT.any, .num .u8 1, .num .u8 2, .arrEnd, .num .u8 1])] := by
  decide +kernel

/-- the same in the form of `SF.Cbor.DecBytes.bytes_decoder_stream` (events per call): the reader
decoder produces, for every read script, the trace of the byte-slice decoder -/
theorem reader_decoder_stream_percall (ts : List Item) (h : okList ts = true) :
    ∀ (d : Dec) (evs : List Ev), RdOK d → d.p = idle evs → stream d = wireList ts →
      SF.Cbor.DecBytes.runNexts (ts.length + 1) d =
        ts.map (fun t => (NextRes.ok, t.events)) ++ [(NextRes.eof, [])] := by
  induction ts with
  | nil =>
    intro d evs hr hp hs
    obtain ⟨e1, e2⟩ := next_end_idle [] { d with p := { d.p with evs := [] } } hr (by rw [hp]; rfl)
      (by simpa [stream, wireList] using hs) (nextFuel _) (need_le_nextFuel _)
    simp only [List.length_nil, Nat.zero_add, SF.Cbor.DecBytes.runNexts, e1, e2]
    simp [Parse.events, idle]
  | cons t ts ih =>
    intro d evs hr hp hs
    simp only [okList, Bool.and_eq_true] at h
    obtain ⟨h1, h2, h3, h4⟩ := next_item t (SF.Cbor.Term.ok_okw t h.1) (wireList ts) []
      { d with p := { d.p with evs := [] } } hr (by rw [hp]; rfl) (by simpa [stream, wireList] using hs)
      (nextFuel _) (need_le_nextFuel _)
    rw [show (t :: ts).length + 1 = (ts.length + 1) + 1 from rfl, SF.Cbor.DecBytes.runNexts]
    simp only [h1, h2, beq_self_eq_true, if_true]
    rw [ih h.2 _ _ h4 h2 h3]
    simp [Parse.events, idle]

theorem reader_decoder_stream_runNexts (ts : List Item) (h : okList ts = true)
    (cs : List Bytes) (hcs : cs.flatten = wireList ts) :
    SF.Cbor.DecBytes.runNexts (ts.length + 1) { reads := cs } =
      ts.map (fun t => (NextRes.ok, t.events)) ++ [(NextRes.eof, [])] :=
  reader_decoder_stream_percall ts h { reads := cs } [] (Or.inl rfl) rfl (by simp [stream, hcs])

/-! ## (2) TRUNCATION -/

/-- C18 (2), general form (`okw` items) -/
theorem reader_decoder_truncated_w (f : Dec → Nat) (hf : Enough f) (ts : List Item) (h : okwList ts = true)
    (t : Item) (ht : okw t = true) (k : Nat) (hk0 : 0 < k) (hk : k < t.wire.length)
    (cs : List Bytes) (hcs : cs.flatten = wireList ts ++ t.wire.take k) :
    nextsF f (ts.length + 1) { reads := cs } =
      (List.range ts.length).map (fun i => (NextRes.ok, eventsList (ts.take (i + 1)))) ++
        [(NextRes.unexpectedEOF,
          Parse.events (feedUntil (fuelFor (t.wire.take k)) (idle (eventsList ts).reverse) (t.wire.take k)).p)] := by
  obtain ⟨d', g1, g2, g3, g4⟩ := nextsF_items f hf ts h (t.wire.take k) { reads := cs } [] (Or.inl rfl) rfl
    (by simp [stream, hcs])
  rw [g4 1, okTrace_eq]
  obtain ⟨e1, e2⟩ := next_truncated t ht k hk0 hk _ d' g1 g2 g3 (f d') (hf d')
  rw [nextsF_succ, e1, e2]
  simp

/-- C18 (2), TRUNCATION.  If the bytes the reader delivers (in ANY split into reads) are the
wire form of the grammatical items `ts` followed by a proper non-empty prefix of one more
grammatical item `t`, then after `ts.length` successful calls the next call returns
`.unexpectedEOF` — not `.eof`, not `.ok`, and not a parser error either.  (The events
reported with it are those of the complete items plus whatever the whole-buffer parser
delivers for the incomplete one.) -/
theorem reader_decoder_truncated (f : Dec → Nat) (hf : Enough f) (ts : List Item) (h : okList ts = true)
    (t : Item) (ht : t.ok = true) (k : Nat) (hk0 : 0 < k) (hk : k < t.wire.length)
    (cs : List Bytes) (hcs : cs.flatten = wireList ts ++ t.wire.take k) :
    nextsF f (ts.length + 1) { reads := cs } =
      (List.range ts.length).map (fun i => (NextRes.ok, eventsList (ts.take (i + 1)))) ++
        [(NextRes.unexpectedEOF,
          Parse.events (feedUntil (fuelFor (t.wire.take k)) (idle (eventsList ts).reverse) (t.wire.take k)).p)] :=
  reader_decoder_truncated_w f hf ts (SF.Cbor.Term.okList_okw ts h) t (SF.Cbor.Term.ok_okw t ht) k hk0 hk cs hcs

/-- the single-item case, as a statement about one call: a proper non-empty prefix of an
item, however it is split into reads, yields `unexpectedEOF` -/
theorem reader_decoder_truncated_one (t : Item) (ht : t.ok = true) (k : Nat) (hk0 : 0 < k)
    (hk : k < t.wire.length) (cs : List Bytes) (hcs : cs.flatten = t.wire.take k) (fuel : Nat)
    (hf : cs.length + 1 ≤ fuel) :
    (next fuel { reads := cs }).2 = .unexpectedEOF :=
  (next_truncated t (SF.Cbor.Term.ok_okw t ht) k hk0 hk [] { reads := cs } (Or.inl rfl) rfl
    (by simp [stream, hcs]) fuel (by simpa [need] using hf)).1

/-- non-vacuity: `1` followed by `[1, "ab"]` cut inside the text string; the reads cut the
array head from its first element and deliver a `(0, nil)` read -/
example :
    okList [.uint .imm 1] = true ∧ (Item.arr .imm [.uint .imm 1, .text .imm [0x61, 0x62]]).ok = true ∧
    0 < 4 ∧ 4 < (Item.arr .imm [.uint .imm 1, .text .imm [0x61, 0x62]]).wire.length ∧
    [[0x01, 0x82], [], [0x01, 0x62], [0x61]].flatten =
      wireList [.uint .imm 1] ++ (Item.arr .imm [.uint .imm 1, .text .imm [0x61, 0x62]]).wire.take 4 ∧
    nexts 2 { reads := [[0x01, 0x82], [], [0x01, 0x62], [0x61]] } =
      [(.ok, [.num .u8 1]), (.unexpectedEOF, [.num .u8 1, .arrStart 2 BT.any, .num .u8 1])] := by
  decide +kernel

/-! ## (3) ARBITRARY BYTES: the read sizes do not matter -/

/-- ONE CALL on two decoders in the same parser state with the same remaining stream (split
into reads differently, or held in a byte slice), each with sufficient fuel: same result, same
accumulated events; after a successful call the same parser state and again the same
remaining stream -/
theorem next_congr (fuel₁ fuel₂ : Nat) (d₁ d₂ : Dec) (hr₁ : RdOK d₁) (hr₂ : RdOK d₂) (hp : d₁.p = d₂.p)
    (hg : Good d₁.p) (hnp : startPending d₁.p = false) (hs : stream d₁ = stream d₂)
    (hf₁ : need d₁ ≤ fuel₁) (hf₂ : need d₂ ≤ fuel₂) :
    (next fuel₁ d₁).2 = (next fuel₂ d₂).2 ∧ (next fuel₁ d₁).1.p.evs = (next fuel₂ d₂).1.p.evs ∧
    ((next fuel₁ d₁).2 = .ok →
      RdOK (next fuel₁ d₁).1 ∧ RdOK (next fuel₂ d₂).1 ∧ (next fuel₁ d₁).1.p = (next fuel₂ d₂).1.p ∧
      Good (next fuel₁ d₁).1.p ∧ startPending (next fuel₁ d₁).1.p = false ∧
      stream (next fuel₁ d₁).1 = stream (next fuel₂ d₂).1) := by
  obtain ⟨a1, a2⟩ := next_canon fuel₁ d₁ hr₁ hg hnp hf₁
  obtain ⟨b1, b2⟩ := next_canon fuel₂ d₂ hr₂ (hp ▸ hg) (hp ▸ hnp) hf₂
  have hcan : canon d₂ = canon d₁ := by unfold canon; rw [hs, hp]
  by_cases hne : stream d₁ = []
  · obtain ⟨x1, x2⟩ := a1 hne
    obtain ⟨y1, y2⟩ := b1 (hs ▸ hne)
    refine ⟨by rw [x1, y1, eof_eq, eof_eq, hp], by rw [x2, y2, hp], fun hok => ?_⟩
    rw [x1, eof_eq] at hok
    have := eofP_ne_ok d₁.p
    rw [hok] at this; simp at this
  · have pa := a2 hne
    have pb := b2 (hs ▸ hne)
    rw [hcan] at pb
    cases he : (canon d₁).err with
    | some e =>
      obtain ⟨x1, x2⟩ := pa.err e he
      obtain ⟨y1, y2⟩ := pb.err e he
      refine ⟨by rw [x1, y1], by rw [x2, y2], fun hok => ?_⟩
      rw [x1] at hok; cases hok
    | none =>
      cases hd : (canon d₁).done with
      | true =>
        obtain ⟨x1, x2, x3, x4⟩ := pa.ok he hd
        obtain ⟨y1, y2, y3, y4⟩ := pb.ok he hd
        obtain ⟨g1, g2⟩ := canon_ok_good d₁ hg hne he
        exact ⟨by rw [x1, y1], by rw [x2, y2], fun _ => ⟨x4, y4, by rw [x2, y2], by rw [x2]; exact g1,
          by rw [x2]; exact g2 hd, by rw [x3, y3]⟩⟩
      | false =>
        obtain ⟨x1, x2⟩ := pa.eof he hd
        obtain ⟨y1, y2⟩ := pb.eof he hd
        refine ⟨by rw [x1, y1], by rw [x2, y2], fun hok => ?_⟩
        rw [x1] at hok
        have := eofP_ne_ok (canon d₁).p
        rw [hok] at this; simp at this

/-- sequences of calls on two such decoders (possibly with different sufficient fuels) -/
theorem nextsF_congr (f₁ f₂ : Dec → Nat) (hf₁ : Enough f₁) (hf₂ : Enough f₂) (n : Nat) :
    ∀ d₁ d₂ : Dec, RdOK d₁ → RdOK d₂ → d₁.p = d₂.p → Good d₁.p → startPending d₁.p = false →
      stream d₁ = stream d₂ → nextsF f₁ n d₁ = nextsF f₂ n d₂ := by
  induction n with
  | zero => intros; rfl
  | succ n ih =>
    intro d₁ d₂ hr₁ hr₂ hp hg hnp hs
    obtain ⟨c1, c2, c3⟩ := next_congr (f₁ d₁) (f₂ d₂) d₁ d₂ hr₁ hr₂ hp hg hnp hs (hf₁ d₁) (hf₂ d₂)
    rw [nextsF_succ, nextsF_succ, ← c1]
    simp only [Parse.events, c2]
    congr 1
    by_cases hok : (next (f₁ d₁) d₁).2 = .ok
    · obtain ⟨k1, k2, k3, k4, k5, k6⟩ := c3 hok
      simp only [hok, beq_self_eq_true, if_true]
      exact ih _ _ k1 k2 k3 k4 k5 k6
    · have : ((next (f₁ d₁) d₁).2 == NextRes.ok) = false := by simpa using hok
      simp only [this, Bool.false_eq_true, if_false]

/-- C18 (3), READ SIZES DO NOT MATTER, for ARBITRARY bytes (valid, invalid or truncated):
any two read scripts with the same concatenation give the same sequence of `Next` results
and the same accumulated events, call by call, up to and including the first call that does
not return `.ok` -/
theorem reader_chunking_independent (f : Dec → Nat) (hf : Enough f) (cs₁ cs₂ : List Bytes)
    (h : cs₁.flatten = cs₂.flatten) (n : Nat) :
    nextsF f n { reads := cs₁ } = nextsF f n { reads := cs₂ } :=
  nextsF_congr f f hf hf n _ _ (Or.inl rfl) (Or.inl rfl) rfl good_init (pending_idle []) (by simp [stream, h])

/-- … and it is the sequence the BYTE-SLICE decoder (`NewBytesDecoder`) produces on the
concatenation -/
theorem reader_eq_bytes_decoder (f : Dec → Nat) (hf : Enough f) (cs : List Bytes) (n : Nat) :
    nextsF f n { reads := cs } = nextsF f n { hasReader := false, buffer := cs.flatten } :=
  nextsF_congr f f hf hf n _ _ (Or.inl rfl) (Or.inr rfl) rfl good_init (pending_idle []) (by simp [stream])

/-- … with the fuel of the model -/
theorem reader_chunking_independent_nextFuel (cs₁ cs₂ : List Bytes) (h : cs₁.flatten = cs₂.flatten) (n : Nat) :
    nexts n { reads := cs₁ } = nexts n { reads := cs₂ } :=
  reader_chunking_independent nextFuel enough_nextFuel cs₁ cs₂ h n

/-- no call ever runs out of fuel (= the loop of `Decoder.Next` terminates), on ANY bytes in
ANY split into reads -/
theorem next_no_outOfFuel (d : Dec) (hr : RdOK d) (hg : Good d.p) (hnp : startPending d.p = false)
    (herr : d.p.err = none) (fuel : Nat) (hf : need d ≤ fuel) :
    (next fuel d).2 ≠ .err .outOfFuel := by
  obtain ⟨a1, a2⟩ := next_canon fuel d hr hg hnp hf
  by_cases hne : stream d = []
  · rw [(a1 hne).1, eof_eq]
    intro hc
    simp only [eofP, eof] at hc
    cases hfin : finalize d.p <;> rw [hfin] at hc <;> cases hc
  · have pa := a2 hne
    have hno : (canon d).err ≠ some .outOfFuel := by
      obtain ⟨c, hv, hrel⟩ := hg.reach
      have hpend : c.pending = false := by rw [← SF.Cbor.Sim.rel_pending hrel]; exact hnp
      exact SF.Cbor.Sim.feedUntil_fuel _ c hv d.p hrel (by rw [herr]; simp) (stream d) (Or.inl hne)
        (by simp only [hpend, fuelFor]; simp; omega)
    cases he : (canon d).err with
    | some e =>
      rw [(pa.err e he).1]
      intro hc; injection hc with hc; subst hc; exact hno he
    | none =>
      cases hd : (canon d).done with
      | true => rw [(pa.ok he hd).1]; intro hc; cases hc
      | false =>
        rw [(pa.eof he hd).1]
        intro hc
        simp only [eofP, eof] at hc
        cases hfin : finalize (canon d).p <;> rw [hfin] at hc <;> cases hc

/-- … hence, for ARBITRARY bytes in ANY split into reads, no call of a sequence of calls on a
fresh decoder reports `outOfFuel`: with `Enough` fuel (e.g. `nextFuel`) the loop of
`Decoder.Next` always terminates -/
theorem nextsF_no_outOfFuel (f : Dec → Nat) (hf : Enough f) (n : Nat) :
    ∀ d : Dec, RdOK d → Good d.p → startPending d.p = false → d.p.err = none →
      ∀ x ∈ nextsF f n d, x.1 ≠ .err .outOfFuel := by
  induction n with
  | zero => intro d _ _ _ _ x hx; simp [nextsF] at hx
  | succ n ih =>
    intro d hr hg hnp herr x hx
    rw [nextsF_succ] at hx
    rcases List.mem_cons.mp hx with hx | hx
    · rw [hx]; exact next_no_outOfFuel d hr hg hnp herr (f d) (hf d)
    · by_cases hok : (next (f d) d).2 = .ok
      · simp only [hok, beq_self_eq_true, if_true] at hx
        obtain ⟨a1, a2⟩ := next_canon (f d) d hr hg hnp (hf d)
        have hne : stream d ≠ [] := by
          intro hc
          have := (a1 hc).1
          rw [hok, eof_eq] at this
          have h' := eofP_ne_ok d.p
          rw [← this] at h'; simp at h'
        have pa := a2 hne
        have he : (canon d).err = none := by
          cases he : (canon d).err with
          | none => rfl
          | some e => have := (pa.err e he).1; rw [hok] at this; cases this
        have hd : (canon d).done = true := by
          cases hd : (canon d).done with
          | true => rfl
          | false =>
            have := (pa.eof he hd).1
            rw [hok] at this
            have h' := eofP_ne_ok (canon d).p
            rw [← this] at h'; simp at h'
        obtain ⟨_, x2, _, x4⟩ := pa.ok he hd
        obtain ⟨g1, g2⟩ := canon_ok_good d hg hne he
        refine ih _ x4 (by rw [x2]; exact g1) (by rw [x2]; exact g2 hd) ?_ x hx
        rw [x2]
        unfold canon
        rw [SF.Props.C03.feedUntil_no_panic_errf]; exact herr
      · have : ((next (f d) d).2 == NextRes.ok) = false := by simpa using hok
        simp [this] at hx

theorem reader_never_outOfFuel (cs : List Bytes) (n : Nat) :
    ∀ x ∈ nexts n { reads := cs }, x.1 ≠ .err .outOfFuel :=
  nextsF_no_outOfFuel nextFuel enough_nextFuel n _ (Or.inl rfl) good_init (pending_idle []) rfl

/-- non-vacuity: an invalid document (a tag inside an array) and a truncated one, each in two
different splits and as a byte slice -/
example :
    nexts 3 { reads := [[0x01, 0x82], [0x01], [0xc0, 0x05]] } = nexts 3 { reads := [[0x01], [], [0x82, 0x01, 0xc0], [0x05]] } ∧
    nexts 3 { reads := [[0x01, 0x82], [0x01], [0xc0, 0x05]] } =
      nexts 3 { hasReader := false, buffer := [0x01, 0x82, 0x01, 0xc0, 0x05] } ∧
    nexts 3 { reads := [[0x01, 0x82], [0x01], [0xc0, 0x05]] } =
      [(.ok, [.num .u8 1]), (.err .tagUnsupported, [.num .u8 1, .arrStart 2 BT.any, .num .u8 1])] := by
  decide +kernel

end SF.Cbor.DecR
