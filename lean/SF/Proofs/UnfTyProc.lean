/-
  Typed targets, part 13: `process` of `unfolderReflMapOnElem` / `unfolderReflPtr` — the prepared
  element has been unfolded into its cell; it is put into the map / behind the pointer.
-/
import SF.Proofs.UnfTyInit
namespace SF.Unf
open SF

variable {D : Nat} {base : S6} {fs : List Frame} {c : Ctx}

/-- popping the cell pointer -/
theorem pop_cellx (C : Path) (G : Frame) (h : Inv D base (.cellx C :: G :: fs) c) :
    ∃ v c1, popValue c = .ok (some C) c1 ∧ Inv D base (G :: fs) c1 ∧ deref c1 C = some v ∧
      c1.unfolder = c.unfolder := by
  have hs : c.s6 = (Frame.cellx C).push (stacksOf base (G :: fs)) := h.stacks
  obtain ⟨hu, hp, hv, hk, hi, hb⟩ := s6_eq _ _ hs
  simp only [Frame.push] at hu hp hv hk hi hb
  obtain ⟨v, hd, _⟩ := h.top_deref
  refine ⟨v, { c with value := (stacksOf base (G :: fs)).v }, by simp [popValue, hv], ?_,
    (deref_congr c _ rfl C).trans hd, rfl⟩
  exact h.pop (s6_mk _ _ hu hp rfl hk hi hb) rfl rfl rfl rfl

/-- `unfolderReflMapOnElem.process` -/
theorem process_rmE (C : Path) (e : GoType) (ru : RU) (p : Path) (key : Bytes)
    (h : Inv D base (.cellx C :: .rmE e ru p key :: fs) c) :
    ∃ c', reflMapOnElemProcess e ru c = .ok () c' ∧ Inv D base (.rmK e ru p :: fs) c' := by
  obtain ⟨v, c1, hpop, hinv, hd, _⟩ := pop_cellx C _ h
  obtain ⟨c', hrun, hinv'⟩ := rmE_set e ru p key v hinv
  refine ⟨c', ?_, hinv'⟩
  rw [← hrun]
  simp only [reflMapOnElemProcess, bind_def, hpop, load_def, hd]

/-- `unfolderReflPtr.process` -/
theorem process_rp (C : Path) (e : GoType) (ru : RU) (p : Path)
    (h : Inv D base (.cellx C :: .rp e ru p :: fs) c) :
    ∃ c', reflPtrProcess e c = .ok () c' ∧ Inv D base fs c' ∧
      c.unfolder.stack.length = c'.unfolder.stack.length + 1 := by
  obtain ⟨v, c1, hpop, hinv, hd, hcu⟩ := pop_cellx C _ h
  obtain ⟨hu, hp, hv, hk, hi, hb⟩ := s6_eq _ _ hinv.stacks
  simp only [stacksOf, Frame.push] at hu hp hv hk hi hb
  obtain ⟨old, hold, _⟩ := hinv.top_deref
  have hold : deref c1 p = some old := hold
  have hrun : reflPtrProcess e c = .ok ()
      { storeAt c1 p (.ptr e v) with value := (stacksOf base fs).v, unfolder := (stacksOf base fs).u } := by
    simp only [reflPtrProcess, bind_def, hpop, load_def, hd, currentValue, hv, Stk.push_current,
      store_at_ok c1 p _ _ hold]
    simp [reflPtrCleanup, bind_def, popValue, popU, hu, hv, pure_def]
  refine ⟨_, hrun, hinv.pop_store c1 rfl (.ptr e v) (flat_ok _) ?_ rfl rfl rfl rfl, ?_⟩
  · exact s6_mk _ _ rfl (by simp [hp]) rfl (by simp [hk]) (by simp [hi]) (by simp [hb])
  · rw [← hcu, hu]
    simp [Stk.push]

end SF.Unf
