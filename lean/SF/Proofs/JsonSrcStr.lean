/-
  JSON as SOURCE, strings: what the reference lexer `Cst.lexString` (= `strVal`, the value the
  JSON parser delivers for every string token it accepts, SF/Proofs/JsonRefineStr.lean) returns

    * is well-formed UTF-8 (RFC 3629, `validUtf8`) — escapes produce `EncodeRune` of a scalar
      value (a lone surrogate ↦ U+FFFD), unescaped bytes are well-formed sequences;
    * is no longer than the token's body.
-/
import SF.Proofs.JsonRefineStr
import SF.Proofs.JsonEncStr
namespace SF.Json.Enc
open SF SF.Json SF.Json.Utf8

/-! ## `validUtf8` and concatenation -/

theorem validUtf8Aux_skip (k : Nat) (tl : Bytes) : validUtf8Aux k tl = validUtf8Aux 0 (tl.drop k) := by
  induction k generalizing tl with
  | zero => simp
  | succ k ih =>
    cases tl with
    | nil => simp [validUtf8Aux]
    | cons b tl => simp [validUtf8Aux, ih tl]

theorem validUtf8Aux_append (n : Nat) : ∀ (a b : Bytes), a.length ≤ n → validUtf8Aux 0 a = true →
    validUtf8Aux 0 b = true → validUtf8Aux 0 (a ++ b) = true := by
  induction n with
  | zero =>
    intro a b hn _ hb
    have : a = [] := by cases a <;> simp_all
    subst this; simpa using hb
  | succ n ih =>
    intro a b hn ha hb
    cases a with
    | nil => simpa using hb
    | cons b0 tl =>
      simp only [List.length_cons] at hn
      simp only [validUtf8Aux] at ha
      simp only [List.cons_append, validUtf8Aux]
      by_cases h0 : b0.toNat < 0x80
      · simp only [h0, if_true] at ha ⊢
        exact ih tl b (by omega) ha hb
      · simp only [h0, if_false] at ha ⊢
        cases hm : mbDecode (b0 :: tl) with
        | none => simp [hm] at ha
        | some cn =>
          obtain ⟨c, m⟩ := cn
          simp only [hm] at ha
          obtain ⟨m2, _, mlen, _, hany, _⟩ := mbDecode_some hm
          have hsplit : b0 :: (tl ++ b) = (b0 :: tl).take m ++ ((b0 :: tl).drop m ++ b) := by
            rw [← List.append_assoc, List.take_append_drop]; rfl
          rw [hsplit, hany]
          simp only
          rw [validUtf8Aux_skip] at ha ⊢
          simp only [List.length_cons] at mlen
          have hd : (tl ++ b).drop (m - 1) = tl.drop (m - 1) ++ b := by
            rw [List.drop_append_of_le_length (by omega)]
          rw [hd]
          exact ih _ b (by simp only [List.length_drop]; omega) ha hb

theorem validUtf8_append (a b : Bytes) (ha : validUtf8 a = true) (hb : validUtf8 b = true) :
    validUtf8 (a ++ b) = true :=
  validUtf8Aux_append a.length a b (Nat.le_refl _) ha hb

theorem validUtf8_ascii (b : UInt8) (h : b.toNat < 0x80) : validUtf8 [b] = true := by
  simp [validUtf8, validUtf8Aux, h]

/-- a well-formed multi-byte sequence on its own -/
theorem validUtf8_seq {p : Bytes} {c n : Nat} (h : mbDecode p = some (c, n)) : validUtf8 (p.take n) = true := by
  obtain ⟨m2, _, mlen, hge, hany, _⟩ := mbDecode_some h
  have h1 := hany []
  rw [List.append_nil] at h1
  match hp : p.take n, h1 with
  | [], h1 => simp [mbDecode] at h1
  | b0 :: tl, h1 =>
    have hl : (b0 :: tl).length = n := by rw [← hp, List.length_take]; omega
    have h0 : ¬ b0.toNat < 0x80 := by
      have := hge b0 (by rw [hp]; simp); omega
    simp only [validUtf8, validUtf8Aux, h0, if_false, h1]
    rw [validUtf8Aux_skip]
    have : tl.drop (n - 1) = [] := by
      apply List.drop_eq_nil_of_le; simp only [List.length_cons] at hl; omega
    rw [this]; rfl

/-! ## `EncodeRune` writes well-formed UTF-8, at most four bytes -/

theorem encodeRune_length (r : Nat) : (encodeRune r).length ≤ 4 := by
  unfold encodeRune encode3
  repeat' split
  all_goals simp

theorem or_c0 (x : Nat) (h : x < 64) : (0xC0 ||| x) = 192 + x := by
  have := Nat.shiftLeft_add_eq_or_of_lt (i := 6) (by omega : x < 2 ^ 6) 3
  simpa [Nat.shiftLeft_eq] using this.symm
theorem or_80 (x : Nat) (h : x < 64) : (0x80 ||| x) = 128 + x := by
  have := Nat.shiftLeft_add_eq_or_of_lt (i := 6) (by omega : x < 2 ^ 6) 2
  simpa [Nat.shiftLeft_eq] using this.symm
theorem or_e0 (x : Nat) (h : x < 16) : (0xE0 ||| x) = 224 + x := by
  have := Nat.shiftLeft_add_eq_or_of_lt (i := 4) (by omega : x < 2 ^ 4) 14
  simpa [Nat.shiftLeft_eq] using this.symm
theorem or_f0 (x : Nat) (h : x < 8) : (0xF0 ||| x) = 240 + x := by
  have := Nat.shiftLeft_add_eq_or_of_lt (i := 3) (by omega : x < 2 ^ 3) 30
  simpa [Nat.shiftLeft_eq] using this.symm

theorem ofNat_toNat (x : Nat) (h : x < 256) : (UInt8.ofNat x).toNat = x := by
  simp [Nat.mod_eq_of_lt h]

theorem valid_two (b0 b1 : UInt8) (h : V2 b0.toNat b1.toNat) : validUtf8 [b0, b1] = true := by
  have h0 : ¬ b0.toNat < 0x80 := by have := h.1; omega
  have hm : mbDecode [b0, b1] = some ((b0.toNat % 32) * 64 + b1.toNat % 64, 2) := by
    simp only [mbDecode]; rw [if_pos h]
  simp [validUtf8, validUtf8Aux, h0, hm]

theorem valid_three (b0 b1 b2 : UInt8) (h : V3 b0.toNat b1.toNat b2.toNat) : validUtf8 [b0, b1, b2] = true := by
  have h0 : ¬ b0.toNat < 0x80 := by rcases h.1 with h | h | h | h <;> omega
  have h2 : ¬ V2 b0.toNat b1.toNat := by intro h2; rcases h.1 with h | h | h | h <;> omega
  have hm : mbDecode [b0, b1, b2] =
      some ((b0.toNat % 16) * 4096 + (b1.toNat % 64) * 64 + b2.toNat % 64, 3) := by
    simp only [mbDecode]; rw [if_neg h2, if_pos h]
  simp [validUtf8, validUtf8Aux, h0, hm]

theorem valid_four (b0 b1 b2 b3 : UInt8) (h : V4 b0.toNat b1.toNat b2.toNat b3.toNat) :
    validUtf8 [b0, b1, b2, b3] = true := by
  have h0 : ¬ b0.toNat < 0x80 := by rcases h.1 with h | h | h <;> omega
  have h2 : ¬ V2 b0.toNat b1.toNat := by intro h2; rcases h.1 with h | h | h <;> omega
  have h3 : ¬ V3 b0.toNat b1.toNat b2.toNat := by
    intro h3; rcases h.1 with h | h | h <;> rcases h3.1 with g | g | g | g <;> omega
  have hm : mbDecode [b0, b1, b2, b3] =
      some ((b0.toNat % 8) * 262144 + (b1.toNat % 64) * 4096 + (b2.toNat % 64) * 64 + b3.toNat % 64, 4) := by
    simp only [mbDecode]; rw [if_neg h2, if_neg h3, if_pos h]
  simp [validUtf8, validUtf8Aux, h0, hm]

theorem valid_encode3 (r : Nat) (h1 : 0x800 ≤ r) (h2 : r ≤ 0xFFFF) (h3 : ¬ (0xD800 ≤ r ∧ r < 0xE000)) :
    validUtf8 (encode3 r) = true := by
  unfold encode3
  apply valid_three
  have e0 : r >>> 12 = r / 4096 := by rw [Nat.shiftRight_eq_div_pow]
  have e1 : (r >>> 6) &&& 0x3F = (r / 64) % 64 := by rw [Nat.shiftRight_eq_div_pow]; exact and63 _
  have e2 : r &&& 0x3F = r % 64 := and63 _
  rw [e0, e1, e2, or_e0 _ (by omega), or_80 _ (by omega), or_80 _ (by omega),
    ofNat_toNat _ (by omega), ofNat_toNat _ (by omega), ofNat_toNat _ (by omega)]
  simp only [V3, isTail]
  omega

theorem validUtf8_encodeRune (r : Nat) : validUtf8 (encodeRune r) = true := by
  unfold encodeRune
  split
  · rename_i h
    exact validUtf8_ascii _ (by rw [ofNat_toNat _ (by omega)]; omega)
  · rename_i h1
    split
    · rename_i h2
      apply valid_two
      have e0 : r >>> 6 = r / 64 := by rw [Nat.shiftRight_eq_div_pow]
      have e2 : r &&& 0x3F = r % 64 := and63 _
      rw [e0, e2, or_c0 _ (by omega), or_80 _ (by omega), ofNat_toNat _ (by omega), ofNat_toNat _ (by omega)]
      simp only [V2, isTail]
      omega
    · rename_i h2
      split
      · exact valid_encode3 runeError (by decide) (by decide) (by decide)
      · rename_i h3
        have h3' : r ≤ 0x10FFFF ∧ ¬ (0xD800 ≤ r ∧ r < 0xE000) := by
          simp [maxRune, surr1, surr3] at h3
          obtain ⟨a, b⟩ := h3
          refine ⟨a, fun ⟨c, d⟩ => ?_⟩
          have := b (decide_eq_true c)
          exact absurd d (of_decide_eq_false this)
        split
        · rename_i h4
          exact valid_encode3 r (by omega) h4 (by omega)
        · rename_i h4
          apply valid_four
          have e0 : r >>> 18 = r / 262144 := by rw [Nat.shiftRight_eq_div_pow]
          have e1 : (r >>> 12) &&& 0x3F = (r / 4096) % 64 := by rw [Nat.shiftRight_eq_div_pow]; exact and63 _
          have e2 : (r >>> 6) &&& 0x3F = (r / 64) % 64 := by rw [Nat.shiftRight_eq_div_pow]; exact and63 _
          have e3 : r &&& 0x3F = r % 64 := and63 _
          rw [e0, e1, e2, e3, or_f0 _ (by omega), or_80 _ (by omega), or_80 _ (by omega), or_80 _ (by omega),
            ofNat_toNat _ (by omega), ofNat_toNat _ (by omega), ofNat_toNat _ (by omega), ofNat_toNat _ (by omega)]
          simp only [V4, isTail]
          omega

/-! ## the reference lexer's result -/

theorem hex4_length (b : Bytes) (r : Nat) (rest : Bytes) (h : Cst.hex4 b = .ok (r, rest)) :
    b.length = rest.length + 4 := by
  unfold Cst.hex4 at h
  split at h
  · split at h
    · simp only [Except.ok.injEq, Prod.mk.injEq] at h
      rw [← h.2]; simp
    · simp at h
  · split at h <;> simp at h

theorem valid_snoc (acc piece : Bytes) (ha : validUtf8 acc.reverse = true) (hp : validUtf8 piece = true) :
    validUtf8 (piece.reverse ++ acc).reverse = true := by
  rw [List.reverse_append, List.reverse_reverse]
  exact validUtf8_append _ _ ha hp

theorem valid_cons (acc : Bytes) (b : UInt8) (ha : validUtf8 acc.reverse = true) (hb : b.toNat < 0x80) :
    validUtf8 (b :: acc).reverse = true := by
  have := valid_snoc acc [b] ha (validUtf8_ascii b hb)
  simpa using this

/-- whatever the reference lexer returns for a string token is well-formed UTF-8 (given that
what it has accumulated so far is) and no longer than what it consumed -/
theorem lexString_spec (f : Nat) (body acc : Bytes) (s rest : Bytes) (hv : validUtf8 acc.reverse = true)
    (h : Cst.lexString f body acc = .ok (s, rest)) :
    validUtf8 s = true ∧ s.length + rest.length + 1 ≤ acc.length + body.length := by
  fun_induction Cst.lexString f body acc
  case case1 => simp at h
  case case2 => simp at h
  case case3 =>
    simp only [Except.ok.injEq, Prod.mk.injEq] at h
    rw [← h.1, ← h.2]
    exact ⟨hv, by simp; omega⟩
  case case4 => simp at h
  case case5 ih => obtain ⟨a, b⟩ := ih _ (valid_cons _ _ hv (by decide)) h; exact ⟨a, by simp at b ⊢; omega⟩
  case case6 ih => obtain ⟨a, b⟩ := ih _ (valid_cons _ _ hv (by decide)) h; exact ⟨a, by simp at b ⊢; omega⟩
  case case7 ih => obtain ⟨a, b⟩ := ih _ (valid_cons _ _ hv (by decide)) h; exact ⟨a, by simp at b ⊢; omega⟩
  case case8 ih => obtain ⟨a, b⟩ := ih _ (valid_cons _ _ hv (by decide)) h; exact ⟨a, by simp at b ⊢; omega⟩
  case case9 ih => obtain ⟨a, b⟩ := ih _ (valid_cons _ _ hv (by decide)) h; exact ⟨a, by simp at b ⊢; omega⟩
  case case10 ih => obtain ⟨a, b⟩ := ih _ (valid_cons _ _ hv (by decide)) h; exact ⟨a, by simp at b ⊢; omega⟩
  case case11 ih => obtain ⟨a, b⟩ := ih _ (valid_cons _ _ hv (by decide)) h; exact ⟨a, by simp at b ⊢; omega⟩
  case case12 ih => obtain ⟨a, b⟩ := ih _ (valid_cons _ _ hv (by decide)) h; exact ⟨a, by simp at b ⊢; omega⟩
  case case13 => simp at h
  case case14 r1 _ rest3 r2 rest4 hx2 _ hx1 _ ih =>
    obtain ⟨a, b⟩ := ih (valid_snoc _ _ hv (validUtf8_encodeRune _)) h
    have l1 := hex4_length _ _ _ hx1
    have l2 := hex4_length _ _ _ hx2
    have l3 := encodeRune_length (decodeSurrogates r1 r2)
    refine ⟨a, ?_⟩
    simp only [List.length_append, List.length_reverse, List.length_cons] at b l1 ⊢
    omega
  case case15 r1 _ rest3 r2 rest4 hx2 _ hx1 _ ih =>
    obtain ⟨a, b⟩ := ih (valid_snoc _ _ hv (validUtf8_encodeRune _)) h
    have l1 := hex4_length _ _ _ hx1
    have l3 := encodeRune_length runeError
    refine ⟨a, ?_⟩
    simp only [List.length_append, List.length_reverse, List.length_cons] at b l1 ⊢
    omega
  case case16 => simp at h
  case case17 => simp at h
  case case18 r1 rest2 hx1 _ _ _ ih =>
    obtain ⟨a, b⟩ := ih (valid_snoc _ _ hv (validUtf8_encodeRune _)) h
    have l1 := hex4_length _ _ _ hx1
    have l3 := encodeRune_length runeError
    refine ⟨a, ?_⟩
    simp only [List.length_append, List.length_reverse, List.length_cons] at b l1 ⊢
    omega
  case case19 r1 rest2 hx1 _ _ _ ih =>
    obtain ⟨a, b⟩ := ih (valid_snoc _ _ hv (validUtf8_encodeRune _)) h
    have l1 := hex4_length _ _ _ hx1
    have l3 := encodeRune_length runeError
    refine ⟨a, ?_⟩
    simp only [List.length_append, List.length_reverse, List.length_cons] at b l1 ⊢
    omega
  case case20 r1 rest2 hx1 _ _ _ ih =>
    obtain ⟨a, b⟩ := ih (valid_snoc _ _ hv (validUtf8_encodeRune _)) h
    have l1 := hex4_length _ _ _ hx1
    have l3 := encodeRune_length r1
    refine ⟨a, ?_⟩
    simp only [List.length_append, List.length_reverse, List.length_cons] at b l1 ⊢
    omega
  case case21 => simp at h
  case case22 => simp at h
  case case23 c _ _ _ _ _ hlt ih =>
    have hc : c.toNat < 0x80 := by simpa [UInt8.lt_iff_toNat_lt] using hlt
    obtain ⟨a, b⟩ := ih (valid_cons _ _ hv hc) h
    exact ⟨a, by simp at b ⊢; omega⟩
  case case24 => simp at h
  case case25 => simp at h
  case case26 => simp at h
  case case27 c tl _ _ _ _ hge r sz hd hsz ih =>
    have hc : 0x80 ≤ c.toNat := by
      have : ¬ c.toNat < 128 := by simpa [UInt8.lt_iff_toNat_lt] using hge
      omega
    have hdm := decodeRune_mb c tl hc
    rw [hd] at hdm
    cases hm : mbDecode (c :: tl) with
    | none => rw [hm] at hdm; simp only [Option.getD_none, Prod.mk.injEq] at hdm; omega
    | some cn =>
      obtain ⟨c', n⟩ := cn
      rw [hm] at hdm
      simp only [Option.getD_some, Prod.mk.injEq] at hdm
      obtain ⟨rfl, rfl⟩ := hdm
      obtain ⟨a, b⟩ := ih (valid_snoc _ _ hv (validUtf8_seq hm)) h
      refine ⟨a, ?_⟩
      simp only [List.length_append, List.length_reverse, List.length_take, List.length_drop,
        List.length_cons] at b ⊢
      omega

end SF.Json.Enc

namespace SF.Json.ParseP
open SF SF.Json SF.Json.Enc

/-- the value of every string token the reference lexer accepts — the bytes the JSON parser
delivers for it — is well-formed UTF-8 -/
theorem strVal_valid (raw s : Bytes) (h : strVal raw = some s) : validUtf8 s = true := by
  unfold strVal at h
  split at h
  · rename_i s' hl
    simp only [Option.some.injEq] at h
    subst h
    exact (lexString_spec _ _ _ _ _ rfl hl).1
  · simp at h

/-- … and no longer than the token's body -/
theorem strVal_length (raw s : Bytes) (h : strVal raw = some s) : s.length ≤ raw.length := by
  unfold strVal at h
  split at h
  · rename_i s' hl
    simp only [Option.some.injEq] at h
    subst h
    have := (lexString_spec _ _ _ _ _ rfl hl).2
    simp only [List.length_append, List.length_cons, List.length_nil] at this
    omega
  · simp at h

/-- non-vacuity: a lone surrogate escape, a surrogate pair, raw UTF-8 -/
example : strVal [0x5c, 0x75, 0x64, 0x38, 0x30, 0x30, 0xc3, 0xa9] = some [0xef, 0xbf, 0xbd, 0xc3, 0xa9] ∧
    validUtf8 [0xef, 0xbf, 0xbd, 0xc3, 0xa9] = true := by decide +kernel

end SF.Json.ParseP
