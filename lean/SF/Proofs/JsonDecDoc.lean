/-
  Helper lemmas for C18 (JSON pull decoder): WHAT THE LOOP `feedUntil` (= `U`) DOES ON A
  GRAMMATICAL DOCUMENT.  The refinement theorems for the JSON parser (SF/Proofs/JsonRefine*.lean)
  speak about `run`, which reads the whole input; `Decoder.Next` calls `feedUntil`, which
  returns after the first top-level value.  Here the reading of a grammatical text is followed
  STEP BY STEP (`QT`: a sequence of steps none of which completes a top-level value; `ReadsT`:
  such a sequence followed by one more step), by the same induction over the grammar, with the
  same token lemmas.  Result (`U_doc`): from an idle state, the loop over
  `white space ++ text of a value ++ more` returns after exactly the value, has delivered
  exactly its events, is idle again, and hands back `more`.
-/
import SF.Proofs.JsonDecUntil
import SF.Proofs.JsonRefineDoc
set_option linter.unusedSimpArgs false
set_option linter.unusedVariables false
namespace SF.Json.DecP
open SF SF.Json SF.Json.Parse SF.Json.Float SF.Json.ParseP SF.Json.Grammar ETree

/-! ## white space -/

theorem execStep_allws (p : P) (ws : Bytes) (ht : trims p.currentState = true) (hws : allWs ws = true)
    (hne : ws ≠ []) : execStep p ws = ({ p := p, rest := [] }, false) := by
  induction ws with
  | nil => exact absurd rfl hne
  | cons a ws ih =>
    simp only [allWs, List.all_cons, Bool.and_eq_true] at hws
    have hsp := (isWs_space a hws.1).1
    by_cases hw : ws = []
    · subst hw; exact (execStep_space p a [] ht hsp).1
    · rw [(execStep_space p a ws ht hsp).2]
      exact ih (by simpa [allWs] using hws.2) hw

theorem execStep_ws (p : P) (ws s : Bytes) (ht : trims p.currentState = true) (hws : allWs ws = true) :
    execStep p (ws ++ s) = execStep p s ∨ s = [] := by
  induction ws with
  | nil => exact Or.inl rfl
  | cons a ws ih =>
    simp only [allWs, List.all_cons, Bool.and_eq_true] at hws
    have hsp := (isWs_space a hws.1).1
    rcases ih (by simpa [allWs] using hws.2) with h | h
    · left
      rw [List.cons_append, (execStep_space p a (ws ++ s) ht hsp).2, h]
    · exact Or.inr h

/-- white space only: one step, nothing happens -/
theorem U_ws (p : P) (ws : Bytes) (h : ParseP.WF p) (ht : trims p.currentState = true) (hws : allWs ws = true) :
    U p ws = { p := p, rest := [] } := by
  by_cases hne : ws = []
  · subst hne; exact U_nil p
  · have he := execStep_allws p ws ht hws hne
    rw [U_cont p ws hne h (by rw [he]) (by rw [he]; rfl), he]
    exact U_nil p

/-! ## sequences of steps that complete no top-level value -/

/-- from `(p, s)` the loop reaches `(q, t)` by steps without error none of which completes a
top-level value -/
inductive QT : P → Bytes → P → Bytes → Prop
  | refl (p : P) (s : Bytes) : QT p s p s
  | step {p : P} {s : Bytes} {q : P} {t : Bytes} : s ≠ [] → (execStep p s).1.err = none →
      flag (execStep p s).1 = false → QT (execStep p s).1.p (execStep p s).1.rest q t → QT p s q t

theorem QT.trans {p q r : P} {s t u : Bytes} (h1 : QT p s q t) (h2 : QT q t r u) : QT p s r u := by
  induction h1 with
  | refl => exact h2
  | step hs he hf _ ih => exact QT.step hs he hf (ih h2)

/-- the loop goes through them -/
theorem QT.loop {p q : P} {s t : Bytes} (h : QT p s q t) (hw : ParseP.WF p) : U p s = U q t ∧ ParseP.WF q := by
  induction h with
  | refl => exact ⟨rfl, hw⟩
  | step hs he hf _ ih =>
    rw [U_cont _ _ hs hw he hf]
    exact ih (execStep_wf _ _ hs hw).2

/-- if they end with an empty stack, the stack was empty all the time and nothing was delivered -/
theorem QT.empty {p q : P} {s t : Bytes} (h : QT p s q t) (hw : ParseP.WF p) (hq : q.states = []) :
    p.states = [] ∧ q.evs = p.evs := by
  induction h with
  | refl => exact ⟨hq, rfl⟩
  | @step p s q t hs he hf _ ih =>
    obtain ⟨k1, k2⟩ := ih (execStep_wf _ _ hs hw).2 hq
    have hr : (execStep p s).1.reported = false := by
      cases hr : (execStep p s).1.reported with
      | false => rfl
      | true => simp [flag, hr, k1] at hf
    obtain ⟨j1, j2⟩ := quiet_of_empty p s hs hw he k1 hr
    exact ⟨j1, by rw [k2, j2]⟩

theorem flag_false_of_ne {s : R} (h : s.p.states ≠ []) : flag s = false := by
  unfold flag
  cases hs : s.p.states with
  | nil => exact absurd hs h
  | cons _ _ => simp

/-! ## reading a text step by step -/

/-- from state `p` the text `w` — whatever follows it, subject to `F` — is read by steps that
complete no top-level value, followed by one last step (which may), WITHOUT ERROR; exactly the
events `es` are delivered, and the parser is left in a state of class `Q` with what follows
still to be read -/
def ReadsT (p : P) (w : Bytes) (es : List Ev) (Q : P → Prop) (F : Bytes → Prop) : Prop :=
  ∀ more, F more → ∃ p0 s0 q rep, QT p (w ++ more) p0 s0 ∧ s0 ≠ [] ∧
    execStep p0 s0 = ({ p := q, rest := more, reported := rep, err := none }, false) ∧ Q q ∧
    q.evs = es.reverse ++ p.evs

theorem treads_seq {p : P} {w1 w2 : Bytes} {es1 es2 : List Ev} {Q Q' : P → Prop} {F1 F2 : Bytes → Prop}
    (hwf : ParseP.WF p) (hQ : ∀ p1, Q p1 → p1.states ≠ [])
    (h1 : ReadsT p w1 es1 Q F1) (h2 : ∀ p1, Q p1 → ReadsT p1 w2 es2 Q' F2)
    (hF : ∀ more, F2 more → F1 (w2 ++ more)) : ReadsT p (w1 ++ w2) (es1 ++ es2) Q' F2 := by
  intro more hm
  rw [List.append_assoc]
  obtain ⟨p0, s0, p1, rep, t1, n1, x1, q1, e1⟩ := h1 (w2 ++ more) (hF more hm)
  obtain ⟨p0', s0', p2, rep', t2, n2, x2, q2, e2⟩ := h2 p1 q1 more hm
  refine ⟨p0', s0', p2, rep', ?_, n2, x2, q2, by rw [e2, e1]; simp⟩
  refine QT.trans t1 (QT.step n1 (by rw [x1]) ?_ ?_)
  · rw [x1]; exact flag_false_of_ne (hQ p1 q1)
  · rw [x1]; exact t2

theorem treads_weaken {p : P} {w : Bytes} {es : List Ev} {Q : P → Prop} {F : Bytes → Prop}
    (h : ReadsT p w es Q anyF) : ReadsT p w es Q F := fun more _ => h more trivial

theorem treads_ws {p : P} {ws w : Bytes} {es : List Ev} {Q : P → Prop} {F : Bytes → Prop} (hinv : Inv p)
    (ht : trims p.currentState = true) (hws : allWs ws = true) (h : ReadsT p w es Q F) :
    ReadsT p (ws ++ w) es Q F := by
  intro more hm
  rw [List.append_assoc]
  obtain ⟨p0, s0, q, rep, t1, n1, x1, q1, e1⟩ := h more hm
  cases t1 with
  | refl =>
    rcases execStep_ws p ws (w ++ more) ht hws with hx | hx
    · refine ⟨p, ws ++ (w ++ more), q, rep, QT.refl _ _, ?_, by rw [hx, x1], q1, e1⟩
      intro hc; exact n1 (List.append_eq_nil_iff.mp hc).2
    · exact absurd hx n1
  | step hs he hf t2 =>
    rcases execStep_ws p ws (w ++ more) ht hws with hx | hx
    · refine ⟨p0, s0, q, rep, QT.step ?_ (by rw [hx]; exact he) (by rw [hx]; exact hf) (by rw [hx]; exact t2),
        n1, x1, q1, e1⟩
      intro hc; exact hs (List.append_eq_nil_iff.mp hc).2
    · exact absurd hx hs

theorem treads_move {p q : P} {x : UInt8} {w : Bytes} {es : List Ev} {Q : P → Prop} {F : Bytes → Prop}
    (hwf : ParseP.WF p)
    (h : ∀ t, ∃ rep, execStep p (x :: t) = ({ p := q, rest := x :: t, reported := rep, err := none }, false))
    (he : q.evs = p.evs) (hne : q.states ≠ []) (hl : ReadsT q (x :: w) es Q F) : ReadsT p (x :: w) es Q F := by
  intro more hm
  obtain ⟨rep, hs⟩ := h (w ++ more)
  obtain ⟨p0, s0, q', rep', t1, n1, x1, q1, e1⟩ := hl more hm
  refine ⟨p0, s0, q', rep', ?_, n1, x1, q1, by rw [e1, he]⟩
  rw [List.cons_append]
  refine QT.step (by simp) (by rw [hs]) ?_ ?_
  · rw [hs]; exact flag_false_of_ne hne
  · rw [hs]; exact t1

/-- a step that takes the non-empty `w` off the front, without error -/
theorem readsT_of_step (p : P) (w : Bytes) (hw : w ≠ []) (es : List Ev) (Q : P → Prop) (F : Bytes → Prop)
    (hwf : ParseP.WF p)
    (h : ∀ more, F more → ∃ q rep,
      execStep p (w ++ more) = ({ p := q, rest := more, reported := rep, err := none }, false) ∧
      q.evs = es.reverse ++ p.evs ∧ (ParseP.WF q → Q q)) :
    ReadsT p w es Q F := by
  intro more hm
  obtain ⟨q, rep, he, hev, hq⟩ := h more hm
  have hne : w ++ more ≠ [] := by intro hc; exact hw (List.append_eq_nil_iff.mp hc).1
  have hq' : ParseP.WF q := by
    have := (execStep_wf p (w ++ more) hne hwf).2
    rw [he] at this; exact this
  exact ⟨p, w ++ more, q, rep, QT.refl _ _, hne, he, hq hq', hev⟩

theorem readyN_wf {p : P} {r : St} {S : List St} (h : ReadyN p r S) : ParseP.WF p := by
  obtain ⟨c, hat, _, _⟩ := h.1.at
  exact hat.wf

/-! ## brackets, commas, colons -/

theorem treads_lbrack {p : P} {r : St} {S : List St} (h : ReadyN p r S) :
    ReadsT p [0x5b] [.arrStart (-1) BT.any] (fun q => AtN q .arrState (r :: S)) anyF := by
  obtain ⟨c, hat, _, _⟩ := h.1.at
  have hr := isRet_pushOk h.1.1
  apply readsT_of_step p [0x5b] (by simp) _ _ _ hat.wf
  intro more _
  have e1 := stepValue_lbrack p r more
  rw [pushState_ret p r _ hr, visit_none _ _ (by exact h.2)] at e1
  obtain ⟨rep, he⟩ := h.1.step (0x5b :: more) _ more false _ e1
  exact ⟨_, rep, he, rfl, fun hq => ⟨⟨hq, hat.clean, rfl, by simp only [hat.st]⟩, h.2⟩⟩

theorem treads_lbrace {p : P} {r : St} {S : List St} (h : ReadyN p r S) :
    ReadsT p [0x7b] [.objStart (-1) BT.any] (fun q => AtN q .dictState (r :: S)) anyF := by
  obtain ⟨c, hat, _, _⟩ := h.1.at
  have hr := isRet_pushOk h.1.1
  apply readsT_of_step p [0x7b] (by simp) _ _ _ hat.wf
  intro more _
  have e1 := stepValue_lbrace p r more
  rw [pushState_ret p r _ hr, visit_none _ _ (by exact h.2)] at e1
  obtain ⟨rep, he⟩ := h.1.step (0x7b :: more) _ more false _ e1
  exact ⟨_, rep, he, rfl, fun hq => ⟨⟨hq, hat.clean, rfl, by simp only [hat.st]⟩, h.2⟩⟩

theorem treads_rbrack {p : P} {c r : St} {S : List St} (h : AtN p c (r :: S))
    (hc : c = .arrState ∨ c = .arrStateNext) : ReadsT p [0x5d] [.arrEnd] (fun q => AtN q r S) anyF := by
  apply readsT_of_step p [0x5d] (by simp) _ _ _ h.1.wf
  intro more _
  have hv : visit (popState p) .arrEnd =
      (({ p with currentState := r, states := S, evs := .arrEnd :: p.evs, nevs := p.nevs + 1 } : P), none) := by
    rw [popState_cons p r S h.1.st, visit_none _ _ (by exact h.2)]
  refine ⟨{ p with currentState := r, states := S, evs := .arrEnd :: p.evs, nevs := p.nevs + 1 }, true, ?_, rfl,
    fun hq => ⟨⟨hq, h.1.clean, rfl, rfl⟩, h.2⟩⟩
  rw [List.singleton_append]
  rcases hc with rfl | rfl
  · unfold execStep; rw [h.1.cs]; simp only [stepArray]; rw [trimLeft_ns _ (by decide)]
    simp only [endArray, hv]; rfl
  · unfold execStep; rw [h.1.cs]; simp only [stepArrValueEnd]; rw [trimLeft_ns _ (by decide)]
    simp only [endArray, hv]; rfl

theorem treads_rbrace {p : P} {c r : St} {S : List St} (h : AtN p c (r :: S))
    (hc : c = .dictState ∨ c = .dictFieldStateEnd) : ReadsT p [0x7d] [.objEnd] (fun q => AtN q r S) anyF := by
  apply readsT_of_step p [0x7d] (by simp) _ _ _ h.1.wf
  intro more _
  have hv : visit (popState p) .objEnd =
      (({ p with currentState := r, states := S, evs := .objEnd :: p.evs, nevs := p.nevs + 1 } : P), none) := by
    rw [popState_cons p r S h.1.st, visit_none _ _ (by exact h.2)]
  refine ⟨{ p with currentState := r, states := S, evs := .objEnd :: p.evs, nevs := p.nevs + 1 }, true, ?_, rfl,
    fun hq => ⟨⟨hq, h.1.clean, rfl, rfl⟩, h.2⟩⟩
  rw [List.singleton_append]
  rcases hc with rfl | rfl
  · unfold execStep; rw [h.1.cs]; simp only [stepDict]; rw [trimLeft_ns _ (by decide)]
    simp only [endDict, hv]; rfl
  · unfold execStep; rw [h.1.cs]; simp only [stepDictValueEnd]; rw [trimLeft_ns _ (by decide)]
    simp only [endDict, hv]; rfl

theorem treads_comma_arr {p : P} {S : List St} (h : AtN p .arrStateNext S) :
    ReadsT p [0x2c] [] (fun q => AtN q .arrStateValue S) anyF := by
  apply readsT_of_step p [0x2c] (by simp) _ _ _ h.1.wf
  intro more _
  refine ⟨{ p with currentState := .arrStateValue }, false, ?_, rfl, fun hq => atN_setCs h hq⟩
  rw [List.singleton_append]
  unfold execStep; rw [h.1.cs]; simp only [stepArrValueEnd]; rw [trimLeft_ns _ (by decide)]; rfl

theorem treads_comma_obj {p : P} {S : List St} (h : AtN p .dictFieldStateEnd S) :
    ReadsT p [0x2c] [] (fun q => AtN q .dictNextFieldState S) anyF := by
  apply readsT_of_step p [0x2c] (by simp) _ _ _ h.1.wf
  intro more _
  refine ⟨{ p with currentState := .dictNextFieldState }, false, ?_, rfl, fun hq => atN_setCs h hq⟩
  rw [List.singleton_append]
  unfold execStep; rw [h.1.cs]; simp only [stepDictValueEnd]; rw [trimLeft_ns _ (by decide)]; rfl

theorem treads_colon {p : P} {S : List St} (h : AtN p .dictFieldValueSep S) :
    ReadsT p [0x3a] [] (fun q => AtN q .dictFieldValue S) anyF := by
  apply readsT_of_step p [0x3a] (by simp) _ _ _ h.1.wf
  intro more _
  refine ⟨{ p with currentState := .dictFieldValue }, false, ?_, rfl, fun hq => atN_setCs h hq⟩
  rw [List.singleton_append]
  unfold execStep; rw [h.1.cs]; simp only; rw [trimLeft_ns _ (by decide)]; rfl

/-! ## literals -/

theorem treads_lit_aux {p : P} {r : St} {S : List St} (h : ReadyN p r S) (kind : String) (err : Err) (ev : Ev)
    (litSt : St) (c : UInt8) (tl : Bytes) (hk : strBytes kind = c :: tl)
    (hdisp : ∀ b, stepValue p (c :: b) r =
      stepLit { pushState { p with currentState := r } litSt with required := tl.length } b kind err ev) :
    ReadsT p (c :: tl) [ev] (fun q => AtN q r S) anyF := by
  obtain ⟨c0, hat, _, _⟩ := h.1.at
  have hpush := pushState_ret p r litSt (isRet_pushOk h.1.1)
  apply readsT_of_step p (c :: tl) (by simp) _ _ _ hat.wf
  intro more _
  have e1 := hdisp (tl ++ more)
  rw [stepLit_word _ kind err ev c tl more hk rfl, hpush, popState_cons _ r p.states rfl,
    visit_none _ _ (by exact h.2)] at e1
  obtain ⟨rep, he⟩ := h.1.step (c :: tl ++ more) _ more true _ e1
  exact ⟨_, rep, he, rfl, fun hq => ⟨⟨hq, hat.clean, rfl, hat.st⟩, h.2⟩⟩

theorem treads_lit {p : P} {r : St} {S : List St} (h : ReadyN p r S) (k : LitK) :
    ReadsT p k.word [litEv k] (fun q => AtN q r S) anyF := by
  cases k with
  | null =>
    exact treads_lit_aux h "null" .expectedNull .null .nullState 0x6e [0x75, 0x6c, 0x6c] kind_null
      (by intro b; unfold stepValue; rw [trimLeft_ns _ (by decide)]; rfl)
  | tru =>
    exact treads_lit_aux h "true" .expectedTrue (.bool true) .trueState 0x74 [0x72, 0x75, 0x65] kind_true
      (by intro b; unfold stepValue; rw [trimLeft_ns _ (by decide)]; rfl)
  | fals =>
    exact treads_lit_aux h "false" .expectedFalse (.bool false) .falseState 0x66 [0x61, 0x6c, 0x73, 0x65]
      kind_false (by intro b; unfold stepValue; rw [trimLeft_ns _ (by decide)]; rfl)

/-! ## strings and keys -/

theorem treads_str {p : P} {r : St} {S : List St} (h : ReadyN p r S) (raw s : Bytes) (hs : strVal raw = some s) :
    ReadsT p (0x22 :: (raw ++ [0x22])) [.str s] (fun q => AtN q r S) anyF := by
  obtain ⟨c0, hat, _, _⟩ := h.1.at
  have hpush := pushState_ret { p with literalBuffer := [] } r .stringState (isRet_pushOk h.1.1)
  simp only at hpush
  apply readsT_of_step p _ (by simp) _ _ _ hat.wf
  intro more _
  have e1 := stepValue_quote p r (raw ++ 0x22 :: more)
  rw [hpush] at e1
  unfold stepString at e1
  rw [doString_body _ rfl rfl raw more (strVal_bodyOk raw s hs), (strVal_unquote raw s hs).1] at e1
  simp only [Bool.true_and, Option.isNone_none, if_true] at e1
  rw [popState_cons _ r p.states rfl, visit_none _ _ (by exact h.2)] at e1
  have e0 : (0x22 :: (raw ++ [0x22]) ++ more : Bytes) = 0x22 :: (raw ++ 0x22 :: more) := by simp
  rw [e0]
  obtain ⟨rep, he⟩ := h.1.step _ _ _ _ _ e1
  exact ⟨_, rep, he, rfl, fun hq => ⟨⟨hq, ⟨rfl, rfl⟩, rfl, hat.st⟩, h.2⟩⟩

theorem treads_key {p : P} {S : List St} (h : AtN p .dictFieldState S) (key k : Bytes) (hs : strVal key = some k) :
    ReadsT p (0x22 :: (key ++ [0x22])) [.key k] (fun q => AtN q .dictFieldValueSep S) anyF := by
  have hE : ∀ b, execStep p b = (stepDictKey p b, false) := by
    intro b; unfold execStep; rw [h.1.cs]
  apply readsT_of_step p _ (by simp) _ _ _ h.1.wf
  intro more _
  have e0 : (0x22 :: (key ++ [0x22]) ++ more : Bytes) = 0x22 :: (key ++ 0x22 :: more) := by simp
  rw [e0, hE]
  unfold stepDictKey
  rw [doString_body p h.1.clean.1 h.1.clean.2 key more (strVal_bodyOk key k hs), (strVal_unquote key k hs).1]
  simp only [Bool.true_and, Option.isNone_none, if_true]
  rw [visit_none _ _ (by exact h.2)]
  exact ⟨_, _, rfl, rfl, fun hq => ⟨⟨hq, ⟨h.1.clean.1, rfl⟩, rfl, h.1.st⟩, h.2⟩⟩

/-! ## numbers -/

/-- a number followed by a stop character -/
theorem treads_num {p : P} {r : St} {S : List St} (h : ReadyN p r S) (tok : Bytes) (hb : tokOk tok = true) (ev : Ev)
    (hev : numEv tok = some ev) : ReadsT p tok [ev] (fun q => AtN q r S) stopF := by
  obtain ⟨c0, hat, _, _⟩ := h.1.at
  cases tok with
  | nil => simp [tokOk] at hb
  | cons a tl =>
    simp only [tokOk, Bool.and_eq_true] at hb
    obtain ⟨ha, hall⟩ := hb
    have hpush := pushState_ret { p with isDouble := false, literalBuffer := [] } r .numberState (isRet_pushOk h.1.1)
    simp only at hpush
    apply readsT_of_step p _ (by simp) _ _ _ hat.wf
    intro more hm
    obtain ⟨c, t, rfl, hc⟩ := hm
    obtain ⟨k1, k2, k3⟩ := scan_tok_stop (a :: tl) c t false hall hc
    have k4 := scan_dbl_stop (a :: tl) c t false hall hc
    have e1 := stepValue_num p r a (tl ++ c :: t) ha
    rw [hpush, stepNumber_done _ _ k3] at e1
    simp only [List.cons_append] at k1 k2 k4 e1 ⊢
    simp only [k1, k2, k4, List.nil_append, Bool.false_or] at e1
    rw [reportNumber_numEv _ (a :: tl) ev hev, visit_none _ _ (by exact h.2), popState_cons _ r p.states rfl] at e1
    obtain ⟨rep, he⟩ := h.1.step _ _ _ _ _ e1
    exact ⟨_, rep, he, rfl, fun hq => ⟨⟨hq, ⟨rfl, hat.clean.2⟩, rfl, hat.st⟩, h.2⟩⟩

/-! ## the grammar -/

/-- a value, read from any state that reads a value -/
def TJReads (v : J) : Prop :=
  ∀ p r S, ReadyN p r S → ReadsT p v.wire v.events (fun q => AtN q r S) (follow v)

/-- the rest `w` of a container, read in state `c` inside it, delivering `es` -/
def TInReads (c : St) (w : Bytes) (es : List Ev) : Prop :=
  ∀ p r S, AtN p c (r :: S) → PushOk S r → ReadsT p w es (fun q => AtN q r S) anyF

/-- a value inside a container, white space, the rest of the container -/
theorem telem_reads (cv ca : St) (hv : (cv = .arrStateValue ∧ ca = .arrStateNext) ∨
      (cv = .dictFieldValue ∧ ca = .dictFieldStateEnd))
    (e : J) (he : TJReads e) (ws w : Bytes) (es : List Ev) (hws : allWs ws = true) (hw : TInReads ca w es)
    (hstop : stopF w) : TInReads cv (e.wire ++ (ws ++ w)) (e.events ++ es) := by
  intro p r S hat hpush
  have hready : ReadyN p ca (r :: S) := by
    refine ⟨⟨Or.inr ⟨stackWF_cons hpush, by rcases hv with ⟨_, rfl⟩ | ⟨_, rfl⟩ <;> rfl⟩, ?_⟩, hat.2⟩
    rcases hv with ⟨rfl, rfl⟩ | ⟨rfl, rfl⟩
    · exact Or.inr (Or.inr ⟨hat.1, rfl⟩)
    · exact Or.inr (Or.inl ⟨hat.1, rfl⟩)
  have hca : trims ca = true := by rcases hv with ⟨_, rfl⟩ | ⟨_, rfl⟩ <;> rfl
  refine treads_seq hat.1.wf (fun q hq => by rw [hq.1.st]; simp) (he p ca (r :: S) hready) (fun p2 h2 => ?_) (fun more _ _ => stopF_append (stopF_ws hws hstop))
  exact treads_ws h2.1.wf.inv (by rw [h2.1.cs]; exact hca) hws (hw p2 r S h2 hpush)

/-- one byte that leads from state `c` to state `c'` without an event, white space, `w` -/
theorem tbyte_reads (c c' : St) (x : UInt8) (ht : trims c' = true)
    (hl : ∀ p S', AtN p c S' → ReadsT p [x] [] (fun q => AtN q c' S') anyF)
    (ws w : Bytes) (es : List Ev) (hws : allWs ws = true) (hw : TInReads c' w es) :
    TInReads c ([x] ++ (ws ++ w)) es := by
  intro p r S hat hpush
  have := treads_seq hat.1.wf (fun q hq => by rw [hq.1.st]; simp) (hl p (r :: S) hat)
    (fun p2 hp2 => treads_ws hp2.1.wf.inv (by rw [hp2.1.cs]; exact ht) hws (hw p2 r S hp2 hpush))
    (fun _ _ => trivial)
  simpa using this

theorem tfirst_elem_reads (e : J) (he : TJReads e) (hok : e.ok = true) (ws w : Bytes) (es : List Ev)
    (hws : allWs ws = true) (hw : TInReads .arrStateNext w es) (hstop : stopF w) :
    TInReads .arrState (e.wire ++ (ws ++ w)) (e.events ++ es) := by
  intro p r S hat hpush
  obtain ⟨x, t, hx, hsp, hrb⟩ := J.wire_first e hok
  have hmv := move_arr hat.1 x hsp hrb
  have hwf1 : ParseP.WF { p with currentState := .arrStateValue } := by
    obtain ⟨rep, h1⟩ := hmv []
    exact wf_of_step hat.1.wf [x] (by simp) (by rw [h1])
  have hat1 : AtN { p with currentState := .arrStateValue } .arrStateValue (r :: S) := atN_setCs hat hwf1
  have k1 := telem_reads _ _ (Or.inl ⟨rfl, rfl⟩) e he ws w es hws hw hstop _ r S hat1 hpush
  rw [hx, List.cons_append] at k1 ⊢
  exact treads_move hat.1.wf hmv rfl (by show p.states ≠ []; rw [hat.1.st]; simp) k1

theorem tmember_reads (c : St) (hc : c = .dictState ∨ c = .dictNextFieldState)
    (key k ws1 ws2 : Bytes) (v : J) (hv : TJReads v) (ws3 w : Bytes) (es : List Ev)
    (hkey : strVal key = some k) (h1 : allWs ws1 = true) (h2 : allWs ws2 = true) (h3 : allWs ws3 = true)
    (hw : TInReads .dictFieldStateEnd w es) (hstop : stopF w) :
    TInReads c (0x22 :: (key ++ 0x22 :: (ws1 ++ 0x3a :: (ws2 ++ (v.wire ++ (ws3 ++ w))))))
      (.key k :: (v.events ++ es)) := by
  intro p r S hat hpush
  have hmv := move_dict hat.1 hc
  have hwf1 : ParseP.WF { p with currentState := .dictFieldState } := by
    obtain ⟨rep, h1⟩ := hmv []
    exact wf_of_step hat.1.wf [0x22] (by simp) (by rw [h1])
  have hat1 : AtN { p with currentState := .dictFieldState } .dictFieldState (r :: S) := atN_setCs hat hwf1
  have hval : TInReads .dictFieldValue (v.wire ++ (ws3 ++ w)) (v.events ++ es) :=
    telem_reads _ _ (Or.inr ⟨rfl, rfl⟩) v hv ws3 w es h3 hw hstop
  have hsep : TInReads .dictFieldValueSep ([0x3a] ++ (ws2 ++ (v.wire ++ (ws3 ++ w)))) (v.events ++ es) :=
    tbyte_reads _ _ 0x3a rfl (fun _ _ h => treads_colon h) ws2 _ _ h2 hval
  have k1 : ReadsT { p with currentState := .dictFieldState }
      ((0x22 :: (key ++ [0x22])) ++ (ws1 ++ ([0x3a] ++ (ws2 ++ (v.wire ++ (ws3 ++ w))))))
      ([.key k] ++ (v.events ++ es)) (fun q => AtN q r S) anyF :=
    treads_seq hat1.1.wf (fun q hq => by rw [hq.1.st]; simp) (treads_key hat1 key k hkey)
      (fun p2 hp2 => treads_ws hp2.1.wf.inv (by rw [hp2.1.cs]; rfl) h1 (hsep p2 r S hp2 hpush)) (fun _ _ => trivial)
  have e0 : (0x22 :: (key ++ 0x22 :: (ws1 ++ 0x3a :: (ws2 ++ (v.wire ++ (ws3 ++ w))))) : Bytes) =
      (0x22 :: (key ++ [0x22])) ++ (ws1 ++ ([0x3a] ++ (ws2 ++ (v.wire ++ (ws3 ++ w))))) := by simp
  rw [e0]
  rw [List.cons_append] at k1 ⊢
  exact treads_move hat.1.wf hmv rfl (by show p.states ≠ []; rw [hat.1.st]; simp) k1

mutual
theorem tjreads : (v : J) → v.ok = true → v.sem = true → TJReads v
  | .lit k, _, _ => by
    intro p r S h
    have := treads_lit h k
    simp only [J.events, J.tree, litTree_events, J.wire]
    exact treads_weaken this
  | .num tok, hok, hs => by
    intro p r S h
    simp only [J.sem] at hs
    obtain ⟨ev, hev⟩ := Option.isSome_iff_exists.mp hs
    have := treads_num h tok (by simpa [J.ok] using hok) ev hev
    simp only [J.events, J.tree, numTree_events tok ev hev, J.wire]
    exact fun more hm => this more (hm rfl)
  | .str raw, _, hs => by
    intro p r S h
    simp only [J.sem] at hs
    obtain ⟨s, hsv⟩ := Option.isSome_iff_exists.mp hs
    have := treads_str h raw s hsv
    simp only [J.events, J.tree, hsv, Option.getD_some, ETree.events, J.wire]
    exact treads_weaken this
  | .arr ws body, hok, hs => by
    intro p r S h
    simp only [J.ok, Bool.and_eq_true] at hok
    simp only [J.sem] at hs
    have hb := tabody_reads body hok.2 hs
    have := treads_seq (readyN_wf h) (fun q hq => by rw [hq.1.st]; simp) (treads_lbrack h)
      (fun p1 hp1 => treads_ws hp1.1.wf.inv (by rw [hp1.1.cs]; rfl) hok.1 (hb p1 r S hp1 h.1.1)) (fun _ _ => trivial)
    simp only [J.events, J.tree, ETree.events, J.wire]
    exact treads_weaken (by simpa using this)
  | .obj ws body, hok, hs => by
    intro p r S h
    simp only [J.ok, Bool.and_eq_true] at hok
    simp only [J.sem] at hs
    have hb := tobody_reads body hok.2 hs
    have := treads_seq (readyN_wf h) (fun q hq => by rw [hq.1.st]; simp) (treads_lbrace h)
      (fun p1 hp1 => treads_ws hp1.1.wf.inv (by rw [hp1.1.cs]; rfl) hok.1 (hb p1 r S hp1 h.1.1)) (fun _ _ => trivial)
    simp only [J.events, J.tree, ETree.events, J.wire]
    exact treads_weaken (by simpa using this)
theorem tabody_reads : (b : ABody) → b.ok = true → b.sem = true →
    TInReads .arrState b.wire (eventsList b.trees ++ [.arrEnd])
  | .close, _, _ => fun _ _ _ hat _ => treads_rbrack hat (Or.inl rfl)
  | .elems e ws tl, hok, hs => by
    simp only [ABody.ok, Bool.and_eq_true] at hok
    simp only [ABody.sem, Bool.and_eq_true] at hs
    have := tfirst_elem_reads e (tjreads e hok.1.1 hs.1) hok.1.1 ws tl.wire _ hok.1.2 (tatail_reads tl hok.2 hs.2)
      (ATail.wire_stop tl)
    simpa [ABody.wire, ABody.trees, eventsList, J.events] using this
theorem tatail_reads : (t : ATail) → t.ok = true → t.sem = true →
    TInReads .arrStateNext t.wire (eventsList t.trees ++ [.arrEnd])
  | .close, _, _ => fun _ _ _ hat _ => treads_rbrack hat (Or.inr rfl)
  | .more ws1 e ws2 tl, hok, hs => by
    simp only [ATail.ok, Bool.and_eq_true] at hok
    simp only [ATail.sem, Bool.and_eq_true] at hs
    have h1 := telem_reads _ _ (Or.inl ⟨rfl, rfl⟩) e (tjreads e hok.1.1.2 hs.1) ws2 tl.wire _ hok.1.2
      (tatail_reads tl hok.2 hs.2) (ATail.wire_stop tl)
    have := tbyte_reads .arrStateNext .arrStateValue 0x2c rfl (fun _ _ hat => treads_comma_arr hat) ws1 _ _
      hok.1.1.1 h1
    simpa [ATail.wire, ATail.trees, eventsList, J.events] using this
theorem tobody_reads : (b : OBody) → b.ok = true → b.sem = true →
    TInReads .dictState b.wire (eventsMems b.members ++ [.objEnd])
  | .close, _, _ => fun _ _ _ hat _ => treads_rbrace hat (Or.inl rfl)
  | .mems key ws1 ws2 v ws3 tl, hok, hs => by
    simp only [OBody.ok, Bool.and_eq_true] at hok
    simp only [OBody.sem, Bool.and_eq_true] at hs
    obtain ⟨⟨⟨⟨⟨_, h2⟩, h3⟩, h4⟩, h5⟩, h6⟩ := hok
    obtain ⟨k, hk⟩ := Option.isSome_iff_exists.mp hs.1.1
    have := tmember_reads _ (Or.inl rfl) key k ws1 ws2 v (tjreads v h4 hs.1.2) ws3 tl.wire _ hk h2 h3 h5
      (totail_reads tl h6 hs.2) (OTail.wire_stop tl)
    simpa [OBody.wire, OBody.members, eventsMems, J.events, hk] using this
theorem totail_reads : (t : OTail) → t.ok = true → t.sem = true →
    TInReads .dictFieldStateEnd t.wire (eventsMems t.members ++ [.objEnd])
  | .close, _, _ => fun _ _ _ hat _ => treads_rbrace hat (Or.inr rfl)
  | .more ws0 key ws1 ws2 v ws3 tl, hok, hs => by
    simp only [OTail.ok, Bool.and_eq_true] at hok
    simp only [OTail.sem, Bool.and_eq_true] at hs
    obtain ⟨⟨⟨⟨⟨⟨h0, _⟩, h2⟩, h3⟩, h4⟩, h5⟩, h6⟩ := hok
    obtain ⟨k, hk⟩ := Option.isSome_iff_exists.mp hs.1.1
    have hm := tmember_reads _ (Or.inr rfl) key k ws1 ws2 v (tjreads v h4 hs.1.2) ws3 tl.wire _ hk h2 h3 h5
      (totail_reads tl h6 hs.2) (OTail.wire_stop tl)
    have := tbyte_reads .dictFieldStateEnd .dictNextFieldState 0x2c rfl (fun _ _ hat => treads_comma_obj hat) ws0 _ _
      h0 hm
    simpa [OTail.wire, OTail.members, eventsMems, J.events, hk] using this
end

/-! ## one document -/

theorem events_ne_nil (t : ETree) : t.events ≠ [] := by
  cases t <;> simp [ETree.events]

theorem J.events_ne (v : J) : v.events ≠ [] := events_ne_nil v.tree

theorem idleN_eqv {p q : P} (h : Eqv p q) (hp : IdleN p) : IdleN q := by
  have hw := eqv_wf h hp.1.wf
  obtain ⟨r, rfl, _⟩ := h
  exact ⟨⟨hw, hp.1.clean, hp.1.cs, hp.1.st⟩, hp.2⟩

/-- a text that is read step by step back to the idle state, with at least one event: the
loop returns after exactly that text -/
theorem U_of_readsT {p : P} {w : Bytes} {es : List Ev} {F : Bytes → Prop} (hwf : ParseP.WF p)
    (h : ReadsT p w es (fun q => AtN q .startState []) F) (hes : es ≠ []) (more : Bytes) (hm : F more) :
    ∃ q, IdleN q ∧ q.evs = es.reverse ++ p.evs ∧
      U p (w ++ more) = { p := q, rest := more, reported := true, err := none } := by
  obtain ⟨p0, s0, q, rep, t1, n1, x1, q1, e1⟩ := h more hm
  obtain ⟨hU, hw0⟩ := t1.loop hwf
  have hrep : rep = true := by
    cases rep with
    | true => rfl
    | false =>
      exfalso
      obtain ⟨j1, j2⟩ := quiet_of_empty p0 s0 n1 hw0 (by rw [x1]) (by rw [x1]; exact q1.1.st) (by rw [x1])
      rw [x1] at j2
      simp only at j2
      obtain ⟨_, j4⟩ := t1.empty hwf j1
      rw [j2, j4] at e1
      have := congrArg List.length e1
      simp only [List.length_append, List.length_reverse] at this
      have hl : 0 < es.length := List.length_pos_iff.mpr hes
      omega
  subst hrep
  refine ⟨q, q1, e1, ?_⟩
  rw [hU, U_flag p0 s0 n1 hw0 (by rw [x1]) (by rw [x1]; simp [flag, q1.1.st]), x1]

/-- ONE DOCUMENT, AS `Decoder.Next` READS IT: from an idle state, over white space, the text of
a grammatical value whose tokens denote, and anything that may follow it (after a bare number:
something that begins with a stop character), the loop returns after exactly the value:
reported, without error, exactly the value's events delivered, idle again, with what follows
handed back -/
theorem U_doc (v : J) (hok : v.ok = true) (hs : v.sem = true) (ws more : Bytes) (hws : allWs ws = true)
    (hm : follow v more) (p : P) (hp : IdleN p) :
    ∃ q, IdleN q ∧ q.evs = v.events.reverse ++ p.evs ∧
      U p (ws ++ (v.wire ++ more)) = { p := q, rest := more, reported := true, err := none } := by
  have h1 := treads_ws hp.1.wf.inv (by rw [hp.1.cs]; rfl) hws (tjreads v hok hs p .startState [] hp.ready)
  have := U_of_readsT hp.1.wf h1 (J.events_ne v) more hm
  rw [List.append_assoc] at this
  exact this

/-- a bare number and then the end of the input: the token is buffered, nothing is reported -/
theorem exec_num_pending {p : P} {r : St} {S : List St} (h : ReadyN p r S) (tok : Bytes) (hb : tokOk tok = true) :
    ∃ rep, execStep p tok =
      ({ p := { p with isDouble := isDblTok tok, literalBuffer := tok, states := r :: p.states,
                       currentState := .numberState },
         rest := [], reported := rep, err := none }, false) := by
  obtain ⟨c0, hat, _, _⟩ := h.1.at
  cases tok with
  | nil => simp [tokOk] at hb
  | cons a tl =>
    simp only [tokOk, Bool.and_eq_true] at hb
    obtain ⟨ha, hall⟩ := hb
    have hpush := pushState_ret { p with isDouble := false, literalBuffer := [] } r .numberState (isRet_pushOk h.1.1)
    simp only at hpush
    have e1 := stepValue_num p r a tl ha
    rw [hpush, stepNumber_more _ _ (scan_tok_all _ _ hall)] at e1
    simp only [scan_dbl_all _ _ hall, Bool.false_or, List.nil_append] at e1
    obtain ⟨rep, he⟩ := h.1.step _ _ _ _ _ e1
    exact ⟨rep, he⟩

/-- … as the loop sees it -/
theorem U_num_end (tok : Bytes) (hb : tokOk tok = true) (ws : Bytes) (hws : allWs ws = true) (p : P)
    (hp : IdleN p) :
    U p (ws ++ tok) =
      { p := { p with isDouble := isDblTok tok, literalBuffer := tok, states := .startState :: p.states,
                      currentState := .numberState },
        rest := [] } := by
  obtain ⟨rep, he⟩ := exec_num_pending hp.ready tok hb
  have htok : tok ≠ [] := by intro hc; subst hc; simp [tokOk] at hb
  have hx : execStep p (ws ++ tok) = execStep p tok := by
    rcases execStep_ws p ws tok (by rw [hp.1.cs]; rfl) hws with h | h
    · exact h
    · exact absurd h htok
  have hne : ws ++ tok ≠ [] := by intro hc; exact htok (List.append_eq_nil_iff.mp hc).2
  rw [U_cont p (ws ++ tok) hne hp.1.wf (by rw [hx, he]) (by rw [hx, he]; exact flag_false_of_ne (by simp)),
    hx, he]
  exact U_nil _

end SF.Json.DecP
