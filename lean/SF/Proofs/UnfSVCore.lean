/-
  C13, VALUES for struct targets, part 2: the fold over the members of the object.

  * `FieldOK tbl ru ft` — the "store lemma" a compiled field unfolder `ru` has to satisfy for the field type
    `ft`: initialised on ANY pointer into the target, the events of a value the specification assigns
    (`Spec.assign … = some nv`) are accepted, rewrite exactly the sub-value the pointer points at — with a
    value `w` the comparison of the specification identifies with `nv` — and give back the context exactly
    as it was (but for `reflect.New` cells and the key cache).
  * `FM` — the compiled field table agrees, entry by entry, with the field list of the specification.
  * `members_run` — the members of the object, in any order, unknown ones (any shape) and duplicates
    included, with the struct frame as the invariant.
  * `struct_run` — `initState` + `OnObjectStart` + members + `OnObjectFinished`; it is itself the store lemma
    of a struct-typed field (`fieldOK_struct`).
-/
import SF.Proofs.UnfSVPath
import SF.Proofs.Symbols
namespace SF.Unf.SV
open SF SF.Unf SF.Unf.Spec SF.Unf.Str

/-- what a completed member may have changed: the target, the `reflect.New` cells, the key cache -/
def upd (c : Ctx) (T : GoVal) (cells : Array GoVal) (kc : Symbols.Cache) : Ctx :=
  { c with target := T, cells := cells, keyCache := kc }

theorem upd_self (c : Ctx) : upd c c.target c.cells c.keyCache = c := by cases c; rfl
theorem upd_upd (c : Ctx) (T T' : GoVal) (cs cs' : Array GoVal) (kc kc' : Symbols.Cache) :
    upd (upd c T cs kc) T' cs' kc' = upd c T' cs' kc' := rfl

/-- THE STORE LEMMA of a field unfolder `ru` for the field type `ft` -/
def FieldOK (tbl : TypeTable) (ru : RU) (ft : GoType) : Prop :=
  ∀ (f : Nat) (x : UTree) (c : Ctx) (steps : List Step) (ip : Bool) (n : Nat) (oldM oldS nv : GoVal) (flds : Fields),
    c.env = tbl → c.unfolder.current = .struct flds → Symbols.Inv c.keyCache →
    c.target.get steps = some oldM → HasTy tbl ft oldM → norm oldM = norm oldS → x.wf = true →
    assign tbl ip n ft oldS x.toS = some nv →
    ∃ w T' cells' kc' c1, initStateRU ru (some ⟨.target, steps⟩) c = .ok () c1 ∧
      run (f + 2) x.events c1 = .ok () (upd c T' cells' kc') ∧ c.target.set steps w = some T' ∧
      norm w = norm nv ∧ HasTy tbl ft w ∧ Symbols.Inv kc'

abbrev SpecFields := List (Bytes × List Nat × GoType)

/-- the compiled field table and the field list of the specification agree entry by entry: same member
names in the same order, same field index paths, and each field unfolder has the store lemma of the field's
type -/
inductive FM (tbl : TypeTable) (S : GoType) : Fields → SpecFields → Prop
  | nil : FM tbl S [] []
  | cons (key : Bytes) (path : List Nat) (ru : RU) (ft : GoType) (fs : Fields) (sf : SpecFields)
      (hok : FieldOK tbl ru ft) (hat : TyAt tbl S (path.map Step.field) ft) (h : FM tbl S fs sf) :
      FM tbl S ((key, path, ru) :: fs) ((key, path, ft) :: sf)

theorem FM.unknown {tbl : TypeTable} {S : GoType} {fields : Fields} {sf : SpecFields} (h : FM tbl S fields sf)
    (key : Bytes) (hf : sf.find? (·.1 == key) = none) : lookupField fields key = none := by
  induction h with
  | nil => rfl
  | cons k path ru ft fs sf _ _ _ ih =>
    rw [List.find?_cons] at hf
    by_cases hk : (k == key) = true
    · simp [hk] at hf
    · simp only [hk] at hf
      have := ih hf
      unfold lookupField at this ⊢
      rw [List.find?_cons]
      simp only [hk]
      exact this

theorem FM.known {tbl : TypeTable} {S : GoType} {fields : Fields} {sf : SpecFields} (h : FM tbl S fields sf)
    (key k' : Bytes) (path : List Nat) (ft : GoType) (hf : sf.find? (·.1 == key) = some (k', path, ft)) :
    ∃ ru, lookupField fields key = some (path, ru) ∧ FieldOK tbl ru ft ∧ TyAt tbl S (path.map Step.field) ft := by
  induction h with
  | nil => simp at hf
  | cons k p ru t fs sf hok hat _ ih =>
    rw [List.find?_cons] at hf
    by_cases hk : (k == key) = true
    · simp only [hk] at hf
      injection hf with hf
      injection hf with _ hf
      injection hf with h1 h2
      subst h1; subst h2
      exact ⟨ru, by simp [lookupField, hk], hok, hat⟩
    · simp only [hk] at hf
      obtain ⟨ru', h1, h2⟩ := ih hf
      refine ⟨ru', ?_, h2⟩
      unfold lookupField at h1 ⊢
      rw [List.find?_cons]
      simp only [hk]
      exact h1

/-! ## one member -/

/-- the key of a known field: `unfolderStruct.OnKey` / `OnKeyRef` initialise the field's unfolder on the
field's address -/
theorem key_known (f : Nat) (byRef : Bool) (key : Bytes) (c : Ctx) (fields : Fields) (pre : List Step)
    (off : List Nat) (ru : RU) (hcur : c.unfolder.current = .struct fields)
    (hptr : c.ptr.current = some ⟨.target, pre⟩) (hl : lookupField fields key = some (off, ru)) :
    stepEv (f + 1) (if byRef then UEv.keyRef key else UEv.key key) c =
      initStateRU ru (some ⟨.target, pre ++ off.map Step.field⟩) c := by
  cases byRef <;>
    simp [stepEv, onKey, onKeyRef, bind_def, currentU_eq, hcur, structOnKey, hl, currentPtr, hptr, Path.pushAll]

/-- an unknown member, whatever its value, changes nothing (as `SF.Props.C13.unknown_member_skipped`) -/
theorem unknown_member (f : Nat) (byRef : Bool) (key : Bytes) (t : UTree) (c : Ctx) (fields : Fields)
    (hcur : c.unfolder.current = .struct fields) (hkey : lookupField fields key = none) :
    run (f + 1) ((if byRef then UEv.keyRef key else UEv.key key) :: t.events) c = .ok () c := by
  have hk : stepEv (f + 1) (if byRef then UEv.keyRef key else UEv.key key) c =
      .ok () (withU c (c.unfolder.push .ignore)) := by
    cases byRef <;>
      simp [stepEv, onKey, onKeyRef, bind_def, currentU_eq, hcur, structOnKey, hkey, pushU_eq]
  rw [run_cons_ok _ _ _ _ _ hk]
  have := SF.Unf.ignore_swallows_value f t (withU c (c.unfolder.push .ignore)) fields c.unfolder.stack
    (by simp [Stk.push, hcur])
  rw [this]
  congr 1
  rw [withU_withU]
  have : (⟨.struct fields, c.unfolder.stack⟩ : Stk U) = c.unfolder := by
    rcases hu : c.unfolder with ⟨cur, stk⟩
    simp [hu] at hcur
    simp [hcur]
  rw [this, withU_self]

/-! ## all members -/

theorem members_run (tbl : TypeTable) (S : GoType) (fields : Fields) (sf : SpecFields) (pre : List Step)
    (hFM : FM tbl S fields sf) (f : Nat) (ip : Bool) :
    ∀ (ms : List (Bool × Bytes × UTree)) (n : Nat) (c : Ctx) (curM curS want : GoVal),
      c.env = tbl → c.unfolder.current = .struct fields → c.ptr.current = some ⟨.target, pre⟩ →
      Symbols.Inv c.keyCache → c.target.get pre = some curM → HasTy tbl S curM → norm curM = norm curS →
      (∀ m ∈ ms, m.2.2.wf = true) →
      assignMembers tbl ip n sf curS (toSMems ms) = some want →
      ∃ curM' T' cells' kc', run (f + 2) (eventsMems ms) c = .ok () (upd c T' cells' kc') ∧
        c.target.set pre curM' = some T' ∧ norm curM' = norm want ∧ HasTy tbl S curM' ∧ Symbols.Inv kc' := by
  intro ms
  induction ms with
  | nil =>
    intro n c curM curS want _ _ _ hkc hget hty hnorm _ h
    cases n with
    | zero => simp [assignMembers] at h
    | succ n =>
      simp only [toSMems, assignMembers, Option.some.injEq] at h
      subst h
      exact ⟨curM, c.target, c.cells, c.keyCache, by simp [eventsMems, run, upd_self],
        set_get_self _ _ _ hget, hnorm, hty, hkc⟩
  | cons m ms ih =>
    intro n c curM curS want henv hcur hptr hkc hget hty hnorm hwf h
    obtain ⟨r, k, x⟩ := m
    cases n with
    | zero => simp [assignMembers] at h
    | succ n =>
      simp only [toSMems, assignMembers] at h
      have hwf' : ∀ m ∈ ms, m.2.2.wf = true := fun m hm => hwf m (List.mem_cons_of_mem _ hm)
      rw [eventsMems]
      split at h
      · -- unknown member
        rename_i hfind
        have hun : run (f + 2) ((if r = true then UEv.keyRef k else UEv.key k) :: x.events) c = .ok () c :=
          unknown_member (f + 1) r k x c fields hcur (hFM.unknown k hfind)
        rw [run_ok_then _ _ _ _ _ hun]
        exact ih n c curM curS want henv hcur hptr hkc hget hty hnorm hwf' h
      · rename_i k' path ft hfind
        obtain ⟨ru, hl, hok, hat⟩ := hFM.known k k' path ft hfind
        split at h
        · cases h
        · rename_i oldS hgS
          split at h
          · cases h
          · rename_i nv hasg
            split at h
            · cases h
            · rename_i curS' hsetS
              obtain ⟨oldM, hgM, hno⟩ := norm_get_fields path curM curS oldS hnorm hgS
              have hgT : c.target.get (pre ++ path.map Step.field) = some oldM := by
                rw [get_append, hget]; exact hgM
              obtain ⟨w, T1, cells1, kc1, c1, hinit, hrun, hsetT, hnw, htw, hkc1⟩ :=
                hok f x c (pre ++ path.map Step.field) ip n oldM oldS nv fields henv hcur hkc hgT
                  (hasTy_get hat curM oldM hty hgM) hno (hwf (r, k, x) List.mem_cons_self) hasg
              obtain ⟨curM1, hs1, hg1⟩ := get_set_prefix c.target pre _ w curM T1 hget hsetT
              have hn1 : norm curM1 = norm curS' := norm_set_fields path curM curS w nv curM1 curS' hnorm hnw hs1 hsetS
              have ht1 : HasTy tbl S curM1 := hasTy_set hat curM w curM1 hty hs1 htw
              have hkey : stepEv (f + 2) (if r = true then UEv.keyRef k else UEv.key k) c = .ok () c1 := by
                rw [← hinit]; exact key_known (f + 1) r k c fields pre path ru hcur hptr hl
              rw [List.cons_append, run_cons_ok _ _ _ _ _ hkey, run_ok_then _ _ _ _ _ hrun]
              obtain ⟨curM', T', cells', kc', hrun', hset', hn', ht', hkc'⟩ :=
                ih n (upd c T1 cells1 kc1) curM1 curS' want henv hcur hptr hkc1 hg1 ht1 hn1 hwf' h
              refine ⟨curM', T', cells', kc', ?_, ?_, hn', ht', hkc'⟩
              · rw [hrun', upd_upd]
              · rw [← hset']
                exact (set_prefix_overwrite c.target pre _ w T1 curM' hsetT).symm

/-! ## the whole object on a struct frame -/

/-- the context `unfolderStruct.initState` leaves: the struct pointer, `unfolderStruct`,
`unfolderStructStart` -/
def structCtx (c : Ctx) (fields : Fields) (p : Path) : Ctx :=
  { c with ptr := c.ptr.push (some p),
           unfolder := ⟨.structStart, .struct fields :: c.unfolder.current :: c.unfolder.stack⟩ }

theorem init_struct (c : Ctx) (fields : Fields) (p : Path) :
    initStateRU (.struct fields) (some p) c = .ok () (structCtx c fields p) := by
  simp [initStateRU, resolveRU, bind_def, pushPtr, pushU, modifyCtx, structCtx, Stk.push]

/-- after `OnObjectStart` -/
def memCtx (c : Ctx) (fields : Fields) (p : Path) : Ctx :=
  { c with ptr := c.ptr.push (some p),
           unfolder := ⟨.struct fields, c.unfolder.current :: c.unfolder.stack⟩ }

theorem objStart_struct (f : Nat) (l : Int) (bt : Nat) (c : Ctx) (fields : Fields) (p : Path) :
    stepEv (f + 1) (.objStart l bt) (structCtx c fields p) = .ok () (memCtx c fields p) := by
  simp [stepEv, onObjectStart, bind_def, currentU_eq, structCtx, memCtx, popU, Stk.pop, pure_def]

theorem objEnd_struct (f : Nat) (c : Ctx) (fields : Fields) (p : Path) (T : GoVal) (cs : Array GoVal)
    (kc : Symbols.Cache) (hrep : c.unfolder.stack = [] ∨ ∃ flds, c.unfolder.current = .struct flds) :
    stepEv (f + 1) .objEnd (upd (memCtx c fields p) T cs kc) = .ok () (upd c T cs kc) := by
  have h1 : onObjectFinished (upd (memCtx c fields p) T cs kc) = .ok () (upd c T cs kc) := by
    rcases hc : c with ⟨⟨ucur, ustk⟩, ⟨pcur, pstk⟩, _⟩
    simp [onObjectFinished, bind_def, currentU_eq, memCtx, upd, popU, popPtr, Stk.pop, Stk.push, pure_def]
  simp only [stepEv]
  rw [ctxObjFin_eq _ _ h1]
  rcases hrep with hidle | ⟨flds, hs⟩
  · simp [reportChildDone, bind_def, getCtx, hidle, pure_def, upd, memCtx]
  · have hrep' : onChildObjectDone (upd c T cs kc) = .ok () (upd c T cs kc) := by
      simp [onChildObjectDone, bind_def, currentU_eq, upd, hs, pure_def]
    simpa [upd, memCtx] using report_one onChildObjectDone (c.unfolder.stack.length + 1) (upd c T cs kc) hrep'

/-- a whole object into a struct at `pre` below the target -/
theorem struct_run (tbl : TypeTable) (S : GoType) (fields : Fields) (sf : SpecFields) (pre : List Step)
    (hFM : FM tbl S fields sf) (f : Nat) (ip : Bool) (l : Int) (bt : Nat) (ms : List (Bool × Bytes × UTree)) (n : Nat)
    (c : Ctx) (curM curS want : GoVal) (henv : c.env = tbl)
    (hrep : c.unfolder.stack = [] ∨ ∃ flds, c.unfolder.current = .struct flds)
    (hkc : Symbols.Inv c.keyCache) (hget : c.target.get pre = some curM) (hty : HasTy tbl S curM)
    (hnorm : norm curM = norm curS) (hwf : ∀ m ∈ ms, m.2.2.wf = true)
    (h : assignMembers tbl ip n sf curS (toSMems ms) = some want) :
    ∃ curM' T' cells' kc', run (f + 2) (UTree.obj l bt ms).events (structCtx c fields ⟨.target, pre⟩) =
        .ok () (upd c T' cells' kc') ∧
      c.target.set pre curM' = some T' ∧ norm curM' = norm want ∧ HasTy tbl S curM' ∧ Symbols.Inv kc' := by
  obtain ⟨curM', T', cells', kc', hrun, hset, hn, ht, hk⟩ :=
    members_run tbl S fields sf pre hFM f ip ms n (memCtx c fields ⟨.target, pre⟩) curM curS want henv rfl rfl hkc
      hget hty hnorm hwf h
  refine ⟨curM', T', cells', kc', ?_, hset, hn, ht, hk⟩
  have h1 : stepEv (f + 2) (.objStart l bt) (structCtx c fields ⟨.target, pre⟩) = .ok () (memCtx c fields ⟨.target, pre⟩) :=
    objStart_struct (f + 1) l bt c fields _
  rw [UTree.events, List.cons_append, run_cons_ok _ _ _ _ _ h1, run_ok_then _ _ _ _ _ hrun, run_single]
  exact objEnd_struct (f + 1) c fields _ T' cells' kc' hrep

end SF.Unf.SV
