/-
  The main induction of property C12 on good types over menagerie members: as `FoldMain`,
  plus the forwarding folders (`forward`, `forwardInline`) that a recursive type compiles to —
  they recompile the type at fold time, with an empty registry.
-/
import SF.Proofs.RecLazy
import SF.Proofs.FoldMain
namespace SF.FoldRec
open SF SF.Gotype SF.Gotype.Fold SF.Gotype.Rules SF.FoldProofs

/-- the visitor never fails and the order oracle is sane (`FoldProofs.Inv`) -/
abbrev Inv (s : St) : Prop := FoldProofs.Inv s

/-- (R) the compiled folder of `T` on values of depth < N -/
def RunSoundR (ns : List String) (D : Nat) (o : FoldOpts) (reg : Bool) (N : Nat) : Prop :=
  ∀ T v, vdepth v < N → goodR ns T = true → tdepth T ≤ D → wtR ns D T v = true → LocOK reg T →
    ∀ cf op f, getReflectFold cf o op T = .ok f →
    ∀ m r, foldF m reg T v = .ok r →
    ∀ rf, 4 * vdepth v + 4 ≤ rf → ∀ s, Inv s → ValOut s (run rf o .user f ⟨T, v⟩ s) r

/-- (I) `foldInterfaceValue` on interface values of depth < N -/
def IfaceSoundR (ns : List String) (D : Nat) (o : FoldOpts) (reg : Bool) (N : Nat) : Prop :=
  ∀ i, vdepth i < N → wtR ns D .iface i = true → ∀ m r, foldF m reg .iface i = .ok r →
    ∀ rf, 4 * vdepth i + 4 ≤ rf → ∀ s, Inv s → ValOut s (foldInterfaceValue rf o .user i s) r

/-- (F) the field folders of a struct on struct values of depth < N -/
def FieldsSoundR (ns : List String) (D : Nat) (o : FoldOpts) (reg : Bool) (N : Nat) : Prop :=
  ∀ fs vs, vdepthL vs + 1 < N → goodRFs ns fs = true → tdepthFs fs ≤ D → wtRF ns D fs vs = true →
    (∀ f ∈ fs, LocOKF reg f) →
    ∀ (rv : RV) k, (∀ j f x, fs[j]? = some f → vs[j]? = some x → rv.field (k + j) = some ⟨f.typ, x⟩) →
    ∀ cf op fvs, (fs.zipIdx k).mapM (fun (x : Field × Nat) => buildFieldFold cf o op x.1 x.2) = .ok fvs →
    ∀ m segss, (fs.zip vs).mapM (fun (fx : Field × GoVal) => fieldF m reg fx.1 fx.2) = .ok segss →
    ∀ rf, 4 * (vdepthL vs + 1) + 2 ≤ rf → ∀ s, Inv s →
      MemsOut s (seqM (fun s fv => run rf o .user fv rv s) s (fvs.filterMap id)) segss.flatten

section
variable {ns : List String} {D : Nat} (hM : MenOK ns D)
include hM

omit hM in
/-- a sequence value (slice or array): `arrStart; elements; arrEnd` -/
theorem seq_soundR {o : FoldOpts} {reg : Bool} {N : Nat} (hR : RunSoundR ns D o reg N)
    {e : GoType} (he : goodR ns e = true) (hde : tdepth e ≤ D) (hle : LocOK reg e) {xs : List GoVal}
    (hw : wtRL ns D e xs = true) (hd : ∀ x ∈ xs, vdepth x < N)
    {cf : Nat} {op : Open} {el : ReFold} (hel : getReflectFold cf o op e = .ok el)
    {m : Nat} {rs : List RVal} (hspec : xs.mapM (foldF m reg e) = .ok rs)
    {rf : Nat} (hrf : ∀ x ∈ xs, 4 * vdepth x + 4 ≤ rf) (l : Int) {s : St} (hs : Inv s) :
    ValOut s (match emit s .user (.ev (.arrStart l BT.any)) with
      | (s, .ok) =>
        match seqM (fun s x => run rf o .user el ⟨e, x⟩ s) s xs with
        | (s, .ok) => emit s .user (.ev .arrEnd)
        | r => r
      | r => r) (.arr rs) := by
  refine wrap_arr hs l BT.any _ rs (seq_elems _ ?_)
  refine (mapM_ok hspec).imp ?_
  intro x r hx _ hxr s hs
  exact hR e x (hd x hx) he hde (wtRL_mem hw hx) hle cf op el hel m r hxr rf (hrf x hx) s hs

omit hM in
/-- the iterator of a map type (`getReflectFoldMapKeys`) delivers the members of the map -/
theorem mapiter_soundR {o : FoldOpts} {reg : Bool} {N : Nat} (hR : RunSoundR ns D o reg N) (hI : IfaceSoundR ns D o reg N)
    {T k e : GoType} (hu : T.under = .map k e)
    (he : goodR ns e = true) (hde : tdepth e ≤ D) (hle : LocOK reg e) {v : GoVal}
    (hw : wtR ns D T v = true) (hd : vdepth v < N + 1)
    {cf : Nat} {op : Open} {iter : ReFold} {Tc : GoType} (huc : Tc.under = .map k e)
    (hit : getReflectFoldMapKeys cf o op Tc = .ok iter)
    {m : Nat} {r : RVal} (hspec : foldF m reg (.map k e) v = .ok r) :
    ∃ segs, r = .obj segs ∧ ∀ rf, 4 * vdepth v + 2 ≤ rf → ∀ s, Inv s →
      MemsOut s (run rf o .user iter ⟨T, v⟩ s) segs := by
  cases m with
  | zero => exact (foldF_zero hspec).elim
  | succ m =>
  cases cf with
  | zero => simp [getReflectFoldMapKeys] at hit
  | succ c =>
  rw [grfmk_good c o op huc] at hit
  have hks : k.under = .string := by
    cases hk : k.under <;> first | rfl | (simp [hk] at hit)
  have hsk := isStringKind_of_under hks
  simp only [hks] at hit
  have helem : T.elem = e := elem_of_under.2.2.1 k e hu
  rcases wtR_map_inv hu hw with rfl | ⟨ms, rfl, hwp, hnd⟩
  · -- nil map
    rw [foldF_map_nil] at hspec
    simp only [hsk, if_true, Except.ok.injEq] at hspec
    refine ⟨[], hspec.symm, ?_⟩
    intro rf hrf s hs
    obtain ⟨rf', rfl⟩ := exists_succ (k := 0) (by omega : 0 + 1 ≤ rf)
    have hrun : run (rf' + 1) o .user iter ⟨T, .nilMap⟩ s = (s, .ok) := by
      by_cases hi : e = .iface
      · subst hi
        simp only [Except.ok.injEq] at hit
        subst hit
        rw [run_mapInline]
      · cases hpr : primOf? e with
        | some p =>
          have : iter = .mapInline (some p) := by
            cases e <;> first | (exact absurd rfl hi) | (simp only [hpr, Except.ok.injEq] at hit; exact hit.symm)
          subst this
          rw [run_mapInline]
        | none =>
          cases hel : getReflectFold c o op e with
          | error err =>
            exfalso
            cases e <;> first | (exact absurd rfl hi) | (simp [hpr, hel] at hit)
          | ok el =>
            have : iter = .mapKeys el := by
              cases e <;> first | (exact absurd rfl hi) | (simp only [hpr, hel, Except.ok.injEq] at hit; exact hit.symm)
            subst this
            rw [run_mapKeys]
    rw [hrun]
    exact MemsOut_nil hs
  · -- a map with entries
    rw [foldF_map] at hspec
    simp only [hsk, Bool.not_true, Bool.false_eq_true, if_false] at hspec
    obtain ⟨mems, hmems, rfl⟩ := map_ok_inv hspec
    have hes := entries_spec hmems
    have hkn := keys_nodup hes hnd
    obtain ⟨es, hsk', hlen, hall, hmem⟩ := stringKeyed_spec hes
    refine ⟨[(true, mems)], rfl, ?_⟩
    intro rf hrf s hs
    obtain ⟨rf', rfl⟩ := exists_succ (k := 0) (by omega : 0 + 1 ≤ rf)
    rw [vdepth_map] at hrf hd
    have hsub : ∀ x ∈ es, wtR ns D e x.2 = true ∧ vdepth x.2 ≤ vdepthP ms := by
      intro x hx
      obtain ⟨kx, hkx, e1⟩ := hmem x hx
      rw [← e1]
      exact ⟨wtRP_mem hwp hkx, vdepthP_mem hkx⟩
    by_cases hi : e = .iface
    · subst hi
      simp only [Except.ok.injEq] at hit
      subst hit
      rw [run_mapInline]
      simp only [hsk']
      refine range_mems (fun s (x : Bytes × GoVal) => foldInterfaceValue rf' o .user x.2 s)
        (fun x => foldF m reg .iface x.2) hall hkn ?_ es.length (Nat.le_refl _) s hs
      intro x hx r hr s hs
      obtain ⟨h1, h2⟩ := hsub x hx
      exact hI x.2 (by omega) h1 m r hr rf' (by omega) s hs
    · cases hpr : primOf? e with
      | some p =>
        have : iter = .mapInline (some p) := by
          cases e <;> first | (exact absurd rfl hi) | (simp only [hpr, Except.ok.injEq] at hit; exact hit.symm)
        subst this
        rw [run_mapInline]
        simp only [hsk']
        refine range_mems (fun s (x : Bytes × GoVal) =>
            match elemEv p x.2 with
            | some x => emit s .user x
            | none => (s, .panic))
          (fun x => foldF m reg e x.2) hall hkn ?_ es.length (Nat.le_refl _) s hs
        intro x hx r hr s hs
        obtain ⟨y, hy1, hy2⟩ := elem_sound hpr hr hs
        simp only [hy1]
        exact hy2
      | none =>
        cases hel : getReflectFold c o op e with
        | error err =>
          exfalso
          cases e <;> first | (exact absurd rfl hi) | (simp [hpr, hel] at hit)
        | ok el =>
          have : iter = .mapKeys el := by
            cases e <;> first | (exact absurd rfl hi) | (simp only [hpr, hel, Except.ok.injEq] at hit; exact hit.symm)
          subst this
          rw [run_mapKeys]
          simp only [hsk', helem]
          refine range_mems (fun s (x : Bytes × GoVal) => run rf' o .user el ⟨e, x.2⟩ s)
            (fun x => foldF m reg e x.2) hall hkn ?_ es.length (Nat.le_refl _) s hs
          intro x hx r hr s hs
          obtain ⟨h1, h2⟩ := hsub x hx
          exact hR e x.2 (by omega) he hde h1 hle c op el hel m r hr rf' (by omega) s hs

/-! ## forwarding folders -/

omit hM in
theorem run_forward (rf : Nat) (o : FoldOpts) (c : VisRef) (t : GoType) (rv : RV) (s : St) :
    run (rf + 1) o c (.forward t) rv s =
      match getReflectFold compileFuel o {} t with
      | .error r => (s, r)
      | .ok f => run rf o c f rv s := by
  rw [run]
  rfl

omit hM in
theorem run_forwardInline (rf : Nat) (o : FoldOpts) (c : VisRef) (t : GoType) (rv : RV) (s : St) :
    run (rf + 1) o c (.forwardInline t) rv s =
      match fieldFoldGenInline compileFuel o { inl := (t.whnf.menagerieName?).toList } t with
      | .error r => (s, r)
      | .ok f => run rf o c f rv s := by
  rw [run]
  rfl

/-! ## what the rules' acceptance of a field says about its type -/

omit hM in
theorem locF_typ {reg : Bool} {f : Field} (h : LocOKF reg f)
    (hk : (∃ nm, fieldKind f = .plain nm) ∨ (∃ nm, fieldKind f = .omitEmpty nm)) : LocOK reg f.typ := by
  obtain ⟨n, seen, hf⟩ := h
  cases n with
  | zero => simp [fieldOkF] at hf
  | succ n =>
    rw [fieldOkF_eq] at hf
    rcases hk with ⟨nm, hk⟩ | ⟨nm, hk⟩ <;> (simp only [hk] at hf; exact ⟨n, seen, hf⟩)

omit hM in
theorem locF_inline {reg : Bool} {f : Field} (h : LocOKF reg f) (hk : fieldKind f = .inline) :
    ∃ n seen, inlineOkF n reg seen f.typ = .ok () := by
  obtain ⟨n, seen, hf⟩ := h
  cases n with
  | zero => simp [fieldOkF] at hf
  | succ n =>
    rw [fieldOkF_eq] at hf
    simp only [hk] at hf
    exact ⟨n, seen, hf⟩

/-- `foldAnyReflect` on a typed value of a good type the rules accept -/
theorem anyreflect_soundR {o : FoldOpts} {reg : Bool} {N : Nat} (hD : D ≤ 1000) (hfuel : FuelOK ns D)
    (hR : RunSoundR ns D o reg N)
    {dt : GoType} {dv : GoVal} (hp : goodR ns dt = true) (hdt : tdepth dt ≤ D)
    (hw : wtR ns D dt dv = true) (hd : vdepth dv < N) (hloc : LocOK reg dt)
    {m : Nat} {r : RVal} (hspec : foldF m reg dt dv = .ok r)
    {rf : Nat} (hrf : 4 * vdepth dv + 5 ≤ rf) {s : St} (hs : Inv s) :
    ValOut s (foldAnyReflect rf o .user ⟨dt, dv⟩ s) r := by
  obtain ⟨rf', rfl⟩ := exists_succ (k := 0) (by omega : 0 + 1 ≤ rf)
  obtain ⟨f, hf⟩ := compile_okR hM o reg hD hfuel hp hdt hloc {}
  rw [foldAnyReflect_eq]
  simp only [hf]
  exact hR dt dv hd hp hdt hw hloc compileFuel {} f hf m r hspec rf' (by omega) s hs

omit hM in
theorem field_structR {T : GoType} {fs : List Field} {vs : List GoVal} {j : Nat} {f : Field} {x : GoVal}
    (hu : T.under = .struct fs) (hf : fs[j]? = some f) (hx : vs[j]? = some x) :
    RV.field ⟨T, .struct vs⟩ j = some ⟨f.typ, x⟩ := by
  simp [RV.field, hu, hf, hx]

/-- the base folder of an inline field (`fieldFoldGenInline`) on the value behind the pointers -/
theorem inline_base_soundR {o : FoldOpts} {reg : Bool} {N : Nat}
    (hR : RunSoundR ns D o reg N) (hI : IfaceSoundR ns D o reg N) (hF : FieldsSoundR ns D o reg N)
    {bt : GoType} {x' : GoVal} (hgb : goodR ns bt = true) (hdb : tdepth bt ≤ D)
    (hnp : ∀ e, bt.under ≠ .ptr e) (hni : isIfaceT bt = false)
    (hwx' : wtR ns D bt x' = true) (hd : vdepth x' < N)
    {n : Nat} {seen : List String} (hinl : inlineOkF (n + 1) reg seen bt = .ok ())
    {c : Nat} {op' : Open} {base : ReFold} (hbase : fieldFoldGenInline c o op' bt = .ok base)
    {m' : Nat} {segs : List Seg} (hm' : inlineF m' reg bt x' = .ok segs) :
    ∀ rf, 4 * vdepth x' + 3 ≤ rf → ∀ s, Inv s → MemsOut s (run rf o .user base ⟨bt, x'⟩ s) segs := by
  intro rf hrf s hs
  cases c with
  | zero => simp [fieldFoldGenInline] at hbase
  | succ c3 =>
  rw [ffgiR hM c3 o _ hgb] at hbase
  cases m' with
  | zero => simp [inlineF] at hm'
  | succ m' =>
  obtain ⟨rf', rfl⟩ := exists_succ (k := 0) (by omega : 0 + 1 ≤ rf)
  rw [inlineF_underR hM m' reg hgb] at hm'
  rw [inlineOkF_goodR hM n reg seen hgb] at hinl
  have hgu := good_underR hM hgb
  have hdu := tdepth_underR hM hgb
  -- the rules accept the underlying type locally
  have hlocU : (∃ fs, bt.under = .struct fs) ∨ (∃ k e, bt.under = .map k e) →
      ∃ k seen', typeOkF (k + 1) reg seen' bt.under = .ok () := by
    intro hshape
    have htok : typeOkF n reg seen bt = .ok () := by
      rcases hshape with ⟨fs, h⟩ | ⟨k, e, h⟩ <;> (rw [h] at hinl; exact hinl)
    rcases whnfR hM hgb with ⟨_, hu⟩ | ⟨nm, u, _, h2, _⟩
    · rw [under_unnamed hu]
      cases n with
      | zero => simp [typeOkF] at htok
      | succ n => exact ⟨n, seen, htok⟩
    · obtain ⟨⟨k, seen', hk⟩, _⟩ := locOK_body hM reg hgb h2
      rw [← under_whnf hM hgb, h2]
      simp only [GoType.under]
      cases k with
      | zero => simp [typeOkF] at hk
      | succ k => exact ⟨k, seen', hk⟩
  unfold isIfaceT at hni
  generalize hU : bt.under = U at hbase hm' hni hgu hdu hnp hlocU
  cases U with
  | struct fs' =>
    simp only [] at hbase
    cases c3 with
    | zero => simp [getReflectFoldStruct] at hbase
    | succ c4 =>
    rw [grfs_eq] at hbase
    cases hfvs : (fs'.zipIdx).mapM (fun (x : Field × Nat) => buildFieldFold c4 o op' x.1 x.2) with
    | error e => simp [hfvs] at hbase
    | ok fvs' =>
      simp only [hfvs, if_true, Except.ok.injEq] at hbase
      subst hbase
      obtain ⟨vs', rfl, hwf⟩ := wtR_struct_inv hU hwx'
      rw [inlineF_struct] at hm'
      obtain ⟨segss, hsegss, rfl⟩ := map_ok_inv hm'
      rw [run_fieldsFold]
      rw [vdepth_struct] at hd hrf
      have hfs' : goodRFs ns fs' = true := by simpa [goodR] using hgu.1
      have hdfs : tdepthFs fs' ≤ D := by simp only [tdepth] at hdu; omega
      obtain ⟨k, seen', hk⟩ := hlocU (Or.inl ⟨fs', rfl⟩)
      rw [typeOkF_unnamedR hM k reg seen' hgu.1 hgu.2] at hk
      refine hF fs' vs' (by omega) hfs' hdfs hwf (fun f hf => ⟨k, seen', forM_ok hk f hf⟩) ⟨bt, .struct vs'⟩ 0 ?_
        c4 _ fvs' hfvs m' segss hsegss rf' (by omega) s hs
      intro j g y hg hy
      rw [Nat.zero_add]
      exact field_structR hU hg hy
  | map k' e' =>
    simp only [] at hbase
    have hke : goodR ns k' = true ∧ goodR ns e' = true := by simpa [goodR] using hgu.1
    have hde' : tdepth e' ≤ D := by simp only [tdepth] at hdu; omega
    obtain ⟨k, seen', hk⟩ := hlocU (Or.inr ⟨k', e', rfl⟩)
    rw [typeOkF_unnamedR hM k reg seen' hgu.1 hgu.2] at hk
    have hle : LocOK reg e' := by
      simp only [] at hk
      split at hk
      · exact ⟨k, seen', hk⟩
      · cases hk
    have huw : bt.whnf.under = .map k' e' := by rw [under_whnf hM hgb]; exact hU
    obtain ⟨segs', hsegs', hrun⟩ := mapiter_soundR hR hI hU hke.2 hde' hle hwx' (by omega) huw hbase
      (inlineF_map hm')
    cases hsegs'
    exact hrun (rf' + 1) (by omega) s hs
  | iface => simp at hni
  | ptr e => exact absurd rfl (hnp e)
  | _ => simp at hbase

/-- the folder compiled for a type of interface kind is `foldInterfaceElem`, possibly behind a
forwarding folder -/
theorem iface_folderR (o : FoldOpts) {bt : GoType} (hg : goodR ns bt = true) (hu : bt.under = .iface)
    {c : Nat} {op : Open} {vv : ReFold} (hvv : getReflectFold c o op bt = .ok vv) :
    ∃ d, d ≤ 1 ∧ ∀ rf cc rv s, run (rf + d) o cc vv rv s = run rf o cc .ifaceElem rv s := by
  rw [grf_whnfR hM c o op hg] at hvv
  have hgw := good_whnf hM hg
  have hww := whnf_whnf hM hg
  have huw : bt.whnf.under = .iface := by rw [under_whnf hM hg]; exact hu
  cases c with
  | zero => simp [getReflectFold] at hvv
  | succ c =>
  by_cases ho : isOpen op bt.whnf = true
  · rw [grf_open hM c o op hgw hww ho] at hvv
    cases hvv
    refine ⟨1, Nat.le_refl _, ?_⟩
    intro rf cc rv s
    rw [run_forward]
    have : getReflectFold compileFuel o {} bt.whnf = .ok .ifaceElem :=
      grf_ifaceR hM 1999 o {} hgw hww (isOpen_empty _) huw
    rw [this]
  · have ho' : isOpen op bt.whnf = false := by simpa using ho
    rw [grf_ifaceR hM c o op hgw hww ho' huw] at hvv
    cases hvv
    exact ⟨0, Nat.zero_le _, fun _ _ _ _ => rfl⟩

/-- one field: nothing if it is dropped, else its field folder delivers its segments -/
theorem field_soundR {o : FoldOpts} {reg : Bool} {N : Nat} (hD : D ≤ 1000) (hfuel : FuelOK ns D)
    (hR : RunSoundR ns D o reg N) (hI : IfaceSoundR ns D o reg N) (hF : FieldsSoundR ns D o reg N)
    {f : Field} {x : GoVal} (hpf : goodRF ns f = true) (hdf : tdepth f.typ ≤ D) (hlf : LocOKF reg f)
    (hw : wtR ns D f.typ x = true) (hlz : lazyField f = true → vdepth x ≤ lazyBound) (hd : vdepth x < N)
    {rv : RV} {k : Nat} (hfield : rv.field k = some ⟨f.typ, x⟩)
    {cf : Nat} {op : Open} {fo : Option ReFold}
    (hc : buildFieldFold cf o op f k = .ok fo)
    {m : Nat} {segs : List Seg} (hspec : fieldF m reg f x = .ok segs) :
    (fo = none ∧ segs = []) ∨
    (∃ fv, fo = some fv ∧ ∀ rf, 4 * (vdepth x + 1) + 2 ≤ rf → ∀ s, Inv s →
      MemsOut s (run rf o .user fv rv s) segs) := by
  have hpt : goodR ns f.typ = true := by
    cases f; simp only [goodRF, Bool.and_eq_true] at hpf; exact hpf.1
  have hpb := good_stripPtrR hM _ hpt
  have hdb := tdepth_stripPtr f.typ
  cases cf with
  | zero => simp [buildFieldFold] at hc
  | succ c =>
  cases m with
  | zero => simp [fieldF] at hspec
  | succ m =>
  rw [buildFieldFold_eq] at hc
  rw [fieldF_eq] at hspec
  cases hk : fieldKind f with
  | drop =>
    simp only [hk, Except.ok.injEq] at hc hspec
    exact Or.inl ⟨hc.symm, hspec.symm⟩
  | conflict => simp [hk] at hc
  | plain name =>
    simp only [hk] at hc hspec
    cases hvv : getReflectFold c o op f.typ with
    | error e => simp [hvv] at hc
    | ok vv =>
      simp only [hvv, Except.ok.injEq] at hc
      obtain ⟨r, hr, rfl⟩ := map_ok_inv hspec
      refine Or.inr ⟨_, hc.symm, ?_⟩
      intro rf hrf s hs
      obtain ⟨rf', rfl⟩ := exists_succ (k := 0) (by omega : 0 + 1 ≤ rf)
      rw [run_field]
      simp only [hfield]
      refine key_then hs name _ r ?_
      intro s hs
      exact hR f.typ x hd hpt hdf hw (locF_typ hlf (Or.inl ⟨name, hk⟩)) c op vv hvv m r hr rf' (by omega) s hs
  | omitEmpty name =>
    simp only [hk] at hc hspec
    have hlt := locF_typ hlf (Or.inr ⟨name, hk⟩)
    have hbt := baseType_goodR hM hpt (by omega : tdepth f.typ ≤ 1000)
    by_cases hi : isIfaceT (stripPtr f.typ).2 = true
    · -- an interface behind the pointers: the lazy resolver
      have hu := isIfaceT_iff.mp hi
      rw [hbt] at hc
      have hvv : ∃ vv, getReflectFold c o op (stripPtr f.typ).2 = .ok vv ∧
          ∀ rf s, 2 ≤ rf → ∀ rv', run rf o .user vv rv' s = run (rf - 1 + 1) o .user vv rv' s := by
        cases hvv : getReflectFold c o op (stripPtr f.typ).2 with
        | error e => simp [hvv] at hc
        | ok vv => exact ⟨vv, rfl, fun rf s h rv' => by rw [show rf - 1 + 1 = rf by omega]⟩
      obtain ⟨vv, hvv, _⟩ := hvv
      have hne : (makeResolveNonEmptyValue f.typ).isEmpty = false := by
        rw [mrnev_genR hM hpt (by omega)]
        simp [hi]
      simp only [hvv, hne, Bool.false_eq_true, if_false, Except.ok.injEq] at hc
      have hlzx : vdepth x ≤ lazyBound := hlz (by simp [lazyField, hk, hi])
      unfold lazyBound at hlzx
      refine Or.inr ⟨_, hc.symm, ?_⟩
      intro rf hrf s hs
      obtain ⟨rf', rfl⟩ := exists_succ (k := 0) (by omega : 0 + 1 ≤ rf)
      rw [run_nonEmptyField]
      simp only [hfield]
      rcases lazy_resolveR hM hD (vdepth x + 1) f.typ x (by omega) hpt hw (by omega) 1000 100000 (by omega)
        (by omega) with ⟨hemp, hres⟩ | ⟨hemp, rv', hl, hres⟩
      · simp only [hemp, if_true, Except.ok.injEq] at hspec
        rw [hres, ← hspec]
        exact MemsOut_nil hs
      · simp only [hemp, Bool.false_eq_true, if_false] at hspec
        obtain ⟨r, hr, rfl⟩ := map_ok_inv hspec
        obtain ⟨T', v', htar, hlo, hstrict⟩ := lazy_okR hM reg hl hpt hw hr (Or.inl hi)
        obtain ⟨hvd, htd⟩ := hstrict hi
        obtain ⟨m2, hm2⟩ := hlo.folds
        rw [hres]
        refine key_then hs name _ r ?_
        intro s hs
        -- the folder compiled for the interface type: `ifaceElem`, or a forwarding folder for it
        obtain ⟨d, hd1, hrunvv⟩ := iface_folderR hM o hpb hu hvv
        obtain ⟨rf0, rfl⟩ : ∃ rf0, rf' = rf0 + 1 + d := ⟨rf' - 1 - d, by omega⟩
        rw [hrunvv, run_ifaceElem_target htar]
        exact anyreflect_soundR hM hD hfuel hR hlo.good htd hlo.typed (by omega) hlo.accepted hm2 (by omega) hs
    have hni : isIfaceT (stripPtr f.typ).2 = false := by simpa using hi
    have hres := resolve_goodR hM hpt hw (by omega) hni
    have hemp := isEmptyF_derefR hM f.typ hpt x 100000 hw
      (by have := stripPtr_le_tdepth f.typ; omega) hni
    rw [hbt] at hc
    cases hvv : getReflectFold c o op (stripPtr f.typ).2 with
    | error e => simp [hvv] at hc
    | ok vv =>
      simp only [hvv] at hc
      cases hdr : deref (stripPtr f.typ).1 x with
      | none =>
        rw [hdr] at hres hemp
        simp only [] at hres hemp
        simp only [hemp, if_true, Except.ok.injEq] at hspec
        have hne : (makeResolveNonEmptyValue f.typ).isEmpty = false := by
          rw [mrnev_goodR hM hpt (by omega) hni]
          have : 1 ≤ (stripPtr f.typ).1 := by
            cases hn : (stripPtr f.typ).1 with
            | zero => rw [hn] at hdr; simp [deref] at hdr
            | succ n => omega
          simp [this]
        simp only [hne, Bool.false_eq_true, if_false, Except.ok.injEq] at hc
        refine Or.inr ⟨_, hc.symm, ?_⟩
        intro rf hrf s hs
        obtain ⟨rf', rfl⟩ := exists_succ (k := 0) (by omega : 0 + 1 ≤ rf)
        rw [run_nonEmptyField]
        simp only [hfield, hres]
        rw [← hspec]
        exact MemsOut_nil hs
      | some x' =>
        rw [hdr] at hres hemp
        simp only [] at hres hemp
        obtain ⟨hwx', hdx'⟩ := deref_wtR hM f.typ hpt x x' hw hdr
        by_cases hse : sizedEmpty (stripPtr f.typ).2 x' = true
        · simp only [hse, if_true] at hres
          simp only [hemp, hse, if_true, Except.ok.injEq] at hspec
          have hne : (makeResolveNonEmptyValue f.typ).isEmpty = false := by
            rw [mrnev_goodR hM hpt (by omega) hni]
            have : isSized (stripPtr f.typ).2 = true := by
              cases hsz : isSized (stripPtr f.typ).2 with
              | true => rfl
              | false => rw [sizedEmpty_unsized hsz] at hse; cases hse
            simp [this]
          simp only [hne, Bool.false_eq_true, if_false, Except.ok.injEq] at hc
          refine Or.inr ⟨_, hc.symm, ?_⟩
          intro rf hrf s hs
          obtain ⟨rf', rfl⟩ := exists_succ (k := 0) (by omega : 0 + 1 ≤ rf)
          rw [run_nonEmptyField]
          simp only [hfield, hres]
          rw [← hspec]
          exact MemsOut_nil hs
        · simp only [hse, Bool.false_eq_true, if_false] at hres
          simp only [hemp, hse, Bool.false_eq_true, if_false] at hspec
          obtain ⟨r, hr, rfl⟩ := map_ok_inv hspec
          have hr' := foldF_derefR hM reg f.typ hpt x m r hw hr
          rw [hdr] at hr'
          obtain ⟨m', hm'⟩ := hr'
          have hinner : ∀ rf', 4 * vdepth x + 4 ≤ rf' → ∀ s, Inv s →
              ValOut s (run rf' o .user vv ⟨(stripPtr f.typ).2, x'⟩ s) r := by
            intro rf' hrf' s hs
            exact hR _ x' (by omega) hpb (by omega) hwx' (locOK_strip hM reg _ hpt hlt) c op vv hvv m' r hm' rf'
              (by omega) s hs
          by_cases hne : (makeResolveNonEmptyValue f.typ).isEmpty = true
          · simp only [hne, if_true, Except.ok.injEq] at hc
            have h0 : (stripPtr f.typ).1 = 0 := by
              rw [mrnev_goodR hM hpt (by omega) hni] at hne
              by_cases h1 : 1 ≤ (stripPtr f.typ).1
              · simp [h1] at hne
              · omega
            have hb : (stripPtr f.typ).2 = f.typ := by
              by_cases hpp : ∃ e, f.typ.under = .ptr e
              · obtain ⟨e, he⟩ := hpp
                rw [stripPtr_ptrR hM hpt he] at h0
                simp at h0
              · rw [stripPtr_nonptrR (fun e he => hpp ⟨e, he⟩)]
            have hx' : x' = x := by
              rw [h0] at hdr; simpa [deref] using hdr.symm
            refine Or.inr ⟨_, hc.symm, ?_⟩
            intro rf hrf s hs
            obtain ⟨rf', rfl⟩ := exists_succ (k := 0) (by omega : 0 + 1 ≤ rf)
            rw [run_field]
            simp only [hfield]
            refine key_then hs name _ r ?_
            intro s hs
            have := hinner rf' (by omega) s hs
            rw [hb, hx'] at this
            exact this
          · simp only [hne, Bool.false_eq_true, if_false, Except.ok.injEq] at hc
            refine Or.inr ⟨_, hc.symm, ?_⟩
            intro rf hrf s hs
            obtain ⟨rf', rfl⟩ := exists_succ (k := 0) (by omega : 0 + 1 ≤ rf)
            rw [run_nonEmptyField]
            simp only [hfield, hres]
            exact key_then hs name _ r (hinner rf' (by omega))
  | inline =>
    simp only [hk] at hc hspec
    have hni : isIfaceT (stripPtr f.typ).2 = false := by
      have : inlineIfaceF f = false := by
        cases f; simp only [goodRF, Bool.and_eq_true, Bool.not_eq_true'] at hpf; exact hpf.2
      simpa [inlineIfaceF, hk] using this
    have hbt := baseType_goodR hM hpt (by omega : tdepth f.typ ≤ 1000)
    obtain ⟨fi, hfi, rfl⟩ := map_ok_inv hc
    cases c with
    | zero => simp [buildFieldFoldInline] at hfi
    | succ c2 =>
    rw [bffiR c2 o op f k, hbt] at hfi
    have hnp := stripPtr_not_ptrR hM _ hpt
    obtain ⟨n0, seen0, hinl0⟩ := locF_inline hlf hk
    obtain ⟨n1, hinl1⟩ := inlineOkF_stripR hM reg f.typ hpt n0 seen0 hinl0
    obtain ⟨n1', rfl⟩ : ∃ n1', n1 = n1' + 1 := by
      cases n1 with
      | zero => simp [inlineOkF] at hinl1
      | succ n1' => exact ⟨n1', rfl⟩
    have hsp := inlineF_derefR hM reg f.typ hpt x m segs hw hspec
    have hwalk := ptrWalk_goodR hM f.typ hpt x hw
    -- the folder run on the value behind the pointers (the base, or its forwarding folder)
    have hbaseRun : ∃ bf, fi = .fieldInline k (makeInlinePointerFold (stripPtr f.typ).1 bf) ∧
        ∀ x', deref (stripPtr f.typ).1 x = some x' → ∀ rf, 4 * vdepth x' + 4 ≤ rf →
        ∀ s, Inv s → MemsOut s (run rf o .user bf ⟨(stripPtr f.typ).2, x'⟩ s) segs := by
      by_cases hoi : isOpenInl op (stripPtr f.typ).2.whnf = true
      · simp only [hoi, if_true, Except.ok.injEq] at hfi
        refine ⟨_, hfi.symm, ?_⟩
        intro x' hdr rf hrf s hs
        rw [hdr] at hsp
        obtain ⟨m', hm'⟩ := hsp
        obtain ⟨hwx', hdx'⟩ := deref_wtR hM f.typ hpt x x' hw hdr
        obtain ⟨rf', rfl⟩ := exists_succ (k := 0) (by omega : 0 + 1 ≤ rf)
        rw [run_forwardInline]
        obtain ⟨base, hbase⟩ := recompile_inlineR hM o reg hD hfuel hpb (by omega) hnp hinl1
        rw [hbase]
        exact inline_base_soundR hM hR hI hF hpb (by omega) hnp hni hwx' (by omega) hinl1 hbase hm' rf' (by omega) s hs
      · have hoi' : isOpenInl op (stripPtr f.typ).2.whnf = false := by simpa using hoi
        simp only [hoi', Bool.false_eq_true, if_false] at hfi
        cases hbase : fieldFoldGenInline c2 o (enterInl op (stripPtr f.typ).2.whnf) (stripPtr f.typ).2 with
        | error e => simp [hbase] at hfi
        | ok base =>
          simp only [hbase, Except.ok.injEq] at hfi
          refine ⟨_, hfi.symm, ?_⟩
          intro x' hdr rf hrf s hs
          rw [hdr] at hsp
          obtain ⟨m', hm'⟩ := hsp
          obtain ⟨hwx', hdx'⟩ := deref_wtR hM f.typ hpt x x' hw hdr
          exact inline_base_soundR hM hR hI hF hpb (by omega) hnp hni hwx' (by omega) hinl1 hbase hm' rf (by omega) s hs
    obtain ⟨bf, rfl, hrunb⟩ := hbaseRun
    refine Or.inr ⟨_, rfl, ?_⟩
    intro rf hrf s hs
    obtain ⟨rf', rfl⟩ := exists_succ (k := 0) (by omega : 0 + 1 ≤ rf)
    rw [run_fieldInline]
    simp only [hfield]
    unfold makeInlinePointerFold
    by_cases hn0 : (stripPtr f.typ).1 = 0
    · have hb : (stripPtr f.typ).2 = f.typ := by
        by_cases hpp : ∃ e, f.typ.under = .ptr e
        · obtain ⟨e, he⟩ := hpp
          rw [stripPtr_ptrR hM hpt he] at hn0
          simp at hn0
        · rw [stripPtr_nonptrR (fun e he => hpp ⟨e, he⟩)]
      simp only [hn0, beq_self_eq_true, if_true]
      have := hrunb x (by rw [hn0]; rfl) rf' (by omega) s hs
      rw [hb] at this
      exact this
    · have : ((stripPtr f.typ).1 == 0) = false := by simpa using hn0
      simp only [this, Bool.false_eq_true, if_false]
      obtain ⟨rf'', rfl⟩ := exists_succ (k := 0) (by omega : 0 + 1 ≤ rf')
      rw [run_inlinePointer, hwalk]
      cases hdr : deref (stripPtr f.typ).1 x with
      | none =>
        rw [hdr] at hsp
        simp only [] at hsp ⊢
        rw [hsp]
        exact MemsOut_nil hs
      | some x' =>
        simp only []
        have hdx' := (deref_wtR hM f.typ hpt x x' hw hdr).2
        exact hrunb x' hdr rf'' (by omega) s hs

/-- (F) at depth N+1 from (R), (I), (F) at depth N -/
theorem fields_stepR {o : FoldOpts} {reg : Bool} {N : Nat} (hD : D ≤ 1000) (hfuel : FuelOK ns D)
    (hR : RunSoundR ns D o reg N) (hI : IfaceSoundR ns D o reg N) (hF : FieldsSoundR ns D o reg N) :
    FieldsSoundR ns D o reg (N + 1) := by
  intro fs
  induction fs with
  | nil =>
    intro vs _ _ _ hw _ rv k _ cf op fvs hc m segss hspec rf _ s hs
    cases vs with
    | cons v vs => simp [wtRF] at hw
    | nil =>
      simp only [List.zipIdx_nil, mapM_nil, Except.ok.injEq] at hc
      simp only [List.zip_nil_right, mapM_nil, Except.ok.injEq] at hspec
      subst hc hspec
      exact MemsOut_nil hs
  | cons f fs ih =>
    intro vs hd hp hdt hw hlf rv k hfield cf op fvs hc m segss hspec rf hrf s hs
    cases vs with
    | nil => simp [wtRF] at hw
    | cons x vs =>
      simp only [wtRF, Bool.and_eq_true] at hw
      simp only [goodRFs, Bool.and_eq_true] at hp
      simp only [tdepthFs] at hdt
      simp only [vdepthL] at hd hrf
      rw [zipIdx_cons, mapM_cons] at hc
      rw [List.zip_cons_cons, mapM_cons] at hspec
      cases hfo : buildFieldFold cf o op f k with
      | error e => simp [hfo] at hc
      | ok fo =>
      cases hrest : (fs.zipIdx (k + 1)).mapM (fun (x : Field × Nat) => buildFieldFold cf o op x.1 x.2) with
      | error e => simp [hfo, hrest] at hc
      | ok fvs' =>
      simp only [hfo, hrest, Except.ok.injEq] at hc
      subst hc
      cases hsg : fieldF m reg f x with
      | error e => simp [hsg] at hspec
      | ok segs =>
      cases hsr : (fs.zip vs).mapM (fun (fx : Field × GoVal) => fieldF m reg fx.1 fx.2) with
      | error e => simp [hsg, hsr] at hspec
      | ok segss' =>
      simp only [hsg, hsr, Except.ok.injEq] at hspec
      subst hspec
      have htail : ∀ s', Inv s' →
          MemsOut s' (seqM (fun s fv => run rf o .user fv rv s) s' (fvs'.filterMap id)) segss'.flatten := by
        intro s' hs'
        refine ih vs (by omega) hp.2 (by omega) hw.2 (fun g hg => hlf g (by simp [hg])) rv (k + 1) ?_ cf op fvs' hrest m segss' hsr rf (by omega) s' hs'
        intro j g y hg hy
        have := hfield (j + 1) g y (by simpa using hg) (by simpa using hy)
        rw [← this]
        congr 1
        omega
      have hf0 := hfield 0 f x (by simp) (by simp)
      rw [Nat.add_zero] at hf0
      have hdf : tdepth f.typ ≤ D := by rw [← tdepthF_typ]; omega
      have hlz : lazyField f = true → vdepth x ≤ lazyBound := by
        intro h
        have := hw.1.2
        simpa [h] using this
      rcases field_soundR hM hD hfuel hR hI hF hp.1 hdf (hlf f (by simp)) hw.1.1 hlz (by omega) hf0 hfo hsg with ⟨rfl, rfl⟩ | ⟨fv, rfl, hrun⟩
      · simp only [List.filterMap_cons, id, List.flatten_cons, List.nil_append]
        exact htail s hs
      · simp only [List.filterMap_cons, id, List.flatten_cons]
        exact MemsOut_seq_cons (hrun rf (by omega) s hs) htail


omit hM in
theorem arrprim_soundR {m : Nat} {reg : Bool} {e : GoType} {p : Prim} {v : GoVal} {r : RVal}
    (hp : primOf? e = some p) (hw : wtR ns D (.slice e) v = true) (hspec : foldF m reg (.slice e) v = .ok r)
    (bytes : Bool) {s : St} (hs : Inv s) :
    ∃ x, (sliceElems? v).bind (arrEv bytes p) = some x ∧ ValOut s (emit s .user x) r := by
  cases m with
  | zero => exact (foldF_zero hspec).elim
  | succ m =>
  rcases wtR_slice_inv (T := .slice e) rfl hw with rfl | ⟨xs, rfl, _⟩
  · rw [foldF_slice_nil] at hspec
    cases hspec
    exact arr_sound (m := m) (reg := reg) hp .nil bytes hs
  · rw [foldF_slice] at hspec
    obtain ⟨rs, hrs, rfl⟩ := map_ok_inv hspec
    exact arr_sound hp (mapM_ok hrs) bytes hs

omit hM in
theorem mapprim_soundR {m : Nat} {reg : Bool} {e : GoType} {p : Prim} {v : GoVal} {r : RVal}
    (hp : primOf? e = some p) (hw : wtR ns D (.map .string e) v = true)
    (hspec : foldF m reg (.map .string e) v = .ok r) {s : St} (hs : Inv s) :
    ∃ x, (mapEntries? v).bind (objEv p) = some x ∧ ValOut s (emit s .user x) r := by
  cases m with
  | zero => exact (foldF_zero hspec).elim
  | succ m =>
  have hsk : isStringKind .string = true := rfl
  rcases wtR_map_inv (T := .map .string e) rfl hw with rfl | ⟨ms, rfl, _, hnd⟩
  · rw [foldF_map_nil] at hspec
    simp only [hsk, if_true, Except.ok.injEq] at hspec
    subst hspec
    obtain ⟨x, hx, hv⟩ := obj_sound (m := m) (reg := reg) (ms := []) (mems := []) hp .nil (by simp [keysOf]) hs
    exact ⟨x, hx, ValOut_emptyseg hv⟩
  · rw [foldF_map] at hspec
    simp only [hsk, Bool.not_true, Bool.false_eq_true, if_false] at hspec
    obtain ⟨mems, hmems, rfl⟩ := map_ok_inv hspec
    have hes := entries_spec hmems
    exact obj_sound hp hes (keys_nodup hes hnd) hs


/-! ## the induction steps -/

omit hM in
theorem run_slice_nilR (rf : Nat) (o : FoldOpts) (c : VisRef) (elem : ReFold) (T : GoType) (s : St) :
    run (rf + 1) o c (.slice elem) ⟨T, .nilSlice⟩ s =
      match emit s c (.ev (.arrStart (([] : List GoVal).length : Nat) BT.any)) with
      | (s, .ok) =>
        match seqM (fun s x => run rf o c elem ⟨T.elem, x⟩ s) s [] with
        | (s, .ok) => emit s c (.ev .arrEnd)
        | r => r
      | r => r := by
  rw [run]
  rfl

/-- the rules accept the underlying type of an accepted good type locally -/
theorem locOK_under (reg : Bool) {T : GoType} (hg : goodR ns T = true) (hloc : LocOK reg T) :
    ∃ k seen, typeOkF (k + 1) reg seen T.under = .ok () := by
  rcases whnfR hM hg with ⟨_, hu⟩ | ⟨nm, u, _, h2, _⟩
  · rw [under_unnamed hu]
    obtain ⟨k, seen, hk⟩ := hloc
    cases k with
    | zero => simp [typeOkF] at hk
    | succ k => exact ⟨k, seen, hk⟩
  · obtain ⟨⟨k, seen', hk⟩, _⟩ := locOK_body hM reg hg h2
    rw [← under_whnf hM hg, h2]
    simp only [GoType.under]
    cases k with
    | zero => simp [typeOkF] at hk
    | succ k => exact ⟨k, seen', hk⟩

/-- (R) at depth N+1, for a type without forwarding registry entry -/
theorem run_closedR {o : FoldOpts} {reg : Bool} {N : Nat} (hD : D ≤ 1000) (hfuel : FuelOK ns D)
    (hR : RunSoundR ns D o reg N) (hI : IfaceSoundR ns D o reg N) (hF1 : FieldsSoundR ns D o reg (N + 1)) :
    ∀ T v, vdepth v < N + 1 → goodR ns T = true → tdepth T ≤ D → wtR ns D T v = true → LocOK reg T →
    ∀ cf op f, isOpen op T.whnf = false → getReflectFold cf o op T = .ok f →
    ∀ m r, foldF m reg T v = .ok r →
    ∀ rf, 4 * vdepth v + 3 ≤ rf → ∀ s, Inv s → ValOut s (run rf o .user f ⟨T, v⟩ s) r := by
  intro T v hd hp hdt hw hloc cf op f hno hc m r hspec rf hrf s hs
  rw [grf_whnfR hM cf o op hp] at hc
  have hpw := good_whnf hM hp
  have hww := whnf_whnf hM hp
  have huw := under_whnf hM hp
  cases cf with
  | zero => simp [getReflectFold] at hc
  | succ c =>
  obtain ⟨rf', rfl⟩ := exists_succ (k := 0) (by omega : 0 + 1 ≤ rf)
  cases m with
  | zero => exact (foldF_zero hspec).elim
  | succ m =>
  have hgu := good_underR hM hp
  have hdu := tdepth_underR hM hp
  obtain ⟨kl, seenl, hkl⟩ := locOK_under hM reg hp hloc
  rw [typeOkF_unnamedR hM kl reg seenl hgu.1 hgu.2] at hkl
  have hspecU := hspec
  rw [foldF_underR hM m reg hp] at hspecU
  have prim_case : ∀ p, primOf? T.under = some p → ValOut s (run (rf' + 1) o .user f ⟨T, v⟩ s) r := by
    intro p hpr
    rw [grf_primkindR hM c o op hpw hww hno (by rw [huw]; exact hpr)] at hc
    cases hc
    rw [run_prim]
    obtain ⟨x, hx, hv⟩ := prim_sound hpr hspecU true hs
    simp only [hx]
    exact hv
  generalize hU : T.under = U at hgu hdu hspecU prim_case hkl
  rw [hU] at huw
  cases U with
  | bool => exact prim_case _ rfl
  | string => exact prim_case _ rfl
  | int k => exact prim_case _ rfl
  | float32 => exact prim_case _ rfl
  | float64 => exact prim_case _ rfl
  | named a b c => simp [unnamedHead] at hgu
  | ref a => simp [unnamedHead] at hgu
  | chan e => simp at hkl
  | other k => simp at hkl
  | iface =>
    rw [grf_ifaceR hM c o op hpw hww hno huw] at hc
    cases hc
    rw [run_ifaceElem]
    simp only [hU]
    rcases wtR_iface_inv hU hw with rfl | ⟨dt, dv, rfl, hpd, hdd, hwd⟩
    · rw [foldF_iface_nil] at hspecU
      cases hspecU
      exact emit_scalar hs Enc_null (by simp [Rel])
    · rw [foldF_iface] at hspecU
      rw [vdepth_iface] at hd hrf
      cases htok : typeOk reg dt with
      | error e => simp [htok] at hspecU
      | ok u =>
        simp only [htok] at hspecU
        exact anyreflect_soundR hM hD hfuel hR hpd hdd hwd (by omega) ⟨1000, [], htok⟩ hspecU (by omega) hs
  | slice e =>
    have he : goodR ns e = true := by simpa [goodR] using hgu.1
    have hde : tdepth e ≤ D := by simp only [tdepth] at hdu; omega
    have helem : T.elem = e := elem_of_under.1 e hU
    have hle : LocOK reg e := ⟨kl, seenl, hkl⟩
    by_cases hfast : unnamedHead T.whnf = true ∧ ∃ p, primOf? e = some p
    · obtain ⟨hu, p, hpr⟩ := hfast
      have hT : T.whnf = .slice e := by rw [← under_unnamed hu]; exact huw
      rw [hT, grf_slice_prim c o op hpr] at hc
      cases hc
      rw [run_arrPrim]
      have hwU : wtR ns D (.slice e) v = true := by rw [← hU, wtR_under hM hp]; exact hw
      obtain ⟨x, hx, hv⟩ := arrprim_soundR hpr hwU hspecU false hs
      simp only [hx]
      exact hv
    · have hnp : noPrimitive T.whnf := by
        refine noPrimitive_of_underR hM hpw hww ?_
        intro hu
        rw [huw]
        cases hpr : primOf? e with
        | some p => exact absurd ⟨hu, p, hpr⟩ hfast
        | none => simp [getReflectFoldPrimitive, hpr]
      cases c with
      | zero =>
        rw [grf_closed hM 0 o op hpw hww hno, hnp] at hc
        simp [huw, getReflectFoldSlice] at hc
      | succ c' =>
      rw [grf_sliceR hM c' o op hpw hww hno huw hnp] at hc
      cases hel : getReflectFold c' o (op.enter T.whnf) e with
      | error err => simp [hel] at hc
      | ok el =>
        simp only [hel, Except.ok.injEq] at hc
        subst hc
        rcases wtR_slice_inv hU hw with rfl | ⟨xs, rfl, hwl⟩
        · rw [foldF_slice_nil] at hspecU
          cases hspecU
          rw [run_slice_nilR, helem]
          exact seq_soundR hR he hde hle (xs := []) rfl (fun x hx => by cases hx) hel (m := m) rfl
            (rf := rf') (fun x hx => by cases hx) _ hs
        · rw [foldF_slice] at hspecU
          obtain ⟨rs, hrs, rfl⟩ := map_ok_inv hspecU
          rw [run_slice_slice, helem]
          rw [vdepth_slice] at hd hrf
          exact seq_soundR hR he hde hle hwl (fun x hx => by have := vdepthL_mem hx; omega) hel hrs
            (fun x hx => by have := vdepthL_mem hx; omega) _ hs
  | array n e =>
    have he : goodR ns e = true := by simpa [goodR] using hgu.1
    have hde : tdepth e ≤ D := by simp only [tdepth] at hdu; omega
    have helem : T.elem = e := elem_of_under.2.1 n e hU
    have hle : LocOK reg e := ⟨kl, seenl, hkl⟩
    cases c with
    | zero =>
      rw [grf_closed hM 0 o op hpw hww hno, noPrimitive_shape hM hpw hww (Or.inl ⟨n, e, huw⟩)] at hc
      simp [huw, getReflectFoldSlice] at hc
    | succ c' =>
    rw [grf_arrayR hM c' o op hpw hww hno huw] at hc
    cases hel : getReflectFold c' o (op.enter T.whnf) e with
    | error err => simp [hel] at hc
    | ok el =>
      simp only [hel, Except.ok.injEq] at hc
      subst hc
      obtain ⟨xs, rfl, hwl⟩ := wtR_array_inv hU hw
      rw [foldF_array] at hspecU
      obtain ⟨rs, hrs, rfl⟩ := map_ok_inv hspecU
      rw [run_slice_array, helem]
      rw [vdepth_array] at hd hrf
      exact seq_soundR hR he hde hle hwl (fun x hx => by have := vdepthL_mem hx; omega) hel hrs
        (fun x hx => by have := vdepthL_mem hx; omega) _ hs
  | ptr e =>
    -- only an unnamed pointer type: the declarations of members are no pointer types
    have hT : T.whnf = T ∧ T = .ptr e := by
      rcases whnfR hM hp with ⟨h1, hu⟩ | ⟨n, u, _, h2, _, h4, _⟩
      · exact ⟨h1, by rw [← under_unnamed hu]; exact hU⟩
      · exfalso
        rw [h2] at huw
        exact h4 e huw
    obtain ⟨hT1, rfl⟩ := hT
    rw [hT1] at hc hno
    cases c with
    | zero =>
      rw [grf_closed hM 0 o op hp hT1 hno, noPrimitive_shape hM hp hT1 (Or.inr (Or.inl ⟨e, hU⟩))] at hc
      simp [hU, getFoldPointer] at hc
    | succ c' =>
    rw [grf_ptrR hM c' o op hp hT1 hno hU, baseType_goodR hM hp (by omega)] at hc
    cases hel : getReflectFold c' o (op.enter (.ptr e)) (stripPtr (.ptr e)).2 with
    | error err => simp [hel] at hc
    | ok el =>
      simp only [hel, Except.ok.injEq] at hc
      have hs1 : 1 ≤ (stripPtr (GoType.ptr e)).1 := by simp [stripPtr]
      have hf : f = .pointer (stripPtr (GoType.ptr e)).1 el := by
        rw [← hc]
        unfold makePointerFold
        have : ((stripPtr (GoType.ptr e)).1 == 0) = false := by
          have : (stripPtr (GoType.ptr e)).1 ≠ 0 := by omega
          simpa using this
        simp only [this, Bool.false_eq_true, if_false]
      subst hf
      rw [run_pointer, ptrWalk_goodR hM _ hp v hw]
      have hsp := foldF_derefR hM reg _ hp v (m + 1) r hw hspec
      have hpb := good_stripPtrR hM _ hp
      cases hdr : deref (stripPtr (GoType.ptr e)).1 v with
      | none =>
        rw [hdr] at hsp
        simp only [] at hsp ⊢
        subst hsp
        exact emit_scalar hs Enc_null (by simp [Rel])
      | some x' =>
        rw [hdr] at hsp
        simp only [] at hsp ⊢
        obtain ⟨m', hm'⟩ := hsp
        obtain ⟨hwx', hdx'⟩ := deref_wtR hM _ hp v x' hw hdr
        have hdb := tdepth_stripPtr (GoType.ptr e)
        exact hR _ x' (by omega) hpb (by omega) hwx' (locOK_strip hM reg _ hp hloc) c' _ el hel m' r hm' rf'
          (by omega) s hs
  | struct fs =>
    have hfs : goodRFs ns fs = true := by simpa [goodR] using hgu.1
    have hdfs : tdepthFs fs ≤ D := by simp only [tdepth] at hdu; omega
    rw [grf_structR hM c o op hpw hww hno huw] at hc
    cases c with
    | zero => simp [getReflectFoldStruct] at hc
    | succ c' =>
    rw [grfs_eq] at hc
    cases hfvs : (fs.zipIdx).mapM (fun (x : Field × Nat) => buildFieldFold c' o (op.enter T.whnf) x.1 x.2) with
    | error e => simp [hfvs] at hc
    | ok fvs =>
      simp only [hfvs, Bool.false_eq_true, if_false, Except.ok.injEq] at hc
      subst hc
      obtain ⟨vs, rfl, hwf⟩ := wtR_struct_inv hU hw
      rw [foldF_struct] at hspecU
      obtain ⟨segss, hsegss, rfl⟩ := map_ok_inv hspecU
      rw [run_structFold]
      rw [vdepth_struct] at hd hrf
      refine wrap_obj hs _ BT.any _ _ ?_
      intro s hs
      refine hF1 fs vs (by omega) hfs hdfs hwf (fun f hf => ⟨kl, seenl, forM_ok hkl f hf⟩) ⟨T, .struct vs⟩ 0 ?_
        c' _ fvs hfvs m segss hsegss rf' (by omega) s hs
      intro j g y hg hy
      rw [Nat.zero_add]
      exact field_structR hU hg hy
  | map k e =>
    have hke : goodR ns k = true ∧ goodR ns e = true := by simpa [goodR] using hgu.1
    have hde : tdepth e ≤ D := by simp only [tdepth] at hdu; omega
    have hle : LocOK reg e := by
      simp only [] at hkl
      split at hkl
      · exact ⟨kl, seenl, hkl⟩
      · cases hkl
    by_cases hfast : unnamedHead T.whnf = true ∧ k = .string ∧ ∃ p, primOf? e = some p
    · obtain ⟨hu, rfl, p, hpr⟩ := hfast
      have hT : T.whnf = .map .string e := by rw [← under_unnamed hu]; exact huw
      rw [hT, grf_map_prim c o op hpr] at hc
      cases hc
      rw [run_mapPrim]
      have hwU : wtR ns D (.map .string e) v = true := by rw [← hU, wtR_under hM hp]; exact hw
      obtain ⟨x, hx, hv⟩ := mapprim_soundR hpr hwU hspecU hs
      simp only [hx]
      exact hv
    · have hnp : noPrimitive T.whnf := by
        refine noPrimitive_of_underR hM hpw hww ?_
        intro hu
        rw [huw]
        by_cases hk2 : k = .string
        · subst hk2
          cases hpr : primOf? e with
          | some p => exact absurd ⟨hu, rfl, p, hpr⟩ hfast
          | none => simp [getReflectFoldPrimitive, hpr]
        · exact getReflectFoldPrimitive_map_nonstring hk2
      cases c with
      | zero =>
        rw [grf_closed hM 0 o op hpw hww hno, hnp] at hc
        simp [huw, getReflectFoldMap] at hc
      | succ c1 =>
      cases c1 with
      | zero =>
        rw [grf_closed hM 1 o op hpw hww hno, hnp] at hc
        simp [huw, getReflectFoldMap, getReflectFoldMapKeys] at hc
      | succ c2 =>
      rw [grf_mapR hM c2 o op hpw hww hno huw hnp] at hc
      cases hit : getReflectFoldMapKeys (c2 + 1) o (op.enter T.whnf) T.whnf with
      | error err => simp [hit] at hc
      | ok iter =>
        simp only [hit, Except.ok.injEq] at hc
        subst hc
        obtain ⟨segs, rfl, hrun⟩ := mapiter_soundR hR hI hU hke.2 hde hle hw hd huw hit hspecU
        rw [run_mapFold]
        have hme : ∃ ms, mapEntries? v = some ms := by
          rcases wtR_map_inv hU hw with rfl | ⟨ms, rfl, _⟩
          · exact ⟨[], rfl⟩
          · exact ⟨ms, rfl⟩
        obtain ⟨ms, hms⟩ := hme
        simp only [hms]
        exact wrap_obj hs _ BT.any _ _ (fun s hs => hrun rf' (by omega) s hs)


/-- the rules accept a member by name -/
theorem locOK_member (reg : Bool) {n : String} {m : Methods} {u : GoType}
    (hg : goodR ns (.named n m u) = true) : LocOK reg (.named n m u) := by
  refine ⟨1, ns, ?_⟩
  have hn : ns.contains n = true := by
    simp only [goodR, Bool.and_eq_true] at hg
    exact hg.1.1
  conv => lhs; unfold typeOkF
  simp only [customOf_goodR hM reg hg, Option.isSome_none, Bool.false_eq_true, if_false,
    GoType.menagerieName?, hn, if_true]

/-- (R) at depth N+1 -/
theorem run_stepR {o : FoldOpts} {reg : Bool} {N : Nat} (hD : D ≤ 1000) (hfuel : FuelOK ns D)
    (hR : RunSoundR ns D o reg N) (hI : IfaceSoundR ns D o reg N) (hF1 : FieldsSoundR ns D o reg (N + 1)) :
    RunSoundR ns D o reg (N + 1) := by
  intro T v hd hp hdt hw hloc cf op f hc m r hspec rf hrf s hs
  by_cases ho : isOpen op T.whnf = true
  · -- a forwarding folder: the type is compiled again, with an empty registry
    have hpw := good_whnf hM hp
    have hww := whnf_whnf hM hp
    rw [grf_whnfR hM cf o op hp] at hc
    cases cf with
    | zero => simp [getReflectFold] at hc
    | succ c =>
    rw [grf_open hM c o op hpw hww ho] at hc
    cases hc
    obtain ⟨rf', rfl⟩ := exists_succ (k := 0) (by omega : 0 + 1 ≤ rf)
    rw [run_forward]
    -- an open type is a member
    have hmem : ∃ n u, T.whnf = .named n {} u := by
      rcases whnfR hM hp with ⟨h1, hu⟩ | ⟨n, u, _, h2, _⟩
      · rw [h1] at ho
        rw [isOpen_unnamed op hu] at ho
        cases ho
      · exact ⟨n, u, h2⟩
    obtain ⟨n, u, h2⟩ := hmem
    have hlw : LocOK reg T.whnf := by rw [h2]; rw [h2] at hpw; exact locOK_member hM reg hpw
    have hdw : tdepth T.whnf ≤ D := by
      rcases whnfR hM hp with ⟨h1, _⟩ | ⟨n', u', hT, h2', _, _, _, h6, _⟩
      · rw [h1]; exact hdt
      · rcases hT with rfl | rfl
        · rw [h2']
          simp only [tdepth]
          omega
        · exact hdt
    obtain ⟨f', hf'⟩ := compile_okR hM o reg hD hfuel hpw hdw hlw {}
    rw [hf']
    refine run_closedR hM hD hfuel hR hI hF1 T v hd hp hdt hw hloc compileFuel {} f' (isOpen_empty _) ?_ m r hspec
      rf' (by omega) s hs
    rw [grf_whnfR hM compileFuel o {} hp]
    exact hf'
  · have ho' : isOpen op T.whnf = false := by simpa using ho
    exact run_closedR hM hD hfuel hR hI hF1 T v hd hp hdt hw hloc cf op f ho' hc m r hspec rf (by omega) s hs

/-- `foldInterfaceValue` on a dynamic type of the universe -/
theorem fiv_goodR (rf : Nat) (o : FoldOpts) (c : VisRef) {T : GoType} (v : GoVal)
    (s : St) (h : goodR ns T = true) :
    foldInterfaceValue (rf + 1) o c (.iface T v) s =
      match fastSel T.whnf with
      | some f => runFast rf o c f v s
      | none => foldAnyReflect rf o c ⟨T, v⟩ s := by
  rw [foldInterfaceValue]
  simp only [userReg_goodR hM o h, implementsFolder_goodR hM h, Bool.false_eq_true, if_false, fastSel]
  cases getFoldGoTypes T.whnf with
  | some f => rfl
  | none =>
    simp only []
    cases getFoldConvert T.whnf <;> rfl

theorem fastSel_invR {T : GoType} {fa : Fast} (h : goodR ns T = true)
    (hf : fastSel T.whnf = some fa) : getFoldGoTypes T.under = some fa := by
  have hgw := good_whnf hM h
  have hww := whnf_whnf hM h
  rw [← under_whnf hM h]
  generalize T.whnf = T' at hf hgw hww
  unfold fastSel at hf
  rcases headKindR hM hgw hww with hu | ⟨n, m, u, rfl⟩
  · rw [under_unnamed hu]
    have : getFoldConvert T' = none := by simp [getFoldConvert, isNamed_unnamed hu]
    rw [this] at hf
    cases hg : getFoldGoTypes T' with
    | none => simp [hg] at hf
    | some f => simp only [hg, Option.some.injEq] at hf; rw [hf]
  · simp only [getFoldGoTypes_named, getFoldConvert, GoType.isNamed, Bool.not_true, Bool.false_eq_true,
      if_false, GoType.under] at hf ⊢
    split at hf <;> simp_all

/-- (I) at depth N+1 -/
theorem iface_stepR {o : FoldOpts} {reg : Bool} {N : Nat} (hD : D ≤ 1000) (hfuel : FuelOK ns D)
    (hR : RunSoundR ns D o reg N) (hI : IfaceSoundR ns D o reg N) : IfaceSoundR ns D o reg (N + 1) := by
  intro i hd hw m r hspec rf hrf s hs
  obtain ⟨rf', rfl⟩ := exists_succ (k := 0) (by omega : 0 + 1 ≤ rf)
  cases m with
  | zero => exact (foldF_zero hspec).elim
  | succ m =>
  rcases wtR_iface_inv (T := .iface) rfl hw with rfl | ⟨dt, dv, rfl, hpd, hdd, hwd⟩
  · rw [foldF_iface_nil] at hspec
    cases hspec
    rw [fiv_nil]
    exact emit_scalar hs Enc_null (by simp [Rel])
  · rw [foldF_iface] at hspec
    rw [vdepth_iface] at hd hrf
    cases htok : typeOk reg dt with
    | error e => simp [htok] at hspec
    | ok u =>
    simp only [htok] at hspec
    rw [fiv_goodR hM rf' o .user dv s hpd]
    cases hg : fastSel dt.whnf with
    | none =>
      simp only []
      exact anyreflect_soundR hM hD hfuel hR hpd hdd hwd (by omega) ⟨1000, [], htok⟩ hspec (by omega) hs
    | some fa =>
      simp only []
      obtain ⟨rf'', rfl⟩ := exists_succ (k := 0) (by omega : 0 + 1 ≤ rf')
      have hspecU : foldF m reg dt.under dv = .ok r := by rw [← foldF_underR' hM m reg hpd]; exact hspec
      have hwU : wtR ns D dt.under dv = true := by rw [wtR_under hM hpd]; exact hwd
      rcases gfgt_inv (fastSel_invR hM hpd hg) with ⟨hU, rfl⟩ | ⟨hU, rfl⟩ | ⟨e, p, hU, hpr, rfl⟩ |
        ⟨e, p, hU, hpr, rfl⟩ | ⟨p, hpr, rfl⟩
      · -- []interface{}
        rw [runFast_arrIface]
        rw [hU] at hspecU hwU
        cases m with
        | zero => exact (foldF_zero hspecU).elim
        | succ m =>
        have key : ∀ (xs : List GoVal) (rs : List RVal), wtRL ns D .iface xs = true →
            (∀ x ∈ xs, vdepth x + 1 ≤ vdepth dv) → xs.mapM (foldF m reg .iface) = .ok rs →
            ValOut s (match emit s .user (.ev (.arrStart xs.length BT.any)) with
              | (s, .ok) =>
                match seqM (fun s x => foldInterfaceValue rf'' o .user x s) s xs with
                | (s, .ok) => emit s .user (.ev .arrEnd)
                | r => r
              | r => r) (.arr rs) := by
          intro xs rs hwl hdx hrs
          refine wrap_arr hs _ BT.any _ rs (seq_elems _ ?_)
          refine (mapM_ok hrs).imp ?_
          intro x r hx _ hxr s hs
          have := hdx x hx
          exact hI x (by omega) (wtRL_mem hwl hx) m r hxr rf'' (by omega) s hs
        rcases wtR_slice_inv (T := .slice .iface) rfl hwU with rfl | ⟨xs, rfl, hwl⟩
        · rw [foldF_slice_nil] at hspecU
          cases hspecU
          exact key [] [] rfl (fun x hx => by cases hx) rfl
        · rw [foldF_slice] at hspecU
          obtain ⟨rs, hrs, rfl⟩ := map_ok_inv hspecU
          exact key xs rs hwl (fun x hx => by have := vdepthL_mem hx; rw [vdepth_slice]; omega) hrs
      · -- map[string]interface{}
        rw [runFast_mapIface]
        rw [hU] at hspecU hwU
        cases m with
        | zero => exact (foldF_zero hspecU).elim
        | succ m =>
        have hsk : isStringKind .string = true := rfl
        rcases wtR_map_inv (T := .map .string .iface) rfl hwU with rfl | ⟨ms, rfl, hwp, hnd⟩
        · rw [foldF_map_nil] at hspecU
          simp only [hsk, if_true, Except.ok.injEq] at hspecU
          subst hspecU
          exact wrap_obj hs _ BT.any (fun s => (s, .ok)) [] (fun s hs => MemsOut_nil hs)
        · rw [foldF_map] at hspecU
          simp only [hsk, Bool.not_true, Bool.false_eq_true, if_false] at hspecU
          obtain ⟨mems, hmems, rfl⟩ := map_ok_inv hspecU
          have hes := entries_spec hmems
          have hkn := keys_nodup hes hnd
          obtain ⟨es, hske, hlen, hall, hmem⟩ := stringKeyed_spec hes
          have : (mapEntries? (GoVal.map ms)).bind stringKeyed = some es := hske
          simp only [this]
          refine wrap_obj hs _ BT.any _ _ ?_
          intro s hs
          refine range_mems (fun s (x : Bytes × GoVal) => foldInterfaceValue rf'' o .user x.2 s)
            (fun x => foldF m reg .iface x.2) hall hkn ?_ es.length (Nat.le_refl _) s hs
          intro x hx r hr s hs
          obtain ⟨kx, hkx, e1⟩ := hmem x hx
          have h1 := wtRP_mem hwp hkx
          have h2 := vdepthP_mem hkx
          rw [e1] at h1 h2
          rw [vdepth_map] at hd hrf
          exact hI x.2 (by omega) h1 m r hr rf'' (by omega) s hs
      · rw [runFast_arr]
        rw [hU] at hspecU hwU
        obtain ⟨x, hx, hv⟩ := arrprim_soundR hpr hwU hspecU true hs
        simp only [hx]
        exact hv
      · rw [runFast_map]
        rw [hU] at hspecU hwU
        obtain ⟨x, hx, hv⟩ := mapprim_soundR hpr hwU hspecU hs
        simp only [hx]
        exact hv
      · rw [runFast_prim]
        obtain ⟨x, hx, hv⟩ := prim_sound hpr hspecU false hs
        simp only [hx]
        exact hv


/-- (R), (I), (F) at every depth -/
theorem sound_allR (o : FoldOpts) (reg : Bool) (hD : D ≤ 1000) (hfuel : FuelOK ns D) :
    ∀ N, RunSoundR ns D o reg N ∧ IfaceSoundR ns D o reg N ∧ FieldsSoundR ns D o reg N := by
  intro N
  induction N with
  | zero =>
    refine ⟨?_, ?_, ?_⟩
    · intro T v hd; omega
    · intro i hd; omega
    · intro fs vs hd; omega
  | succ N ih =>
    obtain ⟨hR, hI, hF⟩ := ih
    have hF1 := fields_stepR hM hD hfuel hR hI hF
    exact ⟨run_stepR hM hD hfuel hR hI hF1, iface_stepR hM hD hfuel hR hI, hF1⟩

end

end SF.FoldRec
