/-
  Error direction of property C12, control structures: `seqM` / `rangeM` return the error of
  the first failing step; the specification's errors through pointers.
-/
import SF.Proofs.FoldMain
import SF.Proofs.FoldNoFuel
import SF.Proofs.FoldCompileErr
namespace SF.FoldProofs
open SF SF.Gotype SF.Gotype.Fold SF.Gotype.Rules

/-- the step succeeds from every healthy state and leaves a healthy state -/
def OKStep (run : St → St × Res) : Prop := ∀ s, Inv s → ∃ s', run s = (s', .ok) ∧ Inv s'

/-- the step returns a Go error from every healthy state -/
def ERRStep (run : St → St × Res) : Prop := ∀ s, Inv s → ∃ s' e', run s = (s', .err e')

theorem OKStep_of_ValOut {run : St → St × Res} {r : RVal} (h : ∀ s, Inv s → ValOut s (run s) r) :
    OKStep run := by
  intro s hs
  obtain ⟨s', xs, g, h1, h2, _, _⟩ := h s hs
  exact ⟨s', h1, h2.2⟩

theorem OKStep_of_MemsOut {run : St → St × Res} {segs : List Seg} (h : ∀ s, Inv s → MemsOut s (run s) segs) :
    OKStep run := by
  intro s hs
  obtain ⟨s', xs, g, h1, h2, _, _⟩ := h s hs
  exact ⟨s', h1, h2.2⟩

theorem seqM_err {α : Type} (step : St → α → St × Res) (pre : List α) (x : α) (post : List α)
    (hpre : ∀ y ∈ pre, OKStep (fun s => step s y)) (hx : ERRStep (fun s => step s x)) :
    ERRStep (fun s => seqM step s (pre ++ x :: post)) := by
  induction pre with
  | nil =>
    intro s hs
    obtain ⟨s', e', h⟩ := hx s hs
    exact ⟨s', e', by simp only [List.nil_append, seqM, h]⟩
  | cons a pre ih =>
    intro s hs
    obtain ⟨s1, h1, hs1⟩ := hpre a (by simp) s hs
    obtain ⟨s', e', h⟩ := ih (fun y hy => hpre y (by simp [hy])) s1 hs1
    exact ⟨s', e', by simp only [List.cons_append, seqM, h1]; exact h⟩

theorem mapM_err_split {ε α β : Type} {f : α → Except ε β} {l : List α} {e : ε} (h : l.mapM f = .error e) :
    ∃ pre x post, l = pre ++ x :: post ∧ (∀ y ∈ pre, ∃ b, f y = .ok b) ∧ f x = .error e := by
  induction l with
  | nil => cases h
  | cons a l ih =>
    rw [mapM_cons] at h
    cases ha : f a with
    | error e' =>
      simp only [ha, Except.error.injEq] at h
      subst h
      exact ⟨[], a, l, rfl, (fun _ hy => absurd hy List.not_mem_nil), ha⟩
    | ok b =>
      simp only [ha] at h
      cases hl : l.mapM f with
      | ok bs => simp [hl] at h
      | error e' =>
        simp only [hl, Except.error.injEq] at h
        subst h
        obtain ⟨pre, x, post, rfl, hpre, hx⟩ := ih hl
        refine ⟨a :: pre, x, post, rfl, ?_, hx⟩
        intro y hy
        rcases List.mem_cons.mp hy with rfl | hy'
        · exact ⟨b, ha⟩
        · exact hpre y hy'

/-- `rangeM` over entries each of which succeeds or fails, one of them failing -/
theorem rangeM_err {α : Type} (step : St → Bytes × α → St × Res) :
    ∀ (n : Nat) (es : List (Bytes × α)),
    (∀ e ∈ es, OKStep (fun s => step s e) ∨ ERRStep (fun s => step s e)) →
    (∃ e ∈ es, ERRStep (fun s => step s e)) → es.length ≤ n →
    ERRStep (fun s => rangeM step n s es) := by
  intro n
  induction n with
  | zero =>
    intro es _ ⟨e, he, _⟩ hl
    have : es = [] := List.eq_nil_of_length_eq_zero (by omega)
    subst this
    cases he
  | succ n ih =>
    intro es hall ⟨e0, he0, herr0⟩ hl s hs
    have hne : es ≠ [] := by intro h; subst h; cases he0
    obtain ⟨e, rest, hpick, hperm⟩ := pickEntry_some s es hne
    have hmem : ∀ y ∈ e :: rest, y ∈ es := fun y hy => hperm.subset hy
    rcases hall e (hmem e (by simp)) with hok | herr
    · obtain ⟨s1, h1, hs1⟩ := hok s hs
      have hlen : rest.length ≤ n := by
        have := hperm.length_eq
        simp only [List.length_cons] at this
        omega
      -- the failing entry is still to come
      have he0' : e0 ∈ e :: rest := hperm.symm.subset he0
      have : e0 ∈ rest := by
        rcases List.mem_cons.mp he0' with rfl | h
        · exfalso
          obtain ⟨s2, e2, h2⟩ := herr0 s hs
          simp only [h1] at h2
          cases h2
        · exact h
      obtain ⟨s', e', h⟩ := ih rest (fun y hy => hall y (hmem y (by simp [hy]))) ⟨e0, this, herr0⟩ hlen s1 hs1
      exact ⟨s', e', by simp only [rangeM, hpick, h1]; exact h⟩
    · obtain ⟨s', e', h⟩ := herr s hs
      exact ⟨s', e', by simp only [rangeM, hpick, h]⟩

/-- `start; inner; end` with a failing inner part -/
theorem wrap_err {s : St} (hs : Inv s) (x y : Ev) (inner : St → St × Res) (h : ERRStep inner) :
    ∃ s' e', (match emit s .user (.ev x) with
      | (s, .ok) =>
        match inner s with
        | (s, .ok) => emit s .user (.ev y)
        | r => r
      | r => r) = (s', .err e') := by
  obtain ⟨s1, h1, a1⟩ := emit_ev s x hs
  obtain ⟨s2, e', h2⟩ := h s1 a1.2
  exact ⟨s2, e', by simp only [h1, h2]⟩

/-- `key; inner` with a failing / succeeding inner part -/
theorem key_err (k : Bytes) (inner : St → St × Res) (h : ERRStep inner) :
    ERRStep (fun s => match emit s .user (.ev (.key k)) with
      | (s, .ok) => inner s
      | r => r) := by
  intro s hs
  obtain ⟨s1, h1, a1⟩ := emit_ev s (.key k) hs
  obtain ⟨s2, e', h2⟩ := h s1 a1.2
  exact ⟨s2, e', by simp only [h1, h2]⟩

theorem key_ok (k : Bytes) (inner : St → St × Res) (h : OKStep inner) :
    OKStep (fun s => match emit s .user (.ev (.key k)) with
      | (s, .ok) => inner s
      | r => r) := by
  intro s hs
  obtain ⟨s1, h1, a1⟩ := emit_ev s (.key k) hs
  obtain ⟨s2, h2, hs2⟩ := h s1 a1.2
  exact ⟨s2, by simp only [h1, h2], hs2⟩

/-! ## the specification's errors through pointers -/

theorem foldF_deref_err (reg : Bool) : ∀ (sn : List String) (T : GoType), goodT sn T = true →
    ∀ v m e, wt T v = true → foldF m reg T v = .error e → e ≠ .fuel →
    ∃ x m', deref (stripPtr T).1 v = some x ∧ foldF m' reg (stripPtr T).2 x = .error e ∧
      m' + (stripPtr T).1 = m := by
  refine strip_induction _ ?_ ?_
  · intro sn T _ _ hs v m e _ h _
    rw [hs]
    exact ⟨v, m, rfl, h, rfl⟩
  · intro sn T e0 hg hu hge0 hs ih v m e hw h he
    rw [hs]
    cases m with
    | zero => simp only [foldF] at h; cases h; exact absurd rfl he
    | succ m =>
      rw [foldF_under m reg hg, hu] at h
      rcases wt_ptr_inv hu hw with rfl | ⟨y, rfl, hy⟩
      · rw [foldF_ptr_nil _ _ _ (customOf_good reg hge0)] at h; cases h
      · rw [foldF_ptr] at h
        obtain ⟨x, m', h1, h2, h3⟩ := ih y m e hy h he
        exact ⟨x, m', by simp only [deref]; exact h1, h2, by simp only []; omega⟩

theorem inlineF_deref_err (reg : Bool) : ∀ (sn : List String) (T : GoType), goodT sn T = true →
    ∀ v m e, wt T v = true → inlineF m reg T v = .error e → e ≠ .fuel →
    ∃ x m', deref (stripPtr T).1 v = some x ∧ inlineF m' reg (stripPtr T).2 x = .error e ∧
      m' + (stripPtr T).1 = m := by
  refine strip_induction _ ?_ ?_
  · intro sn T _ _ hs v m e _ h _
    rw [hs]
    exact ⟨v, m, rfl, h, rfl⟩
  · intro sn T e0 hg hu hge0 hs ih v m e hw h he
    rw [hs]
    cases m with
    | zero => simp only [inlineF] at h; cases h; exact absurd rfl he
    | succ m =>
      rw [inlineF_under m reg hg, hu] at h
      rcases wt_ptr_inv hu hw with rfl | ⟨y, rfl, hy⟩
      · have : inlineF (m + 1) reg (.ptr e0) .nilPtr = .ok [] := rfl
        rw [this] at h; cases h
      · have : inlineF (m + 1) reg (.ptr e0) (.ptr y) = inlineF m reg e0 y := rfl
        rw [this] at h
        obtain ⟨x, m', h1, h2, h3⟩ := ih y m e hy h he
        exact ⟨x, m', by simp only [deref]; exact h1, h2, by simp only []; omega⟩

/-- a typed value of primitive kind always folds -/
theorem scalar_noerr {m : Nat} {reg : Bool} {sn : List String} {T : GoType} {p : Prim} {v : GoVal}
    (hg : goodT sn T = true) (hp : primOf? T.under = some p) (hw : wt T v = true) :
    ∃ r, foldF (m + 1) reg T v = .ok r := by
  rw [foldF_under m reg hg]
  unfold wt at hw
  generalize T.under = U at hp hw
  cases U <;> simp only [primOf?, reduceCtorEq] at hp <;> cases v <;> simp at hw <;> exact ⟨_, rfl⟩

theorem deref_dynSmall {n : Nat} {x x' : GoVal} (h : deref n x = some x') (hs : dynSmall x = true) :
    dynSmall x' = true := by
  induction n generalizing x with
  | zero => simp only [deref, Option.some.injEq] at h; subst h; exact hs
  | succ n ih =>
    cases x <;> simp only [deref, reduceCtorEq] at h
    rename_i y
    exact ih h (by simpa [dynSmall] using hs)


theorem compile_err' (o : FoldOpts) (reg : Bool) {sn seen : List String} {T : GoType}
    (hp : goodT sn T = true) (hd : tdepth T ≤ dynBound) (hsub : ∀ x ∈ seen, x ∈ sn) {n : Nat} {e : RuleErr}
    (herr : typeOkF n reg seen T = .error e) (he : e ≠ .fuel) :
    ∃ e', getReflectFold compileFuel o {} T = .error (.err e') := by
  unfold dynBound at hd
  exact (compile_err_all o reg (tdepth T) (by omega)).1 sn T (Nat.le_refl _) hp n seen hsub e herr he
    compileFuel {} (OpIn_empty _) (by unfold compileFuel; omega)

/-! ## `omitempty` on interface-typed fields, refused values -/

/-- a type whose base is of interface kind is never refused -/
theorem iface_base_typeOk {reg : Bool} {sn seen : List String} {t : GoType} {n : Nat} {e : RuleErr}
    (hg : goodT sn t = true) (hsub : ∀ y ∈ seen, y ∈ sn) (hi : isIfaceT (stripPtr t).2 = true)
    (h : typeOkF n reg seen t = .error e) : e = .fuel := by
  apply Classical.byContradiction
  intro he
  obtain ⟨n', seen', sn', h1, h2, h3, _⟩ := typeOkF_strip_err reg e he sn t hg n seen hsub h
  obtain ⟨n2, h4, _⟩ := typeOkF_head_err h2 h3 h1 he
  rw [isIfaceT_iff.mp hi] at h4
  have : typeOkF (n2 + 1) reg (snU seen' (stripPtr t).2) .iface = .ok () := rfl
  rw [this] at h4
  cases h4

/-- what the rules say about the target of a kept value, when they refuse the field -/
structure LazyErr (reg : Bool) (e : RuleErr) (T : GoType) (v : GoVal) : Prop where
  refused : ∃ sn seen n m, goodT sn T = true ∧ (∀ y ∈ seen, y ∈ sn) ∧ 3 * vdepth v + 1 ≤ m ∧
    (match typeOkF n reg seen T with
      | .error e' => (.error e' : Except RuleErr RVal)
      | .ok () => foldF m reg T v) = .error e
  typed : wt T v = true
  small : dynSmall v = true

theorem lazy_err (reg : Bool) {t : GoType} {x : GoVal} {rv : RV} (hl : Lazy t x rv) :
    ∀ {sn : List String} {m : Nat} {e : RuleErr}, goodT sn t = true → tdepth t ≤ 1000 → wt t x = true →
    dynSmall x = true → e ≠ .fuel → 3 * vdepth x + 1 ≤ m →
    ((isIfaceT (stripPtr t).2 = true ∧ foldF m reg t x = .error e) ∨
      ∃ seen n, (∀ y ∈ seen, y ∈ sn) ∧
        (match typeOkF n reg seen t with
          | .error e' => (.error e' : Except RuleErr RVal)
          | .ok () => foldF m reg t x) = .error e) →
    ∃ T v, Target rv T v ∧ LazyErr reg e T v ∧ tdepth T ≤ max (tdepth t) dynBound ∧ vdepth v ≤ vdepth x ∧
      (isIfaceT (stripPtr t).2 = true → vdepth v + 1 ≤ vdepth x ∧ tdepth T ≤ dynBound) := by
  induction hl with
  | @base t x x' hdr hni hse =>
    intro sn m e hg hdt hw hsm hne hm hty
    obtain ⟨hwx', hdx'⟩ := deref_wt sn t hg x x' hw hdr
    have hsmx' := deref_dynSmall hdr hsm
    have hdb := tdepth_stripPtr t
    rcases hty with ⟨hi, _⟩ | ⟨seen, n, hsub, hmatch⟩
    · rw [hni] at hi; cases hi
    · refine ⟨_, _, Or.inr ⟨hni, rfl⟩, ⟨?_, hwx', hsmx'⟩, by omega, by omega, ?_⟩
      · cases htok : typeOkF n reg seen t with
        | error e' =>
          simp only [htok, Except.error.injEq] at hmatch
          subst hmatch
          obtain ⟨n', seen', sn', h1, h2, h3, _⟩ := typeOkF_strip_err reg e' hne sn t hg n seen hsub htok
          exact ⟨sn', seen', n', m, h2, h3, by omega, by simp only [h1]⟩
        | ok u =>
          simp only [htok] at hmatch
          obtain ⟨n', seen', sn', h1, h2, h3, _⟩ := typeOkF_strip reg sn t hg n seen hsub htok
          obtain ⟨x2, m', hdr2, hm', hmm⟩ := foldF_deref_err reg sn t hg x m e hw hmatch hne
          rw [hdr] at hdr2
          cases hdr2
          exact ⟨sn', seen', n', m', h2, h3, by omega, by simp only [h1]; exact hm'⟩
      · intro hi; rw [hni] at hi; cases hi
  | @keep t x dt dv hdr hi hem =>
    intro sn m e hg hdt hw hsm hne hm hty
    obtain ⟨hwx', hdx'⟩ := deref_wt sn t hg x _ hw hdr
    have hsmx' := deref_dynSmall hdr hsm
    obtain ⟨sn', _, hpb⟩ := good_stripPtr t sn hg
    have hu := isIfaceT_iff.mp hi
    have hfold : foldF m reg t x = .error e := by
      rcases hty with ⟨_, h⟩ | ⟨seen, n, hsub, hmatch⟩
      · exact h
      · cases htok : typeOkF n reg seen t with
        | error e' =>
          simp only [htok, Except.error.injEq] at hmatch
          subst hmatch
          exact absurd (iface_base_typeOk hg hsub hi htok) hne
        | ok u => simp only [htok] at hmatch; exact hmatch
    obtain ⟨x2, m', hdr2, hm', hmm⟩ := foldF_deref_err reg sn t hg x m e hw hfold hne
    rw [hdr] at hdr2
    cases hdr2
    cases m' with
    | zero => simp only [foldF] at hm'; cases hm'; exact absurd rfl hne
    | succ m' =>
    rw [foldF_under m' reg hpb, hu, foldF_iface] at hm'
    rcases wt_iface_inv hu hwx' with h | ⟨dt', dv', h, hpd, hdd, hwd⟩
    · cases h
    · cases h
      rw [vdepth_iface] at hdx'
      simp only [dynSmall, Bool.and_eq_true, decide_eq_true_eq] at hsmx'
      refine ⟨dt, dv, Or.inl ⟨hu, rfl⟩,
        ⟨⟨[], [], 1000, m', hpd, fun _ hy => hy, by omega, hm'⟩, hwd, hsmx'.2⟩, by omega, by omega, ?_⟩
      intro _; exact ⟨by omega, hdd⟩
  | @step t x dt dv rv hdr hi hem _ ih =>
    intro sn m e hg hdt hw hsm hne hm hty
    obtain ⟨hwx', hdx'⟩ := deref_wt sn t hg x _ hw hdr
    have hsmx' := deref_dynSmall hdr hsm
    obtain ⟨sn', _, hpb⟩ := good_stripPtr t sn hg
    have hu := isIfaceT_iff.mp hi
    have hfold : foldF m reg t x = .error e := by
      rcases hty with ⟨_, h⟩ | ⟨seen, n, hsub, hmatch⟩
      · exact h
      · cases htok : typeOkF n reg seen t with
        | error e' =>
          simp only [htok, Except.error.injEq] at hmatch
          subst hmatch
          exact absurd (iface_base_typeOk hg hsub hi htok) hne
        | ok u => simp only [htok] at hmatch; exact hmatch
    obtain ⟨x2, m', hdr2, hm', hmm⟩ := foldF_deref_err reg sn t hg x m e hw hfold hne
    rw [hdr] at hdr2
    cases hdr2
    cases m' with
    | zero => simp only [foldF] at hm'; cases hm'; exact absurd rfl hne
    | succ m' =>
    rw [foldF_under m' reg hpb, hu, foldF_iface] at hm'
    rcases wt_iface_inv hu hwx' with h | ⟨dt', dv', h, hpd, hdd, hwd⟩
    · cases h
    · cases h
      rw [vdepth_iface] at hdx'
      simp only [dynSmall, Bool.and_eq_true, decide_eq_true_eq] at hsmx'
      obtain ⟨T, v, h1, h2, h3, h4, _⟩ := ih (sn := []) (m := m') hpd (by unfold dynBound at hdd; omega) hwd hsmx'.2
        hne (by omega) (Or.inr ⟨[], 1000, fun _ hy => hy, hm'⟩)
      refine ⟨T, v, h1, h2, by omega, by omega, ?_⟩
      intro _; exact ⟨by omega, by omega⟩

end SF.FoldProofs
