/-
  Error direction of property C12, control structures: `seqM` / `rangeM` return the error of
  the first failing step; the specification's errors through pointers.
-/
import SF.Proofs.FoldErrSem
import SF.Proofs.CusCompileErr
namespace SF.FoldProofs.Custom
open SF SF.Gotype SF.Gotype.Fold SF.Gotype.Rules

variable {reg : Bool}

theorem foldF_deref_err : ∀ (sn : List String) (T : GoType), goodC reg sn T = true →
    ∀ v m e, wtC reg T v = true → foldF m reg T v = .error e → e ≠ .fuel →
    ∃ x m', deref (stripPtr T).1 v = some x ∧ foldF m' reg (stripPtr T).2 x = .error e ∧
      m' + (stripPtr T).1 = m := by
  refine strip_induction _ ?_ ?_
  · intro sn T _ _ hs v m e _ h _
    rw [hs]
    exact ⟨v, m, rfl, h, rfl⟩
  · intro sn T e0 hg hu hge0 hs ih v m e hw h he
    rw [hs]
    cases m with
    | zero => simp only [foldF] at h; cases h; exact absurd rfl he
    | succ m =>
      rw [foldF_under m hg (notC1_of_under_ptr hg hu), hu] at h
      rcases wt_ptr_inv' hu hw with ⟨rfl, hnt⟩ | ⟨y, rfl, hy, _⟩
      · obtain ⟨r0, hr0⟩ := foldF_ptr_nil_ok m hnt
        rw [hr0] at h; cases h
      · rw [foldF_ptr] at h
        obtain ⟨x, m', h1, h2, h3⟩ := ih y m e hy h he
        exact ⟨x, m', by simp only [deref]; exact h1, h2, by simp only []; omega⟩

theorem inlineF_deref_err : ∀ (sn : List String) (T : GoType), goodC reg sn T = true →
    ∀ v m e, wtC reg T v = true → inlineF m reg T v = .error e → e ≠ .fuel →
    ∃ x m', deref (stripPtr T).1 v = some x ∧ inlineF m' reg (stripPtr T).2 x = .error e ∧
      m' + (stripPtr T).1 = m := by
  refine strip_induction _ ?_ ?_
  · intro sn T _ _ hs v m e _ h _
    rw [hs]
    exact ⟨v, m, rfl, h, rfl⟩
  · intro sn T e0 hg hu hge0 hs ih v m e hw h he
    rw [hs]
    cases m with
    | zero => simp only [inlineF] at h; cases h; exact absurd rfl he
    | succ m =>
      rw [inlineF_under m hg (notC1_of_under_ptr hg hu), hu] at h
      rcases wt_ptr_inv hu hw with rfl | ⟨y, rfl, hy⟩
      · have : inlineF (m + 1) reg (.ptr e0) .nilPtr = .ok [] := rfl
        rw [this] at h; cases h
      · have : inlineF (m + 1) reg (.ptr e0) (.ptr y) = inlineF m reg e0 y := rfl
        rw [this] at h
        obtain ⟨x, m', h1, h2, h3⟩ := ih y m e hy h he
        exact ⟨x, m', by simp only [deref]; exact h1, h2, by simp only []; omega⟩

/-- a typed value of primitive kind always folds -/
theorem scalar_noerr {m : Nat} {reg : Bool} {sn : List String} {T : GoType} {p : Prim} {v : GoVal}
    (hg : goodC reg sn T = true) (h1 : isC1 reg T = false) (hp : primOf? T.under = some p)
    (hw : wtC reg T v = true) :
    ∃ r, foldF (m + 1) reg T v = .ok r := by
  rw [foldF_under m hg h1]
  rw [wtC_eq] at hw
  simp only [Bool.and_eq_true] at hw
  replace hw := hw.2
  generalize T.under = U at hp hw
  cases U <;> simp only [primOf?, reduceCtorEq] at hp <;> cases v <;> simp at hw <;> exact ⟨_, rfl⟩

theorem compile_err' (o : FoldOpts) (hreg : o.folders = reg) {sn seen : List String} {T : GoType}
    (hp : goodC reg sn T = true) (hd : tdepth T ≤ dynBound) (hsub : ∀ x ∈ seen, x ∈ sn) {n : Nat} {e : RuleErr}
    (herr : typeOkF n reg seen T = .error e) (he : e ≠ .fuel) :
    ∃ e', getReflectFold compileFuel o {} T = .error (.err e') := by
  unfold dynBound at hd
  exact (compile_err_all o hreg (tdepth T) (by omega)).1 sn T (Nat.le_refl _) hp n seen hsub e herr he
    compileFuel {} (OpIn_empty _) (by unfold compileFuel; omega)

/-! ## `omitempty` on interface-typed fields, refused values -/

/-- a type whose base is of interface kind is never refused -/
theorem iface_base_typeOk {reg : Bool} {sn seen : List String} {t : GoType} {n : Nat} {e : RuleErr}
    (hg : goodC reg sn t = true) (hsub : ∀ y ∈ seen, y ∈ sn) (hi : isIfaceT (stripPtr t).2 = true)
    (h : typeOkF n reg seen t = .error e) : e = .fuel := by
  apply Classical.byContradiction
  intro he
  obtain ⟨n', seen', sn', h1, h2, h3, _⟩ := typeOkF_strip_err reg e he sn t hg n seen hsub h
  obtain ⟨n2, h4, _⟩ := typeOkF_head_err h2 (notC1_of_under_iface h2 (isIfaceT_iff.mp hi)) h3 h1 he
  rw [isIfaceT_iff.mp hi] at h4
  have : typeOkF (n2 + 1) reg (snU seen' (stripPtr t).2) .iface = .ok () := rfl
  rw [this] at h4
  cases h4

/-- what the rules say about the target of a kept value, when they refuse the field -/
structure LazyErr (reg : Bool) (e : RuleErr) (T : GoType) (v : GoVal) : Prop where
  refused : ∃ sn seen n m, goodC reg sn T = true ∧ (∀ y ∈ seen, y ∈ sn) ∧ 3 * vdepth v + 1 ≤ m ∧
    (match typeOkF n reg seen T with
      | .error e' => (.error e' : Except RuleErr RVal)
      | .ok () => foldF m reg T v) = .error e
  typed : wtC reg T v = true
  small : dynSmall v = true

theorem lazy_err {t : GoType} {x : GoVal} {rv : RV} (hl : Lazy t x rv) :
    ∀ {sn : List String} {m : Nat} {e : RuleErr}, goodC reg sn t = true → tdepth t ≤ 1000 → wtC reg t x = true →
    dynSmall x = true → e ≠ .fuel → 3 * vdepth x + 1 ≤ m →
    ((isIfaceT (stripPtr t).2 = true ∧ foldF m reg t x = .error e) ∨
      ∃ seen n, (∀ y ∈ seen, y ∈ sn) ∧
        (match typeOkF n reg seen t with
          | .error e' => (.error e' : Except RuleErr RVal)
          | .ok () => foldF m reg t x) = .error e) →
    ∃ T v, Target rv T v ∧ LazyErr reg e T v ∧ tdepth T ≤ max (tdepth t) dynBound ∧ vdepth v ≤ vdepth x ∧
      (isIfaceT (stripPtr t).2 = true → vdepth v + 1 ≤ vdepth x ∧ tdepth T ≤ dynBound) := by
  induction hl with
  | @base t x x' hdr hni hse =>
    intro sn m e hg hdt hw hsm hne hm hty
    obtain ⟨hwx', hdx'⟩ := deref_wt sn t hg x x' hw hdr
    have hsmx' := deref_dynSmall hdr hsm
    have hdb := tdepth_stripPtr t
    rcases hty with ⟨hi, _⟩ | ⟨seen, n, hsub, hmatch⟩
    · rw [hni] at hi; cases hi
    · refine ⟨_, _, Or.inr ⟨hni, rfl⟩, ⟨?_, hwx', hsmx'⟩, by omega, by omega, ?_⟩
      · cases htok : typeOkF n reg seen t with
        | error e' =>
          simp only [htok, Except.error.injEq] at hmatch
          subst hmatch
          obtain ⟨n', seen', sn', h1, h2, h3, _⟩ := typeOkF_strip_err reg e' hne sn t hg n seen hsub htok
          exact ⟨sn', seen', n', m, h2, h3, by omega, by simp only [h1]⟩
        | ok u =>
          simp only [htok] at hmatch
          obtain ⟨n', seen', sn', h1, h2, h3, _⟩ := typeOkF_strip sn t hg n seen hsub htok
          obtain ⟨x2, m', hdr2, hm', hmm⟩ := foldF_deref_err sn t hg x m e hw hmatch hne
          rw [hdr] at hdr2
          cases hdr2
          exact ⟨sn', seen', n', m', h2, h3, by omega, by simp only [h1]; exact hm'⟩
      · intro hi; rw [hni] at hi; cases hi
  | @keep t x dt dv hdr hi hem =>
    intro sn m e hg hdt hw hsm hne hm hty
    obtain ⟨hwx', hdx'⟩ := deref_wt sn t hg x _ hw hdr
    have hsmx' := deref_dynSmall hdr hsm
    obtain ⟨sn', _, hpb⟩ := good_stripPtr t sn hg
    have hu := isIfaceT_iff.mp hi
    have hfold : foldF m reg t x = .error e := by
      rcases hty with ⟨_, h⟩ | ⟨seen, n, hsub, hmatch⟩
      · exact h
      · cases htok : typeOkF n reg seen t with
        | error e' =>
          simp only [htok, Except.error.injEq] at hmatch
          subst hmatch
          exact absurd (iface_base_typeOk hg hsub hi htok) hne
        | ok u => simp only [htok] at hmatch; exact hmatch
    obtain ⟨x2, m', hdr2, hm', hmm⟩ := foldF_deref_err sn t hg x m e hw hfold hne
    rw [hdr] at hdr2
    cases hdr2
    cases m' with
    | zero => simp only [foldF] at hm'; cases hm'; exact absurd rfl hne
    | succ m' =>
    rw [foldF_under m' hpb (notC1_of_under_iface hpb hu), hu, foldF_iface] at hm'
    rcases wt_iface_inv hu hwx' with h | ⟨dt', dv', h, hpd, hdd, hwd⟩
    · cases h
    · cases h
      rw [vdepth_iface] at hdx'
      simp only [dynSmall, Bool.and_eq_true, decide_eq_true_eq] at hsmx'
      refine ⟨dt, dv, Or.inl ⟨hu, rfl⟩,
        ⟨⟨[], [], 1000, m', hpd, fun _ hy => hy, by omega, hm'⟩, hwd, hsmx'.2⟩, by omega, by omega, ?_⟩
      intro _; exact ⟨by omega, hdd⟩
  | @step t x dt dv rv hdr hi hem _ ih =>
    intro sn m e hg hdt hw hsm hne hm hty
    obtain ⟨hwx', hdx'⟩ := deref_wt sn t hg x _ hw hdr
    have hsmx' := deref_dynSmall hdr hsm
    obtain ⟨sn', _, hpb⟩ := good_stripPtr t sn hg
    have hu := isIfaceT_iff.mp hi
    have hfold : foldF m reg t x = .error e := by
      rcases hty with ⟨_, h⟩ | ⟨seen, n, hsub, hmatch⟩
      · exact h
      · cases htok : typeOkF n reg seen t with
        | error e' =>
          simp only [htok, Except.error.injEq] at hmatch
          subst hmatch
          exact absurd (iface_base_typeOk hg hsub hi htok) hne
        | ok u => simp only [htok] at hmatch; exact hmatch
    obtain ⟨x2, m', hdr2, hm', hmm⟩ := foldF_deref_err sn t hg x m e hw hfold hne
    rw [hdr] at hdr2
    cases hdr2
    cases m' with
    | zero => simp only [foldF] at hm'; cases hm'; exact absurd rfl hne
    | succ m' =>
    rw [foldF_under m' hpb (notC1_of_under_iface hpb hu), hu, foldF_iface] at hm'
    rcases wt_iface_inv hu hwx' with h | ⟨dt', dv', h, hpd, hdd, hwd⟩
    · cases h
    · cases h
      rw [vdepth_iface] at hdx'
      simp only [dynSmall, Bool.and_eq_true, decide_eq_true_eq] at hsmx'
      obtain ⟨T, v, h1, h2, h3, h4, _⟩ := ih (sn := []) (m := m') hpd (by unfold dynBound at hdd; omega) hwd hsmx'.2
        hne (by omega) (Or.inr ⟨[], 1000, fun _ hy => hy, hm'⟩)
      refine ⟨T, v, h1, h2, by omega, by omega, ?_⟩
      intro _; exact ⟨by omega, by omega⟩

end SF.FoldProofs.Custom
