/-
  C04, converse direction: STREAMS.  From the idle state an error-free run that the end of
  input accepts has read white space, a sequence of documents of the (lenient) grammar —
  each a value and the white space after it — and possibly one last bare number token which
  `finalize` converts.
-/
import SF.Proofs.JsonConvInd
import SF.Proofs.JsonRefineDoc
set_option linter.unusedSimpArgs false
set_option linter.unusedVariables false
namespace SF.Json.ParseP
open SF SF.Json SF.Json.Parse SF.Json.Float SF.Json.Grammar ETree

/-- a document the parser accepts: lenient grammar, every token denotes for the parser, the
white space after it is white space for the parser, and after a bare number it begins with
a stop character -/
def Doc.goodL (d : Doc) : Bool := d.1.okL && d.1.semL && allSp d.2 && (!d.1.isNum || numSepTop d.2)

def streamEventsL (ds : List Doc) : List Ev := (ds.map (fun d => d.1.eventsL)).flatten

/-- the bare number token an input may end with (none: `[]`) -/
def finOk (fin : Bytes) : Bool := fin.isEmpty || (tokOk fin && (numEvL fin).isSome)

def finEvents (fin : Bytes) : List Ev := match numEvL fin with
  | some ev => [ev]
  | none => []

theorem finEvents_nil : finEvents [] = [] := by decide

theorem streamWire_cons (d : Doc) (ds : List Doc) : streamWire (d :: ds) = d.1.wire ++ (d.2 ++ streamWire ds) := by
  simp [streamWire]

theorem streamEventsL_cons (d : Doc) (ds : List Doc) : streamEventsL (d :: ds) = d.1.eventsL ++ streamEventsL ds := by
  simp [streamEventsL]

/-- what a stream begins with, if it is not empty: a byte that is neither white space nor a stop character -/
def StartsOk (w : Bytes) : Prop := w = [] ∨ ∃ x t, w = x :: t ∧ Utf8.isSpaceByte x = false ∧ isStopChar x = false

theorem startsOk_stream (ds : List Doc) (fin : Bytes) (hd : ∀ d ∈ ds, Doc.goodL d = true) (hf : finOk fin = true) :
    StartsOk (streamWire ds ++ fin) := by
  cases ds with
  | nil =>
    simp only [streamWire, List.map_nil, List.flatten_nil, List.nil_append]
    cases fin with
    | nil => exact Or.inl rfl
    | cons a t =>
      right
      simp only [finOk, List.isEmpty_cons, Bool.false_or, Bool.and_eq_true] at hf
      obtain ⟨x, t', hx, h1, h2⟩ := J.wire_firstL (.num (a :: t)) hf.1
      exact ⟨x, t', hx, h1, h2⟩
  | cons d ds =>
    right
    have := hd d (by simp)
    simp only [Doc.goodL, Bool.and_eq_true] at this
    obtain ⟨x, t, hx, h1, h2⟩ := J.wire_firstL d.1 this.1.1.1
    exact ⟨x, _, by rw [streamWire_cons, hx]; rfl, h1, h2⟩

/-- the end of input converts a pending top-level number token — if it denotes -/
theorem finalize_pend (p : P) (hp : IdleN p) (tok : Bytes) (hb : tokOk tok = true)
    (h : (finalize (pendP p .startState tok)).2 = none) :
    ∃ ev, numEvL tok = some ev ∧ (finalize (pendP p .startState tok)).1.evs = ev :: p.evs := by
  have hne : tok ≠ [] := by intro hc; subst hc; simp [tokOk] at hb
  unfold finalize at h ⊢
  simp only [pendP, beq_self_eq_true, if_true] at h ⊢
  cases hev : numEvL tok with
  | none =>
    obtain ⟨e, he⟩ := reportNumber_numEvL_none (pendP p .startState tok) tok hne hev
    simp only [pendP] at he
    rw [he] at h
    simp at h
  | some ev =>
    refine ⟨ev, rfl, ?_⟩
    have := reportNumber_numEvL (pendP p .startState tok) tok hne ev hev
    simp only [pendP] at this
    rw [this, visit_none _ _ (by exact hp.2)]
    simp only [popState, hp.1.st]
    split <;> rfl

theorem not_deep_accepted {q : P} (hwf : WF q) (hf : (finalize q).2 = none) : ¬ Deep [] q := by
  intro ⟨h1, h2⟩
  rcases finalize_none q hwf hf with hi | ⟨⟨hn, hs⟩, _⟩
  · rw [hi.1] at h1; simp at h1
  · have := h2 hn
    rw [hs] at this; simp at this

/-- THE CONVERSE, run level: an accepted run from the idle state has read a stream of documents -/
theorem stream_conv (n : Nat) : ∀ (b : Bytes), b.length ≤ n → ∀ (p q : P), IdleN p → runA p b = (q, none) →
    (finalize q).2 = none →
    ∃ ws0 ds fin, allSp ws0 = true ∧ (∀ d ∈ ds, Doc.goodL d = true) ∧ finOk fin = true ∧
      b = ws0 ++ (streamWire ds ++ fin) ∧
      (finalize q).1.evs = (streamEventsL ds ++ finEvents fin).reverse ++ p.evs := by
  induction n with
  | zero =>
    intro b hb p q hp hrun hf
    have : b = [] := by cases b <;> simp_all
    subst this
    rw [runA_nil] at hrun
    simp only [Prod.mk.injEq, and_true] at hrun
    subst hrun
    refine ⟨[], [], [], rfl, by simp, rfl, rfl, ?_⟩
    rw [finalize_idle _ hp]; simp [streamEventsL, finEvents_nil]
  | succ n ih =>
    intro b hb p q hp hrun hf
    have hwf : WF q := by have := runA_wf p b hp.1.wf; rw [hrun] at this; exact this
    rcases (claims p b q hrun).1 .startState [] hp.ready with
      ⟨h1, rfl⟩ | ⟨ws, tok, rfl, h1, h2, rfl⟩ | hd | ⟨ws, v, more, p1, rfl, k1, k2, k3, k4, hp1, hev1, hr1⟩
    · refine ⟨b, [], [], h1, by simp, rfl, by simp [streamWire], ?_⟩
      rw [finalize_idle _ hp]; simp [streamEventsL, finEvents_nil]
    · obtain ⟨ev, hev, he⟩ := finalize_pend p hp tok h2 hf
      refine ⟨ws, [], tok, h1, by simp, ?_, by simp [streamWire], ?_⟩
      · simp [finOk, h2, hev]
      · rw [he]; simp [streamEventsL, finEvents, hev]
    · exact absurd hd (not_deep_accepted hwf hf)
    · obtain ⟨x, t, hx, _, _⟩ := J.wire_firstL v k2
      have hlen : more.length ≤ n := by
        rw [hx] at hb; simp only [List.length_append, List.length_cons] at hb; omega
      obtain ⟨ws0, ds, fin, j1, j2, j3, rfl, j5⟩ := ih more hlen p1 q hp1 hr1 hf
      refine ⟨ws, (v, ws0) :: ds, fin, k1, ?_, j3, by simp [streamWire_cons], ?_⟩
      · intro d hd
        rcases List.mem_cons.mp hd with rfl | hd
        · simp only [Doc.goodL, k2, k3, j1, Bool.and_self, Bool.true_and]
          apply imp_bool
          intro hn
          obtain ⟨c, t', hc1, hc2⟩ := k4 hn
          cases ws0 with
          | cons a ws0' =>
            simp only [List.cons_append, List.cons.injEq] at hc1
            simp only [numSepTop]; rw [hc1.1]; exact hc2
          | nil =>
            exfalso
            rcases startsOk_stream ds fin j2 j3 with h0 | ⟨x', t'', h0, _, h2⟩
            · rw [List.nil_append, h0] at hc1; cases hc1
            · rw [List.nil_append, h0] at hc1
              simp only [List.cons.injEq] at hc1
              rw [hc1.1, hc2] at h2; cases h2
        · exact j2 d hd
      · rw [j5, hev1, streamEventsL_cons]; simp

end SF.Json.ParseP
