/-
  C13, VALUES for struct targets, part 5: the store lemma (`FieldOK`) for fields of type `*T`, `T` of primitive
  kind (bool, string, integers, floats; named or not) — `unfolderReflPtr{unfolderX}`:
    null        ↦ the nil pointer
    a scalar    ↦ a FRESH `reflect.New(T)` cell (one more entry of `Ctx.cells`), the converted scalar stored
                  there, the field holds the pointer (= the pointee, inlined) — whatever the field held before.
-/
import SF.Proofs.UnfSVFields
namespace SF.Unf.SV
open SF SF.Unf SF.Unf.Spec SF.Unf.Str

/-- the context `unfolderReflPtr.initState` leaves -/
def ptrCtxAt (c : Ctx) (e : GoType) (elem : RU) (p : Path) : Ctx :=
  { c with value := c.value.push (some p), unfolder := c.unfolder.push (.reflPtr e elem) }

theorem init_ptr (c : Ctx) (e : GoType) (elem : RU) (p : Path) :
    initStateRU (.ptr e elem) (some p) c = .ok () (ptrCtxAt c e elem p) := by
  simp [initStateRU, resolveRU, bind_def, pushValue, pushU, modifyCtx, ptrCtxAt]

/-- `OnNil` on `unfolderReflPtr`: `v.Set(reflect.Zero(v.Type()))` and the cleanup -/
theorem ptr_nil (f : Nat) (e : GoType) (elem : RU) (c : Ctx) (steps : List Step) (T' : GoVal)
    (hs : c.target.set steps (.ptrNil e) = some T') :
    onScalar (f + 1) .nil (ptrCtxAt c e elem ⟨.target, steps⟩) = .ok () (upd c T' c.cells c.keyCache) := by
  rcases c with ⟨⟨uc, us⟩, pp, ⟨vc, vs⟩, _⟩
  simp only at hs
  simp [onScalar, bind_def, currentU, ptrCtxAt, Stk.push, currentValue, store, rootVal, hs, setRoot, reflPtrCleanup,
    popValue, popU, Stk.pop, pure_def, upd]

/-- the cells after `reflect.New(e)` and the store of `w` into the new cell -/
def cellsNew (c : Ctx) (w : GoVal) : Array GoVal := c.cells.push w

/-- a non-null scalar on `unfolderReflPtr{unfolderX}`: new cell, `unfolderX` on the cell, the pointer stored -/
theorem ptr_scalar (f : Nat) (e : GoType) (k : PK) (s : Sc) (w : GoVal) (c : Ctx) (steps : List Step) (T' : GoVal)
    (hnil : s ≠ .nil)
    (hc : k.conv s = some w) (hs : c.target.set steps (.ptr e w) = some T') :
    onScalar (f + 2) s (ptrCtxAt c e (.lifted (.prim k)) ⟨.target, steps⟩) =
      .ok () (upd c T' (cellsNew c w) c.keyCache) := by
  rcases c with ⟨⟨uc, us⟩, ⟨pc, ps⟩, ⟨vc, vs⟩, _⟩
  simp only at hs
  cases s with
  | nil => exact absurd rfl hnil
  | _ =>
    simp [onScalar, bind_def, currentU, ptrCtxAt, Stk.push, reflPtrPrepare, newCell, pushValue, modifyCtx,
      initStateRU, resolveRU, initStatePU, primInitState, pushU, pushPtr, hc, pukDeliver, primAssign, currentPtr,
      store, rootVal, setRoot, primCleanup, popU, popPtr, Stk.pop, pure_def, reflPtrProcess, popValue, load,
      currentValue, hs, reflPtrCleanup, upd, cellsNew, push_setLast]

/-- `Spec.assign` for a pointer type -/
theorem assign_ptr_nil (tbl : TypeTable) (ip : Bool) (n : Nat) (ft e : GoType) (old : GoVal)
    (hu : ft.un tbl = .ptr e) : assign tbl ip (n + 1) ft old (.sc .nil) = some (.ptrNil e) := by
  unfold assign
  simp only [hu]

theorem assign_ptr_val (tbl : TypeTable) (ip : Bool) (n : Nat) (ft e : GoType) (old nv : GoVal) (s : STree)
    (hu : ft.un tbl = .ptr e) (hs : s ≠ .sc .nil) (h : assign tbl ip (n + 1) ft old s = some nv) :
    ∃ base v, assign tbl ip n e base s = some v ∧ nv = .ptr e v := by
  unfold assign at h
  simp only [hu] at h
  have h' : ∃ base, Option.map (GoVal.ptr e) (assign tbl ip n e base s) = some nv := by
    cases s with
    | sc sc =>
      cases sc with
      | nil => exact absurd rfl hs
      | _ => exact ⟨_, h⟩
    | _ => exact ⟨_, h⟩
  obtain ⟨base, h'⟩ := h'
  obtain ⟨v, hv, hw⟩ := Option.map_eq_some_iff.mp h'
  exact ⟨base, v, hv, hw.symm⟩

theorem flat_ptr (tbl : TypeTable) (ft e : GoType) (hu : ft.un tbl = .ptr e) : Flat tbl ft := by
  unfold Flat
  rw [hu]
  trivial

/-- THE STORE LEMMA for a field of type `*T`, `T` of primitive kind `k` (not `interface{}`), named or not -/
theorem fieldOK_ptr (tbl : TypeTable) (ft e : GoType) (k : PK) (hu : ft.un tbl = .ptr e)
    (hk : PK.ofExact? (e.un tbl) = some k) (hki : k ≠ .ifc)
    (hnb : ∀ nk, e.un tbl = .int nk → normKind nk = nk) : FieldOK tbl (.ptr e (.lifted (.prim k))) ft := by
  intro f x c steps ip n oldM oldS nv flds henv hcur hkc hget hty hnorm hwf hasg
  cases n with
  | zero => simp [assign] at hasg
  | succ n =>
    -- a non-null scalar `s`
    have main : ∀ s : Sc, s ≠ .nil → x.toS = .sc s → s.inRange = true →
        (∀ c1, run (f + 2) x.events c1 = onScalar (f + 2) s c1) →
        ∃ w T' cells' kc' c1, initStateRU (.ptr e (.lifted (.prim k))) (some ⟨.target, steps⟩) c = .ok () c1 ∧
          run (f + 2) x.events c1 = .ok () (upd c T' cells' kc') ∧ c.target.set steps w = some T' ∧
          norm w = norm nv ∧ HasTy tbl ft w ∧ Symbols.Inv kc' := by
      intro s hsn hx hin hev
      rw [hx] at hasg
      obtain ⟨base, v, hv, rfl⟩ := assign_ptr_val tbl ip n ft e oldS nv _ hu (by intro h; injection h with h; exact hsn h) hasg
      cases n with
      | zero => simp [assign] at hv
      | succ n =>
        rw [assign_un_prim] at hv
        obtain ⟨w, hc, _, heq⟩ := assign_scalar_conv tbl ip n (e.un tbl) k base v s hk hki hin hv
        have hw : w = v := heq hnb
        obtain ⟨T', hT⟩ := set_of_get c.target steps (.ptr e w) oldM hget
        refine ⟨.ptr e w, T', cellsNew c w, c.keyCache, _, init_ptr c e _ _, ?_, hT, by rw [hw],
          .flat _ _ (flat_ptr tbl ft e hu), hkc⟩
        rw [hev]
        exact ptr_scalar f e k s w c steps T' hsn hc hT
    have nilCase : x.toS = .sc .nil → (∀ c1, run (f + 2) x.events c1 = onScalar (f + 2) .nil c1) →
        ∃ w T' cells' kc' c1, initStateRU (.ptr e (.lifted (.prim k))) (some ⟨.target, steps⟩) c = .ok () c1 ∧
          run (f + 2) x.events c1 = .ok () (upd c T' cells' kc') ∧ c.target.set steps w = some T' ∧
          norm w = norm nv ∧ HasTy tbl ft w ∧ Symbols.Inv kc' := by
      intro hx hev
      rw [hx, assign_ptr_nil tbl ip n ft e oldS hu] at hasg
      injection hasg with hasg
      subst hasg
      obtain ⟨T', hT⟩ := set_of_get c.target steps (.ptrNil e) oldM hget
      refine ⟨.ptrNil e, T', c.cells, c.keyCache, _, init_ptr c e _ _, ?_, hT, rfl, .flat _ _ (flat_ptr tbl ft e hu), hkc⟩
      rw [hev]
      exact ptr_nil (f + 1) e _ c steps T' hT
    cases x with
    | scalar s =>
      have hev : ∀ c1, run (f + 2) (UTree.scalar s).events c1 = onScalar (f + 2) s c1 := fun c1 => by
        rw [UTree.events, run_single]; rfl
      by_cases hsn : s = .nil
      · subst hsn; exact nilCase rfl hev
      · exact main s hsn rfl (by simpa [UTree.wf] using hwf) hev
    | strRef b =>
      exact main (.str b) (by intro h; cases h) rfl rfl (fun c1 => by rw [UTree.events, run_single]; rfl)
    | arr l bt xs =>
      exfalso
      obtain ⟨base, v, hv, _⟩ := assign_ptr_val tbl ip n ft e oldS nv _ hu (by intro h; simp [UTree.toS] at h) hasg
      cases n with
      | zero => simp [assign] at hv
      | succ n =>
        rw [assign_un_prim, assign_prim_not_sc tbl ip _ _ k _ _ hk hki (by intro sc h; simp [UTree.toS] at h)] at hv
        cases hv
    | obj l bt ms =>
      exfalso
      obtain ⟨base, v, hv, _⟩ := assign_ptr_val tbl ip n ft e oldS nv _ hu (by intro h; simp [UTree.toS] at h) hasg
      cases n with
      | zero => simp [assign] at hv
      | succ n =>
        rw [assign_un_prim, assign_prim_not_sc tbl ip _ _ k _ _ hk hki (by intro sc h; simp [UTree.toS] at h)] at hv
        cases hv

end SF.Unf.SV
