/-
  C11, UBJSON path (Fold → UBJSON encoder → bytes → UBJSON parser → Unfolder), composed statement, in
  the vocabulary of the op `fu` (SF/Ops/Fu.lean), branch `path = "ubjson"`:

      Fu.model t v "ubjson" =
        match Tr.trType t with | some ut =>
        match setTarget fuTable ut (zero fuTable ut) newUnfolder with | .ok c0 =>
        let o := Fold.impl {folders := true} t v
        match (Ubjson.encModel (-1) o.evs).splitOn "|" with     -- = Enc.run (newVisitor none) o.evs, printed
        | [h, r, _, _] => if r != "ok" then "-|err:fold" else if o.res != .ok then … else
          let bytes := ofHex h
          let (evs, pv) := Ubjson.parseEvents (if bytes.isEmpty then [] else [bytes])
                                                    -- = Parse.parseReader (Parse.init none) [bytes]
          match feed c0 (evs.map fun e => [evToUEv e]) with
          | (c, none) => if pv == "ok" then printFu c.target ++ "|ok" else "-|err:parse"

  (`newVisitor none = {}`, `Parse.init none = {}` by `rfl`; hex printing / `splitOn` / `ofHex` are
  String functions; the theorems speak about the structural composition they print and re-read.)

  Each theorem says, for a family of types `T` and EVERY Go value `v` of `T` the format can carry:
    (a) `Tr.trType T = some ut`, (b) the fresh zero target is accepted (`c0`), (c) the fold succeeds,
    (d) the ENCODER accepts every event: `Enc.run {} (impl o T v).evs = (s, none)`, wrote `s.w.out ≠ []`,
    (e) the PARSER accepts these bytes: `Parse.parse {} s.w.out = (pr, none)` (Parse / ParseString) and is
        IDLE again (`Idle pr`: initial state stack, empty length stack and buffer, no stored error — only
        the event log and the scratch field `valueType` differ from a new parser); the same final state
        `pr` is reached by `Write` per chunk + end of input under EVERY chunking `cs` of the bytes whose
        run does not exhaust the MODEL's fuel (the proviso C02 `ubj_chunk_independent` carries), and by
        the op's `Ubjson.parseEvents [bytes]` (= `ParseReader`: io.Copy, one `Write` per 32 KiB) when the
        document fits one buffer (`s.w.out.length ≤ 32768`: then it IS one `Write`, no proviso) or,
        for longer documents, under the same fuel proviso on that run,
        and the events it delivered are given EXPLICITLY: integers arrive under a UBJSON kind
        (`ubjKind`: markers i U I l L → int8 uint8 int16 int32 int64: 5 of an `int64` as `OnInt8(5)`,
        60000 of a `uint16` as `OnInt32(60000)`); a slice as ONE typed container
        `OnArrayStart(n, elemType)` whose elements all have the SAME kind (`ubjElemKind`: for
        `[]uint16/32/64/uint` the narrowest marker that holds ALL elements, `utOfElems`), `[]bool` as a
        counted array `OnArrayStart(n, any)`, an empty / nil slice as `OnArrayStart(-1, any)`,
    (f) the UNFOLDER accepts every one of these events (one token each: `feed … = (c1, none)`),
    (g) `c1.target` = the translation of `v`, explicitly — integers exact, float32 / float64 BIT-exact —,
        and `c1` is the fresh Unfolder again,
    (h) `agreeF "ubjson" 1000 T v (back c1.target) = true` (in fact for every path that is not "json").

  SIDE CONDITIONS (explicit, decidable):
   * `fitsV`: an integer is at most MaxInt64.  Given `hasPrim p v` this excludes exactly the values
     above MaxInt64 of the unsigned 64-bit kinds (`uint64`, `uint`): the encoder writes such a number
     as a high-precision number `H` (its decimal digits), the parser delivers a STRING event, and a
     numeric target refuses it (recorded known finding KF-ubj-uint64-above-maxint64).  NEEDED: see
     `uint64_above_maxint64_refused` (evaluated: the parser delivers `OnString("9223372036854775808")`,
     the pipeline fails) and, for slices, `slice_one_big_element_refused`: ONE such element turns the
     whole container into a typed container of `H` — EVERY element, also `5`, arrives as a string.
   * `sizedV` / `hn`: every string is shorter than 2^63 bytes and every slice has fewer than 2^63
     elements — as every Go value is.  Without it the statement is FALSE of the mirrors: the length /
     count is written with marker `L` as an int64, 2^63 wraps to MinInt64, and the parser refuses the
     header with `negativeLen` — see `huge_length_refused` (string, typed array, counted array).
  No other corner fails: int64 MinInt64, uint64 MaxInt64, NaNs of both widths all round-trip.
-/
import SF.Proofs.FuUbjSlice
import SF.Proofs.FuCborAgree
namespace SF.Props.FuUbj
open SF SF.Gotype SF.Gotype.Fold SF.FoldProofs SF.FuId SF.FuCbor SF.FuUbj
open SF.Ubjson
open SF.Unf (Ctx newUnfolder setTarget)
open SF.Ops.Unf (evToUEv)
open SF.Ops.Fu (feed agreeF)

theorem ubjson_not_json : ("ubjson" == "json") = false := by decide

/-- the other entry points of the parser on a document `Parse` accepts: `Write` per chunk in ANY
chunking + end of input (under the model's fuel proviso, as in C02), and the op's
`Ubjson.parseEvents` = `ParseReader` (io.Copy: one `Write` per 32 KiB) -/
theorem reader_clauses (b : Bytes) (pr : Parse.P) (hne : b ≠ []) (hp : Parse.parse {} b = (pr, none)) :
    (∀ cs : List Bytes, cs.flatten = b → (Parse.writeChunks {} cs).2 ≠ some .outOfFuel →
      Parse.writeChunks {} cs = (pr, none)) ∧
    (b.length ≤ 32768 → SF.Ops.Ubjson.parseEvents [b] = (Parse.events pr, "ok")) ∧
    ((Parse.parseReader (Parse.init none) [b]).2 ≠ some .outOfFuel →
      SF.Ops.Ubjson.parseEvents [b] = (Parse.events pr, "ok")) :=
  ⟨fun cs hcs hfu => writeChunks_any b pr hp cs hcs hfu, fun hlen => parseEvents_of b pr hne hlen hp,
    fun hfu => by simp [SF.Ops.Ubjson.parseEvents, parseReader_any b pr hp hfu, SF.Ops.Ubjson.errClass]⟩

/-- STAGE 1 — scalars (`primTy p`: bool, string, int8 … int64, int, uint8 … uint64, uint, float32,
float64), every value `v` of the type that UBJSON can carry (`fitsV`). -/
theorem fold_ubj_unfold_scalar (o : FoldOpts) (hfail : o.failAt = none) (p : Prim) (v : GoVal)
    (hv : hasPrim p v = true) (hz : sizedV v = true) (hf : fitsV v = true) :
    ∃ ut c0 c1 s pr,
      Unf.Tr.trType (primTy p) = some ut ∧
      setTarget Unf.Tr.fuTable ut (Unf.zero Unf.Tr.fuTable ut) newUnfolder = .ok c0 ∧
      (impl o (primTy p) v).res = .ok ∧
      Enc.run {} (impl o (primTy p) v).evs = (s, none) ∧ s.w.out ≠ [] ∧
      Parse.parse {} s.w.out = (pr, none) ∧ Idle pr ∧
      (∀ cs : List Bytes, cs.flatten = s.w.out → (Parse.writeChunks {} cs).2 ≠ some .outOfFuel →
        Parse.writeChunks {} cs = (pr, none)) ∧
      (s.w.out.length ≤ 32768 → SF.Ops.Ubjson.parseEvents [s.w.out] = (Parse.events pr, "ok")) ∧
      ((Parse.parseReader (Parse.init none) [s.w.out]).2 ≠ some .outOfFuel →
        SF.Ops.Ubjson.parseEvents [s.w.out] = (Parse.events pr, "ok")) ∧
      Parse.events pr = [scEv (ubjSc (scOfTop p v))] ∧
      feed c0 ((Parse.events pr).map fun e => [evToUEv e]) = (c1, none) ∧
      c1.target = trPrim p v ∧
      c1 = { newUnfolder with target := trPrim p v, env := Unf.Tr.fuTable } ∧
      back c1.target = v ∧
      agreeF "ubjson" 1000 (primTy p) v (back c1.target) = true ∧
      (∀ path, (path == "json") = false → agreeF path 1000 (primTy p) v (back c1.target) = true) := by
  obtain ⟨c0, s, pr, h1, h2, h3, h4, h5, h6, h7, h8⟩ := scalar_ubj_run o hfail p v hv hz hf
  have hag : ∀ path, (path == "json") = false → agreeF path 1000 (primTy p) v (back (trPrim p v)) = true := by
    intro path hj
    show agreeF path (999 + 1) (primTy p) v (back (trPrim p v)) = true
    rw [back_trPrim p v hv]
    exact agree_primP path hj 999 p v hv
  obtain ⟨r1, r2, r3⟩ := reader_clauses s.w.out pr h4 h5
  exact ⟨_, c0, _, s, pr, trType_primTy p, h2, h1, h3, h4, h5, h6, r1, r2, r3, h7, h8, rfl, rfl,
    back_trPrim p v hv, hag _ ubjson_not_json, hag⟩

/-- STAGE 2 — `[]T`, `T` scalar: nil, empty, or any elements `xs`, each of which UBJSON can carry.
Fold's ONE typed-array event is written as `[]` (empty), a counted array (`[]bool`) or a typed
container `[$t#n payloads`; the parser reports `OnArrayStart`, the elements under ONE kind,
`OnArrayFinished`; nil and empty both come back as nil (`sliceFin`). -/
theorem fold_ubj_unfold_slice (o : FoldOpts) (hfail : o.failAt = none) (p : Prim) (v : GoVal) (xs : List GoVal)
    (hv : sliceElems? v = some xs) (hxs : ∀ x ∈ xs, hasPrim p x = true)
    (hz : ∀ x ∈ xs, sizedV x = true) (hf : ∀ x ∈ xs, fitsV x = true) (hn : xs.length < 9223372036854775808) :
    ∃ ut c0 c1 s pr,
      Unf.Tr.trType (.slice (primTy p)) = some ut ∧
      setTarget Unf.Tr.fuTable ut (Unf.zero Unf.Tr.fuTable ut) newUnfolder = .ok c0 ∧
      (impl o (.slice (primTy p)) v).res = .ok ∧
      Enc.run {} (impl o (.slice (primTy p)) v).evs = (s, none) ∧ s.w.out ≠ [] ∧
      Parse.parse {} s.w.out = (pr, none) ∧ Idle pr ∧
      (∀ cs : List Bytes, cs.flatten = s.w.out → (Parse.writeChunks {} cs).2 ≠ some .outOfFuel →
        Parse.writeChunks {} cs = (pr, none)) ∧
      (s.w.out.length ≤ 32768 → SF.Ops.Ubjson.parseEvents [s.w.out] = (Parse.events pr, "ok")) ∧
      ((Parse.parseReader (Parse.init none) [s.w.out]).2 ≠ some .outOfFuel →
        SF.Ops.Ubjson.parseEvents [s.w.out] = (Parse.events pr, "ok")) ∧
      Parse.events pr = (if xs.isEmpty then [.arrStart (-1) BT.any, .arrEnd]
        else .arrStart xs.length (ubjBT p xs) :: (xs.map (ubjElem p xs)).map scEv ++ [.arrEnd]) ∧
      feed c0 ((Parse.events pr).map fun e => [evToUEv e]) = (c1, none) ∧
      c1.target = (if xs.isEmpty then .sliceNil (uPrimTy p) else .slice (uPrimTy p) (xs.map (trPrim p)) []) ∧
      c1 = { newUnfolder with target := c1.target, env := Unf.Tr.fuTable } ∧
      back c1.target = (if xs.isEmpty then .nilSlice else .slice xs) ∧
      agreeF "ubjson" 1000 (.slice (primTy p)) v (back c1.target) = true ∧
      (∀ path, (path == "json") = false → agreeF path 1000 (.slice (primTy p)) v (back c1.target) = true) := by
  obtain ⟨c0, s, pr, h1, h2, h3, h4, h5, h6, h7, h8⟩ := slice_ubj_run o hfail p v xs hv hxs hz hf hn
  obtain ⟨r1, r2, r3⟩ := reader_clauses s.w.out pr h4 h5
  refine ⟨_, c0, _, s, pr, trType_slice p, h2, h1, h3, h4, h5, h6, r1, r2, r3, h7, h8, ?_, rfl,
    back_sliceFin p xs hxs, agree_sliceP _ ubjson_not_json 998 p v xs hv hxs,
    fun path hj => agree_sliceP path hj 998 p v xs hv hxs⟩
  show Unf.sliceFin _ _ = _
  unfold Unf.sliceFin
  cases xs <;> rfl

/-! ## non-vacuity: the pipeline of `Fu.model … "ubjson"`, evaluated by the kernel -/

/-- the final target of the `fu` model on the UBJSON path (the hex printing of the bytes left out) -/
def pipe (o : FoldOpts) (T : GoType) (v : GoVal) : Option Unf.GoVal :=
  match Unf.Tr.trType T with
  | none => none
  | some ut =>
    match setTarget Unf.Tr.fuTable ut (Unf.zero Unf.Tr.fuTable ut) newUnfolder with
    | .error _ => none
    | .ok c0 =>
      match Enc.run {} (impl o T v).evs with
      | (s, none) =>
        match Parse.parseReader (Parse.init none) (if s.w.out.isEmpty then [] else [s.w.out]) with
        | (pr, none) =>
          match feed c0 ((Parse.events pr).map fun e => [evToUEv e]) with
          | (c1, none) => if (impl o T v).res == .ok then some c1.target else none
          | _ => none
        | _ => none
      | _ => none

/-- the events the parser delivers on the way (`Ubjson.parseEvents`) -/
def wireEvents (o : FoldOpts) (T : GoType) (v : GoVal) : List Ev :=
  Parse.events (Parse.parseReader (Parse.init none) [(Enc.run {} (impl o T v).evs).1.w.out]).1

/- stage 1: `int64` MinInt64, `uint64` MaxInt64 (arrives as OnInt64), `int64(5)` arriving as `OnInt8(5)`,
`uint16(60000)` arriving as `OnInt32(60000)`, `int(200)` as `OnInt16(200)`, `uint8(200)` as `OnUint8`,
a SIGNALLING float32 NaN with payload, float64 -0, a string -/
example : hasPrim (.num .u64) (.int 9223372036854775807) = true ∧ fitsV (.int 9223372036854775807) = true ∧
    hasPrim (.num .i64) (.int (-9223372036854775808)) = true ∧ hasPrim .f32 (.f32 0x7fa00001) = true ∧
    sizedV (.str [104, 105]) = true ∧ fitsV (.str [104, 105]) = true ∧
    (match pipe {} (.int .i64) (.int (-9223372036854775808)) with
     | some (.int .i64 (-9223372036854775808)) => true | _ => false) = true ∧
    wireEvents {} (.int .u64) (.int 9223372036854775807) = [.num .i64 9223372036854775807] ∧
    (match pipe {} (.int .u64) (.int 9223372036854775807) with
     | some (.int .u64 9223372036854775807) => true | _ => false) = true ∧
    wireEvents {} (.int .i64) (.int 5) = [.num .i8 5] ∧
    (match pipe {} (.int .i64) (.int 5) with
     | some (.int .i64 5) => true | _ => false) = true ∧
    wireEvents {} (.int .u16) (.int 60000) = [.num .i32 60000] ∧
    (match pipe {} (.int .u16) (.int 60000) with
     | some (.int .u16 60000) => true | _ => false) = true ∧
    wireEvents {} (.int .int) (.int 200) = [.num .i16 200] ∧
    wireEvents {} (.int .u8) (.int 200) = [.num .u8 200] ∧
    (match pipe {} .float32 (.f32 0x7fa00001) with
     | some (.f32 0x7fa00001) => true | _ => false) = true ∧
    (match pipe {} .float64 (.f64 0x8000000000000000) with
     | some (.f64 0x8000000000000000) => true | _ => false) = true ∧
    (match pipe {} .string (.str [104, 105]) with
     | some (.str [104, 105]) => true | _ => false) = true := by decide +kernel

/- stage 2: `[]uint16{5, 60000}` (a typed container of int32: OnArrayStart(2, int32), OnInt32(5),
OnInt32(60000)), `[]uint8{0, 255}` (through OnBytes; typed container of uint8), `[]int16{-200, 7}`,
`[]bool{true, false}` (counted array), `[]string{"A", ""}`, nil `[]string`, empty `[]bool` -/
example : (∀ x ∈ [GoVal.int 5, .int 60000], hasPrim (.num .u16) x = true ∧ fitsV x = true ∧ sizedV x = true) ∧
    wireEvents {} (.slice (.int .u16)) (.slice [.int 5, .int 60000]) =
      [.arrStart 2 BT.int32, .num .i32 5, .num .i32 60000, .arrEnd] ∧
    (match pipe {} (.slice (.int .u16)) (.slice [.int 5, .int 60000]) with
     | some (.slice (.int .u16) [.int .u16 5, .int .u16 60000] []) => true | _ => false) = true ∧
    wireEvents {} (.slice (.int .u8)) (.slice [.int 0, .int 255]) =
      [.arrStart 2 BT.uint8, .num .u8 0, .num .u8 255, .arrEnd] ∧
    (match pipe {} (.slice (.int .u8)) (.slice [.int 0, .int 255]) with
     | some (.slice (.int .u8) [.int .u8 0, .int .u8 255] []) => true | _ => false) = true ∧
    wireEvents {} (.slice (.int .i16)) (.slice [.int (-200), .int 7]) =
      [.arrStart 2 BT.int16, .num .i16 (-200), .num .i16 7, .arrEnd] ∧
    wireEvents {} (.slice .bool) (.slice [.bool true, .bool false]) =
      [.arrStart 2 BT.any, .bool true, .bool false, .arrEnd] ∧
    (match pipe {} (.slice .bool) (.slice [.bool true, .bool false]) with
     | some (.slice .bool [.bool true, .bool false] []) => true | _ => false) = true ∧
    wireEvents {} (.slice .string) (.slice [.str [65], .str []]) =
      [.arrStart 2 BT.string, .str [65], .str [], .arrEnd] ∧
    wireEvents {} (.slice .string) .nilSlice = [.arrStart (-1) BT.any, .arrEnd] ∧
    (match pipe {} (.slice .string) .nilSlice with
     | some (.sliceNil .string) => true | _ => false) = true ∧
    (match pipe {} (.slice .bool) (.slice []) with
     | some (.sliceNil .bool) => true | _ => false) = true := by decide +kernel

/-- WHY `fitsV` CANNOT BE DROPPED (scalars): `uint64(2^63)` is a value of its type (`hasPrim`), not
above any size bound (`sizedV`); the encoder accepts it and writes `H` + its 19 decimal digits, the
parser accepts the bytes and delivers ONE STRING event, which the `uint64` target refuses: the
pipeline yields no value (the model prints `-|err:parse`) -/
theorem uint64_above_maxint64_refused :
    hasPrim (.num .u64) (.int 9223372036854775808) = true ∧ sizedV (.int 9223372036854775808) = true ∧
    fitsV (.int 9223372036854775808) = false ∧
    (Enc.run {} (impl {} (.int .u64) (.int 9223372036854775808)).evs).1.w.out =
      [0x48, 0x69, 19, 57, 50, 50, 51, 51, 55, 50, 48, 51, 54, 56, 53, 52, 55, 55, 53, 56, 48, 56] ∧
    wireEvents {} (.int .u64) (.int 9223372036854775808) =
      [.str [57, 50, 50, 51, 51, 55, 50, 48, 51, 54, 56, 53, 52, 55, 55, 53, 56, 48, 56]] ∧
    (pipe {} (.int .u64) (.int 9223372036854775808)).isSome = false := by decide +kernel

/-- … (slices): ONE element above MaxInt64 makes the encoder choose the element type `H` for the
whole container: every element — also `5` — arrives as a string, and the `[]uint64` target refuses -/
theorem slice_one_big_element_refused :
    (∀ x ∈ [GoVal.int 5, .int 9223372036854775808], hasPrim (.num .u64) x = true) ∧
    wireEvents {} (.slice (.int .u64)) (.slice [.int 5, .int 9223372036854775808]) =
      [.arrStart 2 BT.string, .str [53],
       .str [57, 50, 50, 51, 51, 55, 50, 48, 51, 54, 56, 53, 52, 55, 55, 53, 56, 48, 56], .arrEnd] ∧
    (pipe {} (.slice (.int .u64)) (.slice [.int 5, .int 9223372036854775808])).isSome = false := by
  decide +kernel

/-- WHY THE SIZE HYPOTHESES CANNOT BE DROPPED: a length / count of 2^63 is written with marker `L`
as an int64 (`writeLen`: 2^63 wraps to MinInt64); the parser refuses a string header, a typed-array
header and a counted-array header carrying it with `negativeLen`, whatever follows -/
theorem huge_length_refused :
    Enc.writesOf (Enc.writeLen 9223372036854775808) = [[0x4c], [0x80, 0, 0, 0, 0, 0, 0, 0]] ∧
    (Parse.parse {} [0x53, 0x4c, 0x80, 0, 0, 0, 0, 0, 0, 0]).2 = some .negativeLen ∧
    (Parse.parse {} [0x5b, 0x24, 0x69, 0x23, 0x4c, 0x80, 0, 0, 0, 0, 0, 0, 0]).2 = some .negativeLen ∧
    (Parse.parse {} [0x5b, 0x23, 0x4c, 0x80, 0, 0, 0, 0, 0, 0, 0]).2 = some .negativeLen := by decide +kernel

end SF.Props.FuUbj
