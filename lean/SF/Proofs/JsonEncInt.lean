/-
  The integer formatting of the JSON encoder (json/visitor.go onNumber): the digit loop writes
  the canonical decimal literal, which the reference lexer reads back as the same integer.
-/
import SF.Json.Enc
import SF.Json.Cst
import SF.Proofs.JsonEncStr
namespace SF.Json.Enc
open SF SF.Json SF.Json.Float

/-- the decimal digits of `n` as Lean's `toString` produces them -/
def decBytes (n : Nat) : Bytes := (Nat.toDigits 10 n).map ch

theorem ch_digitChar (d : Nat) (h : d < 10) : ch (Nat.digitChar d) = UInt8.ofNat (d + 48) := by
  have : ∀ d : Fin 10, ch (Nat.digitChar d.val) = UInt8.ofNat (d.val + 48) := by decide
  exact this ⟨d, h⟩

theorem decBytes_lt (n : Nat) (h : n < 10) : decBytes n = [UInt8.ofNat (n + 48)] := by
  simp [decBytes, Nat.toDigits_of_lt_base h, ch_digitChar n h]

theorem decBytes_ge (n : Nat) (h : 10 ≤ n) : decBytes n = decBytes (n / 10) ++ [UInt8.ofNat (n % 10 + 48)] := by
  have h1 := Nat.toDigits_append_toDigits (b := 10) (n := n / 10) (d := n % 10) (by omega) (by omega) (by omega)
  have h2 : 10 * (n / 10) + n % 10 = n := by omega
  rw [h2] at h1
  rw [← decBytes_lt (n % 10) (by omega)]
  simp [decBytes, ← h1]

/-- the digit loop: never out of fuel below 10^fuel, and it writes `decBytes` -/
theorem itoaLoop_eq (fuel us : Nat) (acc : Bytes) (h : us < 10 ^ (fuel + 1)) :
    itoaLoop (fuel + 1) us acc = some (decBytes us ++ acc) := by
  induction fuel generalizing us acc with
  | zero =>
    have h' : us < 10 := by simpa using h
    have : ¬ us ≥ 10 := by omega
    simp [itoaLoop, this, decBytes_lt us h']
  | succ fuel ih =>
    rw [itoaLoop]
    split
    · rename_i hge
      have hlt : us / 10 < 10 ^ (fuel + 1) := by
        rw [Nat.pow_succ] at h
        exact Nat.div_lt_of_lt_mul (by rw [Nat.mul_comm]; exact h)
      rw [ih _ _ hlt, decBytes_ge us hge]
      have : us - us / 10 * 10 = us % 10 := by omega
      simp [this]
    · rename_i hlt
      have h' : us < 10 := by omega
      simp [decBytes_lt us h']

/-- the canonical decimal literal of an integer -/
def intLit (v : Int) : Bytes := if v < 0 then 0x2D :: decBytes v.natAbs else decBytes v.natAbs

theorem onNumber_eq (neg : Bool) (u : Nat) (hu : u < 18446744073709551616) :
    onNumber neg u = [.write (if neg then 0x2D :: decBytes ((18446744073709551616 - u) % 18446744073709551616)
      else decBytes u)] := by
  unfold onNumber
  cases neg with
  | false =>
    simp only [Bool.false_eq_true, if_false]
    rw [itoaLoop_eq 20 u [] (by omega)]
    simp
  | true =>
    simp only [if_true]
    rw [itoaLoop_eq 20 _ [] (by omega)]
    simp [ch]

/-- D, part 1: for a value in the range of its kind's Go type (int64 / uint64 after the
widening conversion of OnInt8 … OnUint64), the encoder's whole action list is the
separator logic and ONE write of the canonical literal -/
theorem acts_num (s : Enc) (k : NumKind) (v : Int)
    (h : (k.signed = true ∧ -9223372036854775808 ≤ v ∧ v ≤ 9223372036854775807) ∨
         (k.signed = false ∧ 0 ≤ v ∧ v ≤ 18446744073709551615)) :
    acts s (.num k v) = [.tryElemNext, .write (intLit v)] := by
  rcases h with ⟨hs, h1, h2⟩ | ⟨hs, h1, h2⟩
  · simp only [acts, hs, if_true, onInt]
    rw [onNumber_eq _ _ (by omega)]
    by_cases hv : v < 0
    · simp only [hv, decide_true, if_true, intLit]
      have : (18446744073709551616 - (v % 18446744073709551616).toNat) % 18446744073709551616 = v.natAbs := by omega
      rw [this]
    · simp only [hv, decide_false, Bool.false_eq_true, if_false, intLit]
      have : (v % 18446744073709551616).toNat = v.natAbs := by omega
      rw [this]
  · simp only [acts, hs, Bool.false_eq_true, if_false, onUint]
    rw [onNumber_eq _ _ (by omega)]
    have hv : ¬ v < 0 := by omega
    simp only [Bool.false_eq_true, if_false, intLit, hv]
    have : v.toNat = v.natAbs := by omega
    rw [this]

theorem inRange_cases (k : NumKind) (v : Int) (h : k.inRange v = true) :
    (k.signed = true ∧ -9223372036854775808 ≤ v ∧ v ≤ 9223372036854775807) ∨
    (k.signed = false ∧ 0 ≤ v ∧ v ≤ 18446744073709551615) := by
  simp only [NumKind.inRange, Bool.and_eq_true, decide_eq_true_eq] at h
  cases k <;> simp [NumKind.signed, NumKind.lo, NumKind.hi] at h ⊢ <;> omega

open SF.Json.Cst

theorem intLit_toString (v : Int) : intLit v = Float.strBytes (toString v) := by
  cases v with
  | ofNat m =>
    have : ¬ (Int.ofNat m < 0) := by simp
    simp only [intLit, this, if_false, Float.strBytes, toString, Int.repr, Nat.repr, String.toList_ofList]
    rfl
  | negSucc m =>
    have : (Int.negSucc m < 0) := Int.negSucc_lt_zero m
    simp only [intLit, this, if_true, Float.strBytes, toString, Int.repr, Nat.repr, String.toList_append,
      String.toList_ofList, List.map_append]
    rfl

/-- digit with value -/
theorem digit_facts (d : Nat) (h : d < 10) :
    Cst.isDigit (UInt8.ofNat (d + 48)) = true ∧ (UInt8.ofNat (d + 48)).toNat - 0x30 = d ∧
      ((UInt8.ofNat (d + 48)) = 0x30 ↔ d = 0) := by
  have : ∀ d : Fin 10, Cst.isDigit (UInt8.ofNat (d.val + 48)) = true ∧ (UInt8.ofNat (d.val + 48)).toNat - 0x30 = d.val ∧
      ((UInt8.ofNat (d.val + 48)) = 0x30 ↔ d.val = 0) := by decide
  exact this ⟨d, h⟩

theorem natOfDigits_snoc (ds : Bytes) (c : UInt8) : natOfDigits (ds ++ [c]) = natOfDigits ds * 10 + (c.toNat - 0x30) := by
  simp [natOfDigits, List.foldl_append]

/-- the literal of a natural number: digits only, no leading zero (except "0"), value n -/
theorem decBytes_spec (n : Nat) :
    (decBytes n).all Cst.isDigit = true ∧ natOfDigits (decBytes n) = n ∧
      ∃ d ds, decBytes n = d :: ds ∧ (d = 0x30 → n = 0 ∧ ds = []) := by
  induction n using Nat.strongRecOn with
  | _ n ih =>
    by_cases h : n < 10
    · obtain ⟨h1, h2, h3⟩ := digit_facts n h
      rw [decBytes_lt n h]
      refine ⟨by simp only [List.all_cons, h1, List.all_nil, Bool.and_self], ?_, _, _, rfl, fun hd => ⟨h3.mp hd, rfl⟩⟩
      simp only [natOfDigits, List.foldl_cons, List.foldl_nil, Nat.zero_mul, Nat.zero_add]; exact h2
    · have hge : 10 ≤ n := by omega
      obtain ⟨a1, a2, d, ds, a3, a4⟩ := ih (n / 10) (by omega)
      obtain ⟨h1, h2, _⟩ := digit_facts (n % 10) (by omega)
      rw [decBytes_ge n hge]
      refine ⟨by simp only [List.all_append, a1, List.all_cons, h1, List.all_nil, Bool.and_self], ?_, d, ds ++ [UInt8.ofNat (n % 10 + 48)], by simp [a3], fun hd => ?_⟩
      · rw [natOfDigits_snoc, a2, h2]; omega
      · have := (a4 hd).1; omega

theorem endsScalar_not_digit (c : UInt8) (h : endsScalar c = true) :
    Cst.isDigit c = false ∧ c ≠ 0x2E ∧ c ≠ 0x65 ∧ c ≠ 0x45 := by
  have := Utf8.forall_uint8 (fun c => !(endsScalar c) ||
    (!(Cst.isDigit c) && decide (c ≠ 0x2E) && decide (c ≠ 0x65) && decide (c ≠ 0x45))) (by decide +kernel) c
  simp [h] at this
  exact ⟨this.1.1.1, this.1.1.2, this.1.2, this.2⟩

/-- what may follow a scalar token -/
def EndOk (rest : Bytes) : Prop := rest = [] ∨ ∃ c tl, rest = c :: tl ∧ endsScalar c = true

theorem digitsOf_append (ds rest : Bytes) (hd : ds.all Cst.isDigit = true) (hr : EndOk rest) :
    digitsOf (ds ++ rest) = (ds, rest) := by
  induction ds with
  | nil =>
    rcases hr with rfl | ⟨c, tl, rfl, hc⟩
    · rfl
    · simp [digitsOf, (endsScalar_not_digit c hc).1]
  | cons d ds ih =>
    simp only [List.all_cons, Bool.and_eq_true] at hd
    simp [digitsOf, hd.1, ih hd.2]

theorem lexNumber_digits (neg : Bool) (ds rest : Bytes) (d : UInt8) (ds' : Bytes) (hds : ds = d :: ds')
    (hd : ds.all Cst.isDigit = true) (hz : d = 0x30 → ds' = []) (hr : EndOk rest) :
    lexNumber ((if neg then [0x2D] else []) ++ ds ++ rest) = lexNumber.fin neg ds [] 0 false false rest := by
  have hd0 : d ≠ 0x2D := by
    intro e; subst e; subst hds; simp [Cst.isDigit] at hd
  have hdig := digitsOf_append ds rest hd hr
  have hlead : (decide (ds.length > 1) && ds.head? == some 48) = false := by
    subst hds
    by_cases h0 : d = 0x30
    · simp [hz h0]
    · simp [h0]
  have hne : ds.isEmpty = false := by subst hds; rfl
  unfold lexNumber
  have hsign : lexNumber.match_1 (fun _ => Bool × List UInt8) ((if neg then [0x2D] else []) ++ ds ++ rest)
      (fun r => (true, r)) (fun _ => (false, (if neg then [0x2D] else []) ++ ds ++ rest)) = (neg, ds ++ rest) := by
    cases neg with
    | true => simp
    | false =>
      simp only [Bool.false_eq_true, if_false, List.nil_append]
      rw [lexNumber.match_1.eq_2]
      intro r h; subst hds; simp only [List.cons_append, List.cons.injEq] at h; exact hd0 h.1
  simp only [hsign, hdig, hne, hlead, Bool.false_eq_true, if_false]
  rcases hr with rfl | ⟨c, tl, rfl, hc⟩
  · simp
  · obtain ⟨_, c1, c2, c3⟩ := endsScalar_not_digit c hc
    rw [lexNumber.match_3.eq_2 _ _ _ _ (by intro r h; simp only [List.cons.injEq] at h; exact c1 h.1)]
    have : (c == 101 || c == 69) = false := by simp [c2, c3]
    simp [this, hc]

/-- D, part 2: the reference lexer reads the literal of every integer in [-2^63, 2^64) back as
exactly that integer, not marked as out of range, when it is followed by the end of the text
or by a character that may follow a number -/
theorem lexNumber_intLit (v : Int) (rest : Bytes) (hr : EndOk rest)
    (h1 : -9223372036854775808 ≤ v) (h2 : v ≤ 18446744073709551615) :
    lexNumber (intLit v ++ rest) = .ok (.int v, false, rest) := by
  obtain ⟨a1, a2, d, ds, a3, a4⟩ := decBytes_spec v.natAbs
  have key := lexNumber_digits (decide (v < 0)) (decBytes v.natAbs) rest d ds a3 a1 (fun h => (a4 h).2) hr
  have e : intLit v = (if decide (v < 0) = true then [0x2D] else []) ++ decBytes v.natAbs := by
    unfold intLit; by_cases hv : v < 0 <;> simp [hv]
  rw [e, key]
  simp only [lexNumber.fin, Bool.not_false, Bool.and_self, if_true, a2]
  by_cases hv : v < 0
  · have e1 : -(v.natAbs : Int) = v := by omega
    have e2 : v.natAbs ≤ 9223372036854775808 := by omega
    simp [hv, e1, e2]
  · have e1 : (v.natAbs : Int) = v := by omega
    have e2 : v.natAbs ≤ 18446744073709551615 := by omega
    simp [hv, e1, e2]

/-! ## an explicit recogniser for RFC 8259 §6 integers: `-? ( 0 / [1-9] *DIGIT )` -/

def isNatLit : Bytes → Bool
  | [] => false
  | d :: ds => (d :: ds).all Cst.isDigit && (d != 0x30 || ds.isEmpty)

def isJsonInt : Bytes → Bool
  | [] => false
  | c :: tl => if c == 0x2D then isNatLit tl else isNatLit (c :: tl)

/-- the value of an integer literal -/
def jsonIntValue : Bytes → Int
  | [] => 0
  | c :: tl => if c == 0x2D then -(natOfDigits tl : Int) else natOfDigits (c :: tl)

theorem isNatLit_decBytes (n : Nat) : isNatLit (decBytes n) = true := by
  obtain ⟨a1, _, d, ds, a3, a4⟩ := decBytes_spec n
  rw [a3] at a1 ⊢
  simp only [isNatLit, a1, Bool.true_and]
  by_cases h : d = 0x30
  · simp [(a4 h).2]
  · simp [h]

/-- the literal is an RFC 8259 integer and its value is `v` (for EVERY Int) -/
theorem intLit_valid (v : Int) : isJsonInt (intLit v) = true ∧ jsonIntValue (intLit v) = v := by
  obtain ⟨a1, a2, d, ds, a3, a4⟩ := decBytes_spec v.natAbs
  have hd0 : (d == 0x2D) = false := by
    rw [a3] at a1
    simp only [List.all_cons, Bool.and_eq_true] at a1
    cases hq : d == 0x2D with
    | false => rfl
    | true =>
      have : d = 0x2D := by simpa using hq
      rw [this] at a1
      exact absurd a1.1 (by decide)
  unfold intLit
  by_cases hv : v < 0
  · simp only [hv, if_true, isJsonInt, jsonIntValue, beq_self_eq_true, isNatLit_decBytes, a2, true_and]
    omega
  · simp only [hv, if_false]
    have hn := isNatLit_decBytes v.natAbs
    have hval := a2
    rw [a3] at hn hval ⊢
    simp only [isJsonInt, jsonIntValue, hd0, Bool.false_eq_true, if_false, hn, hval, true_and]
    omega

end SF.Json.Enc
