/-
  C11, direct path, the TOKENS: what `EnsureExtVisitor(unfolder)` makes of the one event Fold
  delivers for a scalar / `[]T` / `map[string]T`, and what the Unfolder's kind conversion makes of
  each scalar in it (the translation of the Go value).
-/
import SF.Proofs.FuIdFold
import SF.Proofs.UnfTyValMap
import SF.Ops.Unfold
import SF.Gotype.Translate
namespace SF.FuId
open SF SF.Gotype SF.Gotype.Fold SF.FoldProofs
open SF.Unf (Sc UEv PK memberEvents convList putAll mapSet)
open SF.Ops.Unf (xevToUEvs evToUEv)

/-! ## payload getters -/

def getB : GoVal → Bool | .bool b => b | _ => false
def getS : GoVal → Bytes | .str s => s | _ => []
def getI : GoVal → Int | .int v => v | _ => 0
def getF32 : GoVal → UInt32 | .f32 b => b | _ => 0
def getF64 : GoVal → UInt64 | .f64 b => b | _ => 0

/-- the kind an integer element travels under: `[]byte` through `OnBytes` (typed arrays handed to
`foldBytes`), everything else under its own kind -/
def elemKind (bytes : Bool) (k : NumKind) : NumKind := if bytes && k == .u8 then .byte else k

/-- the typed-array event of a slice of scalars -/
def arrX (bytes : Bool) : Prim → List GoVal → XEv
  | .bool, xs => .boolArr (xs.map getB)
  | .string, xs => .strArr (xs.map getS)
  | .num k, xs => .numArr (elemKind bytes k) (xs.map getI)
  | .f32, xs => .f32Arr (xs.map getF32)
  | .f64, xs => .f64Arr (xs.map getF64)

/-- the scalar call an element of a typed array / typed map arrives as -/
def scOfElem (bytes : Bool) : Prim → GoVal → Sc
  | .bool, x => .bool (getB x)
  | .string, x => .str (getS x)
  | .num k, x => .num (elemKind bytes k) (getI x)
  | .f32, x => .f32 (getF32 x)
  | .f64, x => .f64 (getF64 x)

/-- the announced element type -/
def btOf (bytes : Bool) : Prim → Nat
  | .bool => BT.bool | .string => BT.string | .num k => (elemKind bytes k).baseType
  | .f32 => BT.float32 | .f64 => BT.float64

/-- the scalar call of a TOP-LEVEL scalar: `int` through `OnInt64` -/
def scOfTop : Prim → GoVal → Sc
  | .num k, x => .num (if k == .int then .i64 else k) (getI x)
  | p, x => scOfElem false p x

/-! ## translation into the Unfolder's universe -/

/-- translation of the scalar types (`Tr.trType`) -/
def uPrimTy : Prim → Unf.GoType
  | .bool => .bool | .string => .string | .num k => .int (Unf.normKind k) | .f32 => .float32 | .f64 => .float64

/-- the template instance that serves the kind -/
def pkOf : Prim → PK
  | .bool => .bool | .string => .string | .num k => .num (Unf.normKind k) | .f32 => .f32 | .f64 => .f64

/-- translation of a scalar Go value of type `p` -/
def trPrim : Prim → GoVal → Unf.GoVal
  | .bool, x => .bool (getB x)
  | .string, x => .str (getS x)
  | .num k, x => .int (Unf.normKind k) (getI x)
  | .f32, x => .f32 (getF32 x)
  | .f64, x => .f64 (getF64 x)

theorem trType_primTy (p : Prim) : Unf.Tr.trType (primTy p) = some (uPrimTy p) := by cases p <;> rfl
theorem trType_slice (p : Prim) : Unf.Tr.trType (.slice (primTy p)) = some (.slice (uPrimTy p)) := by cases p <;> rfl
theorem trType_map (p : Prim) : Unf.Tr.trType (.map .string (primTy p)) = some (.map (uPrimTy p)) := by cases p <;> rfl

theorem ofExact_uPrimTy (p : Prim) : PK.ofExact? (uPrimTy p) = some (pkOf p) := by
  cases p <;> simp [uPrimTy, pkOf, PK.ofExact?]
  rename_i k; cases k <;> rfl

theorem pkOf_ne_ifc (p : Prim) : pkOf p ≠ .ifc := by cases p <;> simp [pkOf]

theorem goType_pkOf (p : Prim) : (pkOf p).goType = uPrimTy p := by cases p <;> rfl

/-! ## conversions -/

theorem conv_elem (bytes : Bool) (p : Prim) (x : GoVal) (h : hasPrim p x = true) :
    (pkOf p).conv (scOfElem bytes p x) = some (trPrim p x) := by
  cases p with
  | num k =>
    cases x <;> simp [hasPrim] at h
    rename_i v
    have h1 : (elemKind bytes k).inRange v = true := by
      unfold elemKind; split
      · rename_i hc; simp at hc; rw [hc.2] at h; exact h
      · exact h
    have h2 : (Unf.normKind k).inRange v = true := by rw [Unf.inRange_normKind]; exact h
    show some (Unf.GoVal.int _ (Unf.wrapTo _ (Unf.wrapTo _ v))) = some _
    rw [Unf.wrapTo_inRange _ _ h1, Unf.wrapTo_inRange _ _ h2]; rfl
  | _ => cases x <;> simp [hasPrim] at h <;> rfl

theorem conv_top (p : Prim) (x : GoVal) (h : hasPrim p x = true) :
    (pkOf p).conv (scOfTop p x) = some (trPrim p x) := by
  cases p with
  | num k =>
    cases x <;> simp [hasPrim] at h
    rename_i v
    have h1 : (if k == .int then NumKind.i64 else k).inRange v = true := by
      split
      · rename_i hc; simp at hc; rw [hc] at h; exact h
      · exact h
    have h2 : (Unf.normKind k).inRange v = true := by rw [Unf.inRange_normKind]; exact h
    show some (Unf.GoVal.int _ (Unf.wrapTo _ (Unf.wrapTo _ v))) = some _
    rw [Unf.wrapTo_inRange _ _ h1, Unf.wrapTo_inRange _ _ h2]; rfl
  | _ => exact conv_elem false _ x h

theorem convList_elems (bytes : Bool) (p : Prim) : ∀ (xs : List GoVal), (∀ x ∈ xs, hasPrim p x = true) →
    convList (pkOf p) (xs.map (scOfElem bytes p)) = some (xs.map (trPrim p))
  | [], _ => rfl
  | x :: r, h => by
    simp only [List.map_cons, convList, conv_elem bytes p x (h x List.mem_cons_self),
      convList_elems bytes p r (fun y hy => h y (List.mem_cons_of_mem _ hy))]

/-! ## the events as tokens -/

theorem primEv_top (p : Prim) (x : GoVal) (h : hasPrim p x = true) :
    ∃ e, primEv false p x = some (.ev e) ∧ evToUEv e = .scalar (scOfTop p x) := by
  cases p <;> cases x <;> simp [hasPrim] at h <;> exact ⟨_, rfl, rfl⟩

theorem allSome_map_of {α β : Type} (f : α → Option β) (g : α → β) :
    ∀ (xs : List α), (∀ x ∈ xs, f x = some (g x)) → allSome (xs.map f) = some (xs.map g)
  | [], _ => rfl
  | x :: r, h => by
    simp [allSome, h x List.mem_cons_self, allSome_map_of f g r (fun y hy => h y (List.mem_cons_of_mem _ hy))]

theorem arrEv_eq (bytes : Bool) (p : Prim) (xs : List GoVal) (h : ∀ x ∈ xs, hasPrim p x = true) :
    arrEv bytes p xs = some (arrX bytes p xs) := by
  cases p with
  | bool =>
    simp only [arrEv, arrX]
    rw [allSome_map_of asBool getB xs (fun x hx => by have := h x hx; cases x <;> simp [hasPrim] at this <;> rfl)]; rfl
  | string =>
    simp only [arrEv, arrX]
    rw [allSome_map_of asStr getS xs (fun x hx => by have := h x hx; cases x <;> simp [hasPrim] at this <;> rfl)]; rfl
  | num k =>
    simp only [arrEv, arrX]
    rw [allSome_map_of asInt getI xs (fun x hx => by have := h x hx; cases x <;> simp [hasPrim] at this <;> rfl)]; rfl
  | f32 =>
    simp only [arrEv, arrX]
    rw [allSome_map_of asF32 getF32 xs (fun x hx => by have := h x hx; cases x <;> simp [hasPrim] at this <;> rfl)]; rfl
  | f64 =>
    simp only [arrEv, arrX]
    rw [allSome_map_of asF64 getF64 xs (fun x hx => by have := h x hx; cases x <;> simp [hasPrim] at this <;> rfl)]; rfl

theorem map_evs {α : Type} (f : α → Ev) (g : α → Sc) (hfg : ∀ a, evToUEv (f a) = .scalar (g a)) :
    ∀ xs : List α, (xs.map f).map evToUEv = (xs.map g).map UEv.scalar
  | [] => rfl
  | x :: r => by simp only [List.map_cons, hfg, map_evs f g hfg r]

/-- the typed-array event reaches the Unfolder as `OnArrayStart(len, T)`, the elements, `OnArrayFinished` -/
theorem arrX_tokens (bytes : Bool) (p : Prim) (xs : List GoVal) :
    xevToUEvs (arrX bytes p xs) =
      .arrStart xs.length (btOf bytes p) :: (xs.map (scOfElem bytes p)).map UEv.scalar ++ [.arrEnd] := by
  cases p <;>
    simp only [arrX, xevToUEvs, XEv.expand, List.map_cons, List.map_append, List.map_nil, evToUEv, List.length_map,
      btOf, List.map_map] <;> rfl

/-! ## typed maps -/

/-- a map entry of `map[string]T`: a string key and a value of the scalar type -/
def hasEntry (p : Prim) (m : GoVal × GoVal) : Bool :=
  (match m.1 with | .str _ => true | _ => false) && hasPrim p m.2

def objX : Prim → List (GoVal × GoVal) → XEv
  | .bool, ms => .boolObj (ms.map fun m => (getS m.1, getB m.2))
  | .string, ms => .strObj (ms.map fun m => (getS m.1, getS m.2))
  | .num k, ms => .numObj k (ms.map fun m => (getS m.1, getI m.2))
  | .f32, ms => .f32Obj (ms.map fun m => (getS m.1, getF32 m.2))
  | .f64, ms => .f64Obj (ms.map fun m => (getS m.1, getF64 m.2))

theorem entries_eq {α : Type} (f : GoVal → Option α) (g : GoVal → α) (ms : List (GoVal × GoVal))
    (h : ∀ m ∈ ms, asStr m.1 = some (getS m.1) ∧ f m.2 = some (g m.2)) :
    entries f ms = some (ms.map fun m => (getS m.1, g m.2)) := by
  unfold entries
  apply allSome_map_of
  intro m hm
  obtain ⟨a, b⟩ := m
  have := h (a, b) hm
  simp only [this.1, this.2]

theorem hasEntry_key {p : Prim} {m : GoVal × GoVal} (h : hasEntry p m = true) :
    asStr m.1 = some (getS m.1) ∧ hasPrim p m.2 = true := by
  obtain ⟨a, b⟩ := m
  simp only [hasEntry, Bool.and_eq_true] at h
  refine ⟨?_, h.2⟩
  cases a <;> simp at h <;> rfl

theorem objEv_eq (p : Prim) (ms : List (GoVal × GoVal)) (h : ∀ m ∈ ms, hasEntry p m = true) :
    objEv p ms = some (objX p ms) := by
  cases p with
  | bool =>
    simp only [objEv, objX]
    rw [entries_eq asBool getB ms (fun m hm => ⟨(hasEntry_key (h m hm)).1, by
      have := (hasEntry_key (h m hm)).2; revert this; cases m.2 <;> simp [hasPrim] <;> first | rfl | (intro _; rfl)⟩)]; rfl
  | string =>
    simp only [objEv, objX]
    rw [entries_eq asStr getS ms (fun m hm => ⟨(hasEntry_key (h m hm)).1, by
      have := (hasEntry_key (h m hm)).2; revert this; cases m.2 <;> simp [hasPrim] <;> first | rfl | (intro _; rfl)⟩)]; rfl
  | num k =>
    simp only [objEv, objX]
    rw [entries_eq asInt getI ms (fun m hm => ⟨(hasEntry_key (h m hm)).1, by
      have := (hasEntry_key (h m hm)).2; revert this; cases m.2 <;> simp [hasPrim] <;> first | rfl | (intro _; rfl)⟩)]; rfl
  | f32 =>
    simp only [objEv, objX]
    rw [entries_eq asF32 getF32 ms (fun m hm => ⟨(hasEntry_key (h m hm)).1, by
      have := (hasEntry_key (h m hm)).2; revert this; cases m.2 <;> simp [hasPrim] <;> first | rfl | (intro _; rfl)⟩)]; rfl
  | f64 =>
    simp only [objEv, objX]
    rw [entries_eq asF64 getF64 ms (fun m hm => ⟨(hasEntry_key (h m hm)).1, by
      have := (hasEntry_key (h m hm)).2; revert this; cases m.2 <;> simp [hasPrim] <;> first | rfl | (intro _; rfl)⟩)]; rfl

theorem flatMap_members {β : Type} (f : β → Ev) (g : β → Sc) (hfg : ∀ b, evToUEv (f b) = .scalar (g b)) :
    ∀ ms : List (Bytes × β), (ms.flatMap fun m => [Ev.key m.1, f m.2]).map evToUEv =
      memberEvents (ms.map fun m => (m.1, g m.2))
  | [] => rfl
  | m :: r => by
    have hk : ∀ k, evToUEv (Ev.key k) = UEv.key k := fun _ => rfl
    simp only [List.flatMap_cons, List.map_cons, memberEvents, hfg, hk,
      flatMap_members f g hfg r, List.cons_append, List.nil_append]

/-- the members of the typed-map event as (key, scalar call) pairs, in the order of the Go map -/
def memsOf (p : Prim) (ms : List (GoVal × GoVal)) : List (Bytes × Sc) :=
  ms.map fun m => (getS m.1, scOfElem false p m.2)

/-- the typed-map event, after the order oracle had its say, reaches the Unfolder as
`OnObjectStart(len, T)`, key / value calls for a PERMUTATION of the members, `OnObjectFinished` -/
theorem objX_tokens (s : St) (hh : hintOK s.hint) (p : Prim) (ms : List (GoVal × GoVal))
    (hnd : (ms.map fun m => getS m.1).Nodup) :
    ∃ mems, xevToUEvs (reorderByHint s (objX p ms)) =
        .objStart ms.length (btOf false p) :: memberEvents mems ++ [.objEnd] ∧ mems.Perm (memsOf p ms) := by
  cases p with
  | bool =>
    obtain ⟨ms', he, hp⟩ := reorder_boolObj s (ms.map fun m => (getS m.1, getB m.2)) hh (by simpa [List.map_map, Function.comp_def] using hnd)
    refine ⟨ms'.map fun m => (m.1, Sc.bool m.2), ?_, ?_⟩
    · simp only [objX, he, xevToUEvs, XEv.expand, List.map_cons, List.map_append, List.map_nil, evToUEv,
        flatMap_members Ev.bool Sc.bool (fun _ => rfl), btOf]
      have := hp.length_eq; simp at this; rw [this]
    · have := hp.map (fun m : Bytes × Bool => (m.1, Sc.bool m.2)); simpa [memsOf, scOfElem, List.map_map, Function.comp_def] using this
  | string =>
    obtain ⟨ms', he, hp⟩ := reorder_strObj s (ms.map fun m => (getS m.1, getS m.2)) hh (by simpa [List.map_map, Function.comp_def] using hnd)
    refine ⟨ms'.map fun m => (m.1, Sc.str m.2), ?_, ?_⟩
    · simp only [objX, he, xevToUEvs, XEv.expand, List.map_cons, List.map_append, List.map_nil, evToUEv,
        flatMap_members Ev.str Sc.str (fun _ => rfl), btOf]
      have := hp.length_eq; simp at this; rw [this]
    · have := hp.map (fun m : Bytes × Bytes => (m.1, Sc.str m.2)); simpa [memsOf, scOfElem, List.map_map, Function.comp_def] using this
  | num k =>
    obtain ⟨ms', he, hp⟩ := reorder_numObj s k (ms.map fun m => (getS m.1, getI m.2)) hh (by simpa [List.map_map, Function.comp_def] using hnd)
    refine ⟨ms'.map fun m => (m.1, Sc.num k m.2), ?_, ?_⟩
    · simp only [objX, he, xevToUEvs, XEv.expand, List.map_cons, List.map_append, List.map_nil, evToUEv,
        flatMap_members (Ev.num k) (Sc.num k) (fun _ => rfl), btOf, elemKind, Bool.false_and, Bool.false_eq_true, if_false]
      have := hp.length_eq; simp at this; rw [this]
    · have := hp.map (fun m : Bytes × Int => (m.1, Sc.num k m.2))
      simpa [memsOf, scOfElem, elemKind, List.map_map, Function.comp_def] using this
  | f32 =>
    obtain ⟨ms', he, hp⟩ := reorder_f32Obj s (ms.map fun m => (getS m.1, getF32 m.2)) hh (by simpa [List.map_map, Function.comp_def] using hnd)
    refine ⟨ms'.map fun m => (m.1, Sc.f32 m.2), ?_, ?_⟩
    · simp only [objX, he, xevToUEvs, XEv.expand, List.map_cons, List.map_append, List.map_nil, evToUEv,
        flatMap_members Ev.f32 Sc.f32 (fun _ => rfl), btOf]
      have := hp.length_eq; simp at this; rw [this]
    · have := hp.map (fun m : Bytes × UInt32 => (m.1, Sc.f32 m.2)); simpa [memsOf, scOfElem, List.map_map, Function.comp_def] using this
  | f64 =>
    obtain ⟨ms', he, hp⟩ := reorder_f64Obj s (ms.map fun m => (getS m.1, getF64 m.2)) hh (by simpa [List.map_map, Function.comp_def] using hnd)
    refine ⟨ms'.map fun m => (m.1, Sc.f64 m.2), ?_, ?_⟩
    · simp only [objX, he, xevToUEvs, XEv.expand, List.map_cons, List.map_append, List.map_nil, evToUEv,
        flatMap_members Ev.f64 Sc.f64 (fun _ => rfl), btOf]
      have := hp.length_eq; simp at this; rw [this]
    · have := hp.map (fun m : Bytes × UInt64 => (m.1, Sc.f64 m.2)); simpa [memsOf, scOfElem, List.map_map, Function.comp_def] using this

/-! ## putting members with distinct keys -/

/-- what the kind's conversion stores for a scalar call -/
def convD (k : PK) (s : Sc) : Unf.GoVal := (k.conv s).getD .invalid

theorem mapSet_fresh (acc : List (Bytes × Unf.GoVal)) (key : Bytes) (w : Unf.GoVal)
    (h : ∀ a ∈ acc, a.1 ≠ key) : mapSet acc key w = acc ++ [(key, w)] := by
  unfold mapSet
  have : acc.any (·.1 == key) = false := by
    rw [List.any_eq_false]; intro a ha; simpa using h a ha
  simp [this]

theorem putAll_nodup (k : PK) : ∀ (mems : List (Bytes × Sc)) (acc : List (Bytes × Unf.GoVal)),
    (∀ m ∈ mems, (k.conv m.2).isSome = true) → (mems.map (·.1)).Nodup →
    (∀ m ∈ mems, ∀ a ∈ acc, a.1 ≠ m.1) →
    putAll k mems acc = some (acc ++ mems.map fun m => (m.1, convD k m.2))
  | [], acc, _, _, _ => by simp [putAll]
  | (key, s) :: r, acc, hc, hnd, hdis => by
    have h1 := hc (key, s) List.mem_cons_self
    obtain ⟨w, hw⟩ := Option.isSome_iff_exists.mp h1
    simp only [List.map_cons, List.nodup_cons] at hnd
    simp only at hw
    simp only [putAll, hw]
    rw [mapSet_fresh acc key w (fun a ha => hdis (key, s) List.mem_cons_self a ha)]
    rw [putAll_nodup k r (acc ++ [(key, w)]) (fun m hm => hc m (List.mem_cons_of_mem _ hm)) hnd.2]
    · simp [convD, hw]
    · intro m hm a ha
      rcases List.mem_append.mp ha with ha | ha
      · exact hdis m (List.mem_cons_of_mem _ hm) a ha
      · simp at ha; subst ha
        intro heq
        exact hnd.1 (List.mem_map.mpr ⟨m, hm, heq.symm⟩)

end SF.FuId
