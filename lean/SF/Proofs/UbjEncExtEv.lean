/-
  One extended event of the UBJSON encoder: its expansion tree `xTree x`, the item `xItem x`
  it writes, and the facts relating them (bytes, well-formedness, value).
-/
import SF.Proofs.UbjEncExt
namespace SF.Ubjson.Enc
open SF SF.Ubjson SF.Ubjson.Wire
open SF.Cbor.Enc (small smallList smallMems)

/-! ## numeric element types -/

def NumKind.wide : NumKind → Bool
  | .u16 | .u32 | .u64 | .uint => true
  | _ => false

/-- element type marker of a numeric typed container of kind `k` (`T`: the type found) -/
def elemType (k : NumKind) (T : UT) : UInt8 :=
  match k with
  | .i8 => int8Marker | .i16 => int16Marker | .i32 => int32Marker | .i64 => int64Marker
  | .int => int64Marker | .byte => uint8Marker | .u8 => uint8Marker
  | .u16 => T.byte | .u32 => T.byte | .u64 => T.byte | .uint => T.byte

def elemItem (k : NumKind) (T : UT) (v : Int) : UItem :=
  match k with
  | .i8 => .int .i v | .i16 => .int .I v | .i32 => .int .l v | .i64 => .int .L v
  | .int => .int .L v | .byte => .int .U v | .u8 => .int .U v
  | .u16 => utItem T v.toNat | .u32 => utItem T v.toNat | .u64 => utItem T v.toNat
  | .uint => utItem T v.toNat

def elemActs (k : NumKind) (T : UT) (v : Int) : List Act :=
  match k with
  | .i8 => int8 v false | .i16 => int16 v false | .i32 => int32 v false | .i64 => int64 v false
  | .int => int64 v false | .byte => uint8 v false | .u8 => uint8 v false
  | .u16 => uint64 v.toNat T.byte false | .u32 => uint64 v.toNat T.byte false
  | .u64 => uint64 v.toNat T.byte false | .uint => uint64 v.toNat T.byte false

theorem uintArray_eq (xs : List Int) :
    uintArray xs = typedArray (minUT xs).byte xs (fun v => uint64 v.toNat (minUT xs).byte false) := by
  simp only [uintArray, minType_eq]

theorem uintObject_eq (ms : List (Bytes × Int)) :
    uintObject ms = typedObject (minUT (ms.map (·.2))).byte ms
      (fun v => uint64 v.toNat (minUT (ms.map (·.2))).byte false) := by
  simp only [uintObject, minType_eq]

theorem numArray_eq (k : NumKind) (xs : List Int) :
    numArray k xs = typedArray (elemType k (minUT xs)) xs (elemActs k (minUT xs)) := by
  cases k <;> first | rfl | exact uintArray_eq xs

theorem numObject_eq (k : NumKind) (ms : List (Bytes × Int)) :
    numObject k ms = typedObject (elemType k (minUT (ms.map (·.2)))) ms (elemActs k (minUT (ms.map (·.2)))) := by
  cases k <;> first | rfl | exact uintObject_eq ms

theorem flat_elemActs (k : NumKind) (T : UT) (v : Int) : flat (elemActs k T v) = (elemItem k T v).payload := by
  cases k <;> simp only [elemActs, elemItem, UItem.payload, flat_int8, flat_int16, flat_int32, flat_int64,
    flat_uint8, flat_uint64, mk, Bool.false_eq_true, if_false, List.nil_append]

theorem elemItem_marker (k : NumKind) (T : UT) (v : Int) : (elemItem k T v).marker = elemType k T := by
  cases k <;> first | rfl | exact utItem_marker T _

theorem elemType_ok (k : NumKind) (T : UT) : typeOk (elemType k T) = true := by
  cases k <;> cases T <;> decide

theorem isWrites_elemActs (k : NumKind) (T : UT) (v : Int) : isWrites (elemActs k T v) = true := by
  cases k <;> simp only [elemActs] <;> (first | exact isWrites_int8 .. | exact isWrites_int16 .. | exact isWrites_int32 .. | exact isWrites_int64 .. | exact isWrites_uint8 .. | exact isWrites_uint64 ..)

theorem elemItem_ok (k : NumKind) (T : UT) (v : Int) (h : k.inRange v = true)
    (hr : (utOf v.toNat).rank ≤ T.rank) : (elemItem k T v).ok = true := by
  obtain ⟨hlo, hhi⟩ := inRange_bounds k v h
  cases k <;> simp only [NumKind.lo, NumKind.hi] at hlo hhi <;> simp only [elemItem]
  · simp [UItem.ok, IM.fits, *]
  · simp [UItem.ok, IM.fits, *]
  · simp [UItem.ok, IM.fits, *]
  · simp [UItem.ok, IM.fits, *]
  · simp [UItem.ok, IM.fits, *]
  · simp [UItem.ok, IM.fits, *]
  · exact utItem_ok _ _ hr (by omega)
  · exact utItem_ok _ _ hr (by omega)
  · exact utItem_ok _ _ hr (by omega)
  · exact utItem_ok _ _ hr (by omega)
  · simp [UItem.ok, IM.fits, *]

theorem elemItem_value (k : NumKind) (T : UT) (v : Int) (h : k.inRange v = true) :
    (elemItem k T v).value = if NumKind.wide k = true ∧ T = .H then .str (decimal v.toNat) else .int v := by
  obtain ⟨hlo, hhi⟩ := inRange_bounds k v h
  have hu : ∀ (hv : 0 ≤ v), (utItem T v.toNat).value = if T = .H then .str (decimal v.toNat) else .int v := by
    intro hv
    rw [utItem_value]
    have : (v.toNat : Int) = v := Int.toNat_of_nonneg hv
    rw [this]
  cases k <;> simp only [NumKind.lo, NumKind.hi] at hlo hhi <;>
    simp only [elemItem, NumKind.wide, Bool.false_eq_true, false_and, true_and, if_false, UItem.value] <;>
    exact hu hlo

/-! ## the expansion tree and the item of an extended event -/

/-- extended events that stand for one value -/
def isExtValue : XEv → Bool
  | .ev _ | .keyRef _ => false
  | _ => true

/-- the tree whose events are the expansion of the extended event (array.go / map.go /
string.go) -/
def xTree : XEv → ETree
  | .strRef s => .str s
  | .boolArr xs => .arr xs.length BT.bool (xs.map .bool)
  | .strArr xs => .arr xs.length BT.string (xs.map .str)
  | .numArr k xs => .arr xs.length k.baseType (xs.map (.num k))
  | .f32Arr xs => .arr xs.length BT.float32 (xs.map .f32)
  | .f64Arr xs => .arr xs.length BT.float64 (xs.map .f64)
  | .boolObj ms => .obj ms.length BT.bool (ms.map fun m => (m.1, .bool m.2))
  | .strObj ms => .obj ms.length BT.string (ms.map fun m => (m.1, .str m.2))
  | .numObj k ms => .obj ms.length k.baseType (ms.map fun m => (m.1, .num k m.2))
  | .f32Obj ms => .obj ms.length BT.float32 (ms.map fun m => (m.1, .f32 m.2))
  | .f64Obj ms => .obj ms.length BT.float64 (ms.map fun m => (m.1, .f64 m.2))
  | .ev _ => .null
  | .keyRef _ => .null

def strItem (s : Bytes) : UItem := .str (minM s.length) s

/-- the item the encoder writes for an extended event -/
def xItem : XEv → UItem
  | .strRef s => strItem s
  | .boolArr xs => toItem (xTree (.boolArr xs))
  | .boolObj ms => toItem (xTree (.boolObj ms))
  | .strArr xs => typedArr stringMarker (xs.map strItem)
  | .numArr k xs => typedArr (elemType k (minUT xs)) (xs.map (elemItem k (minUT xs)))
  | .f32Arr xs => typedArr float32Marker (xs.map .f32)
  | .f64Arr xs => typedArr float64Marker (xs.map .f64)
  | .strObj ms => typedObj stringMarker (ms.map fun m => (minM m.1.length, m.1, strItem m.2))
  | .numObj k ms =>
    typedObj (elemType k (minUT (ms.map (·.2))))
      (ms.map fun m => (minM m.1.length, m.1, elemItem k (minUT (ms.map (·.2))) m.2))
  | .f32Obj ms => typedObj float32Marker (ms.map fun m => (minM m.1.length, m.1, UItem.f32 m.2))
  | .f64Obj ms => typedObj float64Marker (ms.map fun m => (minM m.1.length, m.1, UItem.f64 m.2))
  | .ev _ => .null
  | .keyRef _ => .null

/-! ### the expansion tree: events, contract -/

theorem eventsList_map {α : Type} (xs : List α) (f : α → ETree) (g : α → Ev)
    (h : ∀ a, (f a).events = [g a]) : ETree.eventsList (xs.map f) = xs.map g := by
  induction xs with
  | nil => rfl
  | cons a xs ih => simp [ETree.eventsList, h a, ih]

theorem eventsMems_map {α : Type} (ms : List (Bytes × α)) (f : α → ETree) (g : α → Ev)
    (h : ∀ a, (f a).events = [g a]) :
    ETree.eventsMems (ms.map fun m => (m.1, f m.2)) = ms.flatMap (fun m => [.key m.1, g m.2]) := by
  induction ms with
  | nil => rfl
  | cons a ms ih => simp [ETree.eventsMems, h a.2, ih, List.flatMap_cons]

/-- the events of `xTree x` are the expansion of `x` -/
theorem xTree_events (x : XEv) (hx : isExtValue x = true) : (xTree x).events = x.expand := by
  cases x with
  | ev e => simp [isExtValue] at hx
  | keyRef s => simp [isExtValue] at hx
  | strRef s => rfl
  | boolArr xs => simp [xTree, ETree.events, XEv.expand, eventsList_map xs .bool .bool (fun _ => rfl)]
  | strArr xs => simp [xTree, ETree.events, XEv.expand, eventsList_map xs .str .str (fun _ => rfl)]
  | numArr k xs => simp [xTree, ETree.events, XEv.expand, eventsList_map xs (.num k) (.num k) (fun _ => rfl)]
  | f32Arr xs => simp [xTree, ETree.events, XEv.expand, eventsList_map xs .f32 .f32 (fun _ => rfl)]
  | f64Arr xs => simp [xTree, ETree.events, XEv.expand, eventsList_map xs .f64 .f64 (fun _ => rfl)]
  | boolObj ms => simp [xTree, ETree.events, XEv.expand, eventsMems_map ms .bool .bool (fun _ => rfl)]
  | strObj ms => simp [xTree, ETree.events, XEv.expand, eventsMems_map ms .str .str (fun _ => rfl)]
  | numObj k ms => simp [xTree, ETree.events, XEv.expand, eventsMems_map ms (.num k) (.num k) (fun _ => rfl)]
  | f32Obj ms => simp [xTree, ETree.events, XEv.expand, eventsMems_map ms .f32 .f32 (fun _ => rfl)]
  | f64Obj ms => simp [xTree, ETree.events, XEv.expand, eventsMems_map ms .f64 .f64 (fun _ => rfl)]

theorem wfList_map {α : Type} (bt : Nat) (xs : List α) (f : α → ETree)
    (h : ∀ a, (f a).matchesBT bt = true ∧ (f a).wf = true) : ETree.wfList bt (xs.map f) = true := by
  induction xs with
  | nil => rfl
  | cons a xs ih => simp [ETree.wfList, h a, ih]

theorem wfMems_map {α : Type} (bt : Nat) (ms : List (Bytes × α)) (f : α → ETree)
    (h : ∀ a, (f a).matchesBT bt = true ∧ (f a).wf = true) :
    ETree.wfMems bt (ms.map fun m => (m.1, f m.2)) = true := by
  induction ms with
  | nil => rfl
  | cons a ms ih => simp [ETree.wfMems, h a.2, ih]

theorem matches_num (k : NumKind) (v : Int) : (ETree.num k v).matchesBT k.baseType = true := by
  simp [ETree.matchesBT, Ev.matchesBT]

/-- the expansion obeys the Visitor contract -/
theorem xTree_wf (x : XEv) : (xTree x).wf = true := by
  cases x with
  | ev e => rfl
  | keyRef s => rfl
  | strRef s => rfl
  | boolArr xs =>
    simp [xTree, ETree.wf, ETree.lenOkFor, wfList_map BT.bool xs .bool (fun _ => ⟨rfl, rfl⟩)]
  | strArr xs =>
    simp [xTree, ETree.wf, ETree.lenOkFor, wfList_map BT.string xs .str (fun _ => ⟨rfl, rfl⟩)]
  | numArr k xs =>
    simp [xTree, ETree.wf, ETree.lenOkFor, wfList_map k.baseType xs (.num k) (fun _ => ⟨matches_num k _, rfl⟩)]
  | f32Arr xs =>
    simp [xTree, ETree.wf, ETree.lenOkFor, wfList_map BT.float32 xs .f32 (fun _ => ⟨rfl, rfl⟩)]
  | f64Arr xs =>
    simp [xTree, ETree.wf, ETree.lenOkFor, wfList_map BT.float64 xs .f64 (fun _ => ⟨rfl, rfl⟩)]
  | boolObj ms =>
    simp [xTree, ETree.wf, ETree.lenOkFor, wfMems_map BT.bool ms .bool (fun _ => ⟨rfl, rfl⟩)]
  | strObj ms =>
    simp [xTree, ETree.wf, ETree.lenOkFor, wfMems_map BT.string ms .str (fun _ => ⟨rfl, rfl⟩)]
  | numObj k ms =>
    simp [xTree, ETree.wf, ETree.lenOkFor, wfMems_map k.baseType ms (.num k) (fun _ => ⟨matches_num k _, rfl⟩)]
  | f32Obj ms =>
    simp [xTree, ETree.wf, ETree.lenOkFor, wfMems_map BT.float32 ms .f32 (fun _ => ⟨rfl, rfl⟩)]
  | f64Obj ms =>
    simp [xTree, ETree.wf, ETree.lenOkFor, wfMems_map BT.float64 ms .f64 (fun _ => ⟨rfl, rfl⟩)]

end SF.Ubjson.Enc
