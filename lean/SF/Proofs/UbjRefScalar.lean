/-
  UBJSON refinement: single steps of the parser on explicit configurations — scalars and
  strings.
-/
import SF.Proofs.UbjRefBase
import SF.Proofs.UbjNoPanicLoop
namespace SF.Ubjson.Parse
open SF SF.Ubjson SF.Ubjson.Syn
open StateType StateStep

/-- the result of completing a value whose state was pushed on `c :: S`: back in `c`; done
iff nothing is left on the stack -/
def ret (S : List St) (c : St) (VS : StateStack) (LS : List Int) (lc : Int) (vt : Nat) (E : List Ev)
    (rest : Bytes) : R := ⟨mk S c VS LS lc vt E, rest, S.isEmpty, none⟩

section fixed
variable (S : List St) (c : St) (VS : StateStack) (LS : List Int) (lc : Int) (vt : Nat) (E : List Ev)

theorem step_nil (b : Bytes) :
    execStep (mk (c :: S) ⟨stFixed, stNil⟩ VS LS lc vt E) b = ret S c VS LS lc vt (.null :: E) b := by
  simp [execStep, stepFixedValue, visit, popState, StateStack.pop, mk, ret]
theorem step_true (b : Bytes) :
    execStep (mk (c :: S) ⟨stFixed, stTrue⟩ VS LS lc vt E) b = ret S c VS LS lc vt (.bool true :: E) b := by
  simp [execStep, stepFixedValue, visit, popState, StateStack.pop, mk, ret]
theorem step_false (b : Bytes) :
    execStep (mk (c :: S) ⟨stFixed, stFalse⟩ VS LS lc vt E) b = ret S c VS LS lc vt (.bool false :: E) b := by
  simp [execStep, stepFixedValue, visit, popState, StateStack.pop, mk, ret]

theorem step_int8 (b0 : UInt8) (b : Bytes) :
    execStep (mk (c :: S) ⟨stFixed, stInt8⟩ VS LS lc vt E) (b0 :: b) =
      ret S c VS LS lc vt (.num .i8 (readInt8 b0) :: E) b := by
  simp [execStep, stepFixedValue, visit, popState, StateStack.pop, mk, ret]
theorem step_uint8 (b0 : UInt8) (b : Bytes) :
    execStep (mk (c :: S) ⟨stFixed, stUInt8⟩ VS LS lc vt E) (b0 :: b) =
      ret S c VS LS lc vt (.num .u8 b0.toNat :: E) b := by
  simp [execStep, stepFixedValue, visit, popState, StateStack.pop, mk, ret]

theorem step_char (a : Bytes) (ha : a.length = 1) (b : Bytes) :
    execStep (mk (c :: S) ⟨stFixed, stChar⟩ VS LS lc vt E) (a ++ b) =
      ret S c VS LS lc vt (.num .byte (beNat a) :: E) b := by
  have hc := collectP_nil (mk (c :: S) ⟨stFixed, stChar⟩ VS LS lc vt E) rfl a b 1 ha
  simp only [execStep, stepFixedValue]
  simp only [mk] at hc ⊢
  simp [hc, visit, popState, StateStack.pop, ret, mk]
theorem step_int16 (a : Bytes) (ha : a.length = 2) (b : Bytes) :
    execStep (mk (c :: S) ⟨stFixed, stInt16⟩ VS LS lc vt E) (a ++ b) =
      ret S c VS LS lc vt (.num .i16 (readInt16 a) :: E) b := by
  have hc := collectP_nil (mk (c :: S) ⟨stFixed, stInt16⟩ VS LS lc vt E) rfl a b 2 ha
  simp only [execStep, stepFixedValue]
  simp only [mk] at hc ⊢
  simp [hc, visit, popState, StateStack.pop, ret, mk]
theorem step_int32 (a : Bytes) (ha : a.length = 4) (b : Bytes) :
    execStep (mk (c :: S) ⟨stFixed, stInt32⟩ VS LS lc vt E) (a ++ b) =
      ret S c VS LS lc vt (.num .i32 (readInt32 a) :: E) b := by
  have hc := collectP_nil (mk (c :: S) ⟨stFixed, stInt32⟩ VS LS lc vt E) rfl a b 4 ha
  simp only [execStep, stepFixedValue]
  simp only [mk] at hc ⊢
  simp [hc, visit, popState, StateStack.pop, ret, mk]
theorem step_int64 (a : Bytes) (ha : a.length = 8) (b : Bytes) :
    execStep (mk (c :: S) ⟨stFixed, stInt64⟩ VS LS lc vt E) (a ++ b) =
      ret S c VS LS lc vt (.num .i64 (readInt64 a) :: E) b := by
  have hc := collectP_nil (mk (c :: S) ⟨stFixed, stInt64⟩ VS LS lc vt E) rfl a b 8 ha
  simp only [execStep, stepFixedValue]
  simp only [mk] at hc ⊢
  simp [hc, visit, popState, StateStack.pop, ret, mk]
theorem step_float32 (a : Bytes) (ha : a.length = 4) (b : Bytes) :
    execStep (mk (c :: S) ⟨stFixed, stFloat32⟩ VS LS lc vt E) (a ++ b) =
      ret S c VS LS lc vt (.f32 (readFloat32 a) :: E) b := by
  have hc := collectP_nil (mk (c :: S) ⟨stFixed, stFloat32⟩ VS LS lc vt E) rfl a b 4 ha
  simp only [execStep, stepFixedValue]
  simp only [mk] at hc ⊢
  simp [hc, visit, popState, StateStack.pop, ret, mk]
theorem step_float64 (a : Bytes) (ha : a.length = 8) (b : Bytes) :
    execStep (mk (c :: S) ⟨stFixed, stFloat64⟩ VS LS lc vt E) (a ++ b) =
      ret S c VS LS lc vt (.f64 (readFloat64 a) :: E) b := by
  have hc := collectP_nil (mk (c :: S) ⟨stFixed, stFloat64⟩ VS LS lc vt E) rfl a b 8 ha
  simp only [execStep, stepFixedValue]
  simp only [mk] at hc ⊢
  simp [hc, visit, popState, StateStack.pop, ret, mk]

end fixed

section str
variable (S : List St) (c : St) (VS : StateStack) (LS : List Int) (lc : Int) (vt : Nat) (E : List Ev)

theorem strWithLen_mk (ty : StateType) (s rest : Bytes) :
    strWithLen (mk (c :: S) ⟨ty, stWithLen⟩ VS (lc :: LS) s.length vt E) (s ++ rest) =
      ret S c VS LS lc vt (.str s :: E) rest := by
  unfold strWithLen
  cases s with
  | nil =>
    simp [mk, visit, strFin, popLenState, popLen, popState, StateStack.pop, Cbor.LenStack.pop, ret]
  | cons s0 s' =>
    have hc := collectP_nil (mk (c :: S) ⟨ty, stWithLen⟩ VS (lc :: LS) ((s0 :: s').length : Nat) vt E) rfl
      (s0 :: s') rest (s0 :: s').length rfl
    have h1 : ((((s0 :: s').length : Nat) : Int) == 0) = false := by simp; omega
    have h2 : ¬ ((((s0 :: s').length : Nat) : Int) < 0) := by omega
    simp only [mk] at hc ⊢
    simp only [h1, h2, Int.toNat_natCast, hc]
    simp [visit, strFin, popLenState, popLen, popState, StateStack.pop, Cbor.LenStack.pop, ret, mk]

theorem step_string (ty : StateType) (hty : ty = stString ∨ ty = stHighPrec) (w : LW) (s rest : Bytes)
    (h : w.fits s.length = true) :
    execStep (mk (c :: S) ⟨ty, stStart⟩ VS LS lc vt E) (lenWire w s.length ++ (s ++ rest)) =
      ret S c VS LS lc vt (.str s :: E) rest := by
  have hd : dispatch (mk (c :: S) ⟨ty, stStart⟩ VS LS lc vt E) (lenWire w s.length ++ (s ++ rest)) =
      stepString (mk (c :: S) ⟨ty, stStart⟩ VS LS lc vt E) (lenWire w s.length ++ (s ++ rest)) := by
    rcases hty with rfl | rfl <;> rfl
  rw [execStep_eq, hd, stepString_eq]
  have hl := stepLen_lenWire (c :: S) ⟨ty, stStart⟩ VS LS lc vt E w s.length h (s ++ rest) ⟨ty, stWithLen⟩
  have hcur : (mk (c :: S) ⟨ty, stStart⟩ VS LS lc vt E).state.current = ⟨ty, stStart⟩ := rfl
  simp only [hcur, St.withStep, hl]
  have := strWithLen_mk S c VS LS lc vt E ty s rest
  simp [mk] at this ⊢
  rw [this]
  simp [ret]

end str
end SF.Ubjson.Parse
