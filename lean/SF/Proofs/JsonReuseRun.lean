/-
  C17 for the JSON parser mirror: the loops respect the frame relation `Sim`
  (SF/Proofs/JsonReuseSim.lean) — `run`/`runA` (= `feed`), `finalize`, `Parse`, and the loop `U`
  (= `feedUntil`) of the pull decoder.
-/
import SF.Proofs.JsonReuseSim
import SF.Proofs.JsonChunk
import SF.Proofs.JsonDecUntil
set_option linter.unusedSimpArgs false
set_option linter.unusedVariables false
namespace SF.Json.ParseP
open SF SF.Json SF.Json.Parse SF.Json.Float

variable {E0 : List Ev} {n0 : Nat} {p q : P}

theorem Sim.wf (h : Sim E0 n0 p q) (hw : WF p) : WF q := by
  refine ⟨⟨?_, ?_, ?_⟩, ?_⟩
  · rw [h.st]; exact hw.inv.stack
  · intro hl
    rw [h.cs] at hl ⊢
    rw [h.req hl]; exact hw.inv.lit hl
  · intro hc
    rw [h.cs] at hc
    rw [h.lb]; exact hw.inv.num hc
  · rw [h.st, h.cs]; exact hw.shape

theorem Sim.cost (h : Sim E0 n0 p q) (b : Bytes) : cost q b = cost p b := by
  simp only [ParseP.cost, h.cs]

/-- composition with the equivalence `Eqv` (equal up to a dead `required`) -/
theorem Sim.eqv_right {q' : P} (h : Sim E0 n0 p q) (he : Eqv q q') : Sim E0 n0 p q' := by
  obtain ⟨r, rfl, hr⟩ := he
  exact ⟨h.st, h.cs, h.lb, h.esc, h.evs, h.nevs, h.fa, h.dbl, fun hl => by
    show r = p.required
    rw [hr (by rw [h.cs]; exact hl), h.req hl]⟩

theorem Sim.eqv_left {p' : P} (h : Sim E0 n0 p q) (he : Eqv p p') : Sim E0 n0 p' q := by
  obtain ⟨r, rfl, hr⟩ := he
  exact ⟨h.st, h.cs, h.lb, h.esc, h.evs, h.nevs, h.fa, h.dbl, fun hl => by
    show q.required = r
    have hl' : isLit p.currentState = true := hl
    rw [hr hl', h.req hl']⟩

/-! ## the feeding loop -/

/-- the whole loop respects the frame -/
theorem run_sim (f : Nat) (p q : P) (b : Bytes) (hw : WF p) (h : Sim E0 n0 p q) (hf : cost p b < f) :
    (run f q b).2 = (run f p b).2 ∧ Sim E0 n0 (run f p b).1 (run f q b).1 := by
  induction f generalizing p q b with
  | zero => omega
  | succ f ih =>
    simp only [run]
    by_cases hb : b = []
    · subst hb; simp only [List.isEmpty_nil, if_true]; exact ⟨trivial, h⟩
    · have hbe : b.isEmpty = false := by cases b <;> simp_all
      simp only [hbe, Bool.false_eq_true, if_false]
      obtain ⟨k1, k2, k3, k4, k5⟩ := execStep_sim h b hb hw
      rw [k1, k4]
      rcases step_cases p b hb hw.inv with hs | ⟨hs, h2, h3⟩
      · simp only [hs, if_true]; exact ⟨trivial, k5⟩
      · simp only [hs, Bool.false_eq_true, if_false]
        rw [k2]
        exact ih _ _ _ (execStep_wf p b hb hw).2 k5 (by omega)

theorem runA_sim (p q : P) (b : Bytes) (hw : WF p) (h : Sim E0 n0 p q) :
    (runA q b).2 = (runA p b).2 ∧ Sim E0 n0 (runA p b).1 (runA q b).1 := by
  unfold runA
  rw [h.cost b]
  exact run_sim _ p q b hw h (Nat.lt_succ_self _)

theorem runA_wf (p : P) (b : Bytes) (hw : WF p) : WF (runA p b).1 := by
  rw [← feedAll_run p b hw.inv]
  exact feed_wf _ p b hw

/-! ## end of input -/

theorem finalize_sim (h : Sim E0 n0 p q) (hw : WF p) :
    (finalize q).2 = (finalize p).2 ∧ Sim E0 n0 (finalize p).1 (finalize q).1 := by
  unfold finalize
  simp only [h.cs, h.lb]
  by_cases hn : p.currentState = .numberState
  · simp only [hn, beq_self_eq_true, if_true]
    rw [h.dbl hn]
    obtain ⟨k1, k2⟩ := reportNumber_sim h p.literalBuffer p.isDouble
    obtain ⟨_, evs, nevs, h2⟩ := reportNumber_spec p p.literalBuffer p.isDouble (hw.inv.num hn)
    generalize reportNumber q p.literalBuffer p.isDouble = rq at k1 k2
    generalize reportNumber p p.literalBuffer p.isDouble = rp at k1 k2 h2
    obtain ⟨q1, eq⟩ := rq
    obtain ⟨p1, ep⟩ := rp
    simp only at k1 k2 h2
    subst k1
    cases eq with
    | some e => exact ⟨rfl, k2⟩
    | none =>
      simp only
      have hp := popState_sim k2 (by rw [h2]; exact hw.inv.stack)
      rw [hp.st, hp.cs]
      split
      · exact ⟨rfl, hp⟩
      · exact ⟨rfl, hp⟩
  · have : (p.currentState == St.numberState) = false := by simpa using hn
    simp only [this, Bool.false_eq_true, if_false, h.st]
    split
    · exact ⟨rfl, h⟩
    · exact ⟨rfl, h⟩

/-! ## `Parse` -/

theorem Sim.setErr (h : Sim E0 n0 p q) (e e' : Option Err) : Sim E0 n0 { p with err := e } { q with err := e' } :=
  ⟨h.st, h.cs, h.lb, h.esc, h.evs, h.nevs, h.fa, h.dbl, h.req⟩

/-- what `Parse` needs of the two parser values it is called on: the same `inEscape`, and
`q` behind the frame; everything else is reset or dead -/
structure Sim0 (E0 : List Ev) (n0 : Nat) (p q : P) : Prop where
  esc : q.inEscape = p.inEscape
  evs : q.evs = p.evs ++ E0
  nevs : q.nevs = p.nevs + n0
  fa : q.failAt = p.failAt.map (· + n0)

theorem Sim0.reset (h : Sim0 E0 n0 p q) :
    Sim E0 n0 { p with states := [], literalBuffer := [], currentState := .startState }
      { q with states := [], literalBuffer := [], currentState := .startState } :=
  ⟨rfl, rfl, rfl, h.esc, h.evs, h.nevs, h.fa, fun hc => (by cases hc), fun hc => (by simp [isLit] at hc)⟩

theorem wf_reset (p : P) : WF { p with states := [], literalBuffer := [], currentState := .startState } :=
  ⟨by constructor <;> simp [isLit], Or.inl ⟨rfl, rfl⟩⟩

/-- THE FRAME THEOREM for `Parse`, relational form -/
theorem parse_sim (h : Sim0 E0 n0 p q) (b : Bytes) :
    (parse q b).2 = (parse p b).2 ∧ Sim E0 n0 (parse p b).1 (parse q b).1 ∧
    (parse q b).1.err = (parse p b).1.err := by
  have hw := wf_reset p
  have hs := h.reset
  have hwq := hs.wf hw
  rw [parse_eq_parseFrom, parse_eq_parseFrom]
  unfold parseFrom
  rw [feedAll_run _ _ hw.inv, feedAll_run _ _ hwq.inv]
  obtain ⟨k1, k2⟩ := runA_sim _ _ b hw hs
  have hw1 := runA_wf _ b hw
  generalize runA { q with states := [], literalBuffer := [], currentState := .startState } b = rq at k1 k2
  generalize runA { p with states := [], literalBuffer := [], currentState := .startState } b = rp at k1 k2 hw1
  obtain ⟨q1, eq⟩ := rq
  obtain ⟨p1, ep⟩ := rp
  simp only at k1 k2 hw1
  subst k1
  cases eq with
  | some e => exact ⟨rfl, k2.setErr _ _, rfl⟩
  | none =>
    simp only [parseTail]
    obtain ⟨j1, j2⟩ := finalize_sim k2 hw1
    exact ⟨j1, j2.setErr _ _, j1⟩

/-! ## `Write` per chunk + end of input -/

theorem write_sim (h : Sim E0 n0 p q) (hw : WF p) (b : Bytes) :
    (write q b).2 = (write p b).2 ∧ Sim E0 n0 (write p b).1 (write q b).1 := by
  unfold write
  rw [feedAll_run _ _ hw.inv, feedAll_run _ _ (h.wf hw).inv]
  obtain ⟨k1, k2⟩ := runA_sim p q b hw h
  generalize runA q b = rq at k1 k2
  generalize runA p b = rp at k1 k2
  obtain ⟨q1, eq⟩ := rq
  obtain ⟨p1, ep⟩ := rp
  simp only at k1 k2
  subst k1
  exact ⟨rfl, k2.setErr _ _⟩

/-- `Write` per chunk + end of input (any chunking) respects the frame -/
theorem writeChunks_sim (cs : List Bytes) : ∀ p q : P, Sim E0 n0 p q → WF p →
    (writeChunks q cs).2 = (writeChunks p cs).2 ∧ Sim E0 n0 (writeChunks p cs).1 (writeChunks q cs).1 := by
  induction cs with
  | nil => intro p q h hw; exact finalize_sim h hw
  | cons c cs ih =>
    intro p q h hw
    obtain ⟨k1, k2⟩ := write_sim h hw c
    have hw1 := write_wf p c hw
    simp only [writeChunks]
    generalize write q c = rq at k1 k2
    generalize write p c = rp at k1 k2 hw1
    obtain ⟨q1, eq⟩ := rq
    obtain ⟨p1, ep⟩ := rp
    simp only at k1 k2 hw1
    subst k1
    cases eq with
    | some e => exact ⟨rfl, k2⟩
    | none => exact ih p1 q1 k2 hw1

/-! ## the loop of the pull decoder -/

open SF.Json.DecP in
/-- THE LOOP `U` (= `feedUntil`) respects the frame -/
theorem U_sim (p : P) (b : Bytes) (hw : WF p) : ∀ q, Sim E0 n0 p q → SimR E0 n0 (U p b) (U q b) := by
  refine U_induct (motive := fun p b => ∀ q, Sim E0 n0 p q → SimR E0 n0 (U p b) (U q b)) ?_ ?_ p b hw
  · intro p _ q hq
    rw [U_nil, U_nil]
    exact ⟨rfl, rfl, rfl, hq⟩
  · intro p b hw hb ih q hq
    have hwq := hq.wf hw
    obtain ⟨k1, k2, k3, k4, k5⟩ := execStep_sim hq b hb hw
    cases hs : (execStep p b).1.err with
    | some e =>
      rw [U_err p b hb hw e hs, U_err q b hb hwq e (by rw [k4, hs])]
      exact ⟨k2, k3, k4, k5⟩
    | none =>
      have hsq : (execStep q b).1.err = none := by rw [k4, hs]
      have hfl : flag (execStep q b).1 = flag (execStep p b).1 := by
        unfold flag; rw [k3, k5.st]
      cases hf : flag (execStep p b).1 with
      | true =>
        rw [U_flag p b hb hw hs hf, U_flag q b hb hwq hsq (by rw [hfl, hf])]
        exact ⟨k2, rfl, k4, k5⟩
      | false =>
        rw [U_cont p b hb hw hs hf, U_cont q b hb hwq hsq (by rw [hfl, hf]), k2]
        exact ih hs hf _ k5

end SF.Json.ParseP
