/-
  C13 (typed-assignment clause), VALUE correctness for STRUCT targets — PROPERTY THEOREMS
  (namespace SF.UnfProofs.StructVal; helper files SF/Proofs/UnfSVPath.lean, UnfSVCore.lean, UnfSVFields.lean,
  UnfSVIfc.lean, namespace SF.Unf.SV).

  COVERED.  A struct type `S` (named or not) whose compiled field table agrees with the field list of the
  specification (`FM`, see below) and whose (flattened) fields are of
    * primitive kind: bool, string, every integer width, float32/64, named or not      (`fieldOK_prim`)   STAGE 1
    * `interface{}` (named or not): ANY well-formed value, generic clause                (`fieldOK_ifc`)    part of STAGE 2
    * struct type with fields of these kinds, NESTED to any depth                        (`fieldOK_struct`) STAGE 3
    * INLINED (`inline` / `squash`) structs to any depth: their fields are entries of the flattened table with
      longer field-index paths — nothing special                                                           STAGE 3
  For every document = ONE object (any announced length / element type) whose members are, in ANY order, known
  keys with values the specification assigns (numbers that fit are converted), UNKNOWN keys with well-formed
  values of ANY shape, DUPLICATE keys (every occurrence is assigned in stream order: the last one wins), keys
  by value or by reference, strings by value or by reference; for ANY old value of the target laid out like a
  value of `S` (`Shaped`); on ANY idle Unfolder: whenever the specification makes a claim, everything is
  accepted, the context is the one before `SetTarget` again (all six stacks, scratch buffers; only the key
  cache may have seen by-reference keys of generic maps) and the target holds a value with the SAME `norm`
  as the specified one (nil ≙ empty, hidden capacity dropped — for values without slices and maps `norm` is
  the identity), hence `Spec.sameVal got want = true`.

  NOT COVERED (no `FieldOK` instance yet; the fold `members_run` / `struct_run` takes any instance):
    fields of type `[]T`, `map[string]T`, `*T` (T primitive) — the rest of STAGE 2 — and containers of structs.
    Intended statements: see the end of this file.
  A struct with ONE field of an uncovered type is outside `FM` even if the document does not mention it.
-/
import SF.Proofs.UnfSVIfc
import SF.Proofs.UnfStrCheck
namespace SF.UnfProofs.StructVal
open SF SF.Unf SF.Unf.Spec SF.Unf.SV
open SF.Unf.Str (HasTy TyAt tyAtB tyAtB_sound hasTyB hasTyB_sound)

/-- the layout hypothesis on the old value of the target (as in `SF.UnfProofs.Struct.Shaped`) -/
abbrev Shaped (tbl : TypeTable) (t : GoType) (v : GoVal) : Prop := HasTy tbl t v

/-- THE STORE LEMMA of a compiled field unfolder `ru` for a field type `ft` (`SF.Unf.SV.FieldOK`): on ANY struct
frame, with the field pointer ANYWHERE in the target, the events of a well-formed value the specification
assigns rewrite exactly the sub-value at the pointer and restore the context. -/
abbrev FieldOK := SF.Unf.SV.FieldOK

/-- the compiled field table agrees with the specification's field list entry by entry (member name, field
index path) and every field unfolder has the store lemma of its field's type -/
abbrev FM := SF.Unf.SV.FM

/-- primitive fields (STAGE 1).  `hnb`: integer kinds are spelled `uint8`, never `byte` (the convention of
`GoType`; not forced — with `byte` the stored and the specified value differ in the spelling of the kind only,
which `sameVal` ignores but `norm` does not) -/
theorem fieldOK_prim (tbl : TypeTable) (ft : GoType) (k : PK) (hk : PK.ofExact? (ft.un tbl) = some k) (hki : k ≠ .ifc)
    (hnb : ∀ nk, ft.un tbl = .int nk → normKind nk = nk) : FieldOK tbl (.lifted (.prim k)) ft :=
  SF.Unf.SV.fieldOK_prim tbl ft k hk hki hnb

/-- `interface{}` fields -/
theorem fieldOK_ifc (tbl : TypeTable) (ft : GoType) (hu : ft.un tbl = .ifc) : FieldOK tbl (.lifted (.prim .ifc)) ft :=
  SF.Unf.SV.fieldOK_ifc tbl ft hu

/-- nested structs (STAGE 3) -/
theorem fieldOK_struct (tbl : TypeTable) (ft : GoType) (nm : String) (fs : List (String × String × GoType))
    (fields : Fields) (hu : ft.un tbl = .struct nm fs) (hFM : FM tbl ft fields (specFields tbl (fs.length + 64) fs 0)) :
    FieldOK tbl (.struct fields) ft :=
  SF.Unf.SV.fieldOK_struct tbl ft nm fs fields hu hFM

/-- the context `unfolderStruct.initState` makes of `c` for the target `v0` -/
def startCtx (c : Ctx) (tbl : TypeTable) (R : Reg) (fields : Fields) (v0 : GoVal) : Ctx :=
  structCtx { c with target := v0, env := tbl, reg := R } fields ⟨.target, []⟩

theorem startCtx_is_initState (c : Ctx) (tbl : TypeTable) (R : Reg) (fields : Fields) (v0 : GoVal) :
    initStateRU (.struct fields) (some ⟨.target, []⟩) { c with target := v0, env := tbl, reg := R } =
      .ok () (startCtx c tbl R fields v0) := init_struct _ _ _

/-- C13, STRUCT TARGETS, from a compiled field table (every hypothesis can be checked by evaluation: no tag
parser).  `sf` is ANY field list for the specification's member fold (`Spec.assignMembers`: for `Spec.assign`
on `S` it is `specFields …`), ONE reading `ip` of the specification suffices.  The run ends in EXACTLY `c` with the
new target (and `env`, `reg` as `SetTarget` set them), `cells` (none for the covered field kinds … any) and
key cache. -/
theorem object_into_struct_compiled (f : Nat) (tbl : TypeTable) (S : GoType) (fields : Fields) (sf : SpecFields)
    (R : Reg) (v0 : GoVal) (c : Ctx) (l : Int) (bt : Nat) (ms : List (Bool × Bytes × UTree)) (ip : Bool) (n : Nat)
    (want : GoVal) (hFM : FM tbl S fields sf) (hv0 : Shaped tbl S v0) (hidle : c.unfolder.stack = [])
    (hkc : Symbols.Inv c.keyCache) (hwf : ∀ m ∈ ms, m.2.2.wf = true)
    (hspec : assignMembers tbl ip n sf v0 (toSMems ms) = some want) :
    ∃ got cells' kc', run (f + 2) (UTree.obj l bt ms).events (startCtx c tbl R fields v0) =
        .ok () { c with target := got, env := tbl, reg := R, cells := cells', keyCache := kc' } ∧
      norm got = norm want ∧ sameVal got want = true ∧ Shaped tbl S got ∧ Symbols.Inv kc' := by
  obtain ⟨curM', T', cells', kc', hrun, hset, hn, ht, hk⟩ :=
    struct_run tbl S fields sf [] hFM f ip l bt ms n { c with target := v0, env := tbl, reg := R } v0 v0 want rfl
      (Or.inl hidle) hkc rfl hv0 rfl hwf hspec
  simp only [GoVal.set, Option.some.injEq] at hset
  subst hset
  exact ⟨curM', cells', kc', hrun, hn, by simp [sameVal, hn], ht, hk⟩

/-- what `Spec.expected` claims for a struct type on an object -/
theorem expected_struct (tbl : TypeTable) (S : GoType) (nm : String) (fs : List (String × String × GoType))
    (v0 want : GoVal) (bt : Nat) (ms : List (Bytes × STree)) (hS : S.un tbl = .struct nm fs)
    (h : expected tbl S v0 (.obj bt ms) = some want) :
    assignMembers tbl true 99999 (specFields tbl (fs.length + 64) fs 0) v0 ms = some want := by
  unfold expected at h
  split at h
  · rename_i a b ha _
    split at h
    · injection h with h
      subst h
      exact assign_struct_obj tbl true 99999 S nm fs v0 a bt ms hS ha
    · cases h
  · cases h

/-- `SetTarget` for a struct type = compile + `unfolderStruct.initState` -/
theorem setTarget_struct (tbl : TypeTable) (S : GoType) (nm : String) (fs : List (String × String × GoType))
    (v0 : GoVal) (c : Ctx) (fields : Fields) (R : Reg) (hS : S.un tbl = .struct nm fs)
    (hcomp : lookupReflUnfolder tbl typeFuel [] c.reg S = .ok (.struct fields, R)) :
    setTarget tbl S v0 c = .ok (startCtx c tbl R fields v0) := by
  have hno : lookupGoTypeUnfolder S = none := by
    cases S <;> first | rfl | (simp [GoType.un, resolveFuel, GoType.under] at hS)
  simp [setTarget, hno, hcomp, init_struct, startCtx]

/-- C13, STRUCT TARGETS.  `SetTarget(&v)` for `v` of a struct type `S` (holding any value laid out like an `S`)
on an idle Unfolder, then ONE object: whenever the specification makes a claim (`Spec.expected`), `SetTarget`
(`hcomp`: the type compiles to the field table `fields`) and the whole event sequence are accepted, the
Unfolder is EXACTLY as before `SetTarget` but for the target, `env` / `reg` (set by `SetTarget`), cells and key
cache, and the target holds the specified value for the oracle's comparison.

`hFM` — the compiled table agrees with `Spec.specFields` and all fields are of covered kinds — is FORCED:
 * `struct { A int " -"; B float64 }` (tag with a leading blank), `{"-": 5}`: `parseTags` compares the untrimmed
   name with "-", the specification the trimmed one: `Spec.expected` = `(0,f:0…)` (member unknown), the mirror
   (and the Go code) assign: `(5,f:0…)`                                                              [#eval]
 * `struct { A int "b"; B float64 }`: the specification claims `(5,…)` for `{"b": 5}`, `SetTarget` refuses the
   type (errDuplicateField)                                                                           [#eval]
`hwf` (number events carry values of their own Go type) is FORCED: `OnInt8(300)` into a `float64` field: the
specification claims 300.0 (`f:4072c0…`), the mirror converts `int8(300)` = 44 (`f:404600…`)          [#eval] -/
theorem unfold_object_into_struct (f : Nat) (tbl : TypeTable) (S : GoType) (nm : String)
    (fs : List (String × String × GoType)) (fields : Fields) (R : Reg) (v0 : GoVal) (c : Ctx) (t : UTree) (want : GoVal)
    (hS : S.un tbl = .struct nm fs)
    (hcomp : lookupReflUnfolder tbl typeFuel [] c.reg S = .ok (.struct fields, R))
    (hFM : FM tbl S fields (specFields tbl (fs.length + 64) fs 0))
    (hv0 : Shaped tbl S v0) (hidle : c.unfolder.stack = []) (hkc : Symbols.Inv c.keyCache) (hwf : t.wf = true)
    (hexp : expected tbl S v0 t.toS = some want) :
    ∃ c₀ got cells' kc', setTarget tbl S v0 c = .ok c₀ ∧
      run (f + 2) t.events c₀ =
        .ok () { c with target := got, env := tbl, reg := R, cells := cells', keyCache := kc' } ∧
      norm got = norm want ∧ sameVal got want = true ∧ Shaped tbl S got := by
  cases t with
  | obj l bt ms =>
    have hm := expected_struct tbl S nm fs v0 want bt _ hS (by simpa [UTree.toS] using hexp)
    have hwf' : ∀ m ∈ ms, m.2.2.wf = true := by
      simp only [UTree.wf, Bool.and_eq_true] at hwf
      exact wfMems_all bt ms hwf.2
    obtain ⟨got, cells', kc', hrun, hn, hs, ht, _⟩ :=
      object_into_struct_compiled f tbl S fields _ R v0 c l bt ms true 99999 want hFM hv0 hidle hkc hwf' hm
    exact ⟨_, got, cells', kc', setTarget_struct tbl S nm fs v0 c fields R hS hcomp, hrun, hn, hs, ht⟩
  | scalar s =>
    exfalso
    unfold expected at hexp
    rw [assign_struct_not_obj tbl true _ S nm fs v0 _ hS (by intro bt ms h; simp [UTree.toS] at h)] at hexp
    simp at hexp
  | strRef s =>
    exfalso
    unfold expected at hexp
    rw [assign_struct_not_obj tbl true _ S nm fs v0 _ hS (by intro bt ms h; simp [UTree.toS] at h)] at hexp
    simp at hexp
  | arr l bt xs =>
    exfalso
    unfold expected at hexp
    rw [assign_struct_not_obj tbl true _ S nm fs v0 _ hS (by intro bt ms h; simp [UTree.toS] at h)] at hexp
    simp at hexp

/-! ### non-vacuity -/

def noTbl : TypeTable := fun _ => none
def tIn : GoType := .struct "" [("X", "", .int .int), ("Y", "why", .string)]
/-- `struct { A int; In ",inline"; F float64 "f"; I interface{}; U MyU8; hidden int }` with
`In = struct { X int; Y string "why" }` and the named `type MyU8 uint8` -/
def tDemo : GoType :=
  .struct "" [("A", "", .int .int), ("In", ",inline", tIn), ("F", "f", .float64), ("I", "", .ifc),
    ("U", "", .named "MyU8" (.int .u8)), ("hidden", "", .int .int)]

/-- what `SetTarget` compiles it into (`#eval lookupReflUnfolder noTbl typeFuel [] [] tDemo`; the kernel cannot run
the tag parser): the inlined struct flattened with two-step offsets -/
def demoFields : Fields := [
  ([0x61], [0], .lifted (.prim (.num .int))), ([0x78], [1, 0], .lifted (.prim (.num .int))),
  ([0x77, 0x68, 0x79], [1, 1], .lifted (.prim .string)), ([0x66], [2], .lifted (.prim .f64)),
  ([0x69], [3], .lifted (.prim .ifc)), ([0x75], [4], .lifted (.prim (.num .u8)))]

/-- … and the specification's field list (`#eval specFields noTbl 70 … 0`) -/
def demoSF : SpecFields := [
  ([0x61], [0], .int .int), ([0x78], [1, 0], .int .int), ([0x77, 0x68, 0x79], [1, 1], .string), ([0x66], [2], .float64),
  ([0x69], [3], .ifc), ([0x75], [4], .named "MyU8" (.int .u8))]

theorem demoFM : FM noTbl tDemo demoFields demoSF :=
  .cons _ _ _ _ _ _ (fieldOK_prim _ _ _ rfl (by decide) (by intro nk h; cases h; rfl)) (tyAtB_sound [0] _ _ rfl) <|
  .cons _ _ _ _ _ _ (fieldOK_prim _ _ _ rfl (by decide) (by intro nk h; cases h; rfl)) (tyAtB_sound [1, 0] _ _ rfl) <|
  .cons _ _ _ _ _ _ (fieldOK_prim _ _ _ rfl (by decide) (by intro nk h; cases h)) (tyAtB_sound [1, 1] _ _ rfl) <|
  .cons _ _ _ _ _ _ (fieldOK_prim _ _ _ rfl (by decide) (by intro nk h; cases h)) (tyAtB_sound [2] _ _ rfl) <|
  .cons _ _ _ _ _ _ (fieldOK_ifc _ _ rfl) (tyAtB_sound [3] _ _ rfl) <|
  .cons _ _ _ _ _ _ (fieldOK_prim _ _ _ rfl (by decide) (by intro nk h; cases h; rfl)) (tyAtB_sound [4] _ _ rfl) <|
  .nil

/-- the old value `{A: 7, In: {X: 8, Y: "o"}, F: 1.0…, I: nil, U: 9, hidden: 3}` -/
def demoOld : GoVal := .struct [.int .int 7, .struct [.int .int 8, .str [0x6f]], .f64 0, .ifcNil, .int .u8 9, .int .int 3]

/-- `{"x": 2, "zz": {"deep": [1, {}]}, "f": 3 (int8), "i": [1, "s"], "x": 4, "u": 200 (uint16), "why"(by ref): "t"(by ref)}`:
an inlined field twice (the last one wins), an unknown member with a nested value, conversions, a generic value -/
def demoDoc : List (Bool × Bytes × UTree) := [
  (false, [0x78], .scalar (.num .i8 2)),
  (false, [0x7a, 0x7a], .obj 1 0 [(false, [0x64], .arr 2 0 [.scalar (.num .i8 1), .obj 0 0 []])]),
  (false, [0x66], .scalar (.num .i8 3)),
  (false, [0x69], .arr 2 0 [.scalar (.num .i8 1), .strRef [0x73]]),
  (false, [0x78], .scalar (.num .i64 4)),
  (false, [0x75], .scalar (.num .u16 200)),
  (true, [0x77, 0x68, 0x79], .strRef [0x74])]

/-- ALL hypotheses of `object_into_struct_compiled` hold for it (both readings of the specification make the
same claim: `A` = 7 and `hidden` = 3 untouched, `X` = 4, `Y` = "t", `F` = 3.0, `I` = []any{int8(1), "s"}, `U` = 200) … -/
example : FM noTbl tDemo demoFields demoSF ∧ Shaped noTbl tDemo demoOld ∧ (newUnfolder).unfolder.stack = [] ∧
    Symbols.Inv (newUnfolder).keyCache ∧ (∀ m ∈ demoDoc, m.2.2.wf = true) ∧
    (match assignMembers noTbl true 50 demoSF demoOld (toSMems demoDoc),
           assignMembers noTbl false 50 demoSF demoOld (toSMems demoDoc) with
     | some (.struct [.int .int 7, .struct [.int .int 4, .str [0x74]], .f64 _,
                      .ifc (.slice .ifc [.ifc (.int .i8 1), .ifc (.str [0x73])] []), .int _ 200, .int .int 3]),
       some (.struct [.int .int 7, .struct [.int .int 4, .str [0x74]], .f64 _,
                      .ifc (.slice .ifc [.ifc (.int .i8 1), .ifc (.str [0x73])] []), .int _ 200, .int .int 3]) => true
     | _, _ => false) = true :=
  ⟨demoFM, hasTyB_sound _ _ _ (by decide +kernel), rfl, Symbols.inv_init 0, by decide +kernel, by decide +kernel⟩

/-- … and the mirror, evaluated from `unfolderStruct.initState` on a new Unfolder: accepted, idle, the target as
specified -/
example :
    (match run typeFuel (UTree.obj 7 0 demoDoc).events (startCtx newUnfolder noTbl [] demoFields demoOld) with
     | .ok _ c₁ =>
       c₁.depths == [0, 0, 0, 0, 0, 0] && c₁.valueBuffer.arrays.size == 0 &&
       (match c₁.target with
        | .struct [.int .int 7, .struct [.int .int 4, .str [0x74]], .f64 _,
                   .ifc (.slice .ifc [.ifc (.int .i8 1), .ifc (.str [0x73])] []), .int .u8 200, .int .int 3] => true
        | _ => false)
     | _ => false) = true := by decide +kernel

/-! ### LEFT UNPROVED (intended statements; each is ONE more instance of the store lemma — `members_run`,
`struct_run`, `object_into_struct_compiled`, `unfold_object_into_struct` take any instance unchanged)

  theorem fieldOK_arr (tbl ft e k) (hu : ft.un tbl = .slice e) (hk : PK.ofType? tbl e = some k) (hki : k ≠ .ifc)
      (hnb : ∀ nk, e.un tbl = .int nk → normKind nk = nk) : FieldOK tbl (.lifted (.arr k)) ft
    -- `[]T` fields: `run_array_into_sliceK` (UnfTyValArr.lean) re-stated on a pointer into the target instead of the
    -- target itself, `reportChildDone` answered by the struct frame (`report_one`, as in `objEnd_struct`); value:
    -- `norm (sliceTargetFin oldM ws) = norm (.slice e wants [])`, element type of `oldM` = `e` by `HasTy.sliceOf`.
  theorem fieldOK_map (tbl ft e k) (hu : ft.un tbl = .map e) (hk : PK.ofType? tbl e = some k) (hki : k ≠ .ifc)
      (hnb : …) : FieldOK tbl (.lifted (.map k)) ft
    -- `map[string]T` fields: `run_object_into_mapK` likewise; merge into the old entries: needs
    -- `normMems (mapSet ms key v) = mapSet (normMems ms) key (norm v)` (the old entries of mirror and specification
    -- have equal `norm` only, `FieldOK` hands over `norm oldM = norm oldS`); by-reference keys move the key cache.
  theorem fieldOK_ptr (tbl ft e k) (hu : ft.un tbl = .ptr e) (hk : PK.ofExact? (e.un tbl) = some k) (hki : k ≠ .ifc)
      (hnb : …) : FieldOK tbl (.ptr e (.lifted (.prim k))) ft
    -- `*T` fields: `unfolderReflPtr`: null ↦ `.ptrNil e`; otherwise a fresh cell (`cells'` = one more cell — this
    -- is why `upd` lets the cells change), the scalar stored there, `.ptr e w` stored at the field.
  and, for containers of structs / pointers to structs, `FieldOK` instances with the pointer into a CELL or a slice
  element (`FieldOK` as stated fixes the root `.target`; `deref`/`storeAt` of UnfTyMem.lean generalise it).
  Also not proved: that `fieldUnfolders` (the compiler) yields a table in `FM` with `Spec.specFields` for every type
  whose tags have no leading/trailing blanks around "-" and no duplicate member names (the two evaluated
  counterexamples above are the only disagreements found); `hFM` / `hcomp` are hypotheses instead.
  LITERAL equality `got = want`: holds whenever `norm` is the identity on both (no slices / maps inside, e.g. all
  stage-1 types) but is not derived here: `FieldOK` transports `norm`-equality only. -/

end SF.UnfProofs.StructVal
