/-
  C02 for the UBJSON parser mirror, part 3: the SPLIT LAW of the array steps
  (`stepArrayInit`, `stepArrayDyn`, `stepArrayCount`, `stepArrayTyped`) and of the
  typed-container header (`stepType`, `stepTypeLenHeader`).
  Property theorems: SF/Proofs/UbjChunkTop.lean.
-/
import SF.Proofs.UbjChunkSplitA
namespace SF.Ubjson.Chunk
open SF SF.Ubjson SF.Ubjson.Parse
open StateType StateStep

set_option hygiene false in
/-- split on the outcome of a visitor call (`hve`) -/
macro "cvsplit " q:term : tactic =>
  `(tactic| (rcases verr_cases $q with hve | hve <;> rw [hve] <;> simp only []))

theorem ne_nil_of {p : P} {a : Bytes} (hm : a ≠ [] ∨ pending p = true) (hp : pending p = false) : a ≠ [] := by
  rcases hm with h | h
  · exact h
  · rw [hp] at h; cases h

/-- a step that reads its length with `stepLen` and returns it with `done := false` -/
theorem splitF_of_stepLen {f : P → Bytes → R} {p : P} {a : Bytes} (cont : St) (ha : a ≠ [])
    (hp : pending p = false)
    (hf : ∀ (m : UInt8) (buf c : Bytes), (m ≠ noMarker ∨ m = p.marker) →
      f { p with marker := m, buffer := buf } c =
        { stepLen { p with marker := m, buffer := buf } c cont with done := false }) :
    SplitF f p a := by
  have hf0 : ∀ c, f p c = { stepLen p c cont with done := false } := fun c => hf p.marker p.buffer c (Or.inr rfl)
  rcases stepLen_split p a cont ha with hE | ⟨m, buf, hm, e1, e2⟩
  · left; intro b; rw [hf0, hf0]; exact (hE b).setDone false
  · right
    refine ⟨{ p with marker := m, buffer := buf }, by rw [hf0, e1], rfl, hp, fun b hb => ?_⟩
    rw [hf m buf b (Or.inl hm), hf0, e2 b hb]

/-! ### stepArrayInit, stepArrayDyn -/

theorem stepArrayInit_ext (p : P) (x : UInt8) (xs b : Bytes) :
    Ext (stepArrayInit p (x :: xs)) (stepArrayInit p (x :: (xs ++ b))) b := by
  unfold stepArrayInit
  simp only []
  csplit
  · eleaf
  csplit
  · eleaf
  · simp only [visit_eq]; eleaf

theorem stepArrayDyn_ext (p : P) (x : UInt8) (xs b : Bytes) :
    Ext (stepArrayDyn p (x :: xs)) (stepArrayDyn p (x :: (xs ++ b))) b := by
  unfold stepArrayDyn
  simp only []
  csplit
  · simp only [visit_eq]
    cvsplit p <;> eleaf
  · exact (stepValue_ext _ x xs b).setDone false

/-! ### stepArrayCount -/

theorem acContent_ext (l : Int) (a b : Bytes) (p : P) (h : l ≠ 0 → a ≠ []) :
    Ext (acContent l a p) (acContent l (a ++ b) p) b := by
  unfold acContent
  csplit
  · simp only [visit_eq]
    cvsplit p <;> eleaf
  · have hl : l ≠ 0 := by simpa using hsp
    cases a with
    | nil => exact absurd rfl (h hl)
    | cons x xs =>
      simp only [List.cons_append]
      csplit
      · eleaf
      · exact (stepValue_ext _ x xs b).setDone false

theorem stepArrayCount_split (p : P) (a : Bytes) (hm : a ≠ [] ∨ pending p = true)
    (ht : p.state.current.type = stArrayCount) (hI : Inv p) : SplitF stepArrayCount p a := by
  by_cases h1 : (p.state.current.step == stStart) = true
  · have hs : p.state.current.step = stStart := by simpa using h1
    have hp : pending p = false := by simp [pending, ht, hs]
    refine splitF_of_stepLen (p.state.current.withStep stWithLen) (ne_nil_of hm hp) hp ?_
    intro m buf c _
    rw [stepArrayCount_eq]
    simp only [h1, if_true]
  by_cases h2 : (p.state.current.step == stWithLen) = true
  · have hs : p.state.current.step = stWithLen := by simpa using h2
    have hl : 0 ≤ p.length.current := hI.cur (by simp [crit, ht, hs])
    have hv : ∀ c, stepArrayCount p c =
        (let (q, err) := visit (setStep p stCont) (.arrStart p.length.current BT.any)
         if err.isSome || (p.length.current > 0 && c.isEmpty) then { p := q, rest := c, err := err }
         else acContent p.length.current c q) := by
      intro c
      rw [stepArrayCount_eq]
      simp only [h1, h2, if_true, if_false, Bool.false_eq_true]
    rcases verr_cases (setStep p stCont) with hve | hve
    · by_cases hpk : p.length.current > 0 ∧ a = []
      · -- nothing to read yet: the start event is delivered, the content waits
        obtain ⟨hl0, ha⟩ := hpk
        subst ha
        right
        have hd : decide (p.length.current > 0) = true := by simpa using hl0
        refine ⟨addEv (setStep p stCont) (.arrStart p.length.current BT.any), ?_, rfl, ?_, fun b hb => ?_⟩
        · rw [hv]
          simp only [visit_eq, hve, hd, Option.isSome_none, List.isEmpty_nil, Bool.and_self, Bool.or_true, if_true]
        · have : ¬ p.length.current = 0 := by omega
          simp [pending, addEv, setStep, setCurrent, ht, this]
        · have hbe : b.isEmpty = false := by cases b <;> simp_all
          rw [List.nil_append, hv, stepArrayCount_eq]
          simp only [visit_eq, hve, hbe, Option.isSome_none, Bool.and_false, Bool.or_false, Bool.false_eq_true,
            if_false]
          rfl
      · left
        intro b
        have hne : p.length.current ≠ 0 → a ≠ [] := by
          intro h0 hc
          exact hpk ⟨by omega, hc⟩
        have hc1 : ∀ c : Bytes, (p.length.current ≠ 0 → c ≠ []) →
            (decide (p.length.current > 0) && c.isEmpty) = false := by
          intro c hc
          by_cases h0 : p.length.current = 0
          · simp [h0]
          · have : c.isEmpty = false := by
              have := hc h0
              cases c <;> simp_all
            simp [this]
        rw [hv, hv]
        simp only [visit_eq, hve, hc1 a hne,
          hc1 (a ++ b) (fun h0 hc => hne h0 (List.append_eq_nil_iff.mp hc).1),
          Option.isSome_none, Bool.or_false, Bool.false_eq_true, if_false]
        exact acContent_ext _ _ _ _ hne
    · left
      intro b
      rw [hv, hv]
      simp only [visit_eq, hve, Option.isSome_some, Bool.true_or, if_true]
      eleaf
  · have hv : ∀ c, stepArrayCount p c = acContent p.length.current c p := by
      intro c
      rw [stepArrayCount_eq]
      simp only [h1, h2, if_false, Bool.false_eq_true]
    left
    intro b
    rw [hv, hv]
    refine acContent_ext _ _ _ _ ?_
    intro h0 hc
    subst hc
    rcases hm with hm | hm
    · exact hm rfl
    · have h2' : ¬ p.state.current.step = stWithLen := by simpa using h2
      simp [pending, ht, h2', h0] at hm

/-! ### the typed-container header -/

theorem stepType_ext (p : P) (x : UInt8) (xs b : Bytes) (cont : St) :
    Ext (stepType p (x :: xs) cont) (stepType p (x :: (xs ++ b)) cont) b := by
  unfold stepType
  simp only []
  cases markerToStartState x with
  | none => simp only []; eleaf
  | some st =>
    simp only []
    csplit <;> eleaf

/-- a step that runs `stepTypeLenHeader` and returns its result with `done := false` -/
theorem splitF_of_header {f : P → Bytes → R} {p : P} {a : Bytes} (c0 : StateStep) (ha : a ≠ [])
    (hp : pending p = false)
    (hf : ∀ (m : UInt8) (buf c : Bytes), (m ≠ noMarker ∨ m = p.marker) →
      f { p with marker := m, buffer := buf } c =
        { stepTypeLenHeader { p with marker := m, buffer := buf } c c0 with done := false }) :
    SplitF f p a := by
  have hf0 : ∀ c, f p c = { stepTypeLenHeader p c c0 with done := false } :=
    fun c => hf p.marker p.buffer c (Or.inr rfl)
  cases hs : p.state.current.step
  case stStart =>
    left; intro b
    cases a with
    | nil => exact absurd rfl ha
    | cons x xs =>
      rw [hf0, hf0]
      simp only [stepTypeLenHeader, hs, List.cons_append]
      exact (stepType_ext _ x xs b _).setDone false
  case stWithType0 =>
    left; intro b
    cases a with
    | nil => exact absurd rfl ha
    | cons x xs =>
      rw [hf0, hf0]
      simp only [stepTypeLenHeader, hs, List.cons_append]
      csplit <;> eleaf
  case stWithType1 =>
    refine splitF_of_stepLen (p.state.current.withStep c0) ha hp ?_
    intro m buf c hm
    rw [hf m buf c hm]
    simp only [stepTypeLenHeader, hs]
  all_goals
    left; intro b
    rw [hf0, hf0]
    simp only [stepTypeLenHeader, hs]
    eleaf

/-! ### stepArrayTyped -/

theorem atContent_ext (l : Int) (a b : Bytes) (p : P) : Ext (atContent l a p) (atContent l (a ++ b) p) b := by
  unfold atContent
  csplit
  · simp only [visit_eq]
    cvsplit p <;> eleaf
  · eleaf

theorem stepArrayTyped_split (p : P) (a : Bytes) (hm : a ≠ [] ∨ pending p = true)
    (ht : p.state.current.type = stArrayTyped) : SplitF stepArrayTyped p a := by
  by_cases h1 : (p.state.current.step == stStart || p.state.current.step == stWithType0
      || p.state.current.step == stWithType1) = true
  · have hp : pending p = false := by
      simp only [Bool.or_eq_true, beq_iff_eq] at h1
      rcases h1 with (hs | hs) | hs <;> simp [pending, ht, hs]
    refine splitF_of_header stWithLen (ne_nil_of hm hp) hp ?_
    intro m buf c _
    rw [stepArrayTyped_eq]
    simp only [h1, if_true]
  · left
    intro b
    rw [stepArrayTyped_eq, stepArrayTyped_eq]
    simp only [h1, if_false, Bool.false_eq_true]
    csplit
    · simp only [visit_eq]
      cvsplit (setStep p stCont)
      · exact atContent_ext _ _ _ _
      · eleaf
    · exact atContent_ext _ _ _ _

end SF.Ubjson.Chunk
