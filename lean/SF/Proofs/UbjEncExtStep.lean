/-
  One extended event of the UBJSON encoder, executed: state afterwards, bytes, well-formedness
  and value of the item written.
-/
import SF.Proofs.UbjEncExtEv
namespace SF.Ubjson.Enc
open SF SF.Ubjson SF.Ubjson.Wire
open SF.Cbor.Enc (small smallList smallMems)

/-! ## execution -/

theorem isWrites_typedArray {α : Type} (t : UInt8) (xs : List α) (elem : α → List Act)
    (h : ∀ a, isWrites (elem a) = true) : isWrites (typedArray t xs elem) = true := by
  unfold typedArray
  split
  · rfl
  · simp [onArray, onTypedStruct, isWrites, isWrites_writeLen, isWrites_flatMap xs elem h]

theorem isWrites_typedObject {α : Type} (t : UInt8) (ms : List (Bytes × α)) (elem : α → List Act)
    (h : ∀ a, isWrites (elem a) = true) : isWrites (typedObject t ms elem) = true := by
  unfold typedObject
  split
  · rfl
  · simp only [onObject, onTypedStruct, isWrites, isWrites_append, isWrites_writeLen, Bool.true_and]
    exact isWrites_flatMap ms _ (fun m => by simp [isWrites_string, h])

theorem writesOf_start (m : UInt8) (len : Int) : writesOf (writeByte m ++ optionalCount len) = startChunks m len := by
  simp only [writeByte, optionalCount, List.cons_append, List.nil_append, writesOf, startChunks]
  split <;> rfl

theorem lenAfter_start (ls : LenStack) (m : UInt8) (len : Int) :
    lenAfter ls (writeByte m ++ optionalCount len) = ls.push len := by
  simp only [writeByte, optionalCount, List.cons_append, List.nil_append, lenAfter]
  split
  · rfl
  · simp only [lenAfter]
    exact lenAfter_isWrites _ _ (isWrites_writeLen len)

theorem writesOf_finished (p : Int) (m : UInt8) : writesOf (onFinished p m) = endChunks m p := by
  simp only [onFinished, writesOf, endChunks]
  split <;> rfl

theorem lenAfter_finished (ls : LenStack) (len p : Int) (m : UInt8) :
    lenAfter (ls.push len) (onFinished p m) = ls := by
  simp only [onFinished, lenAfter, push_pop]
  split <;> rfl

theorem writesOf_arrStart (len : Int) : writesOf (onArrayStart len) = startChunks arrStartMarker len :=
  writesOf_start _ _
theorem writesOf_objStart (len : Int) : writesOf (onObjectStart len) = startChunks objStartMarker len :=
  writesOf_start _ _
theorem lenAfter_arrStart (ls : LenStack) (len : Int) : lenAfter ls (onArrayStart len) = ls.push len :=
  lenAfter_start _ _ _
theorem lenAfter_objStart (ls : LenStack) (len : Int) : lenAfter ls (onObjectStart len) = ls.push len :=
  lenAfter_start _ _ _

theorem lenAfter_boolArray (ls : LenStack) (xs : List Bool) : lenAfter ls (onBoolArray xs) = ls := by
  simp only [onBoolArray, lenAfter_append, lenAfter_arrStart]
  rw [lenAfter_isWrites _ _ (isWrites_flatMap xs onBool isWrites_onBool), lenAfter_finished]

theorem lenAfter_boolObject (ls : LenStack) (ms : List (Bytes × Bool)) : lenAfter ls (onBoolObject ms) = ls := by
  unfold onBoolObject
  split
  · rfl
  · simp only [lenAfter_append, lenAfter_objStart]
    rw [lenAfter_isWrites _ _ (isWrites_flatMap ms _ (fun m => by simp [isWrites_string, isWrites_onBool])),
      lenAfter_finished]

/-- the actions of an extended value event do not depend on the length stack … -/
theorem acts_ext (ls : LenStack) (x : XEv) (hx : isExtValue x = true) : acts ls x = acts {} x := by
  cases x <;> first | rfl | simp [isExtValue] at hx

/-- … and leave it as it was -/
theorem lenAfter_ext (ls : LenStack) (x : XEv) (hx : isExtValue x = true) : lenAfter ls (acts {} x) = ls := by
  cases x with
  | ev e => simp [isExtValue] at hx
  | keyRef s => simp [isExtValue] at hx
  | strRef s => exact lenAfter_isWrites _ _ (isWrites_string s true)
  | boolArr xs => exact lenAfter_boolArray ls xs
  | boolObj ms => exact lenAfter_boolObject ls ms
  | strArr xs => exact lenAfter_isWrites _ _ (isWrites_typedArray _ xs _ (fun a => isWrites_string a false))
  | numArr k xs =>
    simp only [acts, numArray_eq]
    exact lenAfter_isWrites _ _ (isWrites_typedArray _ xs _ (isWrites_elemActs k _))
  | f32Arr xs => exact lenAfter_isWrites _ _ (isWrites_typedArray _ xs _ (fun a => isWrites_float32 a false))
  | f64Arr xs => exact lenAfter_isWrites _ _ (isWrites_typedArray _ xs _ (fun a => isWrites_float64 a false))
  | strObj ms => exact lenAfter_isWrites _ _ (isWrites_typedObject _ ms _ (fun a => isWrites_string a false))
  | numObj k ms =>
    simp only [acts, numObject_eq]
    exact lenAfter_isWrites _ _ (isWrites_typedObject _ ms _ (isWrites_elemActs k _))
  | f32Obj ms => exact lenAfter_isWrites _ _ (isWrites_typedObject _ ms _ (fun a => isWrites_float32 a false))
  | f64Obj ms => exact lenAfter_isWrites _ _ (isWrites_typedObject _ ms _ (fun a => isWrites_float64 a false))

/-- the Write calls of an extended value event -/
def xchunks (x : XEv) : List Bytes := writesOf (acts {} x)

/-- ONE EXTENDED EVENT on a never-failing encoder, in ANY state: it succeeds, issues the writes
`xchunks x` (a function of the event only) and leaves the length stack as it was -/
theorem step_ext (s : Enc) (hf : s.w.failFrom = none) (x : XEv) (hx : isExtValue x = true) :
    step s x = (s.emits (xchunks x), true) := by
  rw [step, acts_ext _ x hx, exec_ok _ _ hf, lenAfter_ext _ x hx]
  rfl

/-! ## bytes -/

theorem chunksList_map {α : Type} (xs : List α) (f : α → ETree) (g : α → List Act)
    (h : ∀ a, chunks (f a) = writesOf (g a)) : chunksList (xs.map f) = writesOf (xs.flatMap g) := by
  induction xs with
  | nil => rfl
  | cons a xs ih => simp [chunksList, List.flatMap_cons, h a, ih]

theorem chunksMems_map {α : Type} (ms : List (Bytes × α)) (f : α → ETree) (g : α → List Act)
    (h : ∀ a, chunks (f a) = writesOf (g a)) :
    chunksMems (ms.map fun m => (m.1, f m.2)) = writesOf (ms.flatMap fun m => string m.1 false ++ g m.2) := by
  induction ms with
  | nil => rfl
  | cons a ms ih => simp [chunksMems, List.flatMap_cons, h a.2, ih, scalarActs, onKey]

/-- a bool array issues exactly the writes of its expansion -/
theorem boolArr_chunks (xs : List Bool) : xchunks (.boolArr xs) = chunks (xTree (.boolArr xs)) := by
  simp only [xchunks, acts, onBoolArray, writesOf_append, writesOf_arrStart, writesOf_finished,
    xTree, chunks, chunksList_map xs .bool onBool (fun _ => rfl), List.append_assoc]

theorem boolObj_flat (ms : List (Bytes × Bool)) :
    (xchunks (.boolObj ms)).flatten = (chunks (xTree (.boolObj ms))).flatten := by
  simp only [xchunks, acts, onBoolObject]
  split
  · rename_i h
    have : ms = [] := by simpa using h
    subst this
    rfl
  · simp only [writesOf_append, writesOf_objStart, writesOf_finished,
      xTree, chunks, chunksMems_map ms .bool onBool (fun _ => rfl), List.append_assoc]

theorem flat_strItem (s : Bytes) : flat (string s false) = (strItem s).payload := by
  simp [flat_string, mk, strItem, UItem.payload]

/-- the bytes of an extended value event are the wire form of `xItem x` -/
theorem xchunks_wire (x : XEv) (hx : isExtValue x = true) : (xchunks x).flatten = (xItem x).wire := by
  cases x with
  | ev e => simp [isExtValue] at hx
  | keyRef s => simp [isExtValue] at hx
  | strRef s =>
    have := flat_string s true
    simp only [flat] at this
    simp [xchunks, acts, onString, this, mk, xItem, strItem, UItem.wire, UItem.marker, UItem.payload]
  | boolArr xs => rw [boolArr_chunks, chunks_wire _ (xTree_wf _)]; rfl
  | boolObj ms => rw [boolObj_flat, chunks_wire _ (xTree_wf _)]; rfl
  | strArr xs => exact flat_typedArray stringMarker xs _ strItem flat_strItem
  | numArr k xs =>
    simp only [xchunks, acts, numArray_eq]
    exact flat_typedArray _ xs _ _ (flat_elemActs k _)
  | f32Arr xs =>
    exact flat_typedArray float32Marker xs (float32 · false) UItem.f32 (fun b => by simp [flat_float32, mk, UItem.payload])
  | f64Arr xs =>
    exact flat_typedArray float64Marker xs (float64 · false) UItem.f64 (fun b => by simp [flat_float64, mk, UItem.payload])
  | strObj ms => exact flat_typedObject stringMarker ms _ strItem flat_strItem
  | numObj k ms =>
    simp only [xchunks, acts, numObject_eq]
    exact flat_typedObject _ ms _ _ (flat_elemActs k _)
  | f32Obj ms =>
    exact flat_typedObject float32Marker ms (float32 · false) UItem.f32 (fun b => by simp [flat_float32, mk, UItem.payload])
  | f64Obj ms =>
    exact flat_typedObject float64Marker ms (float64 · false) UItem.f64 (fun b => by simp [flat_float64, mk, UItem.payload])

/-! ## well-formedness -/

theorem smallList_map {α : Type} (xs : List α) (f : α → ETree) (h : smallList (xs.map f) = true) :
    ∀ a ∈ xs, small (f a) = true := by
  induction xs with
  | nil => intro a ha; simp at ha
  | cons b xs ih =>
    simp only [List.map_cons, smallList, Bool.and_eq_true] at h
    intro a ha
    rcases List.mem_cons.mp ha with rfl | ha
    · exact h.1
    · exact ih h.2 a ha

theorem smallMems_map {α : Type} (ms : List (Bytes × α)) (f : α → ETree)
    (h : smallMems (ms.map fun m => (m.1, f m.2)) = true) :
    ∀ m ∈ ms, m.1.length < 9223372036854775808 ∧ small (f m.2) = true := by
  induction ms with
  | nil => intro a ha; simp at ha
  | cons b ms ih =>
    simp only [List.map_cons, smallMems, Bool.and_eq_true, decide_eq_true_eq] at h
    intro a ha
    rcases List.mem_cons.mp ha with rfl | ha
    · exact ⟨h.1.1, h.1.2⟩
    · exact ih h.2 a ha

theorem strItem_ok (s : Bytes) (h : small (.str s) = true) : (strItem s).ok = true := by
  simp only [small, decide_eq_true_eq] at h
  exact minM_fits (s.length : Int) (by omega) (by omega)

/-- `xItem x` is a well-formed item (numbers in range, Go-sized lengths) -/
theorem xItem_ok (x : XEv) (hs : small (xTree x) = true) : (xItem x).ok = true := by
  cases x with
  | ev e => rfl
  | keyRef s => rfl
  | strRef s => exact strItem_ok s hs
  | boolArr xs => exact toItem_ok _ hs
  | boolObj ms => exact toItem_ok _ hs
  | strArr xs =>
    simp only [xTree, small, Bool.and_eq_true, decide_eq_true_eq, List.length_map] at hs
    exact typedArr_ok _ (by decide) xs strItem hs.1 (fun _ => rfl)
      (fun a ha => strItem_ok a (smallList_map xs .str hs.2 a ha))
  | numArr k xs =>
    simp only [xTree, small, Bool.and_eq_true, decide_eq_true_eq, List.length_map] at hs
    exact typedArr_ok _ (elemType_ok k _) xs _ hs.1 (elemItem_marker k _)
      (fun a ha => elemItem_ok k _ a (by simpa [small] using smallList_map xs (.num k) hs.2 a ha)
        (minUT_rank xs a ha))
  | f32Arr xs =>
    simp only [xTree, small, Bool.and_eq_true, decide_eq_true_eq, List.length_map] at hs
    exact typedArr_ok _ (by decide) xs UItem.f32 hs.1 (fun _ => rfl) (fun _ _ => rfl)
  | f64Arr xs =>
    simp only [xTree, small, Bool.and_eq_true, decide_eq_true_eq, List.length_map] at hs
    exact typedArr_ok _ (by decide) xs UItem.f64 hs.1 (fun _ => rfl) (fun _ _ => rfl)
  | strObj ms =>
    simp only [xTree, small, Bool.and_eq_true, decide_eq_true_eq, List.length_map] at hs
    exact typedObj_ok _ (by decide) ms strItem hs.1 (fun _ => rfl)
      (fun m hm => ⟨(smallMems_map ms .str hs.2 m hm).1, strItem_ok m.2 (smallMems_map ms .str hs.2 m hm).2⟩)
  | numObj k ms =>
    simp only [xTree, small, Bool.and_eq_true, decide_eq_true_eq, List.length_map] at hs
    exact typedObj_ok _ (elemType_ok k _) ms _ hs.1 (elemItem_marker k _)
      (fun m hm => ⟨(smallMems_map ms (.num k) hs.2 m hm).1,
        elemItem_ok k _ m.2 (by simpa [small] using (smallMems_map ms (.num k) hs.2 m hm).2)
          (minUT_rank _ m.2 (List.mem_map.mpr ⟨m, hm, rfl⟩))⟩)
  | f32Obj ms =>
    simp only [xTree, small, Bool.and_eq_true, decide_eq_true_eq, List.length_map] at hs
    exact typedObj_ok _ (by decide) ms UItem.f32 hs.1 (fun _ => rfl)
      (fun m hm => ⟨(smallMems_map ms .f32 hs.2 m hm).1, rfl⟩)
  | f64Obj ms =>
    simp only [xTree, small, Bool.and_eq_true, decide_eq_true_eq, List.length_map] at hs
    exact typedObj_ok _ (by decide) ms UItem.f64 hs.1 (fun _ => rfl)
      (fun m hm => ⟨(smallMems_map ms .f64 hs.2 m hm).1, rfl⟩)

end SF.Ubjson.Enc
