/-
  Property C09 with the gotype fold as PRODUCER — the event side.

  Shapes of event lists, stated with event trees (SF/Tree.lean): `IsVal` (the events of ONE
  contract-conforming tree), `IsElems evs n` (of `n` trees, inside an `AnyType` array),
  `IsMems evs n` (`n` key / value pairs inside an `AnyType` object); how they compose; the
  extended events the fold delivers (`GoodX`: a scalar event or a typed array / map, whose
  expansion is one conforming tree whatever the order oracle makes of it); and what a
  healthy user visitor has received (`Dl`, `Out`) after `emit` / `seqM` / `rangeM` returned ok.
-/
import SF.Gotype.Fold
import SF.Proofs.Tree
import SF.Proofs.FoldBuild
namespace SF.FoldProofs.Wf
open SF SF.Gotype SF.Gotype.Fold SF.FoldProofs ETree

/-! ## shapes -/

def IsVal (evs : List Ev) : Prop := ∃ t : ETree, evs = t.events ∧ t.wf = true

def IsElems (evs : List Ev) (n : Nat) : Prop :=
  ∃ ts : List ETree, evs = eventsList ts ∧ ts.length = n ∧ wfList BT.any ts = true

def IsMems (evs : List Ev) (n : Nat) : Prop :=
  ∃ ms : List (Bytes × ETree), evs = eventsMems ms ∧ ms.length = n ∧ wfMems BT.any ms = true

theorem matchesAny (t : ETree) : t.matchesBT BT.any = true := by
  cases t <;> simp [ETree.matchesBT, Ev.matchesBT, BT.any]

theorem eventsList_append (a b : List ETree) : eventsList (a ++ b) = eventsList a ++ eventsList b := by
  induction a with
  | nil => rfl
  | cons x a ih => simp [eventsList, ih]

theorem wfList_append (bt : Nat) (a b : List ETree) :
    wfList bt (a ++ b) = (wfList bt a && wfList bt b) := by
  induction a with
  | nil => simp [wfList]
  | cons x a ih => simp [wfList, ih, Bool.and_assoc]

theorem eventsMems_append (a b : List (Bytes × ETree)) :
    eventsMems (a ++ b) = eventsMems a ++ eventsMems b := by
  induction a with
  | nil => rfl
  | cons x a ih => obtain ⟨k, v⟩ := x; simp [eventsMems, ih]

theorem wfMems_append (bt : Nat) (a b : List (Bytes × ETree)) :
    wfMems bt (a ++ b) = (wfMems bt a && wfMems bt b) := by
  induction a with
  | nil => simp [wfMems]
  | cons x a ih => obtain ⟨k, v⟩ := x; simp [wfMems, ih, Bool.and_assoc]

theorem IsElems.nil : IsElems [] 0 := ⟨[], rfl, rfl, rfl⟩

theorem IsElems.append {a b : List Ev} {n m : Nat} (ha : IsElems a n) (hb : IsElems b m) :
    IsElems (a ++ b) (n + m) := by
  obtain ⟨ta, rfl, rfl, wa⟩ := ha
  obtain ⟨tb, rfl, rfl, wb⟩ := hb
  exact ⟨ta ++ tb, (eventsList_append _ _).symm, by simp, by rw [wfList_append, wa, wb]; rfl⟩

theorem IsElems.one {a : List Ev} (h : IsVal a) : IsElems a 1 := by
  obtain ⟨t, rfl, w⟩ := h
  exact ⟨[t], by simp [eventsList], rfl, by simp [wfList, matchesAny, w]⟩

theorem IsMems.nil : IsMems [] 0 := ⟨[], rfl, rfl, rfl⟩

theorem IsMems.append {a b : List Ev} {n m : Nat} (ha : IsMems a n) (hb : IsMems b m) :
    IsMems (a ++ b) (n + m) := by
  obtain ⟨ta, rfl, rfl, wa⟩ := ha
  obtain ⟨tb, rfl, rfl, wb⟩ := hb
  exact ⟨ta ++ tb, (eventsMems_append _ _).symm, by simp, by rw [wfMems_append, wa, wb]; rfl⟩

theorem IsMems.member (k : Bytes) {a : List Ev} (h : IsVal a) : IsMems (.key k :: a) 1 := by
  obtain ⟨t, rfl, w⟩ := h
  exact ⟨[(k, t)], by simp [eventsMems], rfl, by simp [wfMems, matchesAny, w]⟩

/-- `arrStart n; n elements; arrEnd` -/
theorem IsVal.arr {evs : List Ev} {n : Nat} (h : IsElems evs n) :
    IsVal (.arrStart n BT.any :: evs ++ [.arrEnd]) := by
  obtain ⟨ts, rfl, rfl, w⟩ := h
  exact ⟨.arr ts.length BT.any ts, rfl, by simp [ETree.wf, lenOkFor, w]⟩

/-- `objStart l; n members; objEnd` with `l = -1` or `l = n` -/
theorem IsVal.obj {evs : List Ev} {n : Nat} {l : Int} (h : IsMems evs n) (hl : l = -1 ∨ l = n) :
    IsVal (.objStart l BT.any :: evs ++ [.objEnd]) := by
  obtain ⟨ms, rfl, rfl, w⟩ := h
  refine ⟨.obj l BT.any ms, rfl, ?_⟩
  rcases hl with rfl | rfl <;> simp [ETree.wf, lenOkFor, w]

theorem IsVal.wf1 {evs : List Ev} (h : IsVal evs) : WF1 evs = true := by
  obtain ⟨t, rfl, w⟩ := h
  exact wf1_events t w

/-! ## the extended events of the fold -/

def scalarEv : Ev → Bool
  | .null | .bool _ | .str _ | .num _ _ | .f32 _ | .f64 _ => true
  | _ => false

def typedX : XEv → Bool
  | .boolArr _ | .strArr _ | .numArr _ _ | .f32Arr _ | .f64Arr _
  | .boolObj _ | .strObj _ | .numObj _ _ | .f32Obj _ | .f64Obj _ => true
  | _ => false

/-- a scalar event or a typed array / map -/
def GoodX (x : XEv) : Prop := (∃ e, x = .ev e ∧ scalarEv e = true) ∨ typedX x = true

theorem IsVal.scalar {e : Ev} (h : scalarEv e = true) : IsVal [e] := by
  cases e <;> first
    | (simp [scalarEv] at h; done)
    | exact ⟨.null, rfl, rfl⟩
    | exact ⟨.bool _, rfl, rfl⟩
    | exact ⟨.str _, rfl, rfl⟩
    | exact ⟨.num _ _, rfl, rfl⟩
    | exact ⟨.f32 _, rfl, rfl⟩
    | exact ⟨.f64 _, rfl, rfl⟩

theorem leaf_events {α : Type} (f : α → ETree) (g : α → Ev) (hfg : ∀ a, (f a).events = [g a]) (xs : List α) :
    eventsList (xs.map f) = xs.map g := by
  induction xs with
  | nil => rfl
  | cons a xs ih => simp [eventsList, hfg, ih]

theorem leaf_wf {α : Type} (f : α → ETree) (bt : Nat) (h : ∀ a, (f a).matchesBT bt = true ∧ (f a).wf = true)
    (xs : List α) : wfList bt (xs.map f) = true := by
  induction xs with
  | nil => rfl
  | cons a xs ih => simp [wfList, (h a).1, (h a).2, ih]

theorem mem_events {α : Type} (f : α → ETree) (g : α → Ev) (hfg : ∀ a, (f a).events = [g a])
    (ms : List (Bytes × α)) :
    eventsMems (ms.map fun m => (m.1, f m.2)) = ms.flatMap (fun m => [Ev.key m.1, g m.2]) := by
  induction ms with
  | nil => rfl
  | cons m ms ih => simp [eventsMems, hfg, ih]

theorem mem_wf {α : Type} (f : α → ETree) (bt : Nat) (h : ∀ a, (f a).matchesBT bt = true ∧ (f a).wf = true)
    (ms : List (Bytes × α)) : wfMems bt (ms.map fun m => (m.1, f m.2)) = true := by
  induction ms with
  | nil => rfl
  | cons m ms ih => simp [wfMems, (h m.2).1, (h m.2).2, ih]

theorem numBT (k : NumKind) (v : Int) : Ev.matchesBT k.baseType (.num k v) = true := by
  cases k <;> simp [Ev.matchesBT, NumKind.baseType, BT.any, BT.int8, BT.int16, BT.int32, BT.int64,
    BT.int, BT.uint8, BT.uint16, BT.uint32, BT.uint64, BT.uint, BT.byte]

/-- the expansion of a typed array / map (array.go, map.go) is one conforming tree -/
theorem IsVal.typed {x : XEv} (h : typedX x = true) : IsVal x.expand := by
  cases x with
  | ev e => simp [typedX] at h
  | strRef s => simp [typedX] at h
  | keyRef s => simp [typedX] at h
  | boolArr xs =>
    refine ⟨.arr xs.length BT.bool (xs.map ETree.bool), ?_, ?_⟩
    · simp [ETree.events, leaf_events ETree.bool Ev.bool (fun _ => rfl), XEv.expand]
    · simp [ETree.wf, lenOkFor, leaf_wf ETree.bool BT.bool (by intro a; simp [ETree.matchesBT, Ev.matchesBT, ETree.wf])]
  | strArr xs =>
    refine ⟨.arr xs.length BT.string (xs.map ETree.str), ?_, ?_⟩
    · simp [ETree.events, leaf_events ETree.str Ev.str (fun _ => rfl), XEv.expand]
    · simp [ETree.wf, lenOkFor, leaf_wf ETree.str BT.string (by intro a; simp [ETree.matchesBT, Ev.matchesBT, ETree.wf])]
  | numArr k xs =>
    refine ⟨.arr xs.length k.baseType (xs.map (ETree.num k)), ?_, ?_⟩
    · simp [ETree.events, leaf_events (ETree.num k) (Ev.num k) (fun _ => rfl), XEv.expand]
    · simp [ETree.wf, lenOkFor, leaf_wf (ETree.num k) k.baseType (by intro a; simp [ETree.matchesBT, numBT, ETree.wf])]
  | f32Arr xs =>
    refine ⟨.arr xs.length BT.float32 (xs.map ETree.f32), ?_, ?_⟩
    · simp [ETree.events, leaf_events ETree.f32 Ev.f32 (fun _ => rfl), XEv.expand]
    · simp [ETree.wf, lenOkFor, leaf_wf ETree.f32 BT.float32 (by intro a; simp [ETree.matchesBT, Ev.matchesBT, ETree.wf])]
  | f64Arr xs =>
    refine ⟨.arr xs.length BT.float64 (xs.map ETree.f64), ?_, ?_⟩
    · simp [ETree.events, leaf_events ETree.f64 Ev.f64 (fun _ => rfl), XEv.expand]
    · simp [ETree.wf, lenOkFor, leaf_wf ETree.f64 BT.float64 (by intro a; simp [ETree.matchesBT, Ev.matchesBT, ETree.wf])]
  | boolObj ms =>
    refine ⟨.obj ms.length BT.bool (ms.map fun m => (m.1, ETree.bool m.2)), ?_, ?_⟩
    · simp [ETree.events, mem_events ETree.bool Ev.bool (fun _ => rfl), XEv.expand]
    · simp [ETree.wf, lenOkFor, mem_wf ETree.bool BT.bool (by intro a; simp [ETree.matchesBT, Ev.matchesBT, ETree.wf])]
  | strObj ms =>
    refine ⟨.obj ms.length BT.string (ms.map fun m => (m.1, ETree.str m.2)), ?_, ?_⟩
    · simp [ETree.events, mem_events ETree.str Ev.str (fun _ => rfl), XEv.expand]
    · simp [ETree.wf, lenOkFor, mem_wf ETree.str BT.string (by intro a; simp [ETree.matchesBT, Ev.matchesBT, ETree.wf])]
  | numObj k ms =>
    refine ⟨.obj ms.length k.baseType (ms.map fun m => (m.1, ETree.num k m.2)), ?_, ?_⟩
    · simp [ETree.events, mem_events (ETree.num k) (Ev.num k) (fun _ => rfl), XEv.expand]
    · simp [ETree.wf, lenOkFor, mem_wf (ETree.num k) k.baseType (by intro a; simp [ETree.matchesBT, numBT, ETree.wf])]
  | f32Obj ms =>
    refine ⟨.obj ms.length BT.float32 (ms.map fun m => (m.1, ETree.f32 m.2)), ?_, ?_⟩
    · simp [ETree.events, mem_events ETree.f32 Ev.f32 (fun _ => rfl), XEv.expand]
    · simp [ETree.wf, lenOkFor, mem_wf ETree.f32 BT.float32 (by intro a; simp [ETree.matchesBT, Ev.matchesBT, ETree.wf])]
  | f64Obj ms =>
    refine ⟨.obj ms.length BT.float64 (ms.map fun m => (m.1, ETree.f64 m.2)), ?_, ?_⟩
    · simp [ETree.events, mem_events ETree.f64 Ev.f64 (fun _ => rfl), XEv.expand]
    · simp [ETree.wf, lenOkFor, mem_wf ETree.f64 BT.float64 (by intro a; simp [ETree.matchesBT, Ev.matchesBT, ETree.wf])]

theorem IsVal.goodX {x : XEv} (h : GoodX x) : IsVal x.expand := by
  rcases h with ⟨e, rfl, he⟩ | h
  · exact IsVal.scalar he
  · exact IsVal.typed h

/-- the order oracle turns a typed map into a typed map, leaves everything else alone -/
theorem GoodX.reorder (s : St) {x : XEv} (h : GoodX x) : GoodX (reorderByHint s x) := by
  rcases h with ⟨e, rfl, he⟩ | h
  · left; exact ⟨e, by simp [reorderByHint], he⟩
  · right
    unfold reorderByHint
    split <;> first | rfl | exact h


/-! ## what a healthy user visitor received -/

/-- the user's visitor never fails -/
def H (s : St) : Prop := s.failAt = none

/-- `s'` is `s` after the events `xs` (oldest first) were delivered, visitor still healthy -/
def Dl (s s' : St) (xs : List XEv) : Prop := s'.evs = xs.reverse ++ s.evs ∧ H s'

/-- … and their expansion has the shape `P` -/
def Out (s s' : St) (P : List Ev → Prop) : Prop := ∃ xs, Dl s s' xs ∧ P (expandAll xs)

theorem Dl.refl {s : St} (h : H s) : Dl s s [] := ⟨by simp, h⟩

theorem Dl.trans {s s' s'' : St} {a b : List XEv} (h1 : Dl s s' a) (h2 : Dl s' s'' b) :
    Dl s s'' (a ++ b) := by
  refine ⟨?_, h2.2⟩
  rw [h2.1, h1.1]; simp

theorem deliver_H {s s' : St} {x : XEv} {r : Res} (hs : H s) (h : deliver s x = (s', r)) :
    r = .ok ∧ Dl s s' [reorderByHint s x] := by
  unfold H at hs
  simp only [deliver, hs] at h
  cases h
  exact ⟨rfl, by simp, by simp [H]⟩

theorem emit_H {s s' : St} {x : XEv} {r : Res} (hs : H s) (h : emit s .user x = (s', r)) :
    r = .ok ∧ Dl s s' [reorderByHint s x] := deliver_H hs h

/-- one structural event (start / end / key): it is delivered as it is -/
theorem emit_ev_H {s s' : St} {e : Ev} {r : Res} (hs : H s) (h : emit s .user (.ev e) = (s', r)) :
    r = .ok ∧ Dl s s' [.ev e] := by
  have := emit_H hs h
  rwa [show reorderByHint s (.ev e) = .ev e by simp [reorderByHint]] at this

/-- one scalar event or typed array / map: one value -/
theorem emit_good {s s' : St} {x : XEv} (hs : H s) (hx : GoodX x) (h : emit s .user x = (s', .ok)) :
    Out s s' IsVal := by
  obtain ⟨_, hd⟩ := emit_H hs h
  exact ⟨_, hd, by rw [expandAll_single]; exact IsVal.goodX (hx.reorder s)⟩

/-- `start; inner; end` for an array of `n` elements -/
theorem wrap_arr {s s' : St} (hs : H s) (n : Nat) (inner : St → St × Res)
    (hin : ∀ s s', H s → inner s = (s', .ok) → Out s s' (IsElems · n))
    (h : (match emit s .user (.ev (.arrStart n BT.any)) with
      | (s, .ok) =>
        match inner s with
        | (s, .ok) => emit s .user (.ev .arrEnd)
        | r => r
      | r => r) = (s', .ok)) : Out s s' IsVal := by
  rcases h1 : emit s .user (.ev (.arrStart n BT.any)) with ⟨s1, r1⟩
  obtain ⟨rfl, d1⟩ := emit_ev_H hs h1
  rw [h1] at h
  simp only [] at h
  rcases h2 : inner s1 with ⟨s2, r2⟩
  rw [h2] at h
  cases r2 with
  | ok =>
    simp only [] at h
    obtain ⟨xs, d2, p2⟩ := hin s1 s2 d1.2 h2
    obtain ⟨_, d3⟩ := emit_ev_H d2.2 h
    refine ⟨[.ev (.arrStart n BT.any)] ++ xs ++ [.ev .arrEnd], (d1.trans d2).trans d3, ?_⟩
    have := IsVal.arr p2
    simpa [expandAll_append, expandAll_cons, expandAll_nil, XEv.expand] using this
  | err e => simp at h
  | panic => simp at h
  | fatal => simp at h

/-- `start; inner; end` for an object of `n` members, announced as `l = -1` or `l = n` -/
theorem wrap_obj {s s' : St} (hs : H s) (l : Int) (inner : St → St × Res)
    (hin : ∀ s s', H s → inner s = (s', .ok) → ∃ n, Out s s' (IsMems · n) ∧ (l = -1 ∨ l = n))
    (h : (match emit s .user (.ev (.objStart l BT.any)) with
      | (s, .ok) =>
        match inner s with
        | (s, .ok) => emit s .user (.ev .objEnd)
        | r => r
      | r => r) = (s', .ok)) : Out s s' IsVal := by
  rcases h1 : emit s .user (.ev (.objStart l BT.any)) with ⟨s1, r1⟩
  obtain ⟨rfl, d1⟩ := emit_ev_H hs h1
  rw [h1] at h
  simp only [] at h
  rcases h2 : inner s1 with ⟨s2, r2⟩
  rw [h2] at h
  cases r2 with
  | ok =>
    simp only [] at h
    obtain ⟨n, ⟨xs, d2, p2⟩, hl⟩ := hin s1 s2 d1.2 h2
    obtain ⟨_, d3⟩ := emit_ev_H d2.2 h
    refine ⟨[.ev (.objStart l BT.any)] ++ xs ++ [.ev .objEnd], (d1.trans d2).trans d3, ?_⟩
    have := IsVal.obj p2 hl
    simpa [expandAll_append, expandAll_cons, expandAll_nil, XEv.expand] using this
  | err e => simp at h
  | panic => simp at h
  | fatal => simp at h

/-- `key; inner`: one member -/
theorem key_then {s s' : St} (hs : H s) (k : Bytes) (inner : St → St × Res)
    (hin : ∀ s s', H s → inner s = (s', .ok) → Out s s' IsVal)
    (h : (match emit s .user (.ev (.key k)) with
      | (s, .ok) => inner s
      | r => r) = (s', .ok)) : Out s s' (IsMems · 1) := by
  rcases h1 : emit s .user (.ev (.key k)) with ⟨s1, r1⟩
  obtain ⟨rfl, d1⟩ := emit_ev_H hs h1
  rw [h1] at h
  simp only [] at h
  obtain ⟨xs, d2, p2⟩ := hin s1 s' d1.2 h
  refine ⟨[.ev (.key k)] ++ xs, d1.trans d2, ?_⟩
  have := IsMems.member k p2
  simpa [expandAll_append, expandAll_cons, expandAll_nil, XEv.expand] using this

/-- a sequence of element folders -/
theorem seq_elems {α : Type} (step : St → α → St × Res) (xs : List α)
    (hstep : ∀ x ∈ xs, ∀ s s', H s → step s x = (s', .ok) → Out s s' IsVal) :
    ∀ s s', H s → seqM step s xs = (s', .ok) → Out s s' (IsElems · xs.length) := by
  induction xs with
  | nil =>
    intro s s' hs h
    simp only [seqM, Prod.mk.injEq, and_true] at h
    subst h
    exact ⟨[], Dl.refl hs, by simpa [expandAll] using IsElems.nil⟩
  | cons x xs ih =>
    intro s s' hs h
    simp only [seqM] at h
    rcases h1 : step s x with ⟨s1, r1⟩
    rw [h1] at h
    cases r1 with
    | ok =>
      simp only [] at h
      obtain ⟨a, d1, p1⟩ := hstep x (by simp) s s1 hs h1
      obtain ⟨b, d2, p2⟩ := ih (fun y hy => hstep y (by simp [hy])) s1 s' d1.2 h
      refine ⟨a ++ b, d1.trans d2, ?_⟩
      rw [expandAll_append, List.length_cons, Nat.add_comm]
      exact (IsElems.one p1).append p2
    | err e => simp at h
    | panic => simp at h
    | fatal => simp at h

/-- a sequence of member folders; `c x`: the folder `x` delivers exactly one member -/
theorem seq_mems {α : Type} (step : St → α → St × Res) (c : α → Prop) (xs : List α)
    (hstep : ∀ x ∈ xs, ∀ s s', H s → step s x = (s', .ok) → ∃ n, Out s s' (IsMems · n) ∧ (c x → n = 1)) :
    ∀ s s', H s → seqM step s xs = (s', .ok) →
      ∃ n, Out s s' (IsMems · n) ∧ ((∀ x ∈ xs, c x) → n = xs.length) := by
  induction xs with
  | nil =>
    intro s s' hs h
    simp only [seqM, Prod.mk.injEq, and_true] at h
    subst h
    exact ⟨0, ⟨[], Dl.refl hs, by simpa [expandAll] using IsMems.nil⟩, fun _ => rfl⟩
  | cons x xs ih =>
    intro s s' hs h
    simp only [seqM] at h
    rcases h1 : step s x with ⟨s1, r1⟩
    rw [h1] at h
    cases r1 with
    | ok =>
      simp only [] at h
      obtain ⟨n1, ⟨a, d1, p1⟩, c1⟩ := hstep x (by simp) s s1 hs h1
      obtain ⟨n2, ⟨b, d2, p2⟩, c2⟩ := ih (fun y hy => hstep y (by simp [hy])) s1 s' d1.2 h
      refine ⟨n1 + n2, ⟨a ++ b, d1.trans d2, ?_⟩, ?_⟩
      · rw [expandAll_append]; exact p1.append p2
      · intro hc
        rw [c1 (hc x (by simp)), c2 (fun y hy => hc y (by simp [hy]))]
        simp; omega
    | err e => simp at h
    | panic => simp at h
    | fatal => simp at h

theorem pickEntry_inv {α : Type} (s : St) (es : List (Bytes × α)) :
    (es = [] ∧ pickEntry s es = none) ∨
    ∃ e rest, pickEntry s es = some (e, rest) ∧ e ∈ es ∧ (∀ y ∈ rest, y ∈ es) ∧ rest.length + 1 = es.length := by
  cases es with
  | nil => left; exact ⟨rfl, rfl⟩
  | cons e0 rest0 =>
    right
    unfold pickEntry
    cases hk : hintKey? s with
    | none => exact ⟨e0, rest0, rfl, by simp, fun y hy => by simp [hy], rfl⟩
    | some k =>
      simp only []
      cases hf : (e0 :: rest0).find? (fun m => m.1 == k) with
      | none => exact ⟨e0, rest0, rfl, by simp, fun y hy => by simp [hy], rfl⟩
      | some e' =>
        refine ⟨e', _, rfl, List.mem_of_find?_eq_some hf, fun y hy => List.mem_of_mem_eraseP hy, ?_⟩
        have hp : (e'.1 == k) = true := by simpa using List.find?_some hf
        have := List.length_eraseP_of_mem (p := fun (m : Bytes × α) => m.1 == k)
          (List.mem_of_find?_eq_some hf) hp
        rw [this]
        simp

/-- `for k, v := range m`: one member per entry, in whatever order -/
theorem range_mems {α : Type} (step : St → Bytes × α → St × Res) :
    ∀ (n : Nat) (es : List (Bytes × α)),
    (∀ e ∈ es, ∀ s s', H s → step s e = (s', .ok) → Out s s' (IsMems · 1)) → es.length ≤ n →
    ∀ s s', H s → rangeM step n s es = (s', .ok) → Out s s' (IsMems · es.length) := by
  intro n
  induction n with
  | zero =>
    intro es _ hl s s' hs h
    have : es = [] := List.eq_nil_of_length_eq_zero (by omega)
    subst this
    simp only [rangeM, Prod.mk.injEq, and_true] at h
    subst h
    exact ⟨[], Dl.refl hs, by simpa [expandAll] using IsMems.nil⟩
  | succ n ih =>
    intro es hstep hl s s' hs h
    simp only [rangeM] at h
    rcases pickEntry_inv s es with ⟨rfl, hp⟩ | ⟨e, rest, hp, hmem, hsub, hlen⟩
    · rw [hp] at h
      simp only [Prod.mk.injEq, and_true] at h
      subst h
      exact ⟨[], Dl.refl hs, by simpa [expandAll] using IsMems.nil⟩
    · rw [hp] at h
      simp only [] at h
      rcases h1 : step s e with ⟨s1, r1⟩
      rw [h1] at h
      cases r1 with
      | ok =>
        simp only [] at h
        obtain ⟨a, d1, p1⟩ := hstep e hmem s s1 hs h1
        obtain ⟨b, d2, p2⟩ := ih rest (fun y hy => hstep y (hsub y hy)) (by omega) s1 s' d1.2 h
        refine ⟨a ++ b, d1.trans d2, ?_⟩
        rw [expandAll_append, ← hlen, Nat.add_comm]
        exact p1.append p2
      | err e => simp at h
      | panic => simp at h
      | fatal => simp at h

end SF.FoldProofs.Wf
