/-
  C11, CBOR path, the COMPOSITION at mirror level: Fold's one event for a scalar / `[]T` /
  `map[string]T` → cborl encoder mirror → bytes → cborl parser mirror → events, one token each →
  Unfold mirror on a fresh zero target (the "cbor" branch of `SF.Ops.Fu.model`).
-/
import SF.Proofs.FuIdAgree
import SF.Proofs.FuCborCodec
namespace SF.FuCbor
open SF SF.Gotype SF.Gotype.Fold SF.FoldProofs SF.FuId
open SF.Cbor SF.Cbor.Cst
open SF.Unf (Sc UEv PK memberEvents convList putAll mapSet Ctx newUnfolder setTarget typeFuel)
open SF.Ops.Unf (xevToUEvs evToUEv runToken)
open SF.Ops.Fu (feed agreeF)

/-! ## the Unfolder fed one event per token -/

theorem feed_singles : ∀ (es : List UEv) (c c' : Ctx), Unf.run typeFuel es c = .ok () c' →
    feed c (es.map fun e => [e]) = (c', none)
  | [], c, c', h => by simp [Unf.run] at h; subst h; rfl
  | e :: es, c, c', h => by
    rw [Unf.run] at h
    cases hs : Unf.stepEv typeFuel e c with
    | ok u c1 =>
      rw [hs] at h
      simp only [List.map_cons, feed, runToken, hs]
      exact feed_singles es c1 c' h
    | err e' c1 => rw [hs] at h; cases h
    | panic c1 => rw [hs] at h; cases h
    | outOfFuel => rw [hs] at h; cases h
    | gap m => rw [hs] at h; cases h

theorem map_scEv_tokens (l : List Sc) : (l.map scEv).map evToUEv = l.map UEv.scalar := by
  simp [List.map_map, Function.comp_def, evToUEv_scEv]

/-! ## the codec leg, generic -/

/-- encoder result `s`, parser result `pr` for an event list the encoder turns into the item `i` -/
theorem codec_leg (xs : List XEv) (i : Item) (hok : i.ok = true)
    (henc : Enc.run {} xs = (Enc.Enc.emit {} i.wire, none)) :
    ∃ s pr, Enc.run {} xs = (s, none) ∧ s.w.out = i.wire ∧ s.w.out ≠ [] ∧
      Parse.writeChunks {} [s.w.out] = (pr, none) ∧ pr = Parse.idle pr.evs ∧ Parse.events pr = i.events := by
  have hout : (Enc.Enc.emit {} i.wire).w.out = i.wire := by simp [Enc.Enc.emit]
  refine ⟨_, _, henc, hout, by rw [hout]; exact wire_ne_nil i, by rw [hout]; exact parse_item i hok, rfl, ?_⟩
  simp [Parse.events, Parse.idle]

/-! ## sizes: every Go string is shorter than 2^63 bytes -/

def sizedV : GoVal → Bool
  | .str s => decide (s.length < 9223372036854775808)
  | _ => true

theorem small_elem (bytes : Bool) (p : Prim) (x : GoVal) (h : hasPrim p x = true) (hz : sizedV x = true) :
    scSmall (scOfElem bytes p x) = true := by
  cases p with
  | num k =>
    cases x <;> simp [hasPrim] at h
    rename_i v
    show (elemKind bytes k).inRange v = true
    unfold elemKind; split
    · rename_i hc; simp at hc; rw [hc.2] at h; exact h
    · exact h
  | string =>
    cases x <;> simp [hasPrim] at h
    exact hz
  | _ => cases x <;> simp [hasPrim] at h <;> rfl

theorem small_top (p : Prim) (x : GoVal) (h : hasPrim p x = true) (hz : sizedV x = true) :
    scSmall (scOfTop p x) = true := by
  cases p with
  | num k =>
    cases x <;> simp [hasPrim] at h
    rename_i v
    show (if k == .int then NumKind.i64 else k).inRange v = true
    split
    · rename_i hc; simp at hc; rw [hc] at h; exact h
    · exact h
  | _ => exact small_elem false _ x h hz

/-- the CBOR leg does not change what a typed (non-`interface{}`) target stores: the kind of an
integer event only matters to `interface{}` -/
theorem conv_cborSc (k : PK) (hk : k ≠ .ifc) (s : Sc) (hs : scSmall s = true) : k.conv (cborSc s) = k.conv s := by
  cases s with
  | num ek v =>
    have hb := kind_bounds ek v hs
    have e1 : Unf.wrapTo (narrow v) v = v := Unf.wrapTo_inRange _ _ (narrow_inRange v hb.1 hb.2)
    have e2 : Unf.wrapTo ek v = v := Unf.wrapTo_inRange _ _ hs
    cases k <;> simp only [cborSc, PK.conv, e1, e2]
    exact absurd rfl hk
  | _ => rfl

theorem convList_cborSc (k : PK) (hk : k ≠ .ifc) : ∀ scs : List Sc, (∀ t ∈ scs, scSmall t = true) →
    convList k (scs.map cborSc) = convList k scs
  | [], _ => rfl
  | t :: r, h => by
    simp only [List.map_cons, convList, conv_cborSc k hk t (h t List.mem_cons_self),
      convList_cborSc k hk r (fun y hy => h y (List.mem_cons_of_mem _ hy))]

theorem putAll_cborSc (k : PK) (hk : k ≠ .ifc) : ∀ (mems : List (Bytes × Sc)) (acc : List (Bytes × Unf.GoVal)),
    (∀ m ∈ mems, scSmall m.2 = true) →
    putAll k (mems.map fun m => (m.1, cborSc m.2)) acc = putAll k mems acc
  | [], _, _ => rfl
  | (key, s) :: r, acc, h => by
    simp only [List.map_cons, putAll, conv_cborSc k hk s (h (key, s) List.mem_cons_self)]
    cases k.conv s with
    | none => rfl
    | some w => exact putAll_cborSc k hk r _ (fun y hy => h y (List.mem_cons_of_mem _ hy))

/-! ## STAGE 1: scalars -/

theorem primEv_top_eq (p : Prim) (x : GoVal) (h : hasPrim p x = true) :
    primEv false p x = some (.ev (scEv (scOfTop p x))) := by
  cases p <;> cases x <;> simp [hasPrim] at h <;> rfl

theorem run_scalarX (t : Sc) (hs : scSmall t = true) :
    Enc.run {} [.ev (scEv t)] = (Enc.Enc.emit {} (scItem t).wire, none) := by
  apply run_single
  have : Enc.step {} (.ev (scEv t)) = Enc.exec {} (Enc.acts ({} : Enc.Enc).length (.ev (scEv t))) := by
    cases t <;> rfl
  rw [this, acts_scEv, exec_scalar {} rfl t hs]

theorem scalar_cbor_run (o : FoldOpts) (hfail : o.failAt = none) (p : Prim) (v : GoVal) (hv : hasPrim p v = true)
    (hz : sizedV v = true) :
    ∃ c0 s pr, (impl o (primTy p) v).res = .ok ∧
      setTarget tbl (uPrimTy p) (Unf.zero tbl (uPrimTy p)) newUnfolder = .ok c0 ∧
      Enc.run {} (impl o (primTy p) v).evs = (s, none) ∧ s.w.out ≠ [] ∧
      Parse.writeChunks {} [s.w.out] = (pr, none) ∧ pr = Parse.idle pr.evs ∧
      Parse.events pr = [scEv (cborSc (scOfTop p v))] ∧
      feed c0 ((Parse.events pr).map fun e => [evToUEv e]) = (doneCtx (trPrim p v), none) := by
  rw [impl_scalar o hfail p v _ (primEv_top_eq p v hv)]
  have hs := small_top p v hv hz
  obtain ⟨s, pr, h1, _, h3, h4, h5, h6⟩ := codec_leg _ (scItem (scOfTop p v)) (scItem_ok _ hs) (run_scalarX _ hs)
  rw [scItem_events _ hs] at h6
  refine ⟨_, s, pr, rfl, Unf.setTarget_prim tbl _ (pkOf p) _ newUnfolder (ofExact_uPrimTy p), h1, h3, h4, h5, h6, ?_⟩
  rw [h6]
  have : ([scEv (cborSc (scOfTop p v))].map fun e => [evToUEv e]) =
      [UEv.scalar (cborSc (scOfTop p v))].map fun e => [e] := by simp [evToUEv_scEv]
  rw [this]
  apply feed_singles
  rw [Unf.run_single, typeFuel_succ]
  exact Unf.scalar_primCtx 255 tbl (pkOf p) _ _ newUnfolder _
    (by rw [conv_cborSc _ (pkOf_ne_ifc p) _ hs]; exact conv_top p v hv)

/-! ## STAGE 2: `[]T` -/

/-- `[]uint8` / `[]byte`: Fold hands it to `OnBytes`, the encoder writes a byte string -/
def isByteP : Prim → Bool
  | .num k => k == .u8 || k == .byte
  | _ => false

/-- an element of the slice as the parser reports it: integers under the narrowest kind; the
elements of a byte string under `byte` -/
def cborElem (p : Prim) (x : GoVal) : Sc :=
  if isByteP p then .num .byte (getI x) else cborSc (scOfElem true p x)

/-- the item the encoder writes for the slice -/
def sliceItem (p : Prim) (xs : List GoVal) : Item :=
  if isByteP p then .bytes (Enc.minW xs.length) (xs.map fun x => UInt8.ofNat (getI x).toNat)
  else .arr (Enc.minW xs.length) (xs.map fun x => scItem (scOfElem true p x))

theorem arrX_expand (bytes : Bool) (p : Prim) (xs : List GoVal) :
    (arrX bytes p xs).expand =
      .arrStart xs.length (btOf bytes p) :: (xs.map (scOfElem bytes p)).map scEv ++ [.arrEnd] := by
  cases p <;>
    simp only [arrX, XEv.expand, List.length_map, btOf, List.map_map, scOfElem, Function.comp_def, scEv]

theorem isArrX_arrX (p : Prim) (xs : List GoVal) (hb : isByteP p = false) : isArrX (arrX true p xs) = true := by
  cases p with
  | num k =>
    simp only [isByteP, Bool.or_eq_false_iff] at hb
    have : elemKind true k = k := by simp [elemKind, hb.1]
    simp [arrX, this, isArrX, hb.1, hb.2]
  | _ => rfl

theorem arrX_bytes (p : Prim) (xs : List GoVal) (hb : isByteP p = true) :
    arrX true p xs = .numArr .byte (xs.map getI) ∧ ∀ x, scOfElem true p x = .num .byte (getI x) := by
  cases p with
  | num k =>
    simp only [isByteP, Bool.or_eq_true, beq_iff_eq] at hb
    have : elemKind true k = .byte := by rcases hb with h | h <;> subst h <;> rfl
    exact ⟨by simp [arrX, this], fun x => by simp [scOfElem, this]⟩
  | _ => simp [isByteP] at hb

theorem byte_back (p : Prim) (hb : isByteP p = true) (x : GoVal) (h : hasPrim p x = true) :
    ((UInt8.ofNat (getI x).toNat).toNat : Int) = getI x := by
  cases p with
  | num k =>
    simp only [isByteP, Bool.or_eq_true, beq_iff_eq] at hb
    cases x <;> simp [hasPrim] at h
    rename_i v
    have hr : 0 ≤ v ∧ v ≤ 255 := by
      rcases hb with hk | hk <;> subst hk <;>
        simp only [NumKind.inRange, NumKind.lo, NumKind.hi, Bool.and_eq_true] at h <;>
        exact ⟨of_decide_eq_true h.1, of_decide_eq_true h.2⟩
    simp only [getI, UInt8.toNat_ofNat']
    omega
  | _ => simp [isByteP] at hb

theorem slice_codec (p : Prim) (xs : List GoVal) (hxs : ∀ x ∈ xs, hasPrim p x = true)
    (hz : ∀ x ∈ xs, sizedV x = true) (hn : xs.length < 9223372036854775808) :
    Enc.run {} [arrX true p xs] = (Enc.Enc.emit {} (sliceItem p xs).wire, none) ∧
    (sliceItem p xs).ok = true ∧
    (sliceItem p xs).events = .arrStart xs.length (if isByteP p then BT.byte else BT.any) ::
      (xs.map (cborElem p)).map scEv ++ [.arrEnd] ∧
    convList (pkOf p) (xs.map (cborElem p)) = some (xs.map (trPrim p)) := by
  have hsm : ∀ t ∈ xs.map (scOfElem true p), scSmall t = true := by
    intro t ht
    obtain ⟨x, hx, rfl⟩ := List.mem_map.mp ht
    exact small_elem true p x (hxs x hx) (hz x hx)
  by_cases hb : isByteP p = true
  · obtain ⟨hX, hsc⟩ := arrX_bytes p xs hb
    have hce : xs.map (cborElem p) = xs.map (scOfElem true p) := by
      apply List.map_congr_left; intro x _; simp [cborElem, hb, hsc]
    refine ⟨?_, ?_, ?_, ?_⟩
    · rw [hX, run_bytesX]; simp [sliceItem, hb, List.map_map, Function.comp_def]
    · simp [sliceItem, hb, Item.ok, Enc.minW_fits' _ hn, hn]
    · simp only [sliceItem, hb, if_true, Item.events, List.length_map, List.map_map]
      congr 2
      apply List.map_congr_left
      intro x hx
      simp only [Function.comp, cborElem, hb, if_true, scEv, byte_back p hb x (hxs x hx)]
    · rw [hce]; exact convList_elems true p xs hxs
  · have hb' : isByteP p = false := by simpa using hb
    have hce : xs.map (cborElem p) = (xs.map (scOfElem true p)).map cborSc := by
      rw [List.map_map]; apply List.map_congr_left; intro x _; simp [cborElem, hb']
    have hitems : (xs.map fun x => scItem (scOfElem true p x)) = (xs.map (scOfElem true p)).map scItem := by
      rw [List.map_map]; rfl
    refine ⟨?_, ?_, ?_, ?_⟩
    · have := run_arrX _ (isArrX_arrX p xs hb') _ _ _ (arrX_expand true p xs) hsm
      rw [this]; simp [sliceItem, hb', hitems]
    · simp only [sliceItem, hb', Bool.false_eq_true, if_false, Item.ok, List.length_map, hitems,
        okList_scItems _ hsm, Enc.minW_fits' _ hn, Bool.and_true, Bool.true_and, decide_eq_true_eq]
      exact hn
    · simp only [sliceItem, hb', Bool.false_eq_true, if_false, Item.events, List.length_map, hitems, hce]
      congr 2
      apply map_evToUEv_inj
      rw [eventsList_scItems _ hsm, map_scEv_tokens]
    · rw [hce, convList_cborSc _ (pkOf_ne_ifc p) _ hsm]; exact convList_elems true p xs hxs

theorem slice_cbor_run (o : FoldOpts) (hfail : o.failAt = none) (p : Prim) (v : GoVal) (xs : List GoVal)
    (hv : sliceElems? v = some xs) (hxs : ∀ x ∈ xs, hasPrim p x = true)
    (hz : ∀ x ∈ xs, sizedV x = true) (hn : xs.length < 9223372036854775808) :
    ∃ c0 s pr, (impl o (.slice (primTy p)) v).res = .ok ∧
      setTarget tbl (.slice (uPrimTy p)) (Unf.zero tbl (.slice (uPrimTy p))) newUnfolder = .ok c0 ∧
      Enc.run {} (impl o (.slice (primTy p)) v).evs = (s, none) ∧ s.w.out ≠ [] ∧
      Parse.writeChunks {} [s.w.out] = (pr, none) ∧ pr = Parse.idle pr.evs ∧
      Parse.events pr = .arrStart xs.length (if isByteP p then BT.byte else BT.any) ::
        (xs.map (cborElem p)).map scEv ++ [.arrEnd] ∧
      feed c0 ((Parse.events pr).map fun e => [evToUEv e]) =
        (doneCtx (Unf.sliceFin (uPrimTy p) (xs.map (trPrim p))), none) := by
  rw [impl_slice o hfail p v xs _ hv (arrEv_eq true p xs hxs)]
  obtain ⟨henc, hok, hev, hconv⟩ := slice_codec p xs hxs hz hn
  obtain ⟨s, pr, h1, _, h3, h4, h5, h6⟩ := codec_leg _ (sliceItem p xs) hok henc
  rw [hev] at h6
  refine ⟨_, s, pr, rfl, Unf.setTarget_sliceK tbl _ (pkOf p) _ newUnfolder (ofExact_uPrimTy p), h1, h3, h4, h5, h6, ?_⟩
  rw [h6]
  have : ((Ev.arrStart xs.length (if isByteP p then BT.byte else BT.any) ::
        (xs.map (cborElem p)).map scEv ++ [Ev.arrEnd]).map fun e => [evToUEv e]) =
      (UEv.arrStart xs.length (if isByteP p then BT.byte else BT.any) ::
        (xs.map (cborElem p)).map UEv.scalar ++ [UEv.arrEnd]).map fun e => [e] := by
    rw [← map_scEv_tokens]
    simp [List.map_map, Function.comp_def, evToUEv]
  rw [this]
  apply feed_singles
  rw [typeFuel_succ]
  have hz0 : Unf.zero tbl (.slice (uPrimTy p)) = .sliceNil (uPrimTy p) := rfl
  rw [hz0, Unf.run_array_into_sliceK 255 tbl (pkOf p) (.sliceNil (uPrimTy p)) newUnfolder _ _ _ _ trivial rfl
    (by simp) hconv]
  rfl

/-! ## STAGE 2: `map[string]T` -/

theorem isObjX_objX (p : Prim) (ms : List (GoVal × GoVal)) : isObjX (objX p ms) = true := by cases p <;> rfl

theorem isObjX_reorder (s : St) (x : XEv) (h : isObjX x = true) : isObjX (reorderByHint s x) = true := by
  unfold reorderByHint
  split <;> first | rfl | exact h

theorem xevToUEvs_objX (x : XEv) (h : isObjX x = true) : xevToUEvs x = x.expand.map evToUEv := by
  cases x <;> simp [isObjX] at h <;> rfl

theorem memEvs_tokens : ∀ mems : List (Bytes × Sc), (memEvs mems).map evToUEv = memberEvents mems
  | [] => rfl
  | (k, s) :: r => by simp only [memEvs, List.map_cons, memberEvents, evToUEv_scEv, memEvs_tokens r]; rfl

theorem eventsMems_memItems : ∀ mems : List (Bytes × Sc), (∀ m ∈ mems, scSmall m.2 = true) →
    eventsMems (memItems mems) = memEvs (mems.map fun m => (m.1, cborSc m.2))
  | [], _ => rfl
  | (k, s) :: r, h => by
    have := eventsMems_memItems r (fun y hy => h y (List.mem_cons_of_mem _ hy))
    simp only [memItems, List.map_cons, eventsMems, memEvs, scItem_events s (h (k, s) List.mem_cons_self)] at this ⊢
    rw [this]; rfl

theorem map_cbor_run (o : FoldOpts) (hfail : o.failAt = none) (hord : hintOK o.order) (p : Prim) (v : GoVal)
    (ms : List (GoVal × GoVal)) (hv : mapEntries? v = some ms) (hms : ∀ m ∈ ms, hasEntry p m = true)
    (hnd : (ms.map fun m => getS m.1).Nodup)
    (hz : ∀ m ∈ ms, sizedV m.1 = true ∧ sizedV m.2 = true) (hn : ms.length < 9223372036854775808) :
    ∃ c0 fin s pr mems, (impl o (.map .string (primTy p)) v).res = .ok ∧
      setTarget tbl (.map (uPrimTy p)) (Unf.zero tbl (.map (uPrimTy p))) newUnfolder = .ok c0 ∧
      fin.Perm (ms.map fun m => (getS m.1, trPrim p m.2)) ∧
      Enc.run {} (impl o (.map .string (primTy p)) v).evs = (s, none) ∧ s.w.out ≠ [] ∧
      Parse.writeChunks {} [s.w.out] = (pr, none) ∧ pr = Parse.idle pr.evs ∧
      mems.Perm (ms.map fun m => (getS m.1, cborSc (scOfElem false p m.2))) ∧
      Parse.events pr = .objStart ms.length BT.any :: memEvs mems ++ [.objEnd] ∧
      feed c0 ((Parse.events pr).map fun e => [evToUEv e]) = (doneCtx (Unf.mapSt (uPrimTy p) fin), none) := by
  rw [impl_map o hfail p v ms _ hv (objEv_eq p ms hms)]
  obtain ⟨mems, htok, hperm⟩ := objX_tokens (st0 o) hord p ms hnd
  have hisobj := isObjX_reorder (st0 o) _ (isObjX_objX p ms)
  have hlen : mems.length = ms.length := by simpa [memsOf] using hperm.length_eq
  -- the expansion of the (reordered) typed-map event
  have hexp : (reorderByHint (st0 o) (objX p ms)).expand =
      .objStart mems.length (btOf false p) :: memEvs mems ++ [.objEnd] := by
    apply map_evToUEv_inj
    rw [← xevToUEvs_objX _ hisobj, htok, hlen]
    simp [evToUEv, memEvs_tokens]
  have hmem : ∀ m ∈ mems, ∃ m0 ∈ ms, m = (getS m0.1, scOfElem false p m0.2) := by
    intro m hm
    have := hperm.mem_iff.mp hm
    simp only [memsOf, List.mem_map] at this
    obtain ⟨m0, h0, rfl⟩ := this
    exact ⟨m0, h0, rfl⟩
  have hsm : ∀ m ∈ mems, m.1.length < 9223372036854775808 ∧ scSmall m.2 = true := by
    intro m hm
    obtain ⟨m0, h0, rfl⟩ := hmem m hm
    have hk := hasEntry_key (hms m0 h0)
    refine ⟨?_, small_elem false p m0.2 hk.2 (hz m0 h0).2⟩
    have := (hz m0 h0).1
    revert this
    cases m0.1 <;> simp [sizedV, getS]
  have hsm2 : ∀ m ∈ mems, scSmall m.2 = true := fun m hm => (hsm m hm).2
  have hconv : ∀ m ∈ mems, (pkOf p).conv m.2 = some (convD (pkOf p) m.2) ∧
      ∃ m0 ∈ ms, m = (getS m0.1, scOfElem false p m0.2) ∧ convD (pkOf p) m.2 = trPrim p m0.2 := by
    intro m hm
    obtain ⟨m0, h0, rfl⟩ := hmem m hm
    have hc := conv_elem false p m0.2 (hasEntry_key (hms m0 h0)).2
    exact ⟨by simp [convD, hc], m0, h0, rfl, by simp [convD, hc]⟩
  have hkeys : (mems.map (·.1)).Nodup := by
    have h1 := hperm.map (·.1)
    rw [h1.nodup_iff]
    simpa [memsOf, List.map_map, Function.comp_def] using hnd
  have hput := putAll_nodup (pkOf p) mems [] (fun m hm => by rw [(hconv m hm).1]; rfl) hkeys
    (fun _ _ a ha => by cases ha)
  have hfin : (mems.map fun m => (m.1, convD (pkOf p) m.2)).Perm (ms.map fun m => (getS m.1, trPrim p m.2)) := by
    have h1 := hperm.map (fun m : Bytes × Sc => (m.1, convD (pkOf p) m.2))
    refine h1.trans (List.Perm.of_eq ?_)
    simp only [memsOf, List.map_map]
    apply List.map_congr_left
    intro m0 h0
    have hc := conv_elem false p m0.2 (hasEntry_key (hms m0 h0)).2
    simp [convD, hc]
  -- the codec leg
  have henc := run_objX _ hisobj (btOf false p) mems hexp (by omega) hsm
  have hok : (Item.map (Enc.minW mems.length) (memItems mems)).ok = true := by
    have hl : (memItems mems).length = mems.length := by simp [memItems]
    simp only [Item.ok, hl, okMems_memItems mems hsm, Enc.minW_fits' _ (show mems.length < 9223372036854775808 by omega),
      Bool.and_true, Bool.true_and, decide_eq_true_eq]
    omega
  obtain ⟨s, pr, h1, _, h3, h4, h5, h6⟩ := codec_leg _ _ hok henc
  have hev : (Item.map (Enc.minW mems.length) (memItems mems)).events =
      .objStart ms.length BT.any :: memEvs (mems.map fun m => (m.1, cborSc m.2)) ++ [.objEnd] := by
    have hl : (memItems mems).length = mems.length := by simp [memItems]
    simp only [Item.events, hl, hlen, eventsMems_memItems mems hsm2]
  rw [hev] at h6
  have hperm2 : (mems.map fun m => (m.1, cborSc m.2)).Perm (ms.map fun m => (getS m.1, cborSc (scOfElem false p m.2))) := by
    have := hperm.map (fun m : Bytes × Sc => (m.1, cborSc m.2))
    simpa [memsOf, List.map_map, Function.comp_def] using this
  refine ⟨_, _, s, pr, _, rfl, Unf.setTarget_mapK tbl _ (pkOf p) _ newUnfolder (ofExact_uPrimTy p), hfin, h1, h3, h4, h5,
    hperm2, h6, ?_⟩
  rw [h6]
  have : ((Ev.objStart ms.length BT.any :: memEvs (mems.map fun m : Bytes × Sc => (m.1, cborSc m.2)) ++ [Ev.objEnd]).map
        fun e => [evToUEv e]) =
      (UEv.objStart ms.length BT.any :: memberEvents (mems.map fun m : Bytes × Sc => (m.1, cborSc m.2)) ++ [UEv.objEnd]).map
        fun e => [e] := by
    rw [← memEvs_tokens]
    simp [List.map_map, Function.comp_def, evToUEv]
  rw [this]
  apply feed_singles
  have hz0 : Unf.zero tbl (.map (uPrimTy p)) = .mapNil (uPrimTy p) := rfl
  have hput' : putAll (pkOf p) (mems.map fun m => (m.1, cborSc m.2)) [] =
      some ([] ++ mems.map fun m => (m.1, convD (pkOf p) m.2)) := by
    rw [putAll_cborSc _ (pkOf_ne_ifc p) mems [] hsm2]; exact hput
  rw [typeFuel_succ, hz0,
    Unf.run_object_into_mapK 255 tbl (pkOf p) (.mapNil (uPrimTy p)) (uPrimTy p) [] _ newUnfolder _ _ _ rfl rfl hput']
  congr 1
  simp only [List.nil_append, Unf.mapFinK, Unf.mapSt, doneCtx]
  cases mems <;> rfl

end SF.FuCbor
