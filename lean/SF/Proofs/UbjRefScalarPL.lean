/-
  UBJSON refinement: the payload lemma for scalars and strings.
-/
import SF.Proofs.UbjRefItem
namespace SF.Ubjson.Parse
open SF SF.Ubjson SF.Ubjson.Syn
open StateType StateStep

/-! ## scalars and strings -/

theorem isEmpty_append_of_length {a : Bytes} {n : Nat} (ha : a.length = n + 1) (rest : Bytes) :
    (a ++ rest).isEmpty = false := by
  cases a with
  | nil => simp at ha
  | cons x l => rfl

theorem pl_null : PLs .null := by
  intro f S c VS LS lc vt E rest _
  refine ⟨vt, ?_⟩
  simp only [pcost, istart, Item.payload, Item.events, List.nil_append]
  rw [feedUntil_succ _ _ _ (by simp [pending, mk]), step_nil]; rfl

theorem pl_tru : PLs .tru := by
  intro f S c VS LS lc vt E rest _
  refine ⟨vt, ?_⟩
  simp only [pcost, istart, Item.payload, Item.events, List.nil_append]
  rw [feedUntil_succ _ _ _ (by simp [pending, mk]), step_true]; rfl

theorem pl_fals : PLs .fals := by
  intro f S c VS LS lc vt E rest _
  refine ⟨vt, ?_⟩
  simp only [pcost, istart, Item.payload, Item.events, List.nil_append]
  rw [feedUntil_succ _ _ _ (by simp [pending, mk]), step_false]; rfl

theorem pl_int (k : IK) (v : Int) (h : k.inRange v = true) : PLs (.int k v) := by
  intro f S c VS LS lc vt E rest _
  refine ⟨vt, ?_⟩
  simp only [pcost, istart, Item.payload, Item.events]
  have hlen := twos_length k.bytes v
  simp only [IK.inRange, NumKind.inRange, Bool.and_eq_true, decide_eq_true_eq] at h
  cases k
  · -- i8
    simp only [IK.bytes] at hlen ⊢
    obtain ⟨b0, hb⟩ := single_of_length hlen
    have hr : readInt8 b0 = v := by
      have := toSigned_twos_1 v (by simpa [IK.kind, NumKind.lo] using h.1) (by simpa [IK.kind, NumKind.hi] using h.2)
      rw [hb, beNat_single] at this; exact this
    rw [hb, feedUntil_succ _ _ _ (by simp), List.cons_append, List.nil_append, IKstep, step_int8, hr]; rfl
  · -- u8
    simp only [IK.bytes] at hlen ⊢
    obtain ⟨b0, hb⟩ := single_of_length hlen
    have hr : (b0.toNat : Int) = v := by
      have h1 : 0 ≤ v := by simpa [IK.kind, NumKind.lo] using h.1
      have h2 : v ≤ 255 := by simpa [IK.kind, NumKind.hi] using h.2
      have hm : (v % 256).toNat < 256 ^ 1 := by omega
      have := beNat_beBytes 1 (v % 256).toNat hm
      have hb' : Enc.twos 1 v = beBytes 1 (v % 256).toNat := by simp [Enc.twos]
      rw [← hb', hb, beNat_single] at this
      omega
    rw [hb, feedUntil_succ _ _ _ (by simp), List.cons_append, List.nil_append, IKstep, step_uint8, hr]; rfl
  · -- i16
    simp only [IK.bytes] at hlen ⊢
    have hr := toSigned_twos_2 v (by simpa [IK.kind, NumKind.lo] using h.1) (by simpa [IK.kind, NumKind.hi] using h.2)
    rw [feedUntil_succ _ _ _ (by simp [isEmpty_append_of_length hlen]), IKstep, step_int16 _ _ _ _ _ _ _ _ hlen,
      readInt16, hr]; rfl
  · -- i32
    simp only [IK.bytes] at hlen ⊢
    have hr := toSigned_twos_4 v (by simpa [IK.kind, NumKind.lo] using h.1) (by simpa [IK.kind, NumKind.hi] using h.2)
    rw [feedUntil_succ _ _ _ (by simp [isEmpty_append_of_length hlen]), IKstep, step_int32 _ _ _ _ _ _ _ _ hlen,
      readInt32, hr]; rfl
  · -- i64
    simp only [IK.bytes] at hlen ⊢
    have hr := toSigned_twos_8 v (by simpa [IK.kind, NumKind.lo] using h.1) (by simpa [IK.kind, NumKind.hi] using h.2)
    rw [feedUntil_succ _ _ _ (by simp [isEmpty_append_of_length hlen]), IKstep, step_int64 _ _ _ _ _ _ _ _ hlen,
      readInt64, hr]; rfl

theorem pl_f32 (b : UInt32) : PLs (.f32 b) := by
  intro f S c VS LS lc vt E rest _
  refine ⟨vt, ?_⟩
  simp only [pcost, istart, Item.payload, Item.events]
  have hlen : (beBytes 4 b.toNat).length = 4 := by simp
  have hr : readFloat32 (beBytes 4 b.toNat) = b := by
    simp only [readFloat32]
    rw [beNat_beBytes 4 _ (by have := b.toNat_lt; omega)]
    simp
  rw [feedUntil_succ _ _ _ (by simp [isEmpty_append_of_length hlen]), step_float32 _ _ _ _ _ _ _ _ hlen, hr]; rfl

theorem pl_f64 (b : UInt64) : PLs (.f64 b) := by
  intro f S c VS LS lc vt E rest _
  refine ⟨vt, ?_⟩
  simp only [pcost, istart, Item.payload, Item.events]
  have hlen : (beBytes 8 b.toNat).length = 8 := by simp
  have hr : readFloat64 (beBytes 8 b.toNat) = b := by
    simp only [readFloat64]
    rw [beNat_beBytes 8 _ (by have := b.toNat_lt; omega)]
    simp
  rw [feedUntil_succ _ _ _ (by simp [isEmpty_append_of_length hlen]), step_float64 _ _ _ _ _ _ _ _ hlen, hr]; rfl

theorem pl_char (ch : UInt8) : PLs (.char ch) := by
  intro f S c VS LS lc vt E rest _
  refine ⟨vt, ?_⟩
  simp only [pcost, istart, Item.payload, Item.events]
  rw [feedUntil_succ _ _ _ (by simp), step_char _ _ _ _ _ _ _ [ch] rfl, beNat_single]; rfl

theorem pl_str (w : LW) (s : Bytes) (h : w.fits s.length = true) : PLs (.str w s) := by
  intro f S c VS LS lc vt E rest _
  refine ⟨vt, ?_⟩
  simp only [pcost, istart, Item.payload, Item.events, List.append_assoc]
  rw [feedUntil_succ _ _ _ (by simp [lenWire]), step_string _ _ _ _ _ _ _ stString (Or.inl rfl) w s rest h]; rfl

theorem pl_hp (w : LW) (s : Bytes) (h : w.fits s.length = true) : PLs (.hp w s) := by
  intro f S c VS LS lc vt E rest _
  refine ⟨vt, ?_⟩
  simp only [pcost, istart, Item.payload, Item.events, List.append_assoc]
  rw [feedUntil_succ _ _ _ (by simp [lenWire]), step_string _ _ _ _ _ _ _ stHighPrec (Or.inr rfl) w s rest h]; rfl

end SF.Ubjson.Parse
