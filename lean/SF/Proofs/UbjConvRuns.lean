/-
  C06, converse direction: the error-free runs of the main loop, counted (`RunsK k p b q`:
  `k` steps of `execStep`, none of which fails, lead from `p` over the input `b` to `q`,
  where the input is used up and nothing is pending).  The fuel-free relation `Runs` of
  SF/Proofs/UbjChunkRun.lean with verdict `none` is `∃ k, RunsK k`.
-/
import SF.Proofs.UbjChunkRun
import SF.Proofs.UbjRefItem
import SF.Proofs.UbjConvItem
import SF.Proofs.UbjConvNum
set_option linter.unusedSimpArgs false
set_option linter.unusedVariables false
namespace SF.Ubjson.Conv
open SF SF.Ubjson SF.Ubjson.Parse SF.Ubjson.Chunk SF.Ubjson.Syn
open StateType StateStep

inductive RunsK : Nat → P → Bytes → P → Prop
  | stop {p : P} {b : Bytes} : ¬ More p b → RunsK 0 p b p
  | step {k : Nat} {p : P} {b : Bytes} {q : P} : More p b → (execStep p b).err = none →
      RunsK k (execStep p b).p (execStep p b).rest q → RunsK (k + 1) p b q

theorem runsK_of_runs {p : P} {b : Bytes} {q : P} {e : Option Err} (h : Runs p b q e) (he : e = none) :
    ∃ k, RunsK k p b q := by
  induction h with
  | stop hm => exact ⟨0, RunsK.stop hm⟩
  | err _ _ => cases he
  | step hm hre _ ih =>
    obtain ⟨k, hk⟩ := ih he
    exact ⟨k + 1, RunsK.step hm hre hk⟩

/-- the run takes a step -/
theorem RunsK.next {k : Nat} {p : P} {b : Bytes} {q : P} (h : RunsK k p b q) (hm : More p b) :
    ∃ j, k = j + 1 ∧ (execStep p b).err = none ∧ RunsK j (execStep p b).p (execStep p b).rest q := by
  cases h with
  | stop hm' => exact absurd hm hm'
  | step _ he hr => exact ⟨_, rfl, he, hr⟩

/-- the run is over -/
theorem RunsK.halt {k : Nat} {p : P} {b : Bytes} {q : P} (h : RunsK k p b q) (hm : ¬ More p b) :
    k = 0 ∧ q = p := by
  cases h with
  | stop _ => exact ⟨rfl, rfl⟩
  | step hm' _ _ => exact absurd hm' hm

/-- the run takes a step whose result is known -/
theorem RunsK.next_eq {k : Nat} {p : P} {b : Bytes} {q : P} (h : RunsK k p b q) (hm : More p b)
    {p' : P} {rest : Bytes} {d : Bool} {e : Option Err} (he : execStep p b = ⟨p', rest, d, e⟩) :
    e = none ∧ ∃ j, k = j + 1 ∧ RunsK j p' rest q := by
  obtain ⟨j, hk, h1, h2⟩ := h.next hm
  rw [he] at h1 h2
  exact ⟨h1, j, hk, h2⟩

/-- a step that does not fail, uses up the input and leaves nothing pending is the last one -/
theorem RunsK.stuck {k : Nat} {p : P} {b : Bytes} {q : P} (h : RunsK k p b q) (hm : More p b)
    (hr : (execStep p b).rest = []) (hp : pending (execStep p b).p = false) : q = (execStep p b).p := by
  obtain ⟨j, _, _, h2⟩ := h.next hm
  rw [hr] at h2
  exact (h2.halt (by rintro (h | h); exact h rfl; rw [hp] at h; cases h)).2

/-- two configurations that take the same step -/
theorem RunsK.congr {k : Nat} {p p' : P} {b : Bytes} {q : P} (h : RunsK k p b q) (hm : More p b)
    (hm' : More p' b) (he : execStep p b = execStep p' b) : RunsK k p' b q := by
  obtain ⟨j, rfl, h1, h2⟩ := h.next hm
  rw [he] at h1 h2
  exact RunsK.step hm' h1 h2

theorem more_cons (p : P) (x : UInt8) (xs : Bytes) : More p (x :: xs) := Or.inl (by simp)

/-- the outcome of a step is that of the dispatch -/
theorem execStep_of_dispatch {p : P} {b : Bytes} {r : R} (h : dispatch p b = r) :
    (execStep p b).err = r.err ∧ (r.err = none → execStep p b = r) := by
  rw [execStep_eq, h]
  cases hr : r.err with
  | none => exact ⟨hr, fun _ => rfl⟩
  | some e => exact ⟨hr, fun h => by cases h⟩

/-! ## explicit configurations -/

/-- a configuration with a token in progress: a pending length marker / buffered bytes -/
def mkP (S : List St) (c : St) (VS : StateStack) (LS : List Int) (lc : Int) (vt : Nat) (E : List Ev)
    (m : UInt8) (buf : Bytes) : P :=
  { state := ⟨S, c⟩, valueState := VS, length := ⟨LS, lc⟩, buffer := buf, marker := m,
    valueType := vt, err := none, evs := E, failAt := none }

theorem mkP_mk (S : List St) (c : St) (VS : StateStack) (LS : List Int) (lc : Int) (vt : Nat) (E : List Ev) :
    mkP S c VS LS lc vt E noMarker [] = mk S c VS LS lc vt E := rfl

theorem pending_mkP (S : List St) (c : St) (VS : StateStack) (LS : List Int) (lc : Int) (vt : Nat) (E : List Ev)
    (m : UInt8) (buf : Bytes) : pending (mkP S c VS LS lc vt E m buf) = pending (mk S c VS LS lc vt E) := rfl

/-- from the empty input, with nothing pending, the run is over: the final state is this one -/
theorem RunsK.halt_nil {k : Nat} {S : List St} {c : St} {VS : StateStack} {LS : List Int} {lc : Int} {vt : Nat}
    {E : List Ev} {q : P} (h : RunsK k (mk S c VS LS lc vt E) [] q) (hp : pending (mk S c VS LS lc vt E) = false) :
    q.state.stack = S := by
  have := (h.halt (by rintro (h | h); exact h rfl; rw [hp] at h; cases h)).2
  rw [this]; rfl

/-- a step that parks a partial token ends the run inside the value -/
theorem RunsK.parked {k : Nat} {p : P} {b : Bytes} {q : P} (h : RunsK k p b q) (hm : More p b)
    {S : List St} {c : St} {VS : StateStack} {LS : List Int} {lc : Int} {vt : Nat} {E : List Ev} {m : UInt8}
    {buf : Bytes} {d : Bool}
    (he : execStep p b = ⟨mkP S c VS LS lc vt E m buf, [], d, none⟩)
    (hp : pending (mk S c VS LS lc vt E) = false) : q.state.stack = S := by
  have := h.stuck hm (by rw [he]) (by rw [he]; exact hp)
  rw [this, he]; rfl

end SF.Ubjson.Conv
