/-
  The main induction of property C12 on good types WITH CUSTOM CODE (cf. FoldMain): the compiled
  folder of a type, run on a typed value, delivers events whose value matches what the rules say
  — by induction on the depth of the value, simultaneously for `run` (R), `foldInterfaceValue`
  (I) and the field folders of a struct (F).  New against FoldMain: the LEAVES (a type with a
  custom folder, a pointer to one: the events of the folder, `CusLeaf.custom_leaf`), `omitempty`
  with `IsZero()` (`CusEmpty`), `inline` of a custom folder's object (`CusRun.embedd_mems`).
-/
import SF.Proofs.FoldMain
import SF.Proofs.CusRun
namespace SF.FoldProofs.Custom
open SF SF.Gotype SF.Gotype.Fold SF.Gotype.Rules

/-- (R) the compiled folder of `T` on values of depth < N -/
def RunSound (o : FoldOpts) (reg : Bool) (N : Nat) : Prop :=
  ∀ sn T v, vdepth v < N → goodC reg sn T = true → tdepth T ≤ 1000 → wtC reg T v = true →
    ∀ cf op f, OpIn op sn → getReflectFold cf o op T = .ok f →
    ∀ m r, foldF m reg T v = .ok r →
    ∀ rf, 3 * vdepth v + 3 ≤ rf → ∀ s, Inv s → ValOut s (run rf o .user f ⟨T, v⟩ s) r

/-- (I) `foldInterfaceValue` on interface values of depth < N -/
def IfaceSound (o : FoldOpts) (reg : Bool) (N : Nat) : Prop :=
  ∀ i, vdepth i < N → wtC reg .iface i = true → ∀ m r, foldF m reg .iface i = .ok r →
    ∀ rf, 3 * vdepth i + 3 ≤ rf → ∀ s, Inv s → ValOut s (foldInterfaceValue rf o .user i s) r

/-- (F) the field folders of a struct on struct values of depth < N -/
def FieldsSound (o : FoldOpts) (reg : Bool) (N : Nat) : Prop :=
  ∀ sn fs vs, vdepthL vs + 1 < N → goodCFs reg sn fs = true → tdepthFs fs ≤ 1000 → wtCF reg fs vs = true →
    ∀ (rv : RV) k, (∀ j f x, fs[j]? = some f → vs[j]? = some x → rv.field (k + j) = some ⟨f.typ, x⟩) →
    ∀ cf op fvs, OpIn op sn → (fs.zipIdx k).mapM (fun (x : Field × Nat) => buildFieldFold cf o op x.1 x.2) = .ok fvs →
    ∀ m segss, (fs.zip vs).mapM (fun (fx : Field × GoVal) => fieldF m reg fx.1 fx.2) = .ok segss →
    ∀ rf, 3 * (vdepthL vs + 1) + 2 ≤ rf → ∀ s, Inv s →
      MemsOut s (seqM (fun s fv => run rf o .user fv rv s) s (fvs.filterMap id)) segss.flatten

theorem seq_sound {o : FoldOpts} {reg : Bool} {N : Nat} (hR : RunSound o reg N)
    {sn : List String} {e : GoType} (he : goodC reg sn e = true) (hde : tdepth e ≤ 1000) {xs : List GoVal}
    (hw : wtCL reg e xs = true) (hd : ∀ x ∈ xs, vdepth x < N)
    {cf : Nat} {op : Open} {el : ReFold} (hop : OpIn op sn) (hel : getReflectFold cf o op e = .ok el)
    {m : Nat} {rs : List RVal} (hspec : xs.mapM (foldF m reg e) = .ok rs)
    {rf : Nat} (hrf : ∀ x ∈ xs, 3 * vdepth x + 3 ≤ rf) (l : Int) {s : St} (hs : Inv s) :
    ValOut s (match emit s .user (.ev (.arrStart l BT.any)) with
      | (s, .ok) =>
        match seqM (fun s x => run rf o .user el ⟨e, x⟩ s) s xs with
        | (s, .ok) => emit s .user (.ev .arrEnd)
        | r => r
      | r => r) (.arr rs) := by
  refine wrap_arr hs l BT.any _ rs (seq_elems _ ?_)
  refine (mapM_ok hspec).imp ?_
  intro x r hx _ hxr s hs
  exact hR sn e x (hd x hx) he hde (wtL_mem hw hx) cf op el hop hel m r hxr rf (hrf x hx) s hs

/-! ## maps -/

theorem mapiter_sound {o : FoldOpts} {reg : Bool} {N : Nat} (hR : RunSound o reg N) (hI : IfaceSound o reg N)
    {sn : List String} {T k e : GoType} (hu : T.under = .map k e)
    (he : goodC reg sn e = true) (hde : tdepth e ≤ 1000) {v : GoVal}
    (hw : wtC reg T v = true) (hd : vdepth v < N + 1)
    {cf : Nat} {op : Open} {iter : ReFold} (hop : OpIn op sn)
    (hit : getReflectFoldMapKeys cf o op T = .ok iter)
    {m : Nat} {r : RVal} (hspec : foldF m reg (.map k e) v = .ok r) :
    ∃ segs, r = .obj segs ∧ ∀ rf, 3 * vdepth v + 2 ≤ rf → ∀ s, Inv s →
      MemsOut s (run rf o .user iter ⟨T, v⟩ s) segs := by
  cases m with
  | zero => exact (foldF_zero hspec).elim
  | succ m =>
  cases cf with
  | zero => simp [getReflectFoldMapKeys] at hit
  | succ c =>
  rw [grfmk_good c o op hu] at hit
  have hks : k.under = .string := by
    cases hk : k.under <;> first | rfl | (simp [hk] at hit)
  have hsk := isStringKind_of_under hks
  simp only [hks] at hit
  have helem : T.elem = e := elem_of_under.2.2.1 k e hu
  rcases wt_map_inv hu hw with rfl | ⟨ms, rfl, hwp, hnd⟩
  · -- nil map
    rw [foldF_map_nil] at hspec
    simp only [hsk, if_true, Except.ok.injEq] at hspec
    refine ⟨[], hspec.symm, ?_⟩
    intro rf hrf s hs
    obtain ⟨rf', rfl⟩ := exists_succ (k := 0) (by omega : 0 + 1 ≤ rf)
    have hrun : run (rf' + 1) o .user iter ⟨T, .nilMap⟩ s = (s, .ok) := by
      by_cases hi : e = .iface
      · subst hi
        simp only [Except.ok.injEq] at hit
        subst hit
        rw [run_mapInline]
      · cases hpr : primOf? e with
        | some p =>
          have : iter = .mapInline (some p) := by
            cases e <;> first | (exact absurd rfl hi) | (simp only [hpr, Except.ok.injEq] at hit; exact hit.symm)
          subst this
          rw [run_mapInline]
        | none =>
          cases hel : getReflectFold c o op e with
          | error err =>
            exfalso
            cases e <;> first | (exact absurd rfl hi) | (simp [hpr, hel] at hit)
          | ok el =>
            have : iter = .mapKeys el := by
              cases e <;> first | (exact absurd rfl hi) | (simp only [hpr, hel, Except.ok.injEq] at hit; exact hit.symm)
            subst this
            rw [run_mapKeys]
    rw [hrun]
    exact MemsOut_nil hs
  · -- a map with entries
    rw [foldF_map] at hspec
    simp only [hsk, Bool.not_true, Bool.false_eq_true, if_false] at hspec
    obtain ⟨mems, hmems, rfl⟩ := map_ok_inv hspec
    have hes := entries_spec hmems
    have hkn := keys_nodup hes hnd
    obtain ⟨es, hsk', hlen, hall, hmem⟩ := stringKeyed_spec hes
    refine ⟨[(true, mems)], rfl, ?_⟩
    intro rf hrf s hs
    obtain ⟨rf', rfl⟩ := exists_succ (k := 0) (by omega : 0 + 1 ≤ rf)
    rw [vdepth_map] at hrf hd
    have hsub : ∀ x ∈ es, wtC reg e x.2 = true ∧ vdepth x.2 ≤ vdepthP ms := by
      intro x hx
      obtain ⟨kx, hkx, e1⟩ := hmem x hx
      rw [← e1]
      exact ⟨wtP_mem hwp hkx, vdepthP_mem hkx⟩
    by_cases hi : e = .iface
    · subst hi
      simp only [Except.ok.injEq] at hit
      subst hit
      rw [run_mapInline]
      simp only [hsk']
      refine range_mems (fun s (x : Bytes × GoVal) => foldInterfaceValue rf' o .user x.2 s)
        (fun x => foldF m reg .iface x.2) hall hkn ?_ es.length (Nat.le_refl _) s hs
      intro x hx r hr s hs
      obtain ⟨h1, h2⟩ := hsub x hx
      exact hI x.2 (by omega) h1 m r hr rf' (by omega) s hs
    · cases hpr : primOf? e with
      | some p =>
        have : iter = .mapInline (some p) := by
          cases e <;> first | (exact absurd rfl hi) | (simp only [hpr, Except.ok.injEq] at hit; exact hit.symm)
        subst this
        rw [run_mapInline]
        simp only [hsk']
        refine range_mems (fun s (x : Bytes × GoVal) =>
            match elemEv p x.2 with
            | some x => emit s .user x
            | none => (s, .panic))
          (fun x => foldF m reg e x.2) hall hkn ?_ es.length (Nat.le_refl _) s hs
        intro x hx r hr s hs
        obtain ⟨y, hy1, hy2⟩ := elem_sound hpr hr hs
        simp only [hy1]
        exact hy2
      | none =>
        cases hel : getReflectFold c o op e with
        | error err =>
          exfalso
          cases e <;> first | (exact absurd rfl hi) | (simp [hpr, hel] at hit)
        | ok el =>
          have : iter = .mapKeys el := by
            cases e <;> first | (exact absurd rfl hi) | (simp only [hpr, hel, Except.ok.injEq] at hit; exact hit.symm)
          subst this
          rw [run_mapKeys]
          simp only [hsk', helem]
          refine range_mems (fun s (x : Bytes × GoVal) => run rf' o .user el ⟨e, x.2⟩ s)
            (fun x => foldF m reg e x.2) hall hkn ?_ es.length (Nat.le_refl _) s hs
          intro x hx r hr s hs
          obtain ⟨h1, h2⟩ := hsub x hx
          exact hR sn e x.2 (by omega) he hde h1 c op el hop hel m r hr rf' (by omega) s hs

/-- `foldAnyReflect` on a typed value of a good dynamic type the rules accept -/
theorem anyreflect_sound {o : FoldOpts} {reg : Bool} (hreg : o.folders = reg) {N : Nat} (hR : RunSound o reg N)
    {sn seen : List String} {dt : GoType} {dv : GoVal} (hp : goodC reg sn dt = true) (hdt : tdepth dt ≤ dynBound)
    (hw : wtC reg dt dv = true) (hd : vdepth dv < N)
    (hsub : ∀ x ∈ seen, x ∈ sn) {n : Nat} (htok : typeOkF n reg seen dt = .ok ())
    {m : Nat} {r : RVal} (hspec : foldF m reg dt dv = .ok r)
    {rf : Nat} (hrf : 3 * vdepth dv + 4 ≤ rf) {s : St} (hs : Inv s) :
    ValOut s (foldAnyReflect rf o .user ⟨dt, dv⟩ s) r := by
  obtain ⟨rf', rfl⟩ := exists_succ (k := 0) (by omega : 0 + 1 ≤ rf)
  obtain ⟨f, hf⟩ := compile_ok' o hreg hp hdt hsub htok
  rw [foldAnyReflect_eq]
  simp only [hf]
  exact hR sn dt dv hd hp (by unfold dynBound at hdt; omega) hw compileFuel {} f (OpIn_empty _) hf m r hspec
    rf' (by omega) s hs

/-! ## leaves -/

/-- rule 2 on a value of a type with a custom folder: the events of the folder, and what is
known about them -/
theorem c1_spec {reg : Bool} {n : String} {mm : Methods} {u : GoType} (h1 : isC1 reg (.named n mm u) = true)
    {v : GoVal} {m : Nat} {r : RVal} (hspec : foldF m reg (.named n mm u) v = .ok r) :
    ∃ n' b xs, customOf reg (.named n mm u) = some (n', b) ∧ customEvents n' (recvOf b v) = some xs ∧
      Leaf xs r := by
  obtain ⟨p, hcp⟩ := Option.isSome_iff_exists.mp h1
  obtain ⟨n', b⟩ := p
  cases m with
  | zero => exact (foldF_zero hspec).elim
  | succ m =>
    rw [foldF_c1 m hcp] at hspec
    obtain ⟨xs, hxs, hsp⟩ := customValue_ok hspec
    exact ⟨n', b, xs, hcp, hxs, custom_leaf hxs hsp⟩

/-- the compiled folder of a pointer to a type with a custom folder -/
theorem c2_sound {reg : Bool} (rf : Nat) (o : FoldOpts) {n : String} {mm : Methods} {u : GoType}
    (h1 : isC1 reg (.named n mm u) = true) {v : GoVal} (hw : wtC reg (.ptr (.named n mm u)) v = true)
    {m : Nat} {r : RVal} (hspec : foldF m reg (.ptr (.named n mm u)) v = .ok r) {s : St} (hs : Inv s) :
    ValOut s (run (rf + 1) o .user (leafC2 reg n) ⟨.ptr (.named n mm u), v⟩ s) r := by
  obtain ⟨p, hcp⟩ := Option.isSome_iff_exists.mp h1
  obtain ⟨n', b⟩ := p
  cases m with
  | zero => exact (foldF_zero hspec).elim
  | succ m =>
  rcases wt_ptr_inv (T := .ptr (.named n mm u)) rfl hw with rfl | ⟨x, rfl, _⟩
  · rw [foldF_ptr_nil_eq, hcp] at hspec
    cases b with
    | true =>
      simp only [] at hspec
      obtain ⟨xs, hxs, hsp⟩ := customNil_ok hspec
      rw [run_leafC2_nil_ptr rf o .user hcp s, hxs]
      exact leaf_user (custom_leaf hxs hsp) hs
    | false =>
      simp only [] at hspec
      cases hspec
      rw [run_leafC2_nil_val rf o .user hcp s]
      exact emit_scalar hs Enc_null (by simp [Rel])
  · rw [foldF_ptr] at hspec
    obtain ⟨n2, b2, xs, hcp2, hxs, hl⟩ := c1_spec h1 hspec
    rw [hcp] at hcp2
    cases hcp2
    rw [run_leafC2_ptr rf o .user hcp x s, hxs]
    exact leaf_user hl hs

/-! ## struct fields -/

theorem wtF_get {reg : Bool} {fs : List Field} {vs : List GoVal} (h : wtCF reg fs vs = true) {j : Nat} {f : Field}
    {x : GoVal} (hf : fs[j]? = some f) (hx : vs[j]? = some x) : wtC reg f.typ x = true := by
  induction fs generalizing vs j with
  | nil => simp at hf
  | cons g fs ih =>
    cases vs with
    | nil => simp at hx
    | cons y vs =>
      simp only [wtCF, Bool.and_eq_true] at h
      cases j with
      | zero =>
        simp only [List.getElem?_cons_zero, Option.some.injEq] at hf hx
        subst hf hx
        exact h.1.1
      | succ j =>
        simp only [List.getElem?_cons_succ] at hf hx
        exact ih h.2 hf hx

theorem applyResolvers_nil1000 (rv : RV) : applyResolvers 1000 [] rv = .keep rv := applyResolvers_nil 999 rv

/-- one field: nothing if it is dropped, else its field folder delivers its segments -/
theorem field_sound {o : FoldOpts} {reg : Bool} (hreg : o.folders = reg) {N : Nat}
    (hR : RunSound o reg N) (hI : IfaceSound o reg N) (hF : FieldsSound o reg N)
    {sn : List String} {f : Field} {x : GoVal} (hpf : goodCF reg sn f = true) (hdf : tdepth f.typ ≤ 1000)
    (hw : wtC reg f.typ x = true) (hlz : lazyField f = true → vdepth x ≤ lazyBound) (hd : vdepth x < N)
    {rv : RV} {k : Nat} (hfield : rv.field k = some ⟨f.typ, x⟩)
    {cf : Nat} {op : Open} {fo : Option ReFold} (hop : OpIn op sn)
    (hc : buildFieldFold cf o op f k = .ok fo)
    {m : Nat} {segs : List Seg} (hspec : fieldF m reg f x = .ok segs) :
    (fo = none ∧ segs = []) ∨
    (∃ fv, fo = some fv ∧ ∀ rf, 3 * (vdepth x + 1) + 2 ≤ rf → ∀ s, Inv s →
      MemsOut s (run rf o .user fv rv s) segs) := by
  have hpt := goodF_typ hpf
  obtain ⟨sn', hsn', hpb⟩ := good_stripPtr f.typ sn hpt
  have hop1 := OpIn_mono hop hsn'
  have hnp' := stripPtr_not_ptr' hpt
  cases cf with
  | zero => simp [buildFieldFold] at hc
  | succ c =>
  cases m with
  | zero => simp [fieldF] at hspec
  | succ m =>
  rw [buildFieldFold_eq] at hc
  rw [fieldF_eq] at hspec
  cases hk : fieldKind f with
  | drop =>
    simp only [hk, Except.ok.injEq] at hc hspec
    exact Or.inl ⟨hc.symm, hspec.symm⟩
  | conflict => simp [hk] at hc
  | plain name =>
    simp only [hk] at hc hspec
    cases hvv : getReflectFold c o op f.typ with
    | error e => simp [hvv] at hc
    | ok vv =>
      simp only [hvv, Except.ok.injEq] at hc
      obtain ⟨r, hr, rfl⟩ := map_ok_inv hspec
      refine Or.inr ⟨_, hc.symm, ?_⟩
      intro rf hrf s hs
      obtain ⟨rf', rfl⟩ := exists_succ (k := 0) (by omega : 0 + 1 ≤ rf)
      rw [run_field]
      simp only [hfield]
      refine key_then hs name _ r ?_
      intro s hs
      exact hR sn f.typ x hd hpt hdf hw c op vv hop hvv m r hr rf' (by omega) s hs
  | omitEmpty name =>
    simp only [hk] at hc hspec
    by_cases hi : isIfaceT (stripPtr f.typ).2 = true
    · -- an interface behind the pointers: the lazy resolver
      have hu := isIfaceT_iff.mp hi
      have hbt := baseType_good hpt hdf
      rw [hbt] at hc
      have hvv : getReflectFold c o op (stripPtr f.typ).2 = .ok .ifaceElem := by
        cases c with
        | zero => simp [getReflectFold] at hc
        | succ c' =>
          exact grf_iface c' o op hreg hpb (plain_of_notC1 (notC1_of_under_iface hpb hu) hnp') hop1 hu
      have hne : (makeResolveNonEmptyValue f.typ).isEmpty = false := by
        rw [mrnev_gen hpt hdf]
        simp [hi]
      simp only [hvv, hne, Bool.false_eq_true, if_false, Except.ok.injEq] at hc
      have hlzx : vdepth x ≤ lazyBound := hlz (by simp [lazyField, hk, hi])
      unfold lazyBound at hlzx
      refine Or.inr ⟨_, hc.symm, ?_⟩
      intro rf hrf s hs
      obtain ⟨rf', rfl⟩ := exists_succ (k := 0) (by omega : 0 + 1 ≤ rf)
      rw [run_nonEmptyField]
      simp only [hfield]
      rcases lazy_resolve (vdepth x + 1) sn f.typ x (by omega) hpt hw hdf 1000 100000 (by omega) (by omega) with
        ⟨hemp, hres⟩ | ⟨hemp, rv', hl, hres⟩
      · simp only [hemp, if_true, Except.ok.injEq] at hspec
        rw [hres, ← hspec]
        exact MemsOut_nil hs
      · simp only [hemp, Bool.false_eq_true, if_false] at hspec
        obtain ⟨r, hr, rfl⟩ := map_ok_inv hspec
        obtain ⟨T', v', htar, hlo, hstrict⟩ := lazy_ok hl hpt hdf hw hr (Or.inl hi)
        obtain ⟨hvd, htd⟩ := hstrict hi
        obtain ⟨sn2, seen2, n2, hg2, hsub2, htok2⟩ := hlo.good
        obtain ⟨m2, hm2⟩ := hlo.folds
        rw [hres]
        refine key_then hs name _ r ?_
        intro s hs
        obtain ⟨rf'', rfl⟩ := exists_succ (k := 0) (by omega : 0 + 1 ≤ rf')
        rw [run_ifaceElem_target htar]
        exact anyreflect_sound hreg hR hg2 htd hlo.typed (by omega) hsub2 htok2 hm2 (by omega) hs
    have hni : isIfaceT (stripPtr f.typ).2 = false := by simpa using hi
    have hbt := baseType_good hpt hdf
    have hres := resolve_good hpt hw hdf hni
    have hemp := isEmptyF_deref sn f.typ hpt x 100000 hw
      (by have := stripPtr_le_tdepth f.typ; omega) hni
    rw [hbt] at hc
    cases hvv : getReflectFold c o op (stripPtr f.typ).2 with
    | error e => simp [hvv] at hc
    | ok vv =>
      simp only [hvv] at hc
      have hdb := tdepth_stripPtr f.typ
      -- the value folder on a value that is kept
      have hinner : ∀ x', deref (stripPtr f.typ).1 x = some x' → ∀ r, foldF m reg f.typ x = .ok r →
          ∀ rf', 3 * vdepth x + 3 ≤ rf' → ∀ s, Inv s →
            ValOut s (run rf' o .user vv ⟨(stripPtr f.typ).2, x'⟩ s) r := by
        intro x' hdr r hr rf' hrf' s hs
        obtain ⟨hwx', hdx'⟩ := deref_wt sn f.typ hpt x x' hw hdr
        obtain ⟨m', hm'⟩ := foldF_deref_some sn f.typ hpt x m r x' hw hdr hr
        exact hR sn' _ x' (by omega) hpb (by omega) hwx' c op vv hop1 hvv m' r hm' rf' (by omega) s hs
      by_cases hne : (makeResolveNonEmptyValue f.typ).isEmpty = true
      · -- no resolver at all: an ordinary field, never empty
        have hnil : makeResolveNonEmptyValue f.typ = [] := List.isEmpty_iff.mp hne
        rw [hnil, applyResolvers_nil1000] at hres
        simp only [hne, if_true, Except.ok.injEq] at hc
        cases hdr : deref (stripPtr f.typ).1 x with
        | none => rw [hdr] at hres; cases hres
        | some x' =>
          rw [hdr] at hres hemp
          simp only [] at hres hemp
          cases hbe : baseEmpty (stripPtr f.typ).2 x' with
          | true => rw [hbe] at hres; simp at hres
          | false =>
            rw [hbe] at hres hemp
            simp only [Bool.false_eq_true, if_false, RRes.keep.injEq, RV.mk.injEq] at hres
            obtain ⟨hb, hx'⟩ := hres
            simp only [hemp, Bool.false_eq_true, if_false] at hspec
            obtain ⟨r, hr, rfl⟩ := map_ok_inv hspec
            refine Or.inr ⟨_, hc.symm, ?_⟩
            intro rf hrf s hs
            obtain ⟨rf', rfl⟩ := exists_succ (k := 0) (by omega : 0 + 1 ≤ rf)
            rw [run_field]
            simp only [hfield]
            refine key_then hs name _ r ?_
            intro s hs
            have := hinner x' hdr r hr rf' (by omega) s hs
            rw [← hb, ← hx'] at this
            exact this
      · simp only [hne, Bool.false_eq_true, if_false, Except.ok.injEq] at hc
        refine Or.inr ⟨_, hc.symm, ?_⟩
        intro rf hrf s hs
        obtain ⟨rf', rfl⟩ := exists_succ (k := 0) (by omega : 0 + 1 ≤ rf)
        rw [run_nonEmptyField]
        simp only [hfield, hres]
        cases hdr : deref (stripPtr f.typ).1 x with
        | none =>
          rw [hdr] at hemp
          simp only [] at hemp ⊢
          simp only [hemp, if_true, Except.ok.injEq] at hspec
          rw [← hspec]
          exact MemsOut_nil hs
        | some x' =>
          rw [hdr] at hemp
          simp only [] at hemp ⊢
          cases hbe : baseEmpty (stripPtr f.typ).2 x' with
          | true =>
            rw [hbe] at hemp
            simp only [hemp, if_true, Except.ok.injEq] at hspec ⊢
            rw [← hspec]
            exact MemsOut_nil hs
          | false =>
            rw [hbe] at hemp
            simp only [hemp, Bool.false_eq_true, if_false] at hspec ⊢
            obtain ⟨r, hr, rfl⟩ := map_ok_inv hspec
            exact key_then hs name _ r (hinner x' hdr r hr rf' (by omega))
  | inline =>
    simp only [hk] at hc hspec
    have hni : isIfaceT (stripPtr f.typ).2 = false := by
      have := goodF_notIface hpf
      simpa [inlineIfaceF, hk] using this
    have hbt := baseType_good hpt hdf
    have hdb := tdepth_stripPtr f.typ
    obtain ⟨fi, hfi, rfl⟩ := map_ok_inv hc
    cases c with
    | zero => simp [buildFieldFoldInline] at hfi
    | succ c2 =>
    rw [bffi_good c2 o op f k (sn := sn') (by rw [hbt]; exact hpb) hop1, hbt] at hfi
    cases hbase : fieldFoldGenInline c2 o (enterInl op (stripPtr f.typ).2) (stripPtr f.typ).2 with
    | error e => simp [hbase] at hfi
    | ok base =>
      simp only [hbase, Except.ok.injEq] at hfi
      subst hfi
      refine Or.inr ⟨_, rfl, ?_⟩
      have hsp := inlineF_deref sn f.typ hpt x m segs hw hspec
      have hwalk := ptrWalk_good sn f.typ hpt x hw
      have hop2 := OpIn_enterInl hop1 (stripPtr f.typ).2
      have hnp := stripPtr_not_ptr f.typ sn hpt
      -- the base folder on the value behind the pointers
      have hbaseRun : ∀ x', deref (stripPtr f.typ).1 x = some x' → ∀ rf, 3 * vdepth x + 3 ≤ rf →
          ∀ s, Inv s → MemsOut s (run rf o .user base ⟨(stripPtr f.typ).2, x'⟩ s) segs := by
        intro x' hdr rf hrf s hs
        rw [hdr] at hsp
        obtain ⟨m', hm'⟩ := hsp
        obtain ⟨hwx', hdx'⟩ := deref_wt sn f.typ hpt x x' hw hdr
        cases c2 with
        | zero => simp [fieldFoldGenInline] at hbase
        | succ c3 =>
        cases m' with
        | zero => simp [inlineF] at hm'
        | succ m' =>
        by_cases hb1 : isC1 reg (stripPtr f.typ).2 = true
        · -- a custom folder: its object, through an `ExpectObjVisitor`
          obtain ⟨bn, bm, bu, hbe, _, hk1, _, _⟩ := c1_shape hpb hb1
          rw [hbe] at hb1 hpb hbase hm' hwx' ⊢
          rw [ffgi_c1 c3 o _ hreg hpb hb1] at hbase
          cases hbase
          obtain ⟨p, hcp⟩ := Option.isSome_iff_exists.mp hb1
          obtain ⟨n', b⟩ := p
          rw [inlineF_c1 m' hcp] at hm'
          have hnn : x' ≠ .nilSlice ∧ x' ≠ .nilMap := by
            cases x' <;> first | (simp at hm'; done) | exact ⟨(by intro h; cases h), (by intro h; cases h)⟩
          have hm2 : (match customValue n' b x' with
              | .ok (.obj segs) => (.ok segs : Except RuleErr (List Seg))
              | .ok _ => .error .inlineNeedsObject
              | .error e => .error e) = .ok segs := by
            cases x' <;> first | exact hm' | exact absurd rfl hnn.1 | exact absurd rfl hnn.2
          cases hcv : customValue n' b x' with
          | error e => rw [hcv] at hm2; cases hm2
          | ok r' =>
            rw [hcv] at hm2
            obtain ⟨xs, hxs, hspx⟩ := customValue_ok hcv
            have hl := custom_leaf hxs hspx
            have hnil : isNilValue ⟨.named bn bm bu, x'⟩ = false := by
              refine isNilValue_false hwx' ?_ ?_ ?_ ?_ hnn.1 hnn.2 <;>
                (simp only [GoType.under]; intros; intro h; subst h; simp [badKind] at hk1)
            rcases hl.inl with ⟨segs', ys, ms, hr', hthru, henc, hrel⟩ | ⟨hno, _⟩
            · subst hr'
              simp only [Except.ok.injEq] at hm2
              subst hm2
              obtain ⟨rf1, rfl⟩ := exists_succ (k := 0) (by omega : 0 + 1 ≤ rf)
              obtain ⟨rf2, rfl⟩ := exists_succ (k := 0) (by omega : 0 + 1 ≤ rf1)
              obtain ⟨rf3, rfl⟩ := exists_succ (k := 0) (by omega : 0 + 1 ≤ rf2)
              exact embedd_mems (rf3 + 2) o (leafC1 reg bn) ⟨_, x'⟩ hnil hl.quiet
                (fun c s => by rw [run_leafC1 rf3 o c hk1 hcp x' s, hxs]) hthru henc hrel hs
            · exfalso
              cases r' <;> first | (cases hm2; done) | exact hno _ rfl
        have hb1' : isC1 reg (stripPtr f.typ).2 = false := by simpa using hb1
        rw [ffgi_good c3 o _ hreg hpb hb1' hnp'] at hbase
        obtain ⟨rf', rfl⟩ := exists_succ (k := 0) (by omega : 0 + 1 ≤ rf)
        rw [inlineF_under m' hpb hb1'] at hm'
        have hgu := good_under hpb
        have hdu := tdepth_under hpb
        unfold isIfaceT at hni
        generalize (stripPtr f.typ).2 = bt at hbase hm' hwx' hni hpb hdb hop2 hnp hgu hdu hb1' hnp' ⊢
        generalize hU : bt.under = U at hbase hm' hni hgu hdu
        cases U with
        | struct fs' =>
          simp only [] at hbase
          cases c3 with
          | zero => simp [getReflectFoldStruct] at hbase
          | succ c4 =>
          rw [grfs_eq] at hbase
          cases hfvs : (fs'.zipIdx).mapM (fun (x : Field × Nat) => buildFieldFold c4 o (enterInl op bt) x.1 x.2) with
          | error e => simp [hfvs] at hbase
          | ok fvs' =>
            simp only [hfvs, if_true, Except.ok.injEq] at hbase
            subst hbase
            obtain ⟨vs', rfl, hwf⟩ := wt_struct_inv hU hwx'
            rw [inlineF_struct] at hm'
            obtain ⟨segss, hsegss, rfl⟩ := map_ok_inv hm'
            rw [run_fieldsFold]
            rw [vdepth_struct] at hdx'
            have hfs' : goodCFs reg (snU sn' bt) fs' = true := by simpa [goodC] using hgu.1
            have hdfs : tdepthFs fs' ≤ 1000 := by
              simp only [tdepth] at hdu
              omega
            refine hF _ fs' vs' (by omega) hfs' hdfs hwf ⟨bt, .struct vs'⟩ 0 ?_ c4 _ fvs' hop2 hfvs
              m' segss hsegss rf' (by omega) s hs
            intro j g y hg hy
            rw [Nat.zero_add]
            exact field_struct hU hg hy
        | map k' e' =>
          simp only [] at hbase
          have hke : goodC reg (snU sn' bt) k' = true ∧ goodC reg (snU sn' bt) e' = true := by
            simpa [goodC] using hgu.1
          have hde' : tdepth e' ≤ 1000 := by
            simp only [tdepth] at hdu
            omega
          obtain ⟨segs', hsegs', hrun⟩ := mapiter_sound hR hI hU hke.2 hde' hwx' (by omega)
            (OpIn_mono hop2 (fun _ hx => hx)) hbase (inlineF_map hm')
          cases hsegs'
          exact hrun (rf' + 1) (by omega) s hs
        | iface => simp at hni
        | ptr e => exact absurd hU (hnp e)
        | _ => simp at hbase
      intro rf hrf s hs
      obtain ⟨rf', rfl⟩ := exists_succ (k := 0) (by omega : 0 + 1 ≤ rf)
      rw [run_fieldInline]
      simp only [hfield]
      unfold makeInlinePointerFold
      by_cases hn0 : (stripPtr f.typ).1 = 0
      · have hb : (stripPtr f.typ).2 = f.typ := by
          by_cases hpp : ∃ e, f.typ.under = .ptr e
          · obtain ⟨e, he⟩ := hpp
            rw [stripPtr_of_under_ptr he (headKind hpt)] at hn0
            simp at hn0
          · rw [stripPtr_of_under_nonptr hpt (fun e he => hpp ⟨e, he⟩)]
        simp only [hn0, beq_self_eq_true, if_true]
        have := hbaseRun x (by rw [hn0]; rfl) rf' (by omega) s hs
        rw [hb] at this
        exact this
      · have : ((stripPtr f.typ).1 == 0) = false := by simpa using hn0
        simp only [this, Bool.false_eq_true, if_false]
        obtain ⟨rf'', rfl⟩ := exists_succ (k := 0) (by omega : 0 + 1 ≤ rf')
        rw [run_inlinePointer, hwalk]
        cases hdr : deref (stripPtr f.typ).1 x with
        | none =>
          rw [hdr] at hsp
          simp only [] at hsp ⊢
          rw [hsp]
          exact MemsOut_nil hs
        | some x' =>
          simp only []
          exact hbaseRun x' hdr rf'' (by omega) s hs

/-- (F) at depth N+1 from (R), (I), (F) at depth N -/
theorem fields_step {o : FoldOpts} {reg : Bool} (hreg : o.folders = reg) {N : Nat}
    (hR : RunSound o reg N) (hI : IfaceSound o reg N) (hF : FieldsSound o reg N) :
    FieldsSound o reg (N + 1) := by
  intro sn fs
  induction fs with
  | nil =>
    intro vs _ _ _ hw rv k _ cf op fvs _ hc m segss hspec rf _ s hs
    cases vs with
    | cons v vs => simp [wtCF] at hw
    | nil =>
      simp only [List.zipIdx_nil, mapM_nil, Except.ok.injEq] at hc
      simp only [List.zip_nil_right, mapM_nil, Except.ok.injEq] at hspec
      subst hc hspec
      exact MemsOut_nil hs
  | cons f fs ih =>
    intro vs hd hp hdt hw rv k hfield cf op fvs hop hc m segss hspec rf hrf s hs
    cases vs with
    | nil => simp [wtCF] at hw
    | cons x vs =>
      simp only [wtCF, Bool.and_eq_true] at hw
      simp only [goodCFs, Bool.and_eq_true] at hp
      simp only [tdepthFs] at hdt
      simp only [vdepthL] at hd hrf
      rw [zipIdx_cons, mapM_cons] at hc
      rw [List.zip_cons_cons, mapM_cons] at hspec
      cases hfo : buildFieldFold cf o op f k with
      | error e => simp [hfo] at hc
      | ok fo =>
      cases hrest : (fs.zipIdx (k + 1)).mapM (fun (x : Field × Nat) => buildFieldFold cf o op x.1 x.2) with
      | error e => simp [hfo, hrest] at hc
      | ok fvs' =>
      simp only [hfo, hrest, Except.ok.injEq] at hc
      subst hc
      cases hsg : fieldF m reg f x with
      | error e => simp [hsg] at hspec
      | ok segs =>
      cases hsr : (fs.zip vs).mapM (fun (fx : Field × GoVal) => fieldF m reg fx.1 fx.2) with
      | error e => simp [hsg, hsr] at hspec
      | ok segss' =>
      simp only [hsg, hsr, Except.ok.injEq] at hspec
      subst hspec
      have htail : ∀ s', Inv s' →
          MemsOut s' (seqM (fun s fv => run rf o .user fv rv s) s' (fvs'.filterMap id)) segss'.flatten := by
        intro s' hs'
        refine ih vs (by omega) hp.2 (by omega) hw.2 rv (k + 1) ?_ cf op fvs' hop hrest m segss' hsr rf (by omega) s' hs'
        intro j g y hg hy
        have := hfield (j + 1) g y (by simpa using hg) (by simpa using hy)
        rw [← this]
        congr 1
        omega
      have hf0 := hfield 0 f x (by simp) (by simp)
      rw [Nat.add_zero] at hf0
      have hdf : tdepth f.typ ≤ 1000 := by rw [← tdepthF_typ]; omega
      have hlz : lazyField f = true → vdepth x ≤ lazyBound := by
        intro h
        have := hw.1.2
        simpa [h] using this
      rcases field_sound hreg hR hI hF hp.1 hdf hw.1.1 hlz (by omega) hf0 hop hfo hsg with ⟨rfl, rfl⟩ | ⟨fv, rfl, hrun⟩
      · simp only [List.filterMap_cons, id, List.flatten_cons, List.nil_append]
        exact htail s hs
      · simp only [List.filterMap_cons, id, List.flatten_cons]
        exact MemsOut_seq_cons (hrun rf (by omega) s hs) htail


/-! ## typed arrays and maps on whole values -/

theorem arrprim_sound {m : Nat} {reg : Bool} {e : GoType} {p : Prim} {v : GoVal} {r : RVal}
    (hp : primOf? e = some p) (hw : wtC reg (.slice e) v = true) (hspec : foldF m reg (.slice e) v = .ok r)
    (bytes : Bool) {s : St} (hs : Inv s) :
    ∃ x, (sliceElems? v).bind (arrEv bytes p) = some x ∧ ValOut s (emit s .user x) r := by
  cases m with
  | zero => exact (foldF_zero hspec).elim
  | succ m =>
  rcases wt_slice_inv (T := .slice e) rfl hw with rfl | ⟨xs, rfl, _⟩
  · rw [foldF_slice_nil] at hspec
    cases hspec
    exact arr_sound (m := m) (reg := reg) hp .nil bytes hs
  · rw [foldF_slice] at hspec
    obtain ⟨rs, hrs, rfl⟩ := map_ok_inv hspec
    exact arr_sound hp (mapM_ok hrs) bytes hs

theorem mapprim_sound {m : Nat} {reg : Bool} {e : GoType} {p : Prim} {v : GoVal} {r : RVal}
    (hp : primOf? e = some p) (hw : wtC reg (.map .string e) v = true)
    (hspec : foldF m reg (.map .string e) v = .ok r) {s : St} (hs : Inv s) :
    ∃ x, (mapEntries? v).bind (objEv p) = some x ∧ ValOut s (emit s .user x) r := by
  cases m with
  | zero => exact (foldF_zero hspec).elim
  | succ m =>
  have hsk : isStringKind .string = true := rfl
  rcases wt_map_inv (T := .map .string e) rfl hw with rfl | ⟨ms, rfl, _, hnd⟩
  · rw [foldF_map_nil] at hspec
    simp only [hsk, if_true, Except.ok.injEq] at hspec
    subst hspec
    obtain ⟨x, hx, hv⟩ := obj_sound (m := m) (reg := reg) (ms := []) (mems := []) hp .nil (by simp [keysOf]) hs
    exact ⟨x, hx, ValOut_emptyseg hv⟩
  · rw [foldF_map] at hspec
    simp only [hsk, Bool.not_true, Bool.false_eq_true, if_false] at hspec
    obtain ⟨mems, hmems, rfl⟩ := map_ok_inv hspec
    have hes := entries_spec hmems
    exact obj_sound hp hes (keys_nodup hes hnd) hs


/-! ## the induction steps -/

/-! ## the induction steps -/

/-- a value of a type of primitive kind, named or not -/
theorem prim_sound_under {m : Nat} {reg : Bool} {sn : List String} {T : GoType} {p : Prim} {v : GoVal}
    {r : RVal} (hg : goodC reg sn T = true) (h1 : isC1 reg T = false) (hp : primOf? T.under = some p)
    (h : foldF m reg T v = .ok r) (via : Bool) {s : St} (hs : Inv s) :
    ∃ x, primEv via p v = some x ∧ ValOut s (emit s .user x) r := by
  cases m with
  | zero => simp [foldF] at h
  | succ m =>
    rw [foldF_under m hg h1] at h
    exact prim_sound hp h via hs

theorem fiv_good (rf : Nat) (o : FoldOpts) {reg : Bool} (hreg : o.folders = reg) (c : VisRef) {sn : List String}
    {T : GoType} (v : GoVal) (s : St) (h : goodC reg sn T = true) (hpl : plainT reg T = true) :
    foldInterfaceValue (rf + 1) o c (.iface T v) s =
      match fastSel T with
      | some f => runFast rf o c f v s
      | none => foldAnyReflect rf o c ⟨T, v⟩ s := by
  rw [foldInterfaceValue]
  simp only [userReg_good hreg h hpl, whnf_good h, implementsFolder_good h hpl, Bool.false_eq_true, if_false, fastSel]
  cases getFoldGoTypes T with
  | some f => rfl
  | none =>
    simp only []
    cases getFoldConvert T <;> rfl

theorem fastSel_inv {reg : Bool} {sn : List String} {T : GoType} {fa : Fast} (h : goodC reg sn T = true)
    (hf : fastSel T = some fa) : getFoldGoTypes T.under = some fa := by
  unfold fastSel at hf
  cases T <;> first
    | (simp only [GoType.under]
       simp only [getFoldConvert, GoType.isNamed, Bool.not_false, if_true] at hf
       split at hf <;> simp_all; done)
    | (rename_i n m u
       simp only [getFoldGoTypes_named, getFoldConvert, GoType.isNamed, Bool.not_true, Bool.false_eq_true,
         if_false, GoType.under] at hf ⊢
       split at hf <;> simp_all; done)
    | (simp [goodC] at h)

/-- a nil pointer of a plain pointer type is null for the rules -/
theorem strictNil_plain {reg : Bool} {sn : List String} {T e : GoType} {v : GoVal} (hg : goodC reg sn T = true)
    (hpl : plainT reg T = true) (hu : T.under = .ptr e) (hw : wtC reg T v = true) : StrictNil reg T v := by
  intro hv e' he'
  subst hv
  rw [hu] at he'
  cases he'
  rcases wt_ptr_inv' hu hw with ⟨_, hnt⟩ | ⟨x, hx, _⟩
  · rcases headKind hg with hun | ⟨n, mm, u, rfl⟩
    · -- `T` is `*e` itself, `e` has no custom folder
      have hT : T = .ptr e := by rw [← under_unnamed hun]; exact hu
      subst hT
      simp only [plainT, isC2, Bool.and_eq_true, Bool.not_eq_true'] at hpl
      unfold nilTop
      rw [customOf_notC1 hpl.2]
    · exact hnt
  · cases hx

theorem run_step {o : FoldOpts} {reg : Bool} (hreg : o.folders = reg) {N : Nat}
    (hR : RunSound o reg N) (hI : IfaceSound o reg N) (hF1 : FieldsSound o reg (N + 1)) :
    RunSound o reg (N + 1) := by
  intro sn T v hd hp hdt hw cf op f hop hc m r hspec rf hrf s hs
  cases cf with
  | zero => simp [getReflectFold] at hc
  | succ c =>
  obtain ⟨rf', rfl⟩ := exists_succ (k := 0) (by omega : 0 + 1 ≤ rf)
  cases m with
  | zero => exact (foldF_zero hspec).elim
  | succ m =>
  rcases head_cases hp with ⟨n, mm, u, rfl, h1⟩ | ⟨n, mm, u, rfl, h1, hge⟩ | hpl
  · -- a type with a custom folder: the events of the folder
    rw [grf_c1 c o op hreg hp h1 hop] at hc
    cases hc
    obtain ⟨n', b, xs, hcp, hxs, hl⟩ := c1_spec h1 hspec
    obtain ⟨_, _, _, he, _, hk1, _⟩ := c1_shape hp h1
    cases he
    obtain ⟨rf'', rfl⟩ := exists_succ (k := 0) (by omega : 0 + 1 ≤ rf')
    rw [run_leafC1 rf'' o .user hk1 hcp v s, hxs]
    exact leaf_user hl hs
  · -- a pointer to one
    rw [grf_c2 c o op hreg h1] at hc
    cases hc
    exact c2_sound rf' o h1 hw hspec hs
  have h1 := plain_notC1 hpl
  have hgu := good_under hp
  have hdu := tdepth_under hp
  have hop' := OpIn_enter hop T
  have hspecU := hspec
  rw [foldF_under m hp h1] at hspecU
  have prim_case : ∀ p, primOf? T.under = some p → ValOut s (run (rf' + 1) o .user f ⟨T, v⟩ s) r := by
    intro p hpr
    rw [grf_primkind c o op hreg hp hpl hop hpr] at hc
    cases hc
    rw [run_prim]
    obtain ⟨x, hx, hv⟩ := prim_sound_under hp h1 hpr hspec true hs
    simp only [hx]
    exact hv
  generalize hU : T.under = U at hgu hdu hspecU prim_case
  cases U with
  | bool => exact prim_case _ rfl
  | string => exact prim_case _ rfl
  | int k => exact prim_case _ rfl
  | float32 => exact prim_case _ rfl
  | float64 => exact prim_case _ rfl
  | named a b c => simp [unnamedHead] at hgu
  | ref a => simp [unnamedHead] at hgu
  | chan e =>
    rw [grf_unsupported c o op hreg hp hpl hop (Or.inl ⟨e, hU⟩)] at hc
    cases hc
  | other k =>
    rw [grf_unsupported c o op hreg hp hpl hop (Or.inr ⟨k, hU⟩)] at hc
    cases hc
  | iface =>
    rw [grf_iface c o op hreg hp hpl hop hU] at hc
    cases hc
    rw [run_ifaceElem]
    simp only [hU]
    rcases wt_iface_inv hU hw with rfl | ⟨dt, dv, rfl, hpd, hdd, hwd⟩
    · rw [foldF_iface_nil] at hspecU
      cases hspecU
      exact emit_scalar hs Enc_null (by simp [Rel])
    · rw [foldF_iface] at hspecU
      rw [vdepth_iface] at hd hrf
      cases htok : typeOk reg dt with
      | error e => simp [htok] at hspecU
      | ok u =>
        simp only [htok] at hspecU
        exact anyreflect_sound hreg hR hpd hdd hwd (by omega) (fun _ h => h) htok hspecU (by omega) hs
  | slice e =>
    have he : goodC reg (snU sn T) e = true := by simpa [goodC] using hgu.1
    have hde : tdepth e ≤ 1000 := by simp only [tdepth] at hdu; omega
    have helem : T.elem = e := elem_of_under.1 e hU
    by_cases hfast : unnamedHead T = true ∧ ∃ p, primOf? e = some p
    · obtain ⟨hu, p, hpr⟩ := hfast
      have hT : T = .slice e := by rw [← under_unnamed hu]; exact hU
      subst hT
      rw [grf_slice_prim c o op hreg hpr] at hc
      cases hc
      rw [run_arrPrim]
      obtain ⟨x, hx, hv⟩ := arrprim_sound hpr hw hspec false hs
      simp only [hx]
      exact hv
    · have hnp : noPrimitive T := by
        refine noPrimitive_of_under hp ?_
        intro hu
        rw [hU]
        cases hpr : primOf? e with
        | some p => exact absurd ⟨hu, p, hpr⟩ hfast
        | none => simp [getReflectFoldPrimitive, hpr]
      cases c with
      | zero =>
        rw [grf_good 0 o op hreg hp hpl hop, hnp] at hc
        simp [hU, getReflectFoldSlice] at hc
      | succ c' =>
      rw [grf_slice c' o op hreg hp hpl hop hU hnp] at hc
      cases hel : getReflectFold c' o (op.enter T) e with
      | error err => simp [hel] at hc
      | ok el =>
        simp only [hel, Except.ok.injEq] at hc
        subst hc
        rcases wt_slice_inv hU hw with rfl | ⟨xs, rfl, hwl⟩
        · rw [foldF_slice_nil] at hspecU
          cases hspecU
          rw [run_slice_nil', helem]
          exact seq_sound hR he hde (xs := []) rfl (fun x hx => by cases hx) hop' hel (m := m) rfl
            (rf := rf') (fun x hx => by cases hx) _ hs
        · rw [foldF_slice] at hspecU
          obtain ⟨rs, hrs, rfl⟩ := map_ok_inv hspecU
          rw [run_slice_slice, helem]
          rw [vdepth_slice] at hd hrf
          exact seq_sound hR he hde hwl (fun x hx => by have := vdepthL_mem hx; omega) hop' hel hrs
            (fun x hx => by have := vdepthL_mem hx; omega) _ hs
  | array n e =>
    have he : goodC reg (snU sn T) e = true := by simpa [goodC] using hgu.1
    have hde : tdepth e ≤ 1000 := by simp only [tdepth] at hdu; omega
    have helem : T.elem = e := elem_of_under.2.1 n e hU
    cases c with
    | zero =>
      have hnp : noPrimitive T := by
        refine noPrimitive_of_under hp ?_
        intro _; rw [hU]; rfl
      rw [grf_good 0 o op hreg hp hpl hop, hnp] at hc
      simp [hU, getReflectFoldSlice] at hc
    | succ c' =>
    rw [grf_array c' o op hreg hp hpl hop hU] at hc
    cases hel : getReflectFold c' o (op.enter T) e with
    | error err => simp [hel] at hc
    | ok el =>
      simp only [hel, Except.ok.injEq] at hc
      subst hc
      obtain ⟨xs, rfl, hwl⟩ := wt_array_inv hU hw
      rw [foldF_array] at hspecU
      obtain ⟨rs, hrs, rfl⟩ := map_ok_inv hspecU
      rw [run_slice_array, helem]
      rw [vdepth_array] at hd hrf
      exact seq_sound hR he hde hwl (fun x hx => by have := vdepthL_mem hx; omega) hop' hel hrs
        (fun x hx => by have := vdepthL_mem hx; omega) _ hs
  | ptr e =>
    have hnp : noPrimitive T := by
      refine noPrimitive_of_under hp ?_
      intro _; rw [hU]; rfl
    cases c with
    | zero =>
      rw [grf_good 0 o op hreg hp hpl hop, hnp] at hc
      simp [hU, getFoldPointer] at hc
    | succ c' =>
    rw [grf_ptr c' o op hreg hp hpl hop hU, baseType_good hp hdt] at hc
    cases hel : getReflectFold c' o (op.enter T) (stripPtr T).2 with
    | error err => simp [hel] at hc
    | ok el =>
      simp only [hel, Except.ok.injEq] at hc
      have hs1 := stripPtr_of_under_ptr hU (headKind hp)
      have hf : f = .pointer (stripPtr T).1 el := by
        rw [← hc, hs1]; simp [makePointerFold]
      subst hf
      rw [run_pointer, ptrWalk_good sn T hp v hw]
      have hsp := foldF_deref sn T hp v (m + 1) r hw (strictNil_plain hp hpl hU hw) hspec
      obtain ⟨sn', hsn', hpb⟩ : ∃ sn', (∀ x ∈ snU sn T, x ∈ sn') ∧ goodC reg sn' (stripPtr T).2 = true := by
        have hge := good_elem_of_ptr hp hU
        obtain ⟨sn', h1, h2⟩ := good_stripPtr e _ hge
        exact ⟨sn', h1, by rw [hs1]; exact h2⟩
      cases hdr : deref (stripPtr T).1 v with
      | none =>
        rw [hdr] at hsp
        simp only [] at hsp ⊢
        subst hsp
        exact emit_scalar hs Enc_null (by simp [Rel])
      | some x' =>
        rw [hdr] at hsp
        simp only [] at hsp ⊢
        obtain ⟨m', hm'⟩ := hsp
        obtain ⟨hwx', hdx'⟩ := deref_wt sn T hp v x' hw hdr
        have hdb := tdepth_stripPtr T
        have h1 : 1 ≤ (stripPtr T).1 := by rw [hs1]; simp
        exact hR sn' _ x' (by omega) hpb (by omega) hwx' c' _ el
          (OpIn_mono hop' hsn') hel m' r hm' rf' (by omega) s hs
  | struct fs =>
    have hfs : goodCFs reg (snU sn T) fs = true := by simpa [goodC] using hgu.1
    have hdfs : tdepthFs fs ≤ 1000 := by simp only [tdepth] at hdu; omega
    rw [grf_struct c o op hreg hp hpl hop hU] at hc
    cases c with
    | zero => simp [getReflectFoldStruct] at hc
    | succ c' =>
    rw [grfs_eq] at hc
    cases hfvs : (fs.zipIdx).mapM (fun (x : Field × Nat) => buildFieldFold c' o (op.enter T) x.1 x.2) with
    | error e => simp [hfvs] at hc
    | ok fvs =>
      simp only [hfvs, Bool.false_eq_true, if_false, Except.ok.injEq] at hc
      subst hc
      obtain ⟨vs, rfl, hwf⟩ := wt_struct_inv hU hw
      rw [foldF_struct] at hspecU
      obtain ⟨segss, hsegss, rfl⟩ := map_ok_inv hspecU
      rw [run_structFold]
      rw [vdepth_struct] at hd hrf
      refine wrap_obj hs _ BT.any _ _ ?_
      intro s hs
      refine hF1 _ fs vs (by omega) hfs hdfs hwf ⟨T, .struct vs⟩ 0 ?_ c' _ fvs hop' hfvs m segss hsegss
        rf' (by omega) s hs
      intro j g y hg hy
      rw [Nat.zero_add]
      exact field_struct hU hg hy
  | map k e =>
    have hke : goodC reg (snU sn T) k = true ∧ goodC reg (snU sn T) e = true := by simpa [goodC] using hgu.1
    have hde : tdepth e ≤ 1000 := by simp only [tdepth] at hdu; omega
    by_cases hfast : unnamedHead T = true ∧ k = .string ∧ ∃ p, primOf? e = some p
    · obtain ⟨hu, rfl, p, hpr⟩ := hfast
      have hT : T = .map .string e := by rw [← under_unnamed hu]; exact hU
      subst hT
      rw [grf_map_prim c o op hreg hpr] at hc
      cases hc
      rw [run_mapPrim]
      obtain ⟨x, hx, hv⟩ := mapprim_sound hpr hw hspec hs
      simp only [hx]
      exact hv
    · have hnp : noPrimitive T := by
        refine noPrimitive_of_under hp ?_
        intro hu
        rw [hU]
        by_cases hk2 : k = .string
        · subst hk2
          cases hpr : primOf? e with
          | some p => exact absurd ⟨hu, rfl, p, hpr⟩ hfast
          | none => simp [getReflectFoldPrimitive, hpr]
        · exact getReflectFoldPrimitive_map_nonstring hk2
      cases c with
      | zero =>
        rw [grf_good 0 o op hreg hp hpl hop, hnp] at hc
        simp [hU, getReflectFoldMap] at hc
      | succ c1 =>
      cases c1 with
      | zero =>
        rw [grf_good 1 o op hreg hp hpl hop, hnp] at hc
        simp [hU, getReflectFoldMap, getReflectFoldMapKeys] at hc
      | succ c2 =>
      rw [grf_map c2 o op hreg hp hpl hop hU hnp] at hc
      cases hit : getReflectFoldMapKeys (c2 + 1) o (op.enter T) T with
      | error err => simp [hit] at hc
      | ok iter =>
        simp only [hit, Except.ok.injEq] at hc
        subst hc
        obtain ⟨segs, rfl, hrun⟩ := mapiter_sound hR hI hU hke.2 hde hw hd hop' hit hspecU
        rw [run_mapFold]
        have hme : ∃ ms, mapEntries? v = some ms := by
          rcases wt_map_inv hU hw with rfl | ⟨ms, rfl, _⟩
          · exact ⟨[], rfl⟩
          · exact ⟨ms, rfl⟩
        obtain ⟨ms, hms⟩ := hme
        simp only [hms]
        exact wrap_obj hs _ BT.any _ _ (fun s hs => hrun rf' (by omega) s hs)

/-- (I) at depth N+1 -/
theorem iface_step {o : FoldOpts} {reg : Bool} (hreg : o.folders = reg) {N : Nat}
    (hR : RunSound o reg N) (hI : IfaceSound o reg N) : IfaceSound o reg (N + 1) := by
  intro i hd hw m r hspec rf hrf s hs
  obtain ⟨rf', rfl⟩ := exists_succ (k := 0) (by omega : 0 + 1 ≤ rf)
  cases m with
  | zero => exact (foldF_zero hspec).elim
  | succ m =>
  rcases wt_iface_inv (T := .iface) rfl hw with rfl | ⟨dt, dv, rfl, hpd, hdd, hwd⟩
  · rw [foldF_iface_nil] at hspec
    cases hspec
    rw [fiv_nil]
    exact emit_scalar hs Enc_null (by simp [Rel])
  · rw [foldF_iface] at hspec
    rw [vdepth_iface] at hd hrf
    cases htok : typeOk reg dt with
    | error e => simp [htok] at hspec
    | ok u =>
    simp only [htok] at hspec
    rcases head_cases hpd with ⟨n, mm, u, rfl, h1⟩ | ⟨n, mm, u, rfl, h1, hge⟩ | hpl
    · -- a dynamic type with a custom folder
      obtain ⟨n', b, xs, hcp, hxs, hl⟩ := c1_spec h1 hspec
      obtain ⟨rf1, rfl⟩ := exists_succ (k := 0) (by omega : 0 + 1 ≤ rf')
      obtain ⟨rf2, rfl⟩ := exists_succ (k := 0) (by omega : 0 + 1 ≤ rf1)
      obtain ⟨rf3, rfl⟩ := exists_succ (k := 0) (by omega : 0 + 1 ≤ rf2)
      rw [fiv_c1 rf3 o hreg .user hpd hcp dv s, hxs]
      exact leaf_user hl hs
    · -- a pointer to one
      obtain ⟨rf1, rfl⟩ := exists_succ (k := 0) (by omega : 0 + 1 ≤ rf')
      rw [fiv_c2 rf1 o hreg .user h1 dv s]
      exact c2_sound rf1 o h1 hwd hspec hs
    have h1 := plain_notC1 hpl
    rw [fiv_good rf' o hreg .user dv s hpd hpl]
    cases hg : fastSel dt with
    | none =>
      simp only []
      exact anyreflect_sound hreg hR hpd hdd hwd (by omega) (fun _ h => h) htok hspec (by omega) hs
    | some fa =>
      simp only []
      obtain ⟨rf'', rfl⟩ := exists_succ (k := 0) (by omega : 0 + 1 ≤ rf')
      have hspecU : foldF m reg dt.under dv = .ok r := by rw [← foldF_under' m hpd h1]; exact hspec
      have hfU := fastSel_inv hpd hg
      have hwU : wtC reg dt.under dv = true := by
        refine wt_under_shape hpd hwd ?_
        intro e he
        rw [he] at hfU
        simp [getFoldGoTypes, primOf?] at hfU
      rcases gfgt_inv hfU with ⟨hU, rfl⟩ | ⟨hU, rfl⟩ | ⟨e, p, hU, hpr, rfl⟩ |
        ⟨e, p, hU, hpr, rfl⟩ | ⟨p, hpr, rfl⟩
      · -- []interface{}
        rw [runFast_arrIface]
        rw [hU] at hspecU hwU
        cases m with
        | zero => exact (foldF_zero hspecU).elim
        | succ m =>
        have key : ∀ (xs : List GoVal) (rs : List RVal), wtCL reg .iface xs = true →
            (∀ x ∈ xs, vdepth x + 1 ≤ vdepth dv) → xs.mapM (foldF m reg .iface) = .ok rs →
            ValOut s (match emit s .user (.ev (.arrStart xs.length BT.any)) with
              | (s, .ok) =>
                match seqM (fun s x => foldInterfaceValue rf'' o .user x s) s xs with
                | (s, .ok) => emit s .user (.ev .arrEnd)
                | r => r
              | r => r) (.arr rs) := by
          intro xs rs hwl hdx hrs
          refine wrap_arr hs _ BT.any _ rs (seq_elems _ ?_)
          refine (mapM_ok hrs).imp ?_
          intro x r hx _ hxr s hs
          have := hdx x hx
          exact hI x (by omega) (wtL_mem hwl hx) m r hxr rf'' (by omega) s hs
        rcases wt_slice_inv (T := .slice .iface) rfl hwU with rfl | ⟨xs, rfl, hwl⟩
        · rw [foldF_slice_nil] at hspecU
          cases hspecU
          exact key [] [] rfl (fun x hx => by cases hx) rfl
        · rw [foldF_slice] at hspecU
          obtain ⟨rs, hrs, rfl⟩ := map_ok_inv hspecU
          exact key xs rs hwl (fun x hx => by have := vdepthL_mem hx; rw [vdepth_slice]; omega) hrs
      · -- map[string]interface{}
        rw [runFast_mapIface]
        rw [hU] at hspecU hwU
        cases m with
        | zero => exact (foldF_zero hspecU).elim
        | succ m =>
        have hsk : isStringKind .string = true := rfl
        rcases wt_map_inv (T := .map .string .iface) rfl hwU with rfl | ⟨ms, rfl, hwp, hnd⟩
        · rw [foldF_map_nil] at hspecU
          simp only [hsk, if_true, Except.ok.injEq] at hspecU
          subst hspecU
          exact wrap_obj hs _ BT.any (fun s => (s, .ok)) [] (fun s hs => MemsOut_nil hs)
        · rw [foldF_map] at hspecU
          simp only [hsk, Bool.not_true, Bool.false_eq_true, if_false] at hspecU
          obtain ⟨mems, hmems, rfl⟩ := map_ok_inv hspecU
          have hes := entries_spec hmems
          have hkn := keys_nodup hes hnd
          obtain ⟨es, hske, hlen, hall, hmem⟩ := stringKeyed_spec hes
          have : (mapEntries? (GoVal.map ms)).bind stringKeyed = some es := hske
          simp only [this]
          refine wrap_obj hs _ BT.any _ _ ?_
          intro s hs
          refine range_mems (fun s (x : Bytes × GoVal) => foldInterfaceValue rf'' o .user x.2 s)
            (fun x => foldF m reg .iface x.2) hall hkn ?_ es.length (Nat.le_refl _) s hs
          intro x hx r hr s hs
          obtain ⟨kx, hkx, e1⟩ := hmem x hx
          have h1 := wtP_mem hwp hkx
          have h2 := vdepthP_mem hkx
          rw [e1] at h1 h2
          rw [vdepth_map] at hd hrf
          exact hI x.2 (by omega) h1 m r hr rf'' (by omega) s hs
      · rw [runFast_arr]
        rw [hU] at hspecU hwU
        obtain ⟨x, hx, hv⟩ := arrprim_sound hpr hwU hspecU true hs
        simp only [hx]
        exact hv
      · rw [runFast_map]
        rw [hU] at hspecU hwU
        obtain ⟨x, hx, hv⟩ := mapprim_sound hpr hwU hspecU hs
        simp only [hx]
        exact hv
      · rw [runFast_prim]
        obtain ⟨x, hx, hv⟩ := prim_sound_under hpd h1 hpr hspec false hs
        simp only [hx]
        exact hv


/-- (R), (I), (F) at every depth -/
theorem sound_all (o : FoldOpts) {reg : Bool} (hreg : o.folders = reg) :
    ∀ N, RunSound o reg N ∧ IfaceSound o reg N ∧ FieldsSound o reg N := by
  intro N
  induction N with
  | zero =>
    refine ⟨?_, ?_, ?_⟩
    · intro sn T v hd; omega
    · intro i hd; omega
    · intro sn fs vs hd; omega
  | succ N ih =>
    obtain ⟨hR, hI, hF⟩ := ih
    have hF1 := fields_step hreg hR hI hF
    exact ⟨run_step hreg hR hI hF1, iface_step hreg hR hI, hF1⟩

end SF.FoldProofs.Custom
