/-
  Visitor side of property C12: what `emit` / `seqM` / `rangeM` do on the user's visitor
  when it never fails (`failAt = none`), and that the map-order oracle (`hint`) only ever
  permutes the members of a map.
-/
import SF.Gotype.Fold
import SF.Proofs.FoldList
namespace SF.FoldProofs
open SF SF.Gotype SF.Gotype.Fold

/-- keys of a typed-map event -/
def objKeys : XEv → Option (List Bytes)
  | .boolObj ms => some (ms.map (·.1))
  | .strObj ms => some (ms.map (·.1))
  | .numObj _ ms => some (ms.map (·.1))
  | .f32Obj ms => some (ms.map (·.1))
  | .f64Obj ms => some (ms.map (·.1))
  | _ => none

/-- the order oracle mentions no key twice inside one typed map (a Go map has distinct keys) -/
def hintOK (h : List XEv) : Prop := ∀ x ∈ h, ∀ ks, objKeys x = some ks → ks.Nodup

theorem hintOK_drop {h : List XEv} (n : Nat) (hh : hintOK h) : hintOK (h.drop n) :=
  fun x hx => hh x (List.mem_of_mem_drop hx)

theorem hintOK_nil : hintOK [] := fun _ hx => by cases hx

/-- the visitor never fails and the order oracle is sane -/
def Inv (s : St) : Prop := s.failAt = none ∧ hintOK s.hint

/-- `s'` is `s` after the events `xs` were delivered (oldest first), visitor still healthy -/
def Adv (s s' : St) (xs : List XEv) : Prop := s'.evs = xs.reverse ++ s.evs ∧ Inv s'

theorem Adv.refl (s : St) (h : Inv s) : Adv s s [] := ⟨by simp, h⟩

theorem Adv.trans {s s' s'' : St} {a b : List XEv} (h1 : Adv s s' a) (h2 : Adv s' s'' b) :
    Adv s s'' (a ++ b) := by
  refine ⟨?_, h2.2⟩
  rw [h2.1, h1.1]; simp

theorem emit_user (s : St) (x : XEv) : emit s .user x = deliver s x := rfl

theorem deliver_ok (s : St) (x : XEv) (h : Inv s) :
    ∃ s', deliver s x = (s', .ok) ∧ Adv s s' [reorderByHint s x] := by
  refine ⟨{ s with evs := reorderByHint s x :: s.evs, n := s.n + 1, hint := s.hint.drop 1 }, ?_, ?_, ?_, ?_⟩
  · simp [deliver, h.1]
  · simp
  · exact h.1
  · exact hintOK_drop 1 h.2

theorem emit_ok (s : St) (x : XEv) (h : Inv s) :
    ∃ s', emit s .user x = (s', .ok) ∧ Adv s s' [reorderByHint s x] := deliver_ok s x h

/-! ## the hint leaves everything but typed maps alone -/

theorem reorder_ev (s : St) (e : Ev) : reorderByHint s (.ev e) = .ev e := by simp [reorderByHint]
theorem reorder_boolArr (s : St) (xs) : reorderByHint s (.boolArr xs) = .boolArr xs := by simp [reorderByHint]
theorem reorder_strArr (s : St) (xs) : reorderByHint s (.strArr xs) = .strArr xs := by simp [reorderByHint]
theorem reorder_numArr (s : St) (k xs) : reorderByHint s (.numArr k xs) = .numArr k xs := by simp [reorderByHint]
theorem reorder_f32Arr (s : St) (xs) : reorderByHint s (.f32Arr xs) = .f32Arr xs := by simp [reorderByHint]
theorem reorder_f64Arr (s : St) (xs) : reorderByHint s (.f64Arr xs) = .f64Arr xs := by simp [reorderByHint]

theorem emit_ev (s : St) (e : Ev) (h : Inv s) :
    ∃ s', emit s .user (.ev e) = (s', .ok) ∧ Adv s s' [.ev e] := by
  have := emit_ok s (.ev e) h
  rwa [reorder_ev] at this

/-! ## `orderLike` permutes -/

theorem perm_pull {α : Type} (l : List (Bytes × α)) (e : Bytes × α) (he : e ∈ l)
    (hnd : (l.map (·.1)).Nodup) :
    l.Perm (e :: l.filter (fun m => !(m.1 == e.1))) := by
  induction l with
  | nil => cases he
  | cons x l ih =>
    simp only [List.map_cons, List.nodup_cons] at hnd
    rcases List.mem_cons.mp he with rfl | he'
    · have hf : l.filter (fun m => !(m.1 == e.1)) = l := by
        apply List.filter_eq_self.mpr
        intro a ha
        have : a.1 ≠ e.1 := fun h => hnd.1 (h ▸ List.mem_map.mpr ⟨a, ha, rfl⟩)
        simp [this]
      simp [hf]
    · have hx : x.1 ≠ e.1 := fun h => hnd.1 (h ▸ List.mem_map.mpr ⟨e, he', rfl⟩)
      have hx' : (!(x.1 == e.1)) = true := by simp [hx]
      simp only [List.filter_cons, hx', if_true]
      exact ((ih he' hnd.2).cons x).trans (List.Perm.swap e x _)

theorem orderLike_perm {α : Type} (keys : List Bytes) (ms : List (Bytes × α))
    (hk : keys.Nodup) (hm : (ms.map (·.1)).Nodup) : (orderLike keys ms).Perm ms := by
  unfold orderLike
  induction keys with
  | nil =>
    have : ms.filter (fun m => !([] : List Bytes).contains m.1) = ms :=
      List.filter_eq_self.mpr (by simp)
    simp only [List.filterMap_nil, List.nil_append]
    rw [this]
  | cons k ks ih =>
    have hk' := List.nodup_cons.mp hk
    have ih' := ih hk'.2
    simp only [List.filterMap_cons]
    have hfilt : ms.filter (fun m => !(k :: ks).contains m.1) =
        (ms.filter (fun m => !ks.contains m.1)).filter (fun m => !(m.1 == k)) := by
      rw [List.filter_filter]
      congr 1
      funext m
      simp only [List.contains_cons, Bool.not_or]
    cases hfind : ms.find? (fun m => m.1 == k) with
    | none =>
      simp only []
      have hno : ∀ x ∈ ms, ¬ (x.1 == k) = true := List.find?_eq_none.mp hfind
      have : (ms.filter (fun m => !ks.contains m.1)).filter (fun m => !(m.1 == k)) =
          ms.filter (fun m => !ks.contains m.1) := by
        apply List.filter_eq_self.mpr
        intro a ha
        have := hno a (List.mem_filter.mp ha).1
        simpa using this
      rw [hfilt, this]
      exact ih'
    | some e =>
      simp only []
      have hek : e.1 = k := by simpa using List.find?_some hfind
      have hem : e ∈ ms := List.mem_of_find?_eq_some hfind
      have hef : e ∈ ms.filter (fun m => !ks.contains m.1) := by
        refine List.mem_filter.mpr ⟨hem, ?_⟩
        have : ¬ k ∈ ks := hk'.1
        simp [hek, this]
      have hnd2 : ((ms.filter (fun m => !ks.contains m.1)).map (·.1)).Nodup :=
        (List.filter_sublist.map _).nodup hm
      have hp := perm_pull _ e hef hnd2
      rw [hek] at hp
      rw [hfilt]
      refine List.Perm.trans ?_ ih'
      refine List.Perm.trans ?_ (List.Perm.append_left _ hp.symm)
      exact List.perm_middle.symm

/-! ## typed-map events under the hint -/

set_option hygiene false in
macro "reorder_tac" : tactic => `(tactic|
  (cases hs : s.hint with
   | nil => exact ⟨ms, by simp [reorderByHint, hs], List.Perm.refl _⟩
   | cons h t =>
     cases h <;> first
       | (refine ⟨ms, ?_, List.Perm.refl _⟩; simp [reorderByHint, hs]; done)
       | (refine ⟨_, ?_, orderLike_perm _ _ (hh _ (by rw [hs]; exact List.mem_cons_self) _ rfl) hm⟩; simp [reorderByHint, hs])))

theorem reorder_boolObj (s : St) (ms : List (Bytes × Bool)) (hh : hintOK s.hint)
    (hm : (ms.map (·.1)).Nodup) : ∃ ms', reorderByHint s (.boolObj ms) = .boolObj ms' ∧ ms'.Perm ms := by
  reorder_tac
theorem reorder_strObj (s : St) (ms : List (Bytes × Bytes)) (hh : hintOK s.hint)
    (hm : (ms.map (·.1)).Nodup) : ∃ ms', reorderByHint s (.strObj ms) = .strObj ms' ∧ ms'.Perm ms := by
  reorder_tac
theorem reorder_numObj (s : St) (k : NumKind) (ms : List (Bytes × Int)) (hh : hintOK s.hint)
    (hm : (ms.map (·.1)).Nodup) : ∃ ms', reorderByHint s (.numObj k ms) = .numObj k ms' ∧ ms'.Perm ms := by
  reorder_tac
theorem reorder_f32Obj (s : St) (ms : List (Bytes × UInt32)) (hh : hintOK s.hint)
    (hm : (ms.map (·.1)).Nodup) : ∃ ms', reorderByHint s (.f32Obj ms) = .f32Obj ms' ∧ ms'.Perm ms := by
  reorder_tac
theorem reorder_f64Obj (s : St) (ms : List (Bytes × UInt64)) (hh : hintOK s.hint)
    (hm : (ms.map (·.1)).Nodup) : ∃ ms', reorderByHint s (.f64Obj ms) = .f64Obj ms' ∧ ms'.Perm ms := by
  reorder_tac

/-! ## `seqM` and `rangeM` when every step succeeds -/

/-- a step that succeeds from every healthy state, delivering events described by `Q` -/
def StepOK {α : Type} (step : St → α → St × Res) (Q : α → List XEv → Prop) (x : α) : Prop :=
  ∀ s, Inv s → ∃ s' xs, step s x = (s', .ok) ∧ Adv s s' xs ∧ Q x xs

theorem seqM_ok {α : Type} (step : St → α → St × Res) (Q : α → List XEv → Prop)
    (xs : List α) (hstep : ∀ x ∈ xs, StepOK step Q x) :
    ∀ s, Inv s →
      ∃ s' xss, seqM step s xs = (s', .ok) ∧ All2 Q xs xss ∧ Adv s s' xss.flatten := by
  induction xs with
  | nil => intro s h; exact ⟨s, [], rfl, .nil, Adv.refl s h⟩
  | cons x xs ih =>
    intro s h
    obtain ⟨s1, e1, hs1, ha1, hq1⟩ := hstep x (by simp) s h
    obtain ⟨s2, ess, hs2, hall, ha2⟩ := ih (fun y hy => hstep y (by simp [hy])) s1 ha1.2
    refine ⟨s2, e1 :: ess, ?_, .cons hq1 hall, ?_⟩
    · simp only [seqM, hs1, hs2]
    · simpa using ha1.trans ha2

theorem pickEntry_some {α : Type} (s : St) (es : List (Bytes × α)) (h : es ≠ []) :
    ∃ e rest, pickEntry s es = some (e, rest) ∧ (e :: rest).Perm es := by
  cases es with
  | nil => exact absurd rfl h
  | cons e0 rest0 =>
    unfold pickEntry
    cases hk : hintKey? s with
    | none => exact ⟨e0, rest0, rfl, List.Perm.refl _⟩
    | some k =>
      simp only []
      cases hf : (e0 :: rest0).find? (fun m => m.1 == k) with
      | none => exact ⟨e0, rest0, rfl, List.Perm.refl _⟩
      | some e' =>
        refine ⟨e', _, rfl, ?_⟩
        generalize (e0 :: rest0) = l at hf
        induction l with
        | nil => simp at hf
        | cons a l ih =>
          simp only [List.find?_cons] at hf
          cases ha : (a.1 == k) with
          | true =>
            simp only [ha] at hf
            cases hf
            simp [ha]
          | false =>
            simp only [ha] at hf
            simp only [List.eraseP_cons, ha, cond_false]
            exact (List.Perm.swap a e' _).trans ((ih hf).cons a)

theorem rangeM_ok {α : Type} (step : St → Bytes × α → St × Res)
    (Q : Bytes × α → List XEv → Prop) :
    ∀ (n : Nat) (es : List (Bytes × α)), (∀ e ∈ es, StepOK step Q e) → es.length ≤ n →
    ∀ s, Inv s →
      ∃ s' es' xss, rangeM step n s es = (s', .ok) ∧ es'.Perm es ∧ All2 Q es' xss ∧
        Adv s s' xss.flatten := by
  intro n
  induction n with
  | zero =>
    intro es _ hl s h
    have : es = [] := List.eq_nil_of_length_eq_zero (by omega)
    subst this
    exact ⟨s, [], [], rfl, List.Perm.refl _, .nil, Adv.refl s h⟩
  | succ n ih =>
    intro es hstep hl s h
    cases hes : es with
    | nil =>
      refine ⟨s, [], [], ?_, List.Perm.refl _, .nil, Adv.refl s h⟩
      simp [rangeM, pickEntry]
    | cons e0 rest0 =>
      obtain ⟨e, rest, hpick, hperm⟩ := pickEntry_some s es (by simp [hes])
      rw [← hes]
      have hmem : ∀ y ∈ e :: rest, y ∈ es := fun y hy => hperm.subset hy
      obtain ⟨s1, x1, hs1, ha1, hq1⟩ := hstep e (hmem e (by simp)) s h
      have hlen : rest.length ≤ n := by
        have := hperm.length_eq
        simp only [List.length_cons] at this
        omega
      obtain ⟨s2, es', xss, hs2, hperm2, hall, ha2⟩ :=
        ih rest (fun y hy => hstep y (hmem y (by simp [hy]))) hlen s1 ha1.2
      refine ⟨s2, e :: es', x1 :: xss, ?_, (hperm2.cons e).trans hperm, .cons hq1 hall, ?_⟩
      · simp only [rangeM, hpick, hs1, hs2]
      · simpa using ha1.trans ha2

end SF.FoldProofs
