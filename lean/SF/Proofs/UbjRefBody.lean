/-
  UBJSON refinement: container bodies — one round of each loop, given the payload lemma of
  the element.
-/
import SF.Proofs.UbjRefScalarPL
namespace SF.Ubjson.Parse
open SF SF.Ubjson SF.Ubjson.Syn
open StateType StateStep

/-! ## no-ops in arrays -/

theorem noops_succ (t : Nat) : noops (t + 1) = noopMarker :: noops t := rfl

theorem dyn_noops (t : Nat) (f : Nat) (S : List St) (VS : StateStack) (LS : List Int) (lc : Int) (vt : Nat)
    (E : List Ev) (b : Bytes) :
    feedUntil (f + t) (mk S ⟨stArrayDyn, stCont⟩ VS LS lc vt E) (noops t ++ b) =
      feedUntil f (mk S ⟨stArrayDyn, stCont⟩ VS LS lc vt E) b := by
  induction t generalizing f with
  | zero => simp [noops]
  | succ t ih =>
    rw [noops_succ, show f + (t + 1) = (f + t) + 1 by omega, List.cons_append,
      feedUntil_succ _ _ _ (by simp), step_arrDyn_noop, after_cont, ih]

theorem cnt_noops (t : Nat) (f : Nat) (S : List St) (VS : StateStack) (LS : List Int) (lc : Int) (vt : Nat)
    (E : List Ev) (b : Bytes) (h : lc ≠ 0) :
    feedUntil (f + t) (mk S ⟨stArrayCount, stCont⟩ VS LS lc vt E) (noops t ++ b) =
      feedUntil f (mk S ⟨stArrayCount, stCont⟩ VS LS lc vt E) b := by
  induction t generalizing f with
  | zero => simp [noops]
  | succ t ih =>
    rw [noops_succ, show f + (t + 1) = (f + t) + 1 by omega, List.cons_append,
      feedUntil_succ _ _ _ (by simp), step_arrCount_noop _ _ _ _ _ _ _ h, after_cont, ih]

/-! ## statements for container bodies -/

/-- body of a plain array, from the `stArrayDyn` state -/
def DynBody (xs : List (Nat × Item)) : Prop :=
  ∀ (f : Nat) (S : List St) (c : St) (VS : StateStack) (LS : List Int) (lc : Int) (vt : Nat)
    (E : List Ev) (t : Nat) (rest : Bytes), VSok VS →
    ∃ vt', feedUntil (f + (costElems xs + t + 1)) (mk (c :: S) ⟨stArrayDyn, stCont⟩ VS LS lc vt E)
        (wireElems xs ++ (noops t ++ arrEndMarker :: rest)) =
      after f (ret S c VS LS lc vt' (.arrEnd :: ((evElems xs).reverse ++ E)) rest)

/-- body of a counted array, from the `stCont` state with the remaining count on top -/
def CntBody (xs : List (Nat × Item)) : Prop :=
  ∀ (f : Nat) (S : List St) (c : St) (VS : StateStack) (LS : List Int) (l0 : Int) (vt : Nat)
    (E : List Ev) (rest : Bytes), VSok VS →
    ∃ vt', feedUntil (f + (costElems xs + 1)) (mk (c :: S) ⟨stArrayCount, stCont⟩ VS (l0 :: LS) xs.length vt E)
        (wireElems xs ++ rest) =
      after f (ret S c VS LS l0 vt' (.arrEnd :: ((evElems xs).reverse ++ E)) rest)

/-- body of a typed array whose element start state is `VS.current` -/
def TypBody (xs : List Item) : Prop :=
  ∀ (f : Nat) (S : List St) (c : St) (VS : StateStack) (LS : List Int) (l0 : Int) (vt : Nat)
    (E : List Ev) (rest : Bytes), VSok VS → (∀ x ∈ xs, istart x = VS.current) →
    ∃ vt', feedUntil (f + (costTyped xs + 1)) (mk (c :: S) ⟨stArrayTyped, stCont⟩ VS (l0 :: LS) xs.length vt E)
        (payList xs ++ rest) =
      after f (ret S c VS.pop LS l0 vt' (.arrEnd :: ((evList xs).reverse ++ E)) rest)

def DynMems (ms : List (LW × Bytes × Item)) : Prop :=
  ∀ (f : Nat) (S : List St) (c : St) (VS : StateStack) (LS : List Int) (lc : Int) (vt : Nat)
    (E : List Ev) (rest : Bytes), VSok VS →
    ∃ vt', feedUntil (f + (costMems ms + 1)) (mk (c :: S) ⟨stObjectDyn, stStart⟩ VS LS lc vt E)
        (wireMems ms ++ objEndMarker :: rest) =
      after f (ret S c VS LS lc vt' (.objEnd :: ((evMems ms).reverse ++ E)) rest)

def CntMems (ms : List (LW × Bytes × Item)) : Prop :=
  ∀ (f : Nat) (S : List St) (c : St) (VS : StateStack) (LS : List Int) (l0 : Int) (vt : Nat)
    (E : List Ev) (rest : Bytes), VSok VS →
    ∃ vt', feedUntil (f + (costMems ms + 1)) (mk (c :: S) ⟨stObjectCount, stFieldName⟩ VS (l0 :: LS) ms.length vt E)
        (wireMems ms ++ rest) =
      after f (ret S c VS LS l0 vt' (.objEnd :: ((evMems ms).reverse ++ E)) rest)

def TypMems (ms : List (LW × Bytes × Item)) : Prop :=
  ∀ (f : Nat) (S : List St) (c : St) (VS : StateStack) (LS : List Int) (l0 : Int) (vt : Nat)
    (E : List Ev) (rest : Bytes), VSok VS → (∀ m ∈ ms, istart m.2.2 = VS.current) →
    ∃ vt', feedUntil (f + (costMemsT ms + 1)) (mk (c :: S) ⟨stObjectTyped, stFieldName⟩ VS (l0 :: LS) ms.length vt E)
        (payMems ms ++ rest) =
      after f (ret S c VS.pop LS l0 vt' (.objEnd :: ((evMems ms).reverse ++ E)) rest)

/-! ## one round of each body, given the payload lemma for the element -/

theorem dynBody_nil : DynBody [] := by
  intro f S c VS LS lc vt E t rest _
  refine ⟨vt, ?_⟩
  simp only [costElems, wireElems, List.nil_append, evElems, List.reverse_nil, Nat.zero_add]
  rw [show f + (t + 1) = (f + 1) + t by omega, dyn_noops,
    feedUntil_succ _ _ _ (by simp), step_arrDyn_end]

theorem dynBody_cons (n : Nat) (x : Item) (xs : List (Nat × Item)) (hx : PLs x) (hxs : DynBody xs) :
    DynBody ((n, x) :: xs) := by
  intro f S c VS LS lc vt E t rest hv
  obtain ⟨vt1, h1⟩ := value_in x hx (f + (costElems xs + t + 1)) S c ⟨stArrayDyn, stCont⟩ VS LS lc vt E
    (wireElems xs ++ (noops t ++ arrEndMarker :: rest)) hv (by simp)
  obtain ⟨vt2, h2⟩ := hxs f S c VS LS lc vt1 (x.events.reverse ++ E) t rest hv
  refine ⟨vt2, ?_⟩
  simp only [costElems, wireElems, evElems, List.append_assoc, List.cons_append]
  rw [show f + (n + 1 + (if isLit x = true then 0 else pcost x) + costElems xs + t + 1) =
      ((f + (costElems xs + t + 1) + vcost x) + 1) + n by simp only [vcost]; omega]
  rw [dyn_noops, feedUntil_succ _ _ _ (by simp)]
  have he : (stepValue (mk (c :: S) ⟨stArrayDyn, stCont⟩ VS LS lc vt E)
      (x.marker :: (x.payload ++ (wireElems xs ++ (noops t ++ arrEndMarker :: rest))))).err = none := by
    rw [stepValue_item _ _ _ _ _ _ _ _ _ (by simp)]; split <;> rfl
  rw [step_arrDyn_value _ _ _ _ _ _ _ _ (marker_ne x).2.1 he, h1, h2]
  simp [List.reverse_append]


theorem cntBody_nil : CntBody [] := by
  intro f S c VS LS l0 vt E rest _
  refine ⟨vt, ?_⟩
  simp only [costElems, wireElems, List.nil_append, evElems, List.reverse_nil, Nat.zero_add, List.length_nil]
  rw [feedUntil_succ _ _ _ (by simp [pending, mk])]
  exact congrArg _ (step_arrCount_end S VS LS vt E c l0 rest)

theorem cntBody_cons (n : Nat) (x : Item) (xs : List (Nat × Item)) (hx : PLs x) (hxs : CntBody xs) :
    CntBody ((n, x) :: xs) := by
  intro f S c VS LS l0 vt E rest hv
  have hlen : (((n, x) :: xs).length : Int) - 1 = (xs.length : Int) := by simp
  have hne : (((n, x) :: xs).length : Int) ≠ 0 := by simp; omega
  obtain ⟨vt1, h1⟩ := value_in x hx (f + (costElems xs + 1)) S c ⟨stArrayCount, stCont⟩ VS (l0 :: LS)
    xs.length vt E (wireElems xs ++ rest) hv (by simp)
  obtain ⟨vt2, h2⟩ := hxs f S c VS LS l0 vt1 (x.events.reverse ++ E) rest hv
  refine ⟨vt2, ?_⟩
  simp only [costElems, wireElems, evElems, List.append_assoc, List.cons_append]
  rw [show f + (n + 1 + (if isLit x = true then 0 else pcost x) + costElems xs + 1) =
      ((f + (costElems xs + 1) + vcost x) + 1) + n by simp only [vcost]; omega]
  rw [cnt_noops _ _ _ _ _ _ _ _ _ hne, feedUntil_succ _ _ _ (by simp)]
  have he : (stepValue (mk (c :: S) ⟨stArrayCount, stCont⟩ VS (l0 :: LS) ((((n, x) :: xs).length : Int) - 1) vt E)
      (x.marker :: (x.payload ++ (wireElems xs ++ rest)))).err = none := by
    rw [stepValue_item _ _ _ _ _ _ _ _ _ (by simp)]; split <;> rfl
  rw [step_arrCount_value _ _ _ _ _ _ _ _ hne (marker_ne x).1 he, hlen, h1, h2]
  simp [List.reverse_append]

theorem typBody_nil : TypBody [] := by
  intro f S c VS LS l0 vt E rest _ _
  refine ⟨vt, ?_⟩
  simp only [costTyped, payList, List.nil_append, evList, List.reverse_nil, Nat.zero_add, List.length_nil]
  rw [feedUntil_succ _ _ _ (by simp [pending, mk])]
  exact congrArg _ (step_arrTyped_end S VS LS vt E c l0 rest)

theorem typBody_cons (x : Item) (xs : List Item) (hx : PLs x) (hxs : TypBody xs) : TypBody (x :: xs) := by
  intro f S c VS LS l0 vt E rest hv hst
  have hlen : (((x :: xs).length : Nat) : Int) - 1 = (xs.length : Int) := by simp
  have hne : (((x :: xs).length : Nat) : Int) ≠ 0 := by simp; omega
  have hsx : VS.current = istart x := (hst x (by simp)).symm
  obtain ⟨vt1, h1⟩ := hx (f + (costTyped xs + 1)) (c :: S) ⟨stArrayTyped, stCont⟩ VS (l0 :: LS)
    xs.length vt E (payList xs ++ rest) hv
  obtain ⟨vt2, h2⟩ := hxs f S c VS LS l0 vt1 (x.events.reverse ++ E) rest hv
    (fun y hy => hst y (by simp [hy]))
  refine ⟨vt2, ?_⟩
  simp only [costTyped, payList, evList, List.append_assoc]
  rw [show f + (1 + pcost x + costTyped xs + 1) = ((f + (costTyped xs + 1)) + pcost x) + 1 by omega]
  rw [feedUntil_succ _ _ _ (by simp [pending, mk]), step_arrTyped_elem _ _ _ _ _ _ _ hne, after_cont, hlen, hsx,
    h1, after_ret_cons, h2]
  simp [List.reverse_append]


/-! ### objects -/

theorem lenWire_isEmpty (w : LW) (n : Nat) (b : Bytes) : (lenWire w n ++ b).isEmpty = false := rfl

theorem dynMems_nil : DynMems [] := by
  intro f S c VS LS lc vt E rest _
  refine ⟨vt, ?_⟩
  simp only [costMems, wireMems, List.nil_append, evMems, List.reverse_nil, Nat.zero_add]
  rw [feedUntil_succ _ _ _ (by simp), step_objDyn_end]

theorem dynMems_cons (kw : LW) (k : Bytes) (v : Item) (ms : List (LW × Bytes × Item))
    (hk : kw.fits k.length = true) (hx : PLs v) (hms : DynMems ms) : DynMems ((kw, k, v) :: ms) := by
  intro f S c VS LS lc vt E rest hv
  obtain ⟨vt1, h1⟩ := value_in v hx (f + (costMems ms + 1)) S c ⟨stObjectDyn, stStart⟩ VS LS lc vt (.key k :: E)
    (wireMems ms ++ objEndMarker :: rest) hv (by simp)
  obtain ⟨vt2, h2⟩ := hms f S c VS LS lc vt1 (v.events.reverse ++ (.key k :: E)) rest hv
  refine ⟨vt2, ?_⟩
  simp only [costMems, wireMems, evMems, List.append_assoc, List.cons_append]
  rw [show f + (3 + (if isLit v = true then 0 else pcost v) + costMems ms + 1) =
      ((((f + (costMems ms + 1)) + vcost v) + 1) + 1) + 1 by simp only [vcost]; omega]
  rw [feedUntil_succ _ _ _ (lenWire_isEmpty _ _ _ ▸ rfl), step_objDyn_keyLen _ _ _ _ _ _ _ _ hk, after_cont]
  rw [feedUntil_succ _ _ _ (by simp), step_objDyn_key, after_cont]
  rw [feedUntil_succ _ _ _ (by simp)]
  have he : (stepValue (mk (c :: S) ⟨stObjectDyn, stStart⟩ VS LS lc vt (.key k :: E))
      (v.marker :: (v.payload ++ (wireMems ms ++ objEndMarker :: rest)))).err = none := by
    rw [stepValue_item _ _ _ _ _ _ _ _ _ (by simp)]; split <;> rfl
  rw [step_objDyn_value _ _ _ _ _ _ _ _ (marker_ne v).1 he, h1, h2]
  simp [List.reverse_append]

theorem cntMems_nil : CntMems [] := by
  intro f S c VS LS l0 vt E rest _
  refine ⟨vt, ?_⟩
  simp only [costMems, wireMems, List.nil_append, evMems, List.reverse_nil, Nat.zero_add, List.length_nil]
  rw [feedUntil_succ _ _ _ (by simp [pending, mk])]
  exact congrArg _ (step_objCount_end S VS LS vt E c l0 rest)

theorem cntMems_cons (kw : LW) (k : Bytes) (v : Item) (ms : List (LW × Bytes × Item))
    (hk : kw.fits k.length = true) (hx : PLs v) (hms : CntMems ms) : CntMems ((kw, k, v) :: ms) := by
  intro f S c VS LS l0 vt E rest hv
  have hlen : ((((kw, k, v) :: ms).length : Nat) : Int) - 1 = (ms.length : Int) := by simp
  have hne : ((((kw, k, v) :: ms).length : Nat) : Int) ≠ 0 := by simp; omega
  obtain ⟨vt1, h1⟩ := value_in v hx (f + (costMems ms + 1)) S c ⟨stObjectCount, stFieldName⟩ VS (l0 :: LS)
    ms.length vt (.key k :: E) (wireMems ms ++ rest) hv (by simp)
  obtain ⟨vt2, h2⟩ := hms f S c VS LS l0 vt1 (v.events.reverse ++ (.key k :: E)) rest hv
  refine ⟨vt2, ?_⟩
  simp only [costMems, wireMems, evMems, List.append_assoc, List.cons_append]
  rw [show f + (3 + (if isLit v = true then 0 else pcost v) + costMems ms + 1) =
      ((((f + (costMems ms + 1)) + vcost v) + 1) + 1) + 1 by simp only [vcost]; omega]
  rw [feedUntil_succ _ _ _ (lenWire_isEmpty _ _ _ ▸ rfl),
    step_objCount_keyLen _ _ _ _ _ _ stObjectCount (Or.inl rfl) hne _ _ hk, after_cont]
  rw [feedUntil_succ _ _ _ (by simp), step_objCount_key _ _ _ _ _ stObjectCount (Or.inl rfl), after_cont]
  rw [feedUntil_succ _ _ _ (by simp)]
  have he : (stepValue (mk (c :: S) ⟨stObjectCount, stFieldName⟩ VS (l0 :: LS)
      (((((kw, k, v) :: ms).length : Nat) : Int) - 1) vt (.key k :: E))
      (v.marker :: (v.payload ++ (wireMems ms ++ rest)))).err = none := by
    rw [stepValue_item _ _ _ _ _ _ _ _ _ (by simp)]; split <;> rfl
  rw [step_objCount_value _ _ _ _ _ _ _ _ (marker_ne v).1 he, hlen, h1, h2]
  simp [List.reverse_append]

theorem typMems_nil : TypMems [] := by
  intro f S c VS LS l0 vt E rest _ _
  refine ⟨vt, ?_⟩
  simp only [costMemsT, payMems, List.nil_append, evMems, List.reverse_nil, Nat.zero_add, List.length_nil]
  rw [feedUntil_succ _ _ _ (by simp [pending, mk])]
  exact congrArg _ (step_objTyped_end S VS LS vt E c l0 rest)

theorem typMems_cons (kw : LW) (k : Bytes) (v : Item) (ms : List (LW × Bytes × Item))
    (hk : kw.fits k.length = true) (hx : PLs v) (hms : TypMems ms) : TypMems ((kw, k, v) :: ms) := by
  intro f S c VS LS l0 vt E rest hv hst
  have hlen : ((((kw, k, v) :: ms).length : Nat) : Int) - 1 = (ms.length : Int) := by simp
  have hne : ((((kw, k, v) :: ms).length : Nat) : Int) ≠ 0 := by simp; omega
  have hsx : VS.current = istart v := (hst (kw, k, v) (by simp)).symm
  obtain ⟨vt1, h1⟩ := hx (f + (costMemsT ms + 1)) (c :: S) ⟨stObjectTyped, stFieldName⟩ VS (l0 :: LS)
    ms.length vt (.key k :: E) (payMems ms ++ rest) hv
  obtain ⟨vt2, h2⟩ := hms f S c VS LS l0 vt1 (v.events.reverse ++ (.key k :: E)) rest hv
    (fun y hy => hst y (by simp [hy]))
  refine ⟨vt2, ?_⟩
  simp only [costMemsT, payMems, evMems, List.append_assoc]
  rw [show f + (3 + pcost v + costMemsT ms + 1) = ((((f + (costMemsT ms + 1)) + pcost v) + 1) + 1) + 1 by omega]
  rw [feedUntil_succ _ _ _ (lenWire_isEmpty _ _ _ ▸ rfl),
    step_objCount_keyLen _ _ _ _ _ _ stObjectTyped (Or.inr rfl) hne _ _ hk, after_cont]
  rw [feedUntil_succ _ _ _ (by cases k <;> simp [pending, mk]), step_objCount_key _ _ _ _ _ stObjectTyped (Or.inr rfl),
    after_cont]
  rw [feedUntil_succ _ _ _ (by simp [pending, mk]), step_objTyped_value, after_cont, hlen, hsx, h1,
    after_ret_cons, h2]
  simp [List.reverse_append]

end SF.Ubjson.Parse
