/-
  C13, VALUES for struct targets, part 4: the store lemma (`FieldOK`) for `interface{}` fields — the generic
  clause (`generic_value_into_field`, SF/Proofs/UnfGenericTop.lean) at the field's address.
-/
import SF.Proofs.UnfSVFields
import SF.Proofs.UnfGenericTop
namespace SF.Unf.SV
open SF SF.Unf SF.Unf.Spec SF.Unf.Str

/-- the context `unfolderX.initState` leaves -/
def primCtxAt (c : Ctx) (k : PK) (p : Path) : Ctx :=
  { c with unfolder := c.unfolder.push (.prim k), ptr := c.ptr.push (some p) }

theorem init_prim (c : Ctx) (k : PK) (p : Path) :
    initStateRU (.lifted (.prim k)) (some p) c = .ok () (primCtxAt c k p) := by
  simp [initStateRU, resolveRU, initStatePU, primInitState, bind_def, pushU, pushPtr, modifyCtx, primCtxAt]

theorem primAssign_at (k : PK) (c : Ctx) (steps : List Step) (w T' : GoVal) (kc' : Symbols.Cache)
    (hT : c.target.set steps w = some T') :
    primAssign w (setKC (primCtxAt c k ⟨.target, steps⟩) kc') = .ok () (upd c T' c.cells kc') := by
  rcases c with ⟨⟨uc, us⟩, ⟨pc, ps⟩, _⟩
  simp only at hT
  simp [primAssign, bind_def, currentPtr, setKC, primCtxAt, Stk.push, store, rootVal, hT, setRoot, primCleanup, popU,
    popPtr, Stk.pop, pure_def, upd]

/-- THE STORE LEMMA for an `interface{}` field (named or not): ANY well-formed value, the field then holds the
stream's generic value -/
theorem fieldOK_ifc (tbl : TypeTable) (ft : GoType) (hu : ft.un tbl = .ifc) : FieldOK tbl (.lifted (.prim .ifc)) ft := by
  intro f x c steps ip n oldM oldS nv flds henv hcur hkc hget hty hnorm hwf hasg
  cases n with
  | zero => simp [assign] at hasg
  | succ n =>
    have hnv : nv = generic x.toS := by
      unfold assign at hasg
      simp only [hu] at hasg
      injection hasg with h
      exact h.symm
    obtain ⟨T', hT⟩ := set_of_get c.target steps x.gen oldM hget
    have hu1 : (primCtxAt c .ifc ⟨.target, steps⟩).unfolder = ⟨.prim .ifc, .struct flds :: c.unfolder.stack⟩ := by
      simp [primCtxAt, Stk.push, hcur]
    obtain ⟨kc', hk, hrun⟩ := generic_value_into_field (f + 1) x (primCtxAt c .ifc ⟨.target, steps⟩) flds
      c.unfolder.stack hwf hu1 hkc
    refine ⟨x.gen, T', c.cells, kc', _, init_prim c .ifc _, ?_, hT, ?_, ?_, hk.1⟩
    · rw [hrun]; exact primAssign_at .ifc c steps x.gen T' kc' hT
    · rw [hnv]; exact (delivered_value_is_generic x hwf).1
    · refine .flat _ _ ?_
      unfold Flat
      rw [hu]
      trivial

end SF.Unf.SV
