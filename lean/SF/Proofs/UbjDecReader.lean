/-
  C18 for the UBJSON pull decoder (mirror SF/Ubjson/Dec.lean), reader-driven and byte-slice:
  sequences of calls on streams of grammatical items (`nextsF_items`, `reader_stream`) and on
  streams cut inside an item (`reader_truncated`).  Final statements: SF/Proofs/UbjDecTop.lean.
-/
import SF.Proofs.UbjDecNext
import SF.Proofs.UbjDecStack
set_option linter.unusedSimpArgs false
set_option linter.unusedVariables false
namespace SF.Ubjson.DecR
open SF SF.Ubjson SF.Ubjson.Parse SF.Ubjson.Dec SF.Ubjson.Syn
open SF.Ubjson.Chunk (app Ext Sim More Parked Split execStep_split)
open StateType StateStep

/-! ## sequences of calls -/

/-- repeated calls of `Next`, the i-th with `f d` loop iterations of fuel, stopping after the
first call that does not succeed; per call: the result and the events accumulated in the
parser (oldest first) -/
def nextsF (f : Dec → Nat) : Nat → Dec → List (NextRes × List Ev)
  | 0, _ => []
  | n + 1, d =>
    (((next (f d) d).2, Parse.events (next (f d) d).1.p) ::
      (if (next (f d) d).2 == .ok then nextsF f n (next (f d) d).1 else []))

/-- … with the fuel the model hands out -/
abbrev nexts : Nat → Dec → List (NextRes × List Ev) := nextsF nextFuel

/-- THE FUEL NEEDED for the loop of `Next`: a fuel function is sufficient if it grants every call
at least `need d` = (bound on the remaining reads) + [buffer non-empty] + 1 loop iterations -/
def Enough (f : Dec → Nat) : Prop := ∀ d, need d ≤ f d

/-- the fuel of the model (`nextFuel`) is sufficient -/
theorem enough_nextFuel : Enough nextFuel := need_le_nextFuel

theorem nextsF_succ (f : Dec → Nat) (n : Nat) (d : Dec) :
    nextsF f (n + 1) d =
      ((next (f d) d).2, Parse.events (next (f d) d).1.p) ::
        (if (next (f d) d).2 == .ok then nextsF f n (next (f d) d).1 else []) := by
  rw [nextsF]

/-- the same with the parser's fuel function abstracted (`nextG`) -/
def nextsG (ff : Bytes → Nat) (f : Dec → Nat) : Nat → Dec → List (NextRes × List Ev)
  | 0, _ => []
  | n + 1, d =>
    (((nextG ff (f d) d).2, Parse.events (nextG ff (f d) d).1.p) ::
      (if (nextG ff (f d) d).2 == .ok then nextsG ff f n (nextG ff (f d) d).1 else []))

theorem nextsG_succ (ff : Bytes → Nat) (f : Dec → Nat) (n : Nat) (d : Dec) :
    nextsG ff f (n + 1) d =
      ((nextG ff (f d) d).2, Parse.events (nextG ff (f d) d).1.p) ::
        (if (nextG ff (f d) d).2 == .ok then nextsG ff f n (nextG ff (f d) d).1 else []) := by
  rw [nextsG]

theorem nextsF_eq_nextsG (f : Dec → Nat) (n : Nat) (d : Dec) : nextsF f n d = nextsG fuelFor f n d := by
  induction n generalizing d with
  | zero => rfl
  | succ n ih =>
    rw [nextsF_succ, nextsG_succ, ← next_eq_nextG]
    congr 1
    split
    · exact ih _
    · rfl

/-! ## the idle parser -/

set_option linter.unusedSimpArgs false in
theorem good_idle (E : List Ev) (vt : Nat) : Good (idle E vt) := by
  refine ⟨⟨?_, by simp [idle]⟩, ?_⟩
  · constructor <;> simp [idle, crit]
  · constructor <;> simp +decide [idle, sl, chain, validSt, nT, vdepth, pastHdr]

theorem pending_idle (E : List Ev) (vt : Nat) : pending (idle E vt) = false := by
  simp [pending, idle]

theorem eofV_idle (E : List Ev) (vt : Nat) : eofV (idle E vt) = .eof := by
  simp [eofV, finalize_idle]

theorem lt_fuelFor (M : Nat) (h : M < 2000000) : ∀ b, M < fuelFor b := by
  intro b; unfold fuelFor; omega

theorem wire_ne_nil (x : Item) : x.wire ≠ [] := by simp [Item.wire]

/-! ## whole runs of the parser loop on grammatical input -/

/-- the whole run over an item with its leading no-ops, whatever follows -/
theorem until_item (n : Nat) (x : Item) (hx : x.ok = true) (E : List Ev) (vt : Nat) (tail : Bytes) :
    ∃ vt' m, m ≤ n + 1 + vcost x ∧
      Until (idle E vt) (noops n ++ (x.wire ++ tail)) ⟨idle (x.events.reverse ++ E) vt', tail, true, none⟩ m := by
  obtain ⟨vt', h⟩ := feedUntil_value n x hx E vt tail (n + 1 + vcost x) (Nat.le_refl _)
  have hm : More (idle E vt) (noops n ++ (x.wire ++ tail)) := by
    left; intro hc
    have := (List.append_eq_nil_iff.mp (List.append_eq_nil_iff.mp hc).2).1
    exact wire_ne_nil x this
  obtain ⟨m, hm1, hm2⟩ := until_of_feed _ _ _ hm (by rw [h]; simp)
  rw [h] at hm2
  exact ⟨vt', m, hm1, hm2⟩

/-- the whole run over trailing no-ops -/
theorem until_noops (t : Nat) (ht : 0 < t) (E : List Ev) (vt : Nat) :
    ∃ m, m ≤ t + 1 ∧ Until (idle E vt) (noops t) ⟨idle E vt, [], false, none⟩ m := by
  have h : feedUntil (1 + t) (idle E vt) (noops t) = ⟨idle E vt, [], false, none⟩ := by
    have := top_noops t 1 {} [] 0 vt E []
    rw [List.append_nil] at this
    rw [idle_eq, this, feedUntil_idle_nil 0 _ (by rw [← idle_eq]; exact pending_idle E vt)]
  have hm : More (idle E vt) (noops t) := by
    left; intro hc
    have := congrArg List.length hc
    rw [noops_length] at this
    simp at this; omega
  obtain ⟨m, hm1, hm2⟩ := until_of_feed _ _ _ hm (by rw [h]; simp)
  rw [h] at hm2
  exact ⟨m, by omega, hm2⟩

/-! ## single calls on well-formed input -/

/-- the hypotheses about a decoder between two calls -/
structure Ready (d : Dec) (E : List Ev) (vt : Nat) : Prop where
  rd : RdOK d
  p : d.p = idle E vt
  bs : d.hasReader = true → 1 ≤ d.bufsize

/-- ONE CALL, a complete item (after any number of no-ops) at the head of the stream — cut into
reads in any way, whatever follows: it succeeds, delivers exactly the item's events and keeps
exactly what follows -/
theorem nextG_item (ff : Bytes → Nat) (M : Nat) (hff : ∀ b, M < ff b) (n : Nat) (x : Item) (hx : x.ok = true)
    (hc : n + 1 + vcost x ≤ M) (tail : Bytes)
    (E : List Ev) (vt : Nat) (d : Dec) (hd : Ready d E vt) (hs : stream d = noops n ++ (x.wire ++ tail))
    (fuel : Nat) (hf : need d ≤ fuel) :
    ∃ vt', (nextG ff fuel d).2 = .ok ∧ Ready (nextG ff fuel d).1 (x.events.reverse ++ E) vt' ∧
      stream (nextG ff fuel d).1 = tail := by
  obtain ⟨vt', m, hm, hU⟩ := until_item n x hx E vt tail
  have hne : stream d ≠ [] := by
    rw [hs]; intro hcn
    exact wire_ne_nil x (List.append_eq_nil_iff.mp (List.append_eq_nil_iff.mp hcn).2).1
  have hw := next_whole ff M hff fuel d hd.rd
    (by rw [hd.p]; exact good_idle E vt) (by rw [hd.p]; exact pending_idle E vt) hd.bs hf
  rw [NextOK] at hw
  have hpost := hw.2 hne _ m (by rw [hs, hd.p]; exact hU) (by omega)
  obtain ⟨k1, k2, k3, k4, k5, k6⟩ := hpost.ok rfl rfl
  exact ⟨vt', k1, ⟨k4, k2, fun h => by rw [k5]; exact hd.bs (by rw [← k6]; exact h)⟩, k3⟩

/-- ONE CALL at the end of the stream, between two items (possibly after trailing no-ops): a
clean end -/
theorem nextG_end_idle (ff : Bytes → Nat) (M : Nat) (hff : ∀ b, M < ff b) (t : Nat) (ht : t + 1 ≤ M) (E : List Ev) (vt : Nat) (d : Dec) (hd : Ready d E vt)
    (hs : stream d = noops t) (fuel : Nat) (hf : need d ≤ fuel) :
    (nextG ff fuel d).2 = .eof ∧ (nextG ff fuel d).1.p = idle E vt := by
  have hw := next_whole ff M hff fuel d hd.rd
    (by rw [hd.p]; exact good_idle E vt) (by rw [hd.p]; exact pending_idle E vt) hd.bs hf
  rw [NextOK] at hw
  cases t with
  | zero =>
    obtain ⟨h1, h2⟩ := hw.1 (by rw [hs]; rfl)
    rw [hd.p, eofV_idle] at h1
    rw [hd.p, finalize_idle] at h2
    exact ⟨h1, h2⟩
  | succ t =>
    obtain ⟨m, hm, hU⟩ := until_noops (t + 1) (by omega) E vt
    have hne : stream d ≠ [] := by rw [hs]; simp [noops, List.replicate]
    have hpost := hw.2 hne _ m (by rw [hs, hd.p]; exact hU) (by omega)
    obtain ⟨h1, h2⟩ := hpost.eof rfl rfl
    simp only [eofV_idle, finalize_idle] at h1 h2
    exact ⟨h1, h2⟩

/-! ## streams of items -/

/-- the expected trace of successful calls: after each item the events so far -/
def okTrace (pre : List Ev) : List (Nat × Item) → List (NextRes × List Ev)
  | [] => []
  | (_, x) :: xs => (.ok, pre ++ x.events) :: okTrace (pre ++ x.events) xs

theorem okTrace_eq (pre : List Ev) (xs : List (Nat × Item)) :
    okTrace pre xs = (List.range xs.length).map (fun i => (NextRes.ok, pre ++ evElems (xs.take (i + 1)))) := by
  induction xs generalizing pre with
  | nil => rfl
  | cons nx xs ih =>
    obtain ⟨n, x⟩ := nx
    rw [okTrace, ih, List.length_cons, List.range_succ_eq_map, List.map_cons, List.map_map]
    congr 1
    · simp [evElems]
    · apply List.map_congr_left
      intro i _
      simp [evElems, List.append_assoc]

theorem wireElems_cons_append (n : Nat) (x : Item) (xs : List (Nat × Item)) (tail : Bytes) :
    wireElems ((n, x) :: xs) ++ tail = noops n ++ (x.wire ++ (wireElems xs ++ tail)) := by
  simp [wireElems, Item.wire, List.append_assoc]

/-- the calls for a stream that starts with the complete items `xs` (each after its no-ops): one
successful call per item, then the decoder is between two items with exactly the rest of the
stream to go -/
theorem nextsG_items (ff : Bytes → Nat) (M : Nat) (hff : ∀ b, M < ff b) (f : Dec → Nat) (hf : Enough f)
    (xs : List (Nat × Item)) (hok : okElems xs = true)
    (hc : ∀ nx ∈ xs, nx.1 + 1 + vcost nx.2 ≤ M) (tail : Bytes) :
    ∀ (d : Dec) (E : List Ev) (vt : Nat), Ready d E vt → stream d = wireElems xs ++ tail →
      ∃ d' vt', Ready d' ((evElems xs).reverse ++ E) vt' ∧ stream d' = tail ∧
        ∀ k, nextsG ff f (xs.length + k) d = okTrace E.reverse xs ++ nextsG ff f k d' := by
  induction xs with
  | nil =>
    intro d E vt hd hs
    exact ⟨d, vt, by simpa [evElems] using hd, by simpa [wireElems] using hs, fun k => by simp [okTrace]⟩
  | cons nx xs ih =>
    obtain ⟨n, x⟩ := nx
    intro d E vt hd hs
    have hok' : x.ok = true ∧ okElems xs = true := by simpa [okElems] using hok
    rw [wireElems_cons_append] at hs
    obtain ⟨vt1, h1, h2, h3⟩ := nextG_item ff M hff n x hok'.1 (hc (n, x) (by simp)) _ E vt d hd hs (f d) (hf d)
    obtain ⟨d', vt', g1, g2, g3⟩ := ih hok'.2 (fun nx h => hc nx (by simp [h])) (nextG ff (f d) d).1
      (x.events.reverse ++ E) vt1 h2 h3
    refine ⟨d', vt', by simpa [evElems, List.append_assoc] using g1, g2, fun k => ?_⟩
    have hlen : ((n, x) :: xs).length + k = (xs.length + k) + 1 := by simp; omega
    rw [hlen, nextsG_succ, h1, h2.p, g3 k]
    simp [okTrace, Parse.events, idle]

/-- C18 (1)+(2) for UBJSON, general form: a decoder between two calls whose remaining stream is a
stream of grammatical items — no-ops before each item and at the end -/
theorem streamG_from (ff : Bytes → Nat) (M : Nat) (hff : ∀ b, M < ff b) (f : Dec → Nat) (hf : Enough f)
    (xs : List (Nat × Item)) (trail : Nat) (hok : okElems xs = true)
    (hc : ∀ nx ∈ xs, nx.1 + 1 + vcost nx.2 ≤ M) (ht : trail + 1 ≤ M)
    (d : Dec) (vt : Nat) (hd : Ready d [] vt) (hs : stream d = wireStream xs trail) :
    nextsG ff f (xs.length + 1) d =
      (List.range xs.length).map (fun i => (NextRes.ok, evElems (xs.take (i + 1)))) ++
        [(NextRes.eof, evElems xs)] := by
  obtain ⟨d', vt', g1, g2, g3⟩ := nextsG_items ff M hff f hf xs hok hc (noops trail) d [] vt hd hs
  rw [g3 1, okTrace_eq]
  obtain ⟨e1, e2⟩ := nextG_end_idle ff M hff trail ht _ vt' d' g1 g2 (f d') (hf d')
  rw [nextsG_succ, e1, e2]
  simp [Parse.events, idle, nextsG]

/-! ## truncation -/

theorem until_open {p : P} {b : Bytes} {r : R} {n : Nat} (h : Until p b r n) (hs : p.state.stack ≠ [])
    (he : r.err = none) (hd : r.done = false) : r.p.state.stack ≠ [] := by
  induction h with
  | halt _ => exact execStep_keepsOpen _ _ he hd hs
  | step hd' he' _ _ ih => exact ih (execStep_keepsOpen _ _ he' hd' hs) he hd

/-- a run from the bottom of the stack that ends there without having completed a value has read
nothing but no-ops -/
theorem until_bottom {p : P} {b : Bytes} {r : R} {n : Nat} (h : Until p b r n) (hg : G p)
    (hs : p.state.stack = []) (he : r.err = none) (hd : r.done = false) (hst : r.p.state.stack = []) :
    ∀ y ∈ b, y = noopMarker := by
  induction h with
  | @halt p b hstop =>
    rcases execStep_bottom p b (idle_of_stack_nil hg hs) hs he hd with h | ⟨bs, hb, hx⟩
    · exact absurd hst h
    · rw [hx] at hstop
      rcases hstop with hstop | hstop
      · simp at hstop
      · obtain ⟨q1, _⟩ := not_more_iff.mp hstop
        simp only at q1
        subst q1
        intro y hy
        rw [hb] at hy
        simpa using hy
  | @step p b r n hd' he' hm' h' ih =>
    rcases execStep_bottom p b (idle_of_stack_nil hg hs) hs he' hd' with h | ⟨bs, hb, hx⟩
    · exact absurd hst (until_open h' h he hd)
    · rw [hx] at ih
      have := ih hg hs he hd hst
      intro y hy
      rw [hb] at hy
      rcases List.mem_cons.mp hy with hy | hy
      · exact hy
      · exact this y hy

theorem marker_ne_noop (x : Item) : x.marker ≠ noopMarker := by
  cases x with
  | int k v => cases k <;> simp only [Item.marker, IK.marker] <;> decide
  | _ => simp only [Item.marker] <;> decide

theorem eofV_open (p : P) (hp : pending p = false) (hs : p.state.stack ≠ []) :
    ∃ e, eofV p = .err e ∧ (e = .incomplete ∨ e = .missingArrEnd ∨ e = .missingObjEnd) := by
  unfold eofV
  rcases finalize_open p hp hs with h | h | h <;> rw [h]
  · exact ⟨_, rfl, Or.inl rfl⟩
  · exact ⟨_, rfl, Or.inr (Or.inl rfl)⟩
  · exact ⟨_, rfl, Or.inr (Or.inr rfl)⟩

/-- ONE CALL on a stream that ends inside an item: an error of the end-of-input check (the value,
an array, or an object is incomplete) — never a clean EOF, never ok, no parser error before the
end of the stream is seen -/
theorem nextG_truncated (ff : Bytes → Nat) (M : Nat) (hff : ∀ b, M < ff b) (n : Nat) (x : Item) (hx : x.ok = true)
    (hc : n + 1 + vcost x ≤ M) (k : Nat)
    (hk0 : 0 < k) (hk : k < x.wire.length) (E : List Ev) (vt : Nat) (d : Dec) (hd : Ready d E vt)
    (hs : stream d = noops n ++ x.wire.take k) (fuel : Nat) (hf : need d ≤ fuel) :
    ∃ e, (nextG ff fuel d).2 = .err e ∧ (e = .incomplete ∨ e = .missingArrEnd ∨ e = .missingObjEnd) := by
  obtain ⟨vt', m, hm, hU⟩ := until_item n x hx E vt []
  have hsplit : noops n ++ (x.wire ++ []) = (noops n ++ x.wire.take k) ++ x.wire.drop k := by
    rw [List.append_nil, List.append_assoc, List.take_append_drop]
  have hpre : x.wire.take k ≠ [] := by
    intro hcn
    have : (x.wire.take k).length = 0 := by rw [hcn]; rfl
    rw [List.length_take] at this
    omega
  have hsuf : x.wire.drop k ≠ [] := by
    intro hcn
    have : (x.wire.drop k).length = 0 := by rw [hcn]; rfl
    rw [List.length_drop] at this
    omega
  have hgi := good_idle E vt
  have hma : More (idle E vt) (noops n ++ x.wire.take k) :=
    Or.inl (by intro hcn; exact hpre (List.append_eq_nil_iff.mp hcn).2)
  obtain ⟨r1, n1, hu1, hdc⟩ := until_decomp hU _ _ hsplit hgi hma
  have he : r1.err = none := by
    cases hre : r1.err with
    | none => rfl
    | some e => have := (hdc.err e hre).1; cases this
  have hdn : r1.done = false := by
    cases hrd : r1.done with
    | false => rfl
    | true =>
      have := congrArg Parse.R.rest (hdc.done he hrd)
      simp only [app] at this
      exact absurd (List.append_eq_nil_iff.mp this.symm).2 hsuf
  obtain ⟨g1, g2, _⟩ := hu1.post hgi hma he
  have hst : r1.p.state.stack ≠ [] := by
    intro hst
    have hall := until_bottom hu1 hgi.g rfl he hdn hst
    have hmem : x.marker ∈ noops n ++ x.wire.take k := by
      apply List.mem_append_right
      obtain ⟨j, rfl⟩ : ∃ j, k = j + 1 := ⟨k - 1, by omega⟩
      simp [Item.wire]
    exact marker_ne_noop x (hall _ hmem)
  have hne : stream d ≠ [] := by rw [hs]; intro hcn; exact hpre (List.append_eq_nil_iff.mp hcn).2
  have hw := next_whole ff M hff fuel d hd.rd
    (by rw [hd.p]; exact hgi) (by rw [hd.p]; exact pending_idle E vt) hd.bs hf
  rw [NextOK] at hw
  have hpost := hw.2 hne _ n1 (by rw [hs, hd.p]; exact hu1) (by have := hdc.le; omega)
  obtain ⟨h1, _⟩ := hpost.eof he hdn
  rw [h1]
  exact eofV_open r1.p g2 hst

/-- C18 (3) for UBJSON, general form: items `xs`, then a proper non-empty prefix of one more item
(after its no-ops) -/
theorem truncatedG_from (ff : Bytes → Nat) (M : Nat) (hff : ∀ b, M < ff b) (f : Dec → Nat) (hf : Enough f)
    (xs : List (Nat × Item)) (hok : okElems xs = true)
    (hc : ∀ nx ∈ xs, nx.1 + 1 + vcost nx.2 ≤ M)
    (n : Nat) (x : Item) (hx : x.ok = true) (hcx : n + 1 + vcost x ≤ M) (k : Nat) (hk0 : 0 < k)
    (hk : k < x.wire.length)
    (d : Dec) (vt : Nat) (hd : Ready d [] vt) (hs : stream d = wireElems xs ++ (noops n ++ x.wire.take k)) :
    ∃ e evs, (e = .incomplete ∨ e = .missingArrEnd ∨ e = .missingObjEnd) ∧
      nextsG ff f (xs.length + 1) d =
        (List.range xs.length).map (fun i => (NextRes.ok, evElems (xs.take (i + 1)))) ++ [(NextRes.err e, evs)] := by
  obtain ⟨d', vt', g1, g2, g3⟩ := nextsG_items ff M hff f hf xs hok hc _ d [] vt hd hs
  obtain ⟨e, h1, h2⟩ := nextG_truncated ff M hff n x hx hcx k hk0 hk _ vt' d' g1 g2 (f d') (hf d')
  refine ⟨e, Parse.events (nextG ff (f d') d').1.p, h2, ?_⟩
  rw [g3 1, okTrace_eq, nextsG_succ, h1]
  simp [nextsG]

/-! ## … with the fuel of the model -/

/-- ONE CALL, model fuel -/
theorem next_item (n : Nat) (x : Item) (hx : x.ok = true) (hc : n + vcost x + 2 ≤ 2000000) (tail : Bytes)
    (E : List Ev) (vt : Nat) (d : Dec) (hd : Ready d E vt) (hs : stream d = noops n ++ (x.wire ++ tail))
    (fuel : Nat) (hf : need d ≤ fuel) :
    ∃ vt', (next fuel d).2 = .ok ∧ Ready (next fuel d).1 (x.events.reverse ++ E) vt' ∧
      stream (next fuel d).1 = tail := by
  rw [next_eq_nextG]
  exact nextG_item fuelFor 1999999 (lt_fuelFor _ (by omega)) n x hx (by omega) tail E vt d hd hs fuel hf

theorem next_truncated (n : Nat) (x : Item) (hx : x.ok = true) (hc : n + vcost x + 2 ≤ 2000000) (k : Nat)
    (hk0 : 0 < k) (hk : k < x.wire.length) (E : List Ev) (vt : Nat) (d : Dec) (hd : Ready d E vt)
    (hs : stream d = noops n ++ x.wire.take k) (fuel : Nat) (hf : need d ≤ fuel) :
    ∃ e, (next fuel d).2 = .err e ∧ (e = .incomplete ∨ e = .missingArrEnd ∨ e = .missingObjEnd) := by
  rw [next_eq_nextG]
  exact nextG_truncated fuelFor 1999999 (lt_fuelFor _ (by omega)) n x hx (by omega) k hk0 hk E vt d hd hs fuel hf

theorem stream_from (f : Dec → Nat) (hf : Enough f) (xs : List (Nat × Item)) (trail : Nat) (hok : okElems xs = true)
    (hc : ∀ nx ∈ xs, nx.1 + vcost nx.2 + 2 ≤ 2000000) (ht : trail + 2 ≤ 2000000)
    (d : Dec) (vt : Nat) (hd : Ready d [] vt) (hs : stream d = wireStream xs trail) :
    nextsF f (xs.length + 1) d =
      (List.range xs.length).map (fun i => (NextRes.ok, evElems (xs.take (i + 1)))) ++
        [(NextRes.eof, evElems xs)] := by
  rw [nextsF_eq_nextsG]
  exact streamG_from fuelFor 1999999 (lt_fuelFor _ (by omega)) f hf xs trail hok
    (fun nx h => by have := hc nx h; omega) (by omega) d vt hd hs

theorem truncated_from (f : Dec → Nat) (hf : Enough f) (xs : List (Nat × Item)) (hok : okElems xs = true)
    (hc : ∀ nx ∈ xs, nx.1 + vcost nx.2 + 2 ≤ 2000000)
    (n : Nat) (x : Item) (hx : x.ok = true) (hcx : n + vcost x + 2 ≤ 2000000) (k : Nat) (hk0 : 0 < k)
    (hk : k < x.wire.length)
    (d : Dec) (vt : Nat) (hd : Ready d [] vt) (hs : stream d = wireElems xs ++ (noops n ++ x.wire.take k)) :
    ∃ e evs, (e = .incomplete ∨ e = .missingArrEnd ∨ e = .missingObjEnd) ∧
      nextsF f (xs.length + 1) d =
        (List.range xs.length).map (fun i => (NextRes.ok, evElems (xs.take (i + 1)))) ++ [(NextRes.err e, evs)] := by
  rw [nextsF_eq_nextsG]
  exact truncatedG_from fuelFor 1999999 (lt_fuelFor _ (by omega)) f hf xs hok
    (fun nx h => by have := hc nx h; omega) n x hx (by omega) k hk0 hk d vt hd hs

end SF.Ubjson.DecR
