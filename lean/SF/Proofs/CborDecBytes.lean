/-
  The CBOR byte-slice decoder: one value per Next, then EOF (helpers and the first C18 theorems;
  restated in SF/Props/C18.lean).
-/
import SF.Cbor.Dec
import SF.Props.C05
namespace SF.Cbor.DecBytes
open SF SF.Cbor SF.Cbor.Cst SF.Cbor.Parse SF.Cbor.Dec

/-- one Next on a buffer that starts with a complete supported item: it succeeds, delivers
exactly that item's events and none of what follows, and keeps the remainder -/
theorem next_one (t : Item) (ht : t.ok = true) (rest : Bytes) (evs : List Ev) (d : Dec)
    (hp : d.p = idle evs) (hb : d.buffer = t.wire ++ rest) (fuel : Nat) :
    next (fuel + 1) d = ({ d with p := idle (t.events.reverse ++ evs), buffer := rest }, .ok) := by
  have hne : ¬ ((t.wire ++ rest).length == 0) = true := by
    have := wire_ne_nil t ht
    cases h : t.wire ++ rest <;> simp_all
  simp only [next, hb, hne, if_false, hp]
  rw [feedUntil_item t ht evs rest _ (fuelFor_ge t rest)]
  simp

/-- repeated calls to Next; per call: the result and the events delivered during the call -/
def runNexts : Nat → Dec → List (NextRes × List Ev)
  | 0, _ => []
  | n + 1, d =>
    let d0 := { d with p := { d.p with evs := [] } }
    let r := next (nextFuel d0) d0
    (r.2, Parse.events r.1.p) :: (if r.2 == .ok then runNexts n r.1 else [])

/-- C18 for the CBOR byte-slice decoder: for EVERY stream of k supported items, k calls to
Next succeed, the i-th delivering exactly the events of the i-th item and nothing of the
following one, and the (k+1)-th call reports io.EOF -/
theorem bytes_decoder_stream (ts : List Item) (h : okList ts = true) :
    ∀ (d : Dec) (evs : List Ev), d.hasReader = false → d.p = idle evs → d.buffer = wireList ts →
      runNexts (ts.length + 1) d = ts.map (fun t => (NextRes.ok, t.events)) ++ [(NextRes.eof, [])] := by
  have hfuel : ∀ d' : Dec, ∃ g, nextFuel d' = g + 1 := by
    intro d'; exact ⟨nextFuel d' - 1, by simp [nextFuel]⟩
  induction ts with
  | nil =>
    intro d evs hr hp hb
    simp only [wireList] at hb
    rw [show ([] : List Item).length + 1 = 0 + 1 from rfl, runNexts]
    obtain ⟨g, hg⟩ := hfuel { d with p := { d.p with evs := [] } }
    simp only [hg, List.map_nil, List.nil_append]
    simp +decide [next, hb, hr, eof, hp, finalize, idle, Parse.events, runNexts]
  | cons t ts ih =>
    intro d evs hr hp hb
    simp only [okList, Bool.and_eq_true] at h
    simp only [wireList] at hb
    rw [show (t :: ts).length + 1 = (ts.length + 1) + 1 from rfl, runNexts]
    obtain ⟨g, hg⟩ := hfuel { d with p := { d.p with evs := [] } }
    simp only [hg]
    rw [next_one t h.1 (wireList ts) [] _ (by simp [hp, idle]) (by simpa using hb)]
    simp only [List.append_nil, Parse.events, idle, List.reverse_reverse, beq_self_eq_true, if_true,
      List.map_cons, List.cons_append]
    rw [ih h.2 _ t.events.reverse (by simpa using hr) rfl rfl]

/-- a stream that ends inside a value: the decoder's end-of-input check reports an error
distinct from a clean end whenever the parser is not idle -/
theorem eof_not_clean (d : Dec) (h : finalize d.p ≠ none) : eof d = .unexpectedEOF := by
  unfold eof
  cases hf : finalize d.p with
  | none => exact absurd hf h
  | some e => rfl

/-- non-vacuity: two items then end of stream; and a truncated item -/
example :
    let d0 : Dec := { hasReader := false, buffer := [0x82, 0x01, 0x38, 0xc7, 0x61, 0x61] }
    let r1 := next (nextFuel d0) d0
    let r2 := next (nextFuel r1.1) r1.1
    let r3 := next (nextFuel r2.1) r2.1
    r1.2 = .ok ∧ r2.2 = .ok ∧ r3.2 = .eof ∧
      Parse.events r1.1.p = [.arrStart 2 BT.any, .num .u8 1, .num .i16 (-200), .arrEnd] := by
  decide +kernel

example :
    let d0 : Dec := { hasReader := false, buffer := [0x82, 0x01] }
    let r1 := next (nextFuel d0) d0
    r1.2 = .unexpectedEOF := by
  decide +kernel

end SF.Cbor.DecBytes
