/-
  C13 (generic clause) and C14 (no panic) for `interface{}` targets of the Unfolder mirror
  (SF/Gotype/Unfold.lean) — PROPERTY THEOREMS.  Helper files (all new, under SF/Proofs):
    UnfGenDefs     well-formed value trees `UTree.wf`, the delivered value `UTree.gen`, the
                   specification tree `UTree.toS`, the contexts inside a sub-container
    UnfGenArr/Map  the step lemmas of the generic sub-array / sub-object
    UnfGenTree     the mutual induction (`tree_generic`)
    UnfGenNorm     delivered value ≙ `Spec.generic` (`gen_norm`, `gen_exact`)
    UnfGenSpec     `Spec.sbuild` of the events is `t.toS`; `Spec.expected` for interface{}
    UnfGenDeliver  delivery positions (target, container element, struct field), prefixes
    UnfGenTarget   `map[string]interface{}` / `[]interface{}` targets
    UnfGenPanic    which streams panic
    UnfGenAny      arbitrary event sequences: the reachable contexts `St`, `step_any`, `run_any`

  Fuel: `run (f + 1)` = every fuel ≥ 1 (fuel only bounds the forwarding through reflection
  states, which do not occur here; with fuel 0 every scalar / start event is `outOfFuel`).
  Key cache: `Symbols.Inv` is the representation invariant of C20 (every cache made by
  `init` / `enableKeyCache` has it, `Symbols.inv_init`); `KCOk kc kc'` = `kc'` has it too, same
  `enabled`, same `max`.
-/
import SF.Proofs.UnfGenTarget
import SF.Proofs.UnfGenPanic
import SF.Proofs.UnfGenSpec
import SF.Proofs.UnfGenAny
namespace SF.Unf
open SF SF.Unf.Spec

/-! ## (A) C13, generic clause -/

/-- GENERALISED STATEMENT (the induction).  In ANY context whose current unfolder is one of the
three states a generic value can be delivered to — `unfolderIfc` (`.prim .ifc`), `unfolderArrIfc`
(`.arr .ifc`), `unfolderMapIfc` (`.mapVal .ifc`) — with at least one state below it, and whatever
the six stacks, the scratch buffers, the target, the `reflect.New` cells hold, the events of a
well-formed value `t` (any nesting; strings and keys by value or by reference; typed
sub-containers) do exactly what delivering the finished value `t.gen` to that state does
(`pukDeliver`: assign / append / put), followed for containers by the `reportChildDone` loop
of `unfoldCtx.OnArrayFinished` / `OnObjectFinished` (`after`), and NOTHING else: the context the
delivery starts from is the initial one — all six stacks, scratch buffers (every slot pushed has
been popped again), cells, target — except for the key cache, which has seen the by-reference
keys. -/
theorem generic_value_delivered (f : Nat) (t : UTree) (c : Ctx) (hwf : t.wf = true)
    (hu : c.unfolder.current = .prim .ifc ∨ c.unfolder.current = .arr .ifc ∨ c.unfolder.current = .mapVal .ifc)
    (hS : c.unfolder.stack ≠ []) (hkc : Symbols.Inv c.keyCache) :
    ∃ kc', KCOk c.keyCache kc' ∧
      run (f + 1) t.events c =
        (pukDeliver c.unfolder.current t.gen >>= fun _ => after t c.unfolder.stack.length) (setKC c kc') :=
  tree_generic f t c hwf hu hS hkc

/-- … for an element of a `[]interface{}` / a value of a `map[string]interface{}` (generic
sub-containers, or typed targets of these types: the pointer may point anywhere) the run IS the
delivery: `append` / `put` of the generic value, nothing before, nothing after. -/
theorem generic_value_into_container (f : Nat) (t : UTree) (c : Ctx) (hwf : t.wf = true)
    (hu : c.unfolder.current = .arr .ifc ∨ c.unfolder.current = .mapVal .ifc)
    (hS : c.unfolder.stack ≠ []) (hkc : Symbols.Inv c.keyCache) :
    ∃ kc', KCOk c.keyCache kc' ∧
      run (f + 1) t.events c = pukDeliver c.unfolder.current t.gen (setKC c kc') :=
  tree_into_container f t c hwf hu hS hkc

/-- the delivered value is the value the specification (DESIGN A.8, `Spec.generic`) assigns to
the stream, up to nil ≙ empty for slices and maps — the comparison of the C13 oracle -/
theorem delivered_value_is_generic (t : UTree) (hwf : t.wf = true) :
    norm t.gen = norm (generic t.toS) ∧ sameVal t.gen (generic t.toS) = true :=
  ⟨gen_norm t hwf, gen_sameVal t hwf⟩

/-- … and LITERALLY that value when the stream has no empty array / object (`UTree.noEmpty`).
The side condition is forced: an empty sub-array is left as the nil slice by the Go code
(`<[]any>nil`), `Spec.generic` writes the empty slice — `gen_differs_on_empty` below. -/
theorem delivered_value_exact (t : UTree) (hwf : t.wf = true) (hne : t.noEmpty = true) :
    t.gen = generic t.toS :=
  gen_exact t hwf hne

/-- the counterexample: `[]` -/
theorem gen_differs_on_empty :
    (UTree.arr 0 0 []).wf = true ∧ (UTree.arr 0 0 []).gen = .ifc (.sliceNil .ifc) ∧
    generic (UTree.arr 0 0 []).toS = .ifc (.slice .ifc [] []) := by
  refine ⟨by decide +kernel, rfl, ?_⟩
  simp [UTree.toS, toSList, generic, btElem, BT.byte, BT.uint8, BT.string, BT.bool, BT.int, BT.int8, BT.int16,
    BT.int32, BT.int64, BT.uint, BT.uint16, BT.uint32, BT.uint64, BT.float32, BT.float64, genericList]

/-- the tree of the specification: `t.toS` is what the specification's own reader (`Spec.sbuild`,
run by the C13 oracle on the event stream) builds from the events of `t`, and for an
`interface{}` target — whatever it held — the oracle's claim (`Spec.expected`) is
`generic t.toS` -/
theorem spec_tree_of_events (t : UTree) (tbl : TypeTable) (old : GoVal) :
    sbuild (t.events.map UEv.toEv) = some t.toS ∧
    expected tbl .ifc old t.toS = some (generic t.toS) :=
  ⟨sbuild_events t, expected_ifc tbl old t.toS⟩

/-- … for an `interface{}` FIELD of a struct that is being unfolded (`unfolderIfc` pushed by
`unfolderStruct.OnKey` with the pointer to the field): the run IS `unfolderIfc.assign` of the
generic value; the struct state takes the child-done report without doing anything. -/
theorem generic_value_into_field (f : Nat) (t : UTree) (c : Ctx) (fields : Fields) (rest : List U)
    (hwf : t.wf = true) (hu : c.unfolder = ⟨.prim .ifc, .struct fields :: rest⟩)
    (hkc : Symbols.Inv c.keyCache) :
    ∃ kc', KCOk c.keyCache kc' ∧
      run (f + 1) t.events c = primAssign t.gen (setKC c kc') :=
  tree_into_field f t c fields rest hwf hu hkc

/-- C13 GENERIC CLAUSE.  `SetTarget(&v)` with `var v interface{}` (holding anything) on an idle
Unfolder `c` — a new one, one that was `Reset`, with or without key cache — followed by the
events of a well-formed value `t`: the run succeeds and ends in EXACTLY the context `c` with the
target holding `t.gen`: all six stacks as they were before `SetTarget` (idle), scratch buffers and
cells unchanged. -/
theorem unfold_into_interface (f : Nat) (tbl : TypeTable) (v0 : GoVal) (t : UTree) (c : Ctx)
    (hwf : t.wf = true) (hidle : c.unfolder.stack = []) (hkc : Symbols.Inv c.keyCache) :
    ∃ c0 kc', setTarget tbl .ifc v0 c = .ok c0 ∧ KCOk c.keyCache kc' ∧
      run (f + 1) t.events c0 = .ok () { c with target := t.gen, env := tbl, keyCache := kc' } := by
  obtain ⟨kc', hok, hrun⟩ := tree_generic f t (ifcCtx tbl v0 c) hwf (Or.inl rfl)
    (by simp [ifcCtx, Stk.push]) hkc
  refine ⟨ifcCtx tbl v0 c, kc', setTarget_ifc tbl v0 c, hok, ?_⟩
  rw [hrun, bind_def]
  have : pukDeliver (ifcCtx tbl v0 c).unfolder.current t.gen (setKC (ifcCtx tbl v0 c) kc') =
      .ok () { c with target := t.gen, env := tbl, keyCache := kc' } := primAssign_ifcCtx tbl v0 t.gen c kc'
  rw [this]
  exact after_idle t _ _ hidle

/-- the statement for a NEW Unfolder: from `c₀ = SetTarget(&v)` (`v` a nil interface) the run
ends with the target holding the stream's generic value, every stack idle, and nothing else
changed with respect to the new Unfolder. -/
theorem unfold_into_interface_fresh (f : Nat) (tbl : TypeTable) (t : UTree) (hwf : t.wf = true) :
    ∃ c₀ c₁, setTarget tbl .ifc .ifcNil newUnfolder = .ok c₀ ∧
      run (f + 1) t.events c₀ = .ok () c₁ ∧
      c₁ = { newUnfolder with target := t.gen, env := tbl } ∧
      c₁.target = t.gen ∧ norm c₁.target = norm (generic t.toS) ∧ sameVal c₁.target (generic t.toS) = true ∧
      (t.noEmpty = true → c₁.target = generic t.toS) ∧
      c₁.depths = [0, 0, 0, 0, 0, 0] := by
  have hinv : Symbols.Inv newUnfolder.keyCache := Symbols.inv_init 0
  obtain ⟨c0, kc', h0, hok, hrun⟩ := unfold_into_interface f tbl .ifcNil t newUnfolder hwf rfl hinv
  have hkc : kc' = newUnfolder.keyCache := KCOk_disabled hinv hok rfl
  subst hkc
  exact ⟨c0, _, h0, hrun, rfl, rfl, gen_norm t hwf, gen_sameVal t hwf, gen_exact t hwf, rfl⟩

/-! ### non-vacuity -/

/-- `{"a": [1, "s"(by reference), {}], "b"(key by reference): null, "t": <typed int8 array>
[3,-3], "m": <typed string map>{"k": "v"}}` -/
def demoTree : UTree :=
  .obj (-1) 0 [(false, [0x61], .arr 3 0 [.scalar (.num .i64 1), .strRef [0x73], .obj 0 0 []]),
               (true, [0x62], .scalar .nil),
               (false, [0x74], .arr 2 6 [.scalar (.num .i8 3), .scalar (.num .i8 (-3))]),
               (true, [0x6d], .obj (-1) 2 [(true, [0x6b], .strRef [0x76])])]

example : demoTree.wf = true := by decide +kernel

/-- the mirror, evaluated: same result as the theorem predicts -/
example :
    (match setTarget (fun _ => none) .ifc .ifcNil newUnfolder with
     | .ok c₀ =>
       (match run 1 demoTree.events c₀ with
        | .ok _ c₁ =>
          c₁.depths == [0, 0, 0, 0, 0, 0] && c₁.valueBuffer.arrays.size == 0 &&
          (match c₁.target with
           | .ifc (.map .ifc
               [([0x61], .ifc (.slice .ifc [.ifc (.int .i64 1), .ifc (.str [0x73]), .ifc (.mapNil .ifc)] [])),
                ([0x62], .ifcNil),
                ([0x74], .ifc (.slice (.int .i8) [.int .i8 3, .int .i8 (Int.negSucc 2)] [])),
                ([0x6d], .ifc (.map .string [([0x6b], .str [0x76])]))]) => true
           | _ => false)
        | _ => false)
     | .error _ => false) = true := by decide +kernel

/-- … with the key cache enabled (capacity 1, two different by-reference keys: one eviction) -/
example :
    (match setTarget (fun _ => none) .ifc .ifcNil (enableKeyCache newUnfolder 1) with
     | .ok c₀ =>
       (match run 1 demoTree.events c₀ with
        | .ok _ c₁ => c₁.depths == [0, 0, 0, 0, 0, 0] && c₁.keyCache.lst == [[0x6b]]
        | _ => false)
     | .error _ => false) = true := by decide +kernel

/-- the hypotheses of the generalised statements hold in the context `SetTarget` makes, and after
the start of a sub-array in it (`unfolderArrIfc` on top of `unfolderIfc`) -/
example : Symbols.Inv newUnfolder.keyCache ∧ Symbols.Inv (enableKeyCache newUnfolder 1).keyCache :=
  ⟨Symbols.inv_init 0, Symbols.inv_init 1⟩

example :
    (match run 1 [UEv.arrStart 2 0] (ifcCtx (fun _ => none) .ifcNil newUnfolder) with
     | .ok _ c => (match c.unfolder.current with | .arr .ifc => true | _ => false) && c.unfolder.stack.length == 2
     | _ => false) = true := by decide +kernel

/-! ### every hypothesis is needed -/

/-- numbers must be inside their kind's range (an `OnInt8` event cannot carry 300): the Go
conversion wraps, the specification keeps the value -/
example : wrapTo .i8 300 = 44 ∧ (UTree.scalar (.num .i8 300)).wf = false := by decide +kernel

/-- an announced array length ABOVE the real count leaves zero elements behind:
`[true]` announced with length 3 unfolds to `[true, nil, nil]` -/
example :
    (match setTarget (fun _ => none) .ifc .ifcNil newUnfolder with
     | .ok c₀ =>
       (match run 1 (UTree.arr 3 0 [.scalar (.bool true)]).events c₀ with
        | .ok _ c₁ => (match c₁.target with
           | .ifc (.slice .ifc [.ifc (.bool true), .ifcNil, .ifcNil] []) => true
           | _ => false)
        | _ => false)
     | .error _ => false) = true := by decide +kernel

/-- with NOTHING below the generic state (`c.unfolder.stack = []`, impossible after `SetTarget`:
`unfolderNoTarget` is always at the bottom) `reportChildDone` does not report: a finished
container is never delivered and its pointer / base type stay on their stacks -/
example :
    (match run 1 (UTree.arr 0 0 []).events
        { unfolder := ⟨.prim .ifc, []⟩, ptr := ⟨some { root := .target }, []⟩, target := .bool true } with
     | .ok _ c₁ => c₁.depths == [0, 1, 0, 0, 0, 1] && (match c₁.target with | .bool true => true | _ => false)
     | _ => false) = true := by decide +kernel

/-- a key cache violating its invariant (enabled with capacity 0: finding F28, repaired in `init`)
panics on the first by-reference key -/
example : Symbols.get { enabled := true, max := 0 } [1] = .panic := by decide +kernel

/-! ## (B) C14: no panic for `interface{}` targets -/

/-- NO PREFIX of a well-formed stream makes the Unfolder fail (no panic, no error, no model gap,
no fuel exhaustion) on an `interface{}` target: every prefix of the events ends in `.ok` -/
theorem no_panic_into_interface (f : Nat) (tbl : TypeTable) (v0 : GoVal) (t : UTree) (c : Ctx)
    (hwf : t.wf = true) (hidle : c.unfolder.stack = []) (hkc : Symbols.Inv c.keyCache)
    (es rest : List UEv) (hpre : t.events = es ++ rest) :
    ∃ c0 c', setTarget tbl .ifc v0 c = .ok c0 ∧ run (f + 1) es c0 = .ok () c' := by
  obtain ⟨c0, kc', h0, _, hrun⟩ := unfold_into_interface f tbl v0 t c hwf hidle hkc
  rw [hpre] at hrun
  obtain ⟨c1, h1, _⟩ := run_prefix_ok _ _ _ _ _ hrun
  exact ⟨c0, c1, h0, h1⟩

/-- … and in ANY context with a generic position on top (any pointers, any memory, even stale
ones): nothing fails before the LAST event of the value — the one that delivers it, whose
outcome is that of `pukDeliver` (`generic_value_delivered`) -/
theorem no_failure_before_delivery (f : Nat) (t : UTree) (c : Ctx) (hwf : t.wf = true)
    (hu : c.unfolder.current = .prim .ifc ∨ c.unfolder.current = .arr .ifc ∨ c.unfolder.current = .mapVal .ifc)
    (hkc : Symbols.Inv c.keyCache)
    (es rest : List UEv) (hpre : t.events = es ++ rest) (hne : rest ≠ []) :
    ∃ c', run (f + 1) es c = .ok () c' := by
  obtain ⟨c1, h1⟩ := tree_generic_init f t c hwf hu hkc
  obtain ⟨r, hr⟩ := proper_prefix_dropLast t.events es rest hpre hne
  rw [hr] at h1
  obtain ⟨c2, h2, _⟩ := run_prefix_ok _ _ _ _ _ h1
  exact ⟨c2, h2⟩

/-- THE INPUTS THAT PANIC.  In a generic position the start of an array / object panics
(`makeArrayPtr` / `makeMapPtr`: "invalid type code") if and only if the announced element type
code (a uint8) is none of the 17 `structform.BaseType`s, and then nothing has been changed;
every valid code is accepted. -/
theorem invalid_base_type_panics (f : Nat) (l : Int) (bt : Nat) (c : Ctx)
    (hu : c.unfolder.current = .prim .ifc ∨ c.unfolder.current = .arr .ifc ∨ c.unfolder.current = .mapVal .ifc) :
    (stepEv (f + 1) (.arrStart l bt) c = .panic c ↔ 17 ≤ bt % 256) ∧
    (stepEv (f + 1) (.objStart l bt) c = .panic c ↔ 17 ≤ bt % 256) ∧
    (bt % 256 ≤ 16 →
      stepEv (f + 1) (.arrStart l bt) c = .ok () (arrCtx c (kindOf (bt % 256)) (bt % 256) l []) ∧
      stepEv (f + 1) (.objStart l bt) c = .ok () (mapCtx c (kindOf (bt % 256)) (bt % 256) [])) := by
  have hok : bt % 256 ≤ 16 →
      stepEv (f + 1) (.arrStart l bt) c = .ok () (arrCtx c (kindOf (bt % 256)) (bt % 256) l []) ∧
      stepEv (f + 1) (.objStart l bt) c = .ok () (mapCtx c (kindOf (bt % 256)) (bt % 256) []) := fun h =>
    ⟨arrStart_sink f l _ _ c hu (btKind_of_le _ h), objStart_sink f l _ _ c hu (btKind_of_le _ h)⟩
  refine ⟨⟨fun h => ?_, fun h => arrStart_invalid f l _ c hu ((btKind_none_iff _).mpr h)⟩,
    ⟨fun h => ?_, fun h => objStart_invalid f l _ c hu ((btKind_none_iff _).mpr h)⟩, hok⟩
  · by_cases hb : bt % 256 ≤ 16
    · rw [(hok hb).1] at h; cases h
    · omega
  · by_cases hb : bt % 256 ≤ 16
    · rw [(hok hb).2] at h; cases h
    · omega

/-- non-vacuity: `[true, null]` announced with the invalid element type code 17, into a new
Unfolder's `interface{}` target: panic at the first event -/
example :
    (match setTarget (fun _ => none) .ifc .ifcNil newUnfolder with
     | .ok c₀ =>
       (match run 1 (UTree.arr 2 17 [.scalar (.bool true), .scalar .nil]).events c₀ with
        | .panic _ => true
        | _ => false)
     | .error _ => false) = true := by decide +kernel

/-- THE STREAMS THAT PANIC.  For a stream that is well-formed as far as it is looked at
(`UTree.wfX`: containers may announce any uint8 code; behind an invalid one anything may follow)
unfolding into an `interface{}` target panics IF AND ONLY IF an invalid element type code
(17 … 255) is reached (`UTree.bad`) — and otherwise it succeeds (`unfold_into_interface`). -/
theorem interface_panics_iff (f : Nat) (tbl : TypeTable) (v0 : GoVal) (t : UTree) (c : Ctx)
    (hX : t.wfX = true) (hidle : c.unfolder.stack = []) (hkc : Symbols.Inv c.keyCache) :
    ∃ c0, setTarget tbl .ifc v0 c = .ok c0 ∧
      ((∃ c', run (f + 1) t.events c0 = .panic c') ↔ t.bad = true) := by
  refine ⟨ifcCtx tbl v0 c, setTarget_ifc tbl v0 c, ?_, ?_⟩
  · intro ⟨c', hp⟩
    cases hb : t.bad with
    | true => rfl
    | false =>
      obtain ⟨c0, kc', h0, _, hrun⟩ := unfold_into_interface f tbl v0 t c (wf_of_wfX t hX hb) hidle hkc
      rw [setTarget_ifc] at h0
      injection h0 with h0; subst h0
      rw [hrun] at hp; cases hp
  · intro hb
    exact tree_panics f t (ifcCtx tbl v0 c) hX hb (Or.inl rfl) hkc

/-- … the same in any generic position (element of a generic array, member of a generic map,
any depth): reaching an invalid code panics -/
theorem invalid_code_reached_panics (f : Nat) (t : UTree) (c : Ctx) (hX : t.wfX = true) (hb : t.bad = true)
    (hu : c.unfolder.current = .prim .ifc ∨ c.unfolder.current = .arr .ifc ∨ c.unfolder.current = .mapVal .ifc)
    (hkc : Symbols.Inv c.keyCache) :
    ∃ c', run (f + 1) t.events c = .panic c' :=
  tree_panics f t c hX hb hu hkc

/-- non-vacuity: `{"a": [1], "b": <array announcing code 200>[…]}` is looked-at-well-formed and bad -/
example :
    (UTree.obj (-1) 0 [(false, [0x61], .arr 1 0 [.scalar (.num .i64 1)]),
                       (true, [0x62], .arr 5 200 [.scalar (.num .i8 1000)])]).wfX = true ∧
    (UTree.obj (-1) 0 [(false, [0x61], .arr 1 0 [.scalar (.num .i64 1)]),
                       (true, [0x62], .arr 5 200 [.scalar (.num .i8 1000)])]).bad = true := by decide +kernel

/-- C14 FOR EVERY EVENT SEQUENCE.  `SetTarget(&v)`, `var v interface{}`, on an idle Unfolder
(a new one, or after `Reset`), followed by ANY sequence of events whatsoever — mismatching,
unbalanced, truncated, keys outside objects, wrong announced lengths, out-of-range numbers,
scalars that do not fit an announced element type, nested containers inside typed ones, events
after the document is complete, … : the outcome is `.ok`, or an ERROR, or — only if the sequence
contains a container start announcing an element type code 17 … 255 — the documented panic of
`makeArrayPtr` / `makeMapPtr`.  Never a model gap, never fuel exhaustion, and no other panic:
no pop of an empty stack, no nil or stale pointer, no out-of-range scratch slot. -/
theorem any_events_into_interface (f : Nat) (tbl : TypeTable) (v0 : GoVal) (c : Ctx) (es : List UEv)
    (hidle : c.unfolder = Stk.init .noTarget) (hkc : Symbols.Inv c.keyCache) :
    ∃ c0, setTarget tbl .ifc v0 c = .ok c0 ∧
      ((∃ c', run (f + 1) es c0 = .ok () c') ∨
       (∃ e c', run (f + 1) es c0 = .err e c') ∨
       (∃ c' e, run (f + 1) es c0 = .panic c' ∧ e ∈ es ∧ e.badStart)) := by
  refine ⟨ifcCtx tbl v0 c, setTarget_ifc tbl v0 c, ?_⟩
  have hst : St tbl c (ifcCtx tbl v0 c) := by
    have := St.start (tbl := tbl) (c0 := c) v0 c.keyCache hkc
    rwa [show setKC (ifcCtx tbl v0 c) c.keyCache = ifcCtx tbl v0 c from setKC_self (ifcCtx tbl v0 c)] at this
  rcases run_any f es hst hidle with ⟨c', h, _⟩ | h | ⟨c', e, h, hm, hb, _⟩
  · exact Or.inl ⟨c', h⟩
  · exact Or.inr (Or.inl h)
  · exact Or.inr (Or.inr ⟨c', e, h, hm, hb⟩)

/-- … so with valid element type codes (what a `structform.BaseType` can hold coming from this
library's own parsers and Fold) NO event sequence makes the Unfolder panic: ok or error -/
theorem no_panic_any_events_into_interface (f : Nat) (tbl : TypeTable) (v0 : GoVal) (c : Ctx) (es : List UEv)
    (hidle : c.unfolder = Stk.init .noTarget) (hkc : Symbols.Inv c.keyCache)
    (hcodes : ∀ e ∈ es, ¬ e.badStart) :
    ∃ c0, setTarget tbl .ifc v0 c = .ok c0 ∧
      ((∃ c', run (f + 1) es c0 = .ok () c') ∨ (∃ e c', run (f + 1) es c0 = .err e c')) := by
  obtain ⟨c0, h0, h⟩ := any_events_into_interface f tbl v0 c es hidle hkc
  refine ⟨c0, h0, ?_⟩
  rcases h with h | h | ⟨c', e, _, hm, hb⟩
  · exact Or.inl h
  · exact Or.inr h
  · exact absurd hb (hcodes e hm)

/-- non-vacuity: a new Unfolder and one that was `Reset` are idle; a mismatching stream
(`[1, "k":` — a key inside an array) is refused with an error -/
example (c : Ctx) : newUnfolder.unfolder = Stk.init .noTarget ∧ (reset c).unfolder = Stk.init .noTarget :=
  ⟨rfl, rfl⟩

example :
    (match run 1 [UEv.arrStart 2 0, .scalar (.num .i64 1), .key [0x6b]]
        (ifcCtx (fun _ => none) .ifcNil newUnfolder) with
     | .err .unsupported _ => true
     | _ => false) = true := by decide +kernel

/-! ## (C) `map[string]interface{}` and `[]interface{}` targets -/

/-- `SetTarget(&m)` with `var m map[string]interface{}` — nil (`olds = []`) or holding the
members `olds` — on an idle Unfolder, followed by a well-formed object: the run succeeds and
ends in exactly the context `c` with the target holding `mapFin …`: untouched (nil stays nil)
for an empty object, else the old members with the stream's members put in stream order, each
as its generic value; old members the stream does not mention are kept. -/
theorem unfold_into_map (f : Nat) (tbl : TypeTable) (v0 : GoVal) (et : GoType) (olds : List (Bytes × GoVal))
    (l : Int) (bt : Nat) (ms : List (Bool × Bytes × UTree)) (c : Ctx)
    (hv0 : v0 = .mapNil et ∧ olds = [] ∨ v0 = .map et olds)
    (hwf : (UTree.obj l bt ms).wf = true) (hidle : c.unfolder.stack = []) (hkc : Symbols.Inv c.keyCache) :
    ∃ c0 kc', setTarget tbl (.map .ifc) v0 c = .ok c0 ∧ KCOk c.keyCache kc' ∧
      run (f + 1) (UTree.obj l bt ms).events c0 =
        .ok () { c with target := mapFin v0 et olds ms, env := tbl, keyCache := kc' } ∧
      norm (mapFin v0 et olds ms) = norm (.map et (genericMems (toSMems ms) olds)) := by
  have hm : mapParts v0 = some (et, olds) := by
    rcases hv0 with ⟨h1, h2⟩ | h1
    · subst h1; subst h2; rfl
    · subst h1; rfl
  simp only [UTree.wf, Bool.and_eq_true, decide_eq_true_eq] at hwf
  have hms := wfMems_any bt ms hwf.2
  obtain ⟨kc', hok, hrun⟩ := tmap_members f tbl ms v0 et olds c hm hms hkc
  refine ⟨mapTargetCtx tbl v0 c, kc', setTarget_map tbl v0 c, hok, ?_, mapFin_norm v0 et olds ms hm hms⟩
  rw [UTree.events, List.cons_append, run_cons_ok _ _ _ _ _ (objStart_mapTarget f l bt tbl v0 c),
    run_ok_then _ _ _ _ _ hrun, run_single, objEnd_tmapCtx f tbl _ (setKC c kc') hidle]
  rfl

/-- `SetTarget(&s)` with `var s []interface{}` — nil, or holding `es` with spare capacity `h`
— on an idle Unfolder, followed by a well-formed array: the run succeeds and ends in exactly the
context `c` with the target holding exactly the stream's elements, each as its generic value
(`sliceTargetFin`: a nil slice stays nil for an empty array; whatever the old slice held beyond
the new length stays hidden in the capacity). -/
theorem unfold_into_slice (f : Nat) (tbl : TypeTable) (v0 : GoVal) (et : GoType)
    (l : Int) (bt : Nat) (xs : List UTree) (c : Ctx)
    (hv0 : v0 = .sliceNil et ∨ ∃ es h, v0 = .slice et es h)
    (hwf : (UTree.arr l bt xs).wf = true) (hidle : c.unfolder.stack = []) (hkc : Symbols.Inv c.keyCache) :
    ∃ c0 kc', setTarget tbl (.slice .ifc) v0 c = .ok c0 ∧ KCOk c.keyCache kc' ∧
      run (f + 1) (UTree.arr l bt xs).events c0 =
        .ok () { c with target := sliceTargetFin v0 (genList .ifc xs), env := tbl, keyCache := kc' } ∧
      norm (sliceTargetFin v0 (genList .ifc xs)) = norm (.slice et (genericList (toSList xs)) []) := by
  have hs : isSliceVal v0 := by
    rcases hv0 with h | ⟨es, h, hv⟩
    · subst h; trivial
    · subst hv; trivial
  simp only [UTree.wf, Bool.and_eq_true, decide_eq_true_eq] at hwf
  obtain ⟨⟨hl, _⟩, hxs⟩ := hwf
  have hxs := wfList_any bt xs hxs
  have hs0 := startSlice_isSlice (zero tbl .ifc) l v0 hs
  obtain ⟨kc', hok, hrun⟩ := tarr_elems f tbl xs (startSlice (zero tbl .ifc) l v0) [] c hs0 hxs hkc
  refine ⟨sliceTargetCtx tbl v0 c, kc', setTarget_slice tbl v0 c, hok, ?_, sliceTargetFin_norm v0 et xs hv0 hxs⟩
  rw [UTree.events, List.cons_append, run_cons_ok _ _ _ _ _ (arrStart_sliceTarget f l bt tbl v0 c hs),
    run_ok_then _ _ _ _ _ hrun, run_single, arrEnd_tarrCtx f tbl _ _ (setKC c kc') hidle, List.nil_append,
    slRun_start _ _ _ _ (by rw [genList_length]; exact hl)]
  rfl

/-- C14 for these targets: no prefix of a well-formed object / array fails -/
theorem no_panic_into_map_or_slice (f : Nat) (tbl : TypeTable) (c : Ctx) (hidle : c.unfolder.stack = [])
    (hkc : Symbols.Inv c.keyCache) (l : Int) (bt : Nat) (es rest : List UEv) :
    (∀ (v0 : GoVal) (et : GoType) (olds : List (Bytes × GoVal)) (ms : List (Bool × Bytes × UTree)),
      (v0 = .mapNil et ∧ olds = [] ∨ v0 = .map et olds) → (UTree.obj l bt ms).wf = true →
      (UTree.obj l bt ms).events = es ++ rest →
      ∃ c0 c', setTarget tbl (.map .ifc) v0 c = .ok c0 ∧ run (f + 1) es c0 = .ok () c') ∧
    (∀ (v0 : GoVal) (et : GoType) (xs : List UTree),
      (v0 = .sliceNil et ∨ ∃ es h, v0 = .slice et es h) → (UTree.arr l bt xs).wf = true →
      (UTree.arr l bt xs).events = es ++ rest →
      ∃ c0 c', setTarget tbl (.slice .ifc) v0 c = .ok c0 ∧ run (f + 1) es c0 = .ok () c') := by
  constructor
  · intro v0 et olds ms hv0 hwf hpre
    obtain ⟨c0, kc', h0, _, hrun, _⟩ := unfold_into_map f tbl v0 et olds l bt ms c hv0 hwf hidle hkc
    rw [hpre] at hrun
    obtain ⟨c1, h1, _⟩ := run_prefix_ok _ _ _ _ _ hrun
    exact ⟨c0, c1, h0, h1⟩
  · intro v0 et xs hv0 hwf hpre
    obtain ⟨c0, kc', h0, _, hrun, _⟩ := unfold_into_slice f tbl v0 et l bt xs c hv0 hwf hidle hkc
    rw [hpre] at hrun
    obtain ⟨c1, h1, _⟩ := run_prefix_ok _ _ _ _ _ hrun
    exact ⟨c0, c1, h0, h1⟩

/-- C14 FOR EVERY EVENT SEQUENCE, `map[string]interface{}` and `[]interface{}` targets holding
any value of their type (nil or not): ok, or an error, or the documented panic for an invalid
element type code — nothing else, whatever the events are. -/
theorem any_events_into_map_or_slice (f : Nat) (tbl : TypeTable) (c : Ctx) (es : List UEv)
    (hidle : c.unfolder = Stk.init .noTarget) (hkc : Symbols.Inv c.keyCache) (t : GoType) (v0 : GoVal)
    (hv0 : (t = .map .ifc ∧ ∃ et ms, mapParts v0 = some (et, ms)) ∨ (t = .slice .ifc ∧ isSliceVal v0)) :
    ∃ c0, setTarget tbl t v0 c = .ok c0 ∧
      ((∃ c', run (f + 1) es c0 = .ok () c') ∨
       (∃ e c', run (f + 1) es c0 = .err e c') ∨
       (∃ c' e, run (f + 1) es c0 = .panic c' ∧ e ∈ es ∧ e.badStart)) := by
  have key : ∀ c0, St tbl c c0 →
      ((∃ c', run (f + 1) es c0 = .ok () c') ∨ (∃ e c', run (f + 1) es c0 = .err e c') ∨
       (∃ c' e, run (f + 1) es c0 = .panic c' ∧ e ∈ es ∧ e.badStart)) := by
    intro c0 hst
    rcases run_any f es hst hidle with ⟨c', h, _⟩ | h | ⟨c', e, h, hm, hb, _⟩
    · exact Or.inl ⟨c', h⟩
    · exact Or.inr (Or.inl h)
    · exact Or.inr (Or.inr ⟨c', e, h, hm, hb⟩)
  rcases hv0 with ⟨ht, et, ms, hm⟩ | ⟨ht, hv⟩
  · subst ht
    refine ⟨mapTargetCtx tbl v0 c, setTarget_map tbl v0 c, key _ ?_⟩
    have := St.tmapStart (tbl := tbl) (c0 := c) v0 et ms hm c.keyCache hkc
    rwa [setKC_self] at this
  · subst ht
    refine ⟨sliceTargetCtx tbl v0 c, setTarget_slice tbl v0 c, key _ ?_⟩
    have := St.tarrStart (tbl := tbl) (c0 := c) v0 hv c.keyCache hkc
    rwa [setKC_self] at this

/-- non-vacuity: a scalar where the object must start, and an array closed as an object -/
example :
    (match run 1 [UEv.scalar (.bool true)] (mapTargetCtx (fun _ => none) (.mapNil .ifc) newUnfolder) with
     | .err .expectedObject _ => true
     | _ => false) = true ∧
    (match run 1 [UEv.arrStart 1 0, .objEnd] (sliceTargetCtx (fun _ => none) (.sliceNil .ifc) newUnfolder) with
     | .err .unsupported _ => true
     | _ => false) = true := by decide +kernel

/-- non-vacuity: `{"a": [1, "s"], "b": {"k": null}}` into a map holding `{"a": true, "z": false}`,
and `[1, {"k": null}]` (announced length 2) into a slice holding 3 elements, evaluated -/
example :
    (match setTarget (fun _ => none) (.map .ifc) (.map .ifc [([0x61], .ifc (.bool true)), ([0x7a], .ifc (.bool false))])
        newUnfolder with
     | .ok c₀ =>
       (match run 1 (UTree.obj (-1) 0 [(false, [0x61], .arr 2 0 [.scalar (.num .i64 1), .strRef [0x73]]),
                                      (true, [0x62], .obj 1 0 [(false, [0x6b], .scalar .nil)])]).events c₀ with
        | .ok _ c₁ =>
          c₁.depths == [0, 0, 0, 0, 0, 0] &&
          (match c₁.target with
           | .map .ifc [([0x61], .ifc (.slice .ifc [.ifc (.int .i64 1), .ifc (.str [0x73])] [])),
                        ([0x7a], .ifc (.bool false)),
                        ([0x62], .ifc (.map .ifc [([0x6b], .ifcNil)]))] => true
           | _ => false)
        | _ => false)
     | .error _ => false) = true := by decide +kernel

example :
    (match setTarget (fun _ => none) (.slice .ifc) (.slice .ifc [.ifcNil, .ifcNil, .ifc (.bool true)] []) newUnfolder with
     | .ok c₀ =>
       (match run 1 (UTree.arr 2 0 [.scalar (.num .i64 1), .obj 1 0 [(false, [0x6b], .scalar .nil)]]).events c₀ with
        | .ok _ c₁ =>
          c₁.depths == [0, 0, 0, 0, 0, 0] &&
          (match c₁.target with
           | .slice .ifc [.ifc (.int .i64 1), .ifc (.map .ifc [([0x6b], .ifcNil)])] [.ifc (.bool true)] => true
           | _ => false)
        | _ => false)
     | .error _ => false) = true := by decide +kernel

end SF.Unf
