/-
  Targets with structs, part 9: ANY scalar event in ANY reachable context: refused with an error, or
  accepted — forwarded through as many pointer states as the element type starts with — with the invariant
  kept (port of `UnfTyScalar`, `UnfTyScalar2`).
-/
import SF.Proofs.UnfStrStruct
namespace SF.Unf.Str
open SF SF.Unf

variable {tbl : TypeTable} {R : Reg} {D : Nat} {base : S6} {fs : List Frame} {c : Ctx}

/-- a store through a pointer that is attached to the frames like a child's -/
theorem Inv.store_elem (h : Inv tbl R D base fs c) (q : Path) (t : GoType) (hatt : Attach tbl q t none fs) (x w : GoVal)
    (hx : deref c q = some x) (hw : HasTy tbl t w) : Inv tbl R D base fs (storeAt c q w) := by
  have hrel := attach_rel fs q t none .none h.wfs hatt
  have hmem := memOK_store c q t .none (liveOf fs) w x hrel h.mem hx hw
  obtain ⟨s1, s2, s3⟩ := storeAt_vb_sizes c q w (storeAt c q w) rfl
  exact ⟨(storeAt_s6 c q w).trans h.stacks, h.wfs, hmem, by rw [s1, h.nA], by rw [s2, h.nMA], by rw [s3, h.nMP],
    (storeAt_mem' c q w).1.trans h.env, (storeAt_mem' c q w).2.trans h.reg, h.regOK⟩

/-- `null` for a slice element: the element is zeroed -/
theorem nil_rsl (e : GoType) (ru : RU) (t : GoType) (p : Path) (i : Int) (f : Nat)
    (h : Inv tbl R D base (.rsl e ru t p i :: fs) c) :
    ∃ c', onScalar (f + 1) .nil c = .ok () c' ∧ Inv tbl R D base (.rsl e ru t p (i + 1) :: fs) c' := by
  obtain ⟨c1, hprep, hinv, ⟨x, hx, _⟩, hwif⟩ := prepare_rsl e ru t p i h
  have hcur := h.cur trivial
  have hz : ZeroOK tbl e := h.wfs.1.2.1.slice_inv.2.1
  by_cases hw : c.whatIfFixed = true
  · refine ⟨storeAt c1 (p.push (.index i.toNat)) (zero c1.env e), ?_, ?_⟩
    · simp [onScalar, bind_def, currentU, hcur, Frame.cur, hprep, getCtx, hwif, hw, store_at_ok c1 _ _ _ hx]
    · exact hinv.store_elem _ e ⟨⟨_, rfl⟩, rfl⟩ x _ hx (by rw [hinv.env]; exact hz)
  · refine ⟨c1, ?_, hinv⟩
    simp [onScalar, bind_def, currentU, hcur, Frame.cur, hprep, getCtx, hwif, hw, pure_def]

/-- the struct states refuse every scalar -/
theorem scalar_err_st (f : Nat) (s : Sc) (c : Ctx)
    (hcur : c.unfolder.current = .structStart ∨ ∃ fields, c.unfolder.current = .struct fields) :
    ∃ e, onScalar (f + 1) s c = .err e c := by
  rcases hcur with h | ⟨fields, h⟩ <;> exact ⟨_, by simp [onScalar, bind_def, currentU, h, throwErr] <;> rfl⟩

/-- the frames after the top frame has accepted a scalar (`none`: it never does) -/
def scalarNext : Frame → List Frame → Option (List Frame)
  | .prim _ _ _, fs => some fs
  | .arr k t p i, fs => some (.arr k t p (i + 1) :: fs)
  | .mapV k t p _, fs => some (.mapK k t p :: fs)
  | .rsl e ru t p i, fs => some (.rsl e ru t p (i + 1) :: fs)
  | .rmE e ru t p _, fs => some (.rmK e ru t p :: fs)
  | .rp _ _ _ _, fs => some fs
  | .ign _ _, fs => some fs
  | .ignA t p, fs => some (.ignA t p :: fs)
  | .ignO t p, fs => some (.ignO t p :: fs)
  | _, _ => none

theorem scalarNext_waitF (ru : RU) (t : GoType) (q : Path) (fs fs' : List Frame)
    (h : scalarNext (waitF ru t q) fs = some fs') : fs' = fs := by
  cases ru with
  | lifted pu => cases pu <;> simp [waitF, scalarNext] at h <;> exact h.symm
  | slice e elem => simp [waitF, scalarNext] at h
  | map e elem => simp [waitF, scalarNext] at h
  | ptr e elem => simp [waitF, scalarNext] at h; exact h.symm
  | struct _ => simp [waitF, scalarNext] at h
  | ref _ => simp [waitF, scalarNext] at h; exact h.symm

/-- fuel one event needs at a frame: one per pointer state it is forwarded through -/
def NeedLe (tbl : TypeTable) : Frame → Nat → Prop
  | .rsl e _ _ _ _, n => ∃ d, Pch tbl e d ∧ d + 2 ≤ n
  | .rmE e _ _ _ _, n => ∃ d, Pch tbl e d ∧ d + 2 ≤ n
  | .rp e _ _ _, n => ∃ d, Pch tbl e d ∧ d + 2 ≤ n
  | _, n => 1 ≤ n

theorem NeedLe.pos {F : Frame} {n : Nat} (h : NeedLe tbl F n) : 1 ≤ n := by
  cases F <;> first | exact h | (obtain ⟨d, _, hd⟩ := h; omega)

theorem NeedLe.mono {F : Frame} {n m : Nat} (h : NeedLe tbl F n) (hm : n ≤ m) : NeedLe tbl F m := by
  cases F <;> first | (exact Nat.le_trans h hm) | (obtain ⟨d, h1, hd⟩ := h; exact ⟨d, h1, by omega⟩)

/-- the frame `initState` pushes for an unfolder consistent with a type whose pointer chain has at most
`d` links needs fuel `d + 1` -/
theorem need_waitF (ru : RU) (t : GoType) (q : Path) (d : Nat) (hok : RUOk tbl R D t ru) (hp : Pch tbl t d) :
    NeedLe tbl (waitF ru t q) (d + 1) := by
  cases ru with
  | lifted pu => cases pu <;> exact Nat.le_add_left 1 d
  | ptr e elem =>
    have hun := hok.ptr_inv.1
    cases hp with
    | stop _ _ hn => exact absurd hun (hn e)
    | step _ e' d' hu' h' =>
      rw [hun] at hu'
      injection hu' with hu'
      subst hu'
      exact ⟨d', h', by omega⟩
  | _ => exact Nat.le_add_left 1 d

/-- the outcome of a scalar at the top frame `F` -/
def ScalarOut (tbl : TypeTable) (R : Reg) (D : Nat) (base : S6) (F : Frame) (fs : List Frame) (r : Unf.R Unit) : Prop :=
  (∃ e c', r = .err e c') ∨ (∃ c' fs', scalarNext F fs = some fs' ∧ r = .ok () c' ∧ Inv tbl R D base fs' c')

/-- ANY SCALAR, ANY FRAME: an error, or accepted with the invariant kept -/
theorem scalar_step : ∀ (n : Nat) (F : Frame) (fs : List Frame) (c : Ctx) (s : Sc),
    Inv tbl R D base (F :: fs) c → F.hasU → NeedLe tbl F n → ScalarOut tbl R D base F fs (onScalar n s c) := by
  intro n
  induction n with
  | zero => intro F fs c s _ _ hn; have := hn.pos; omega
  | succ n ih =>
    intro F fs c s h hU hn
    have hcur := h.cur hU
    cases F with
    | sub a bt sl k => exact hU.elim
    | cellx e C => exact hU.elim
    | prim k t p =>
      cases hc : k.conv s with
      | none => exact Or.inl ⟨_, _, scalar_conv_none k n s c (Or.inl hcur) hc⟩
      | some v =>
        obtain ⟨c', h1, h2⟩ := scalar_prim k t p n s v h hc
        exact Or.inr ⟨c', fs, rfl, h1, h2⟩
    | arr k t p i =>
      cases hc : k.conv s with
      | none => exact Or.inl ⟨_, _, scalar_conv_none k n s c (Or.inr (Or.inl hcur)) hc⟩
      | some v =>
        obtain ⟨c', h1, h2⟩ := scalar_arrF k t p i n s v h hc
        exact Or.inr ⟨c', _, rfl, h1, h2⟩
    | mapV k t p key =>
      cases hc : k.conv s with
      | none => exact Or.inl ⟨_, _, scalar_conv_none k n s c (Or.inr (Or.inr hcur)) hc⟩
      | some v =>
        obtain ⟨c', h1, h2⟩ := scalar_mapV k t p key n s v h hc
        exact Or.inr ⟨c', _, rfl, h1, h2⟩
    | arrS k t p => obtain ⟨e, he⟩ := scalar_errU n s c _ hcur trivial; exact Or.inl ⟨e, c, he⟩
    | mapS k t p => obtain ⟨e, he⟩ := scalar_errU n s c _ hcur trivial; exact Or.inl ⟨e, c, he⟩
    | mapK k t p => obtain ⟨e, he⟩ := scalar_errU n s c _ hcur trivial; exact Or.inl ⟨e, c, he⟩
    | rslS e ru t p => obtain ⟨e, he⟩ := scalar_errU n s c _ hcur trivial; exact Or.inl ⟨e, c, he⟩
    | rmS e ru t p => obtain ⟨e, he⟩ := scalar_errU n s c _ hcur trivial; exact Or.inl ⟨e, c, he⟩
    | rmK e ru t p => obtain ⟨e, he⟩ := scalar_errU n s c _ hcur trivial; exact Or.inl ⟨e, c, he⟩
    | stS fields t p => obtain ⟨e, he⟩ := scalar_err_st n s c (Or.inl hcur); exact Or.inl ⟨e, c, he⟩
    | st fields t p => obtain ⟨e, he⟩ := scalar_err_st n s c (Or.inr ⟨_, hcur⟩); exact Or.inl ⟨e, c, he⟩
    | ign t p =>
      obtain ⟨hinv, hu⟩ := pop_ign (F := .ign t p) trivial h
      refine Or.inr ⟨_, fs, rfl, ?_, hinv⟩
      simp [onScalar, bind_def, currentU, hu, ignoreOnValue, popU, pure_def, Frame.cur]
    | ignA t p => exact Or.inr ⟨c, _, rfl, scalar_inIgn n s c (Or.inl hcur), h⟩
    | ignO t p => exact Or.inr ⟨c, _, rfl, scalar_inIgn n s c (Or.inr hcur), h⟩
    | rsl e ru t p i =>
      by_cases hs : s = .nil
      · subst hs
        obtain ⟨c', h1, h2⟩ := nil_rsl e ru t p i n h
        exact Or.inr ⟨c', _, rfl, h1, h2⟩
      · obtain ⟨_, _, _, hru⟩ := h.wfs.1.2.1.slice_inv
        obtain ⟨d, hpd, hd⟩ := hn
        obtain ⟨c1, hprep, hinv1, ⟨x, hx, hxok⟩, _⟩ := prepare_rsl e ru t p i h
        obtain ⟨ru', c2, hinit, _, hok', hinv2, _⟩ := init_at ru e (p.push (.index i.toNat)) hru hinv1
          (fun a => ⟨⟨_, rfl⟩, rfl⟩) x hx hxok
        have hrun : onScalar (n + 1) s c = onScalar n s c2 := by
          rw [onScalar_rsl n s c e ru hcur hs, bind_ok _ _ c c1 _ hprep, bind_ok _ _ c1 c2 _ hinit]
        rw [hrun]
        have hneed : NeedLe tbl (waitF ru' e (p.push (.index i.toNat))) n :=
          (need_waitF ru' e _ d hok' hpd).mono (by omega)
        rcases ih _ _ c2 s hinv2 (hasU_waitF _ _ _) hneed with ⟨er, c', he⟩ | ⟨c', fs', hnext, hok, hinv3⟩
        · exact Or.inl ⟨er, c', he⟩
        · rw [scalarNext_waitF _ _ _ _ _ hnext] at hinv3
          exact Or.inr ⟨c', _, rfl, hok, hinv3⟩
    | rmE e ru t p key =>
      by_cases hs : s = .nil
      · subst hs
        obtain ⟨c', h1, h2⟩ := nil_rmE e ru t p key n h
        exact Or.inr ⟨c', _, rfl, h1, h2⟩
      · obtain ⟨_, hz, _, hru⟩ := h.wfs.1.2.map_inv
        obtain ⟨d, hpd, hd⟩ := hn
        obtain ⟨c1, hprep, hinv1, hx, _⟩ := prepare_cell e _ (show (Frame.rmE e ru t p key).cellTy = some e from rfl) hz h
        obtain ⟨ru', c2, hinit, _, hok', hinv2, _⟩ := init_at ru e ⟨.cell c.cells.size, []⟩ hru hinv1
          (fun a => ⟨rfl, rfl⟩) _ hx hz
        have hrun : onScalar (n + 1) s c = (onScalar n s >>= fun _ => reflMapOnElemProcess e ru) c2 := by
          rw [onScalar_rmE n s c e ru hcur hs, bind_ok _ _ c c1 _ hprep, bind_ok _ _ c1 c2 _ hinit]
        rw [hrun]
        have hneed : NeedLe tbl (waitF ru' e ⟨.cell c.cells.size, []⟩) n :=
          (need_waitF ru' e _ d hok' hpd).mono (by omega)
        rcases ih _ _ c2 s hinv2 (hasU_waitF _ _ _) hneed with ⟨er, c', he⟩ | ⟨c3, fs', hnext, hok, hinv3⟩
        · exact Or.inl ⟨er, c', by rw [bind_def, he]⟩
        · rw [scalarNext_waitF _ _ _ _ _ hnext] at hinv3
          obtain ⟨c4, hproc, hinv4⟩ := process_rmE _ _ e ru t p key hinv3
          exact Or.inr ⟨c4, _, rfl, by rw [bind_ok _ _ c2 c3 _ hok]; exact hproc, hinv4⟩
    | rp e ru t p =>
      by_cases hs : s = .nil
      · subst hs
        obtain ⟨c', h1, h2⟩ := nil_rp e ru t p n h
        exact Or.inr ⟨c', _, rfl, h1, h2⟩
      · obtain ⟨_, hz, _, hru⟩ := h.wfs.1.2.ptr_inv
        obtain ⟨d, hpd, hd⟩ := hn
        obtain ⟨c1, hprep, hinv1, hx, _⟩ := prepare_cell e _ (show (Frame.rp e ru t p).cellTy = some e from rfl) hz h
        obtain ⟨ru', c2, hinit, _, hok', hinv2, _⟩ := init_at ru e ⟨.cell c.cells.size, []⟩ hru hinv1
          (fun a => ⟨rfl, rfl⟩) _ hx hz
        have hrun : onScalar (n + 1) s c = (onScalar n s >>= fun _ => reflPtrProcess e) c2 := by
          rw [onScalar_rp n s c e ru hcur hs, reflPtrPrepare_eq, bind_ok _ _ c c1 _ hprep, bind_ok _ _ c1 c2 _ hinit]
        rw [hrun]
        have hneed : NeedLe tbl (waitF ru' e ⟨.cell c.cells.size, []⟩) n :=
          (need_waitF ru' e _ d hok' hpd).mono (by omega)
        rcases ih _ _ c2 s hinv2 (hasU_waitF _ _ _) hneed with ⟨er, c', he⟩ | ⟨c3, fs', hnext, hok, hinv3⟩
        · exact Or.inl ⟨er, c', by rw [bind_def, he]⟩
        · rw [scalarNext_waitF _ _ _ _ _ hnext] at hinv3
          obtain ⟨c4, hproc, hinv4, _⟩ := process_rp _ _ e ru t p hinv3
          exact Or.inr ⟨c4, _, rfl, by rw [bind_ok _ _ c2 c3 _ hok]; exact hproc, hinv4⟩

end SF.Unf.Str
