/-
  Helper lemmas for C02 (CBOR parser mirror): every successful step of the main loop from a
  state satisfying the invariant `Inv` re-establishes `Inv`, decreases the measure `mu`,
  and reports `done` only in a state without a pending start.
  Property theorems: SF/Proofs/CborChunkTop.lean.
-/
import SF.Proofs.CborChunkInv
set_option linter.unusedSimpArgs false
set_option linter.unusedVariables false
namespace SF.Cbor.Chunk
open SF SF.Cbor SF.Cbor.Parse
open SF.Props.C03 (startPending)
open SF.Cbor.Collect (collectSpec collect_eq_spec)

/-! ## structural facts -/

theorem pushState_state {p : P} (h : p.state.current.major ≠ stFail) (s : St) :
    (pushState p s).state = { stack := p.state.current :: p.state.stack, current := s } := by
  simp [pushState, StateStack.push, h]

@[simp] theorem pushState_buffer (p : P) (s : St) : (pushState p s).buffer = p.buffer := rfl
@[simp] theorem pushState_length (p : P) (s : St) : (pushState p s).length = p.length := rfl
@[simp] theorem popSt_buffer (p : P) : (popSt p).buffer = p.buffer := rfl
@[simp] theorem popSt_length (p : P) : (popSt p).length = p.length := rfl
@[simp] theorem popLen_buffer (p : P) : (popLen p).buffer = p.buffer := rfl
@[simp] theorem popLen_state (p : P) : (popLen p).state = p.state := rfl
@[simp] theorem decLen_buffer (p : P) (n : Int) : (decLen p n).buffer = p.buffer := rfl
@[simp] theorem decLen_state (p : P) (n : Int) : (decLen p n).state = p.state := rfl
@[simp] theorem pushLen_state' (p : P) (n : Int) : (pushLen p n).state = p.state := rfl
@[simp] theorem setMajor_stack (p : P) (m : UInt8) : (setMajor p m).state.stack = p.state.stack := rfl
@[simp] theorem setMinor_stack (p : P) (m : UInt8) : (setMinor p m).state.stack = p.state.stack := rfl

theorem popSt_state {p : P} {u : St} {t : List St} (h : p.state.stack = u :: t) :
    (popSt p).state = { stack := t, current := u } := by
  simp [popSt, StateStack.pop, h]

/-! ## leaving a state -/

theorem popState_ok (n : Nat) (p : P) (hv : VStack p.state.stack) (hb : p.buffer = [])
    (hn : n = p.state.stack.length) : (popState n p).2.2 = none → ValOK (popState n p).1 := by
  cases hs : p.state.stack with
  | nil => rw [hs] at hv; exact absurd rfl hv.ne_nil
  | cons u t =>
    rw [hs] at hn hv; subst hn
    simp only [List.length_cons, popState]
    apply onValue_ok
    · rw [popSt_state hs]; exact hv
    · simpa using hb
    · rw [popSt_state hs]

theorem popStateR_ok (p : P) (rest : Bytes) (hv : VStack p.state.stack) (hb : p.buffer = []) :
    (popStateR p rest).err = none → ValOK (popStateR p rest).p ∧ (popStateR p rest).rest = rest := by
  simp only [popStateR]
  intro h
  exact ⟨popState_ok _ p hv hb rfl h, trivial⟩

theorem onValueR_ok (p : P) (rest : Bytes) (hv : VStack (p.state.current :: p.state.stack))
    (hb : p.buffer = []) :
    (onValueR p rest).err = none → ValOK (onValueR p rest).p ∧ (onValueR p rest).rest = rest := by
  simp only [onValueR]
  intro h
  exact ⟨onValue_ok _ p hv hb rfl h, trivial⟩

theorem scalar_ok (p : P) (e : Ev) (rest : Bytes) (hv : VStack (p.state.current :: p.state.stack))
    (hb : p.buffer = []) :
    (scalar p e rest).err = none → ValOK (scalar p e rest).p ∧ (scalar p e rest).rest = rest := by
  unfold scalar
  rw [visit_eq]
  by_cases hf : vfail p = true
  · simp [hf]
  · simp only [hf, Bool.false_eq_true, if_false]
    exact onValueR_ok (addEv p e) rest hv hb

theorem scalarPop_ok (p : P) (e : Ev) (rest : Bytes) (hv : VStack p.state.stack)
    (hb : p.buffer = []) :
    (scalarPop p e rest).err = none → ValOK (scalarPop p e rest).p ∧ (scalarPop p e rest).rest = rest := by
  unfold scalarPop
  rw [visit_eq]
  by_cases hf : vfail p = true
  · simp [hf]
  · simp only [hf, Bool.false_eq_true, if_false]
    exact popStateR_ok (addEv p e) rest hv hb

theorem handleLenD_ok (isArr : Bool) (n : Nat) (p : P) (hl : ¬ p.length.current > 0)
    (hv : VStack p.state.stack) (hb : p.buffer = []) (hn : n = p.state.stack.length) :
    (handleLenD isArr n p).2.2 = none → ValOK (handleLenD isArr n p).1 := by
  unfold handleLenD
  simp only [hl, if_false]
  rw [visit_eq]
  by_cases hf : vfail p = true
  · simp [hf]
  · simp only [hf, Bool.false_eq_true, if_false]
    exact popState_ok n _ hv hb hn


/-! ## entering a value -/

/-- post-condition of the building blocks that pass the remaining input through -/
def SubPost (r : R) (rest : Bytes) : Prop :=
  Inv r.p ∧ r.rest = rest ∧ (r.done = true → startPending r.p = false)

theorem SubPost.ofVal {r : R} {rest : Bytes} (h : ValOK r.p ∧ r.rest = rest) : SubPost r rest :=
  ⟨Inv.val h.1, h.2, fun _ => h.1.not_pending⟩

theorem SeqStart.ne_fail {m : UInt8} (h : SeqStart m) : m ≠ stFail := by
  rcases h with h | h | h <;> rw [h] <;> decide

theorem initByteSeq_post (p : P) (major minor : UInt8) (bs : Bytes)
    (hv : VStack (p.state.current :: p.state.stack)) (hb : p.buffer = [])
    (hm : SeqStart (major ||| stStartX)) :
    (initByteSeq p major minor bs).err = none → SubPost (initByteSeq p major minor bs) bs := by
  have hnf := hv.head_ne_fail
  unfold initByteSeq
  by_cases h1 : minor < len8b
  · simp only [h1, if_true]
    intro _
    refine ⟨Inv.startSeq ?_ ?_ ?_ ?_, rfl, by simp⟩
    · simpa [pushState_state hnf] using hm
    · simpa using hb
    · simp [pushLen, LenStack.push]
    · simpa [pushState_state hnf] using hv
  · by_cases h2 : minor > len64b
    · simp [h1, h2]
    · simp only [h1, h2, if_false]
      intro _
      obtain ⟨w, hw⟩ := Option.isSome_iff_exists.mp (bits_width minor h1 h2)
      have hnf2 : (pushState p ⟨major ||| stStartX, stStart⟩).state.current.major ≠ stFail := by
        rw [pushState_state hnf]; exact hm.ne_fail
      refine ⟨Inv.len w ⟨major ||| stStartX, stStart⟩ (p.state.current :: p.state.stack) ?_ ?_ ?_ ?_ ?_,
        rfl, by simp⟩
      · rw [pushState_state hnf2]; rfl
      · rw [pushState_state hnf2]; exact hw
      · simp only [pushState_buffer, hb, List.length_nil]; exact widthOf_pos hw
      · rw [pushState_state hnf2, pushState_state hnf]
      · exact Or.inl ⟨hm, hv⟩

theorem initSub_post (p : P) (major minor : UInt8) (bs : Bytes)
    (hv : VStack (p.state.current :: p.state.stack)) (hb : p.buffer = [])
    (hm : major = majorArr ∨ major = majorMap) :
    (initSub p major minor bs).err = none → SubPost (initSub p major minor bs) bs := by
  have hnf := hv.head_ne_fail
  have hnf1 : ∀ m, (pushState p ⟨major, m⟩).state.current.major ≠ stFail := by
    intro m; rw [pushState_state hnf]; rcases hm with rfl | rfl <;> dsimp only <;> decide
  have hnf1' : ∀ m, (pushState p ⟨major ||| stIndef, m⟩).state.current.major ≠ stFail := by
    intro m; rw [pushState_state hnf]; rcases hm with rfl | rfl <;> dsimp only <;> decide
  have hnf2 : ∀ m, (pushState (pushState p ⟨major, m⟩) ⟨major ||| stStartX, m⟩).state.current.major ≠ stFail := by
    intro m; rw [pushState_state (hnf1 m)]; rcases hm with rfl | rfl <;> dsimp only <;> decide
  have hp1 : SubPair (major ||| stStartX) major := by
    rcases hm with rfl | rfl
    · exact Or.inl ⟨by decide, by decide⟩
    · exact Or.inr (Or.inl ⟨by decide, by decide⟩)
  have hp2 : SubPair (major ||| stStartX ||| stIndef) (major ||| stIndef) := by
    rcases hm with rfl | rfl
    · exact Or.inr (Or.inr (Or.inl ⟨by decide, by decide⟩))
    · exact Or.inr (Or.inr (Or.inr ⟨by decide, by decide⟩))
  unfold initSub
  by_cases h0 : minor = lenIndef
  · simp only [h0, beq_self_eq_true, if_true]
    intro _
    refine ⟨Inv.startSub ⟨major ||| stIndef, stStart⟩ (p.state.current :: p.state.stack) ?_ ?_ hv
      (by simpa using hb), rfl, by simp⟩
    · rw [pushState_state (hnf1' _), pushState_state hnf]
    · rw [pushState_state (hnf1' _)]; exact hp2
  · have h0' : (minor == lenIndef) = false := by simpa using h0
    simp only [h0', Bool.false_eq_true, if_false]
    by_cases h1 : minor < len8b
    · simp only [h1, if_true]
      intro _
      refine ⟨Inv.startSub ⟨major, stStart⟩ (p.state.current :: p.state.stack) ?_ ?_ hv
        (by simpa using hb), rfl, by simp⟩
      · simp only [pushLen_state']; rw [pushState_state (hnf1 _), pushState_state hnf]
      · simp only [pushLen_state']; rw [pushState_state (hnf1 _)]; exact hp1
    · by_cases h2 : minor > len64b
      · simp [h1, h2]
      · simp only [h1, h2, if_false]
        intro _
        obtain ⟨w, hw⟩ := Option.isSome_iff_exists.mp (bits_width minor h1 h2)
        refine ⟨Inv.len w ⟨major ||| stStartX, stStart⟩ (⟨major, stStart⟩ :: p.state.current :: p.state.stack)
          ?_ ?_ ?_ ?_ ?_, rfl, by simp⟩
        · rw [pushState_state (hnf2 _)]; rfl
        · rw [pushState_state (hnf2 _)]; exact hw
        · simp only [pushState_buffer, hb, List.length_nil]; exact widthOf_pos hw
        · rw [pushState_state (hnf2 _), pushState_state (hnf1 _), pushState_state hnf]
        · exact Or.inr ⟨_, _, rfl, hp1, hv⟩

theorem stepValue_post (p : P) (x : UInt8) (bs : Bytes)
    (hv : VStack (p.state.current :: p.state.stack)) (hb : p.buffer = []) :
    (stepValue p (x :: bs)).err = none → SubPost (stepValue p (x :: bs)) bs := by
  have hnf := hv.head_ne_fail
  rcases stepValue_cases x with ⟨e, h⟩ | ⟨e, h⟩ | ⟨m, minor, w, hm, hw, h⟩ | ⟨m, hm, h⟩ |
      ⟨m, minor, hm, h⟩ | ⟨m, minor, hm, h⟩
  · rw [h]; intro he; exact SubPost.ofVal (scalar_ok p e bs hv hb he)
  · rw [h]; simp
  · rw [h]; intro _
    have hst := pushState_state hnf ⟨m, minor⟩
    have hbl : (pushState p ⟨m, minor⟩).buffer.length < w := by
      simp only [pushState_buffer, hb, List.length_nil]; exact widthOf_pos hw
    rcases hm with rfl | rfl
    · exact ⟨Inv.uint w (by rw [hst]; rfl) (by rw [hst]; exact hw) hbl (by rw [hst]; exact hv), rfl, by simp⟩
    · exact ⟨Inv.neg w (by rw [hst]; rfl) (by rw [hst]; exact hw) hbl (by rw [hst]; exact hv), rfl, by simp⟩
  · rw [h]; intro _
    have hst := pushState_state hnf ⟨m, stStart⟩
    rcases hm with rfl | rfl
    · exact ⟨Inv.f32 (by rw [hst]; rfl) (by simp [hb]) (by rw [hst]; exact hv), rfl, by simp⟩
    · exact ⟨Inv.f64 (by rw [hst]; rfl) (by simp [hb]) (by rw [hst]; exact hv), rfl, by simp⟩
  · rw [h]
    exact initByteSeq_post p m minor bs hv hb (by
      rcases hm with rfl | rfl
      · exact Or.inl (by decide)
      · exact Or.inr (Or.inl (by decide)))
  · rw [h]
    exact initSub_post p m minor bs hv hb hm

theorem initMapKey_post (p : P) (x : UInt8) (bs : Bytes)
    (hv : VStack (p.state.current :: p.state.stack)) (hb : p.buffer = []) :
    (initMapKey p (x :: bs)).err = none → SubPost (initMapKey p (x :: bs)) bs := by
  unfold initMapKey
  simp only []
  by_cases h1 : ((x &&& majorMask) != majorText) = true
  · simp [h1]
  · by_cases h2 : ((x &&& minorMask) == lenIndef) = true
    · simp [h1, h2]
    · simp only [h1, h2, Bool.false_eq_true, if_false]
      exact initByteSeq_post p stKey _ bs hv hb (Or.inr (Or.inr (by decide)))


/-! ## the token collector, as seen by the steps -/

theorem collectP_cases (p : P) (a : Bytes) (n : Nat) (h0 : 0 < n) (hb : p.buffer.length < n) :
    (∃ t rest, rest.length < a.length ∧ collectP p a n = ({ p with buffer := [] }, rest, some t) ∧
        ∀ b, collectP p (a ++ b) n = ({ p with buffer := [] }, rest ++ b, some t)) ∨
    ((p.buffer ++ a).length < n ∧ collectP p a n = ({ p with buffer := p.buffer ++ a }, [], none) ∧
        ∀ b, collectP p (a ++ b) n = collectP { p with buffer := p.buffer ++ a } b n) := by
  by_cases h : p.buffer.length + a.length ≥ n
  · left
    have hk : n - p.buffer.length ≤ a.length := by omega
    refine ⟨p.buffer ++ a.take (n - p.buffer.length), a.drop (n - p.buffer.length), ?_, ?_, ?_⟩
    · simp only [List.length_drop]; omega
    · simp only [collectP, collect_eq_spec _ _ _ h0 hb, collectSpec, h, if_true]
    · intro b
      have h2 : p.buffer.length + (a ++ b).length ≥ n := by simp; omega
      simp only [collectP, collect_eq_spec _ _ _ h0 hb, collectSpec, h2, if_true,
        List.take_append_of_le_length hk, List.drop_append_of_le_length hk]
  · right
    have hlt : (p.buffer ++ a).length < n := by simp; omega
    refine ⟨hlt, ?_, ?_⟩
    · simp only [collectP, collect_eq_spec _ _ _ h0 hb, collectSpec, h, if_false]
    · intro b
      have := SF.Cbor.Collect.collect_resume_partial p.buffer a b n h0 hb
      simp only [collect_eq_spec p.buffer a n h0 hb, collectSpec, h, if_false] at this
      simp only [collectP, this]


theorem buffer_nil_eta (p : P) (h : p.buffer = []) : { p with buffer := [] } = p := by
  cases p; simp_all

theorem getArg_cases (p : P) (a : Bytes) (w : Nat) (hw : w = 1 ∨ w = 2 ∨ w = 4 ∨ w = 8)
    (hb : p.buffer.length < w) (ha : a ≠ []) :
    (∃ v rest, rest.length < a.length ∧ getArg p a w = .ok ({ p with buffer := [] }, rest, some v) ∧
        ∀ b, getArg p (a ++ b) w = .ok ({ p with buffer := [] }, rest ++ b, some v)) ∨
    ((p.buffer ++ a).length < w ∧ getArg p a w = .ok ({ p with buffer := p.buffer ++ a }, [], none) ∧
        ∀ b, getArg p (a ++ b) w = getArg { p with buffer := p.buffer ++ a } b w) := by
  by_cases h1 : w = 1
  · subst h1
    left
    cases a with
    | nil => exact absurd rfl ha
    | cons x as =>
      have hbn : p.buffer = [] := by
        cases hp : p.buffer with
        | nil => rfl
        | cons _ _ => rw [hp] at hb; simp at hb
      refine ⟨x.toNat, as, by simp, ?_, ?_⟩
      · simp [getArg, buffer_nil_eta p hbn]
      · intro b; simp [getArg, buffer_nil_eta p hbn]
  · have hne : (w == 1) = false := by simpa using h1
    have h0 : 0 < w := by omega
    rcases collectP_cases p a w h0 hb with ⟨t, rest, hl, hc, hcb⟩ | ⟨hl, hc, hcb⟩
    · left
      refine ⟨beNat t, rest, hl, ?_, ?_⟩
      · simp [getArg, hne, hc]
      · intro b; simp [getArg, hne, hcb b]
    · right
      refine ⟨hl, ?_, ?_⟩
      · simp [getArg, hne, hc]
      · intro b; simp [getArg, hne, hcb b]


/-! ## post-conditions of the steps -/

/-- post-condition of a successful step on input `a` -/
structure Out (a : Bytes) (r : R) : Prop where
  inv : Inv r.p
  le : r.rest.length ≤ a.length
  np : r.rest.length = a.length → startPending r.p = false
  done : r.done = true → startPending r.p = false

/-- … that consumes input whenever there is some -/
def OutS (a : Bytes) (r : R) : Prop := Out a r ∧ (a ≠ [] → r.rest.length < a.length)

theorem OutS.ofSub {r : R} {x : UInt8} {bs : Bytes} (h : SubPost r bs) : OutS (x :: bs) r := by
  obtain ⟨h1, h2, h3⟩ := h
  refine ⟨⟨h1, by simp [h2], fun hc => ?_, h3⟩, fun _ => by simp [h2]⟩
  rw [h2] at hc; simp at hc

theorem OutS.ofVal {r : R} {a rest : Bytes} (h : ValOK r.p ∧ r.rest = rest) (hl : rest.length < a.length) :
    OutS a r :=
  ⟨⟨Inv.val h.1, by rw [h.2]; omega, fun _ => h.1.not_pending, fun _ => h.1.not_pending⟩,
    fun _ => by rw [h.2]; exact hl⟩

theorem Out.ofVal {r : R} {a : Bytes} (h : ValOK r.p ∧ r.rest = a) : Out a r :=
  ⟨Inv.val h.1, by rw [h.2]; omega, fun _ => h.1.not_pending, fun _ => h.1.not_pending⟩

theorem StepOK.ofOutS {p : P} {a : Bytes} {r : R} (h : OutS a r) (hm : More p a) : StepOK p a r := by
  by_cases ha : a = []
  · subst ha
    have hp : startPending p = true := by
      rcases hm with hm | hm
      · exact absurd rfl hm
      · exact hm
    have hle := h.1.le
    exact StepOK.zero h.1.inv hle hp (h.1.np (by simp at hle ⊢; exact hle))
  · exact StepOK.consume h.1.inv (h.2 ha) h.1.done

theorem StepOK.ofOut {p : P} {a : Bytes} {r : R} (h : Out a r) (hp : startPending p = true) :
    StepOK p a r := by
  refine ⟨h.inv, ?_, h.done⟩
  have hle := h.le
  unfold mu
  simp only [hp, if_true]
  by_cases he : r.rest.length = a.length
  · simp only [h.np he, Bool.false_eq_true, if_false]; omega
  · split <;> omega

theorem ne_nil_length_pos {a : Bytes} (h : a ≠ []) : 0 < a.length := by
  cases a with
  | nil => exact absurd rfl h
  | cons _ _ => simp

/-- a step that parks all of its (non-empty) input, or finds none -/
theorem OutS.parked {a : Bytes} {q : P} (hi : Inv q) (hp : startPending q = false) :
    OutS a { p := q, rest := [] } :=
  ⟨⟨hi, by simp, fun _ => hp, fun _ => hp⟩, fun ha => ne_nil_length_pos ha⟩

theorem stepUint_ok (p : P) (a : Bytes) (w : Nat) (hmaj : p.state.current.major = 0x00)
    (hm : widthOf p.state.current.minor = some w) (hb : p.buffer.length < w)
    (hv : VStack p.state.stack) (ha : a ≠ []) :
    (stepUint p a).err = none → OutS a (stepUint p a) := by
  unfold stepUint
  simp only [hm]
  rcases getArg_cases p a w (widthOf_cases hm) hb ha with ⟨v, rest, hl, hg, _⟩ | ⟨hl, hg, _⟩
  · rw [hg]
    simp only []
    intro he
    exact OutS.ofVal (scalarPop_ok _ _ rest hv rfl he) hl
  · rw [hg]
    simp only []
    intro _
    exact OutS.parked (Inv.uint w hmaj hm hl hv) (by simp [startPending, hmaj]; decide)


theorem stepNeg_ok (p : P) (a : Bytes) (w : Nat) (hmaj : p.state.current.major = 0x20)
    (hm : widthOf p.state.current.minor = some w) (hb : p.buffer.length < w)
    (hv : VStack p.state.stack) (ha : a ≠ []) :
    (stepNeg p a).err = none → OutS a (stepNeg p a) := by
  unfold stepNeg
  simp only [hm]
  rcases getArg_cases p a w (widthOf_cases hm) hb ha with ⟨v, rest, hl, hg, _⟩ | ⟨hl, hg, _⟩
  · rw [hg]
    simp only []
    cases negEvent w v with
    | error e => simp
    | ok ev =>
      simp only []
      intro he
      exact OutS.ofVal (scalarPop_ok _ _ rest hv rfl he) hl
  · rw [hg]
    simp only []
    intro _
    exact OutS.parked (Inv.neg w hmaj hm hl hv) (by simp [startPending, hmaj]; decide)

theorem SeqStart.pending {m : UInt8} (h : SeqStart m) :
    ((m &&& (stStartX ||| stIndef)) == stStartX) = true := by
  rcases h with h | h | h <;> rw [h] <;> decide

theorem stepLen_ok (p : P) (a : Bytes) (w : Nat) (s : St) (t : List St) (hmaj : p.state.current.major = 3)
    (hm : widthOf p.state.current.minor = some w) (hb : p.buffer.length < w)
    (hs : p.state.stack = s :: t) (hst : StartOK s t) (ha : a ≠ []) :
    (stepLen p a).err = none → OutS a (stepLen p a) := by
  unfold stepLen
  simp only [hm]
  rcases getArg_cases p a w (widthOf_cases hm) hb ha with ⟨v, rest, hl, hg, _⟩ | ⟨hl, hg, _⟩
  · rw [hg]
    simp only []
    by_cases hv : v > 9223372036854775807
    · simp [hv]
    · simp only [hv, if_false]
      intro _
      have hstate : (popSt (pushLen { p with buffer := [] } (v : Int))).state = { stack := t, current := s } := by
        rw [popSt_state (u := s) (t := t) (by simpa using hs)]
      have hinv : Inv (popSt (pushLen { p with buffer := [] } (v : Int))) := by
        rcases hst with ⟨h1, h2⟩ | ⟨c, t', h1, h2, h3⟩
        · exact Inv.startSeq (by rw [hstate]; exact h1) rfl (by simp [pushLen, LenStack.push])
            (by rw [hstate]; exact h2)
        · exact Inv.startSub c t' (by rw [hstate]; exact h1) (by rw [hstate]; exact h2) h3 rfl
      exact ⟨⟨hinv, by simp only []; omega, fun hc => by simp only [] at hc; omega, by simp⟩,
        fun _ => hl⟩
  · rw [hg]
    simp only []
    intro _
    exact OutS.parked (Inv.len w s t hmaj hm hl hs hst) (by simp [startPending, hmaj]; decide)

theorem stepFloat_ok (p : P) (a : Bytes) (w : Nat) (hw : 0 < w) (hb : p.buffer.length < w)
    (hv : VStack p.state.stack) (hp : startPending p = false)
    (hi : ∀ buf : Bytes, buf.length < w → Inv { p with buffer := buf }) :
    (stepFloat p a w).err = none → OutS a (stepFloat p a w) := by
  unfold stepFloat
  rcases collectP_cases p a w hw hb with ⟨t, rest, hl, hc, _⟩ | ⟨hl, hc, _⟩
  · rw [hc]
    simp only []
    rw [visit_eq]
    by_cases hf : vfail { p with buffer := [] } = true
    · simp [hf]
    · simp only [hf, Bool.false_eq_true, if_false]
      intro he
      exact OutS.ofVal (popStateR_ok _ rest hv rfl he) hl
  · rw [hc]
    simp only []
    intro _
    exact OutS.parked (hi _ hl) hp

theorem stepText_ok (p : P) (a : Bytes) (hmaj : p.state.current.major = 0x60)
    (hb : (p.buffer.length : Int) < p.length.current) (hv : VStack p.state.stack) :
    (stepText p a).err = none → OutS a (stepText p a) := by
  unfold stepText
  rcases collectP_cases p a p.length.current.toNat (by omega) (by omega) with
    ⟨t, rest, hl, hc, _⟩ | ⟨hl, hc, _⟩
  · rw [hc]
    simp only []
    rw [visit_eq]
    by_cases hf : vfail (popLen { p with buffer := [] }) = true
    · simp [hf]
    · simp only [hf, Bool.false_eq_true, if_false]
      intro he
      exact OutS.ofVal (popStateR_ok _ rest hv rfl he) hl
  · rw [hc]
    simp only []
    intro _
    exact OutS.parked (Inv.text hmaj (by simp only []; omega) hv) (by simp [startPending, hmaj]; decide)

theorem stepKey_ok (p : P) (a : Bytes) (hmaj : p.state.current.major = 0xa8)
    (hb : (p.buffer.length : Int) < p.length.current) (hv : VStack p.state.stack) :
    (stepKey p a).err = none → OutS a (stepKey p a) := by
  unfold stepKey
  rcases collectP_cases p a p.length.current.toNat (by omega) (by omega) with
    ⟨t, rest, hl, hc, _⟩ | ⟨hl, hc, _⟩
  · rw [hc]
    simp only []
    rw [visit_eq]
    by_cases hf : vfail { p with buffer := [] } = true
    · simp [hf]
    · simp only [hf, Bool.false_eq_true, if_false]
      intro _
      have hnp : startPending (setMajor (popLen (addEv { p with buffer := [] } (Ev.key t))) stElem) = false := by
        simp [startPending]; decide
      exact ⟨⟨Inv.elem rfl rfl hv, by simp only []; omega, fun _ => hnp, fun _ => hnp⟩, fun _ => hl⟩
  · rw [hc]
    simp only []
    intro _
    exact OutS.parked (Inv.key hmaj (by simp only []; omega) hv) (by simp [startPending, hmaj]; decide)


@[simp] theorem withEvs_state (p : P) (evs : List Ev) : (withEvs p evs).state = p.state := rfl
@[simp] theorem withEvs_length (p : P) (evs : List Ev) : (withEvs p evs).length = p.length := rfl
@[simp] theorem withEvs_buffer (p : P) (evs : List Ev) : (withEvs p evs).buffer = p.buffer := rfl
@[simp] theorem withEvs_failAt (p : P) (evs : List Ev) : (withEvs p evs).failAt = p.failAt := rfl
@[simp] theorem withEvs_err (p : P) (evs : List Ev) : (withEvs p evs).err = p.err := rfl
@[simp] theorem withEvs_evs (p : P) (evs : List Ev) : (withEvs p evs).evs = evs := rfl

theorem visitAll_fst (p : P) (es : List Ev) : (visitAll p es).1 = withEvs p (visitAll p es).1.evs := by
  induction es generalizing p with
  | nil => cases p; rfl
  | cons e es ih =>
    simp only [visitAll]
    rw [visit_eq]
    by_cases hf : vfail p = true
    · simp only [hf, if_true]; rfl
    · simp only [hf, Bool.false_eq_true, if_false]
      rw [ih]; rfl

theorem visitAll_fst' {p q : P} {es : List Ev} {e : Option Err} (h : visitAll p es = (q, e)) :
    q = withEvs p q.evs := by
  have := visitAll_fst p es; rw [h] at this; exact this

theorem stepBytesGo_ok (q : P) (a : Bytes) (hmaj : q.state.current.major = 0x40)
    (hb : q.buffer = []) (hl : q.length.current > 0) (hv : VStack q.state.stack) (ha : a ≠ []) :
    (stepBytesGo q a).err = none → OutS a (stepBytesGo q a) := by
  have hapos := ne_nil_length_pos ha
  unfold stepBytesGo
  simp only []
  by_cases hd : a.length ≥ q.length.current.toNat
  · simp only [hd, decide_true, if_true]
    generalize hva : visitAll q _ = res
    obtain ⟨q', _ | e⟩ := res
    · simp only []
      have hq' : q' = withEvs q q'.evs := visitAll_fst' hva
      rw [visit_eq]
      by_cases hf : vfail q' = true
      · simp [hf]
      · simp only [hf, Bool.false_eq_true, if_false]
        intro he
        refine OutS.ofVal (popStateR_ok _ _ ?_ ?_ he) ?_
        · rw [hq']; simpa using hv
        · rw [hq']; simpa using hb
        · simp only [List.length_drop]; omega
    · simp
  · simp only [hd, decide_false, Bool.false_eq_true, if_false]
    generalize hva : visitAll (decLen q ↑a.length) _ = res
    obtain ⟨q', _ | e⟩ := res
    · simp only []
      have hq' : q' = withEvs (decLen q ↑a.length) q'.evs := visitAll_fst' hva
      intro _
      have hinv : Inv q' := by
        rw [hq']
        exact Inv.bytes (by simpa using hmaj) (by simpa using hb) (by simp [decLen]; omega) (by simpa using hv)
      have hnp : startPending q' = false := by
        rw [hq']; simp [startPending, hmaj]; decide
      exact ⟨⟨hinv, by simp, fun _ => hnp, fun _ => hnp⟩, fun _ => by simp; exact hapos⟩
    · simp

theorem stepBytes_ok (p : P) (a : Bytes) (hmaj : p.state.current.major = 0x40)
    (hb : p.buffer = []) (hl : p.length.current > 0) (hv : VStack p.state.stack) (ha : a ≠ []) :
    (stepBytes p a).err = none → OutS a (stepBytes p a) := by
  unfold stepBytes
  by_cases hmin : (p.state.current.minor == stStart) = true
  · simp only [hmin, if_true]
    rw [visit_eq]
    by_cases hf : vfail p = true
    · simp [hf]
    · simp only [hf, Bool.false_eq_true, if_false]
      exact stepBytesGo_ok _ a (by simpa using hmaj) (by simpa using hb) (by simpa using hl)
        (by simpa using hv) ha
  · simp only [hmin, Bool.false_eq_true, if_false]
    exact stepBytesGo_ok p a hmaj hb hl hv ha


/-! ## containers -/

theorem VStack.tail {s : St} {t : List St} (h : VStack (s :: t)) (hs : s.major ≠ 2) : VStack t := by
  cases t with
  | nil => exact absurd h hs
  | cons u t => exact h.2

theorem OutS.out {a : Bytes} {r : R} (h : OutS a r) : Out a r := h.1

theorem stepValue_ok (q : P) (a : Bytes) (hq : ValOK q) :
    (stepValue q a).err = none → OutS a (stepValue q a) := by
  cases a with
  | nil => intro _; exact OutS.parked (Inv.val hq) hq.not_pending
  | cons x bs => intro he; exact OutS.ofSub (stepValue_post q x bs hq.vs hq.buf he)

theorem stepArray_ok (q : P) (a : Bytes) (hv : VStack (q.state.current :: q.state.stack))
    (hm : q.state.current.major ≠ 2) (hb : q.buffer = []) :
    (stepArray q a).err = none →
      Out a (stepArray q a) ∧ (q.length.current > 0 → OutS a (stepArray q a)) := by
  by_cases hl : q.length.current > 0
  · have : stepArray q a = stepValue q a := by simp [stepArray, hl]
    rw [this]
    intro he
    have := stepValue_ok q a ⟨hv, hb, fun _ => hl⟩ he
    exact ⟨this.1, fun _ => this⟩
  · simp only [stepArray, hl, if_false]
    intro he
    exact ⟨Out.ofVal ⟨handleLenD_ok true _ q hl (hv.tail hm) hb rfl he, rfl⟩, fun h => False.elim h⟩

theorem stepMap_ok (q : P) (a : Bytes) (hv : VStack (q.state.current :: q.state.stack))
    (hm : q.state.current.major ≠ 2) (hb : q.buffer = []) :
    (stepMap q a).err = none →
      Out a (stepMap q a) ∧ (q.length.current > 0 → OutS a (stepMap q a)) := by
  by_cases hl : q.length.current > 0
  · cases a with
    | nil =>
      simp only [stepMap, hl, if_true, List.length_nil, Nat.lt_irrefl, gt_iff_lt, if_false]
      intro _
      have := OutS.parked (a := []) (Inv.val ⟨hv, hb, fun _ => hl⟩) hv.head_not_pending
      exact ⟨this.1, fun _ => this⟩
    | cons x bs =>
      have : stepMap q (x :: bs) = initMapKey q (x :: bs) := by simp [stepMap, hl]
      rw [this]
      intro he
      have := OutS.ofSub (x := x) (initMapKey_post q x bs hv hb he)
      exact ⟨this.1, fun _ => this⟩
  · simp only [stepMap, hl, if_false]
    intro he
    exact ⟨Out.ofVal ⟨handleLenD_ok false _ q hl (hv.tail hm) hb rfl he, rfl⟩, fun h => False.elim h⟩

theorem indefArr_ok (q : P) (x : UInt8) (bs : Bytes) (hv : VStack (q.state.current :: q.state.stack))
    (hm : q.state.current.major ≠ 2) (hb : q.buffer = []) :
    (indefArr q (x :: bs)).err = none → OutS (x :: bs) (indefArr q (x :: bs)) := by
  simp only [indefArr]
  by_cases hx : (x == codeBreak) = true
  · simp only [hx, if_true]
    rw [visit_eq]
    by_cases hf : vfail q = true
    · simp [hf]
    · simp only [hf, Bool.false_eq_true, if_false]
      intro he
      exact OutS.ofVal (popStateR_ok _ bs (hv.tail hm) hb he) (by simp)
  · simp only [hx, Bool.false_eq_true, if_false]
    intro he
    exact OutS.ofSub (stepValue_post q x bs hv hb he)

theorem indefMap_ok (q : P) (x : UInt8) (bs : Bytes) (hv : VStack (q.state.current :: q.state.stack))
    (hm : q.state.current.major ≠ 2) (hb : q.buffer = []) :
    (indefMap q (x :: bs)).err = none → OutS (x :: bs) (indefMap q (x :: bs)) := by
  simp only [indefMap]
  by_cases hx : (x == codeBreak) = true
  · simp only [hx, if_true]
    rw [visit_eq]
    by_cases hf : vfail q = true
    · simp [hf]
    · simp only [hf, Bool.false_eq_true, if_false]
      intro he
      exact OutS.ofVal (popStateR_ok _ bs (hv.tail hm) hb he) (by simp)
  · simp only [hx, Bool.false_eq_true, if_false]
    intro he
    exact OutS.ofSub (initMapKey_post q x bs hv hb he)


/-! ## dispatch of execStep in the remaining states -/

theorem execStep_val (p : P) (b : Bytes) (h : p.state.current.major = 2) :
    execStep p b = stepValue p b := by
  simp +decide [execStep, h]
theorem execStep_bytes (p : P) (b : Bytes) (h : p.state.current.major = 0x40) :
    execStep p b = stepBytes p b := by
  simp +decide [execStep, h]
theorem execStep_text (p : P) (b : Bytes) (h : p.state.current.major = 0x60) :
    execStep p b = stepText p b := by
  simp +decide [execStep, h]
theorem execStep_key (p : P) (b : Bytes) (h : p.state.current.major = 0xa8) :
    execStep p b = stepKey p b := by
  simp +decide [execStep, h]

theorem More.ne_nil {p : P} {a : Bytes} (hm : More p a) (hp : startPending p = false) : a ≠ [] := by
  rcases hm with hm | hm
  · exact hm
  · rw [hp] at hm; cases hm

theorem pending_of_major {p : P} {m : UInt8} (h : p.state.current.major = m)
    (hm : ((m &&& (stStartX ||| stIndef)) == stStartX) = true) : startPending p = true := by
  simp only [startPending, h, hm]

theorem not_pending_of_major {p : P} {m : UInt8} (h : p.state.current.major = m)
    (hm : ((m &&& (stStartX ||| stIndef)) == stStartX) = false) : startPending p = false := by
  simp only [startPending, h, hm]


end SF.Cbor.Chunk
