/-
  Targets with structs, part 4: the template frames (`unfolderX`, `unfolderArrX`, `unfolderMapX`) — scalars,
  keys, their own start and end events (port of `UnfTyTpl` to typed frames: what is stored keeps the element
  type of the slice).
-/
import SF.Proofs.UnfStrInv
namespace SF.Unf.Str
open SF SF.Unf

variable {tbl : TypeTable} {R : Reg} {D : Nat} {base : S6} {fs : List Frame} {c : Ctx}

/-! ## `unfolderX` -/

/-- a scalar the kind converts: assigned, the frame is gone -/
theorem scalar_prim (k : PK) (t : GoType) (p : Path) (f : Nat) (s : Sc) (v : GoVal)
    (h : Inv tbl R D base (.prim k t p :: fs) c) (hc : k.conv s = some v) :
    ∃ c', onScalar (f + 1) s c = .ok () c' ∧ Inv tbl R D base fs c' := by
  obtain ⟨hu, hp, hv, hk, hi, hb⟩ := s6_eq _ _ h.stacks
  simp only [stacksOf, Frame.push] at hu hp hv hk hi hb
  obtain ⟨old, hd, _⟩ := h.top_deref
  have hrun : onScalar (f + 1) s c =
      .ok () { storeAt c p v with unfolder := (stacksOf base fs).u, ptr := (stacksOf base fs).p } := by
    simp [onScalar, bind_def, currentU, hu, hc, pukDeliver, primAssign, currentPtr, hp, store_at_ok c p v old hd,
      primCleanup, popU, popPtr, pure_def]
  refine ⟨_, hrun, h.pop_store c rfl v (.flat _ _ h.wfs.1.2) ?_ rfl rfl rfl rfl⟩
  exact s6_mk _ _ rfl rfl (by simp [hv]) (by simp [hk]) (by simp [hi]) (by simp [hb])

/-! ## `unfolderArrX` -/

theorem appendTo_sliceOf (e : GoType) (sl : GoVal) (i : Int) (v : GoVal) (h : sliceOf e sl) :
    sliceOf e (appendTo sl i v) := by
  rcases h with rfl | ⟨es, hd, rfl⟩
  · exact Or.inr ⟨_, _, rfl⟩
  · simp only [appendTo]; split <;> exact Or.inr ⟨_, _, rfl⟩

/-- an element the kind converts: appended -/
theorem scalar_arrF (k : PK) (t : GoType) (p : Path) (i : Int) (f : Nat) (s : Sc) (v : GoVal)
    (h : Inv tbl R D base (.arr k t p i :: fs) c) (hc : k.conv s = some v) :
    ∃ c', onScalar (f + 1) s c = .ok () c' ∧ Inv tbl R D base (.arr k t p (i + 1) :: fs) c' := by
  obtain ⟨hu, hp, hv, hk, hi, hb⟩ := s6_eq _ _ h.stacks
  simp only [stacksOf, Frame.push] at hu hp hv hk hi hb
  obtain ⟨sl, hd, hok, _⟩ := h.top_deref
  obtain ⟨e, hun, hfl⟩ := h.wfs.1.2
  have hsl : sliceOf e sl := hok.sliceOf hun
  have hrun : onScalar (f + 1) s c = arrAppend v c := by
    simp [onScalar, bind_def, currentU, hu, hc, pukDeliver]
  rw [hrun, arrAppend_at v c p sl (by rw [hp]; rfl) hd hsl.isSlice]
  refine ⟨_, rfl, h.replace_store (F' := .arr k t p (i + 1)) c rfl (appendTo sl c.idx.current v)
    (hasTy_of_sliceOf hun hfl (appendTo_sliceOf e _ _ _ hsl)) rfl rfl trivial h.wfs.1 ?_ rfl rfl rfl rfl⟩
  refine s6_mk _ _ (by simp [hu, stacksOf, Frame.push]) (by simp [hp, stacksOf, Frame.push])
    (by simp [hv, stacksOf, Frame.push]) (by simp [hk, stacksOf, Frame.push]) ?_ (by simp [hb, stacksOf, Frame.push])
  simp [hi, stacksOf, Frame.push, Stk.push]

/-- `unfoldArrStartX.OnArrayStart` through a pointer to a slice: maybe a store of a slice of the same
element type, then the start state is popped -/
theorem arrStartOnArrayStart_at (k : PK) (l : Int) (c : Ctx) (p : Path) (e : GoType) (sl : GoVal) (u : Stk U) (x : U)
    (hptr : c.ptr.current = some p) (hsl : deref c p = some sl) (hs : sliceOf e sl) (hu : c.unfolder = u.push x) :
    arrStartOnArrayStart k l c = .ok () { c with unfolder := u } ∨
    ∃ w, sliceOf e w ∧ arrStartOnArrayStart k l c = .ok () { storeAt c p w with unfolder := u } := by
  rcases hs with rfl | ⟨es, h, rfl⟩
  · by_cases hl : 0 < (if l < 0 then 0 else l)
    · refine Or.inr ⟨.slice e (List.replicate (arrPreallocLen (if l < 0 then 0 else l)).toNat (zero c.env k.goType)) [],
        Or.inr ⟨_, _, rfl⟩, ?_⟩
      simp [arrStartOnArrayStart, bind_def, currentPtr, hptr, load_def, hsl, hl, zeroM, store_at_ok c p _ _ hsl, popU, hu,
        pure_def]
    · refine Or.inl ?_
      simp [arrStartOnArrayStart, bind_def, currentPtr, hptr, load_def, hsl, hl, popU, hu, pure_def]
  · by_cases hl : (if l < 0 then 0 else l) < (es.length : Int)
    · refine Or.inr ⟨.slice e (es.take (if l < 0 then 0 else l).toNat) (es.drop (if l < 0 then 0 else l).toNat ++ h),
        Or.inr ⟨_, _, rfl⟩, ?_⟩
      simp [arrStartOnArrayStart, bind_def, currentPtr, hptr, load_def, hsl, hl, store_at_ok c p _ _ hsl, popU, hu,
        pure_def]
    · refine Or.inl ?_
      simp [arrStartOnArrayStart, bind_def, currentPtr, hptr, load_def, hsl, hl, popU, hu, pure_def]

/-- the array starts -/
theorem arrStart_arrS (k : PK) (t : GoType) (p : Path) (f : Nat) (l : Int) (bt : Nat)
    (h : Inv tbl R D base (.arrS k t p :: fs) c) :
    ∃ c', onArrayStart (f + 1) l bt c = .ok () c' ∧ Inv tbl R D base (.arr k t p 0 :: fs) c' := by
  obtain ⟨hu, hp, hv, hk, hi, hb⟩ := s6_eq _ _ h.stacks
  simp only [stacksOf, Frame.push] at hu hp hv hk hi hb
  obtain ⟨sl, hd, hok, _⟩ := h.top_deref
  obtain ⟨e, hun, hfl⟩ := h.wfs.1.2
  have hsl : sliceOf e sl := hok.sliceOf hun
  have hrun : onArrayStart (f + 1) l bt c = arrStartOnArrayStart k l c := by
    simp [onArrayStart, bind_def, currentU, hu]
  rw [hrun]
  have hs6 : ∀ c1 : Ctx, c1.s6 = c.s6 →
      ({ c1 with unfolder := (stacksOf base fs).u.push (.arr k) } : Ctx).s6 = stacksOf base (.arr k t p 0 :: fs) := by
    intro c1 h1
    obtain ⟨e1, e2, e3, e4, e5, e6⟩ := s6_eq _ _ h1
    simp only [Ctx.s6] at e1 e2 e3 e4 e5 e6
    exact s6_mk _ _ rfl (by simp [e2, hp, stacksOf, Frame.push]) (by simp [e3, hv, stacksOf, Frame.push])
      (by simp [e4, hk, stacksOf, Frame.push]) (by simp [e5, hi, stacksOf, Frame.push])
      (by simp [e6, hb, stacksOf, Frame.push])
  rcases arrStartOnArrayStart_at k l c p e sl _ _ (by rw [hp]; rfl) hd hsl hu with hr | ⟨w, hw, hr⟩
  · exact ⟨_, hr, h.replace (F' := .arr k t p 0) rfl rfl (fun _ _ _ hv => hv) h.wfs.1 (hs6 c rfl) rfl rfl rfl rfl⟩
  · exact ⟨_, hr, h.replace_store (F' := .arr k t p 0) c rfl w (hasTy_of_sliceOf hun hfl hw) rfl rfl trivial
      h.wfs.1 (hs6 _ (storeAt_s6 c p w)) rfl rfl rfl rfl⟩

/-! ## `unfolderMapX` -/

/-- the object starts -/
theorem objStart_mapS (k : PK) (t : GoType) (p : Path) (f : Nat) (l : Int) (bt : Nat)
    (h : Inv tbl R D base (.mapS k t p :: fs) c) :
    ∃ c', onObjectStart (f + 1) l bt c = .ok () c' ∧ Inv tbl R D base (.mapK k t p :: fs) c' := by
  obtain ⟨hu, hp, hv, hk, hi, hb⟩ := s6_eq _ _ h.stacks
  simp only [stacksOf, Frame.push] at hu hp hv hk hi hb
  have hrun : onObjectStart (f + 1) l bt c = .ok () { c with unfolder := (stacksOf base fs).u.push (.mapKey k) } := by
    simp [onObjectStart, bind_def, currentU, hu, popU, pure_def]
  refine ⟨_, hrun, h.replace (F' := .mapK k t p) rfl rfl (fun _ _ _ hv => hv) h.wfs.1 ?_ rfl rfl rfl rfl⟩
  exact s6_mk _ _ rfl (by simp [hp, stacksOf, Frame.push]) (by simp [hv, stacksOf, Frame.push])
    (by simp [hk, stacksOf, Frame.push]) (by simp [hi, stacksOf, Frame.push]) (by simp [hb, stacksOf, Frame.push])

/-- a key -/
theorem key_mapK (k : PK) (t : GoType) (p : Path) (key : Bytes) (h : Inv tbl R D base (.mapK k t p :: fs) c) :
    ∃ c', onKey key c = .ok () c' ∧ Inv tbl R D base (.mapV k t p key :: fs) c' := by
  obtain ⟨hu, hp, hv, hk, hi, hb⟩ := s6_eq _ _ h.stacks
  simp only [stacksOf, Frame.push] at hu hp hv hk hi hb
  have hrun : onKey key c = .ok ()
      { c with key := c.key.push key, unfolder := { c.unfolder with current := .mapVal k } } := by
    simp [onKey, bind_def, currentU, hu, mapKeyOnKey, pushKey, setCurrentU, modifyCtx]
  refine ⟨_, hrun, h.replace (F' := .mapV k t p key) rfl rfl (fun _ _ _ hv => hv) h.wfs.1 ?_ rfl rfl rfl rfl⟩
  exact s6_mk _ _ (by simp [hu, stacksOf, Frame.push, Stk.push]) (by simp [hp, stacksOf, Frame.push])
    (by simp [hv, stacksOf, Frame.push]) (by simp [hk, stacksOf, Frame.push]) (by simp [hi, stacksOf, Frame.push])
    (by simp [hb, stacksOf, Frame.push])

/-- a value the kind converts: put -/
theorem scalar_mapV (k : PK) (t : GoType) (p : Path) (key : Bytes) (f : Nat) (s : Sc) (v : GoVal)
    (h : Inv tbl R D base (.mapV k t p key :: fs) c) (hc : k.conv s = some v) :
    ∃ c', onScalar (f + 1) s c = .ok () c' ∧ Inv tbl R D base (.mapK k t p :: fs) c' := by
  obtain ⟨hu, hp, hv, hk, hi, hb⟩ := s6_eq _ _ h.stacks
  simp only [stacksOf, Frame.push] at hu hp hv hk hi hb
  obtain ⟨m, hd, hok, _⟩ := h.top_deref
  obtain ⟨e, hun⟩ := h.wfs.1.2
  have hm : isMapVal m := hok.map_inv hun
  have hrun : onScalar (f + 1) s c = mapPut k v c := by
    simp [onScalar, bind_def, currentU, hu, hc, pukDeliver]
  rw [hrun, mapPut_at k v c p m _ key (by rw [hp]; rfl) hd hm hk]
  refine ⟨_, rfl, h.replace_store (F' := .mapK k t p) { c with key := (stacksOf base fs).k } rfl (putTo m key v)
    (hasTy_of_isMap hun (putTo_ok _ _ _ hm)) rfl rfl trivial h.wfs.1 ?_ rfl rfl rfl rfl⟩
  exact s6_mk _ _ (by simp [hu, stacksOf, Frame.push, Stk.push]) (by simp [hp, stacksOf, Frame.push])
    (by simp [hv, stacksOf, Frame.push]) (by simp [stacksOf, Frame.push]) (by simp [hi, stacksOf, Frame.push])
    (by simp [hb, stacksOf, Frame.push])

/-! ## the frames finish (before the parent is told) -/

theorem arrFin_arr (k : PK) (t : GoType) (p : Path) (i : Int) (h : Inv tbl R D base (.arr k t p i :: fs) c) :
    ∃ c', onArrayFinished c = .ok () c' ∧ Inv tbl R D base fs c' ∧
      c.unfolder.stack.length = c'.unfolder.stack.length + 1 := by
  obtain ⟨hu, hp, hv, hk, hi, hb⟩ := s6_eq _ _ h.stacks
  simp only [stacksOf, Frame.push] at hu hp hv hk hi hb
  have hrun : onArrayFinished c = .ok ()
      { c with unfolder := (stacksOf base fs).u, idx := (stacksOf base fs).i, ptr := (stacksOf base fs).p } := by
    simp [onArrayFinished, bind_def, currentU, hu, arrCleanup, popU, popIdx, hi, popPtr, hp, pure_def]
  refine ⟨_, hrun, h.pop (s6_mk _ _ rfl rfl (by simp [hv]) (by simp [hk]) rfl (by simp [hb])) rfl rfl rfl rfl, ?_⟩
  simp [hu, Stk.push]

theorem objFin_mapK (k : PK) (t : GoType) (p : Path) (h : Inv tbl R D base (.mapK k t p :: fs) c) :
    ∃ c', onObjectFinished c = .ok () c' ∧ Inv tbl R D base fs c' ∧
      c.unfolder.stack.length = c'.unfolder.stack.length + 1 := by
  obtain ⟨hu, hp, hv, hk, hi, hb⟩ := s6_eq _ _ h.stacks
  simp only [stacksOf, Frame.push] at hu hp hv hk hi hb
  have hrun : onObjectFinished c = .ok ()
      { c with unfolder := (stacksOf base fs).u, ptr := (stacksOf base fs).p } := by
    simp [onObjectFinished, bind_def, currentU, hu, mapKeyCleanup, popU, popPtr, hp, pure_def]
  refine ⟨_, hrun, h.pop (s6_mk _ _ rfl rfl (by simp [hv]) (by simp [hk]) (by simp [hi]) (by simp [hb])) rfl rfl rfl rfl,
    ?_⟩
  simp [hu, Stk.push]

end SF.Unf.Str
