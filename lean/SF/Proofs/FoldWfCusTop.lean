/-
  Property C09 with the gotype fold as PRODUCER, on the universe WITH CUSTOM CODE (`goodC reg` /
  `wtC reg`, SF/Proofs/CusUniv.lean: named types with `Fold` on the value / pointer receiver,
  registered fold functions, `IsZero()`, in every position — the universe of
  `Custom.fold_agrees`): the stream the fold mirror (`SF.Gotype.Fold.impl`) delivers is
  CONTRACT-CONFORMING (`WF1`, SF/Event.lean).  The statements of SF/Proofs/FoldWfTop.lean with
  `goodT` / `wt` replaced and `o.folders = reg` added:

    fold_ok_wf_custom            good type, typed value, healthy visitor:  result ok ⇒ WF1
                                 — no reference to the rules, NO condition on the order oracle, no
                                 depth condition on the value
    fold_wf_custom               … in particular whenever the rules give a value (hypotheses of
                                 `Custom.fold_agrees`), together with `AgreesWith`
    fold_fault_wf_prefix_custom, fold_fault_wf_prefix_rules_custom
                                 ANY fault index: what a failing visitor received is a PREFIX of that
                                 conforming stream
    run_ok_wf_custom             the statement behind them, for every typed folder (`FVc reg T f`)
    fold_ok_wf_extends           `Wf.fold_ok_wf` is the instance at `goodT` / `wt`

  WHY the universe suffices for the custom folders' OWN output: `wtC` contains `cusOK` (rule 2
  reads a value off the folder's events: `customValue … = .ok _`, which demands `WF1` of them) and
  `nilTop` (the same for a folder called with a nil pointer).  The custom code of the universe is
  the menagerie's (`customEvents`); `CusWfLeaf.custom_leafW` shows case by case that conforming
  custom events are the events of one conforming tree, contain no typed map (the order oracle
  leaves them alone), and that the `ExpectObjVisitor` of an `inline` field forwards conforming
  members of them or fails.  Without `cusOK` the statement is FALSE (`FOpen`, evaluated below).
  `o.folders = reg` is needed as in `Custom.fold_agrees`: the universe `goodC reg` depends on
  which types count as having a registered folder.

  FILES  CusWfLeaf  the leaves (`LeafW`), `ExpectObjVisitor` on a merely healthy visitor
         CusWfType  folder typing `FVc` / `FIc` / `FMc`; `compile_FVc`
         CusWfRun   `runWfC`: induction on the run fuel
-/
import SF.Proofs.CusWfRun
import SF.Proofs.FoldWfTop
import SF.Proofs.FoldCustomTop
namespace SF.FoldProofs.WfCus
open SF SF.Gotype SF.Gotype.Fold SF.Gotype.Rules SF.FoldProofs
open SF.FoldProofs.Custom (goodC wtC)
open SF.FoldProofs.Custom.WfC (FVc runWfC)

/-- every typed folder (custom leaves included), on a typed value, on a healthy user visitor in
any state: if the run returns ok, the events it delivered are (after expansion of the typed
arrays / maps) the events of ONE contract-conforming tree -/
theorem run_ok_wf_custom (o : FoldOpts) (reg : Bool) (hreg : o.folders = reg) (rf : Nat)
    {T : GoType} {f : ReFold} {v : GoVal} {s s' : St}
    (hf : FVc reg T f) (hw : wtC reg T v = true) (hs : s.failAt = none)
    (h : run rf o .user f ⟨T, v⟩ s = (s', .ok)) :
    ∃ xs, s'.evs = xs.reverse ++ s.evs ∧ WF1 (expandAll xs) = true := by
  obtain ⟨xs, hd, hv⟩ := (runWfC hreg rf).val T f v s s' hf hw hs h
  exact ⟨xs, hd.1, hv.wf1⟩

/-- MAIN THEOREM (good types with custom code).  For every type `T` of `goodC reg` of depth
≤ 499, every value `v` of type `T` (`wtC reg`), every option record with a healthy visitor (any
order oracle) whose user folders are registered iff the universe counts them (`o.folders = reg`):
if the fold returns ok, the stream it delivered is one contract-conforming document. -/
theorem fold_ok_wf_custom (o : FoldOpts) (reg : Bool) (hreg : o.folders = reg) (T : GoType) (v : GoVal)
    (hp : goodC reg [] T = true) (hdt : tdepth T ≤ dynBound) (hw : wtC reg T v = true)
    (hfail : o.failAt = none) (hok : (impl o T v).res = .ok) :
    WF1 (expandAll (impl o T v).evs) = true := by
  rw [impl_eq] at hok ⊢
  let i : GoVal := match T.under with | .iface => v | _ => .iface T v
  have hwi : wtC reg .iface i = true := by
    by_cases hT : T.under = .iface
    · have : i = v := by
        show (match T.under with | .iface => v | _ => .iface T v) = _
        rw [hT]
      rw [this]
      exact Custom.wt_iface_of_under hp hT hw
    · have : i = .iface T v := by
        show (match T.under with | .iface => v | _ => .iface T v) = _
        cases hU : T.under <;> first | rfl | exact absurd hU hT
      rw [this]
      exact Custom.wt_iface_mk hp hdt hw
  show WF1 (expandAll (foldInterfaceValue runFuel o .user i _).1.evs.reverse) = true
  have hok' : (foldInterfaceValue runFuel o .user i { failAt := o.failAt, hint := o.order }).2 = .ok := hok
  rcases hrun : foldInterfaceValue runFuel o .user i { failAt := o.failAt, hint := o.order } with ⟨s', r⟩
  rw [hrun] at hok'
  simp only [] at hok'
  subst hok'
  obtain ⟨xs, hd, hv⟩ := (runWfC hreg runFuel).fiv i { failAt := o.failAt, hint := o.order } s' hwi
    (show ({ failAt := o.failAt, hint := o.order } : St).failAt = none from hfail) hrun
  have : s'.evs.reverse = xs := by rw [hd.1]; simp
  simp only [this]
  exact hv.wf1

/-- C09 for the fold, in the form of `Custom.fold_agrees`: same universe, same side conditions.
When the rules give `r`, the stream the mirror delivers is one contract-conforming document
(and builds a value `Rules.agrees` accepts for `r`) -/
theorem fold_wf_custom (o : FoldOpts) (reg : Bool) (hreg : o.folders = reg) (T : GoType) (v : GoVal) (r : RVal)
    (hp : goodC reg [] T = true) (hdt : tdepth T ≤ dynBound) (hw : wtC reg T v = true)
    (hdv : 3 * vdepth v + 6 ≤ runFuel)
    (hfail : o.failAt = none) (hord : hintOK o.order)
    (hspec : Rules.foldR T v reg = .ok r) (hcost : rcost r ≤ 100000) :
    WF1 (expandAll (impl o T v).evs) = true ∧ AgreesWith (impl o T v) r := by
  have ha := Custom.fold_agrees o reg hreg T v r hp hdt hw hdv hfail hord hspec hcost
  exact ⟨fold_ok_wf_custom o reg hreg T v hp hdt hw hfail ha.1, ha⟩

/-- ANY fault index (good types with custom code): on a visitor failing at event `k`, what the
fold delivered is a PREFIX of the conforming stream it delivers to the healthy visitor; it gets
through (`ok`, the full stream) iff `k` is beyond the stream, else it returns the visitor's error
after exactly `k + 1` events.  Stated for every good type and typed value whose healthy fold
returns ok — in particular whenever the rules give a value (`…_rules_custom`). -/
theorem fold_fault_wf_prefix_custom (o : FoldOpts) (reg : Bool) (hreg : o.folders = reg) (T : GoType) (v : GoVal)
    (k : Nat)
    (hp : goodC reg [] T = true) (hdt : tdepth T ≤ dynBound) (hw : wtC reg T v = true)
    (hk : o.failAt = some k) (hok : (impl { o with failAt := none } T v).res = .ok) :
    ∃ full, WF1 (expandAll full) = true ∧ (impl o T v).evs <+: full ∧
      expandAll (impl o T v).evs <+: expandAll full ∧
      (full.length ≤ k → impl o T v = { evs := full, res := .ok }) ∧
      (k < full.length → (impl o T v).res = .err .injected ∧ (impl o T v).evs = full.take (k + 1)) := by
  have hwf := fold_ok_wf_custom { o with failAt := none } reg hreg T v hp hdt hw rfl hok
  have hpre := (Fault.fold_propagates_visitor_error o T v k hk).2
  have hiff := Fault.fold_fault_iff o T v k hk
  refine ⟨(impl { o with failAt := none } T v).evs, hwf, hpre, Wf.expandAll_prefix hpre, ?_, hiff.1⟩
  intro hle
  rw [hiff.2 hle]
  generalize impl { o with failAt := none } T v = out at hok ⊢
  cases out
  simp only [] at hok
  subst hok
  rfl

/-- … in the form of `Custom.fold_agrees`: whenever the rules give a value, whatever the fault
index -/
theorem fold_fault_wf_prefix_rules_custom (o : FoldOpts) (reg : Bool) (hreg : o.folders = reg) (T : GoType)
    (v : GoVal) (r : RVal) (k : Nat)
    (hp : goodC reg [] T = true) (hdt : tdepth T ≤ dynBound) (hw : wtC reg T v = true)
    (hdv : 3 * vdepth v + 6 ≤ runFuel)
    (hk : o.failAt = some k) (hord : hintOK o.order)
    (hspec : Rules.foldR T v reg = .ok r) (hcost : rcost r ≤ 100000) :
    ∃ full, WF1 (expandAll full) = true ∧ (impl o T v).evs <+: full ∧
      expandAll (impl o T v).evs <+: expandAll full ∧
      (full.length ≤ k → impl o T v = { evs := full, res := .ok }) ∧
      (k < full.length → (impl o T v).res = .err .injected ∧ (impl o T v).evs = full.take (k + 1)) :=
  fold_fault_wf_prefix_custom o reg hreg T v k hp hdt hw hk
    (Custom.fold_agrees { o with failAt := none } reg hreg T v r hp hdt hw hdv rfl hord hspec hcost).1

/-- the universe of `Wf.fold_ok_wf` is a sub-universe: its statement is the instance of
`fold_ok_wf_custom` at `goodT` / `wt` (whatever `o.folders`) -/
theorem fold_ok_wf_extends (o : FoldOpts) (T : GoType) (v : GoVal)
    (hp : goodT [] T = true) (hdt : tdepth T ≤ dynBound) (hw : wt T v = true)
    (hfail : o.failAt = none) (hok : (impl o T v).res = .ok) :
    WF1 (expandAll (impl o T v).evs) = true :=
  fold_ok_wf_custom o o.folders rfl T v (Custom.universe_extends o.folders T v hp hw).1 hdt
    (Custom.universe_extends o.folders T v hp hw).2 hfail hok

/-! ## non-vacuity -/

/- `struct{V FV; P *FP; Z ZV "n,omitempty"; I FV ",inline"}` (CusExamples): a custom folder on
the value receiver as a field (8 events, a by-reference key / string and a typed array among them),
one on the pointer receiver behind a pointer, an `omitempty` field whose type has `IsZero()`, and
the object of a custom folder INLINED through an `ExpectObjVisitor` (the typed array arrives
expanded).  The struct folder announces -1. -/
example : goodC true [] Custom.Examples.TC = true ∧ wtC true Custom.Examples.TC Custom.Examples.vC = true ∧
    (impl {} Custom.Examples.TC Custom.Examples.vC).res = .ok ∧
    WF1 (expandAll (impl {} Custom.Examples.TC Custom.Examples.vC).evs) = true := by
  have h := fold_wf_custom {} true rfl _ _ _ Custom.Examples.goodTC (by decide +kernel) (Custom.Examples.wtTC 0)
    (by decide +kernel) rfl hintOK_nil Custom.Examples.specC (by decide +kernel)
  exact ⟨Custom.Examples.goodTC, Custom.Examples.wtTC 0, h.2.1, h.1⟩

/- the prefix statement on the same value, visitor failing at event 5 (inside the events of the
custom folder of field `V`) -/
example : ∃ full, WF1 (expandAll full) = true ∧
    (impl { failAt := some 5 } Custom.Examples.TC Custom.Examples.vC).evs <+: full ∧
    (5 < full.length → (impl { failAt := some 5 } Custom.Examples.TC Custom.Examples.vC).res = .err .injected ∧
      (impl { failAt := some 5 } Custom.Examples.TC Custom.Examples.vC).evs = full.take 6) := by
  obtain ⟨full, h1, h2, _, _, h5⟩ := fold_fault_wf_prefix_rules_custom { failAt := some 5 } true rfl _ _ _ 5
    Custom.Examples.goodTC (by decide +kernel) (Custom.Examples.wtTC 0) (by decide +kernel) rfl hintOK_nil
    Custom.Examples.specC (by decide +kernel)
  exact ⟨full, h1, h2, h5⟩

/- instances the kernel evaluates outright (types whose compilation meets no struct tag — the
kernel cannot run `String.splitOn`): `[]interface{}{FS(3), FInts{1, 2}, (*UD)(&9), FMap(nil)}` —
custom folders on the value receiver and a registered fold function as dynamic types -/
example :
    let T : GoType := .slice .iface
    let v : GoVal := .slice [.iface Custom.Examples.FSt (.int 3),
      .iface Custom.Examples.FIntst (.slice [.int 1, .int 2]),
      .iface (.ptr Custom.Examples.UDt) (.ptr (.int 9)), .iface Custom.Examples.FMapt .nilMap]
    goodC true [] T = true ∧ wtC true T v = true ∧ (impl {} T v).res = .ok ∧
      (impl {} T v).evs.length = 6 ∧ WF1 (expandAll (impl {} T v).evs) = true := by
  decide +kernel

/- `map[string]*UD{"a": &9, "b": nil}` with an order oracle asking for "b" first; registered:
what `foldUD` emits (for nil: null); the visitor failing at event 3 receives a prefix -/
example :
    let T : GoType := .map .string (.ptr Custom.Examples.UDt)
    let v : GoVal := .map [(.str [97], .ptr (.int 9)), (.str [98], .nilPtr)]
    let o : FoldOpts := { order := [.ev (.objStart 2 0), .ev (.key [98])] }
    goodC true [] T = true ∧ wtC true T v = true ∧ (impl o T v).res = .ok ∧
      (impl o T v).evs.length = 6 ∧ WF1 (expandAll (impl o T v).evs) = true ∧
      (impl { o with failAt := some 3 } T v).res = .err .injected ∧
      (impl { o with failAt := some 3 } T v).evs = (impl o T v).evs.take 4 ∧
      WF1 (expandAll (impl { o with failAt := some 3 } T v).evs) = false := by
  decide +kernel

/-! ## the hypothesis on the custom folder's own output is necessary -/

/-- `cusOK` (part of `wtC`): the menagerie's `FOpen` (a `Fold` method that never closes its
object) is a TYPE of the universe, but its values are not typed — rule 2 reads no value off its
events — and for them the statement is false: the mirror forwards the three events and returns ok -/
example :
    goodC true [] Custom.Examples.FOpent = true ∧
      wtC true Custom.Examples.FOpent (.struct [.int 1]) = false ∧
      (impl {} Custom.Examples.FOpent (.struct [.int 1])).res = .ok ∧
      WF1 (expandAll (impl {} Custom.Examples.FOpent (.struct [.int 1])).evs) = false :=
  ⟨(Custom.Examples.good_menagerie true).2.2.2.2.2.2.1, by decide +kernel, by decide +kernel, by decide +kernel⟩

end SF.FoldProofs.WfCus
