/-
  The specification on good types with custom code, one level at a time (cf. FoldSpec), typed
  values (inversion of `wtC`) and following pointers (cf. FoldWalk).
-/
import SF.Proofs.FoldWalk
import SF.Proofs.CusCompile
import SF.Proofs.CusLeaf
namespace SF.FoldProofs.Custom
open SF SF.Gotype SF.Gotype.Fold SF.Gotype.Rules

variable {reg : Bool}

/-! ## `foldF` at the head -/

/-- a named type without custom folder folds as its underlying type -/
theorem foldF_under (m : Nat) {sn : List String} {T : GoType} (h : goodC reg sn T = true)
    (h1 : isC1 reg T = false) (v : GoVal) : foldF (m + 1) reg T v = foldF (m + 1) reg T.under v := by
  have h2 := (good_under h).2
  conv => lhs; unfold foldF
  conv => rhs; unfold foldF
  simp only [customOf_notC1 h1, customOf_unnamed reg h2, under_under h]

theorem foldF_under' (m : Nat) {sn : List String} {T : GoType} (h : goodC reg sn T = true)
    (h1 : isC1 reg T = false) (v : GoVal) : foldF m reg T v = foldF m reg T.under v := by
  cases m with
  | zero => rfl
  | succ m => exact foldF_under m h h1 v

/-- rule 2 -/
theorem foldF_c1 (m : Nat) {T : GoType} {n : String} {byPtr : Bool} (hc : customOf reg T = some (n, byPtr))
    (v : GoVal) : foldF (m + 1) reg T v = customValue n byPtr v := by
  unfold foldF
  simp only [hc]

/-- a pointer type has no custom folder of its own (Go allows no methods on it) -/
theorem notC1_of_under_ptr {sn : List String} {T e : GoType} (h : goodC reg sn T = true) (hu : T.under = .ptr e) :
    isC1 reg T = false := by
  cases h1 : isC1 reg T with
  | false => rfl
  | true =>
    obtain ⟨n, m, u, rfl, _, hk, _⟩ := c1_shape h h1
    simp only [GoType.under] at hu
    subst hu
    simp [badKind] at hk

theorem notC1_of_under_iface {sn : List String} {T : GoType} (h : goodC reg sn T = true) (hu : T.under = .iface) :
    isC1 reg T = false := by
  cases h1 : isC1 reg T with
  | false => rfl
  | true =>
    obtain ⟨n, m, u, rfl, _, hk, _⟩ := c1_shape h h1
    simp only [GoType.under] at hu
    subst hu
    simp [badKind] at hk

/-- a nil pointer the code and the rules both report as null -/
theorem foldF_ptr_nil_strict (m : Nat) {e : GoType} (h : nilTop reg true e = true) :
    foldF (m + 1) reg (.ptr e) .nilPtr = .ok .null := by
  rw [foldF_ptr_nil_eq]
  unfold nilTop at h
  cases hc : customOf reg e with
  | none => rfl
  | some p =>
    obtain ⟨n, b⟩ := p
    cases b with
    | false => rfl
    | true =>
      simp only [hc, if_true] at h
      simp only [nilNull_spec h]

/-- a nil pointer of a typed value always folds -/
theorem foldF_ptr_nil_ok (m : Nat) {e : GoType} {b : Bool} (h : nilTop reg b e = true) :
    ∃ r, foldF (m + 1) reg (.ptr e) .nilPtr = .ok r := by
  cases b with
  | true => exact ⟨_, foldF_ptr_nil_strict m h⟩
  | false =>
    rw [foldF_ptr_nil_eq]
    unfold nilTop at h
    cases hc : customOf reg e with
    | none => exact ⟨_, rfl⟩
    | some p =>
      obtain ⟨n, b⟩ := p
      cases b with
      | false => exact ⟨_, rfl⟩
      | true =>
        simp only [hc, Bool.false_eq_true, if_false] at h
        exact isOk_iff.mp h

/-! ## inversion of `wtC` -/

theorem wtC_eq (reg : Bool) (T : GoType) (v : GoVal) :
    wtC reg T v =
      (cusOK reg T v && zeroOK T v &&
      match T.under, v with
      | .bool, .bool _ => true
      | .string, .str _ => true
      | .int _, .int _ => true
      | .float32, .f32 _ => true
      | .float64, .f64 _ => true
      | .slice _, .nilSlice => true
      | .slice e, .slice xs => wtCL reg e xs
      | .array _ e, .array xs => wtCL reg e xs
      | .map _ _, .nilMap => true
      | .map k e, .map ms => wtCP reg k e ms && decide (mapKeys ms).Nodup
      | .ptr e, .nilPtr => nilTop reg T.isNamed e
      | .ptr e, .ptr x => wtC reg e x && nilIn reg e x
      | .iface, .nilIface => true
      | .iface, .iface dt dv => goodC reg [] dt && decide (tdepth dt ≤ dynBound) && wtC reg dt dv
      | .struct fs, .struct vs => wtCF reg fs vs
      | .chan _, _ => true
      | .other _, _ => true
      | _, _ => false) := by
  conv => lhs; unfold wtC
  rfl

theorem wtC_cus {T : GoType} {v : GoVal} (h : wtC reg T v = true) : cusOK reg T v = true := by
  rw [wtC_eq] at h
  simp only [Bool.and_eq_true] at h
  exact h.1.1

theorem wtC_zero {T : GoType} {v : GoVal} (h : wtC reg T v = true) : zeroOK T v = true := by
  rw [wtC_eq] at h
  simp only [Bool.and_eq_true] at h
  exact h.1.2

theorem wt_slice_inv {T e : GoType} {v : GoVal} (hu : T.under = .slice e) (h : wtC reg T v = true) :
    v = .nilSlice ∨ ∃ xs, v = .slice xs ∧ wtCL reg e xs = true := by
  rw [wtC_eq, hu] at h
  simp only [Bool.and_eq_true] at h
  replace h := h.2
  cases v <;> simp at h ⊢ <;> exact h

theorem wt_array_inv {T : GoType} {n : Nat} {e : GoType} {v : GoVal} (hu : T.under = .array n e)
    (h : wtC reg T v = true) : ∃ xs, v = .array xs ∧ wtCL reg e xs = true := by
  rw [wtC_eq, hu] at h
  simp only [Bool.and_eq_true] at h
  replace h := h.2
  cases v <;> simp at h ⊢ <;> exact h

theorem wt_map_inv {T k e : GoType} {v : GoVal} (hu : T.under = .map k e) (h : wtC reg T v = true) :
    v = .nilMap ∨ ∃ ms, v = .map ms ∧ wtCP reg k e ms = true ∧ (mapKeys ms).Nodup := by
  rw [wtC_eq, hu] at h
  simp only [Bool.and_eq_true] at h
  replace h := h.2
  cases v <;> simp at h ⊢ <;> exact h

theorem wt_ptr_inv' {T e : GoType} {v : GoVal} (hu : T.under = .ptr e) (h : wtC reg T v = true) :
    (v = .nilPtr ∧ nilTop reg T.isNamed e = true) ∨
    ∃ x, v = .ptr x ∧ wtC reg e x = true ∧ nilIn reg e x = true := by
  rw [wtC_eq, hu] at h
  simp only [Bool.and_eq_true] at h
  replace h := h.2
  cases v <;> simp at h ⊢ <;> exact h

theorem wt_ptr_inv {T e : GoType} {v : GoVal} (hu : T.under = .ptr e) (h : wtC reg T v = true) :
    v = .nilPtr ∨ ∃ x, v = .ptr x ∧ wtC reg e x = true := by
  rcases wt_ptr_inv' hu h with ⟨h1, _⟩ | ⟨x, h1, h2, _⟩
  · exact Or.inl h1
  · exact Or.inr ⟨x, h1, h2⟩

theorem wt_iface_inv {T : GoType} {v : GoVal} (hu : T.under = .iface) (h : wtC reg T v = true) :
    v = .nilIface ∨ ∃ dt dv, v = .iface dt dv ∧ goodC reg [] dt = true ∧ tdepth dt ≤ dynBound ∧
      wtC reg dt dv = true := by
  rw [wtC_eq, hu] at h
  simp only [Bool.and_eq_true] at h
  replace h := h.2
  cases v <;> simp at h ⊢
  rename_i t x
  exact ⟨t, x, ⟨rfl, rfl⟩, h.1.1, h.1.2, h.2⟩

theorem wt_struct_inv {T : GoType} {fs : List Field} {v : GoVal} (hu : T.under = .struct fs)
    (h : wtC reg T v = true) : ∃ vs, v = .struct vs ∧ wtCF reg fs vs = true := by
  rw [wtC_eq, hu] at h
  simp only [Bool.and_eq_true] at h
  replace h := h.2
  cases v <;> simp at h ⊢ <;> exact h

theorem wt_iface_mk {dt : GoType} {dv : GoVal} (hg : goodC reg [] dt = true) (hd : tdepth dt ≤ dynBound)
    (hw : wtC reg dt dv = true) : wtC reg .iface (.iface dt dv) = true := by
  rw [wtC_eq]
  simp [GoType.under, hg, hd, hw, cusOK, zeroOK, customOf, hasIsZero, GoType.whnf]

theorem wtL_mem {e : GoType} {xs : List GoVal} (h : wtCL reg e xs = true) {x : GoVal} (hx : x ∈ xs) :
    wtC reg e x = true := by
  induction xs with
  | nil => cases hx
  | cons a l ih =>
    simp only [wtCL, Bool.and_eq_true] at h
    rcases List.mem_cons.mp hx with rfl | hx'
    · exact h.1
    · exact ih h.2 hx'

theorem wtP_mem {k e : GoType} {ms : List (GoVal × GoVal)} (h : wtCP reg k e ms = true)
    {kx : GoVal × GoVal} (hx : kx ∈ ms) : wtC reg e kx.2 = true := by
  induction ms with
  | nil => cases hx
  | cons a l ih =>
    obtain ⟨ak, ax⟩ := a
    simp only [wtCP, Bool.and_eq_true] at h
    rcases List.mem_cons.mp hx with rfl | hx'
    · exact h.1.2
    · exact ih h.2 hx'

theorem wtF_length {fs : List Field} {vs : List GoVal} (h : wtCF reg fs vs = true) : fs.length = vs.length := by
  induction fs generalizing vs with
  | nil => cases vs <;> simp_all [wtCF]
  | cons f fs ih =>
    cases vs with
    | nil => simp [wtCF] at h
    | cons v vs =>
      simp only [wtCF, Bool.and_eq_true] at h
      simp [ih h.2]

/-- the shape of a typed value does not depend on the name of its type -/
theorem wt_under_shape {sn : List String} {T : GoType} (hg : goodC reg sn T = true) {v : GoVal}
    (h : wtC reg T v = true) (hnp : ∀ e, T.under ≠ .ptr e) : wtC reg T.under v = true := by
  rw [wtC_eq] at h ⊢
  simp only [Bool.and_eq_true] at h ⊢
  have hu := (good_under hg).2
  refine ⟨⟨by simp [cusOK, customOf_unnamed reg hu], by simp [zeroOK, hasIsZero_unnamed hu]⟩, ?_⟩
  rw [under_under hg]
  have h2 := h.2
  generalize T.under = U at h2 hnp ⊢
  cases U <;> first | (exact absurd rfl (hnp _)) | (cases v <;> exact h2)

/-! ## following pointers -/

theorem good_elem_of_ptr {sn : List String} {T e : GoType} (hg : goodC reg sn T = true) (hu : T.under = .ptr e) :
    goodC reg (snU sn T) e = true := by
  have := (good_under hg).1
  rw [hu] at this
  simpa [goodC] using this

/-- induction along the pointer chain of a good type -/
theorem strip_induction (P : List String → GoType → Prop)
    (base : ∀ sn T, goodC reg sn T = true → (∀ e, T.under ≠ .ptr e) → stripPtr T = (0, T) → P sn T)
    (step : ∀ sn T e, goodC reg sn T = true → T.under = .ptr e → goodC reg (snU sn T) e = true →
      stripPtr T = ((stripPtr e).1 + 1, (stripPtr e).2) → P (snU sn T) e → P sn T) :
    ∀ sn T, goodC reg sn T = true → P sn T := by
  have key : ∀ n sn T, goodC reg sn T = true → (stripPtr T).1 = n → P sn T := by
    intro n
    induction n with
    | zero =>
      intro sn T hg h0
      by_cases hp : ∃ e, T.under = .ptr e
      · obtain ⟨e, he⟩ := hp
        rw [stripPtr_of_under_ptr he (headKind hg)] at h0
        simp at h0
      · have hnp : ∀ e, T.under ≠ .ptr e := fun e he => hp ⟨e, he⟩
        exact base sn T hg hnp (stripPtr_of_under_nonptr hg hnp)
    | succ n ih =>
      intro sn T hg hn
      by_cases hp : ∃ e, T.under = .ptr e
      · obtain ⟨e, he⟩ := hp
        have hs := stripPtr_of_under_ptr he (headKind hg)
        have hge := good_elem_of_ptr hg he
        rw [hs] at hn
        exact step sn T e hg he hge hs (ih _ e hge (by simpa using hn))
      · have hnp : ∀ e, T.under ≠ .ptr e := fun e he => hp ⟨e, he⟩
        rw [stripPtr_of_under_nonptr hg hnp] at hn
        simp at hn
  intro sn T hg
  exact key _ sn T hg rfl

theorem ptrWalk_good : ∀ (sn : List String) (T : GoType), goodC reg sn T = true → ∀ v, wtC reg T v = true →
    ptrWalk (stripPtr T).1 ⟨T, v⟩ =
      match deref (stripPtr T).1 v with
      | none => .nil
      | some x => .val ⟨(stripPtr T).2, x⟩ := by
  refine strip_induction _ ?_ ?_
  · intro sn T _ _ hs v _
    rw [hs]; rfl
  · intro sn T e _ hu _ hs ih v hw
    rw [hs]
    rcases wt_ptr_inv hu hw with rfl | ⟨x, rfl, hx⟩
    · rfl
    · simp only [deref, ptrWalk_succ_ptr _ x hu]
      exact ih x hx

theorem deref_wt : ∀ (sn : List String) (T : GoType), goodC reg sn T = true → ∀ v x, wtC reg T v = true →
    deref (stripPtr T).1 v = some x →
    wtC reg (stripPtr T).2 x = true ∧ vdepth x + (stripPtr T).1 = vdepth v := by
  refine strip_induction _ ?_ ?_
  · intro sn T _ _ hs v x hw hd
    rw [hs] at hd ⊢
    simp only [deref, Option.some.injEq] at hd
    subst hd
    exact ⟨hw, rfl⟩
  · intro sn T e _ hu _ hs ih v x hw hd
    rw [hs] at hd ⊢
    rcases wt_ptr_inv hu hw with rfl | ⟨y, rfl, hy⟩
    · simp [deref] at hd
    · simp only [deref] at hd
      obtain ⟨h1, h2⟩ := ih y x hy hd
      exact ⟨h1, by rw [vdepth_ptr]; simp only []; omega⟩

/-- a nil pointer the rules report as null: always so behind another pointer (`nilIn`, part of
`wtC`); at the outermost pointer type this is the hypothesis -/
def StrictNil (reg : Bool) (T : GoType) (v : GoVal) : Prop :=
  v = .nilPtr → ∀ e, T.under = .ptr e → nilTop reg true e = true

theorem strictNil_of_nilIn {e : GoType} {x : GoVal} (h : nilIn reg e x = true) : StrictNil reg e x := by
  intro hx e' he'
  subst hx
  unfold nilIn at h
  rw [he'] at h
  exact h

/-- the specification follows pointers: nil ↦ null, else the value of the target -/
theorem foldF_deref : ∀ (sn : List String) (T : GoType), goodC reg sn T = true →
    ∀ v m r, wtC reg T v = true → StrictNil reg T v → foldF m reg T v = .ok r →
    match deref (stripPtr T).1 v with
    | none => r = .null
    | some x => ∃ m', foldF m' reg (stripPtr T).2 x = .ok r := by
  refine strip_induction _ ?_ ?_
  · intro sn T _ _ hs v m r _ _ h
    rw [hs]
    exact ⟨m, h⟩
  · intro sn T e hg hu hge hs ih v m r hw hnil h
    rw [hs]
    cases m with
    | zero => simp [foldF] at h
    | succ m =>
      rw [foldF_under m hg (notC1_of_under_ptr hg hu), hu] at h
      rcases wt_ptr_inv' hu hw with ⟨rfl, _⟩ | ⟨y, rfl, hy, hin⟩
      · rw [foldF_ptr_nil_strict m (hnil rfl e hu)] at h
        cases h
        rfl
      · rw [foldF_ptr] at h
        simp only [deref]
        exact ih y m r hy (strictNil_of_nilIn hin) h

/-- the same, when no pointer on the way is nil (no condition on nil pointers) -/
theorem foldF_deref_some : ∀ (sn : List String) (T : GoType), goodC reg sn T = true →
    ∀ v m r x, wtC reg T v = true → deref (stripPtr T).1 v = some x → foldF m reg T v = .ok r →
    ∃ m', foldF m' reg (stripPtr T).2 x = .ok r := by
  refine strip_induction _ ?_ ?_
  · intro sn T _ _ hs v m r x _ hd h
    rw [hs] at hd ⊢
    simp only [deref, Option.some.injEq] at hd
    subst hd
    exact ⟨m, h⟩
  · intro sn T e hg hu hge hs ih v m r x hw hd h
    rw [hs] at hd ⊢
    cases m with
    | zero => simp [foldF] at h
    | succ m =>
      rw [foldF_under m hg (notC1_of_under_ptr hg hu), hu] at h
      rcases wt_ptr_inv hu hw with rfl | ⟨y, rfl, hy⟩
      · simp [deref] at hd
      · rw [foldF_ptr] at h
        simp only [deref] at hd
        exact ih y m r x hy hd h

end SF.FoldProofs.Custom
