/-
  C04, converse direction, token level: what `reportNumber`, `scanNumber`, `scanString`,
  `hasPrefix` and `trimLeft` ACCEPT (inversion lemmas), and the `Reads` lemmas of
  SF/Proofs/JsonRefineStep.lean for the parser's own reading of the tokens (`numEvL`,
  `strValL`, white space `allSp`).
-/
import SF.Proofs.JsonConvGrammar
import SF.Proofs.JsonRefineStep
set_option linter.unusedSimpArgs false
set_option linter.unusedVariables false
namespace SF.Json.ParseP
open SF SF.Json SF.Json.Parse SF.Json.Float SF.Json.Grammar

/-! ## white space -/

theorem runA_skipL (p : P) (ws w : Bytes) (hinv : Inv p) (ht : trims p.currentState = true)
    (hws : allSp ws = true) : runA p (ws ++ w) = runA p w := by
  induction ws with
  | nil => rfl
  | cons a ws ih =>
    simp only [allSp, List.all_cons, Bool.and_eq_true] at hws
    rw [List.cons_append, runA_skip1 p a _ hinv ht hws.1]
    exact ih hws.2

theorem reads_wsL {p : P} {ws w : Bytes} {es : List Ev} {Q : P → Prop} {F : Bytes → Prop} (hinv : Inv p)
    (ht : trims p.currentState = true) (hws : allSp ws = true) (h : Reads p w es Q F) :
    Reads p (ws ++ w) es Q F := by
  intro more hm
  rw [List.append_assoc, runA_skipL p ws _ hinv ht hws]
  exact h more hm

theorem allSp_append {a b : Bytes} : allSp (a ++ b) = (allSp a && allSp b) := by
  simp [allSp, List.all_append]

theorem allSp_cons {a : UInt8} {b : Bytes} : allSp (a :: b) = (Utf8.isSpaceByte a && allSp b) := by
  simp [allSp]

/-- white space in front of a byte that is none is empty -/
theorem allSp_nil_of_head {ws w : Bytes} {x : UInt8} {t : Bytes} (hws : allSp ws = true)
    (hx : Utf8.isSpaceByte x = false) (h : ws ++ w = x :: t) : ws = [] := by
  cases ws with
  | nil => rfl
  | cons a ws' =>
    simp only [List.cons_append, List.cons.injEq] at h
    simp only [allSp_cons, Bool.and_eq_true] at hws
    rw [h.1, hx] at hws; simp at hws

/-! ## literals -/

theorem hasPrefix_iff (b s : Bytes) : hasPrefix b s = true ↔ ∃ more, b = s ++ more := by
  induction s generalizing b with
  | nil => exact ⟨fun _ => ⟨b, rfl⟩, fun _ => hasPrefix_nil b⟩
  | cons x s ih =>
    cases b with
    | nil => simp [hasPrefix]
    | cons a rest =>
      rw [hasPrefix_cons]
      simp only [Bool.and_eq_true, beq_iff_eq, List.cons_append, List.cons.injEq]
      constructor
      · rintro ⟨rfl, h⟩
        obtain ⟨more, rfl⟩ := (ih rest).mp h
        exact ⟨more, rfl, rfl⟩
      · rintro ⟨more, rfl, rfl⟩
        exact ⟨rfl, (ih _).mpr ⟨more, rfl⟩⟩

/-! ## numbers: what `reportNumber` accepts -/

theorem go_nondigit (ds : Bytes) (n : Nat) (h : ds.all Parse.isDigit = false) :
    ∃ e, parseUint.go (maxUint64 / 10 + 1) n ds = .error e := by
  induction ds generalizing n with
  | nil => simp at h
  | cons c rest ih =>
    simp only [parseUint.go]
    by_cases hc : Parse.isDigit c = true
    · simp only [hc, Bool.not_true, Bool.false_eq_true, if_false]
      split
      · exact ⟨_, rfl⟩
      · split
        · exact ⟨_, rfl⟩
        · apply ih
          simpa [hc] using h
    · have hc' : Parse.isDigit c = false := by simpa using hc
      simp only [hc', Bool.not_false, if_true]
      exact ⟨_, rfl⟩

/-- `parseUint`: the exact value of a non-empty digit string that fits, an error otherwise -/
theorem parseUint_spec (ds : Bytes) :
    (((!ds.isEmpty && ds.all Parse.isDigit) = true ∧
      parseUint ds = (if digitsVal ds ≤ maxUint64 then .ok (digitsVal ds) else .error .numberOverflow)) ∨
    ((!ds.isEmpty && ds.all Parse.isDigit) = false ∧ ∃ e, parseUint ds = .error e)) := by
  cases hd : (!ds.isEmpty && ds.all Parse.isDigit) with
  | true =>
    left
    simp only [Bool.and_eq_true, Bool.not_eq_true', List.isEmpty_eq_false_iff] at hd
    exact ⟨rfl, parseUint_exact ds hd.1 hd.2⟩
  | false =>
    right
    refine ⟨rfl, ?_⟩
    unfold parseUint
    cases ds with
    | nil => exact ⟨_, rfl⟩
    | cons c t =>
      simp only [List.isEmpty_cons, Bool.not_false, Bool.true_and] at hd
      simp only [List.isEmpty_cons, Bool.false_eq_true, if_false]
      exact go_nondigit _ 0 hd

/-- sign and magnitude: `parseInt` and `intPartsL` split the token in the same way -/
theorem parseInt_shape (tok : Bytes) (hne : tok ≠ []) :
    ∃ (neg : Bool) (ds : Bytes),
      parseInt tok = (match parseUint ds with
        | .error e => .error e
        | .ok u => if neg && u > maxInt64 + 1 then .error .numberOverflow else .ok (neg, u)) ∧
      intPartsL tok = (if !ds.isEmpty && ds.all Parse.isDigit then some (neg, ds) else none) := by
  cases tok with
  | nil => exact absurd rfl hne
  | cons c rest =>
    by_cases h1 : (c == ch '+') = true
    · exact ⟨false, rest, by simp only [parseInt, h1, if_true]; rfl, by simp only [intPartsL, h1, if_true]⟩
    · have h1' : (c == ch '+') = false := by simpa using h1
      by_cases h2 : (c == ch '-') = true
      · exact ⟨true, rest, by simp only [parseInt, h1', h2, if_true, Bool.false_eq_true, if_false]; rfl,
          by simp only [intPartsL, h1', h2, if_true, Bool.false_eq_true, if_false]⟩
      · have h2' : (c == ch '-') = false := by simpa using h2
        exact ⟨false, c :: rest, by simp only [parseInt, h1', h2', Bool.false_eq_true, if_false]; rfl,
          by simp only [intPartsL, h1', h2', Bool.false_eq_true, if_false]⟩

/-- INTEGER TOKENS, both directions: `reportNumber` is the visitor call for the event the
token denotes for the parser, and an error if it denotes none -/
theorem reportNumber_int (p : P) (tok : Bytes) (hne : tok ≠ []) :
    match intEvOf tok with
    | some ev => reportNumber p tok false = visit p ev
    | none => ∃ e, reportNumber p tok false = (p, some e) := by
  obtain ⟨neg, ds, h1, h2⟩ := parseInt_shape tok hne
  simp only [reportNumber, Bool.false_eq_true, if_false, h1, h2, intEvOf]
  rcases parseUint_spec ds with ⟨hd, hu⟩ | ⟨hd, e, hu⟩
  · simp only [hd, if_true, hu]
    unfold intEv
    simp only [maxUint64, maxInt64]
    cases neg with
    | true =>
      simp only [if_true, Bool.true_and]
      by_cases k1 : digitsVal ds ≤ 9223372036854775808
      · have k2 : digitsVal ds ≤ 18446744073709551615 := by omega
        have k3 : ¬ (digitsVal ds > 9223372036854775807 + 1) := by omega
        simp [k1, k2, k3]
      · by_cases k2 : digitsVal ds ≤ 18446744073709551615
        · have k3 : digitsVal ds > 9223372036854775807 + 1 := by omega
          simp [k1, k2, k3]
        · simp [k1, k2]
    | false =>
      simp only [Bool.false_eq_true, if_false, Bool.false_and]
      by_cases k2 : digitsVal ds ≤ 18446744073709551615
      · by_cases k1 : digitsVal ds ≤ 9223372036854775807
        · have : ¬ (digitsVal ds > 9223372036854775807) := by omega
          simp [k1, k2, this]
        · have : digitsVal ds > 9223372036854775807 := by omega
          simp [k1, k2, this]
      · have k1 : ¬ (digitsVal ds ≤ 9223372036854775807) := by omega
        simp [k1, k2]
  · simp only [hd, Bool.false_eq_true, if_false, hu]
    exact ⟨_, rfl⟩

/-- NUMBERS: on every token that denotes for the parser, `reportNumber` is the visitor call
for that event -/
theorem reportNumber_numEvL (p : P) (tok : Bytes) (hne : tok ≠ []) (ev : Ev) (h : numEvL tok = some ev) :
    reportNumber p tok (isDblTok tok) = visit p ev := by
  unfold numEvL at h
  cases hd : isDblTok tok with
  | true =>
    simp only [hd, if_true] at h
    simp only [reportNumber, if_true]
    cases hp : parseFloat tok with
    | ok bits => rw [hp] at h; simp only [Option.some.injEq] at h; subst h; rfl
    | syntaxErr => rw [hp] at h; simp at h
    | rangeErr b => rw [hp] at h; simp at h
    | unmodelled => rw [hp] at h; simp at h
  | false =>
    simp only [hd, Bool.false_eq_true, if_false] at h
    have := reportNumber_int p tok hne
    rw [h] at this
    exact this

/-- … and on every other token it is an error -/
theorem reportNumber_numEvL_none (p : P) (tok : Bytes) (hne : tok ≠ []) (h : numEvL tok = none) :
    ∃ e, reportNumber p tok (isDblTok tok) = (p, some e) := by
  unfold numEvL at h
  cases hd : isDblTok tok with
  | true =>
    simp only [hd, if_true] at h
    simp only [reportNumber, if_true]
    cases hp : parseFloat tok with
    | ok bits => rw [hp] at h; simp at h
    | syntaxErr => exact ⟨_, rfl⟩
    | rangeErr b => exact ⟨_, rfl⟩
    | unmodelled => exact ⟨_, rfl⟩
  | false =>
    simp only [hd, Bool.false_eq_true, if_false] at h
    have := reportNumber_int p tok hne
    rw [h] at this
    exact this

/-! ## numbers: the scan -/

theorem scan_not_done (z : Bytes) (d : Bool) (h : (scanNumber z d).2.2.1 = false) :
    z.all (fun x => !isStopChar x) = true := by
  induction z generalizing d with
  | nil => rfl
  | cons c z ih =>
    simp only [scanNumber] at h
    by_cases hc : isStopChar c = true
    · simp [hc] at h
    · have hc' : isStopChar c = false := by simpa using hc
      simp only [hc', Bool.false_eq_true, if_false] at h
      simp only [List.all_cons, hc', Bool.not_false, Bool.true_and]
      exact ih _ h

theorem scan_done (z : Bytes) (d : Bool) (h : (scanNumber z d).2.2.1 = true) :
    ∃ tok c t, z = tok ++ c :: t ∧ tok.all (fun x => !isStopChar x) = true ∧ isStopChar c = true := by
  induction z generalizing d with
  | nil => simp [scanNumber] at h
  | cons c z ih =>
    by_cases hc : isStopChar c = true
    · exact ⟨[], c, z, rfl, rfl, hc⟩
    · have hc' : isStopChar c = false := by simpa using hc
      simp only [scanNumber, hc', Bool.false_eq_true, if_false] at h
      obtain ⟨tok, c', t, rfl, h1, h2⟩ := ih _ h
      exact ⟨c :: tok, c', t, rfl, by simp [hc', h1], h2⟩

/-- the bytes from a number's first byte on: all of them belong to the token (the input ends
inside it), or the token is followed by a stop character -/
theorem num_split (a : UInt8) (tl : Bytes)
    (ha : (a == ch '-' || a == ch '+' || a == ch '.' || Parse.isDigit a) = true) :
    tokOk (a :: tl) = true ∨
    ∃ tok c t, a :: tl = tok ++ c :: t ∧ tokOk tok = true ∧ isStopChar c = true := by
  cases hd : (scanNumber (a :: tl) false).2.2.1 with
  | false =>
    left
    simp only [tokOk, ha, Bool.true_and]
    exact scan_not_done _ _ hd
  | true =>
    right
    obtain ⟨tok, c, t, h1, h2, h3⟩ := scan_done _ _ hd
    refine ⟨tok, c, t, h1, ?_, h3⟩
    cases tok with
    | nil =>
      simp only [List.nil_append, List.cons.injEq] at h1
      have := (numStart_not_stop a ha)
      rw [h1.1] at this; rw [this] at h3; cases h3
    | cons x tok' =>
      simp only [List.cons_append, List.cons.injEq] at h1
      simp only [tokOk, ← h1.1, ha, Bool.true_and]
      rw [h1.1]; exact h2

/-! ## strings: the scan -/

theorem chv_quote : ch '"' = 0x22 := by decide
theorem chv_bslash : ch '\\' = 0x5c := by decide

/-- the closing quote `scanString` finds: the bytes before it are a string body -/
theorem scanString_split (buf : Bytes) (esc : Bool) (k i : Nat) (h : (scanString buf esc k).1 = some i) :
    ∃ raw more, buf = raw ++ 0x22 :: more ∧ scanString raw esc k = (none, false) := by
  induction buf generalizing esc k with
  | nil => simp [scanString] at h
  | cons c rest ih =>
    simp only [scanString] at h
    by_cases he : esc = true
    · subst he
      simp only [if_true] at h
      obtain ⟨raw, more, rfl, h2⟩ := ih _ _ h
      exact ⟨c :: raw, more, rfl, by simp only [scanString, if_true]; exact h2⟩
    · have he' : esc = false := by simpa using he
      subst he'
      simp only [Bool.false_eq_true, if_false] at h
      by_cases hq : (c == ch '"') = true
      · have : c = 0x22 := by rw [← chv_quote]; simpa using hq
        subst this
        exact ⟨[], rest, rfl, rfl⟩
      · have hq' : (c == ch '"') = false := by simpa using hq
        simp only [hq', Bool.false_eq_true, if_false] at h
        by_cases hb : (c == ch '\\') = true
        · simp only [hb, if_true] at h
          obtain ⟨raw, more, rfl, h2⟩ := ih _ _ h
          exact ⟨c :: raw, more, rfl, by
            simp only [scanString, Bool.false_eq_true, if_false, hq', hb, if_true]; exact h2⟩
        · have hb' : (c == ch '\\') = false := by simpa using hb
          simp only [hb', Bool.false_eq_true, if_false] at h
          obtain ⟨raw, more, rfl, h2⟩ := ih _ _ h
          exact ⟨c :: raw, more, rfl, by
            simp only [scanString, Bool.false_eq_true, if_false, hq', hb']; exact h2⟩

/-- the bytes behind an opening quote: no closing quote among them, or a body and the
closing quote -/
theorem str_split (tl : Bytes) :
    (scanString tl false 0).1 = none ∨ ∃ raw more, tl = raw ++ 0x22 :: more ∧ bodyOk raw = true := by
  cases h : (scanString tl false 0).1 with
  | none => exact Or.inl rfl
  | some i =>
    right
    obtain ⟨raw, more, h1, h2⟩ := scanString_split tl false 0 i h
    exact ⟨raw, more, h1, by simp [bodyOk, h2]⟩

/-! ## `Reads` for the parser's own reading of the tokens -/

theorem reads_strL {p : P} {r : St} {S : List St} (h : ReadyN p r S) (raw s : Bytes) (hb : bodyOk raw = true)
    (hs : unquote raw = .ok s) :
    Reads p (0x22 :: (raw ++ [0x22])) [.str s] (fun q => AtN q r S) anyF := by
  obtain ⟨c0, hat, _, _⟩ := h.1.at
  have hpush := pushState_ret { p with literalBuffer := [] } r .stringState (isRet_pushOk h.1.1)
  simp only at hpush
  apply reads_of_step p _ (by simp) _ _ _ hat.wf
  intro more _
  have e1 := stepValue_quote p r (raw ++ 0x22 :: more)
  rw [hpush] at e1
  unfold stepString at e1
  rw [doString_body _ rfl rfl raw more hb, hs] at e1
  simp only [Bool.true_and, Option.isNone_none, if_true] at e1
  rw [popState_cons _ r p.states rfl, visit_none _ _ (by exact h.2)] at e1
  have e0 : (0x22 :: (raw ++ [0x22]) ++ more : Bytes) = 0x22 :: (raw ++ 0x22 :: more) := by simp
  rw [e0]
  obtain ⟨rep, he⟩ := h.1.step _ _ _ _ _ e1
  exact ⟨_, rep, he, rfl, fun hq => ⟨⟨hq, ⟨rfl, rfl⟩, rfl, hat.st⟩, h.2⟩⟩

theorem reads_keyL {p : P} {S : List St} (h : AtN p .dictFieldState S) (key k : Bytes) (hb : bodyOk key = true)
    (hs : unquote key = .ok k) :
    Reads p (0x22 :: (key ++ [0x22])) [.key k] (fun q => AtN q .dictFieldValueSep S) anyF := by
  have hE : ∀ b, execStep p b = (stepDictKey p b, false) := by
    intro b; unfold execStep; rw [h.1.cs]
  apply reads_of_step p _ (by simp) _ _ _ h.1.wf
  intro more _
  have e0 : (0x22 :: (key ++ [0x22]) ++ more : Bytes) = 0x22 :: (key ++ 0x22 :: more) := by simp
  rw [e0, hE]
  unfold stepDictKey
  rw [doString_body p h.1.clean.1 h.1.clean.2 key more hb, hs]
  simp only [Bool.true_and, Option.isNone_none, if_true]
  rw [visit_none _ _ (by exact h.2)]
  exact ⟨_, _, rfl, rfl, fun hq => ⟨⟨hq, ⟨h.1.clean.1, rfl⟩, rfl, h.1.st⟩, h.2⟩⟩

/-- the parser inside a number token, about to convert it -/
def numP (p : P) (r : St) (tok : Bytes) : P :=
  { p with currentState := .numberState, states := r :: p.states, isDouble := isDblTok tok, literalBuffer := [] }

/-- the step that reads a number followed by a stop character -/
theorem stepValue_num_stop {p : P} {r : St} {S : List St} (h : ReadyN p r S) (tok : Bytes) (hb : tokOk tok = true)
    (c : UInt8) (t : Bytes) (hc : isStopChar c = true) :
    stepValue p (tok ++ c :: t) r =
      { p := popState (reportNumber (numP p r tok) tok (isDblTok tok)).1, rest := c :: t, reported := true,
        err := (reportNumber (numP p r tok) tok (isDblTok tok)).2 } := by
  unfold numP
  cases tok with
  | nil => simp [tokOk] at hb
  | cons a tl =>
    simp only [tokOk, Bool.and_eq_true] at hb
    obtain ⟨ha, hall⟩ := hb
    have hpush := pushState_ret { p with isDouble := false, literalBuffer := [] } r .numberState (isRet_pushOk h.1.1)
    simp only at hpush
    obtain ⟨k1, k2, k3⟩ := scan_tok_stop (a :: tl) c t false hall hc
    have k4 := scan_dbl_stop (a :: tl) c t false hall hc
    have e1 := stepValue_num p r a (tl ++ c :: t) ha
    rw [hpush, stepNumber_done _ _ k3] at e1
    simp only [List.cons_append] at k1 k2 k4 e1 ⊢
    simp only [k1, k2, k4, List.nil_append, Bool.false_or] at e1
    exact e1

theorem reads_numL {p : P} {r : St} {S : List St} (h : ReadyN p r S) (tok : Bytes) (hb : tokOk tok = true) (ev : Ev)
    (hev : numEvL tok = some ev) : Reads p tok [ev] (fun q => AtN q r S) stopF := by
  obtain ⟨c0, hat, _, _⟩ := h.1.at
  have hne : tok ≠ [] := by intro hc; subst hc; simp [tokOk] at hb
  apply reads_of_step p _ hne _ _ _ hat.wf
  intro more hm
  obtain ⟨c, t, rfl, hc⟩ := hm
  have e1 := stepValue_num_stop h tok hb c t hc
  rw [reportNumber_numEvL _ tok hne ev hev, visit_none _ _ (by exact h.2), popState_cons _ r p.states rfl] at e1
  obtain ⟨rep, he⟩ := h.1.step _ _ _ _ _ e1
  exact ⟨_, rep, he, rfl, fun hq => ⟨⟨hq, ⟨rfl, hat.clean.2⟩, rfl, hat.st⟩, h.2⟩⟩

/-! ## the errors -/

theorem errs_of_step (p : P) (b : Bytes) (hb : b ≠ []) (hinv : Inv p) (h : (execStep p b).1.err ≠ none) :
    Errs (runA p b) := by
  rw [runA_step p b hb hinv]
  cases he : (execStep p b).1.err with
  | none => exact absurd he h
  | some e => simp [Errs]

theorem not_errs {p q : P} {b : Bytes} (h : runA p b = (q, none)) : ¬ Errs (runA p b) := by
  rw [h]; simp [Errs]

/-- a value-reading state: an error of `stepValue` is an error of the run -/
theorem errs_of_stepValue {p : P} {r : St} {S : List St} (h : ReadyN p r S) (b : Bytes) (hb : b ≠ [])
    (he : (stepValue p b r).err ≠ none) : Errs (runA p b) := by
  obtain ⟨c0, hat, hE, _⟩ := h.1.at
  apply errs_of_step p b hb hat.wf.inv
  rcases hE b with h1 | h1 <;> rw [h1] <;> exact he

/-- a number token that does not denote is an error -/
theorem errs_num {p : P} {r : St} {S : List St} (h : ReadyN p r S) (tok : Bytes) (hb : tokOk tok = true)
    (hev : numEvL tok = none) (c : UInt8) (t : Bytes) (hc : isStopChar c = true) :
    Errs (runA p (tok ++ c :: t)) := by
  have hne : tok ≠ [] := by intro hc; subst hc; simp [tokOk] at hb
  apply errs_of_stepValue h _ (by simp)
  rw [stepValue_num_stop h tok hb c t hc]
  obtain ⟨e, he⟩ := reportNumber_numEvL_none (numP p r tok) tok hne hev
  rw [he]; simp

/-- a string token whose body does not unquote is an error -/
theorem errs_str {p : P} {r : St} {S : List St} (h : ReadyN p r S) (raw more : Bytes) (hb : bodyOk raw = true)
    (e : Err) (hs : unquote raw = .error e) : Errs (runA p (0x22 :: (raw ++ 0x22 :: more))) := by
  apply errs_of_stepValue h _ (by simp)
  have hpush := pushState_ret { p with literalBuffer := [] } r .stringState (isRet_pushOk h.1.1)
  simp only at hpush
  rw [stepValue_quote p r (raw ++ 0x22 :: more), hpush]
  unfold stepString
  rw [doString_body _ rfl rfl raw more hb, hs]
  simp

theorem errs_key {p : P} {S : List St} (h : AtN p .dictFieldState S) (key more : Bytes) (hb : bodyOk key = true)
    (e : Err) (hs : unquote key = .error e) : Errs (runA p (0x22 :: (key ++ 0x22 :: more))) := by
  apply errs_of_step p _ (by simp) h.1.wf.inv
  have hE : ∀ b, execStep p b = (stepDictKey p b, false) := by
    intro b; unfold execStep; rw [h.1.cs]
  rw [hE]
  unfold stepDictKey
  rw [doString_body p h.1.clean.1 h.1.clean.2 key more hb, hs]
  simp

end SF.Json.ParseP
