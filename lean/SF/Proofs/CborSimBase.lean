/-
  The relation between a parser state and a ghost context (SF/Proofs/CborCtx.lean), how
  the parser's elementary operations act on it, and the simulation of `onValue` (closing of
  full definite containers) by `complete`.
-/
import SF.Proofs.CborCtx
import SF.Proofs.CborNoPanic
set_option linter.unusedSimpArgs false
namespace SF.Cbor.Sim
open SF SF.Cbor SF.Cbor.Cst SF.Cbor.Parse

/-- state stack (current first), length stack (current first) and buffer of `p` -/
structure RelL (p : P) (S : List St) (L : List Int) (B : Bytes) : Prop where
  st : p.state.current :: p.state.stack = S
  ln : p.length.current :: p.length.stack = L
  buf : p.buffer = B

/-- the parser state `p` is the one described by the context `c` -/
def Rel (p : P) (c : Ctx) : Prop := RelL p c.sts c.lens c.buf

section ops
variable {p : P} {S : List St} {L : List Int} {B : Bytes} {a b : St} {l m : Int}

theorem RelL.cur (h : RelL p (a :: S) L B) : p.state.current = a := (List.cons.inj h.st).1
theorem RelL.stk (h : RelL p (a :: S) L B) : p.state.stack = S := (List.cons.inj h.st).2
theorem RelL.lcur (h : RelL p S (l :: L) B) : p.length.current = l := (List.cons.inj h.ln).1
theorem RelL.lstk (h : RelL p S (l :: L) B) : p.length.stack = L := (List.cons.inj h.ln).2
theorem RelL.depth (h : RelL p (a :: S) L B) : depth p = S.length := by
  simp [Parse.depth, h.stk]

theorem RelL.push (h : RelL p (a :: S) L B) (ha : a.major ≠ stFail) (s : St) :
    RelL (pushState p s) (s :: a :: S) L B := by
  refine ⟨?_, h.ln, h.buf⟩
  have h1 := h.cur; have h2 := h.stk
  simp [pushState, StateStack.push, h1, h2, ha]

theorem RelL.pop (h : RelL p (a :: S) L B) (hS : S ≠ []) : RelL (popSt p) S L B := by
  refine ⟨?_, h.ln, h.buf⟩
  have h2 := h.stk
  cases S with
  | nil => exact absurd rfl hS
  | cons b S => simp [popSt, StateStack.pop, h2]

theorem RelL.pushLen (h : RelL p S L B) (l : Int) : RelL (pushLen p l) S (l :: L) B := by
  refine ⟨h.st, ?_, h.buf⟩
  have := h.ln
  simp [Parse.pushLen, LenStack.push, this]

theorem RelL.popLen (h : RelL p S (l :: L) B) (hL : L ≠ []) : RelL (popLen p) S L B := by
  refine ⟨h.st, ?_, h.buf⟩
  have h2 := h.lstk
  cases L with
  | nil => exact absurd rfl hL
  | cons m L => simp [Parse.popLen, LenStack.pop, h2]

theorem RelL.decLen (h : RelL p S (l :: L) B) (n : Int) : RelL (decLen p n) S ((l - n) :: L) B := by
  refine ⟨h.st, ?_, h.buf⟩
  have h1 := h.lcur; have h2 := h.lstk
  simp [Parse.decLen, h1, h2]

theorem RelL.setMajor (h : RelL p (a :: S) L B) (x : UInt8) :
    RelL (setMajor p x) (⟨x, a.minor⟩ :: S) L B := by
  refine ⟨?_, h.ln, h.buf⟩
  have h1 := h.cur; have h2 := h.stk
  simp [Parse.setMajor, h1, h2]

theorem RelL.setMinor (h : RelL p (a :: S) L B) (x : UInt8) :
    RelL (setMinor p x) (⟨a.major, x⟩ :: S) L B := by
  refine ⟨?_, h.ln, h.buf⟩
  have h1 := h.cur; have h2 := h.stk
  simp [Parse.setMinor, h1, h2]

theorem RelL.visit (h : RelL p S L B) (e : Ev) : RelL (visit p e).1 S L B := by
  simp only [Parse.visit]
  split <;> (try split) <;> exact ⟨h.st, h.ln, h.buf⟩

theorem RelL.visitAll (h : RelL p S L B) (es : List Ev) : RelL (visitAll p es).1 S L B := by
  induction es generalizing p with
  | nil => exact h
  | cons e es ih =>
    simp only [Parse.visitAll]
    have h1 := h.visit e
    rcases hv : Parse.visit p e with ⟨q, _ | err⟩
    · rw [hv] at h1; exact ih h1
    · rw [hv] at h1; exact h1

theorem RelL.setBuf (h : RelL p S L B) (B' : Bytes) : RelL { p with buffer := B' } S L B' :=
  ⟨h.st, h.ln, rfl⟩

end ops

/-! ## onValue -/

theorem onValue_arr (n : Nat) (p : P) (h : p.state.current.major = 0x80) :
    onValue n p =
      if (decLen p 1).length.current > 0 then (decLen p 1, false, none) else
      match visit (decLen p 1) .arrEnd with
      | (p2, some e) => (p2, false, some e)
      | (p2, none) =>
        match n with
        | 0 => (popSt (popLen p2), true, none)
        | n + 1 => onValue n (popSt (popLen p2)) := by
  rw [onValue]
  simp +decide [h]
  rfl

theorem onValue_map (n : Nat) (p : P) (h : p.state.current.major = 0xa0) :
    onValue n p =
      if (decLen p 1).length.current > 0 then (decLen p 1, false, none) else
      match visit (decLen p 1) .objEnd with
      | (p2, some e) => (p2, false, some e)
      | (p2, none) =>
        match n with
        | 0 => (popSt (popLen p2), true, none)
        | n + 1 => onValue n (popSt (popLen p2)) := by
  rw [onValue]
  simp +decide [h]
  rfl

theorem onValue_indef (n : Nat) (p : P)
    (h : p.state.current.major = 0x81 ∨ p.state.current.major = 0xa1) :
    onValue n p = (p, false, none) := by
  rw [onValue]
  rcases h with h | h <;> simp +decide [h]

theorem onValue_value (n : Nat) (p : P) (h : p.state.current.major = stValue) :
    onValue n p = (p, true, none) := by
  rw [onValue]
  simp +decide [h]

/-- result of a completion: `d` is the `done` flag -/
def ROutP (q : P) (d : Bool) : Out → Prop
  | .done _ => d = true ∧ Rel q idleCtx
  | .cont c => d = false ∧ Rel q c

theorem contsSts_ne_fail (fs : List Cont) : ∃ a S, contsSts fs = a :: S ∧ a.major ≠ stFail := by
  cases fs with
  | nil => exact ⟨_, _, rfl, by decide⟩
  | cons f fs => cases f <;> exact ⟨_, _, rfl, by simp [Cont.st, stFail]⟩

theorem contsSts_ne_nil (fs : List Cont) : contsSts fs ≠ [] := by
  cases fs <;> simp [contsSts]

theorem contsLens_ne_nil (fs : List Cont) : contsLens fs ≠ [] := by
  induction fs with
  | nil => simp [contsLens]
  | cons f fs ih => simp [contsLens, ih]

theorem contsSts_length (fs : List Cont) : (contsSts fs).length = fs.length + 1 := by
  induction fs with
  | nil => rfl
  | cons f fs ih => simp [contsSts, ih]

/-- SIMULATION of `onValue`: completing a value in a parser state whose stacks are those of
the containers `fs` either fails (visitor error) or leads to the state described by
`complete t fs` -/
theorem onValue_sim (fs : List Cont) (hfs : contsValid fs) (t : Item) (p : P)
    (hr : RelL p (contsSts fs) (contsLens fs) []) (n : Nat) (hn : n = fs.length) :
    (onValue n p).2.2 ≠ none ∨ ROutP (onValue n p).1 (onValue n p).2.1 (complete t fs) := by
  induction fs generalizing t p n with
  | nil =>
    right
    have hcur : p.state.current = ⟨stValue, stStart⟩ := hr.cur
    rw [onValue_value n p (by rw [hcur])]
    exact ⟨rfl, hr⟩
  | cons f fs ih =>
    obtain ⟨hf, hfs'⟩ := hfs
    cases f with
    | arr w k done =>
      obtain ⟨hl, hd, hok⟩ := hf
      have hcur : p.state.current = ⟨0x80, 1⟩ := hr.cur
      have hlc : p.length.current = (k : Int) - done.length := hr.lcur
      have hdl := hr.decLen (l := (k : Int) - done.length) (L := contsLens fs) 1
      rw [onValue_arr n p (by rw [hcur])]
      simp only [complete]
      have hdc : (decLen p 1).length.current = (k : Int) - done.length - 1 := hdl.lcur
      by_cases hlt : done.length + 1 < k
      · right
        have : (decLen p 1).length.current > 0 := by rw [hdc]; omega
        simp only [this, if_true, hlt]
        refine ⟨rfl, ⟨hdl.st, ?_, hdl.buf⟩⟩
        rw [hdl.ln]
        simp [Ctx.lens, Top.lens, contsLens, Cont.lens]; omega
      · have : ¬ (decLen p 1).length.current > 0 := by rw [hdc]; omega
        simp only [this, if_false, hlt]
        have hv := hdl.visit .arrEnd
        rcases hvis : visit (decLen p 1) .arrEnd with ⟨p2, _ | e⟩
        · rw [hvis] at hv
          subst hn
          simp only [List.length_cons]
          exact ih hfs' _ _ ((hv.popLen (contsLens_ne_nil fs)).pop (contsSts_ne_nil fs)) _ rfl
        · left; simp
    | arrI done =>
      right
      have hcur : p.state.current = ⟨0x81, 1⟩ := hr.cur
      rw [onValue_indef n p (Or.inl (by rw [hcur]))]
      simp only [complete]
      exact ⟨rfl, hr⟩
    | mapV w k done kw key =>
      obtain ⟨hl, hd, hok, hk⟩ := hf
      have hcur : p.state.current = ⟨0xa0, 1⟩ := hr.cur
      have hlc : p.length.current = (k : Int) - done.length := hr.lcur
      have hdl := hr.decLen (l := (k : Int) - done.length) (L := contsLens fs) 1
      rw [onValue_map n p (by rw [hcur])]
      simp only [complete]
      have hdc : (decLen p 1).length.current = (k : Int) - done.length - 1 := hdl.lcur
      by_cases hlt : done.length + 1 < k
      · right
        have : (decLen p 1).length.current > 0 := by rw [hdc]; omega
        simp only [this, if_true, hlt]
        refine ⟨rfl, ⟨hdl.st, ?_, hdl.buf⟩⟩
        rw [hdl.ln]
        simp [Ctx.lens, Top.lens, contsLens, MapK.lens, KeyTop.lens]; omega
      · have : ¬ (decLen p 1).length.current > 0 := by rw [hdc]; omega
        simp only [this, if_false, hlt]
        have hv := hdl.visit .objEnd
        rcases hvis : visit (decLen p 1) .objEnd with ⟨p2, _ | e⟩
        · rw [hvis] at hv
          subst hn
          simp only [List.length_cons]
          exact ih hfs' _ _ ((hv.popLen (contsLens_ne_nil fs)).pop (contsSts_ne_nil fs)) _ rfl
        · left; simp
    | mapIV done kw key =>
      right
      have hcur : p.state.current = ⟨0xa1, 1⟩ := hr.cur
      rw [onValue_indef n p (Or.inr (by rw [hcur]))]
      simp only [complete]
      exact ⟨rfl, hr⟩


/-! ## outcomes of steps -/

def ROut (r : R) (o : Out) : Prop := ROutP r.p r.done o

/-- what (a part of) a step must satisfy: `pre` = bytes consumed before it for the current
top-level item, `b` = the input, `pend` = "the state before was start-pending" -/
def SimR (pre : Bytes) (b : Bytes) (r : R) (pend : Bool) : Prop :=
  r.err ≠ none ∨ ∃ used o, b = used ++ r.rest ∧ ROut r o ∧ GoodOut (pre ++ used) o ∧
    (used ≠ [] ∨ (pend = true ∧ o.pending = false))

theorem rel_depth {p : P} {fs : List Cont} {L : List Int} {B : Bytes}
    (hr : RelL p (contsSts fs) L B) : depth p = fs.length := by
  obtain ⟨a, S, hS, _⟩ := contsSts_ne_fail fs
  have hl := contsSts_length fs
  rw [hS] at hr hl
  rw [hr.depth]; simpa using hl

theorem onValueR_sim (fs : List Cont) (hfs : contsValid fs) (t : Item) (p : P)
    (hr : RelL p (contsSts fs) (contsLens fs) []) (rest : Bytes) :
    (onValueR p rest).err ≠ none ∨
      ((onValueR p rest).rest = rest ∧ ROut (onValueR p rest) (complete t fs)) := by
  have := onValue_sim fs hfs t p hr (depth p) (rel_depth hr)
  exact this.imp id (fun h => ⟨rfl, h⟩)

theorem popStateR_sim (fs : List Cont) (hfs : contsValid fs) (t : Item) (p : P) (s : St)
    (hr : RelL p (s :: contsSts fs) (contsLens fs) []) (rest : Bytes) :
    (popStateR p rest).err ≠ none ∨
      ((popStateR p rest).rest = rest ∧ ROut (popStateR p rest) (complete t fs)) := by
  have hd : depth p = fs.length + 1 := by rw [hr.depth, contsSts_length]
  have := onValue_sim fs hfs t (popSt p) (hr.pop (contsSts_ne_nil fs)) fs.length rfl
  have he : popStateR p rest =
      { p := (onValue fs.length (popSt p)).1, rest := rest, done := (onValue fs.length (popSt p)).2.1,
        err := (onValue fs.length (popSt p)).2.2 } := by
    simp only [popStateR, hd, popState]
  rw [he]
  exact this.imp id (fun h => ⟨rfl, h⟩)

/-- a value `t` was completed: package the result of `onValueR`/`popStateR` -/
theorem finish_value (fs : List Cont) (hfs : contsValid fs) (t : Item) (ht : okw t = true)
    (r : R) (b used rest : Bytes) (hb : b = used ++ rest)
    (h : r.err ≠ none ∨ (r.rest = rest ∧ ROut r (complete t fs)))
    (pre : Bytes) (hw : contsWire fs ++ t.wire = pre ++ used) (pend : Bool)
    (hm : used ≠ [] ∨ pend = true) : SimR pre b r pend := by
  rcases h with h | ⟨h1, h2⟩
  · exact Or.inl h
  · have hg := complete_good t ht fs hfs
    refine Or.inr ⟨used, complete t fs, by rw [h1]; exact hb, h2, by rw [← hw]; exact hg.1, ?_⟩
    rcases hm with hm | hm
    · exact Or.inl hm
    · exact Or.inr ⟨hm, hg.2⟩

/-- the step only moved to another context -/
theorem finish_cont (c : Ctx) (hc : c.Valid) (r : R) (b used : Bytes) (hb : b = used ++ r.rest)
    (he : r.err = none → r.done = false ∧ Rel r.p c)
    (pre : Bytes) (hw : c.wire = pre ++ used) (pend : Bool)
    (hm : used ≠ [] ∨ (pend = true ∧ c.pending = false)) : SimR pre b r pend := by
  by_cases h : r.err = none
  · obtain ⟨h1, h2⟩ := he h
    exact Or.inr ⟨used, .cont c, hb, ⟨h1, h2⟩, ⟨hc, hw⟩, hm⟩
  · exact Or.inl h

/-! ## collect -/

theorem collect_spec (buffer b : Bytes) (count : Nat) (h : buffer.length < count) :
    (buffer.length + b.length < count ∧ collect buffer b count = (buffer ++ b, [], none)) ∨
    (∃ used rest, b = used ++ rest ∧ (buffer ++ used).length = count ∧
      collect buffer b count = ([], rest, some (buffer ++ used))) := by
  by_cases hb0 : buffer.length > 0
  · have hd : ((count : Int) - (buffer.length : Int)) > 0 := by omega
    have hN : ((count : Int) - (buffer.length : Int)).toNat = count - buffer.length := by omega
    simp only [collect, hb0, if_true, hd, hN]
    by_cases hlt : count - buffer.length > b.length
    · left
      simp only [hlt, if_true]
      exact ⟨by omega, by first | rfl | trivial⟩
    · right
      simp only [hlt, if_false]
      refine ⟨b.take (count - buffer.length), b.drop (count - buffer.length), by simp, ?_, ?_⟩
      · simp [List.length_take]; omega
      · have hl : (buffer ++ b.take (count - buffer.length)).length = count := by
          simp [List.length_take]; omega
        have hge : (buffer ++ b.take (count - buffer.length)).length ≥ count := by omega
        simp only [hl, ge_iff_le, Nat.le_refl, if_true, beq_self_eq_true]
        rw [List.take_of_length_le (by omega)]
  · have hb : buffer = [] := by
      cases buffer with
      | nil => rfl
      | cons a l => simp at hb0
    subst hb
    simp only [collect, List.length_nil, Nat.lt_irrefl, gt_iff_lt, if_false, List.nil_append]
    by_cases hge : b.length ≥ count
    · right
      simp only [hge, if_true]
      exact ⟨b.take count, b.drop count, by simp, (by simp [List.length_take]; omega), rfl⟩
    · left
      simp only [hge, if_false]
      exact ⟨(by simp; omega), by first | rfl | trivial⟩

theorem collectP_eq (p : P) (b : Bytes) (n : Nat) :
    collectP p b n = ({ p with buffer := (collect p.buffer b n).1 }, (collect p.buffer b n).2.1,
      (collect p.buffer b n).2.2) := rfl

/-- `collectP` in a state whose buffer holds the part `got` of a `count`-byte token -/
theorem collectP_sim {p : P} {S : List St} {L : List Int} {got : Bytes} (hr : RelL p S L got)
    (count : Nat) (hg : got.length < count) (b : Bytes) :
    ∃ p' rest v, collectP p b count = (p', rest, v) ∧
      ((v = none ∧ rest = [] ∧ got.length + b.length < count ∧ RelL p' S L (got ++ b)) ∨
       (∃ used, b = used ++ rest ∧ (got ++ used).length = count ∧ v = some (got ++ used) ∧
          RelL p' S L [])) := by
  rw [collectP_eq, hr.buf]
  rcases collect_spec got b count hg with ⟨h1, h2⟩ | ⟨used, rest, h1, h2, h3⟩
  · rw [h2]
    exact ⟨_, _, _, rfl, Or.inl ⟨rfl, rfl, h1, hr.setBuf _⟩⟩
  · rw [h3]
    exact ⟨_, _, _, rfl, Or.inr ⟨used, h1, h2, rfl, hr.setBuf _⟩⟩

theorem W.bytes_pos (w : W) (hw : w ≠ .imm) : 0 < w.bytes := by
  cases w <;> simp_all [W.bytes]

theorem beNat_single (x : UInt8) : beNat [x] = x.toNat := by simp [beNat]

/-- `getArg` in a state whose buffer holds the part `got` of a `w`-byte argument -/
theorem getArg_sim {p : P} {S : List St} {L : List Int} {got : Bytes} (hr : RelL p S L got)
    (w : W) (hw : w ≠ .imm) (hg : got.length < w.bytes) (b : Bytes) (hb : b ≠ []) :
    ∃ p' rest v, getArg p b w.bytes = .ok (p', rest, v) ∧
      ((v = none ∧ rest = [] ∧ got.length + b.length < w.bytes ∧ RelL p' S L (got ++ b)) ∨
       (∃ used, b = used ++ rest ∧ used ≠ [] ∧ (got ++ used).length = w.bytes ∧
          v = some (beNat (got ++ used)) ∧ RelL p' S L [])) := by
  by_cases h1 : w = .w1
  · subst h1
    cases b with
    | nil => exact absurd rfl hb
    | cons b0 bs =>
      have hgot : got = [] := by
        cases got with
        | nil => rfl
        | cons a l => simp [W.bytes] at hg
      subst hgot
      refine ⟨p, bs, some b0.toNat, by simp [getArg, W.bytes], Or.inr ⟨[b0], rfl, by simp, by simp [W.bytes], ?_, hr⟩⟩
      simp [beNat_single]
  · have hne : (w.bytes == 1) = false := by cases w <;> simp_all [W.bytes]
    obtain ⟨p', rest, v, hc, hcase⟩ := collectP_sim hr w.bytes hg b
    refine ⟨p', rest, v.map beNat, by simp [getArg, hne, hc], ?_⟩
    rcases hcase with ⟨hv, h2, h3, h4⟩ | ⟨used, h2, h3, hv, h4⟩
    · exact Or.inl ⟨by simp [hv], h2, h3, h4⟩
    · refine Or.inr ⟨used, h2, ?_, h3, by simp [hv], h4⟩
      intro hu; subst hu; simp at h3; omega

/-! ## dispatch of execStep for the remaining states -/

theorem execStep_bytes (p : P) (b : Bytes) (h : p.state.current.major = 0x40) :
    execStep p b = stepBytes p b := by
  simp +decide [execStep, h]
theorem execStep_text (p : P) (b : Bytes) (h : p.state.current.major = 0x60) :
    execStep p b = stepText p b := by
  simp +decide [execStep, h]
theorem execStep_key (p : P) (b : Bytes) (h : p.state.current.major = 0xa8) :
    execStep p b = stepKey p b := by
  simp +decide [execStep, h]

end SF.Cbor.Sim
