/-
  C11, direct path, STRUCT types with fields of primitive kind — UNFOLD side and the composition:
  the tokens of `FuIdStructFold.impl_struct` are one object `UTree.obj` whose members are the
  non-dropped fields in declaration order; the specification (`Spec.assignMembers`) assigns them
  field by field to the zero struct; `object_into_struct_compiled` (C13) runs the mirror.
-/
import SF.Proofs.FuIdStructFold
import SF.Proofs.UnfStructValTop
namespace SF.FuId
open SF SF.Gotype SF.Gotype.Fold SF.FoldProofs
open SF.Unf (Sc UEv PK Ctx newUnfolder setTarget typeFuel UTree eventsMems toSMems Step)
open SF.Unf.Spec (assign assignMembers norm normList)
open SF.Ops.Unf (xevToUEvs evToUEv runToken)
open SF.Ops.Fu (feed)

/-- zero value of a scalar type on the Unfold side -/
def zeroPrim : Prim → Unf.GoVal
  | .bool => .bool false | .string => .str [] | .num k => .int (Unf.normKind k) 0 | .f32 => .f32 0 | .f64 => .f64 0

/-- translation of a field value: a dropped field keeps the zero value of the fresh target -/
def trField : FD → GoVal → Unf.GoVal
  | .drop p, _ => zeroPrim p
  | .mem _ p, v => trPtrElem p v

def trFields : List FD → List GoVal → List Unf.GoVal
  | d :: ds, v :: vs => trField d v :: trFields ds vs
  | _, _ => []

def zerosOf (ds : List FD) : List Unf.GoVal := ds.map fun d => zeroPrim d.prim

/-- the members of the object Fold delivers -/
def memTrees : List FD → List GoVal → List (Bool × Bytes × UTree)
  | .drop _ :: ds, _ :: vs => memTrees ds vs
  | .mem nm p :: ds, v :: vs => (false, nm, .scalar (scOfPtr p v)) :: memTrees ds vs
  | _, _ => []

/-- the field list of the specification -/
def sfOf : List FD → Nat → Unf.SV.SpecFields
  | [], _ => []
  | .drop _ :: r, i => sfOf r (i + 1)
  | .mem nm p :: r, i => (nm, [i], uPrimTy p) :: sfOf r (i + 1)

/-! ## tokens -/

theorem feed_singletons : ∀ (es : List UEv) (c c' : Ctx), Unf.run typeFuel es c = .ok () c' →
    feed c (es.map fun e => [e]) = (c', none)
  | [], c, c', h => by simp [Unf.run] at h; subst h; rfl
  | e :: es, c, c', h => by
    rw [Unf.run] at h
    cases hs : Unf.stepEv typeFuel e c with
    | ok u c1 =>
      rw [hs] at h
      simp only [List.map_cons, feed, runToken, hs]
      exact feed_singletons es c1 c' h
    | err e' c1 => rw [hs] at h; cases h
    | panic c1 => rw [hs] at h; cases h
    | outOfFuel => rw [hs] at h; cases h
    | gap m => rw [hs] at h; cases h

theorem memEvs_tokens : ∀ (ds : List FD) (vs : List GoVal), Vals ds vs →
    (memEvs ds vs).map xevToUEvs = (eventsMems (memTrees ds vs)).map fun e => [e] := by
  intro ds vs h
  induction h with
  | nil => rfl
  | @cons d v ds vs _ _ ih =>
    cases d with
    | drop p => simpa [memEvs, memTrees] using ih
    | mem nm p =>
      simp only [memEvs, memTrees, List.map_cons, eventsMems, UTree.events, xevToUEvs, evOfPrim_tok, ih]
      rfl

theorem wf_memTrees : ∀ (ds : List FD) (vs : List GoVal), Vals ds vs → ∀ m ∈ memTrees ds vs, m.2.2.wf = true := by
  intro ds vs h
  induction h with
  | nil => intro m hm; cases hm
  | @cons d v ds vs hp _ ih =>
    cases d with
    | drop p => simpa [memTrees] using ih
    | mem nm p =>
      intro m hm
      simp only [memTrees, List.mem_cons] at hm
      rcases hm with rfl | hm
      · show (scOfPtr p v).inRange = true
        cases p with
        | num k =>
          cases v <;> simp [FD.prim, hasPrim] at hp
          show (if k == .int then NumKind.i64 else k).inRange _ = true
          split
          · rename_i hc; simp at hc; rw [hc] at hp; exact hp
          · exact hp
        | _ => rfl
      · exact ih m hm

/-! ## the specification -/

theorem un_uPrimTy (tbl : Unf.TypeTable) (p : Prim) : (uPrimTy p).un tbl = uPrimTy p := by cases p <;> rfl

theorem assign_prim (tbl : Unf.TypeTable) (ip : Bool) (n : Nat) (p : Prim) (old : Unf.GoVal) (v : GoVal)
    (h : hasPrim p v = true) :
    assign tbl ip (n + 1) (uPrimTy p) old (.sc (scOfPtr p v)) = some (trPtrElem p v) := by
  cases p with
  | num k =>
    cases v <;> simp [hasPrim] at h
    rename_i i
    have h1 : (if k == .int then NumKind.i64 else k).inRange i = true := by
      split
      · rename_i hc; simp at hc; rw [hc] at h; exact h
      · exact h
    have h2 : (Unf.normKind k).inRange i = true := by rw [Unf.inRange_normKind]; exact h
    have e : assign tbl ip (n + 1) (uPrimTy (.num k)) old (.sc (scOfPtr (.num k) (.int i))) =
        (if Unf.Spec.inRangeOf (Unf.normKind k) i && Unf.Spec.inRangeOf (if k == .int then NumKind.i64 else k) i
          then some (.int (Unf.normKind k) i) else none) := rfl
    rw [e]
    simp only [Unf.Spec.inRangeOf, h1, h2, Bool.and_self, if_true]
    rfl
  | _ => cases v <;> simp [hasPrim] at h <;> rfl

theorem toSMems_cons (r : Bool) (k : Bytes) (x : UTree) (ms : List (Bool × Bytes × UTree)) :
    toSMems ((r, k, x) :: ms) = (k, x.toS) :: toSMems ms := by
  rw [toSMems]

theorem assign_members (tbl : Unf.TypeTable) (ip : Bool) (sfAll : Unf.SV.SpecFields)
    (hnd : (sfAll.map (·.1)).Nodup) :
    ∀ (ds : List FD) (vs : List GoVal), Vals ds vs → ∀ (zs done : List Unf.GoVal) (n : Nat), zs.length = ds.length →
      (∀ x ∈ sfOf ds done.length, x ∈ sfAll) → (memTrees ds vs).length + 2 ≤ n →
      ∃ rest, assignMembers tbl ip n sfAll (.struct (done ++ zs)) (toSMems (memTrees ds vs)) =
          some (.struct (done ++ rest)) ∧
        rest.length = ds.length ∧
        ∀ (i : Nat), rest[i]? = (match ds[i]?, vs[i]? with
          | some (.mem _ p), some v => some (trPtrElem p v)
          | _, _ => zs[i]?) := by
  intro ds vs h
  induction h with
  | nil =>
    intro zs done n hz _ hn
    have : zs = [] := List.eq_nil_of_length_eq_zero hz
    subst this
    obtain ⟨n', rfl⟩ : ∃ n', n = n' + 1 := ⟨n - 1, by omega⟩
    refine ⟨[], ?_, rfl, fun i => by simp⟩
    simp [memTrees, toSMems, assignMembers]
  | @cons d v ds vs hp _ ih =>
    intro zs done n hz hsub hn
    cases zs with
    | nil => simp at hz
    | cons z zs =>
    have hz' : zs.length = ds.length := by simpa using hz
    cases d with
    | drop p =>
      obtain ⟨rest, h1, h2, h3⟩ := ih zs (done ++ [z]) n hz'
        (by intro x hx; apply hsub; simpa [sfOf] using hx) (by simpa [memTrees] using hn)
      refine ⟨z :: rest, ?_, by simp [h2], ?_⟩
      · simpa [memTrees] using h1
      · intro i
        cases i with
        | zero => simp
        | succ i => simpa using h3 i
    | mem nm p =>
      have hlen : (memTrees ds vs).length + 3 ≤ n := by simpa [memTrees] using hn
      obtain ⟨n', rfl⟩ : ∃ n', n = n' + 1 + 1 := ⟨n - 2, by omega⟩
      obtain ⟨rest, h1, h2, h3⟩ := ih zs (done ++ [trPtrElem p v]) (n' + 1) hz'
        (by intro x hx; apply hsub; simp only [sfOf, List.mem_cons]; right; simpa using hx) (by omega)
      refine ⟨trPtrElem p v :: rest, ?_, by simp [h2], ?_⟩
      · have hmem : (nm, [done.length], uPrimTy p) ∈ sfAll := hsub _ (by simp [sfOf])
        have hfind := find_of_mem_nodup sfAll nm ([done.length], uPrimTy p) hnd hmem
        simp only [memTrees, toSMems_cons]
        rw [assignMembers]
        simp only [hfind, List.map_cons, List.map_nil, UTree.toS]
        have hget : (Unf.GoVal.struct (done ++ z :: zs)).get [Step.field done.length] = some z := by
          simp [Unf.GoVal.get]
        have hset : (Unf.GoVal.struct (done ++ z :: zs)).set [Step.field done.length] (trPtrElem p v) =
            some (.struct (done ++ trPtrElem p v :: zs)) := by
          simp [Unf.GoVal.set]
        simp only [hget, assign_prim tbl ip n' p z v hp, hset]
        simpa using h1
      · intro i
        cases i with
        | zero => simp
        | succ i => simpa using h3 i

/-- with one value per field the result is the translated struct -/
theorem rest_eq : ∀ (ds : List FD) (vs : List GoVal), Vals ds vs → ∀ (rest : List Unf.GoVal), rest.length = ds.length →
    (∀ (i : Nat), rest[i]? = (match ds[i]?, vs[i]? with
          | some (.mem _ p), some v => some (trPtrElem p v)
          | _, _ => (zerosOf ds)[i]?)) → rest = trFields ds vs := by
  intro ds vs h
  induction h with
  | nil =>
    intro rest hl _
    exact List.eq_nil_of_length_eq_zero hl
  | @cons d v ds vs _ _ ih =>
    intro rest hl hi
    cases rest with
    | nil => simp at hl
    | cons r rest =>
      have h0 := hi 0
      have hr := ih rest (by simpa using hl) (fun i => by simpa [zerosOf] using hi (i + 1))
      rw [trFields, ← hr]
      congr 1
      cases d with
      | drop p => simpa [zerosOf, trField, FD.prim] using h0
      | mem nm p => simpa [trField] using h0

/-! ## values of scalar fields: `norm` is the identity -/

def isSc : Unf.GoVal → Bool
  | .bool _ | .str _ | .int _ _ | .f32 _ | .f64 _ => true
  | _ => false

theorem norm_sc (g w : Unf.GoVal) (hw : isSc w = true) (h : norm g = w) : g = w := by
  cases g <;> simp only [norm] at h <;> first | exact h | (subst h; simp [isSc] at hw; done) | skip
  all_goals (split at h <;> subst h <;> simp [isSc] at hw)

theorem normList_sc : ∀ (gs ws : List Unf.GoVal), (∀ w ∈ ws, isSc w = true) → normList gs = ws → gs = ws
  | [], ws, _, h => by simpa [normList] using h
  | g :: gs, ws, hw, h => by
    cases ws with
    | nil => simp [normList] at h
    | cons w ws =>
      simp only [normList, List.cons.injEq] at h
      rw [norm_sc g w (hw w (by simp)) h.1, normList_sc gs ws (fun x hx => hw x (by simp [hx])) h.2]

theorem normList_id : ∀ (ws : List Unf.GoVal), (∀ w ∈ ws, isSc w = true) → normList ws = ws
  | [], _ => rfl
  | w :: ws, hw => by
    have h1 : norm w = w := by
      have := hw w (by simp)
      cases w <;> simp [isSc] at this <;> rfl
    simp only [normList, h1, normList_id ws (fun x hx => hw x (by simp [hx]))]

theorem norm_struct_sc (g : Unf.GoVal) (ws : List Unf.GoVal) (hw : ∀ w ∈ ws, isSc w = true)
    (h : norm g = norm (.struct ws)) : g = .struct ws := by
  have h2 : norm (Unf.GoVal.struct ws) = .struct ws := by simp only [norm, normList_id ws hw]
  rw [h2] at h
  cases g <;> simp only [norm] at h <;> first | (cases h; done) | skip
  · split at h <;> cases h
  · split at h <;> cases h
  · rename_i gs
    injection h with h
    rw [normList_sc gs ws hw h]

theorem isSc_trFields : ∀ (ds : List FD) (vs : List GoVal), ∀ w ∈ trFields ds vs, isSc w = true
  | [], _, w, h => by simp [trFields] at h
  | _ :: _, [], w, h => by simp [trFields] at h
  | d :: ds, v :: vs, w, h => by
    simp only [trFields, List.mem_cons] at h
    rcases h with rfl | h
    · cases d <;> rename_i p <;> cases p <;> rfl
    · exact isSc_trFields ds vs w h

/-! ## the composition -/

/-- STRUCT at mirror level.  `hcomp` / `hFM` / `hz` / `hv0` are the (checkable) facts about the UNFOLD side of the
translated type `ut`: it compiles to the field table `fields`, the table agrees with the field list `sfOf ds 0`
(member names and index paths of the non-dropped fields), its zero value is the struct of scalar zeros. -/
theorem struct_run (o : FoldOpts) (hfail : o.failAt = none) (S : GoType) (fs : List Field) (ds : List FD)
    (vs : List GoVal) (hg : goodT [] S = true) (hu : S.under = .struct fs) (hd : Desc fs ds) (hv : Vals ds vs)
    (ut : Unf.GoType) (nm : String) (ufs : List (String × String × Unf.GoType)) (fields : Unf.Fields) (R : Unf.Reg)
    (hS : ut.un tbl = .struct nm ufs)
    (hcomp : Unf.lookupReflUnfolder tbl typeFuel [] newUnfolder.reg ut = .ok (.struct fields, R))
    (hFM : SF.UnfProofs.StructVal.FM tbl ut fields (sfOf ds 0))
    (hnd : ((sfOf ds 0).map (·.1)).Nodup)
    (hz : Unf.zero tbl ut = .struct (zerosOf ds))
    (hv0 : SF.UnfProofs.StructVal.Shaped tbl ut (Unf.zero tbl ut)) :
    ∃ c0 cells' kc', (impl o S (.struct vs)).res = .ok ∧
      setTarget tbl ut (Unf.zero tbl ut) newUnfolder = .ok c0 ∧
      feed c0 ((impl o S (.struct vs)).evs.map xevToUEvs) =
        ({ newUnfolder with target := .struct (trFields ds vs), env := tbl, reg := R, cells := cells', keyCache := kc' },
          none) := by
  rw [impl_struct o hfail S fs ds vs hg hu hd hv]
  obtain ⟨rest, hspec, hrl, hri⟩ := assign_members tbl true (sfOf ds 0) hnd ds vs hv (zerosOf ds) []
    ((memTrees ds vs).length + 2) (by simp [zerosOf]) (fun x hx => hx) (Nat.le_refl _)
  have hrest := rest_eq ds vs hv rest hrl hri
  subst hrest
  simp only [List.nil_append] at hspec
  obtain ⟨got, cells', kc', hrun, hn, _, _, _⟩ :=
    SF.UnfProofs.StructVal.object_into_struct_compiled 254 tbl ut fields (sfOf ds 0) R (Unf.zero tbl ut) newUnfolder
      (structFoldLen fs (foldersOf ds 0).length) BT.any (memTrees ds vs) true _ _ hFM hv0 rfl (SF.Symbols.inv_init 0)
      (wf_memTrees ds vs hv) (by rw [hz]; exact hspec)
  have hgot := norm_struct_sc got _ (isSc_trFields ds vs) hn
  subst hgot
  refine ⟨_, cells', kc', rfl, SF.UnfProofs.StructVal.setTarget_struct tbl ut nm ufs _ newUnfolder fields R hS hcomp, ?_⟩
  have htok : (XEv.ev (.objStart (structFoldLen fs (foldersOf ds 0).length) BT.any) :: memEvs ds vs ++ [XEv.ev .objEnd]).map
      xevToUEvs = ((UTree.obj (structFoldLen fs (foldersOf ds 0).length) BT.any (memTrees ds vs)).events).map
        fun e => [e] := by
    simp only [List.map_cons, List.map_append, List.map_nil, UTree.events, memEvs_tokens ds vs hv]
    rfl
  show feed _ (List.map xevToUEvs _) = _
  rw [htok]
  exact feed_singletons _ _ _ hrun

end SF.FuId
