/-
  C03 no-hang (UBJSON): the shape invariant under the primitive operations.
-/
import SF.Proofs.UbjProg
namespace SF.Ubjson.Parse
open SF SF.Ubjson
open StateType StateStep

/-! ## the invariant under the primitive operations -/

theorem nT_cons (a : St) (l : List St) : nT (a :: l) = (if pastHdr a = true then 1 else 0) + nT l := by
  simp only [nT, List.filter_cons]; split <;> simp <;> omega

theorem chain_swap {a a' : St} {l : List St} (h : chain (a :: l) = true)
    (hn : (a'.type == stNext) = (a.type == stNext)) : chain (a' :: l) = true := by
  cases l with
  | nil => simpa [chain, hn] using h
  | cons b l => simp only [chain, bne, hn] at h ⊢; exact h

theorem chain_tail {a : St} {l : List St} (h : chain (a :: l) = true) (hn : a.type ≠ stNext) :
    ∃ t l', l = t :: l' ∧ chain (t :: l') = true := by
  cases l with
  | nil => simp [chain, hn] at h
  | cons b l => exact ⟨b, l, rfl, by simp only [chain, Bool.and_eq_true] at h; exact h.2⟩

theorem isStart_valid {s : St} (h : isStart s = true) : validSt s = true := by
  cases s with | mk t st => cases t <;> simp_all [isStart, validSt]

theorem isStart_facts {s : St} (h : isStart s = true) :
    s.type ≠ stNext ∧ s.type ≠ stFail ∧ pastHdr s = false ∧ tS s = 0 := by
  cases s with | mk t st => cases t <;> simp_all [isStart, pastHdr, tS]

theorem valid_ne_fail {s : St} (h : validSt s = true) : s.type ≠ stFail := by
  cases s with | mk t st => cases t <;> simp_all [validSt]

theorem G.congr {p q : P} (h : G p) (hs : q.state = p.state) (hv : q.valueState = p.valueState)
    (hm : q.marker = p.marker) : G q := by
  have hsl : sl q = sl p := by simp [sl, hs]
  exact ⟨by rw [hsl]; exact h.val, by rw [hsl]; exact h.chn, by rw [hm]; exact h.mrk,
    by rw [hv]; exact h.vcur, by rw [hv]; exact h.vstk, by rw [hsl, hv]; exact h.cnt⟩

theorem G.addEv {p : P} (h : G p) (e : Ev) : G (addEv p e) := h.congr rfl rfl rfl
theorem G.collectP {p : P} (h : G p) (b : Bytes) (n : Nat) : G (collectP p b n).1 := h.congr rfl rfl rfl
theorem G.decLen {p : P} (h : G p) : G (decLen p) := h.congr rfl rfl rfl
theorem G.pushLen {p : P} (h : G p) (l : Int) : G (pushLen p l) := h.congr rfl rfl rfl
theorem G.popLen {p : P} (h : G p) : G (popLen p) := h.congr rfl rfl rfl

theorem G.setMarker {p : P} (h : G p) (m : UInt8) (hm : m = noMarker ∨ isIntMarker m = true) :
    G { p with marker := m } :=
  ⟨h.val, h.chn, hm, h.vcur, h.vstk, h.cnt⟩

/-- a new current state of the same kind -/
theorem G.setCurrent {p : P} (h : G p) (s : St) (hv : validSt s = true)
    (hn : (s.type == stNext) = (p.state.current.type == stNext))
    (hp : pastHdr s = pastHdr p.state.current) : G (Parse.setCurrent p s) := by
  refine ⟨?_, ?_, h.mrk, h.vcur, h.vstk, ?_⟩
  · intro x hx
    simp only [sl, Parse.setCurrent, List.mem_cons] at hx
    rcases hx with rfl | hx
    · exact hv
    · exact h.val x (by simp [sl, hx])
  · exact chain_swap h.chn hn
  · have := h.cnt
    simp only [sl, nT_cons] at this ⊢
    simp only [Parse.setCurrent, hp]; exact this

theorem G.pushState {p : P} (h : G p) (s : St) (hs : isStart s = true) : G (Parse.pushState p s) := by
  have hc : (p.state.current.type != stFail) = true := by
    simpa using valid_ne_fail (h.val p.state.current (by simp [sl]))
  obtain ⟨h1, h2, h3, _⟩ := isStart_facts hs
  have hsl : sl (Parse.pushState p s) = s :: sl p := by
    simp [sl, Parse.pushState, StateStack.push, hc]
  refine ⟨?_, ?_, h.mrk, h.vcur, h.vstk, ?_⟩
  · rw [hsl]; intro x hx
    simp only [List.mem_cons] at hx
    rcases hx with rfl | hx
    · exact isStart_valid hs
    · exact h.val x (by simpa [sl] using hx)
  · rw [hsl]; simp only [sl, chain, bne_iff_ne, ne_eq, h1, not_false_eq_true, Bool.and_eq_true, true_and]
    exact h.chn
  · rw [hsl, nT_cons, h3]
    show (if false = true then 1 else 0) + nT (sl p) = vdepth p.valueState
    simpa using h.cnt

/-- leaving a value that owns no valueState entry -/
theorem G.popState {p : P} (h : G p) (hn : p.state.current.type ≠ stNext)
    (hp : pastHdr p.state.current = false) : G (Parse.popState p).1 := by
  obtain ⟨t, l', hl, hc⟩ := chain_tail h.chn hn
  have hsl : sl (Parse.popState p).1 = t :: l' := by
    simp [sl, Parse.popState, StateStack.pop, hl]
  refine ⟨?_, ?_, h.mrk, h.vcur, h.vstk, ?_⟩
  · rw [hsl]; intro x hx; exact h.val x (by simp only [sl, hl]; exact List.mem_cons_of_mem _ hx)
  · rw [hsl]; exact hc
  · rw [hsl]
    have := h.cnt
    simp only [sl, nT_cons, hp, hl] at this
    show nT (t :: l') = vdepth p.valueState
    rw [nT_cons]; simpa using this

theorem G.popLenState {p : P} (h : G p) (hn : p.state.current.type ≠ stNext)
    (hp : pastHdr p.state.current = false) : G (Parse.popLenState p).1 :=
  (h.popLen).popState hn hp

theorem vdepth_pop {vs : StateStack}
    (hc : isStart vs.current = true ∨ (vs.current.type = stFail ∧ vs.stack = []))
    (hs : ∀ s ∈ vs.stack, isStart s = true) (hd : 1 ≤ vdepth vs) :
    vdepth vs.pop + 1 = vdepth vs ∧
    (isStart vs.pop.current = true ∨ (vs.pop.current.type = stFail ∧ vs.pop.stack = [])) ∧
    (∀ s ∈ vs.pop.stack, isStart s = true) := by
  cases vs with
  | mk stack cur =>
    have hcur : isStart cur = true := by
      rcases hc with hc | hc
      · exact hc
      · have h1 : cur.type = stFail := hc.1
        simp [vdepth, h1] at hd
    have hne := (isStart_facts hcur).2.1
    cases stack with
    | nil => simp [StateStack.pop, vdepth, hne]
    | cons t r =>
      have ht := hs t (by simp)
      have hne2 := (isStart_facts ht).2.1
      refine ⟨by simp [StateStack.pop, vdepth, hne, hne2], Or.inl ht, ?_⟩
      intro s hs'; exact hs s (by simp [StateStack.pop] at hs'; simp [hs'])

theorem vdepth_push {vs : StateStack}
    (hc : isStart vs.current = true ∨ (vs.current.type = stFail ∧ vs.stack = []))
    (hs : ∀ s ∈ vs.stack, isStart s = true) (st : St) (hst : isStart st = true) :
    vdepth (vs.push st) = vdepth vs + 1 ∧ isStart (vs.push st).current = true ∧
    (∀ s ∈ (vs.push st).stack, isStart s = true) := by
  have hne := (isStart_facts hst).2.1
  cases vs with
  | mk stack cur =>
    rcases hc with hc | hc
    · have hne2 := (isStart_facts hc).2.1
      refine ⟨by simp [StateStack.push, vdepth, hne, hne2], by simp [StateStack.push, hne2, hst], ?_⟩
      intro s hs'
      simp only [StateStack.push, bne_iff_ne, ne_eq, hne2, not_false_eq_true, if_true, List.mem_cons] at hs'
      rcases hs' with rfl | hs'
      · exact hc
      · exact hs s hs'
    · obtain ⟨h1, h2⟩ := hc
      simp only at h1 h2
      subst h2
      simp [StateStack.push, vdepth, h1, hne, hst]

/-- leaving a typed container: its valueState entry goes with it -/
theorem G.popTyped {p : P} (h : G p) (hn : p.state.current.type ≠ stNext)
    (hp : pastHdr p.state.current = true) : G (Parse.popLenState (popValueState p)).1 := by
  obtain ⟨t, l', hl, hc⟩ := chain_tail h.chn hn
  have hcnt := h.cnt
  simp only [sl, nT_cons, hp, if_true, hl] at hcnt
  rw [← nT_cons] at hcnt
  obtain ⟨hv1, hv2, hv3⟩ := vdepth_pop h.vcur h.vstk (by omega)
  have hsl : sl (Parse.popLenState (popValueState p)).1 = t :: l' := by
    simp [sl, Parse.popLenState, Parse.popState, Parse.popLen, popValueState, StateStack.pop, hl]
  refine ⟨?_, ?_, h.mrk, hv2, hv3, ?_⟩
  · rw [hsl]; intro x hx; exact h.val x (by simp only [sl, hl]; exact List.mem_cons_of_mem _ hx)
  · rw [hsl]; exact hc
  · rw [hsl]
    show nT (t :: l') = vdepth p.valueState.pop
    omega

/-- the element type of a typed container has been read -/
theorem G.typeRead {p : P} (h : G p) (ty : StateType) (hty : ty = stArrayTyped ∨ ty = stObjectTyped)
    (hcur : p.state.current = ⟨ty, stStart⟩) (st : St) (hst : isStart st = true) (vt : Nat) :
    G { Parse.setCurrent p ⟨ty, stWithType0⟩ with
        valueState := (Parse.setCurrent p ⟨ty, stWithType0⟩).valueState.push st, valueType := vt } := by
  obtain ⟨hv1, hv2, hv3⟩ := vdepth_push h.vcur h.vstk st hst
  have hcnt := h.cnt
  have hp0 : pastHdr ⟨ty, stStart⟩ = false := by rcases hty with rfl | rfl <;> decide
  have hp1 : pastHdr ⟨ty, stWithType0⟩ = true := by rcases hty with rfl | rfl <;> decide
  simp only [sl, nT_cons, hcur, hp0] at hcnt
  refine ⟨?_, ?_, h.mrk, Or.inl hv2, hv3, ?_⟩
  · intro x hx
    simp only [sl, Parse.setCurrent, List.mem_cons] at hx
    rcases hx with rfl | hx
    · rcases hty with rfl | rfl <;> decide
    · exact h.val x (by simp [sl, hx])
  · have := h.chn
    simp only [sl, hcur] at this
    exact chain_swap this (by rcases hty with rfl | rfl <;> rfl)
  · show nT (⟨ty, stWithType0⟩ :: p.state.stack) = vdepth (p.valueState.push st)
    rw [nT_cons, hp1, hv1]; simp at hcnt ⊢; omega

end SF.Ubjson.Parse
