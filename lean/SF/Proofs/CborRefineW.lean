/-
  The refinement lemma of SF/Proofs/CborRefine.lean for the slightly larger set `okw` of
  items (no bound on the number of elements of INDEFINITE containers — the parser does not
  count them).  Mechanical copy of the proof for `Item.ok`; used to show that the wire
  format is prefix-free (needed for "truncation is an error").
-/
import SF.Proofs.CborCtx
set_option linter.unusedSimpArgs false
namespace SF.Cbor.Sim
open SF SF.Cbor SF.Cbor.Cst SF.Cbor.Parse

theorem wire_first_w (t : Item) (h : okw t = true) : ∃ b0 bs, t.wire = b0 :: bs ∧ b0 ≠ 0xff := by
  have hib : ∀ (m : Fin 6) (a : Fin 32), ib m.val a.val ≠ 0xff := by decide
  have hib' : ∀ m a, m < 6 → a < 32 → ib m a ≠ 0xff := fun m a hm ha => hib ⟨m, hm⟩ ⟨a, ha⟩
  cases t with
  | uint w n => exact ⟨_, _, rfl, hib' 0 _ (by omega) (ai_lt w n (by simpa [okw] using h))⟩
  | nint w n =>
    simp only [okw, Bool.and_eq_true] at h
    exact ⟨_, _, rfl, hib' 1 _ (by omega) (ai_lt w n h.1)⟩
  | bytes w bs =>
    simp only [okw, Bool.and_eq_true] at h
    exact ⟨_, beBytes w.bytes bs.length ++ bs, by simp [Item.wire, head_eq], hib' 2 _ (by omega) (ai_lt w _ h.1)⟩
  | text w bs =>
    simp only [okw, Bool.and_eq_true] at h
    exact ⟨_, beBytes w.bytes bs.length ++ bs, by simp [Item.wire, head_eq], hib' 3 _ (by omega) (ai_lt w _ h.1)⟩
  | arr w xs =>
    simp only [okw, Bool.and_eq_true] at h
    exact ⟨_, beBytes w.bytes xs.length ++ wireList xs, by simp [Item.wire, head_eq], hib' 4 _ (by omega) (ai_lt w _ h.1.1)⟩
  | map w ms =>
    simp only [okw, Bool.and_eq_true] at h
    exact ⟨_, beBytes w.bytes ms.length ++ wireMems ms, by simp [Item.wire, head_eq], hib' 5 _ (by omega) (ai_lt w _ h.1.1)⟩
  | arrIndef xs => exact ⟨_, _, rfl, by decide⟩
  | mapIndef ms => exact ⟨_, _, rfl, by decide⟩
  | fals => exact ⟨_, _, rfl, by decide⟩
  | tru => exact ⟨_, _, rfl, by decide⟩
  | null => exact ⟨_, _, rfl, by decide⟩
  | undef => exact ⟨_, _, rfl, by decide⟩
  | f32 b => exact ⟨_, _, rfl, by decide⟩
  | f64 b => exact ⟨_, _, rfl, by decide⟩

theorem wire_ne_nil_w (t : Item) (h : okw t = true) : t.wire ≠ [] := by
  obtain ⟨b0, bs, hw, _⟩ := wire_first_w t h
  simp [hw]


theorem wireList_ne_nil_w {x : Item} {xs : List Item} (h : okw x = true) : wireList (x :: xs) ≠ [] := by
  obtain ⟨b0, bs, hw, _⟩ := wire_first_w x h
  simp [wireList, hw]

mutual

/-- REFINEMENT, one item: from any good configuration, `stepValue` on `t.wire ++ rest`
followed by `cost t` iterations of the parser loop is the completion (`onValue`) of a value
whose events are exactly `t.events`, with `rest` left over. -/
theorem value_lemma_w (t : Item) (ht : okw t = true) (f : Nat) (q : P) (rest : Bytes) (hq : Good q) :
    loopFrom (f + cost t) (stepValue q (t.wire ++ rest)) =
      loopFrom f (onValueR (addEvs q t.events) rest) := by
  match t with
  | .uint w n => exact value_uint w n (by simpa [okw] using ht) f q rest hq
  | .nint w n =>
    simp only [okw, Bool.and_eq_true, decide_eq_true_eq] at ht
    exact value_nint w n ht.1 ht.2 f q rest hq
  | .bytes w bs =>
    simp only [okw, Bool.and_eq_true, decide_eq_true_eq] at ht
    exact value_bytes w bs ht.1 ht.2 f q rest hq
  | .text w bs =>
    simp only [okw, Bool.and_eq_true, decide_eq_true_eq] at ht
    exact value_text w bs ht.1 ht.2 f q rest hq
  | .fals => exact value_simple 0xf4 _ stepValue_false f q rest hq
  | .tru => exact value_simple 0xf5 _ stepValue_true f q rest hq
  | .null => exact value_simple 0xf6 _ stepValue_null f q rest hq
  | .undef => exact value_simple 0xf7 _ stepValue_undef f q rest hq
  | .f32 b => exact value_f32 b f q rest hq
  | .f64 b => exact value_f64 b f q rest hq
  | .arr w xs =>
    simp only [okw, Bool.and_eq_true, decide_eq_true_eq] at ht
    obtain ⟨⟨hfit, hlen⟩, hxs⟩ := ht
    simp only [Item.wire, head_eq, List.cons_append, List.append_assoc, cost, Item.events]
    rw [stepValue_sub q 4 (Or.inl rfl) _ (ai_lt w _ hfit), ofNat_128]
    rw [show f + (wcost w + 1 + costArr xs) = (f + costArr xs + 1) + wcost w by omega]
    rw [sub_head hq majorArr (by decide) (by decide) w xs.length hfit hlen]
    have hs : ((majorArr ||| stStartX) : UInt8) = 0x84 := by decide
    rw [hs]
    have hg1 : Good (pushState q ⟨majorArr, stStart⟩) := good_pushState hq _ (by decide)
    have hg2 : Good (pushState (pushState q ⟨majorArr, stStart⟩) ⟨0x84, stStart⟩) :=
      good_pushState hg1 _ (by decide)
    have hcur := pushState_current hg1.notFail ⟨0x84, stStart⟩
    rw [loopFrom_step _ _ rfl rfl (contParse_start _ _ 0x84 (by decide) (by simp [hcur]))]
    rw [execStep_startArr _ _ (by simp [hcur])]
    rw [visit_good (by simp [hg2.nofail])]
    simp only [pushLen_current, popSt_addEvs, popSt_pushLen, popSt_pushState hg1.notFail]
    have hb : Body q (addEvs (pushLen (pushState q ⟨majorArr, stStart⟩) xs.length) [.arrStart xs.length BT.any])
        ⟨majorArr, stStart⟩ true :=
      ⟨rfl, by simp [pushLen, LenStack.push, pushState], by simpa [pushState] using hq.buf,
        by simpa [pushState] using hq.nofail, rfl⟩
    rw [arr_body_w xs hxs f q _ rest hq hb (by simp)]
    congr 2
    simp [withEvs, addEvs, pushLen, pushState]
  | .arrIndef xs =>
    simp only [okw] at ht
    simp only [Item.wire, List.cons_append, List.append_assoc, cost, Item.events]
    have hib : (0x9f : UInt8) = ib 4 31 := by decide
    rw [hib, stepValue_sub q 4 (Or.inl rfl) 31 (by omega), ofNat_128, initSub_indef]
    have hs1 : ((majorArr ||| stIndef) : UInt8) = 0x81 := by decide
    have hs2 : ((majorArr ||| stStartX ||| stIndef) : UInt8) = 0x85 := by decide
    rw [hs1, hs2]
    have hg1 : Good (pushState q ⟨0x81, stStart⟩) := good_pushState hq _ (by decide)
    have hg2 : Good (pushState (pushState q ⟨0x81, stStart⟩) ⟨0x85, stStart⟩) :=
      good_pushState hg1 _ (by decide)
    have hcur := pushState_current hg1.notFail ⟨0x85, stStart⟩
    rw [show f + (1 + costIndef xs) = (f + costIndef xs) + 1 by omega]
    rw [loopFrom_step _ _ rfl rfl (contParse_of_rest (by simp))]
    rw [execStep_startIndefArr _ _ (by simp [hcur])]
    rw [visit_good hg2.nofail]
    simp only [popSt_addEvs, popSt_pushState hg1.notFail]
    have hb : Body q (addEvs (pushState q ⟨0x81, stStart⟩) [.arrStart (-1) BT.any]) ⟨0x81, stStart⟩ false :=
      ⟨rfl, by simp [pushState], by simpa [pushState] using hq.buf,
        by simpa [pushState] using hq.nofail, rfl⟩
    have := indef_body_w xs ht f q _ rest hq hb
    simp only [List.singleton_append, List.cons_append, List.nil_append] at this ⊢
    rw [this]
    congr 2
    simp [withEvs, addEvs, pushState]
  | .map w ms =>
    simp only [okw, Bool.and_eq_true, decide_eq_true_eq] at ht
    obtain ⟨⟨hfit, hlen⟩, hms⟩ := ht
    simp only [Item.wire, head_eq, List.cons_append, List.append_assoc, cost, Item.events]
    rw [stepValue_sub q 5 (Or.inr rfl) _ (ai_lt w _ hfit), ofNat_160]
    rw [show f + (wcost w + 1 + costMap ms) = (f + costMap ms + 1) + wcost w by omega]
    rw [sub_head hq majorMap (by decide) (by decide) w ms.length hfit hlen]
    have hs : ((majorMap ||| stStartX) : UInt8) = 0xa4 := by decide
    rw [hs]
    have hg1 : Good (pushState q ⟨majorMap, stStart⟩) := good_pushState hq _ (by decide)
    have hg2 : Good (pushState (pushState q ⟨majorMap, stStart⟩) ⟨0xa4, stStart⟩) :=
      good_pushState hg1 _ (by decide)
    have hcur := pushState_current hg1.notFail ⟨0xa4, stStart⟩
    rw [loopFrom_step _ _ rfl rfl (contParse_start _ _ 0xa4 (by decide) (by simp [hcur]))]
    rw [execStep_startMap _ _ (by simp [hcur])]
    rw [visit_good (by simp [hg2.nofail])]
    simp only [pushLen_current, popSt_addEvs, popSt_pushLen, popSt_pushState hg1.notFail]
    have hb : Body q (addEvs (pushLen (pushState q ⟨majorMap, stStart⟩) ms.length) [.objStart ms.length BT.any])
        ⟨majorMap, stStart⟩ true :=
      ⟨rfl, by simp [pushLen, LenStack.push, pushState], by simpa [pushState] using hq.buf,
        by simpa [pushState] using hq.nofail, rfl⟩
    rw [map_body_w ms hms f q _ rest hq hb (by simp)]
    congr 2
    simp [withEvs, addEvs, pushLen, pushState]
  | .mapIndef ms =>
    simp only [okw] at ht
    simp only [Item.wire, List.cons_append, List.append_assoc, cost, Item.events]
    have hib : (0xbf : UInt8) = ib 5 31 := by decide
    rw [hib, stepValue_sub q 5 (Or.inr rfl) 31 (by omega), ofNat_160, initSub_indef]
    have hs1 : ((majorMap ||| stIndef) : UInt8) = 0xa1 := by decide
    have hs2 : ((majorMap ||| stStartX ||| stIndef) : UInt8) = 0xa5 := by decide
    rw [hs1, hs2]
    have hg1 : Good (pushState q ⟨0xa1, stStart⟩) := good_pushState hq _ (by decide)
    have hg2 : Good (pushState (pushState q ⟨0xa1, stStart⟩) ⟨0xa5, stStart⟩) :=
      good_pushState hg1 _ (by decide)
    have hcur := pushState_current hg1.notFail ⟨0xa5, stStart⟩
    rw [show f + (1 + costIndefMap ms) = (f + costIndefMap ms) + 1 by omega]
    rw [loopFrom_step _ _ rfl rfl (contParse_of_rest (by simp))]
    rw [execStep_startIndefMap _ _ (by simp [hcur])]
    rw [visit_good hg2.nofail]
    simp only [popSt_addEvs, popSt_pushState hg1.notFail]
    have hb : Body q (addEvs (pushState q ⟨0xa1, stStart⟩) [.objStart (-1) BT.any]) ⟨0xa1, stStart⟩ false :=
      ⟨rfl, by simp [pushState], by simpa [pushState] using hq.buf,
        by simpa [pushState] using hq.nofail, rfl⟩
    have := indefmap_body_w ms ht f q _ rest hq hb
    simp only [List.singleton_append, List.cons_append, List.nil_append] at this ⊢
    rw [this]
    congr 2
    simp [withEvs, addEvs, pushState]

/-- body of a definite array, from `stepArray` -/
theorem arr_body_w (xs : List Item) (hx : okwList xs = true) (f : Nat) (Q q : P) (rest : Bytes)
    (hQ : Good Q) (hb : Body Q q ⟨majorArr, stStart⟩ true) (hl : q.length.current = xs.length) :
    loopFrom (f + costArr xs) (stepArray q (wireList xs ++ rest)) =
      loopFrom f (onValueR (withEvs Q (.arrEnd :: ((eventsList xs).reverse ++ q.evs))) rest) := by
  match xs with
  | [] =>
    simp only [wireList, List.nil_append, costArr, Nat.add_zero, eventsList, List.reverse_nil]
    have := handleLen_empty (Or.inl rfl) hQ hb (by simpa using hl) rest
    simp only [beq_self_eq_true, endEv, if_true] at this
    simp only [stepArray, hl, List.length_nil, Int.natCast_zero, Int.lt_irrefl, gt_iff_lt, if_false]
    rw [this]
  | x :: xs' =>
    simp only [okwList, Bool.and_eq_true] at hx
    obtain ⟨hxo, hxs⟩ := hx
    have hgq : Good q := body_good hQ (by decide) hb
    simp only [wireList, List.append_assoc, costArr, eventsList]
    rw [stepArray_pos _ _ (by rw [hl]; simp)]
    have hb1 : Body Q (addEvs q x.events) ⟨majorArr, stStart⟩ true := body_addEvs hb _
    by_cases he : xs' = []
    · subst he
      simp only [List.isEmpty_nil, if_true, Nat.add_zero, costArr, wireList, List.nil_append, eventsList,
        List.append_nil]
      rw [value_lemma_w x hxo f q rest hgq]
      rw [onValueR_full (Or.inl rfl) hQ hb1 (by simp [hl])]
      simp [endEv, addEvs]
    · have hne : xs'.isEmpty = false := by cases xs' <;> simp_all
      simp only [hne, Bool.false_eq_true, if_false]
      rw [show f + (cost x + 1 + costArr xs') = (f + costArr xs' + 1) + cost x by omega]
      rw [value_lemma_w x hxo _ q _ hgq]
      rw [onValueR_more (Or.inl rfl) hQ hb1 (by
        simp only [addEvs_len, hl, List.length_cons]
        have : 0 < xs'.length := by cases xs' <;> simp_all
        omega)]
      have hne2 : wireList xs' ++ rest ≠ [] := by
        cases xs' with
        | nil => exact absurd rfl he
        | cons y ys =>
          simp only [okwList, Bool.and_eq_true] at hxs
          have := wireList_ne_nil_w (xs := ys) hxs.1
          simp_all
      rw [loopFrom_step _ _ rfl rfl (contParse_of_rest hne2)]
      have hb2 := body_decLen hb1 1
      rw [execStep_arr _ _ (by rw [body_current hQ hb2]; rfl)]
      rw [arr_body_w xs' hxs f Q _ rest hQ hb2 (by simp [decLen, hl])]
      simp [decLen, addEvs]

/-- body of an indefinite array, from `indefArr` -/
theorem indef_body_w (xs : List Item) (hx : okwList xs = true) (f : Nat) (Q q : P) (rest : Bytes)
    (hQ : Good Q) (hb : Body Q q ⟨0x81, stStart⟩ false) :
    loopFrom (f + costIndef xs) (indefArr q (wireList xs ++ 0xff :: rest)) =
      loopFrom f (onValueR (withEvs Q (.arrEnd :: ((eventsList xs).reverse ++ q.evs))) rest) := by
  match xs with
  | [] =>
    simp only [wireList, List.nil_append, costIndef, Nat.add_zero, eventsList, List.reverse_nil]
    simp only [indefArr, codeBreak, beq_self_eq_true, if_true]
    rw [visit_good hb.nofail]
    simp only []
    rw [popStateR_indef hQ hb]
  | x :: xs' =>
    simp only [okwList, Bool.and_eq_true] at hx
    obtain ⟨hxo, hxs⟩ := hx
    have hgq : Good q := body_good hQ (by decide) hb
    obtain ⟨b0, bs, hw, hb0⟩ := wire_first_w x hxo
    simp only [wireList, List.append_assoc, costIndef, eventsList]
    have : x.wire ++ (wireList xs' ++ 0xff :: rest) = b0 :: (bs ++ (wireList xs' ++ 0xff :: rest)) := by
      rw [hw]; rfl
    rw [this, indefArr_value _ _ _ hb0, ← this]
    rw [show f + (cost x + 1 + costIndef xs') = (f + costIndef xs' + 1) + cost x by omega]
    rw [value_lemma_w x hxo _ q _ hgq]
    have hb1 : Body Q (addEvs q x.events) ⟨0x81, stStart⟩ false := body_addEvs hb _
    rw [onValueR_indef (Or.inl rfl) hQ hb1]
    rw [loopFrom_step _ _ rfl rfl (contParse_of_rest (by simp))]
    rw [execStep_indefArr _ _ (by rw [body_current hQ hb1])]
    rw [indef_body_w xs' hxs f Q _ rest hQ hb1]
    simp [addEvs]

/-- body of a definite map, from `stepMap` -/
theorem map_body_w (ms : List (W × Bytes × Item)) (hm : okwMems ms = true) (f : Nat) (Q q : P) (rest : Bytes)
    (hQ : Good Q) (hb : Body Q q ⟨majorMap, stStart⟩ true) (hl : q.length.current = ms.length) :
    loopFrom (f + costMap ms) (stepMap q (wireMems ms ++ rest)) =
      loopFrom f (onValueR (withEvs Q (.objEnd :: ((eventsMems ms).reverse ++ q.evs))) rest) := by
  match ms with
  | [] =>
    simp only [wireMems, List.nil_append, costMap, Nat.add_zero, eventsMems, List.reverse_nil]
    have := handleLen_empty (Or.inr rfl) hQ hb (by simpa using hl) rest
    have hne : (majorMap == majorArr) = false := by decide
    simp only [hne, endEv, Bool.false_eq_true, if_false] at this
    simp only [stepMap, hl, List.length_nil, Int.natCast_zero, Int.lt_irrefl, gt_iff_lt, if_false]
    rw [this]
  | (kw, k, v) :: ms' =>
    simp only [okwMems, Bool.and_eq_true, decide_eq_true_eq] at hm
    obtain ⟨⟨⟨hkf, hkl⟩, hvo⟩, hms⟩ := hm
    have hgq : Good q := body_good hQ (by decide) hb
    simp only [wireMems, List.append_assoc, costMap, eventsMems]
    have hpos : q.length.current > 0 := by rw [hl]; simp
    have hnonempty : (head 3 kw k.length ++ (k ++ (v.wire ++ (wireMems ms' ++ rest)))).length > 0 := by
      simp [head_eq]
    simp only [stepMap, hpos, if_true, hnonempty]
    have htail : v.wire ++ (wireMems ms' ++ rest) ≠ [] := by
      have := wire_ne_nil_w v hvo
      simp [this]
    have hkey := key_lemma hgq kw k hkf hkl (v.wire ++ (wireMems ms' ++ rest)) htail
    simp only [List.append_assoc] at hkey
    have hb1 : Body Q (addEvs (addEvs q [.key k]) v.events) ⟨majorMap, stStart⟩ true :=
      body_addEvs (body_addEvs hb _) _
    by_cases he : ms' = []
    · subst he
      simp only [List.isEmpty_nil, if_true, Nat.add_zero, costMap, wireMems, List.nil_append, eventsMems,
        List.append_nil]
      simp only [wireMems, List.nil_append] at hkey
      rw [show f + (wcost kw + 2 + cost v) = (f + cost v) + (wcost kw + 2) by omega]
      rw [hkey, value_lemma_w v hvo f _ rest (good_addEvs hgq _)]
      rw [onValueR_full (Or.inr rfl) hQ hb1 (by simp [hl])]
      have hne : (majorMap == majorArr) = false := by decide
      simp [endEv, hne, addEvs]
    · have hne : ms'.isEmpty = false := by cases ms' <;> simp_all
      simp only [hne, Bool.false_eq_true, if_false]
      rw [show f + (wcost kw + 2 + cost v + 1 + costMap ms') = ((f + costMap ms' + 1) + cost v) + (wcost kw + 2) by omega]
      rw [hkey, value_lemma_w v hvo _ _ _ (good_addEvs hgq _)]
      rw [onValueR_more (Or.inr rfl) hQ hb1 (by
        simp only [addEvs_len, hl, List.length_cons]
        have : 0 < ms'.length := by cases ms' <;> simp_all
        omega)]
      have hne2 : wireMems ms' ++ rest ≠ [] := by
        cases ms' with
        | nil => exact absurd rfl he
        | cons y ys =>
          obtain ⟨kw2, k2, v2⟩ := y
          simp [wireMems, head_eq]
      rw [loopFrom_step _ _ rfl rfl (contParse_of_rest hne2)]
      have hb2 := body_decLen hb1 1
      rw [execStep_map _ _ (by rw [body_current hQ hb2]; rfl)]
      rw [map_body_w ms' hms f Q _ rest hQ hb2 (by simp [decLen, hl])]
      simp [decLen, addEvs]

/-- body of an indefinite map, from `indefMap` -/
theorem indefmap_body_w (ms : List (W × Bytes × Item)) (hm : okwMems ms = true) (f : Nat) (Q q : P)
    (rest : Bytes) (hQ : Good Q) (hb : Body Q q ⟨0xa1, stStart⟩ false) :
    loopFrom (f + costIndefMap ms) (indefMap q (wireMems ms ++ 0xff :: rest)) =
      loopFrom f (onValueR (withEvs Q (.objEnd :: ((eventsMems ms).reverse ++ q.evs))) rest) := by
  match ms with
  | [] =>
    simp only [wireMems, List.nil_append, costIndefMap, Nat.add_zero, eventsMems, List.reverse_nil]
    simp only [indefMap, codeBreak, beq_self_eq_true, if_true]
    rw [visit_good hb.nofail]
    simp only []
    rw [popStateR_indef hQ hb]
  | (kw, k, v) :: ms' =>
    simp only [okwMems, Bool.and_eq_true, decide_eq_true_eq] at hm
    obtain ⟨⟨⟨hkf, hkl⟩, hvo⟩, hms⟩ := hm
    have hgq : Good q := body_good hQ (by decide) hb
    simp only [wireMems, List.append_assoc, costIndefMap, eventsMems]
    have hhd : head 3 kw k.length ++ (k ++ (v.wire ++ (wireMems ms' ++ 0xff :: rest))) =
        ib 3 (kw.ai k.length) :: (beBytes kw.bytes k.length ++ (k ++ (v.wire ++ (wireMems ms' ++ 0xff :: rest)))) := by
      simp [head_eq]
    rw [hhd, indefMap_key _ _ _ (head3_ne_break kw _ hkf), ← hhd]
    have htail : v.wire ++ (wireMems ms' ++ 0xff :: rest) ≠ [] := by
      have := wire_ne_nil_w v hvo
      simp [this]
    have hkey := key_lemma hgq kw k hkf hkl (v.wire ++ (wireMems ms' ++ 0xff :: rest)) htail
    simp only [List.append_assoc] at hkey
    rw [show f + (wcost kw + 2 + cost v + 1 + costIndefMap ms') = ((f + costIndefMap ms' + 1) + cost v) + (wcost kw + 2) by omega]
    rw [hkey, value_lemma_w v hvo _ _ _ (good_addEvs hgq _)]
    have hb1 : Body Q (addEvs (addEvs q [.key k]) v.events) ⟨0xa1, stStart⟩ false :=
      body_addEvs (body_addEvs hb _) _
    rw [onValueR_indef (Or.inr rfl) hQ hb1]
    rw [loopFrom_step _ _ rfl rfl (contParse_of_rest (by simp))]
    rw [execStep_indefMap _ _ (by rw [body_current hQ hb1])]
    rw [indefmap_body_w ms' hms f Q _ rest hQ hb1]
    simp [addEvs]

end


/-- one top-level item through feedUntil: all of `t.wire` is consumed, the parser is idle
again and reports `done` (as `feedUntil_item`, for `okw`) -/
theorem feedUntil_item_w (t : Item) (ht : okw t = true) (evs : List Ev) (rest : Bytes) (F : Nat)
    (hF : cost t + 1 ≤ F) :
    feedUntil F (idle evs) (t.wire ++ rest) =
      { p := idle (t.events.reverse ++ evs), rest := rest, done := true, err := none } := by
  obtain ⟨f, rfl⟩ : ∃ f, F = (f + cost t) + 1 := ⟨F - (cost t + 1), by omega⟩
  rw [feedUntil_succ, execStep_value _ _ rfl, value_lemma_w t ht f _ rest (good_idle evs)]
  have : onValueR (addEvs (idle evs) t.events) rest =
      { p := idle (t.events.reverse ++ evs), rest := rest, done := true, err := none } := by
    simp +decide [onValueR, onValue, addEvs, idle]
  rw [this, loopFrom_done _ _ rfl]

end SF.Cbor.Sim
