/-
  C04, last clause — "a token sequence whose bracket/comma/colon structure is not that of a
  JSON text is rejected with an error" — THE CONVERSE of the JSON parser refinement
  (SF/Proofs/JsonRefineTop.lean), and with it an EXACT description of what `Parse` accepts.

  MAIN THEOREMS (namespace `SF.Props.JsonConverse`), for the mirror `SF.Json.Parse.parse`:

    accepted_is_stream   if `Parse` returns no error on `b` then `b` IS a stream of JSON texts:
                         b = ws0 ++ streamWire ds ++ fin, where `ws0` is white space, every
                         document `d ∈ ds` is a value of the grammar `J`
                         (SF/Proofs/JsonGrammar.lean: brackets, commas, colons, keys exactly
                         as in RFC 8259) followed by white space, `fin` is empty or one last
                         bare number token; and the events delivered are exactly the events
                         of the documents (and of `fin`).
    accepted_iff         … and every such `b` is accepted: the description is exact.
    accepted_chunks_is_stream   the same for `Write` per chunk + end of input, any chunking.
    not_stream_is_rejected   the clause of C04 as stated: an input that is not of this form
                         is rejected with an error.

  The bracket / comma / colon STRUCTURE is strict: the grammar is that of
  SF/Proofs/JsonGrammar.lean, unchanged.  What is lenient is the lexical level — and the
  theorems are stated with the weakest token-level predicates that make them true
  (`Doc.goodL`: `J.okL` / `J.semL` of SF/Proofs/JsonConvGrammar.lean instead of `J.ok` /
  `J.sem`); every leniency is an evaluated example below:

    (L1) WHITE SPACE is any byte Go's `unicode.IsSpace` accepts — 0x09–0x0D, 0x20, 0x85, 0xA0 —
         not only the four characters of RFC 8259.  But a NUMBER token ends only at a stop
         character (space \t \f \n \r `,` `]` `}`): white space after a number must begin
         with one of those (`numSep`), so `1<0x85>` is the (invalid) token `1<0x85>`.
    (L2) Documents of a stream need NO SEPARATOR unless the first is a bare number:
         `nulltrue`, `"a""b"`, `[]{}`, `null1` are two documents each (already so in
         `Doc.good` of the refinement theorem); `1null`, `1[]` are one invalid number token.
         Inside arrays and objects nothing of the kind is accepted: `[nulltrue]`, `[1 2]`,
         trailing / leading / double commas, missing colons are errors.
    (L3) NUMBER tokens (`numEvL`): `numEv` — integers `-? DIGIT+` in [-2^63, 2^64), leading zeros
         allowed, and whatever strconv.ParseFloat accepts for tokens containing `.`/`e`/`E`
         (`.5`, `5.`, `1_0.0`, hexadecimal floats `0x1.8p1`) — and additionally `+` DIGIT+.
    (L4) STRING tokens (`strValL` = the parser's `unquote`): the reference lexer's value on
         every token it accepts, and additionally `\'` is an escape and bytes that are not
         well-formed UTF-8 are passed through.  (Duplicate keys are accepted — RFC 8259
         allows them.)

  The strict notions imply the lenient ones (`good_goodL`), with the same events.
-/
import SF.Proofs.JsonConvFwd
import SF.Proofs.JsonParseTop
set_option linter.unusedSimpArgs false
namespace SF.Props.JsonConverse
open SF SF.Json SF.Json.Parse SF.Json.Float SF.Json.Grammar SF.Json.ParseP

/-! ## the converse -/

/-- THE CONVERSE, on any reusable parser value: whatever `Parse` accepts is white space, a
stream of documents of the grammar (lenient white space, tokens that denote for the parser),
and possibly one last bare number token; the events delivered are exactly theirs -/
theorem accepted_is_stream (p : P) (hp : Reusable p) (b : Bytes) (h : (parse p b).2 = none) :
    ∃ ws0 ds fin, allSp ws0 = true ∧ (∀ d ∈ ds, Doc.goodL d = true) ∧ finOk fin = true ∧
      b = ws0 ++ (streamWire ds ++ fin) ∧
      (parse p b).1.evs = (streamEventsL ds ++ finEvents fin).reverse ++ p.evs := by
  have hi := idleN_reset hp
  rw [parse_eq_reset] at h ⊢
  unfold parseFrom at h ⊢
  rw [feedAll_run _ _ hi.1.wf.inv] at h ⊢
  cases hr : runA (resetP p) b with
  | mk q e =>
    rw [hr] at h
    cases e with
    | some e => simp [parseTail] at h
    | none =>
      simp only [parseTail] at h ⊢
      exact stream_conv b.length b (Nat.le_refl _) (resetP p) q hi hr h

/-- … on a fresh parser, with the events in delivery order -/
theorem accepted_is_stream_fresh (b : Bytes) (h : (parse {} b).2 = none) :
    ∃ ws0 ds fin, allSp ws0 = true ∧ (∀ d ∈ ds, Doc.goodL d = true) ∧ finOk fin = true ∧
      b = ws0 ++ (streamWire ds ++ fin) ∧
      events (parse {} b).1 = streamEventsL ds ++ finEvents fin := by
  obtain ⟨ws0, ds, fin, h1, h2, h3, h4, h5⟩ := accepted_is_stream {} ⟨rfl, rfl⟩ b h
  refine ⟨ws0, ds, fin, h1, h2, h3, h4, ?_⟩
  simp only [events, h5]
  simp

/-- THE REFINEMENT for the lenient grammar (the other direction): every such stream is
accepted, exactly its events are delivered, the parser is reusable again -/
theorem stream_is_accepted (p : P) (hp : Reusable p) (ws0 : Bytes) (ds : List Doc) (fin : Bytes)
    (h0 : allSp ws0 = true) (hd : ∀ d ∈ ds, Doc.goodL d = true) (hf : finOk fin = true) :
    (parse p (ws0 ++ (streamWire ds ++ fin))).2 = none ∧
    (parse p (ws0 ++ (streamWire ds ++ fin))).1.evs = (streamEventsL ds ++ finEvents fin).reverse ++ p.evs ∧
    Reusable (parse p (ws0 ++ (streamWire ds ++ fin))).1 := by
  have hi := idleN_reset hp
  obtain ⟨q, hq1, hq2, hq3, hq4, hq5⟩ := stream_runL ds hd fin hf ws0 h0 (resetP p) hi
  rw [parse_eq_reset]
  unfold parseFrom
  rw [feedAll_run _ _ hi.1.wf.inv, hq1]
  simp only [parseTail]
  exact ⟨hq2, hq3, by rw [hq4]; exact hp.1, by rw [hq5]; exact hp.2⟩

/-- EXACTNESS: `Parse` accepts `b` if and only if `b` is white space, a stream of documents
of the lenient grammar and possibly one last bare number token -/
theorem accepted_iff (b : Bytes) :
    (parse {} b).2 = none ↔
    ∃ ws0 ds fin, allSp ws0 = true ∧ (∀ d ∈ ds, Doc.goodL d = true) ∧ finOk fin = true ∧
      b = ws0 ++ (streamWire ds ++ fin) := by
  constructor
  · intro h
    obtain ⟨ws0, ds, fin, h1, h2, h3, h4, _⟩ := accepted_is_stream {} ⟨rfl, rfl⟩ b h
    exact ⟨ws0, ds, fin, h1, h2, h3, h4⟩
  · rintro ⟨ws0, ds, fin, h1, h2, h3, rfl⟩
    exact (stream_is_accepted {} ⟨rfl, rfl⟩ ws0 ds fin h1 h2 h3).1

/-- C04, last clause: an input whose structure is not that of a stream of JSON texts is
rejected with an error -/
theorem not_stream_is_rejected (b : Bytes)
    (h : ¬ ∃ ws0 ds fin, allSp ws0 = true ∧ (∀ d ∈ ds, Doc.goodL d = true) ∧ finOk fin = true ∧
      b = ws0 ++ (streamWire ds ++ fin)) :
    ∃ e, (parse {} b).2 = some e := by
  cases hr : (parse {} b).2 with
  | some e => exact ⟨e, rfl⟩
  | none => exact absurd ((accepted_iff b).mp hr) h

/-- … and for EVERY CHUNKING (`Write` per chunk, then end of input — `ParseReader`): if no
error is returned, the bytes written are such a stream and the events are its events -/
theorem accepted_chunks_is_stream (cs : List Bytes) (h : (writeChunks {} cs).2 = none) :
    ∃ ws0 ds fin, allSp ws0 = true ∧ (∀ d ∈ ds, Doc.goodL d = true) ∧ finOk fin = true ∧
      cs.flatten = ws0 ++ (streamWire ds ++ fin) ∧
      events (writeChunks {} cs).1 = streamEventsL ds ++ finEvents fin := by
  obtain ⟨k1, k2⟩ := SF.Json.ParseTop.json_writeChunks_eq_parse none cs
  have e : init none = ({} : P) := rfl
  rw [e] at k1 k2
  rw [k1] at h
  rw [k2]
  exact accepted_is_stream_fresh cs.flatten h

/-! ## the strict notions of the refinement theorem imply the lenient ones -/

theorem good_goodL (d : Doc) (h : d.good) : Doc.goodL d = true ∧ d.1.eventsL = d.1.events := by
  obtain ⟨h1, h2, h3, h4⟩ := h
  refine ⟨?_, J.eventsL_of_sem d.1 h2⟩
  simp only [Doc.goodL, J.okL_of_ok d.1 h1, (J.semL_of_sem d.1 h2).1, allSp_of_allWs h3, Bool.and_self, Bool.true_and]
  apply imp_bool
  intro hn
  have := h4 hn
  cases hd : d.2 with
  | nil => exact absurd hd this
  | cons a t =>
    rw [hd] at h3
    simp only [allWs, List.all_cons, Bool.and_eq_true] at h3
    exact (isWs_space a h3.1).2

/-! ## non-vacuity and the leniencies, evaluated by the kernel -/

/-- (non-vacuity) `{"a":[1,"x"],⏎"b":null }` is accepted; it is ONE document of the grammar
(`sample` of SF/Proofs/JsonGrammar.lean), strictly and leniently well-formed -/
example : (parse {} sample.wire).2 = none ∧ Doc.goodL (sample, []) = true ∧ sample.ok = true ∧
    events (parse {} sample.wire).1 = streamEventsL [(sample, [])] := by decide +kernel

/-- (L1) white space: `<0x85>[<0x0b>1<0x0c><0xa0>]<0xa0>` is accepted and is a document of the
lenient grammar, not of the strict one; `[1<0x85>]` and `1<0x0b>` are rejected (the token does
not end at a byte that is white space but no stop character), and so the lenient grammar
does not contain them either -/
example :
    (parse {} [0x85, 0x5b, 0x0b, 0x31, 0x0c, 0xa0, 0x5d, 0xa0]).2 = none ∧
    Doc.goodL (.arr [0x0b] (.elems (.num [0x31]) [0x0c, 0xa0] .close), [0xa0]) = true ∧
    (J.arr [0x0b] (.elems (.num [0x31]) [0x0c, 0xa0] .close)).ok = false ∧
    (parse {} [0x5b, 0x31, 0x85, 0x5d]).2 = some .invalidNumber ∧
    (J.arr [] (.elems (.num [0x31]) [0x85] .close)).okL = false ∧
    (parse {} [0x31, 0x0b]).2 = some .invalidNumber := by decide +kernel

/-- (L2) documents of a stream need no separator — `nulltrue`, `"a""b"`, `[]{}`, `null1` —
unless the first is a bare number: `1null`, `1[]` are errors; `1 2` is two documents -/
example :
    events (parse {} [0x6e, 0x75, 0x6c, 0x6c, 0x74, 0x72, 0x75, 0x65]).1 = [.null, .bool true] ∧
    (parse {} [0x6e, 0x75, 0x6c, 0x6c, 0x74, 0x72, 0x75, 0x65]).2 = none ∧
    (parse {} [0x22, 0x61, 0x22, 0x22, 0x62, 0x22]).2 = none ∧
    (parse {} [0x5b, 0x5d, 0x7b, 0x7d]).2 = none ∧
    events (parse {} [0x6e, 0x75, 0x6c, 0x6c, 0x31]).1 = [.null, .num .i64 1] ∧
    (parse {} [0x31, 0x6e, 0x75, 0x6c, 0x6c]).2 = some .invalidNumber ∧
    (parse {} [0x31, 0x5b, 0x5d]).2 = some .invalidNumber ∧
    events (parse {} [0x31, 0x20, 0x32]).1 = [.num .i64 1, .num .i64 2] := by decide +kernel

/-- (L2) … and the structure inside containers is strict: `[nulltrue]`, `[1 2]`, `[1,]`, `[,1]`,
`[1,,2]`, `{"a":1,}`, `{"a" 1}`, `{"a":}`, `{"a"::1}`, `{1:2}`, `[1}`, `]`, `1,2`, `[1:2]` are errors -/
example :
    (parse {} [0x5b, 0x6e, 0x75, 0x6c, 0x6c, 0x74, 0x72, 0x75, 0x65, 0x5d]).2 = some .unknownChar ∧
    (parse {} [0x5b, 0x31, 0x20, 0x32, 0x5d]).2 = some .unknownChar ∧
    (parse {} [0x5b, 0x31, 0x2c, 0x5d]).2 = some .unknownChar ∧
    (parse {} [0x5b, 0x2c, 0x31, 0x5d]).2 = some .unknownChar ∧
    (parse {} [0x5b, 0x31, 0x2c, 0x2c, 0x32, 0x5d]).2 = some .unknownChar ∧
    (parse {} [0x7b, 0x22, 0x61, 0x22, 0x3a, 0x31, 0x2c, 0x7d]).2 = some .unexpectedDictClose ∧
    (parse {} [0x7b, 0x22, 0x61, 0x22, 0x20, 0x31, 0x7d]).2 = some .expectColon ∧
    (parse {} [0x7b, 0x22, 0x61, 0x22, 0x3a, 0x7d]).2 = some .unknownChar ∧
    (parse {} [0x7b, 0x22, 0x61, 0x22, 0x3a, 0x3a, 0x31, 0x7d]).2 = some .unknownChar ∧
    (parse {} [0x7b, 0x31, 0x3a, 0x32, 0x7d]).2 = some .expectedFieldName ∧
    (parse {} [0x5b, 0x31, 0x7d]).2 = some .unknownChar ∧
    (parse {} [0x5d]).2 = some .unknownChar ∧
    (parse {} [0x31, 0x2c, 0x32]).2 = some .unknownChar ∧
    (parse {} [0x5b, 0x31, 0x3a, 0x32, 0x5d]).2 = some .invalidNumber := by decide +kernel

/-- (L2) … and truncated input is an error: `[1`, `{"a":1`, `tru`, `"abc` -/
example :
    (parse {} [0x5b, 0x31]).2 = some .incomplete ∧
    (parse {} [0x7b, 0x22, 0x61, 0x22, 0x3a, 0x31]).2 = some .incomplete ∧
    (parse {} [0x74, 0x72, 0x75]).2 = some .incomplete ∧
    (parse {} [0x22, 0x61, 0x62, 0x63]).2 = some .incomplete := by decide +kernel

/-- (L3) number tokens: `+5`, `007`, `.5`, `5.`, `1_0.0`, `0x1.8p1` are accepted (each as the last
bare token of the input, `finOk`); `-`, `.`, `0x10`, `--1`, `1e` are errors -/
example :
    events (parse {} [0x2b, 0x35]).1 = [.num .i64 5] ∧ finOk [0x2b, 0x35] = true ∧
    events (parse {} [0x30, 0x30, 0x37]).1 = [.num .i64 7] ∧
    (parse {} [0x2e, 0x35]).2 = none ∧ (parse {} [0x35, 0x2e]).2 = none ∧
    (parse {} [0x31, 0x5f, 0x30, 0x2e, 0x30]).2 = none ∧
    (parse {} [0x30, 0x78, 0x31, 0x2e, 0x38, 0x70, 0x31]).2 = none ∧
    finOk [0x30, 0x78, 0x31, 0x2e, 0x38, 0x70, 0x31] = true ∧
    (parse {} [0x2d]).2 = some .expectedDigit ∧ (parse {} [0x2e]).2 = some .parseFloat ∧
    (parse {} [0x30, 0x78, 0x31, 0x30]).2 = some .invalidNumber ∧
    (parse {} [0x2d, 0x2d, 0x31]).2 = some .invalidNumber ∧
    (parse {} [0x31, 0x65]).2 = some .parseFloat := by decide +kernel

/-- (L4) string tokens: `"\'"` and `"<0xff>"` are accepted, `"\x"` and a raw line feed are
errors; the duplicate key in `{"a":1,"a":2}` is accepted -/
example :
    events (parse {} [0x22, 0x5c, 0x27, 0x22]).1 = [.str [0x27]] ∧
    events (parse {} [0x22, 0xff, 0x22]).1 = [.str [0xff]] ∧
    Doc.goodL (.str [0xff], []) = true ∧ (J.str [0xff]).sem = false ∧
    (parse {} [0x22, 0x5c, 0x78, 0x22]).2 = some .unquoteUnknownEscape ∧
    (parse {} [0x22, 0x0a, 0x22]).2 = some .unquoteInvalidChar ∧
    (parse {} [0x7b, 0x22, 0x61, 0x22, 0x3a, 0x31, 0x2c, 0x22, 0x61, 0x22, 0x3a, 0x32, 0x7d]).2 = none := by
  decide +kernel

end SF.Props.JsonConverse
