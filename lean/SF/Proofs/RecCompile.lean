/-
  The compile phase of the mirror on good types over menagerie members (`goodR`), one level
  at a time: as `FoldCompile`, plus the forwarding registry entries of types under compilation.
-/
import SF.Proofs.RecUniv
import SF.Proofs.FoldCompile
namespace SF.FoldRec
open SF SF.Gotype SF.Gotype.Fold SF.FoldProofs

/-- the type has a forwarding registry entry: it is under compilation -/
def isOpen (op : Open) (t : GoType) : Bool := (t.menagerieName?.map op.norm.contains).getD false

/-- the same for the (type, inline) key -/
def isOpenInl (op : Open) (t : GoType) : Bool := (t.menagerieName?.map op.inl.contains).getD false

theorem isOpen_empty (t : GoType) : isOpen {} t = false := by
  unfold isOpen
  cases t.menagerieName? <;> rfl

section
variable {ns : List String} {D : Nat} (hM : MenOK ns D)
include hM

theorem grf_whnfR (cf : Nat) (o : FoldOpts) (op : Open) {T : GoType} (h : goodR ns T = true) :
    getReflectFold cf o op T = getReflectFold cf o op T.whnf := by
  cases cf with
  | zero => rfl
  | succ cf =>
    conv => lhs; unfold getReflectFold
    conv => rhs; unfold getReflectFold
    simp only [whnf_whnf hM h]

theorem grfR (cf : Nat) (o : FoldOpts) (op : Open) {T : GoType} (h : goodR ns T = true) (hw : T.whnf = T) :
    getReflectFold (cf + 1) o op T =
      if isOpen op T then .ok (.forward T) else
      match getReflectFoldPrimitive T with
      | some f => .ok f
      | none =>
        match (generalizing := false) T.under with
        | .ptr _ => getFoldPointer cf o (op.enter T) T
        | .struct fs => getReflectFoldStruct cf o (op.enter T) fs false
        | .map _ _ => getReflectFoldMap cf o (op.enter T) T
        | .slice _ | .array _ _ => getReflectFoldSlice cf o (op.enter T) T
        | .iface => .ok .ifaceElem
        | _ => getReflectFoldPrimitiveKind T := by
  unfold getReflectFold
  simp only [hw, userReg_goodR hM o h, isOpen, implementsFolder_goodR hM h, implementsPtrFolder_goodR hM h,
    Bool.or_self, Bool.false_eq_true, if_false]
  by_cases ho : (Option.map op.norm.contains T.menagerieName?).getD false = true
  · simp only [ho, if_true]
  · simp only [ho, Bool.false_eq_true, if_false]
    cases getReflectFoldPrimitive T with
    | some f => rfl
    | none =>
      simp only []
      cases T.under <;> rfl

/-- closed: no forwarding entry for the type -/
theorem grf_closed (cf : Nat) (o : FoldOpts) (op : Open) {T : GoType} (h : goodR ns T = true)
    (hw : T.whnf = T) (hno : isOpen op T = false) :
    getReflectFold (cf + 1) o op T =
      match getReflectFoldPrimitive T with
      | some f => .ok f
      | none =>
        match (generalizing := false) T.under with
        | .ptr _ => getFoldPointer cf o (op.enter T) T
        | .struct fs => getReflectFoldStruct cf o (op.enter T) fs false
        | .map _ _ => getReflectFoldMap cf o (op.enter T) T
        | .slice _ | .array _ _ => getReflectFoldSlice cf o (op.enter T) T
        | .iface => .ok .ifaceElem
        | _ => getReflectFoldPrimitiveKind T := by
  rw [grfR hM cf o op h hw, hno]
  rfl

theorem grf_open (cf : Nat) (o : FoldOpts) (op : Open) {T : GoType} (h : goodR ns T = true)
    (hw : T.whnf = T) (ho : isOpen op T = true) :
    getReflectFold (cf + 1) o op T = .ok (.forward T) := by
  rw [grfR hM cf o op h hw, ho]
  rfl

/-- a normalized good type: unnamed, or a named type -/
theorem headKindR {T : GoType} (h : goodR ns T = true) (hw : T.whnf = T) :
    unnamedHead T = true ∨ ∃ n m u, T = .named n m u := by
  rcases whnfR hM h with ⟨_, hu⟩ | ⟨n, u, hT, h2, _⟩
  · exact Or.inl hu
  · rcases hT with rfl | rfl
    · rw [h2] at hw; cases hw
    · exact Or.inr ⟨_, _, _, rfl⟩

theorem noPrimitive_of_underR {T : GoType} (h : goodR ns T = true) (hw : T.whnf = T)
    (hp : unnamedHead T = true → getReflectFoldPrimitive T.under = none) : noPrimitive T := by
  rcases headKindR hM h hw with hu | ⟨nm, m, u, rfl⟩
  · have := hp hu
    rw [under_unnamed hu] at this
    exact this
  · rfl

theorem grf_primkindR (cf : Nat) (o : FoldOpts) (op : Open) {T : GoType} {p : Prim}
    (hg : goodR ns T = true) (hw : T.whnf = T) (hno : isOpen op T = false) (h : primOf? T.under = some p) :
    getReflectFold (cf + 1) o op T = .ok (.prim p) := by
  rw [grf_closed hM cf o op hg hw hno]
  rcases headKindR hM hg hw with hu | ⟨nm, m, u, rfl⟩
  · rw [under_unnamed hu] at h ⊢
    cases T <;> first
      | (simp only [primOf?, Option.some.injEq, reduceCtorEq] at h; subst h; rfl)
      | (simp [primOf?] at h; done)
  · simp only [GoType.under] at h
    have hu : unnamedHead u = true := (canonR hM hg).2.2.1
    simp only [getReflectFoldPrimitive, primOf?, Option.map_none, GoType.under]
    cases u <;> first
      | (simp only [primOf?, Option.some.injEq, reduceCtorEq] at h; subst h; rfl)
      | (simp [primOf?] at h; done)
      | (simp [unnamedHead] at hu)

theorem grf_sliceR (cf : Nat) (o : FoldOpts) (op : Open) {T e : GoType}
    (hg : goodR ns T = true) (hw : T.whnf = T) (hno : isOpen op T = false)
    (hu : T.under = .slice e) (hn : noPrimitive T) :
    getReflectFold (cf + 2) o op T =
      match getReflectFold cf o (op.enter T) e with
      | .error x => .error x
      | .ok el => .ok (.slice el) := by
  rw [grf_closed hM (cf + 1) o op hg hw hno, hn]
  simp only [hu]
  rw [getReflectFoldSlice, elem_of_under.1 e hu]
  rfl

theorem noPrimitive_shape {T : GoType} (hg : goodR ns T = true) (hw : T.whnf = T)
    (hu : (∃ n e, T.under = .array n e) ∨ (∃ e, T.under = .ptr e) ∨ (∃ fs, T.under = .struct fs) ∨
      T.under = .iface ∨ (∃ e, T.under = .chan e) ∨ (∃ k, T.under = .other k)) : noPrimitive T := by
  refine noPrimitive_of_underR hM hg hw ?_
  intro _
  rcases hu with ⟨n, e, h⟩ | ⟨e, h⟩ | ⟨fs, h⟩ | h | ⟨e, h⟩ | ⟨k, h⟩ <;> rw [h] <;> rfl

theorem grf_arrayR (cf : Nat) (o : FoldOpts) (op : Open) {T e : GoType} {n : Nat}
    (hg : goodR ns T = true) (hw : T.whnf = T) (hno : isOpen op T = false) (hu : T.under = .array n e) :
    getReflectFold (cf + 2) o op T =
      match getReflectFold cf o (op.enter T) e with
      | .error x => .error x
      | .ok el => .ok (.slice el) := by
  rw [grf_closed hM (cf + 1) o op hg hw hno, noPrimitive_shape hM hg hw (Or.inl ⟨n, e, hu⟩)]
  simp only [hu]
  rw [getReflectFoldSlice, elem_of_under.2.1 n e hu]
  rfl

theorem grf_ifaceR (cf : Nat) (o : FoldOpts) (op : Open) {T : GoType}
    (hg : goodR ns T = true) (hw : T.whnf = T) (hno : isOpen op T = false) (hu : T.under = .iface) :
    getReflectFold (cf + 1) o op T = .ok .ifaceElem := by
  rw [grf_closed hM cf o op hg hw hno, noPrimitive_shape hM hg hw (Or.inr (Or.inr (Or.inr (Or.inl hu))))]
  simp only [hu]

theorem grf_unsupportedR (cf : Nat) (o : FoldOpts) (op : Open) {T : GoType}
    (hg : goodR ns T = true) (hw : T.whnf = T) (hno : isOpen op T = false)
    (hu : (∃ e, T.under = .chan e) ∨ (∃ k, T.under = .other k)) :
    getReflectFold (cf + 1) o op T = .error (.err .unsupported) := by
  have hn : noPrimitive T := by
    rcases hu with h | h
    · exact noPrimitive_shape hM hg hw (Or.inr (Or.inr (Or.inr (Or.inr (Or.inl h)))))
    · exact noPrimitive_shape hM hg hw (Or.inr (Or.inr (Or.inr (Or.inr (Or.inr h)))))
  rw [grf_closed hM cf o op hg hw hno, hn]
  rcases hu with ⟨e, hu⟩ | ⟨k, hu⟩ <;> simp [hu, getReflectFoldPrimitiveKind, primOf?]

theorem grf_mapR (cf : Nat) (o : FoldOpts) (op : Open) {T k e : GoType}
    (hg : goodR ns T = true) (hw : T.whnf = T) (hno : isOpen op T = false)
    (hu : T.under = .map k e) (hn : noPrimitive T) :
    getReflectFold (cf + 3) o op T =
      match getReflectFoldMapKeys (cf + 1) o (op.enter T) T with
      | .error x => .error x
      | .ok it => .ok (.mapFold it) := by
  rw [grf_closed hM (cf + 2) o op hg hw hno, hn]
  simp only [hu]
  rw [getReflectFoldMap]
  rfl

theorem grf_ptrR (cf : Nat) (o : FoldOpts) (op : Open) {T e : GoType}
    (hg : goodR ns T = true) (hw : T.whnf = T) (hno : isOpen op T = false) (hu : T.under = .ptr e) :
    getReflectFold (cf + 2) o op T =
      match getReflectFold cf o (op.enter T) (baseType T).2 with
      | .error x => .error x
      | .ok el => .ok (makePointerFold (baseType T).1 el) := by
  rw [grf_closed hM (cf + 1) o op hg hw hno,
    noPrimitive_shape hM hg hw (Or.inr (Or.inl ⟨e, hu⟩))]
  simp only [hu]
  rw [getFoldPointer]
  rfl

theorem grf_structR (cf : Nat) (o : FoldOpts) (op : Open) {T : GoType} {fs : List Field}
    (hg : goodR ns T = true) (hw : T.whnf = T) (hno : isOpen op T = false) (hu : T.under = .struct fs) :
    getReflectFold (cf + 1) o op T = getReflectFoldStruct cf o (op.enter T) fs false := by
  rw [grf_closed hM cf o op hg hw hno,
    noPrimitive_shape hM hg hw (Or.inr (Or.inr (Or.inl ⟨fs, hu⟩)))]
  simp only [hu]

/-! ## pointers -/

theorem under_refR {n : String} (h : goodR ns (.ref n) = true) :
    ∃ u, (GoType.ref n).under = u ∧ unnamedHead u = true ∧ (∀ e, u ≠ .ptr e) ∧ goodR ns u = true ∧ tdepth u ≤ D := by
  rcases whnfR hM h with ⟨_, hu⟩ | ⟨n', u, hT, h2, h3, h4, h5, h6, _⟩
  · simp [unnamedHead] at hu
  · refine ⟨u, ?_, h3, h4, h5, by omega⟩
    rw [← under_whnf hM h, h2]
    rfl

theorem headKind_of_ptr {T e : GoType} (h : goodR ns T = true) (hu : T.under = .ptr e) :
    unnamedHead T = true ∨ ∃ n m u, T = .named n m u := by
  cases T <;> first | exact Or.inl rfl | exact Or.inr ⟨_, _, _, rfl⟩ | skip
  obtain ⟨u, h1, _, h3, _⟩ := under_refR hM h
  rw [h1] at hu
  exact absurd hu (h3 e)

theorem stripPtr_ptrR {T e : GoType} (h : goodR ns T = true) (hu : T.under = .ptr e) :
    stripPtr T = ((stripPtr e).1 + 1, (stripPtr e).2) :=
  stripPtr_of_under_ptr hu (headKind_of_ptr hM h hu)

omit hM in
theorem stripPtr_nonptrR {T : GoType} (hu : ∀ e, T.under ≠ .ptr e) : stripPtr T = (0, T) := by
  cases T <;> first
    | rfl
    | (exact absurd rfl (hu _))
    | (rename_i n m u
       cases u <;> first | rfl | (exact absurd rfl (hu _)))

theorem good_elem_ptrR {T e : GoType} (h : goodR ns T = true) (hu : T.under = .ptr e) : goodR ns e = true := by
  have := (good_underR hM h).1
  rw [hu] at this
  simpa [goodR] using this

/-- induction along the pointer chain of a good type -/
theorem strip_inductionR (P : GoType → Prop)
    (base : ∀ T, goodR ns T = true → (∀ e, T.under ≠ .ptr e) → stripPtr T = (0, T) → P T)
    (step : ∀ T e, goodR ns T = true → T.under = .ptr e → goodR ns e = true →
      stripPtr T = ((stripPtr e).1 + 1, (stripPtr e).2) → P e → P T) :
    ∀ T, goodR ns T = true → P T := by
  have key : ∀ n T, goodR ns T = true → (stripPtr T).1 = n → P T := by
    intro n
    induction n with
    | zero =>
      intro T hg h0
      by_cases hp : ∃ e, T.under = .ptr e
      · obtain ⟨e, he⟩ := hp
        rw [stripPtr_ptrR hM hg he] at h0
        simp at h0
      · have hnp : ∀ e, T.under ≠ .ptr e := fun e he => hp ⟨e, he⟩
        exact base T hg hnp (stripPtr_nonptrR hnp)
    | succ n ih =>
      intro T hg hn
      by_cases hp : ∃ e, T.under = .ptr e
      · obtain ⟨e, he⟩ := hp
        have hs := stripPtr_ptrR hM hg he
        have hge := good_elem_ptrR hM hg he
        rw [hs] at hn
        exact step T e hg he hge hs (ih e hge (by simpa using hn))
      · have hnp : ∀ e, T.under ≠ .ptr e := fun e he => hp ⟨e, he⟩
        rw [stripPtr_nonptrR hnp] at hn
        simp at hn
  intro T hg
  exact key _ T hg rfl

theorem good_stripPtrR : ∀ T, goodR ns T = true → goodR ns (stripPtr T).2 = true := by
  refine strip_inductionR hM _ ?_ ?_
  · intro T hg _ hs; rw [hs]; exact hg
  · intro T e _ _ _ hs ih; rw [hs]; exact ih

theorem stripPtr_not_ptrR : ∀ T, goodR ns T = true → ∀ e, (stripPtr T).2.under ≠ .ptr e := by
  refine strip_inductionR hM _ ?_ ?_
  · intro T _ hnp hs; rw [hs]; exact hnp
  · intro T e _ _ _ hs ih; rw [hs]; exact ih

theorem baseTypeF_stripR (fuel : Nat) : ∀ T, goodR ns T = true → (stripPtr T).1 ≤ fuel →
    baseTypeF fuel T = stripPtr T := by
  induction fuel with
  | zero =>
    intro T h hf
    by_cases hp : ∃ e, T.under = .ptr e
    · obtain ⟨e, he⟩ := hp
      rw [stripPtr_ptrR hM h he] at hf
      simp at hf
    · rw [stripPtr_nonptrR (fun e he => hp ⟨e, he⟩)]
      rfl
  | succ n ih =>
    intro T h hf
    by_cases hp : ∃ e, T.under = .ptr e
    · obtain ⟨e, he⟩ := hp
      rw [stripPtr_ptrR hM h he] at hf ⊢
      simp only [baseTypeF, he]
      rw [ih e (good_elem_ptrR hM h he) (by simp at hf; omega)]
    · rw [stripPtr_nonptrR (fun e he => hp ⟨e, he⟩)]
      simp only [baseTypeF]
      cases hu : T.under <;> first | rfl | (exact absurd ⟨_, hu⟩ hp)

theorem baseType_goodR {T : GoType} (h : goodR ns T = true) (hd : tdepth T ≤ 1000) :
    baseType T = stripPtr T :=
  baseTypeF_stripR hM 1000 T h (Nat.le_trans (stripPtr_le_tdepth T) hd)

/-! ## inline fields -/

theorem ffgiR (cf : Nat) (o : FoldOpts) (op : Open) {t : GoType} (h : goodR ns t = true) :
    fieldFoldGenInline (cf + 1) o op t =
      match (generalizing := false) t.under with
      | .struct fs => getReflectFoldStruct cf o op fs true
      | .map _ _ => getReflectFoldMapKeys cf o op t.whnf
      | .iface => .ok (.embedd .inlineIface)
      | _ => .error (.err .squashNeedObject) := by
  unfold fieldFoldGenInline
  have hgw := good_whnf hM h
  simp only [userReg_goodR hM o hgw, implementsFolder_goodR hM hgw, implementsPtrFolder_goodR hM hgw,
    Bool.or_self, Bool.false_eq_true, if_false, under_whnf hM h]
  cases t.under <;> rfl

omit hM in
theorem bffiR (cf : Nat) (o : FoldOpts) (op : Open) (f : Field) (idx : Nat) :
    buildFieldFoldInline (cf + 1) o op f idx =
      if isOpenInl op (baseType f.typ).2.whnf then
        .ok (.fieldInline idx (makeInlinePointerFold (baseType f.typ).1 (.forwardInline (baseType f.typ).2)))
      else
        match fieldFoldGenInline cf o (enterInl op (baseType f.typ).2.whnf) (baseType f.typ).2 with
        | .error e => .error e
        | .ok base => .ok (.fieldInline idx (makeInlinePointerFold (baseType f.typ).1 base)) := by
  unfold buildFieldFoldInline isOpenInl
  by_cases ho : (Option.map op.inl.contains (baseType f.typ).2.whnf.menagerieName?).getD false = true
  · simp only [ho, if_true]
  · simp only [ho, Bool.false_eq_true, if_false]
    unfold enterInl
    cases (baseType f.typ).2.whnf.menagerieName? <;> rfl

end

end SF.FoldRec
