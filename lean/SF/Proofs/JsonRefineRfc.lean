/-
  C04 for the JSON parser mirror, strings: EVERY RFC 8259 string token — `isJsonString` of
  SF/Proofs/JsonEncStr.lean: quotation mark, then unescaped characters (well-formed UTF-8,
  RFC 3629, of code points ≥ U+0020 other than `"` and `\`) and escapes
  `\" \\ \/ \b \f \n \r \t \uXXXX`, then the quotation mark — is accepted by the reference
  lexer `Cst.lexString`; so by `strVal_unquote` the parser delivers the reference value of
  every RFC 8259 string token.
-/
import SF.Proofs.JsonEncStr
import SF.Proofs.JsonRefineStr
set_option linter.unusedSimpArgs false
namespace SF.Json.ParseP
open SF SF.Json SF.Json.Parse SF.Json.Enc SF.Json.Utf8

theorem isHexDigit_val : ∀ c : UInt8, isHexDigit c = true → (Cst.hexVal c).isSome = true := by
  apply forall_uint8; decide +kernel

theorem hex4_ok (h1 h2 h3 h4 : UInt8) (tl : Bytes) (a1 : isHexDigit h1 = true) (a2 : isHexDigit h2 = true)
    (a3 : isHexDigit h3 = true) (a4 : isHexDigit h4 = true) :
    ∃ r, Cst.hex4 (h1 :: h2 :: h3 :: h4 :: tl) = .ok (r, tl) := by
  obtain ⟨v1, e1⟩ := Option.isSome_iff_exists.mp (isHexDigit_val h1 a1)
  obtain ⟨v2, e2⟩ := Option.isSome_iff_exists.mp (isHexDigit_val h2 a2)
  obtain ⟨v3, e3⟩ := Option.isSome_iff_exists.mp (isHexDigit_val h3 a3)
  obtain ⟨v4, e4⟩ := Option.isSome_iff_exists.mp (isHexDigit_val h4 a4)
  exact ⟨((v1 * 16 + v2) * 16 + v3) * 16 + v4, by simp [Cst.hex4, e1, e2, e3, e4]⟩

/-- a well-formed multi-byte sequence at the head, as `strChars` checks it -/
theorem strChars_mb (b : UInt8) (tl : Bytes) (h1 : (b == 0x22) = false) (h2 : (b == 0x5C) = false)
    (h3 : ¬ b.toNat < 0x20) (h4 : ¬ b.toNat < 0x80) (h : strChars (b :: tl) = true) :
    ∃ c n, mbDecode (b :: tl) = some (c, n) ∧ strChars ((b :: tl).drop n) = true := by
  rw [strChars_cons] at h
  simp only [h1, h2, h3, h4, Bool.false_eq_true, if_false] at h
  match tl, h with
  | [], h => simp at h
  | b1 :: tl1, h =>
    change (if V2 b.toNat b1.toNat then _ else _) = true at h
    by_cases v2 : V2 b.toNat b1.toNat
    · rw [if_pos v2] at h
      refine ⟨(b.toNat % 32) * 64 + b1.toNat % 64, 2, ?_, by simpa using h⟩
      show (if V2 b.toNat b1.toNat then some (_, 2) else _) = some (_, 2)
      rw [if_pos v2]
    · rw [if_neg v2] at h
      match tl1, h with
      | [], h => simp at h
      | b2 :: tl2, h =>
        change (if V3 b.toNat b1.toNat b2.toNat then _ else _) = true at h
        by_cases v3 : V3 b.toNat b1.toNat b2.toNat
        · rw [if_pos v3] at h
          refine ⟨(b.toNat % 16) * 4096 + (b1.toNat % 64) * 64 + b2.toNat % 64, 3, ?_, by simpa using h⟩
          show (if V2 b.toNat b1.toNat then _ else (if V3 b.toNat b1.toNat b2.toNat then some (_, 3) else _)) = some (_, 3)
          rw [if_neg v2, if_pos v3]
        · rw [if_neg v3] at h
          match tl2, h with
          | [], h => simp at h
          | b3 :: tl3, h =>
            change (if V4 b.toNat b1.toNat b2.toNat b3.toNat then _ else _) = true at h
            by_cases v4 : V4 b.toNat b1.toNat b2.toNat b3.toNat
            · rw [if_pos v4] at h
              refine ⟨(b.toNat % 8) * 262144 + (b1.toNat % 64) * 4096 + (b2.toNat % 64) * 64 + b3.toNat % 64, 4, ?_,
                by simpa using h⟩
              show (if V2 b.toNat b1.toNat then _ else (if V3 b.toNat b1.toNat b2.toNat then _ else
                (if V4 b.toNat b1.toNat b2.toNat b3.toNat then some (_, 4) else _))) = some (_, 4)
              rw [if_neg v2, if_neg v3, if_pos v4]
            · rw [if_neg v4] at h
              simp at h

theorem isSimpleEscape_cases (e : UInt8) (h : isSimpleEscape e = true) :
    e = 0x22 ∨ e = 0x5C ∨ e = 0x2F ∨ e = 0x62 ∨ e = 0x66 ∨ e = 0x6E ∨ e = 0x72 ∨ e = 0x74 := by
  simpa [isSimpleEscape, or_assoc] using h

/-- the reference lexer accepts everything `strChars` accepts, and stops at the end -/
theorem strChars_lex (n : Nat) : ∀ (body acc : Bytes) (f : Nat), body.length ≤ n → strChars body = true →
    body.length ≤ f → ∃ s, Cst.lexString f body acc = .ok (s, []) := by
  induction n with
  | zero =>
    intro body acc f hn h _
    have : body = [] := by cases body <;> simp_all
    subst this; simp [strChars] at h
  | succ n ih =>
    intro body acc f hn h hf
    cases body with
    | nil => simp [strChars] at h
    | cons b tl =>
      obtain ⟨f', rfl⟩ : ∃ f', f = f' + 1 := ⟨f - 1, by simp at hf; omega⟩
      simp only [List.length_cons] at hn hf
      rw [Cst.lexString.eq_def]
      simp only
      by_cases hq : (b == 0x22) = true
      · rw [strChars_cons] at h
        simp only [hq, if_true] at h
        have : tl = [] := by simpa using h
        subst this
        exact ⟨acc.reverse, by simp only [hq, if_true]⟩
      have hq : (b == 0x22) = false := by simpa using hq
      by_cases hb : (b == 0x5C) = true
      · have hb92 : b = 0x5C := by simpa using hb
        subst hb92
        rw [strChars_cons] at h
        simp only [hq, hb, Bool.false_eq_true, if_false, if_true] at h ⊢
        match tl, h, hn, hf with
        | [], h, _, _ => simp at h
        | e :: tl1, h, hn, hf =>
          simp only [List.length_cons] at hn hf
          simp only at h ⊢
          by_cases hu : (e == 0x75) = true
          · have : e = 0x75 := by simpa using hu
            subst this
            simp only [beq_self_eq_true, if_true] at h
            match tl1, h, hn, hf with
            | h1 :: h2 :: h3 :: h4 :: tl2, h, hn, hf =>
              simp only [List.length_cons] at hn hf
              simp only [Bool.and_eq_true] at h
              obtain ⟨⟨⟨⟨a1, a2⟩, a3⟩, a4⟩, a5⟩ := h
              obtain ⟨r1, hx⟩ := hex4_ok h1 h2 h3 h4 tl2 a1 a2 a3 a4
              have d1 : ((117 : UInt8) == 34) = false := by decide
              have d2 : ((117 : UInt8) == 92) = false := by decide
              have d3 : ((117 : UInt8) == 47) = false := by decide
              have d4 : ((117 : UInt8) == 98) = false := by decide
              have d5 : ((117 : UInt8) == 102) = false := by decide
              have d6 : ((117 : UInt8) == 110) = false := by decide
              have d7 : ((117 : UInt8) == 114) = false := by decide
              have d8 : ((117 : UInt8) == 116) = false := by decide
              simp only [d1, d2, d3, d4, d5, d6, d7, d8, Bool.false_eq_true, if_false, beq_self_eq_true, if_true, hx]
              have cont2 : ∀ acc', ∃ s, Cst.lexString f' tl2 acc' = .ok (s, []) :=
                fun acc' => ih tl2 acc' f' (by omega) a5 (by omega)
              by_cases hhi : (decide (Utf8.surr1 ≤ r1) && decide (r1 < Utf8.surr2)) = true
              · simp only [hhi, if_true]
                split
                · rename_i rest3
                  -- the next escape is `\u` with four hex digits as well
                  rw [strChars_cons] at a5
                  have e1 : ((92 : UInt8) == 0x22) = false := by decide
                  have e2 : ((92 : UInt8) == 0x5C) = true := by decide
                  simp only [e1, e2, Bool.false_eq_true, if_false, if_true, beq_self_eq_true] at a5
                  match rest3, a5, hn, hf with
                  | g1 :: g2 :: g3 :: g4 :: tl3, a5, hn, hf =>
                    simp only [List.length_cons] at hn hf
                    simp only [Bool.and_eq_true] at a5
                    obtain ⟨⟨⟨⟨c1, c2⟩, c3⟩, c4⟩, c5⟩ := a5
                    obtain ⟨r2, hx2⟩ := hex4_ok g1 g2 g3 g4 tl3 c1 c2 c3 c4
                    simp only [hx2]
                    split
                    · exact ih tl3 _ f' (by omega) c5 (by omega)
                    · exact cont2 _
                  | [], a5, _, _ => simp at a5
                  | [_], a5, _, _ => simp at a5
                  | [_, _], a5, _, _ => simp at a5
                  | [_, _, _], a5, _, _ => simp at a5
                · exact cont2 _
              · have hhi : (decide (Utf8.surr1 ≤ r1) && decide (r1 < Utf8.surr2)) = false := by simpa using hhi
                simp only [hhi, Bool.false_eq_true, if_false]
                split
                · exact cont2 _
                · exact cont2 _
            | [], h, _, _ => simp at h
            | [_], h, _, _ => simp at h
            | [_, _], h, _, _ => simp at h
            | [_, _, _], h, _, _ => simp at h
          · have hu : (e == 0x75) = false := by simpa using hu
            simp only [hu, Bool.false_eq_true, if_false, Bool.and_eq_true] at h
            have cont1 : ∀ acc', ∃ s, Cst.lexString f' tl1 acc' = .ok (s, []) :=
              fun acc' => ih tl1 acc' f' (by omega) h.2 (by omega)
            rcases isSimpleEscape_cases e h.1 with rfl | rfl | rfl | rfl | rfl | rfl | rfl | rfl
            all_goals first
              | (simp only [beq_self_eq_true, if_true]; exact cont1 _)
              | (have d1 : ((92 : UInt8) == 34) = false := by decide
                 simp only [d1, beq_self_eq_true, if_true, Bool.false_eq_true, if_false]; exact cont1 _)
              | (have d1 : ((47 : UInt8) == 34) = false := by decide
                 have d2 : ((47 : UInt8) == 92) = false := by decide
                 simp only [d1, d2, beq_self_eq_true, if_true, Bool.false_eq_true, if_false]; exact cont1 _)
              | (have d1 : ((98 : UInt8) == 34) = false := by decide
                 have d2 : ((98 : UInt8) == 92) = false := by decide
                 have d3 : ((98 : UInt8) == 47) = false := by decide
                 simp only [d1, d2, d3, beq_self_eq_true, if_true, Bool.false_eq_true, if_false]; exact cont1 _)
              | (have d1 : ((102 : UInt8) == 34) = false := by decide
                 have d2 : ((102 : UInt8) == 92) = false := by decide
                 have d3 : ((102 : UInt8) == 47) = false := by decide
                 have d4 : ((102 : UInt8) == 98) = false := by decide
                 simp only [d1, d2, d3, d4, beq_self_eq_true, if_true, Bool.false_eq_true, if_false]; exact cont1 _)
              | (have d1 : ((110 : UInt8) == 34) = false := by decide
                 have d2 : ((110 : UInt8) == 92) = false := by decide
                 have d3 : ((110 : UInt8) == 47) = false := by decide
                 have d4 : ((110 : UInt8) == 98) = false := by decide
                 have d5 : ((110 : UInt8) == 102) = false := by decide
                 simp only [d1, d2, d3, d4, d5, beq_self_eq_true, if_true, Bool.false_eq_true, if_false]
                 exact cont1 _)
              | (have d1 : ((114 : UInt8) == 34) = false := by decide
                 have d2 : ((114 : UInt8) == 92) = false := by decide
                 have d3 : ((114 : UInt8) == 47) = false := by decide
                 have d4 : ((114 : UInt8) == 98) = false := by decide
                 have d5 : ((114 : UInt8) == 102) = false := by decide
                 have d6 : ((114 : UInt8) == 110) = false := by decide
                 simp only [d1, d2, d3, d4, d5, d6, beq_self_eq_true, if_true, Bool.false_eq_true, if_false]
                 exact cont1 _)
              | (have d1 : ((116 : UInt8) == 34) = false := by decide
                 have d2 : ((116 : UInt8) == 92) = false := by decide
                 have d3 : ((116 : UInt8) == 47) = false := by decide
                 have d4 : ((116 : UInt8) == 98) = false := by decide
                 have d5 : ((116 : UInt8) == 102) = false := by decide
                 have d6 : ((116 : UInt8) == 110) = false := by decide
                 have d7 : ((116 : UInt8) == 114) = false := by decide
                 simp only [d1, d2, d3, d4, d5, d6, d7, beq_self_eq_true, if_true, Bool.false_eq_true, if_false]
                 exact cont1 _)
      · have hb : (b == 0x5C) = false := by simpa using hb
        simp only [hq, hb, Bool.false_eq_true, if_false]
        by_cases hctl : b.toNat < 0x20
        · rw [strChars_cons] at h
          simp [hq, hb, hctl] at h
        have e3 : ¬ (b < 32) := by simpa [UInt8.lt_iff_toNat_lt] using hctl
        simp only [e3, if_false]
        by_cases hasc : b.toNat < 0x80
        · have e4 : b < 128 := by simpa [UInt8.lt_iff_toNat_lt] using hasc
          rw [strChars_cons] at h
          simp only [hq, hb, hctl, hasc, Bool.false_eq_true, if_false, if_true] at h
          simp only [e4, if_true]
          exact ih tl _ f' (by omega) h (by omega)
        · have e4 : ¬ (b < 128) := by simpa [UInt8.lt_iff_toNat_lt] using hasc
          simp only [e4, if_false]
          obtain ⟨c, m, hm, hrest⟩ := strChars_mb b tl hq hb hctl hasc h
          obtain ⟨m1, m2, m3, _⟩ := mbDecode_some hm
          have hd : decodeRune (b :: tl) = (c, m) := by
            rw [decodeRune_mb b tl (by omega), hm]; rfl
          rw [hd]
          have : ¬ (m ≤ 1) := by omega
          simp only [this, if_false]
          exact ih _ _ f' (by simp only [List.length_drop, List.length_cons]; omega) hrest
            (by simp only [List.length_drop, List.length_cons]; omega)

/-- EVERY RFC 8259 STRING TOKEN is accepted by the reference lexer: it has a `strVal` -/
theorem isJsonString_strVal (raw : Bytes) (h : isJsonString (0x22 :: (raw ++ [0x22])) = true) :
    ∃ s, strVal raw = some s := by
  have hs : strChars (raw ++ [0x22]) = true := by simpa [isJsonString] using h
  obtain ⟨s, hl⟩ := strChars_lex _ (raw ++ [0x22]) [] (raw.length + 1) (Nat.le_refl _) hs (by simp)
  exact ⟨s, by simp [strVal, hl]⟩

end SF.Json.ParseP
