/-
  C18 for the JSON PULL DECODER (mirror: SF/Json/Dec.lean), sequences of calls of `Next`:
  the trace `nextsF` (result and accumulated events of each call, up to and including the first
  call that does not succeed), and
    * `next_congr` / `nextsF_congr`: ARBITRARY BYTES — two decoders whose parsers are in the
      same state (up to the dead field `required`) and that are still going to see the same
      bytes, in whatever chunks, buffer sizes, with or without a parked `io.EOF`, or held in
      a byte slice, produce the same trace;
    * `next_safe` / `nextsF_safe`: no call reports `outOfFuel` or `panic`;
    * `nextsF_docs`, `next_end_idle`, `next_num_end`, `next_trunc`: the calls on a stream of
      grammatical documents, at its end, on a bare number at the very end, and on a stream
      that ends inside a value.
  Final statements: SF/Proofs/JsonDecTop.lean.
-/
import SF.Proofs.JsonDecNext
import SF.Proofs.JsonDecDoc
import SF.Proofs.JsonDecTrunc
import SF.Proofs.JsonRefineFault
set_option linter.unusedSimpArgs false
set_option linter.unusedVariables false
namespace SF.Json.DecP
open SF SF.Json SF.Json.Parse SF.Json.Float SF.Json.ParseP SF.Json.Dec SF.Json.Grammar

/-! ## sequences of calls -/

/-- repeated calls of `Next`, the i-th with `f d` loop iterations of fuel, stopping after the
first call that does not succeed; per call: the result and the events accumulated in the
parser (oldest first) -/
def nextsF (f : Dec → Nat) : Nat → Dec → List (NextRes × List Ev)
  | 0, _ => []
  | n + 1, d =>
    let r := next (f d) d
    (r.2, Parse.events r.1.p) :: (if r.2 == .ok then nextsF f n r.1 else [])

/-- … with the fuel the model hands out -/
abbrev nexts : Nat → Dec → List (NextRes × List Ev) := nextsF nextFuel

/-- THE FUEL NEEDED: a fuel function is sufficient if it grants every call at least `need d`
loop iterations: one per byte of the read script that is still to come, one per chunk, one for
the buffered bytes, two for the end of the stream -/
def Enough (f : Dec → Nat) : Prop := ∀ d, need d ≤ f d

/-- the fuel of the model (`nextFuel`) is sufficient -/
theorem enough_nextFuel : Enough nextFuel := need_le_nextFuel

theorem nextsF_succ (f : Dec → Nat) (n : Nat) (d : Dec) :
    nextsF f (n + 1) d =
      ((next (f d) d).2, Parse.events (next (f d) d).1.p) ::
        (if (next (f d) d).2 == .ok then nextsF f n (next (f d) d).1 else []) := rfl

/-! ## the end of the stream -/

theorem finV_eqv {p q : P} (h : Eqv p q) : finV q = finV p := by
  unfold finV
  rw [(finalize_eqv h).1, Eqv.cs h]

theorem finP_evs_eqv {p q : P} (h : Eqv p q) : (finP q).evs = (finP p).evs := (finalize_eqv h).2.1

theorem finP_eqv {p q : P} (h : Eqv p q) (hl : isLit (finP p).currentState = false) : Eqv (finP p) (finP q) := by
  obtain ⟨r, rfl, _⟩ := h
  unfold finP at hl ⊢
  rw [finalize_setReq]
  exact ⟨r, rfl, fun hc => by rw [hl] at hc; cases hc⟩

theorem finV_safe (p : P) (hw : ParseP.WF p) : finV p ≠ .err .outOfFuel ∧ finV p ≠ .err .panic := by
  have hs := finalize_safe_wf p hw
  unfold finV
  cases hf : (Parse.finalize p).2 with
  | none => simp only; split <;> simp
  | some e =>
    rw [hf] at hs
    simp only
    refine ⟨fun hc => ?_, fun hc => ?_⟩
    · injection hc with hc; subst hc; exact hs.2 rfl
    · injection hc with hc; subst hc; exact hs.1 rfl

/-- `finalize` accepts a state with an empty stack in startState as it is -/
theorem finalize_start (p : P) (hc : p.currentState = .startState) (hs : p.states = []) :
    Parse.finalize p = (p, none) := by
  unfold Parse.finalize
  simp [hc, hs]

theorem fin_start (p : P) (hc : p.currentState = .startState) (hs : p.states = []) :
    finV p = .eof ∧ finP p = p := by
  unfold finV finP
  rw [finalize_start p hc hs]
  simp [hc]

/-- end of input with a top-level number pending (`Next` returns ok): the state after -/
theorem fin_ok_state (p : P) (hw : ParseP.WF p) (h : finV p = .ok) :
    ParseP.WF (finP p) ∧ (finP p).currentState = .startState ∧ (finP p).states = [] := by
  unfold finV at h
  cases hf : (Parse.finalize p).2 with
  | some e => rw [hf] at h; cases h
  | none =>
    rw [hf] at h
    simp only at h
    have hn : p.currentState = .numberState := by
      by_cases hn : p.currentState = .numberState
      · exact hn
      · have : (p.currentState == St.numberState) = false := by simpa using hn
        rw [this] at h; cases h
    rcases finalize_none p hw hf with ⟨_, h2⟩ | ⟨⟨_, hst⟩, hrn⟩
    · rw [hn] at h2; cases h2
    · obtain ⟨_, evs, nevs, h2⟩ := reportNumber_spec p p.literalBuffer p.isDouble (hw.inv.num hn)
      have hfp : finP p = { p with evs := evs, nevs := nevs, currentState := .startState, states := [] } := by
        unfold finP Parse.finalize
        simp only [hn, beq_self_eq_true, if_true]
        cases hr : reportNumber p p.literalBuffer p.isDouble with
        | mk q e =>
          rw [hr] at h2 hrn
          simp only at h2 hrn
          subst h2; subst hrn
          simp [popState, hst]
      rw [hfp]
      refine ⟨⟨⟨by simp, by simp [isLit], by simp⟩, Or.inl ⟨rfl, rfl⟩⟩, rfl, rfl⟩

/-! ## ONE CALL on two decoders that are going to see the same bytes -/

/-- ONE CALL on two decoders whose parsers are in the same state (up to `Eqv`) with the same
remaining stream — split into chunks differently, read through buffers of different sizes,
with `io.EOF` arriving with the last data or after them, or held in a byte slice —, each with
sufficient fuel: same result, same accumulated events; after a successful call again the
same parser state (up to `Eqv`) and the same remaining stream -/
theorem next_congr (fuel₁ fuel₂ : Nat) (d₁ d₂ : Dec) (h₁ : DOK d₁) (h₂ : DOK d₂) (hw : ParseP.WF d₁.p)
    (hp : Eqv d₁.p d₂.p) (hs : stream d₁ = stream d₂) (hf₁ : need d₁ ≤ fuel₁) (hf₂ : need d₂ ≤ fuel₂) :
    (next fuel₁ d₁).2 = (next fuel₂ d₂).2 ∧ (next fuel₁ d₁).1.p.evs = (next fuel₂ d₂).1.p.evs ∧
    ((next fuel₁ d₁).2 = .ok →
      DOK (next fuel₁ d₁).1 ∧ DOK (next fuel₂ d₂).1 ∧ ParseP.WF (next fuel₁ d₁).1.p ∧
      Eqv (next fuel₁ d₁).1.p (next fuel₂ d₂).1.p ∧ stream (next fuel₁ d₁).1 = stream (next fuel₂ d₂).1) := by
  have hw₂ := eqv_wf hp hw
  obtain ⟨a1, a2⟩ := next_U fuel₁ d₁ h₁ hw hf₁
  obtain ⟨b1, b2⟩ := next_U fuel₂ d₂ h₂ hw₂ hf₂
  -- the end of the stream in states `q₁`, `q₂`
  have hfin : ∀ (q₁ q₂ : P) (x₁ x₂ : Dec × NextRes), ParseP.WF q₁ → Eqv q₁ q₂ →
      x₁.2 = finV q₁ → x₁.1.p = finP q₁ → stream x₁.1 = [] → DOK x₁.1 →
      x₂.2 = finV q₂ → x₂.1.p = finP q₂ → stream x₂.1 = [] → DOK x₂.1 →
      x₁.2 = x₂.2 ∧ x₁.1.p.evs = x₂.1.p.evs ∧
      (x₁.2 = .ok → DOK x₁.1 ∧ DOK x₂.1 ∧ ParseP.WF x₁.1.p ∧ Eqv x₁.1.p x₂.1.p ∧ stream x₁.1 = stream x₂.1) := by
    intro q₁ q₂ x₁ x₂ hq hqq s1 s2 s3 s4 t1 t2 t3 t4
    refine ⟨by rw [s1, t1, finV_eqv hqq], by rw [s2, t2, finP_evs_eqv hqq], fun hok => ?_⟩
    rw [s1] at hok
    obtain ⟨k1, k2, _⟩ := fin_ok_state q₁ hq hok
    refine ⟨s4, t4, by rw [s2]; exact k1, ?_, by rw [s3, t3]⟩
    rw [s2, t2]
    exact finP_eqv hqq (by rw [k2]; rfl)
  by_cases hne : stream d₁ = []
  · obtain ⟨x1, x2, x3, x4⟩ := a1 hne
    obtain ⟨y1, y2, y3, y4⟩ := b1 (hs ▸ hne)
    exact hfin d₁.p d₂.p _ _ hw hp x1 x2 x3 x4 y1 y2 y3 y4
  · have pa := a2 hne
    have pb := b2 (hs ▸ hne)
    rw [← hs] at pb
    have pb' := pb.of_UE (UE.symm (U_eqv d₁.p (stream d₁) hw d₂.p hp))
    have hwr := U_wf d₁.p (stream d₁) hw
    cases he : (U d₁.p (stream d₁)).err with
    | some e =>
      obtain ⟨x1, x2⟩ := pa.err e he
      obtain ⟨y1, y2⟩ := pb'.err e he
      refine ⟨by rw [x1, y1], by rw [x2, y2], fun hok => ?_⟩
      rw [x1] at hok; cases hok
    | none =>
      cases hr : (U d₁.p (stream d₁)).reported with
      | true =>
        obtain ⟨x1, x2, x3, x4⟩ := pa.ok he hr
        obtain ⟨y1, y2, y3, y4⟩ := pb'.ok he hr
        exact ⟨by rw [x1, y1], by rw [(eqv_evs x2).1, (eqv_evs y2).1], fun _ =>
          ⟨x4, y4, eqv_wf x2 hwr, Eqv.trans (Eqv.symm x2) y2, by rw [x3, y3]⟩⟩
      | false =>
        obtain ⟨q₁, x0, x1, x2, x3, x4⟩ := pa.eof he hr
        obtain ⟨q₂, y0, y1, y2, y3, y4⟩ := pb'.eof he hr
        exact hfin q₁ q₂ _ _ (eqv_wf x0 hwr) (Eqv.trans (Eqv.symm x0) y0) x1 x2 x3 x4 y1 y2 y3 y4

/-- sequences of calls on two such decoders (possibly with different sufficient fuels) -/
theorem nextsF_congr (f₁ f₂ : Dec → Nat) (hf₁ : Enough f₁) (hf₂ : Enough f₂) (n : Nat) :
    ∀ d₁ d₂ : Dec, DOK d₁ → DOK d₂ → ParseP.WF d₁.p → Eqv d₁.p d₂.p → stream d₁ = stream d₂ →
      nextsF f₁ n d₁ = nextsF f₂ n d₂ := by
  induction n with
  | zero => intros; rfl
  | succ n ih =>
    intro d₁ d₂ h₁ h₂ hw hp hs
    obtain ⟨c1, c2, c3⟩ := next_congr (f₁ d₁) (f₂ d₂) d₁ d₂ h₁ h₂ hw hp hs (hf₁ d₁) (hf₂ d₂)
    rw [nextsF_succ, nextsF_succ, ← c1]
    simp only [Parse.events, c2]
    congr 1
    by_cases hok : (next (f₁ d₁) d₁).2 = .ok
    · obtain ⟨k1, k2, k3, k4, k5⟩ := c3 hok
      simp only [hok, beq_self_eq_true, if_true]
      exact ih _ _ k1 k2 k3 k4 k5
    · have : ((next (f₁ d₁) d₁).2 == NextRes.ok) = false := by simpa using hok
      simp only [this, Bool.false_eq_true, if_false]

/-! ## no call runs out of fuel or panics -/

theorem next_safe (fuel : Nat) (d : Dec) (hd : DOK d) (hw : ParseP.WF d.p) (hf : need d ≤ fuel) :
    (next fuel d).2 ≠ .err .outOfFuel ∧ (next fuel d).2 ≠ .err .panic := by
  obtain ⟨a1, a2⟩ := next_U fuel d hd hw hf
  by_cases hne : stream d = []
  · rw [(a1 hne).1]; exact finV_safe d.p hw
  · have pa := a2 hne
    have hwr := U_wf d.p (stream d) hw
    have hsafe := feedUntil_safe_wf (fuelFor (stream d)) d.p (stream d) hw
    cases he : (U d.p (stream d)).err with
    | some e =>
      rw [(pa.err e he).1]
      refine ⟨fun hc => ?_, fun hc => ?_⟩
      · injection hc with hc; subst hc
        exact hsafe.2 (cost_lt_fuelFor _ _) he
      · injection hc with hc; subst hc
        exact hsafe.1 he
    | none =>
      cases hr : (U d.p (stream d)).reported with
      | true => rw [(pa.ok he hr).1]; simp
      | false =>
        obtain ⟨q, x0, x1, _⟩ := pa.eof he hr
        rw [x1]; exact finV_safe q (eqv_wf x0 hwr)

/-- … in a sequence of calls -/
theorem nextsF_safe (f : Dec → Nat) (hf : Enough f) (n : Nat) :
    ∀ d : Dec, DOK d → ParseP.WF d.p →
      ∀ x ∈ nextsF f n d, x.1 ≠ .err .outOfFuel ∧ x.1 ≠ .err .panic := by
  induction n with
  | zero => intro d _ _ x hx; simp [nextsF] at hx
  | succ n ih =>
    intro d hd hw x hx
    rw [nextsF_succ] at hx
    rcases List.mem_cons.mp hx with hx | hx
    · rw [hx]; exact next_safe (f d) d hd hw (hf d)
    · by_cases hok : (next (f d) d).2 = .ok
      · simp only [hok, beq_self_eq_true, if_true] at hx
        obtain ⟨k1, _, k3, _⟩ := (next_congr (f d) (f d) d d hd hd hw (Eqv.refl _) rfl (hf d) (hf d)).2.2 hok
        exact ih _ k1 k3 x hx
      · have : ((next (f d) d).2 == NextRes.ok) = false := by simpa using hok
        simp [this] at hx

/-! ## events are only added -/

theorem U_evs (p : P) (b : Bytes) (h : ParseP.WF p) : ∃ l, (U p b).p.evs = l ++ p.evs := by
  refine U_induct (motive := fun p b => ∃ l, (U p b).p.evs = l ++ p.evs) ?_ ?_ p b h
  · intro p _
    exact ⟨[], by rw [U_nil]; rfl⟩
  · intro p b hw hb ih
    have hvs := execStep_vs p b hb hw.inv (fun hc => absurd hc hw.not_failed)
    have h0 : ∃ l0, (execStep p b).1.p.evs = l0 ++ p.evs := by
      obtain ⟨_, hq | ⟨e, h1, _⟩⟩ := hvs
      · exact ⟨[], hq.1⟩
      · exact ⟨[e], h1⟩
    obtain ⟨l0, hl0⟩ := h0
    cases hs : (execStep p b).1.err with
    | some e => rw [U_err p b hb hw e hs]; exact ⟨l0, hl0⟩
    | none =>
      cases hf : flag (execStep p b).1 with
      | true => rw [U_flag p b hb hw hs hf]; exact ⟨l0, hl0⟩
      | false =>
        rw [U_cont p b hb hw hs hf]
        obtain ⟨l, hl⟩ := ih hs hf
        exact ⟨l ++ l0, by rw [hl, hl0, List.append_assoc]⟩

theorem finP_evs (p : P) : ∃ l, (finP p).evs = l ++ p.evs := by
  unfold finP Parse.finalize
  simp only
  split
  · have hvs := reportNumber_vs (Agree.refl p) p.literalBuffer p.isDouble
    have h0 : ∃ l0, (reportNumber p p.literalBuffer p.isDouble).1.evs = l0 ++ p.evs := by
      obtain ⟨_, hq | ⟨e, h1, _⟩⟩ := hvs
      · exact ⟨[], hq.1⟩
      · exact ⟨[e], h1⟩
    obtain ⟨l0, hl0⟩ := h0
    generalize reportNumber p p.literalBuffer p.isDouble = x at hl0
    obtain ⟨q, e⟩ := x
    cases e with
    | some e => exact ⟨l0, hl0⟩
    | none =>
      simp only at hl0 ⊢
      refine ⟨l0, ?_⟩
      split <;> (simp only; rw [popState_evs, hl0])
  · split <;> exact ⟨[], rfl⟩

/-- ONE CALL only adds events to those delivered before -/
theorem next_evs (fuel : Nat) (d : Dec) (hd : DOK d) (hw : ParseP.WF d.p) (hf : need d ≤ fuel) :
    ∃ l, (next fuel d).1.p.evs = l ++ d.p.evs := by
  obtain ⟨a1, a2⟩ := next_U fuel d hd hw hf
  by_cases hne : stream d = []
  · rw [(a1 hne).2.1]; exact finP_evs d.p
  · have pa := a2 hne
    obtain ⟨l, hl⟩ := U_evs d.p (stream d) hw
    cases he : (U d.p (stream d)).err with
    | some e => exact ⟨l, by rw [(pa.err e he).2, hl]⟩
    | none =>
      cases hr : (U d.p (stream d)).reported with
      | true => exact ⟨l, by rw [(eqv_evs (pa.ok he hr).2.1).1, hl]⟩
      | false =>
        obtain ⟨q, x0, _, x2, _⟩ := pa.eof he hr
        obtain ⟨l2, hl2⟩ := finP_evs q
        exact ⟨l2 ++ l, by rw [x2, hl2, (eqv_evs x0).1, hl, List.append_assoc]⟩

/-! ## single calls on well-formed input -/

/-- ONE CALL, a complete document at the head of the stream (cut into reads in any way): it
succeeds, delivers exactly the value's events and keeps exactly what follows -/
theorem next_doc (v : J) (hok : v.ok = true) (hs : v.sem = true) (ws more : Bytes) (hws : allWs ws = true)
    (hm : follow v more) (d : Dec) (hd : DOK d) (hp : IdleN d.p) (hst : stream d = ws ++ (v.wire ++ more))
    (fuel : Nat) (hf : need d ≤ fuel) :
    (next fuel d).2 = .ok ∧ IdleN (next fuel d).1.p ∧ (next fuel d).1.p.evs = v.events.reverse ++ d.p.evs ∧
      stream (next fuel d).1 = more ∧ DOK (next fuel d).1 := by
  have hne : stream d ≠ [] := by
    obtain ⟨x, t, hx, _⟩ := J.wire_first v hok
    rw [hst, hx]; simp
  obtain ⟨q, hq, he, hU⟩ := U_doc v hok hs ws more hws hm d.p hp
  have pa := (next_U fuel d hd hp.1.wf hf).2 hne
  rw [hst, hU] at pa
  obtain ⟨x1, x2, x3, x4⟩ := pa.ok rfl rfl
  exact ⟨x1, idleN_eqv x2 hq, by rw [(eqv_evs x2).1, he], x3, x4⟩

/-- ONE CALL at the end of the stream (only white space is left), between two documents: a
clean end -/
theorem next_end_idle (ws : Bytes) (hws : allWs ws = true) (d : Dec) (hd : DOK d) (hp : IdleN d.p)
    (hst : stream d = ws) (fuel : Nat) (hf : need d ≤ fuel) :
    (next fuel d).2 = .eof ∧ (next fuel d).1.p.evs = d.p.evs := by
  obtain ⟨a1, a2⟩ := next_U fuel d hd hp.1.wf hf
  by_cases hne : stream d = []
  · obtain ⟨x1, x2, _⟩ := a1 hne
    obtain ⟨k1, k2⟩ := fin_start d.p hp.1.cs hp.1.st
    exact ⟨by rw [x1, k1], by rw [x2, k2]⟩
  · have pa := a2 hne
    rw [hst, U_ws d.p ws hp.1.wf (by rw [hp.1.cs]; rfl) hws] at pa
    obtain ⟨q, x0, x1, x2, _⟩ := pa.eof rfl rfl
    have hq := idleN_eqv x0 hp
    obtain ⟨k1, k2⟩ := fin_start q hq.1.cs hq.1.st
    exact ⟨by rw [x1, k1], by rw [x2, k2, (eqv_evs x0).1]⟩

/-- ONE CALL on a bare number at the very end of the stream (no white space after it): the end
of the input completes it — `Next` succeeds with the number's event —, and the state after
is one in which the next call reports a clean end -/
theorem next_num_end (tok : Bytes) (hb : tokOk tok = true) (ev : Ev) (hev : numEv tok = some ev) (ws : Bytes)
    (hws : allWs ws = true) (d : Dec) (hd : DOK d) (hp : IdleN d.p) (hst : stream d = ws ++ tok)
    (fuel : Nat) (hf : need d ≤ fuel) :
    (next fuel d).2 = .ok ∧ (next fuel d).1.p.evs = ev :: d.p.evs ∧ stream (next fuel d).1 = [] ∧
      DOK (next fuel d).1 ∧ ParseP.WF (next fuel d).1.p ∧ (next fuel d).1.p.currentState = .startState ∧
      (next fuel d).1.p.states = [] := by
  have htok : tok ≠ [] := by intro hc; subst hc; simp [tokOk] at hb
  have hne : stream d ≠ [] := by
    rw [hst]; intro hc; exact htok (List.append_eq_nil_iff.mp hc).2
  have hU := U_num_end tok hb ws hws d.p hp
  have hwr := U_wf d.p (ws ++ tok) hp.1.wf
  -- the end-of-input verdict of the pending state
  obtain ⟨q0, hr0, hf0⟩ := num_end_run tok hb ev hev ws hws d.p hp
  have hq0 : q0 = (U d.p (ws ++ tok)).p := by
    have := U_run d.p (ws ++ tok) hp.1.wf
    rw [hr0, hU] at this
    simp only [Option.isSome_none, Bool.false_eq_true, if_false, runA_nil] at this
    rw [hU]
    exact (Prod.mk.inj this).1
  have pa := (next_U fuel d hd hp.1.wf hf).2 hne
  rw [hst] at pa
  obtain ⟨q, x0, x1, x2, x3, x4⟩ := pa.eof (by rw [hU]) (by rw [hU])
  rw [← hq0] at x0 hwr
  have hcs0 : q0.currentState = .numberState := by rw [hq0, hU]
  have hv0 : finV q0 = .ok := by
    unfold finV; rw [hf0]; simp [hcs0]
  have hv : finV q = .ok := by rw [finV_eqv x0, hv0]
  obtain ⟨k1, k2, k3⟩ := fin_ok_state q (eqv_wf x0 hwr) hv
  refine ⟨by rw [x1, hv], ?_, x3, x4, by rw [x2]; exact k1, by rw [x2]; exact k2, by rw [x2]; exact k3⟩
  rw [x2, finP_evs_eqv x0]
  unfold finP; rw [hf0]

/-! ## truncation -/

/-- ONE CALL on a stream that ends inside a value: an error — neither a clean end nor ok -/
theorem next_trunc (v : J) (hok : v.ok = true) (hnn : v.isNum = false) (ws z : Bytes)
    (hws : allWs ws = true) (hz : z <+: v.wire) (hne : z ≠ []) (hne2 : z ≠ v.wire)
    (d : Dec) (hd : DOK d) (hp : IdleN d.p) (hst : stream d = ws ++ z) (fuel : Nat) (hf : need d ≤ fuel) :
    (∃ e, (next fuel d).2 = .err e) ∧ ∃ l, (next fuel d).1.p.evs = l ++ d.p.evs := by
  refine ⟨?_, next_evs fuel d hd hp.1.wf hf⟩
  have hsne : stream d ≠ [] := by
    rw [hst]; intro hc; exact hne (List.append_eq_nil_iff.mp hc).2
  have pa := (next_U fuel d hd hp.1.wf hf).2 hsne
  rw [hst] at pa
  rcases U_trunc v hok hnn ws z hws hz hne hne2 d.p hp with h | ⟨h1, h2⟩
  · cases he : (U d.p (ws ++ z)).err with
    | none => exact absurd he h
    | some e => exact ⟨e, (pa.err e he).1⟩
  · cases he : (U d.p (ws ++ z)).err with
    | some e => exact ⟨e, (pa.err e he).1⟩
    | none =>
      obtain ⟨q, x0, x1, _⟩ := pa.eof he h1
      have hq : (Parse.finalize q).2 ≠ none := by rw [(finalize_eqv x0).1]; exact h2
      cases hfq : (Parse.finalize q).2 with
      | none => exact absurd hfq hq
      | some e => exact ⟨e, by rw [x1]; unfold finV; rw [hfq]⟩

/-! ## streams of documents -/

/-- the expected trace of successful calls: after each document the events so far -/
def okTrace (pre : List Ev) : List Doc → List (NextRes × List Ev)
  | [] => []
  | d :: ds => (.ok, pre ++ d.1.events) :: okTrace (pre ++ d.1.events) ds

theorem streamEvents_cons (d : Doc) (ds : List Doc) : streamEvents (d :: ds) = d.1.events ++ streamEvents ds := by
  simp [streamEvents]

theorem okTrace_eq (pre : List Ev) (ds : List Doc) :
    okTrace pre ds =
      (List.range ds.length).map (fun i => (NextRes.ok, pre ++ streamEvents (ds.take (i + 1)))) := by
  induction ds generalizing pre with
  | nil => rfl
  | cons d ds ih =>
    rw [okTrace, ih, List.length_cons, List.range_succ_eq_map, List.map_cons, List.map_map]
    congr 1
    · simp [streamEvents]
    · apply List.map_congr_left
      intro i _
      simp [streamEvents_cons, List.append_assoc]

/-- the calls for a stream that starts with the complete documents `ds`: one successful call
per document, then the decoder is between two documents with exactly the rest of the stream
(after white space) to go -/
theorem nextsF_docs (f : Dec → Nat) (hf : Enough f) (ds : List Doc) (hg : ∀ x ∈ ds, x.good) (tail : Bytes) :
    ∀ (d : Dec) (ws0 : Bytes), DOK d → IdleN d.p → allWs ws0 = true →
      stream d = ws0 ++ (streamWire ds ++ tail) →
      ∃ d' ws', DOK d' ∧ IdleN d'.p ∧ d'.p.evs = (streamEvents ds).reverse ++ d.p.evs ∧ allWs ws' = true ∧
        stream d' = ws' ++ tail ∧
        ∀ k, nextsF f (ds.length + k) d = okTrace d.p.evs.reverse ds ++ nextsF f k d' := by
  induction ds with
  | nil =>
    intro d ws0 hd hp hws hst
    exact ⟨d, ws0, hd, hp, by simp [streamEvents], hws, by simpa [streamWire] using hst,
      fun k => by simp [okTrace]⟩
  | cons x ds ih =>
    intro d ws0 hd hp hws hst
    obtain ⟨g1, g2, g3, g4⟩ := hg x (by simp)
    have e0 : streamWire (x :: ds) ++ tail = x.1.wire ++ (x.2 ++ (streamWire ds ++ tail)) := by
      simp [streamWire]
    have hm : follow x.1 (x.2 ++ (streamWire ds ++ tail)) := fun h => stopF_append (stopF_of_ws g3 (g4 h))
    obtain ⟨h1, h2, h3, h4, h5⟩ := next_doc x.1 g1 g2 ws0 _ hws hm d hd hp (by rw [hst, e0]) (f d) (hf d)
    obtain ⟨d', ws', k1, k2, k3, k4, k5, k6⟩ := ih (fun y hy => hg y (by simp [hy])) (next (f d) d).1 x.2 h5 h2 g3 h4
    refine ⟨d', ws', k1, k2, by rw [k3, h3]; simp [streamEvents_cons], k4, k5, fun k => ?_⟩
    have hlen : (x :: ds).length + k = (ds.length + k) + 1 := by simp; omega
    rw [hlen, nextsF_succ, h1, k6 k, h3]
    simp [okTrace, Parse.events, h3]

end SF.Json.DecP
