/-
  C16 (visitor errors) for the JSON PULL DECODER mirror (SF/Json/Dec.lean): helper lemmas.

  The decoder embeds the parser state `d.p` (`failAt` = the visitor's fault index, `evs` = the
  log of ALL events delivered so far, across calls of `Next`).  `Next` touches `d.p` through
  `feedUntil` and, at the end of the input, through `Parser.finalize` (which may deliver one
  more event: a number at the very end of the input).  Both keep the parser-level dichotomy
  (`GoodOut`, SF/Proofs/JsonRefineFault.lean) on reachable states (`WF`), which every successful
  call re-establishes.  No condition on the reader, the buffer size or the loop fuel.
-/
import SF.Proofs.JsonDecReader
set_option linter.unusedSimpArgs false
set_option linter.unusedVariables false
namespace SF.Json.DecFault
open SF SF.Json SF.Json.Parse SF.Json.ParseP SF.Json.Dec SF.Json.DecP

/-- outcome of one call of `Next` that started without a fault: still no fault and the result is
not the visitor's error, or THE VISITOR'S error with delivery stopped at the failing event -/
def GoodNext (q : P) (r : NextRes) : Prop :=
  (r ≠ .err .visitor ∧ NoFault q) ∨ (r = .err .visitor ∧ Stopped q)

/-- what one call started in parser state `p` leaves behind -/
structure NextInv (p : P) (d' : Dec) (r : NextRes) : Prop where
  good : GoodNext d'.p r
  failAt : d'.p.failAt = p.failAt
  wf : r = .ok → ParseP.WF d'.p

/-- the end of the input: `Decoder.finalize` -/
theorem fin_good (d : Dec) (h : NoFault d.p) (hw : ParseP.WF d.p) :
    NextInv d.p (Dec.finalize d).1 (Dec.finalize d).2 := by
  rw [fin_eq]
  refine ⟨?_, finalize_failAt d.p, fun hok => (fin_ok_state d.p hw hok).1⟩
  have hg := finalize_fault d.p h
  show GoodNext (finP d.p) (finV d.p)
  unfold finP finV
  cases hf : (Parse.finalize d.p).2 with
  | some e =>
    rw [hf] at hg
    simp only
    rcases hg with ⟨hne, hq⟩ | ⟨hv, hq⟩
    · exact Or.inl ⟨by intro hc; injection hc with hc; exact hne (by rw [hc]), hq⟩
    · exact Or.inr ⟨by injection hv with hv; rw [hv], hq⟩
  | none =>
    rw [hf] at hg
    simp only
    rcases hg with ⟨_, hq⟩ | ⟨hv, _⟩
    · exact Or.inl ⟨by split <;> simp, hq⟩
    · simp at hv

/-- the inner function of `Next` (run the parser on the buffer), given the statement for the
recursive call -/
theorem feedIt_good (fuel : Nat)
    (ih : ∀ (d : Dec), NoFault d.p → ParseP.WF d.p → NextInv d.p (next fuel d).1 (next fuel d).2)
    (d : Dec) (h : NoFault d.p) (hw : ParseP.WF d.p) :
    NextInv d.p (feedIt fuel d).1 (feedIt fuel d).2 := by
  have hg := feedUntil_fault (fuelFor d.buffer) d.p d.buffer hw.inv h (Or.inr hw)
  have hf := feedUntil_failAt (fuelFor d.buffer) d.p d.buffer hw.inv (Or.inr hw)
  have hw1 := feedUntil_wf (fuelFor d.buffer) d.p d.buffer hw
  unfold feedIt U
  simp only []
  cases hre : (feedUntil (fuelFor d.buffer) d.p d.buffer).err with
  | some e =>
    simp only
    rw [hre] at hg
    refine ⟨?_, hf, fun hc => by cases hc⟩
    rcases hg with ⟨hne, hq⟩ | ⟨hv, hq⟩
    · exact Or.inl ⟨by intro hc; injection hc with hc; exact hne (by rw [hc]), hq⟩
    · exact Or.inr ⟨by injection hv with hv; rw [hv], hq⟩
  | none =>
    simp only
    rw [hre] at hg
    rcases hg with ⟨_, hq⟩ | ⟨hv, _⟩
    · split
      · exact ⟨Or.inl ⟨by simp, hq⟩, hf, fun _ => hw1⟩
      · have := ih { d with p := (feedUntil (fuelFor d.buffer) d.p d.buffer).p,
                            buffer := (feedUntil (fuelFor d.buffer) d.p d.buffer).rest } hq hw1
        exact ⟨this.good, by rw [this.failAt]; exact hf, this.wf⟩
    · simp at hv

/-- ONE CALL of `Next`, EVERY decoder state over a reachable parser state, every reader, buffer
size and fuel: the dichotomy -/
theorem next_good (fuel : Nat) : ∀ (d : Dec), NoFault d.p → ParseP.WF d.p →
    NextInv d.p (next fuel d).1 (next fuel d).2 := by
  induction fuel with
  | zero =>
    intro d h hw
    exact ⟨Or.inl ⟨by simp [next], h⟩, rfl, fun hc => by simp [next] at hc⟩
  | succ fuel ih =>
    intro d h hw
    rw [next_succ]
    split
    · split
      · exact fin_good { d with errEOF := false } h hw
      · split
        · split
          · exact feedIt_good fuel ih { d with errEOF := (d.rd.read d.bufSize).2.2, rd := (d.rd.read d.bufSize).1,
                                                buffer := (d.rd.read d.bufSize).2.1 } h hw
          · split
            · exact fin_good { d with errEOF := false, rd := (d.rd.read d.bufSize).1,
                                      buffer := (d.rd.read d.bufSize).2.1 } h hw
            · exact feedIt_good fuel ih { d with errEOF := false, rd := (d.rd.read d.bufSize).1,
                                                  buffer := (d.rd.read d.bufSize).2.1 } h hw
        · exact fin_good { d with errEOF := false } h hw
    · exact feedIt_good fuel ih d h hw

/-! ## sequences of calls -/

/-- the trace of a sequence of calls under a visitor failing at its k-th event: either the
fault was never reached — no call returned the visitor's error and at most k events were
delivered in total —, or the LAST call returned THE VISITOR'S error with exactly k+1 events
delivered in total, every earlier call having returned `.ok` with at most k events -/
def GoodTrace (k : Nat) (tr : List (NextRes × List Ev)) : Prop :=
  (∀ x ∈ tr, x.1 ≠ .err .visitor ∧ x.2.length ≤ k) ∨
  (∃ pre evs, tr = pre ++ [(NextRes.err .visitor, evs)] ∧ evs.length = k + 1 ∧
    ∀ x ∈ pre, x.1 = .ok ∧ x.2.length ≤ k)

theorem nextsF_good (f : Dec → Nat) (k : Nat) (n : Nat) : ∀ (d : Dec), NoFault d.p → ParseP.WF d.p →
    d.p.failAt = some k → GoodTrace k (nextsF f n d) := by
  induction n with
  | zero => intro d _ _ _; exact Or.inl (by simp [nextsF])
  | succ n ih =>
    intro d h hw hk
    have hn := next_good (f d) d h hw
    rw [nextsF_succ]
    have hk' : (next (f d) d).1.p.failAt = some k := by rw [hn.failAt]; exact hk
    rcases hn.good with ⟨hne, hq⟩ | ⟨hv, _, k', hk2, hl⟩
    · have hlen : (Parse.events (next (f d) d).1.p).length ≤ k := by
        simp only [Parse.events, List.length_reverse]; exact hq.2 k hk'
      by_cases hok : (next (f d) d).2 = .ok
      · simp only [hok, beq_self_eq_true, if_true]
        rcases ih (next (f d) d).1 hq (hn.wf hok) hk' with hA | ⟨pre, evs, e1, e2, e3⟩
        · left
          intro x hx
          rcases List.mem_cons.mp hx with hx | hx
          · rw [hx]; exact ⟨by simp, hlen⟩
          · exact hA x hx
        · right
          refine ⟨(NextRes.ok, Parse.events (next (f d) d).1.p) :: pre, evs, by rw [e1]; rfl, e2, ?_⟩
          intro x hx
          rcases List.mem_cons.mp hx with hx | hx
          · rw [hx]; exact ⟨rfl, hlen⟩
          · exact e3 x hx
      · have : ((next (f d) d).2 == NextRes.ok) = false := by simpa using hok
        simp only [this, Bool.false_eq_true, if_false]
        left
        intro x hx
        simp only [List.mem_singleton] at hx
        rw [hx]; exact ⟨hne, hlen⟩
    · right
      rw [hk'] at hk2; cases hk2
      refine ⟨[], Parse.events (next (f d) d).1.p, ?_, by simp only [Parse.events, List.length_reverse]; exact hl, by simp⟩
      rw [hv]; simp

/-- in any trace every call but the last returned `.ok` -/
theorem nextsF_init_ok (f : Dec → Nat) (n : Nat) : ∀ (d : Dec) (pre : List (NextRes × List Ev)) (x : NextRes × List Ev),
    nextsF f n d = pre ++ [x] → ∀ y ∈ pre, y.1 = .ok := by
  induction n with
  | zero => intro d pre x h; simp [nextsF] at h
  | succ n ih =>
    intro d pre x h y hy
    rw [nextsF_succ] at h
    cases pre with
    | nil => simp at hy
    | cons a pre =>
      simp only [List.cons_append, List.cons.injEq] at h
      obtain ⟨ha, ht⟩ := h
      by_cases hok : (next (f d) d).2 = .ok
      · simp only [hok, beq_self_eq_true, if_true] at ht
        rcases List.mem_cons.mp hy with hy | hy
        · rw [hy, ← ha]; exact hok
        · exact ih _ pre x ht y hy
      · have : ((next (f d) d).2 == NextRes.ok) = false := by simpa using hok
        simp only [this, Bool.false_eq_true, if_false] at ht
        have := congrArg List.length ht
        simp at this

/-- entry by entry: a call returns the visitor's error IFF k+1 events have been delivered in
total, and never more than k+1 are -/
theorem GoodTrace.entry {k : Nat} {tr : List (NextRes × List Ev)} (h : GoodTrace k tr) :
    ∀ x ∈ tr, (x.1 = .err .visitor ↔ x.2.length = k + 1) ∧ x.2.length ≤ k + 1 := by
  intro x hx
  rcases h with hA | ⟨pre, evs, e1, e2, e3⟩
  · obtain ⟨h1, h2⟩ := hA x hx
    exact ⟨⟨fun hc => absurd hc h1, fun hc => by omega⟩, by omega⟩
  · rw [e1] at hx
    rcases List.mem_append.mp hx with hx | hx
    · obtain ⟨h1, h2⟩ := e3 x hx
      exact ⟨⟨fun hc => (by rw [h1] at hc; cases hc), fun hc => by omega⟩, by omega⟩
    · simp only [List.mem_singleton] at hx
      rw [hx]
      exact ⟨⟨fun _ => e2, fun _ => rfl⟩, by simp only; omega⟩

/-- a visitor without a fault index never fails: no call returns the visitor's error -/
theorem nextsF_no_visitor (f : Dec → Nat) (n : Nat) : ∀ (d : Dec), d.p.failAt = none → d.p.nevs = d.p.evs.length →
    ParseP.WF d.p → ∀ x ∈ nextsF f n d, x.1 ≠ .err .visitor := by
  induction n with
  | zero => intro d _ _ _ x hx; simp [nextsF] at hx
  | succ n ih =>
    intro d hfa hnv hw x hx
    have hn := next_good (f d) d ⟨hnv, fun k hk => by rw [hfa] at hk; cases hk⟩ hw
    have hfa' : (next (f d) d).1.p.failAt = none := by rw [hn.failAt]; exact hfa
    have hne : (next (f d) d).2 ≠ .err .visitor ∧ (next (f d) d).1.p.nevs = (next (f d) d).1.p.evs.length := by
      rcases hn.good with ⟨hne, hq⟩ | ⟨_, _, k, hk, _⟩
      · exact ⟨hne, hq.1⟩
      · rw [hfa'] at hk; cases hk
    rw [nextsF_succ] at hx
    rcases List.mem_cons.mp hx with hx | hx
    · rw [hx]; exact hne.1
    · by_cases hok : (next (f d) d).2 = .ok
      · simp only [hok, beq_self_eq_true, if_true] at hx
        exact ih _ hfa' hne.2 (hn.wf hok) x hx
      · have : ((next (f d) d).2 == NextRes.ok) = false := by simpa using hok
        simp [this] at hx

end SF.Json.DecFault
