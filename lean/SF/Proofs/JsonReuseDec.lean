/-
  C17 for the JSON PULL DECODER (mirror: SF/Json/Dec.lean): calls of `Next` on two decoders
  whose parsers agree up to the FRAME (`Sim`, SF/Proofs/JsonReuseSim.lean) and that are still
  going to see the same bytes (`next_sim`, `nextsF_sim`); the decoder states BETWEEN two
  documents (`Between`: after every successful call, and at creation) and their preservation.
  Final statements: SF/Proofs/JsonReuseTop.lean.
-/
import SF.Proofs.JsonReuseRun
import SF.Proofs.JsonReuseNeat
import SF.Proofs.JsonDecReader
set_option linter.unusedSimpArgs false
set_option linter.unusedVariables false
namespace SF.Json.DecP
open SF SF.Json SF.Json.Parse SF.Json.Float SF.Json.ParseP SF.Json.Dec

variable {E0 : List Ev} {n0 : Nat}

/-! ## the end of the stream -/

theorem finV_sim {p q : P} (h : Sim E0 n0 p q) (hw : ParseP.WF p) : finV q = finV p := by
  unfold finV
  rw [(finalize_sim h hw).1, h.cs]

theorem finP_sim {p q : P} (h : Sim E0 n0 p q) (hw : ParseP.WF p) : Sim E0 n0 (finP p) (finP q) :=
  (finalize_sim h hw).2

/-! ## ONE CALL on two decoders that agree up to the frame -/

/-- ONE CALL on two decoders whose parsers agree up to the frame, with the same remaining
stream (in whatever read scripts, buffer sizes, byte slice or reader), each with sufficient
fuel: same result, the same events (after those of the frame); after a successful call again
parsers that agree up to the frame and the same remaining stream -/
theorem next_sim (fuel₁ fuel₂ : Nat) (d₁ d₂ : Dec) (h₁ : DOK d₁) (h₂ : DOK d₂) (hw : ParseP.WF d₁.p)
    (hp : Sim E0 n0 d₁.p d₂.p) (hs : stream d₁ = stream d₂) (hf₁ : need d₁ ≤ fuel₁) (hf₂ : need d₂ ≤ fuel₂) :
    (next fuel₂ d₂).2 = (next fuel₁ d₁).2 ∧ (next fuel₂ d₂).1.p.evs = (next fuel₁ d₁).1.p.evs ++ E0 ∧
    ((next fuel₁ d₁).2 = .ok →
      DOK (next fuel₁ d₁).1 ∧ DOK (next fuel₂ d₂).1 ∧ ParseP.WF (next fuel₁ d₁).1.p ∧
      Sim E0 n0 (next fuel₁ d₁).1.p (next fuel₂ d₂).1.p ∧ stream (next fuel₁ d₁).1 = stream (next fuel₂ d₂).1) := by
  have hw₂ := hp.wf hw
  obtain ⟨a1, a2⟩ := next_U fuel₁ d₁ h₁ hw hf₁
  obtain ⟨b1, b2⟩ := next_U fuel₂ d₂ h₂ hw₂ hf₂
  have hfin : ∀ (q₁ q₂ : P) (x₁ x₂ : Dec × NextRes), ParseP.WF q₁ → Sim E0 n0 q₁ q₂ →
      x₁.2 = finV q₁ → x₁.1.p = finP q₁ → stream x₁.1 = [] → DOK x₁.1 →
      x₂.2 = finV q₂ → x₂.1.p = finP q₂ → stream x₂.1 = [] → DOK x₂.1 →
      x₂.2 = x₁.2 ∧ x₂.1.p.evs = x₁.1.p.evs ++ E0 ∧
      (x₁.2 = .ok → DOK x₁.1 ∧ DOK x₂.1 ∧ ParseP.WF x₁.1.p ∧ Sim E0 n0 x₁.1.p x₂.1.p ∧ stream x₁.1 = stream x₂.1) := by
    intro q₁ q₂ x₁ x₂ hq hqq s1 s2 s3 s4 t1 t2 t3 t4
    refine ⟨by rw [s1, t1, finV_sim hqq hq], by rw [s2, t2, (finP_sim hqq hq).evs], fun hok => ?_⟩
    rw [s1] at hok
    obtain ⟨k1, _, _⟩ := fin_ok_state q₁ hq hok
    refine ⟨s4, t4, by rw [s2]; exact k1, ?_, by rw [s3, t3]⟩
    rw [s2, t2]
    exact finP_sim hqq hq
  by_cases hne : stream d₁ = []
  · obtain ⟨x1, x2, x3, x4⟩ := a1 hne
    obtain ⟨y1, y2, y3, y4⟩ := b1 (hs ▸ hne)
    exact hfin d₁.p d₂.p _ _ hw hp x1 x2 x3 x4 y1 y2 y3 y4
  · have pa := a2 hne
    have pb := b2 (hs ▸ hne)
    rw [← hs] at pb
    have sr := U_sim d₁.p (stream d₁) hw d₂.p hp
    have hwr := U_wf d₁.p (stream d₁) hw
    cases he : (U d₁.p (stream d₁)).err with
    | some e =>
      obtain ⟨x1, x2⟩ := pa.err e he
      obtain ⟨y1, y2⟩ := pb.err e (by rw [sr.err, he])
      refine ⟨by rw [x1, y1], by rw [x2, y2, sr.p.evs], fun hok => ?_⟩
      rw [x1] at hok; cases hok
    | none =>
      have he₂ : (U d₂.p (stream d₁)).err = none := by rw [sr.err, he]
      cases hr : (U d₁.p (stream d₁)).reported with
      | true =>
        obtain ⟨x1, x2, x3, x4⟩ := pa.ok he hr
        obtain ⟨y1, y2, y3, y4⟩ := pb.ok he₂ (by rw [sr.rep, hr])
        have hsim : Sim E0 n0 (next fuel₁ d₁).1.p (next fuel₂ d₂).1.p := (sr.p.eqv_left x2).eqv_right y2
        exact ⟨by rw [x1, y1], hsim.evs, fun _ => ⟨x4, y4, eqv_wf x2 hwr, hsim, by rw [x3, y3, sr.rest]⟩⟩
      | false =>
        obtain ⟨q₁, x0, x1, x2, x3, x4⟩ := pa.eof he hr
        obtain ⟨q₂, y0, y1, y2, y3, y4⟩ := pb.eof he₂ (by rw [sr.rep, hr])
        exact hfin q₁ q₂ _ _ (eqv_wf x0 hwr) ((sr.p.eqv_left x0).eqv_right y0) x1 x2 x3 x4 y1 y2 y3 y4

/-- the trace behind the frame: the events of the frame come first -/
def frameTrace (pre : List Ev) (tr : List (NextRes × List Ev)) : List (NextRes × List Ev) :=
  tr.map (fun x => (x.1, pre ++ x.2))

/-- sequences of calls on two such decoders: the traces agree up to the frame -/
theorem nextsF_sim (f₁ f₂ : Dec → Nat) (hf₁ : Enough f₁) (hf₂ : Enough f₂) (n : Nat) :
    ∀ d₁ d₂ : Dec, DOK d₁ → DOK d₂ → ParseP.WF d₁.p → Sim E0 n0 d₁.p d₂.p → stream d₁ = stream d₂ →
      nextsF f₂ n d₂ = frameTrace E0.reverse (nextsF f₁ n d₁) := by
  induction n with
  | zero => intros; rfl
  | succ n ih =>
    intro d₁ d₂ h₁ h₂ hw hp hs
    obtain ⟨c1, c2, c3⟩ := next_sim (f₁ d₁) (f₂ d₂) d₁ d₂ h₁ h₂ hw hp hs (hf₁ d₁) (hf₂ d₂)
    rw [nextsF_succ, nextsF_succ, c1]
    simp only [frameTrace, List.map_cons, Parse.events, c2, List.reverse_append]
    congr 1
    by_cases hok : (next (f₁ d₁) d₁).2 = .ok
    · obtain ⟨k1, k2, k3, k4, k5⟩ := c3 hok
      simp only [hok, beq_self_eq_true, if_true]
      exact ih _ _ k1 k2 k3 k4 k5
    · have : ((next (f₁ d₁) d₁).2 == NextRes.ok) = false := by simpa using hok
      simp only [this, Bool.false_eq_true, if_false, List.map_nil]


/-! ## between two documents -/

theorem finalize_esc (p : P) : (Parse.finalize p).1.inEscape = p.inEscape := by
  unfold Parse.finalize
  simp only
  split
  · have h := reportNumber_esc p p.literalBuffer p.isDouble
    generalize reportNumber p p.literalBuffer p.isDouble = x at h
    obtain ⟨q, e⟩ := x
    cases e with
    | some e => exact h
    | none =>
      simp only at h ⊢
      split <;> (simp only [popState_esc]; exact h)
  · split <;> rfl

theorem wf_empty_start {p : P} (hw : ParseP.WF p) (hs : p.states = []) : p.currentState = .startState := by
  rcases hw.shape with ⟨_, h⟩ | ⟨h, _⟩
  · exact h
  · rw [hs] at h; simp [stackWF] at h

/-- THE DECODER STATES BETWEEN TWO DOCUMENTS (at creation, and after every successful call):
the parser is idle — empty stack, startState, no escape pending, no visitor fault — and its
token buffer is empty, or nothing is left of the stream (the end of input completes a
top-level number without clearing the buffer) -/
structure Between (d : Dec) : Prop where
  dok : DOK d
  wf : ParseP.WF d.p
  st : d.p.states = []
  cs : d.p.currentState = .startState
  esc : d.p.inEscape = false
  fa : d.p.failAt = none
  lb : d.p.literalBuffer = [] ∨ stream d = []

theorem between_new (d : Dec) (hd : DOK d) (hp : d.p = Parse.init none) : Between d :=
  ⟨hd, by rw [hp]; exact wf_init none, by rw [hp]; rfl, by rw [hp]; rfl, by rw [hp]; rfl, by rw [hp]; rfl,
    Or.inl (by rw [hp]; rfl)⟩

/-- a call at the end of the stream, between two documents: a clean end, nothing changes -/
theorem between_end (d : Dec) (h : Between d) (hs : stream d = []) (fuel : Nat) (hf : need d ≤ fuel) :
    (next fuel d).2 = .eof ∧ (next fuel d).1.p = d.p := by
  obtain ⟨x1, x2, _⟩ := (next_U fuel d h.dok h.wf hf).1 hs
  obtain ⟨k1, k2⟩ := fin_start d.p h.cs h.st
  exact ⟨by rw [x1, k1], by rw [x2, k2]⟩

/-- a successful call leads from between two documents to between two documents -/
theorem between_next (d : Dec) (h : Between d) (fuel : Nat) (hf : need d ≤ fuel) (hok : (next fuel d).2 = .ok) :
    Between (next fuel d).1 := by
  by_cases hs : stream d = []
  · rw [(between_end d h hs fuel hf).1] at hok; cases hok
  · have hlb : d.p.literalBuffer = [] := by
      rcases h.lb with h1 | h1
      · exact h1
      · exact absurd h1 hs
    have pa := (next_U fuel d h.dok h.wf hf).2 hs
    have hwr := U_wf d.p (stream d) h.wf
    have htidy : Tidy (U d.p (stream d)).p := feedUntil_tidy _ _ _ h.wf.inv (tidy_of_false h.esc)
    have hneat : Neat (U d.p (stream d)).p := feedUntil_neat _ _ _ h.wf.inv (neat_of_nil hlb)
    have hfa : (U d.p (stream d)).p.failAt = none := by
      have := feedUntil_failAt (fuelFor (stream d)) d.p (stream d) h.wf.inv (Or.inr h.wf)
      unfold U; rw [this]; exact h.fa
    cases he : (U d.p (stream d)).err with
    | some e => rw [(pa.err e he).1] at hok; cases hok
    | none =>
      cases hr : (U d.p (stream d)).reported with
      | true =>
        obtain ⟨_, x2, x3, x4⟩ := pa.ok he hr
        have hst := (U_post d.p (stream d) h.wf he).1 hr
        have hcs := wf_empty_start hwr hst
        have hesc : (U d.p (stream d)).p.inEscape = false := by
          cases hx : (U d.p (stream d)).p.inEscape with
          | false => rfl
          | true => rcases (htidy hx).1 with h1 | h1 <;> rw [hcs] at h1 <;> cases h1
        have hl : (U d.p (stream d)).p.literalBuffer = [] := hneat (by rw [hcs]; rfl)
        obtain ⟨r, hx, _⟩ := x2
        exact ⟨x4, eqv_wf ⟨r, hx, by assumption⟩ hwr, by rw [hx]; exact hst, by rw [hx]; exact hcs,
          by rw [hx]; exact hesc, by rw [hx]; exact hfa, Or.inl (by rw [hx]; exact hl)⟩
      | false =>
        obtain ⟨q, x0, x1, x2, x3, x4⟩ := pa.eof he hr
        rw [x1] at hok
        have hwq := eqv_wf x0 hwr
        obtain ⟨k1, k2, k3⟩ := fin_ok_state q hwq hok
        have hn : q.currentState = .numberState := by
          unfold finV at hok
          by_cases hn : q.currentState = .numberState
          · exact hn
          · have : (q.currentState == St.numberState) = false := by simpa using hn
            rw [this] at hok
            split at hok <;> cases hok
        obtain ⟨r, hx, _⟩ := x0
        have hesc : q.inEscape = false := by
          rw [hx]
          show (U d.p (stream d)).p.inEscape = false
          cases hxe : (U d.p (stream d)).p.inEscape with
          | false => rfl
          | true =>
            have hn' : (U d.p (stream d)).p.currentState = .numberState := by rw [hx] at hn; exact hn
            rcases (htidy hxe).1 with h1 | h1 <;> rw [hn'] at h1 <;> cases h1
        refine ⟨x4, by rw [x2]; exact k1, by rw [x2]; exact k3, by rw [x2]; exact k2, ?_, ?_, Or.inr x3⟩
        · rw [x2]; unfold finP; rw [finalize_esc]; exact hesc
        · rw [x2]; unfold finP; rw [finalize_failAt, hx]; exact hfa

/-- the decoder after `k` successful calls of `Next` (`none`: one of them did not succeed) -/
def afterOk (f : Dec → Nat) : Nat → Dec → Option Dec
  | 0, d => some d
  | k + 1, d => if (next (f d) d).2 = .ok then afterOk f k (next (f d) d).1 else none

theorem between_afterOk (f : Dec → Nat) (hf : Enough f) (k : Nat) :
    ∀ d0 d : Dec, Between d0 → afterOk f k d0 = some d → Between d := by
  induction k with
  | zero => intro d0 d h hk; simp only [afterOk, Option.some.injEq] at hk; subst hk; exact h
  | succ k ih =>
    intro d0 d h hk
    simp only [afterOk] at hk
    split at hk
    · rename_i hok
      exact ih _ d (between_next d0 h (f d0) (hf d0) hok) hk
    · cases hk

/-- the trace of the calls after the first `k`, all successful -/
theorem nextsF_afterOk (f : Dec → Nat) (k m : Nat) :
    ∀ d0 d : Dec, afterOk f k d0 = some d →
      nextsF f (k + m) d0 = nextsF f k d0 ++ nextsF f m d ∧ (nextsF f k d0).length = k ∧
      ∀ x ∈ nextsF f k d0, x.1 = .ok := by
  induction k with
  | zero =>
    intro d0 d hk
    simp only [afterOk, Option.some.injEq] at hk; subst hk
    simp [nextsF]
  | succ k ih =>
    intro d0 d hk
    simp only [afterOk] at hk
    split at hk
    · rename_i hok
      obtain ⟨j1, j2, j3⟩ := ih _ d hk
      have e : k + 1 + m = (k + m) + 1 := by omega
      rw [e, nextsF_succ, nextsF_succ]
      simp only [hok, beq_self_eq_true, if_true, List.cons_append, j1, List.length_cons, j2, true_and]
      intro x hx
      rcases List.mem_cons.mp hx with rfl | hx
      · rfl
      · exact j3 x hx
    · cases hk

/-- BETWEEN TWO DOCUMENTS THE DECODER IS AS GOOD AS NEW: its trace on the rest of the stream is
the trace of ANY decoder `dn` with a new parser (`NewDecoder` / `NewBytesDecoder`) that is going
to see the same bytes, behind the events delivered so far -/
theorem between_trace (f f' : Dec → Nat) (hf : Enough f) (hf' : Enough f') (d : Dec) (h : Between d)
    (dn : Dec) (hd : DOK dn) (hp : dn.p = Parse.init none) (hs : stream dn = stream d) (m : Nat) :
    nextsF f m d = frameTrace (Parse.events d.p) (nextsF f' m dn) := by
  rcases h.lb with hlb | hst
  · have hsim : Sim d.p.evs d.p.nevs dn.p d.p := by
      rw [hp]
      exact ⟨h.st, h.cs, hlb, h.esc, by simp [Parse.init], by simp [Parse.init], by rw [h.fa]; rfl,
        fun hc => (by cases hc), fun hc => (by simp [Parse.init, isLit] at hc)⟩
    exact nextsF_sim f' f hf' hf m dn d hd h.dok (by rw [hp]; exact wf_init none) hsim hs
  · cases m with
    | zero => rfl
    | succ m =>
      obtain ⟨a1, a2⟩ := between_end d h hst (f d) (hf d)
      obtain ⟨b1, b2⟩ := between_end dn (between_new dn hd hp) (by rw [hs, hst]) (f' dn) (hf' dn)
      rw [nextsF_succ, nextsF_succ, a1, a2, b1, b2, hp]
      simp [frameTrace, Parse.events, Parse.init]

end SF.Json.DecP
