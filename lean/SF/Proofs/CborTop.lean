/-
  Top-level consequences of the refinement lemma: whole documents and streams through
  `Parse.parse` (= cborl.Parse / ParseString), fuel bounds.
-/
import SF.Proofs.CborRefine
namespace SF.Cbor.Parse
open SF SF.Cbor SF.Cbor.Cst

theorem wcost_le (w : W) : wcost w ≤ w.bytes := by
  cases w <;> simp [wcost, W.bytes]

theorem head_length (m : Nat) (w : W) (n : Nat) : (head m w n).length = 1 + w.bytes := by
  simp [head_eq]; omega

mutual
theorem cost_le (t : Item) : cost t + 1 ≤ 3 * t.wire.length := by
  match t with
  | .uint w n => have := wcost_le w; simp only [cost, Item.wire, head_length]; omega
  | .nint w n => have := wcost_le w; simp only [cost, Item.wire, head_length]; omega
  | .bytes w bs => have := wcost_le w; simp only [cost, Item.wire, List.length_append, head_length]; omega
  | .text w bs => have := wcost_le w; simp only [cost, Item.wire, List.length_append, head_length]; omega
  | .arr w xs =>
    have := wcost_le w; have := costArr_le xs
    simp only [cost, Item.wire, List.length_append, head_length]; omega
  | .arrIndef xs =>
    have := costIndef_le xs
    simp only [cost, Item.wire, List.length_append, List.length_cons, List.length_nil]; omega
  | .map w ms =>
    have := wcost_le w; have := costMap_le ms
    simp only [cost, Item.wire, List.length_append, head_length]; omega
  | .mapIndef ms =>
    have := costIndefMap_le ms
    simp only [cost, Item.wire, List.length_append, List.length_cons, List.length_nil]; omega
  | .fals | .tru | .null | .undef => simp [cost, Item.wire]
  | .f32 b => simp [cost, Item.wire]
  | .f64 b => simp [cost, Item.wire]
theorem costArr_le (xs : List Item) : costArr xs ≤ 3 * (wireList xs).length := by
  match xs with
  | [] => simp [costArr, wireList]
  | x :: xs' =>
    have := cost_le x; have := costArr_le xs'
    simp only [costArr, wireList, List.length_append]
    split <;> omega
theorem costIndef_le (xs : List Item) : costIndef xs ≤ 3 * (wireList xs).length := by
  match xs with
  | [] => simp [costIndef, wireList]
  | x :: xs' =>
    have := cost_le x; have := costIndef_le xs'
    simp only [costIndef, wireList, List.length_append]; omega
theorem costMap_le (ms : List (W × Bytes × Item)) : costMap ms ≤ 3 * (wireMems ms).length := by
  match ms with
  | [] => simp [costMap, wireMems]
  | (kw, k, v) :: ms' =>
    have := cost_le v; have := costMap_le ms'; have := wcost_le kw
    simp only [costMap, wireMems, List.length_append, head_length]
    split <;> omega
theorem costIndefMap_le (ms : List (W × Bytes × Item)) : costIndefMap ms ≤ 3 * (wireMems ms).length := by
  match ms with
  | [] => simp [costIndefMap, wireMems]
  | (kw, k, v) :: ms' =>
    have := cost_le v; have := costIndefMap_le ms'; have := wcost_le kw
    simp only [costIndefMap, wireMems, List.length_append, head_length]; omega
end

/-- an idle parser: initial state, with whatever events were delivered so far -/
def idle (evs : List Ev) : P := { evs := evs }

theorem good_idle (evs : List Ev) : Good (idle evs) := ⟨rfl, rfl, by simp [idle, stValue, stFail]⟩

theorem execStep_value (p : P) (b : Bytes) (h : p.state.current.major = stValue) :
    execStep p b = stepValue p b := by
  simp +decide [execStep, h]

/-- one top-level item through feedUntil: all of `t.wire` is consumed, exactly `t.events` are
delivered, the parser is idle again and reports `done` -/
theorem feedUntil_item (t : Item) (ht : t.ok = true) (evs : List Ev) (rest : Bytes) (F : Nat)
    (hF : cost t + 1 ≤ F) :
    feedUntil F (idle evs) (t.wire ++ rest) =
      { p := idle (t.events.reverse ++ evs), rest := rest, done := true, err := none } := by
  obtain ⟨f, rfl⟩ : ∃ f, F = (f + cost t) + 1 := ⟨F - (cost t + 1), by omega⟩
  rw [feedUntil_succ, execStep_value _ _ rfl, value_lemma t ht f _ rest (good_idle evs)]
  have : onValueR (addEvs (idle evs) t.events) rest =
      { p := idle (t.events.reverse ++ evs), rest := rest, done := true, err := none } := by
    simp +decide [onValueR, onValue, addEvs, idle]
  rw [this, loopFrom_done _ _ rfl]

theorem fuelFor_ge (t : Item) (rest : Bytes) : cost t + 1 ≤ fuelFor (t.wire ++ rest) := by
  have := cost_le t
  simp only [fuelFor, List.length_append]; omega

/-- a stream of items through Parser.feed -/
theorem feed_items (ts : List Item) (hts : okList ts = true) (evs : List Ev) (fuel : Nat)
    (hf : ts.length + 1 ≤ fuel) :
    feed fuel (idle evs) (wireList ts) = (idle ((eventsList ts).reverse ++ evs), none) := by
  induction ts generalizing evs fuel with
  | nil =>
    obtain ⟨f, rfl⟩ : ∃ f, fuel = f + 1 := ⟨fuel - 1, by simp at hf; omega⟩
    simp [feed, wireList, eventsList]
  | cons t ts ih =>
    simp only [okList, Bool.and_eq_true] at hts
    obtain ⟨f, rfl⟩ : ∃ f, fuel = f + 1 := ⟨fuel - 1, by simp at hf; omega⟩
    have hne : ¬ ((wireList (t :: ts)).length == 0) = true := by
      have := wireList_ne_nil (xs := ts) hts.1
      cases h : wireList (t :: ts) <;> simp_all
    simp only [feed, hne, if_false]
    simp only [wireList]
    rw [feedUntil_item t hts.1 evs (wireList ts) _ (fuelFor_ge t _)]
    simp only []
    rw [ih hts.2 _ f (by simp at hf; omega)]
    simp [eventsList]

end SF.Cbor.Parse
