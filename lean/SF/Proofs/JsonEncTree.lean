/-
  The JSON encoder run on the events of a tree: what it writes (`text`) and what it does to
  its two bool stacks (nothing, apart from clearing `first.current` of an enclosing array).
-/
import SF.Json.Enc
import SF.Tree
import SF.Proofs.JsonEncStr
import SF.Proofs.JsonEncInt
namespace SF.Json.Enc
open SF SF.Json SF.Json.Float

theorem write_ok (w : Writer) (hf : w.failFrom = none) (b : Bytes) :
    w.write b = ({ w with writes := b :: w.writes, calls := w.calls + 1 }, true) := by
  simp [Writer.write, hf]

theorem out_cons (w : Writer) (b : Bytes) (c : Nat) :
    ({ w with writes := b :: w.writes, calls := c } : Writer).out = w.out ++ b := by
  simp [Writer.out]

/-- pure writes on a never-failing writer, followed by more actions -/
theorem exec_pure (ws : List Act) (hp : PureWrites ws) (s : Enc) (hf : s.w.failFrom = none) (more : List Act) :
    ∃ w', exec s (ws ++ more) = exec { s with w := w' } more ∧ w'.failFrom = none ∧
      w'.out = s.w.out ++ outOf ws := by
  induction ws generalizing s with
  | nil => exact ⟨s.w, by simp, hf, by simp [outOf]⟩
  | cons a ws ih =>
    obtain ⟨b, rfl⟩ := hp a (by simp)
    have hp' : PureWrites ws := fun x hx => hp x (by simp [hx])
    obtain ⟨w', h1, h2, h3⟩ := ih hp' { s with w := { s.w with writes := b :: s.w.writes, calls := s.w.calls + 1 } } hf
    refine ⟨w', ?_, h2, ?_⟩
    · simp only [List.cons_append, exec, write_ok s.w hf]
      exact h1
    · rw [h3]; simp only [out_cons, outOf, List.append_assoc]

/-- the separator `tryElemNext` writes -/
def sep (s : Enc) : Bytes := if s.inArray.current && !s.first.current then [ch ','] else []

/-- `first` after `tryElemNext` -/
def afterVal (s : Enc) : BoolStack :=
  if s.inArray.current then { s.first with current := false } else s.first

theorem exec_tryElemNext (s : Enc) (hf : s.w.failFrom = none) (more : List Act) :
    ∃ w', exec s (.tryElemNext :: more) = exec { s with w := w', first := afterVal s } more ∧
      w'.failFrom = none ∧ w'.out = s.w.out ++ sep s := by
  cases ha : s.inArray.current with
  | false =>
    refine ⟨s.w, ?_, hf, by simp [sep, ha]⟩
    simp [exec, ha, afterVal]
  | true =>
    cases hc : s.first.current with
    | true =>
      refine ⟨s.w, ?_, hf, by simp [sep, ha, hc]⟩
      simp [exec, ha, hc, afterVal]
    | false =>
      refine ⟨{ s.w with writes := [ch ','] :: s.w.writes, calls := s.w.calls + 1 }, ?_, hf, ?_⟩
      · simp only [exec, ha, hc, Bool.not_true, Bool.false_eq_true, if_false, write_ok s.w hf, afterVal, if_true]
        have : ({ s.first with current := false } : BoolStack) = s.first := by
          cases hs : s.first; simp [hs] at hc; simp [hc]
        rw [this]
      · simp [out_cons, sep, ha, hc]

/-- a scalar visitor method: separator logic, then pure writes -/
theorem exec_scalar (s : Enc) (hf : s.w.failFrom = none) (ws : List Act) (hp : PureWrites ws) :
    ∃ w', exec s (.tryElemNext :: ws) = ({ s with w := w', first := afterVal s }, .ok) ∧
      w'.failFrom = none ∧ w'.out = s.w.out ++ sep s ++ outOf ws := by
  obtain ⟨w1, h1, h2, h3⟩ := exec_tryElemNext s hf ws
  obtain ⟨w2, g1, g2, g3⟩ := exec_pure ws hp { s with w := w1, first := afterVal s } h2 []
  refine ⟨w2, ?_, g2, ?_⟩
  · rw [h1]; simpa [exec] using g1
  · rw [g3]; simp [h3]

open ETree

/-- `s` runs with the options of `o` -/
structure Opts (s o : Enc) : Prop where
  html : s.escapeHTML = o.escapeHTML
  ign : s.ignoreInvalidFloat = o.ignoreInvalidFloat
  radix : s.explicitRadixPoint = o.explicitRadixPoint

theorem acts_opts {s o : Enc} (h : Opts s o) (e : Ev) : acts s e = acts o e := by
  cases e <;> simp only [acts, onFloat, h.html, h.ign, h.radix]

/-- the scalar event of a leaf -/
def leafEv : ETree → Ev
  | .null => .null
  | .bool b => .bool b
  | .str s => .str s
  | .num k v => .num k v
  | .f32 b => .f32 b
  | .f64 b => .f64 b
  | _ => .null

/-- the leaf is one the encoder accepts and the model covers: a number in the range of its
kind; a float that is finite (or `ignoreInvalidFloat` is on) -/
def leafOk (o : Enc) : ETree → Bool
  | .num k v => k.inRange v
  | .f32 bits => if isNaNInf32 bits then o.ignoreInvalidFloat else (appendFloat32 bits).isSome
  | .f64 bits => if isNaNInf64 bits then o.ignoreInvalidFloat else (appendFloat64 bits).isSome
  | _ => true

mutual
/-- the text the encoder (options `o`) writes for a tree -/
def text (o : Enc) : ETree → Bytes
  | .arr _ _ xs => ch '[' :: (textList o true xs ++ [ch ']'])
  | .obj _ _ ms => ch '{' :: (textMems o true ms ++ [ch '}'])
  | .null => outOf (acts o .null)
  | .bool b => outOf (acts o (.bool b))
  | .str s => outOf (acts o (.str s))
  | .num k v => outOf (acts o (.num k v))
  | .f32 b => outOf (acts o (.f32 b))
  | .f64 b => outOf (acts o (.f64 b))
def textList (o : Enc) : Bool → List ETree → Bytes
  | _, [] => []
  | first, x :: xs => (if first then [] else [ch ',']) ++ text o x ++ textList o false xs
def textMems (o : Enc) : Bool → List (Bytes × ETree) → Bytes
  | _, [] => []
  | first, (k, v) :: ms =>
    (if first then [] else [ch ',']) ++ strToken o.escapeHTML k ++ [ch ':'] ++ text o v ++ textMems o false ms
end

mutual
def supported (o : Enc) : ETree → Bool
  | .arr _ _ xs => supportedList o xs
  | .obj _ _ ms => supportedMems o ms
  | t => leafOk o t
def supportedList (o : Enc) : List ETree → Bool
  | [] => true
  | x :: xs => supported o x && supportedList o xs
def supportedMems (o : Enc) : List (Bytes × ETree) → Bool
  | [] => true
  | (_, v) :: ms => supported o v && supportedMems o ms
end

theorem pureWrites_floatTail (r : Bool) (b : Bytes) : PureWrites (floatTail r b) := by
  unfold floatTail
  split
  · simp only
    split
    · intro x hx; simp at hx; rcases hx with h | h | h <;> exact ⟨_, h⟩
    · intro x hx; simp at hx; rcases hx with h | h <;> exact ⟨_, h⟩
  · intro x hx; simp at hx; exact ⟨_, hx⟩

theorem pureWrites_single (b : Bytes) : PureWrites [.write b] := by
  intro x hx; simp at hx; exact ⟨_, hx⟩

theorem onFloat_ok (o : Enc) (inv : Bool) (b : Option Bytes)
    (h : (if inv then o.ignoreInvalidFloat else b.isSome) = true) :
    ∃ ws, onFloat o inv b = .tryElemNext :: ws ∧ PureWrites ws := by
  unfold onFloat
  cases inv with
  | true =>
    simp only [if_true] at h
    simp only [if_true, h, Bool.not_true, Bool.false_eq_true, if_false]
    exact ⟨_, rfl, pureWrites_single _⟩
  | false =>
    simp only [Bool.false_eq_true, if_false] at h
    cases b with
    | none => simp at h
    | some b => exact ⟨_, rfl, pureWrites_floatTail _ _⟩

/-- every supported leaf: separator logic, then pure writes -/
theorem leaf_acts (o : Enc) (t : ETree) (hl : t.isContainer = false) (h : leafOk o t = true) :
    ∃ ws, acts o (leafEv t) = .tryElemNext :: ws ∧ PureWrites ws := by
  cases t with
  | null => exact ⟨_, rfl, pureWrites_single _⟩
  | bool b => exact ⟨_, rfl, pureWrites_single _⟩
  | str s =>
    obtain ⟨out, _, _, ws, h1, h2, _⟩ := onString_spec o.escapeHTML s
    exact ⟨ws, by simp only [leafEv, acts]; exact h1, h2⟩
  | num k v =>
    simp only [leafOk] at h
    exact ⟨_, acts_num o k v (inRange_cases k v h), pureWrites_single _⟩
  | f32 bits => exact onFloat_ok o _ _ h
  | f64 bits => exact onFloat_ok o _ _ h
  | arr _ _ _ => simp [isContainer] at hl
  | obj _ _ _ => simp [isContainer] at hl


def setCur (f : BoolStack) (c : Bool) : BoolStack := { stack := f.stack, current := c }
@[simp] theorem setCur_self (f : BoolStack) : setCur f f.current = f := by cases f; rfl
@[simp] theorem setCur_setCur (f : BoolStack) (a b : Bool) : setCur (setCur f a) b = setCur f b := rfl
@[simp] theorem setCur_current (f : BoolStack) (a : Bool) : (setCur f a).current = a := rfl

/-- `s` with a new writer and a new `first` stack -/
def Enc.upd (s : Enc) (w : Writer) (f : BoolStack) : Enc := { s with w := w, first := f }

theorem execEvs_cons (s : Enc) (e : Ev) (es : List Ev) :
    execEvs s (e :: es) = match exec s (acts s e) with
      | (s', .ok) => execEvs s' es
      | r => r := rfl

theorem execEvs_cons_ok {s s' : Enc} {e : Ev} (h : exec s (acts s e) = (s', .ok)) (es : List Ev) :
    execEvs s (e :: es) = execEvs s' es := by
  rw [execEvs_cons, h]

theorem afterVal_eq (s : Enc) : afterVal s = setCur s.first (s.first.current && !s.inArray.current) := by
  unfold afterVal
  cases h : s.inArray.current <;> simp [setCur]

theorem exec_onFieldNext (s : Enc) (rest : List Act) :
    exec s (.onFieldNext :: rest) =
      if s.first.current then exec { s with first := { s.first with current := false } } rest
      else match s.w.write [ch ','] with
        | (w', true) => exec { s with w := w' } rest
        | (w', false) => ({ s with w := w' }, .err) := rfl

theorem exec_tryElemNext_obj (s : Enc) (rest : List Act) (ha : s.inArray.current = false) :
    exec s (.tryElemNext :: rest) = exec s rest := by
  rw [exec]; simp [ha]

theorem exec_write (s : Enc) (b : Bytes) (rest : List Act) (hf : s.w.failFrom = none) :
    exec s (.write b :: rest) =
      exec { s with w := { s.w with writes := b :: s.w.writes, calls := s.w.calls + 1 } } rest := by
  rw [exec, write_ok s.w hf]

/-- a leaf event -/
theorem exec_leaf (o : Enc) (t : ETree) (hl : t.isContainer = false) (h : leafOk o t = true)
    (s : Enc) (ho : Opts s o) (hf : s.w.failFrom = none) :
    ∃ w', exec s (acts s (leafEv t)) = (s.upd w' (afterVal s), .ok) ∧ w'.failFrom = none ∧
      w'.out = s.w.out ++ sep s ++ outOf (acts o (leafEv t)) := by
  obtain ⟨ws, h1, h2⟩ := leaf_acts o t hl h
  obtain ⟨w', g1, g2, g3⟩ := exec_scalar s hf ws h2
  refine ⟨w', ?_, g2, ?_⟩
  · rw [acts_opts ho, h1]; exact g1
  · rw [g3, h1]; simp [outOf]

/-- OnKey in an object -/
theorem exec_key (o : Enc) (k : Bytes) (s : Enc) (ho : Opts s o) (hf : s.w.failFrom = none)
    (ha : s.inArray.current = false) :
    ∃ w', exec s (acts s (.key k)) = (s.upd w' (setCur s.first false), .ok) ∧ w'.failFrom = none ∧
      w'.out = s.w.out ++ (if s.first.current then [] else [ch ',']) ++ strToken o.escapeHTML k ++ [ch ':'] := by
  obtain ⟨out, _, htok, ws, h1, h2, h3⟩ := onString_spec o.escapeHTML k
  have hacts : acts s (.key k) = .onFieldNext :: .tryElemNext :: (ws ++ [.write [ch ':']]) := by
    simp only [acts, onKey, ho.html, h1, List.cons_append]
  rw [hacts]
  -- onFieldNext
  have hfield : ∃ w1, exec s (.onFieldNext :: .tryElemNext :: (ws ++ [.write [ch ':']])) =
      exec (s.upd w1 (setCur s.first false)) (.tryElemNext :: (ws ++ [.write [ch ':']])) ∧ w1.failFrom = none ∧
      w1.out = s.w.out ++ (if s.first.current then [] else [ch ',']) := by
    cases hc : s.first.current with
    | true =>
      refine ⟨s.w, ?_, hf, by simp⟩
      rw [exec_onFieldNext]; simp only [hc, if_true]
      rfl
    | false =>
      refine ⟨{ s.w with writes := [ch ','] :: s.w.writes, calls := s.w.calls + 1 }, ?_, hf, by simp [out_cons]⟩
      rw [exec_onFieldNext]
      simp only [hc, Bool.false_eq_true, if_false, write_ok s.w hf, Enc.upd]
      have : setCur s.first false = s.first := by rw [← hc]; simp
      rw [this]
  obtain ⟨w1, e1, f1, o1⟩ := hfield
  rw [e1]
  -- tryElemNext does nothing inside an object
  have e2 : exec (s.upd w1 (setCur s.first false)) (.tryElemNext :: (ws ++ [.write [ch ':']])) =
      exec (s.upd w1 (setCur s.first false)) (ws ++ [.write [ch ':']]) := by
    exact exec_tryElemNext_obj _ _ ha
  rw [e2]
  obtain ⟨w2, e3, f2, o2⟩ := exec_pure ws h2 (s.upd w1 (setCur s.first false)) f1 [.write [ch ':']]
  rw [e3]
  refine ⟨{ w2 with writes := [ch ':'] :: w2.writes, calls := w2.calls + 1 }, ?_, f2, ?_⟩
  · rw [exec_write _ _ _ f2]; rfl
  · rw [out_cons, o2, htok]
    simp [Enc.upd, o1, h3]


theorem opts_upd {s o : Enc} (h : Opts s o) (w : Writer) (f : BoolStack) : Opts (s.upd w f) o := ⟨h.html, h.ign, h.radix⟩

/-- container start: separator, push, opening bracket -/
theorem exec_start (s : Enc) (hf : s.w.failFrom = none) (isArr : Bool) (c : Char) :
    ∃ w', exec s [.tryElemNext, .push isArr, .write [ch c]] =
        ({ s with w := w', first := (afterVal s).push true, inArray := s.inArray.push isArr }, .ok) ∧
      w'.failFrom = none ∧ w'.out = s.w.out ++ sep s ++ [ch c] := by
  obtain ⟨w1, h1, h2, h3⟩ := exec_tryElemNext s hf [.push isArr, .write [ch c]]
  rw [h1]
  refine ⟨{ w1 with writes := [ch c] :: w1.writes, calls := w1.calls + 1 }, ?_, h2, ?_⟩
  · rw [exec, exec_write _ _ _ h2]; rfl
  · rw [out_cons, h3]

/-- container end: pop both stacks, closing bracket -/
theorem exec_end (s : Enc) (hf : s.w.failFrom = none) (c : Char) (f0 a0 : BoolStack) (cur : Bool)
    (h1 : s.first = setCur (f0.push true) cur) (h2 : s.inArray = a0.push (s.inArray.current)) :
    ∃ w', exec s [.pop, .write [ch c]] = ({ s with w := w', first := f0, inArray := a0 }, .ok) ∧
      w'.failFrom = none ∧ w'.out = s.w.out ++ [ch c] := by
  refine ⟨{ s.w with writes := [ch c] :: s.w.writes, calls := s.w.calls + 1 }, ?_, hf, out_cons _ _ _⟩
  have p1 : s.first.pop = some f0 := by
    rw [h1]; cases f0; simp [BoolStack.pop, BoolStack.push, setCur]
  have p2 : s.inArray.pop = some a0 := by
    rw [h2]; cases a0; simp [BoolStack.pop, BoolStack.push]
  rw [exec]
  simp only [p1, p2]
  exact exec_write { s with first := f0, inArray := a0 } _ _ hf

mutual
/-- ENCODER REFINEMENT (JSON): the events of a supported tree, from ANY state whose writer does
not fail: the encoder writes `sep s ++ text o t`, and the two bool stacks are as before
(`first.current` cleared if the enclosing container is an array) -/
theorem enc_tree (o : Enc) (t : ETree) (hs : supported o t = true) (s : Enc) (ho : Opts s o)
    (hf : s.w.failFrom = none) (more : List Ev) :
    ∃ w', execEvs s (t.events ++ more) = execEvs (s.upd w' (afterVal s)) more ∧ w'.failFrom = none ∧
      w'.out = s.w.out ++ sep s ++ text o t := by
  have leaf : ∀ t : ETree, t.isContainer = false → leafOk o t = true → t.events = [leafEv t] →
      text o t = outOf (acts o (leafEv t)) →
      ∃ w', execEvs s (t.events ++ more) = execEvs (s.upd w' (afterVal s)) more ∧ w'.failFrom = none ∧
        w'.out = s.w.out ++ sep s ++ text o t := by
    intro t hl hk hev htx
    obtain ⟨w', g1, g2, g3⟩ := exec_leaf o t hl hk s ho hf
    refine ⟨w', ?_, g2, by rw [g3, htx]⟩
    rw [hev]; exact execEvs_cons_ok g1 more
  match t with
  | .null => exact leaf _ rfl hs rfl (by simp [text, leafEv])
  | .bool b => exact leaf _ rfl hs rfl (by simp [text, leafEv])
  | .str b => exact leaf _ rfl hs rfl (by simp [text, leafEv])
  | .num k v => exact leaf _ rfl hs rfl (by simp [text, leafEv])
  | .f32 b => exact leaf _ rfl hs rfl (by simp [text, leafEv])
  | .f64 b => exact leaf _ rfl hs rfl (by simp [text, leafEv])
  | .arr len bt xs =>
    simp only [supported] at hs
    obtain ⟨w1, a1, a2, a3⟩ := exec_start s hf true '['
    have hstart : exec s (acts s (.arrStart len bt)) =
        ({ s with w := w1, first := (afterVal s).push true, inArray := s.inArray.push true }, .ok) := a1
    simp only [events, List.cons_append, List.append_assoc, List.nil_append]
    rw [execEvs_cons_ok hstart]
    obtain ⟨w2, b1, b2, b3⟩ := enc_list o xs hs
      { s with w := w1, first := (afterVal s).push true, inArray := s.inArray.push true }
      ⟨ho.html, ho.ign, ho.radix⟩ a2 rfl (.arrEnd :: more)
    rw [b1]
    obtain ⟨w3, c1, c2, c3⟩ := exec_end
      (Enc.upd { s with w := w1, first := (afterVal s).push true, inArray := s.inArray.push true } w2
        (setCur ((afterVal s).push true) (true && xs.isEmpty))) b2 ']' (afterVal s) s.inArray _ rfl rfl
    rw [execEvs_cons_ok c1]
    refine ⟨w3, rfl, c2, ?_⟩
    rw [c3]
    simp only [Enc.upd, b3, a3, text, BoolStack.push, List.append_assoc, List.cons_append, List.nil_append]
  | .obj len bt ms =>
    simp only [supported] at hs
    obtain ⟨w1, a1, a2, a3⟩ := exec_start s hf false '{'
    have hstart : exec s (acts s (.objStart len bt)) =
        ({ s with w := w1, first := (afterVal s).push true, inArray := s.inArray.push false }, .ok) := a1
    simp only [events, List.cons_append, List.append_assoc, List.nil_append]
    rw [execEvs_cons_ok hstart]
    obtain ⟨w2, b1, b2, b3⟩ := enc_mems o ms hs
      { s with w := w1, first := (afterVal s).push true, inArray := s.inArray.push false }
      ⟨ho.html, ho.ign, ho.radix⟩ a2 rfl (.objEnd :: more)
    rw [b1]
    obtain ⟨w3, c1, c2, c3⟩ := exec_end
      (Enc.upd { s with w := w1, first := (afterVal s).push true, inArray := s.inArray.push false } w2
        (setCur ((afterVal s).push true) (true && ms.isEmpty))) b2 '}' (afterVal s) s.inArray _ rfl rfl
    rw [execEvs_cons_ok c1]
    refine ⟨w3, rfl, c2, ?_⟩
    rw [c3]
    simp only [Enc.upd, b3, a3, text, BoolStack.push, List.append_assoc, List.cons_append, List.nil_append]

theorem enc_list (o : Enc) (xs : List ETree) (hs : supportedList o xs = true) (s : Enc) (ho : Opts s o)
    (hf : s.w.failFrom = none) (ha : s.inArray.current = true) (more : List Ev) :
    ∃ w', execEvs s (eventsList xs ++ more) =
        execEvs (s.upd w' (setCur s.first (s.first.current && xs.isEmpty))) more ∧ w'.failFrom = none ∧
      w'.out = s.w.out ++ textList o s.first.current xs := by
  match xs with
  | [] =>
    refine ⟨s.w, ?_, hf, by simp [textList]⟩
    simp [eventsList, Enc.upd]
  | x :: xs' =>
    simp only [supportedList, Bool.and_eq_true] at hs
    simp only [eventsList, List.append_assoc]
    obtain ⟨w1, a1, a2, a3⟩ := enc_tree o x hs.1 s ho hf (eventsList xs' ++ more)
    rw [a1]
    obtain ⟨w2, b1, b2, b3⟩ := enc_list o xs' hs.2 (s.upd w1 (afterVal s)) (opts_upd ho _ _) a2 ha more
    rw [b1]
    refine ⟨w2, ?_, b2, ?_⟩
    · simp [Enc.upd, afterVal_eq, ha]
    · rw [b3]
      simp only [Enc.upd, a3, afterVal_eq, ha, setCur_current, textList, sep]
      cases s.first.current <;> simp
theorem enc_mems (o : Enc) (ms : List (Bytes × ETree)) (hs : supportedMems o ms = true) (s : Enc)
    (ho : Opts s o) (hf : s.w.failFrom = none) (ha : s.inArray.current = false) (more : List Ev) :
    ∃ w', execEvs s (eventsMems ms ++ more) =
        execEvs (s.upd w' (setCur s.first (s.first.current && ms.isEmpty))) more ∧ w'.failFrom = none ∧
      w'.out = s.w.out ++ textMems o s.first.current ms := by
  match ms with
  | [] =>
    refine ⟨s.w, ?_, hf, by simp [textMems]⟩
    simp [eventsMems, Enc.upd]
  | (k, v) :: ms' =>
    simp only [supportedMems, Bool.and_eq_true] at hs
    simp only [eventsMems, List.cons_append, List.append_assoc]
    obtain ⟨w0, k1, k2, k3⟩ := exec_key o k s ho hf ha
    rw [execEvs_cons_ok k1]
    obtain ⟨w1, a1, a2, a3⟩ := enc_tree o v hs.1 (s.upd w0 (setCur s.first false)) (opts_upd ho _ _) k2
      (eventsMems ms' ++ more)
    rw [a1]
    obtain ⟨w2, b1, b2, b3⟩ := enc_mems o ms' hs.2
      ((s.upd w0 (setCur s.first false)).upd w1 (afterVal (s.upd w0 (setCur s.first false))))
      (opts_upd (opts_upd ho _ _) _ _) a2 ha more
    rw [b1]
    refine ⟨w2, ?_, b2, ?_⟩
    · simp [Enc.upd, afterVal_eq, ha]
    · rw [b3]
      simp only [Enc.upd, a3, k3, afterVal_eq, ha, setCur_current, textMems, sep]
      simp
end


end SF.Json.Enc
